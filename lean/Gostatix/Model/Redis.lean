/-
  Gostatix.Model.Redis — Redis-level models of the Redis-backed variants.

  * the store: a Redis database as a map from key to value (`Val`: string of bytes, list, hash,
    sorted set), with `get`/`set`/`del`;
  * key naming: the handle of every structure (parameters + the 16-letter random base keys made by
    `util.GenerateRandomString(16)`) and the exact Redis keys it touches (`keysOf`), transcribing
    the Go string concatenations;
  * `Op`/`Script`: an operation is a function `Store → Store × result`; a Lua script is an
    operation that may abort (`none`) *keeping the writes done so far* (Redis does not roll back);
  * the Redis commands used by the library (`LINDEX`, `LSET`, `LRANGE`, `RPUSH`, `LPUSH`, `DEL`,
    `HSET`, `HGETALL`, `SET`, `SETBIT`, `GETBIT`) on that store;
  * the Lua scripts / pipelines of count_min_sketch_redis.go, hyperloglog_redis.go,
    bitset_redis.go transcribed command by command;
  * the constructors' metadata `HSET` (`create…`) and the `New…FromKey` re-attachment (`attach…`).

  Numbers are stored in Redis as decimal strings: `decimal`/`parseDecimal`.
  Modelling assumptions (tie-checked at run time by the harness, not proved):
    - Lua `tonumber` is modelled by `parseDecimal` (plain decimal digits); every value the
      library itself writes is of that form.  Lua numbers are float64, so the model is exact
      for counters below 2^53.
    - `unpack` of a Lua table is modelled for any length (real Lua refuses ≥ ~8000 elements).
  Core Lean only (linked into the driver executable).
-/
import Gostatix.Model.Basic
import Gostatix.Model.Bloom
import Gostatix.Model.CMS
import Gostatix.Model.HLL
namespace Gostatix.Redis

/-! ## decimal strings -/

/-- `strconv.FormatUint(n, 10)` / go-redis' argument encoding of an unsigned integer /
    Lua's `tostring` of a non-negative integer-valued number. -/
def decimal (n : Nat) : String := n.repr

/-- a non-empty string of ASCII digits read in base 10; anything else is rejected. -/
def parseDecimal (s : String) : Option Nat :=
  let cs := s.toList
  if cs ≠ [] ∧ cs.all Char.isDigit = true then some (Nat.ofDigitChars 10 cs 0) else none

/-- `n, _ := strconv.Atoi(s)` with the error dropped: 0 for anything that is not a number,
    the largest `int` (64-bit) on a range error.
    (Signs are not modelled: the library never writes one.) -/
def atoi (s : String) : Nat :=
  match parseDecimal s with
  | some n => min n (2 ^ 63 - 1)
  | none => 0

/-- `n, _ := strconv.ParseUint(s, 10, 32)`: 0 on a syntax error, `2^32 - 1` on a range error. -/
def parseUint32 (s : String) : Nat :=
  match parseDecimal s with
  | some n => min n (2 ^ 32 - 1)
  | none => 0

/-! ## the store -/

inductive Val where
  | str (bytes : List UInt8)
  | list (l : List String)
  | hash (h : List (String × String))
  | zset (z : List (String × Nat))
  deriving Repr, DecidableEq

/-- a Redis database: key ↦ value (absent = `none`). -/
abbrev Store := String → Option Val

namespace Store
def empty : Store := fun _ => none
def get (s : Store) (k : String) : Option Val := s k
def set (s : Store) (k : String) (v : Val) : Store := fun k' => if k' = k then some v else s k'
def del (s : Store) (k : String) : Store := fun k' => if k' = k then none else s k'
end Store

/-! ## handles and key naming -/

/-- a key produced by `util.GenerateRandomString(16)`: 16 ASCII letters. -/
def IsBase (s : String) : Prop := s.length = 16 ∧ ∀ c ∈ s.toList, c.isAlpha = true

instance (s : String) : Decidable (IsBase s) := by unfold IsBase; exact inferInstance

structure BloomHandle where
  size : Nat
  k : Nat
  bitsetKey : String
  metadataKey : String
  deriving Repr, DecidableEq

structure CuckooHandle where
  n : Nat
  bsize : Nat
  fpl : Nat
  retries : Nat
  key : String
  metadataKey : String
  deriving Repr, DecidableEq

structure CMSHandle where
  rows : Nat
  cols : Nat
  key : String
  metadataKey : String
  deriving Repr, DecidableEq

structure HLLHandle where
  m : Nat
  key : String
  metadataKey : String
  deriving Repr, DecidableEq

/-- `errorRate`/`accuracy` are kept as the opaque strings go-redis writes for the two floats. -/
structure TopKHandle where
  k : Nat
  errorRate : String
  accuracy : String
  heapKey : String
  metadataKey : String
  sketch : CMSHandle
  deriving Repr, DecidableEq

/-- the shapes of Redis keys the library builds from a base key. -/
inductive KeyD where
  | base (b : String)                 -- the base key itself
  | row (b : String) (r : Nat)        -- count-min sketch row list
  | bucket (b : String) (i : Nat)     -- cuckoo bucket list
  | blen (b : String) (i : Nat)       -- cuckoo bucket length counter
  deriving Repr, DecidableEq

namespace KeyD
/-- the Go concatenations: `cms.key .. tostring(i-1)` (Lua, no separator),
    `"cuckoo_" + key + "_bucket_" + strconv.FormatUint(i, 10)`, `bucket.key + "_len"`. -/
def render : KeyD → String
  | base b => b
  | row b r => b ++ decimal r
  | bucket b i => "cuckoo_" ++ b ++ "_bucket_" ++ decimal i
  | blen b i => "cuckoo_" ++ b ++ "_bucket_" ++ decimal i ++ "_len"

def baseOf : KeyD → String
  | base b => b
  | row b _ => b
  | bucket b _ => b
  | blen b _ => b
end KeyD

def cmsRowKey (key : String) (r : Nat) : String := key ++ decimal r
def cuckooBucketKey (key : String) (i : Nat) : String := "cuckoo_" ++ key ++ "_bucket_" ++ decimal i
def cuckooLenKey (key : String) (i : Nat) : String := cuckooBucketKey key i ++ "_len"

namespace BloomHandle
def bases (h : BloomHandle) : List String := [h.bitsetKey, h.metadataKey]
def descr (h : BloomHandle) : List KeyD := [.base h.bitsetKey, .base h.metadataKey]
def keysOf (h : BloomHandle) : List String := h.descr.map KeyD.render
end BloomHandle

namespace CuckooHandle
def bases (h : CuckooHandle) : List String := [h.key, h.metadataKey]
def descr (h : CuckooHandle) : List KeyD :=
  [.base h.key, .base h.metadataKey] ++ ((List.range h.n).map (KeyD.bucket h.key)
    ++ (List.range h.n).map (KeyD.blen h.key))
def keysOf (h : CuckooHandle) : List String := h.descr.map KeyD.render
end CuckooHandle

namespace CMSHandle
def bases (h : CMSHandle) : List String := [h.key, h.metadataKey]
/-- NB the sketch's `key` itself is never a Redis key: only `key ++ decimal r`. -/
def descr (h : CMSHandle) : List KeyD := .base h.metadataKey :: (List.range h.rows).map (KeyD.row h.key)
def keysOf (h : CMSHandle) : List String := h.descr.map KeyD.render
end CMSHandle

namespace HLLHandle
def bases (h : HLLHandle) : List String := [h.key, h.metadataKey]
def descr (h : HLLHandle) : List KeyD := [.base h.key, .base h.metadataKey]
def keysOf (h : HLLHandle) : List String := h.descr.map KeyD.render
end HLLHandle

namespace TopKHandle
def bases (h : TopKHandle) : List String := [h.heapKey, h.metadataKey] ++ h.sketch.bases
def descr (h : TopKHandle) : List KeyD := [.base h.heapKey, .base h.metadataKey] ++ h.sketch.descr
def keysOf (h : TopKHandle) : List String := h.descr.map KeyD.render
end TopKHandle

/-- a handle of any kind. -/
inductive Handle where
  | bloom (h : BloomHandle)
  | cuckoo (h : CuckooHandle)
  | cms (h : CMSHandle)
  | hll (h : HLLHandle)
  | topk (h : TopKHandle)
  deriving Repr, DecidableEq

namespace Handle
def bases : Handle → List String
  | bloom h => h.bases | cuckoo h => h.bases | cms h => h.bases | hll h => h.bases | topk h => h.bases
def descr : Handle → List KeyD
  | bloom h => h.descr | cuckoo h => h.descr | cms h => h.descr | hll h => h.descr | topk h => h.descr
def keysOf (h : Handle) : List String := h.descr.map KeyD.render
end Handle

/-! ## operations and scripts -/

/-- an operation on the database returning a result. -/
abbrev Op (ρ : Type) := Store → Store × ρ

/-- a Lua script / command: may abort with an error (`none`); the writes done before the error
    stay in the store. -/
abbrev Script (α : Type) := Op (Option α)

namespace Script
def pure {α} (a : α) : Script α := fun s => (s, some a)
def fail {α} : Script α := fun s => (s, none)
def bind {α β} (m : Script α) (f : α → Script β) : Script β := fun s =>
  match m s with
  | (s', some a) => f a s'
  | (s', none) => (s', none)
/-- `redis.pcall`: an error of the command is swallowed. -/
def try_ {α} (m : Script α) : Script (Option α) := fun s =>
  match m s with
  | (s', r) => (s', some r)
end Script

infixl:55 " >>=ₛ " => Script.bind

/-! ### Redis commands -/

def cmdDEL (k : String) : Script Unit := fun s => (s.del k, some ())

def cmdLINDEX (k : String) (i : Nat) : Script (Option String) := fun s =>
  match s k with
  | none => (s, some none)
  | some (.list l) => (s, some l[i]?)
  | some _ => (s, none)

def cmdLSET (k : String) (i : Nat) (v : String) : Script Unit := fun s =>
  match s k with
  | some (.list l) => if i < l.length then (s.set k (.list (l.set i v)), some ()) else (s, none)
  | _ => (s, none)

/-- `LRANGE k 0 -1` -/
def cmdLRANGE (k : String) : Script (List String) := fun s =>
  match s k with
  | none => (s, some [])
  | some (.list l) => (s, some l)
  | some _ => (s, none)

def cmdRPUSH (k : String) (vs : List String) : Script Unit := fun s =>
  if vs = [] then (s, none) else
  match s k with
  | none => (s.set k (.list vs), some ())
  | some (.list l) => (s.set k (.list (l ++ vs)), some ())
  | some _ => (s, none)

def cmdLPUSH (k : String) (vs : List String) : Script Unit := fun s =>
  if vs = [] then (s, none) else
  match s k with
  | none => (s.set k (.list vs.reverse), some ())
  | some (.list l) => (s.set k (.list (vs.reverse ++ l)), some ())
  | some _ => (s, none)

/-- set field `f` of an association list, keeping the position of an existing field. -/
def hashSet : List (String × String) → String → String → List (String × String)
  | [], f, v => [(f, v)]
  | (f', v') :: h, f, v => if f' = f then (f, v) :: h else (f', v') :: hashSet h f v

def hashGet : List (String × String) → String → Option String
  | [], _ => none
  | (f', v') :: h, f => if f' = f then some v' else hashGet h f

def hashSetAll (h : List (String × String)) (fvs : List (String × String)) : List (String × String) :=
  fvs.foldl (fun h fv => hashSet h fv.1 fv.2) h

def cmdHSET (k : String) (fvs : List (String × String)) : Script Unit := fun s =>
  match s k with
  | none => (s.set k (.hash (hashSetAll [] fvs)), some ())
  | some (.hash h) => (s.set k (.hash (hashSetAll h fvs)), some ())
  | some _ => (s, none)

def cmdHGETALL (k : String) : Script (List (String × String)) := fun s =>
  match s k with
  | none => (s, some [])
  | some (.hash h) => (s, some h)
  | some _ => (s, none)

def cmdSET (k : String) (bytes : List UInt8) : Script Unit := fun s => (s.set k (.str bytes), some ())

/-- bit `n` of a Redis string: byte `n / 8`, bit `7 - n % 8` (most significant bit first). -/
def getBit (bytes : List UInt8) (n : Nat) : Bool := (bytes.getD (n / 8) 0).toNat.testBit (7 - n % 8)

def setBitByte (b : UInt8) (j : Nat) : UInt8 := UInt8.ofNat (b.toNat ||| 2 ^ (7 - j))

/-- `SETBIT … n 1`: the string is zero-padded up to byte `n / 8` when too short. -/
def setBit (bytes : List UInt8) (n : Nat) : List UInt8 :=
  let padded := bytes ++ List.replicate (n / 8 + 1 - bytes.length) 0
  modAt padded (n / 8) (fun b => setBitByte b (n % 8))

def cmdGETBIT (k : String) (n : Nat) : Script Bool := fun s =>
  match s k with
  | none => (s, some false)
  | some (.str b) => (s, some (getBit b n))
  | some _ => (s, none)

def cmdSETBIT (k : String) (n : Nat) : Script Unit := fun s =>
  match s k with
  | none => (s.set k (.str (setBit [] n)), some ())
  | some (.str b) => (s.set k (.str (setBit b n)), some ())
  | some _ => (s, none)

/-- Lua `tonumber(v)` followed by arithmetic/comparison: `nil` (absent or unparsable) raises. -/
def luaNumber (v : Option String) : Script Nat := fun s =>
  match v with
  | some x => (match parseDecimal x with | some n => (s, some n) | none => (s, none))
  | none => (s, none)

/-! ## Count-Min Sketch (count_min_sketch_redis.go) -/

/-- `initMatrix`: per row `DEL rowKey; LPUSH rowKey 0 … 0` (`columns` zeros). -/
def cmsInitLoop (key : String) (cols : Nat) : Nat → Nat → Script Unit
  | _, 0 => Script.pure ()
  | r, n + 1 =>
    cmdDEL (cmsRowKey key r) >>=ₛ fun _ =>
    cmdLPUSH (cmsRowKey key r) (List.replicate cols (decimal 0)) >>=ₛ fun _ =>
    cmsInitLoop key cols (r + 1) n

def cmsInit (h : CMSHandle) : Script Unit := cmsInitLoop h.key h.cols 0 h.rows

/-- `Update` script: for the `r`-th position `c`: `LINDEX row c`, add, `pcall LSET row c val`. -/
def cmsUpdateLoop (key : String) (count : Nat) : Nat → List Nat → Script Unit
  | _, [] => Script.pure ()
  | r, c :: cs =>
    cmdLINDEX (cmsRowKey key r) c >>=ₛ fun v =>
    luaNumber v >>=ₛ fun n =>
    Script.try_ (cmdLSET (cmsRowKey key r) c (decimal (n + count))) >>=ₛ fun _ =>
    cmsUpdateLoop key count (r + 1) cs

/-- `Update(data, count)` with `pos = getPositions(data)` (one column per row). -/
def cmsUpdate (h : CMSHandle) (pos : List Nat) (count : Nat) : Script Unit :=
  cmsUpdateLoop h.key count 0 pos

/-- `Count` script: `if count < min or tonumber(KEYS[i]) == 0 then min = count end`. -/
def cmsCountLoop (key : String) : Nat → List Nat → Nat → Script Nat
  | _, [], mn => Script.pure mn
  | r, c :: cs, mn =>
    cmdLINDEX (cmsRowKey key r) c >>=ₛ fun v =>
    luaNumber v >>=ₛ fun n =>
    cmsCountLoop key (r + 1) cs (if n < mn ∨ r = 0 then n else mn)

def cmsCount (h : CMSHandle) (pos : List Nat) : Script Nat := cmsCountLoop h.key 0 pos 0

/-- `vals3[j] = tonumber(vals1[j]) + tonumber(vals2[j])` for `j = 1 … columns`. -/
def cmsAddVals : Nat → List String → List String → Script (List String)
  | 0, _, _ => Script.pure []
  | n + 1, l1, l2 =>
    luaNumber l1.head? >>=ₛ fun x =>
    luaNumber l2.head? >>=ₛ fun y =>
    cmsAddVals n l1.tail l2.tail >>=ₛ fun rest =>
    Script.pure (decimal (x + y) :: rest)

/-- `mergeMatrix` script, rows `r … r + n - 1`. -/
def cmsMergeLoop (key1 key2 : String) (cols : Nat) : Nat → Nat → Script Unit
  | _, 0 => Script.pure ()
  | r, n + 1 =>
    cmdLRANGE (cmsRowKey key1 r) >>=ₛ fun vals1 =>
    cmdLRANGE (cmsRowKey key2 r) >>=ₛ fun vals2 =>
    cmsAddVals cols vals1 vals2 >>=ₛ fun vals3 =>
    cmdDEL (cmsRowKey key1 r) >>=ₛ fun _ =>
    cmdRPUSH (cmsRowKey key1 r) vals3 >>=ₛ fun _ =>
    cmsMergeLoop key1 key2 cols (r + 1) n

/-- `Merge`: Go-side dimension checks (rows, then columns), then the script. -/
def cmsMerge (h1 h2 : CMSHandle) : Script Unit :=
  if h1.rows ≠ h2.rows then Script.fail
  else if h1.cols ≠ h2.cols then Script.fail
  else cmsMergeLoop h1.key h2.key h1.cols 0 h1.rows

/-- a row list read back as numbers: exactly `cols` decimal entries. -/
def optAll {α} : List (Option α) → Option (List α)
  | [] => some []
  | none :: _ => none
  | some a :: l => (optAll l).map (a :: ·)

def readNums (l : List String) : Option (List Nat) := optAll (l.map parseDecimal)

def cmsReadRow (s : Store) (key : String) (cols : Nat) (r : Nat) : Option (List Nat) :=
  match s (cmsRowKey key r) with
  | some (.list l) => if l.length = cols then readNums l else none
  | _ => none

/-- the in-memory sketch a store represents under a handle. -/
def absCMS (s : Store) (h : CMSHandle) : Option CMS :=
  (optAll ((List.range h.rows).map (cmsReadRow s h.key h.cols))).map
    fun m => { rows := h.rows, cols := h.cols, m := m }

/-! ## HyperLogLog (hyperloglog_redis.go) -/

/-- `initRegisters`: `for i=1, size/2` builds `⌊m/2⌋` zeros, pushed twice (no `DEL`). -/
def hllInit (h : HLLHandle) : Script Unit :=
  cmdLPUSH h.key (List.replicate (h.m / 2) (decimal 0)) >>=ₛ fun _ =>
  cmdLPUSH h.key (List.replicate (h.m / 2) (decimal 0))

/-- `updateRegisters` script. -/
def hllUpdate (h : HLLHandle) (idx val : Nat) : Script Unit :=
  cmdLINDEX h.key idx >>=ₛ fun count =>
  luaNumber count >>=ₛ fun old =>
  cmdLSET h.key idx (if val > old then decimal val else count.getD "")

/-- the merge loop `if tonumber(vals1[i]) < tonumber(vals2[i]) then vals1[i] = vals2[i] end`
    for `i = 1 … size`; elements of `vals1` beyond `size` are kept. -/
def hllMergeVals : Nat → List String → List String → Script (List String)
  | 0, l1, _ => Script.pure l1
  | n + 1, l1, l2 =>
    luaNumber l1.head? >>=ₛ fun x =>
    luaNumber l2.head? >>=ₛ fun y =>
    hllMergeVals n l1.tail l2.tail >>=ₛ fun rest =>
    Script.pure ((if x < y then l2.head?.getD "" else l1.head?.getD "") :: rest)

/-- `mergeRegisters` script (after the fix: `DEL` then `RPUSH`); the `LRANGE`s are `pcall`ed, an
    error table then behaves as an empty table and the loop raises. -/
def hllMergeScript (key1 key2 : String) (size : Nat) : Script Unit :=
  Script.try_ (cmdLRANGE key1) >>=ₛ fun v1 =>
  Script.try_ (cmdLRANGE key2) >>=ₛ fun v2 =>
  hllMergeVals size (v1.getD []) (v2.getD []) >>=ₛ fun vals =>
  Script.try_ (cmdDEL key1) >>=ₛ fun _ =>
  Script.try_ (cmdRPUSH key1 vals) >>=ₛ fun _ =>
  Script.pure ()

def hllMerge (h g : HLLHandle) : Script Unit :=
  if h.m ≠ g.m then Script.fail else hllMergeScript h.key g.key h.m

/-- compare loop `if tonumber(vals1[i]) ~= tonumber(vals2[i]) then return false end`
    (`nil ~= nil` is false: two missing/unparsable entries compare equal). -/
def hllCompareVals : Nat → List String → List String → Bool
  | 0, _, _ => true
  | n + 1, l1, l2 =>
    if (l1.head?.bind parseDecimal) ≠ (l2.head?.bind parseDecimal) then false
    else hllCompareVals n l1.tail l2.tail

/-- `Equals`: `(false, nil)` for different register counts, else the script. -/
def hllEquals (h g : HLLHandle) : Script Bool :=
  if h.m ≠ g.m then Script.pure false else
  Script.try_ (cmdLRANGE h.key) >>=ₛ fun v1 =>
  Script.try_ (cmdLRANGE g.key) >>=ₛ fun v2 =>
  Script.pure (hllCompareVals h.m (v1.getD []) (v2.getD []))

def absHLL (s : Store) (h : HLLHandle) : Option HLL :=
  match s h.key with
  | some (.list l) => if l.length = h.m then (readNums l).map fun regs => { m := h.m, regs := regs } else none
  | _ => none

/-! ## Bloom filter (bitset_redis.go + bloom_filter.go) -/

/-- `newBitSetRedis(size)`: `SET key <size zero BYTES>` (the Go code allocates `size` bytes for a
    `size`-bit set, i.e. eight times what is needed). -/
def bloomInit (h : BloomHandle) : Script Unit := cmdSET h.bitsetKey (List.replicate h.size 0)

/-- `insertMulti`: pipelined `SETBIT key idx 1`. -/
def bloomInsertLoop (key : String) : List Nat → Script Unit
  | [] => Script.pure ()
  | p :: ps => cmdSETBIT key p >>=ₛ fun _ => bloomInsertLoop key ps

/-- `Insert` for the probe list `ps` (the Go code ignores the pipeline's error). -/
def bloomInsert (h : BloomHandle) (ps : List Nat) : Script Unit := bloomInsertLoop h.bitsetKey ps

/-- `Lookup`: `GETBIT` per probe, stop at the first 0 (`if ok, _ := has(..); !ok {return false}`:
    an error also reads as `false`). -/
def bloomLookupLoop (key : String) : List Nat → Script Bool
  | [] => Script.pure true
  | p :: ps => Script.try_ (cmdGETBIT key p) >>=ₛ fun b =>
      if b.getD false then bloomLookupLoop key ps else Script.pure false

def bloomLookup (h : BloomHandle) (ps : List Nat) : Script Bool := bloomLookupLoop h.bitsetKey ps

/-- all bits of a byte string, in `GETBIT` order. -/
def bitsOf (bytes : List UInt8) : List Bool := (List.range (8 * bytes.length)).map (getBit bytes)

/-- the in-memory filter a store represents: the first `size` bits of the string. -/
def absBloom (s : Store) (h : BloomHandle) : Option Bloom :=
  match s h.bitsetKey with
  | some (.str b) =>
    if h.size ≤ 8 * b.length then some { size := h.size, k := h.k, bits := (bitsOf b).take h.size }
    else none
  | _ => none

/-! ## metadata: constructors' `HSET` and `New…FromKey` -/

/-- `NewRedisBloomFilterWithParameters` (after fix fa61ac6): writes `util.Max(size, 1)` and
    `util.Max(numHashes, 1)` — the values the returned filter uses (`NewBloomFilterWithBitSet`
    clamps both to at least 1) — and the bitset key. -/
def bloomCreateRaw (size numHashes : Nat) (bitsetKey metadataKey : String) : Script BloomHandle :=
  cmdHSET metadataKey [("size", decimal (max size 1)), ("numHashes", decimal (max numHashes 1)),
      ("bitsetKey", bitsetKey)]
    >>=ₛ fun _ => Script.pure
      { size := max size 1, k := max numHashes 1, bitsetKey := bitsetKey, metadataKey := metadataKey }

/-- the metadata `HSET` for a given handle (both Redis constructors write the clamped values the filter uses). -/
def bloomCreate (h : BloomHandle) : Script Unit :=
  cmdHSET h.metadataKey [("size", decimal h.size), ("numHashes", decimal h.k), ("bitsetKey", h.bitsetKey)]

def field (vals : List (String × String)) (f : String) : String := (hashGet vals f).getD ""

/-- `NewRedisBloomFilterFromKey` (an absent key gives an empty map, every field reads `""`/0). -/
def bloomAttach (s : Store) (metadataKey : String) : Option BloomHandle :=
  match (cmdHGETALL metadataKey s).2 with
  | none => none
  | some vals => some
      { size := atoi (field vals "size"), k := atoi (field vals "numHashes"),
        bitsetKey := field vals "bitsetKey", metadataKey := metadataKey }

/-- `setMetadata(length)` of the cuckoo filter. -/
def cuckooSetMetadata (h : CuckooHandle) (length : Nat) : Script Unit :=
  cmdHSET h.metadataKey
    [("size", decimal h.n), ("bucketSize", decimal h.bsize), ("fingerPrintLength", decimal h.fpl),
     ("retries", decimal h.retries), ("key", h.key), ("length", decimal length)]

def cuckooCreate (h : CuckooHandle) : Script Unit := cuckooSetMetadata h 0

/-- `NewCuckooFilterRedisFromKey`; the bucket handles are re-created from `(key, size, bucketSize)`
    by `localInitBuckets`, i.e. they are `cuckooBucketKey key i` for `i < size` again. -/
def cuckooAttach (s : Store) (metadataKey : String) : Option CuckooHandle :=
  match (cmdHGETALL metadataKey s).2 with
  | none => none
  | some vals => some
      { n := atoi (field vals "size"), bsize := atoi (field vals "bucketSize"),
        fpl := atoi (field vals "fingerPrintLength"), retries := atoi (field vals "retries"),
        key := field vals "key", metadataKey := metadataKey }

def cmsCreate (h : CMSHandle) : Script Unit :=
  cmdHSET h.metadataKey [("rows", decimal h.rows), ("columns", decimal h.cols), ("key", h.key)]

/-- `NewCountMinSketchRedisFromKey`: error unless `rows > 0` and `columns > 0`. -/
def cmsAttach (s : Store) (metadataKey : String) : Option CMSHandle :=
  match (cmdHGETALL metadataKey s).2 with
  | none => none
  | some vals =>
    let rows := atoi (field vals "rows")
    let cols := atoi (field vals "columns")
    if rows = 0 ∨ cols = 0 then none
    else some { rows := rows, cols := cols, key := field vals "key", metadataKey := metadataKey }

def hllCreate (h : HLLHandle) : Script Unit :=
  cmdHSET h.metadataKey [("numRegisters", decimal h.m), ("key", h.key)]

/-- `NewHyperLogLogRedisFromKey`: `makeAbstractHyperLogLog` panics on 0 and errors unless the
    number of registers is a power of two (`m & (m-1) == 0`); `numBytesPerHash` and
    `correctionBias` are functions of `m` only, so they are not part of the handle. -/
def hllAttach (s : Store) (metadataKey : String) : Option HLLHandle :=
  match (cmdHGETALL metadataKey s).2 with
  | none => none
  | some vals =>
    let m := atoi (field vals "numRegisters")
    if m = 0 ∨ m &&& (m - 1) ≠ 0 then none
    else some { m := m, key := field vals "key", metadataKey := metadataKey }

/-- `NewTopKRedis`: the nested sketch's metadata (by `NewCountMinSketchRedis`), then its own. -/
def topkCreate (h : TopKHandle) : Script Unit :=
  cmsCreate h.sketch >>=ₛ fun _ =>
  cmdHSET h.metadataKey
    [("k", decimal h.k), ("heapKey", h.heapKey), ("errorRate", h.errorRate),
     ("accuracy", h.accuracy), ("sketchKey", h.sketch.metadataKey)]

/-- `NewTopKRedisFromKey`: reads its own hash, then the sketch's through `sketchKey`.  (The Go
    code drops the sketch's error and keeps a nil sketch; here that is `none`.) -/
def topkAttach (s : Store) (metadataKey : String) : Option TopKHandle :=
  match (cmdHGETALL metadataKey s).2 with
  | none => none
  | some vals =>
    match cmsAttach s (field vals "sketchKey") with
    | none => none
    | some sk => some
        { k := parseUint32 (field vals "k"), errorRate := field vals "errorRate",
          accuracy := field vals "accuracy", heapKey := field vals "heapKey",
          metadataKey := metadataKey, sketch := sk }

/-! ## key sets from plain data (for the driver's text protocol) -/

/-- `keysOf` of the handle of the given kind built from plain data; parameters that do not
    influence the key set are filled with 0.  `none` for an unknown kind or a wrong number of
    parameters / base keys.
    * `"bloom"`  — params `[]`,      bases `[bitsetKey, metadataKey]`
    * `"cuckoo"` — params `[n]`,     bases `[key, metadataKey]`
    * `"cms"`    — params `[rows]`,  bases `[key, metadataKey]`
    * `"hll"`    — params `[]`,      bases `[key, metadataKey]`
    * `"topk"`   — params `[rows]` (of the sketch), bases `[heapKey, metadataKey, sketchKey, sketchMetadataKey]` -/
def keysOfKind (kind : String) (params : List Nat) (bases : List String) : Option (List String) :=
  match kind, params, bases with
  | "bloom", [], [bk, mk] =>
    some (BloomHandle.keysOf { size := 0, k := 0, bitsetKey := bk, metadataKey := mk })
  | "cuckoo", [n], [key, mk] =>
    some (CuckooHandle.keysOf { n := n, bsize := 0, fpl := 0, retries := 0, key := key, metadataKey := mk })
  | "cms", [rows], [key, mk] =>
    some (CMSHandle.keysOf { rows := rows, cols := 0, key := key, metadataKey := mk })
  | "hll", [], [key, mk] =>
    some (HLLHandle.keysOf { m := 0, key := key, metadataKey := mk })
  | "topk", [rows], [hk, mk, sk, smk] =>
    let sketch : CMSHandle := { rows := rows, cols := 0, key := sk, metadataKey := smk }
    some (TopKHandle.keysOf
      { k := 0, errorRate := "", accuracy := "", heapKey := hk, metadataKey := mk, sketch := sketch })
  | _, _, _ => none

/-! ## text protocol (filled in by the driver integration) -/

def handle (_args : List String) : Except String String := throw "redis:unimplemented"

end Gostatix.Redis
