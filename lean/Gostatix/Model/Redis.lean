/-
  Gostatix.Model.Redis — Redis-level models (filled in below): the store, the commands and Lua
  scripts the Redis-backed variants issue, key naming.
-/
import Gostatix.Model.Basic
namespace Gostatix.Redis

def handle (_args : List String) : Except String String := throw "redis:unimplemented"

end Gostatix.Redis
