/-
  Gostatix.Model.RedisTopK — Redis-store-level model of the sorted set used by top_k_redis.go.

  One level below `Gostatix.TopK.offerRedis` (Model/TopK.lean: a function on a sorted list): the
  heap is the Redis sorted set at `heapKey` of a `Store` (Model/Redis.lean, `Val.zset`), and
  `TopKRedis.Insert` is the sequence of separate commands the Go code issues once the estimate
  `f` is known:

      ZCARD;  ZRANGE 0 0 WITHSCORES;
      if card < k || (len(min) > 0 && f >= min[0].Score):
          index := ZSCORE(element).Val()          -- 0 for a missing member (error dropped)
          if index > 0: ZREM(element)
          ZADD(element, f);  ZCARD;  if card > k: ZPOPMIN

  and `Values` is `ZRANGE 0 -1 WITHSCORES` followed by the Go-side reversal and `sort.Slice`.

  Representation: a sorted set value is the list of its (member, score) pairs in `ZRANGE 0 -1`
  order, i.e. ascending by (score, member bytes) — `TopK.zLt` — without repeated members
  (`ZWf`).  The commands are written on that canonical list: ZRANGE 0 0 is the head, ZPOPMIN
  drops the head, ZADD removes the member's old entry and inserts the new pair at its sorted
  position (`TopK.zadd`), ZREM filters.  That these preserve `ZWf`, and that the head of a `ZWf`
  list is its (score, member)-minimum, is proved in Props/C08ZSet.lean.  Redis deletes a key
  whose sorted set became empty: `zsetPut`.

  Modelling assumptions: scores are naturals (the library writes `float64(frequency)`, exact
  below 2^53; `uint64(score)` reads it back); member order is Lean's `String` `<`
  (lexicographic by code point, which for valid UTF-8 is the bytewise order Redis uses).
  Core Lean only.
-/
import Gostatix.Model.Redis
import Gostatix.Model.TopK
namespace Gostatix.Redis

/-- canonical sorted-set content: ascending by (score, member), members pairwise different. -/
def ZWf (z : List HElem) : Prop :=
  z.Pairwise (fun a b => TopK.zLt a b = true) ∧ (z.map (·.1)).Nodup

instance (z : List HElem) : Decidable (ZWf z) := by unfold ZWf; exact inferInstance

/-- the raw content of the sorted set at `k` (absent key = empty set). -/
def zsetAt (st : Store) (k : String) : Option (List HElem) :=
  match st k with
  | none => some []
  | some (.zset z) => some z
  | some _ => none

/-- the sorted set a store represents at `k`: the content, provided it is canonical. -/
def absZSet (st : Store) (k : String) : Option (List HElem) :=
  match zsetAt st k with
  | some z => if ZWf z then some z else none
  | none => none

/-- write a sorted set back; an empty one deletes the key. -/
def zsetPut (st : Store) (k : String) (z : List HElem) : Store :=
  if z = [] then st.del k else st.set k (.zset z)

/-! ## commands -/

def cmdZCARD (k : String) : Script Nat := fun s =>
  match zsetAt s k with
  | some z => (s, some z.length)
  | none => (s, none)

/-- `ZRANGE k 0 0 WITHSCORES`: the smallest element, if any. -/
def cmdZRANGE0 (k : String) : Script (List HElem) := fun s =>
  match zsetAt s k with
  | some z => (s, some (z.take 1))
  | none => (s, none)

/-- `ZRANGE k 0 -1 WITHSCORES`. -/
def cmdZRANGEALL (k : String) : Script (List HElem) := fun s =>
  match zsetAt s k with
  | some z => (s, some z)
  | none => (s, none)

def zscore (z : List HElem) (x : String) : Option Nat := (z.find? (fun e => e.1 == x)).map (·.2)

/-- `ZSCORE k x` (`none` = nil reply). -/
def cmdZSCORE (k : String) (x : String) : Script (Option Nat) := fun s =>
  match zsetAt s k with
  | some z => (s, some (zscore z x))
  | none => (s, none)

def zrem (z : List HElem) (x : String) : List HElem := z.filter (fun e => e.1 != x)

/-- `ZREM k x`: the number of members removed. -/
def cmdZREM (k : String) (x : String) : Script Nat := fun s =>
  match zsetAt s k with
  | some z => (zsetPut s k (zrem z x), some (z.length - (zrem z x).length))
  | none => (s, none)

/-- `ZADD k f x` (update or insert): the number of NEW members. -/
def cmdZADD (k : String) (x : String) (f : Nat) : Script Nat := fun s =>
  match zsetAt s k with
  | some z => (zsetPut s k (TopK.zadd z x f), some (if (zscore z x).isSome then 0 else 1))
  | none => (s, none)

/-- `ZPOPMIN k`: removes and returns the smallest element, if any. -/
def cmdZPOPMIN (k : String) : Script (List HElem) := fun s =>
  match zsetAt s k with
  | some z => (zsetPut s k z.tail, some (z.take 1))
  | none => (s, none)

/-! ## top_k_redis.go -/

/-- the Go condition
    `heapLength < uint64(t.k) || (len(minElement) > 0 && frequency >= uint64(minElement[0].Score))`. -/
def offerGuard (heapLength k : Nat) (minElement : List HElem) (f : Nat) : Bool :=
  decide (heapLength < k) ||
    (match minElement.head? with | some mn => decide (f ≥ mn.2) | none => false)

/-- the heap part of `TopKRedis.Insert(element, …)` once `frequency = f` is known; `none` is the
    early `return err`. -/
def topkInsertCmds (heapKey : String) (k : Nat) (x : String) (f : Nat) : Script Unit :=
  cmdZCARD heapKey >>=ₛ fun heapLength =>
  cmdZRANGE0 heapKey >>=ₛ fun minElement =>
  if offerGuard heapLength k minElement f then
    -- `index := ZScore(…).Val()`: nil reply or error → 0
    Script.try_ (cmdZSCORE heapKey x) >>=ₛ fun index =>
    (if (index.getD none).getD 0 > 0 then cmdZREM heapKey x >>=ₛ fun _ => Script.pure ()
     else Script.pure ()) >>=ₛ fun _ =>
    cmdZADD heapKey x f >>=ₛ fun _ =>
    cmdZCARD heapKey >>=ₛ fun heapLength =>
    if heapLength > k then cmdZPOPMIN heapKey >>=ₛ fun _ => Script.pure () else Script.pure ()
  else Script.pure ()

/-- `Values()`: `ZRANGE 0 -1 WITHSCORES`, copied in reverse, then `sort.Slice` by (count
    descending, element ascending). -/
def topkValues (heapKey : String) : Script (List HElem) :=
  cmdZRANGEALL heapKey >>=ₛ fun elements => Script.pure (TopK.values elements.reverse)

end Gostatix.Redis
