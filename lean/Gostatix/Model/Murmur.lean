/-
  Gostatix.Model.Murmur — murmur.go (murmur3 x64_128, first word), executable transcription on
  UInt64.  Used by the cuckoo model (`getHash`): element hash, and hash of stored fingerprints.
  No theorem depends on what this function computes; it is a parameter (`H`) in the proofs.
-/
namespace Gostatix.Murmur

def c1 : UInt64 := 0x87c37b91114253d5
def c2 : UInt64 := 0x4cf5ad432745937f

def rotl (x : UInt64) (r : UInt64) : UInt64 := (x <<< r) ||| (x >>> (64 - r))

def fmix64 (k : UInt64) : UInt64 :=
  let k := k ^^^ (k >>> 33)
  let k := k * 0xff51afd7ed558ccd
  let k := k ^^^ (k >>> 33)
  let k := k * 0xc4ceb9fe1a85ec53
  k ^^^ (k >>> 33)

/-- little-endian load of up to 8 bytes (missing bytes are 0) -/
def le64 (bs : List UInt8) : UInt64 :=
  (bs.take 8).foldr (fun b acc => (acc <<< 8) ||| b.toUInt64) 0

/-- block mixing over the full 16-byte blocks; returns state and the tail -/
def bmix : Nat → List UInt8 → UInt64 → UInt64 → UInt64 × UInt64 × List UInt8
  | 0, bs, h1, h2 => (h1, h2, bs)
  | n+1, bs, h1, h2 =>
    let k1 := le64 bs
    let k2 := le64 (bs.drop 8)
    let k1 := k1 * c1
    let k1 := rotl k1 31
    let k1 := k1 * c2
    let h1 := h1 ^^^ k1
    let h1 := rotl h1 27
    let h1 := h1 + h2
    let h1 := h1 * 5 + 0x52dce729
    let k2 := k2 * c2
    let k2 := rotl k2 33
    let k2 := k2 * c1
    let h2 := h2 ^^^ k2
    let h2 := rotl h2 31
    let h2 := h2 + h1
    let h2 := h2 * 5 + 0x38495ab5
    bmix n (bs.drop 16) h1 h2

def sum128 (data : List UInt8) : UInt64 × UInt64 :=
  let dlen := data.length
  let (h1, h2, tail) := bmix (dlen / 16) data 0 0
  let tl := tail.length
  -- tail bytes 8..14 go to k2, 0..7 to k1 (little-endian), exactly the switch/fallthrough of Sum128
  let h2 := if tl > 8 then
      let k2 := le64 (tail.drop 8)
      let k2 := k2 * c2
      let k2 := rotl k2 33
      let k2 := k2 * c1
      h2 ^^^ k2
    else h2
  let h1 := if tl > 0 then
      let k1 := le64 tail
      let k1 := k1 * c1
      let k1 := rotl k1 31
      let k1 := k1 * c2
      h1 ^^^ k1
    else h1
  let h1 := h1 ^^^ dlen.toUInt64
  let h2 := h2 ^^^ dlen.toUInt64
  let h1 := h1 + h2
  let h2 := h2 + h1
  let h1 := fmix64 h1
  let h2 := fmix64 h2
  let h1 := h1 + h2
  let h2 := h2 + h1
  (h1, h2)

/-- `getHash` of base_cuckoo_filter.go -/
def getHash (data : List UInt8) : Nat := (sum128 data).1.toNat

end Gostatix.Murmur
