/-
  Gostatix.Model.CMSM — MACHINE-INTEGER model of the in-memory Count-Min sketch
  (count_min_sketch.go): the same shape as `Model/CMS.lean`, but the counters are `UInt64` and
  every `+` wraps around modulo 2^64, exactly like Go's `uint64`.

  Go (count_min_sketch.go):
      Update:  for r, c := range cms.getPositions(data) { cms.matrix[r][c] += count }
               cms.allSum += count
      Count:   var min uint64
               for r, c := range cms.getPositions(data) {
                   if r == 0 || cms.matrix[r][c] < min { min = cms.matrix[r][c] } }
      Merge:   if cms.rows != cms1.rows { return error }; if cms.columns != cms1.columns { return error }
               for i := range cms.matrix { for j := range cms.matrix[i] { cms.matrix[i][j] += other[i][j] } }
               (`other` = copy of cms1.matrix; `allSum` is NOT touched by Merge)

  The three arithmetic statements are the definitions `cellUpdate`, `allSumUpdate`, `cellMerge`;
  Props/ArithTieCMSCells.lean ties them to the kernels that extract/arith.go translates from the
  current Go source (Generated/Arith.lean: `cmsCellUpdate`, `cmsAllSumUpdate`, `cmsCellMerge`).

  As in `Model/CMS.lean`, `pos : List Nat` is the element's column per row (`getPositions`),
  `rows`/`cols` are `Nat` (Go `uint`), and a position outside the row is a no-op (the Go code would
  panic; the position function of the code is in range, `C03_position_in_range`).
  The Redis variant computes in Lua doubles (exact below 2^53) and is NOT modelled here.
-/
import Gostatix.Model.CMS
namespace Gostatix

structure CMSM where
  rows : Nat
  cols : Nat
  /-- the `allSum` field (`uint64`): `Update` adds the count, `Merge` does not touch it -/
  allSum : UInt64
  m : List (List UInt64)
  deriving Repr, DecidableEq

namespace CMSM

/-- `NewCountMinSketch`: `make([]uint64, columns)` per row, `allSum = 0`. -/
def new (rows cols : Nat) : CMSM :=
  { rows := rows, cols := cols, allSum := 0, m := List.replicate rows (List.replicate cols 0) }

/-- `cms.matrix[r][c] += count` (uint64, wraps). -/
def cellUpdate (cell count : UInt64) : UInt64 := cell + count

/-- `cms.allSum += count` (uint64, wraps). -/
def allSumUpdate (allSum count : UInt64) : UInt64 := allSum + count

/-- `cms.matrix[i][j] += other[i][j]` (uint64, wraps). -/
def cellMerge (a b : UInt64) : UInt64 := a + b

/-- `cellUpdate · c` at column `pos[r]` of every row `r`. -/
def updRowsM : List (List UInt64) → List Nat → UInt64 → List (List UInt64)
  | row :: m, p :: pos, c => modAt row p (fun cell => cellUpdate cell c) :: updRowsM m pos c
  | m, _, _ => m

/-- `Update(data, count)`. -/
def updateM (s : CMSM) (pos : List Nat) (c : UInt64) : CMSM :=
  { s with m := updRowsM s.m pos c, allSum := allSumUpdate s.allSum c }

/-- the cells probed by an element, one per row. -/
def cellsM : List (List UInt64) → List Nat → List UInt64
  | row :: m, p :: pos => row.getD p 0 :: cellsM m pos
  | _, _ => []

/-- `var min uint64`; the first row initialises (`r == 0 || v < min`), `<` on `uint64`. -/
def minInitM : List UInt64 → UInt64
  | [] => 0
  | v :: vs => vs.foldl (fun mn x => if x < mn then x else mn) v

/-- `Count(data)`. -/
def countM (s : CMSM) (pos : List Nat) : UInt64 := minInitM (cellsM s.m pos)

/-- cell-wise `cellMerge` of two matrices. -/
def addRowsM : List (List UInt64) → List (List UInt64) → List (List UInt64)
  | r1 :: m1, r2 :: m2 => List.zipWith cellMerge r1 r2 :: addRowsM m1 m2
  | m1, _ => m1

/-- `Merge`: dimension check (rows first, then columns) as in Go, then cell-wise wrapping addition
    into the receiver; `allSum` of the receiver is kept. -/
def mergeM (a b : CMSM) : CMS.Res CMSM :=
  if a.rows ≠ b.rows then .err
  else if a.cols ≠ b.cols then .err
  else .ok { a with m := addRowsM a.m b.m }

/-- the running total the code keeps (what `Export`/`WriteTo` emit as `s` / `allSum`). -/
def allSumM (s : CMSM) : UInt64 := s.allSum

end CMSM
end Gostatix
