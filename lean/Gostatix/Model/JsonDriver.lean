/-
  Gostatix.Model.JsonDriver — line protocol that ties `Gostatix.Model.Json` (the model the C10
  theorems are about) to the real `Export` / `Import` methods.  Core Lean only.

  One line per observed `Export()` / `Import()` call of the implementation (suite `jsontie` of the
  harness).  The line carries what the harness observed; the model is evaluated on the same
  inputs and must reproduce the observation exactly:

      json.<variant>.export  <state> [<store> [<zstore>]] <doc>
          `exportDoc` applied to <state> (Redis: handle + key space) must give exactly <doc>
      json.<variant>.import  <doc> [<new ids>] <target before> [<store> [<zstore>]] <res>
                             <target after> [<store> [<zstore>]]
          `importDoc` applied to <doc> and the target's prior state must give result tag <res>
          (`ok` | `err` | `panic`) and, unless `panic`, exactly the observed state afterwards

  <variant> ∈ bloom|cuckoo|cms|hll|topk × mem|redis.  Token groups (single-space separated):

    bloom.mem    state   size k bsSize bsLen words        doc  m k bsLen words
    bloom.redis  handle  size k bsSize key mk             doc  m k hex(8-byte size ++ body)
    cuckoo.mem   state   n bsize fpl retries length buckets
    cuckoo.redis handle  n bsize fpl retries key mk nb
    cuckoo       doc     s bs fpl l r buckets bucketkeys k mk
    cms.mem      state   rows cols allSum matrix
    cms.redis    handle  rows cols allSum key mk
    cms          doc     r c s matrix k
    hll.mem      state   m nbp biasBits regs
    hll.redis    handle  m nbp biasBits key mk
    hll          doc     nr nbp cBits regs k
    topk.mem     state   k erBits aBits rows cols allSum matrix heap
    topk.redis   handle  k erBits aBits rows cols allSum sketchKey sketchMk heapKey mk
    topk         doc     k erBits aBits r c s matrix sketchKey heap hk
    new ids              cuckoo.redis: nk nmk   cms.redis: nk   hll.redis: limit nk
                         topk.redis: nhk nsk nsmk            (bloom.redis, *.mem: none)

  Encodings: nat decimal; nat list `-`|`1,2,3`; matrix rows joined by `;`; string list items
  joined by `,` with `_` = empty string; bytes `-`|lowercase hex; buckets `size:len:e1,e2` joined
  by `;`; heap `hexname:freq` joined by `,` (`_` = empty name); floats by their bit pattern.
  Key names are random 16-letter strings; the harness numbers them (`key`, `mk`, … are those
  numbers; in documents `-` = the empty string).  Structured key tokens: `r<id>` (the name
  itself), `b<id>.<i>` (`cuckoo_<name>_bucket_<i>`), `l<id>.<i>` (the same `_len`), `m<id>.<r>`
  (`<name><r>`).  <store> = `-` or `key=val` entries joined by `|` with val one of `s:<hex>`
  (string), `i:<n>` (decimal counter), `S:<string list>`, `n:<nat list>`, `k:<key tokens>`,
  `h:<field>~<n>,…` (hash; key-name values by their number).  <zstore> = `-` or
  `<id>=<heap>` entries joined by `|` (members in (score, member bytes) order).
  A store lists EVERY key of the database, so agreement is checked on all keys that exist before
  or after the call and on every key the model could derive from the ids on the line.
-/
import Gostatix.Model.Json
namespace Gostatix.Json

/-! ### Running the Redis model

  `Store` is a function `Key → Val` and the write commands of Model/Json.lean have the shape
  `st.set k (f (st k))`.  Compiled as they stand, the argument `f (st k)` is evaluated on EVERY
  lookup (also for other keys), i.e. two calls of the previous store per command — exponential in
  the number of commands of an `Import`.  The definitions below are the same terms with `set`
  unfolded (the value is computed only in the branch that returns it) resp. verbatim copies of the
  composite functions, so that the compiler sees them after the `csimp` rules; every one is
  proved EQUAL to the model's definition by `rfl`, so the driver still evaluates exactly the
  functions the C10 theorems are about (a change of the model breaks these proofs). -/
namespace Exec

def rpushStrs (st : Store) (k : Key) (vs : List String) : Store :=
  fun k' => if k' = k then .strs (st.getStrs k ++ vs) else st k'
def rpushNums (st : Store) (k : Key) (vs : List Nat) : Store :=
  fun k' => if k' = k then .nums (st.getNums k ++ vs) else st k'
def lpushNums (st : Store) (k : Key) (vs : List Nat) : Store :=
  fun k' => if k' = k then .nums (vs.reverse ++ st.getNums k) else st k'
def lpushKeys (st : Store) (k : Key) (vs : List Key) : Store :=
  fun k' => if k' = k then .keys (vs.reverse ++ st.getKeys k) else st k'
def incrBy (st : Store) (k : Key) (n : Nat) : Store :=
  fun k' => if k' = k then .int (st.getInt k + n) else st k'
def hset (st : Store) (k : Key) (fs : List (String × Nat)) : Store :=
  fun k' => if k' = k then .hash (fs ++ (st.getHash k).filter (fun p => !fs.any (fun q => q.1 == p.1))) else st k'

@[csimp] theorem rpushStrs_eq : @Store.rpushStrs = @rpushStrs := rfl
@[csimp] theorem rpushNums_eq : @Store.rpushNums = @rpushNums := rfl
@[csimp] theorem lpushNums_eq : @Store.lpushNums = @lpushNums := rfl
@[csimp] theorem lpushKeys_eq : @Store.lpushKeys = @lpushKeys := rfl
@[csimp] theorem incrBy_eq : @Store.incrBy = @incrBy := rfl
@[csimp] theorem hset_eq : @Store.hset = @hset := rfl

-- Cuckoo (verbatim copies of CuckooRedis.setMetadata / initBuckets / importBucket / importDoc)
def cuckooSetMetadata (st : Store) (h : CuckooRedis) (length : Nat) : Store :=
  st.hset (.rand h.metadataKey)
    [("size", h.n), ("bucketSize", h.bsize), ("fingerPrintLength", h.fpl), ("retries", h.retries),
     ("key", h.key), ("length", length)]
@[csimp] theorem cuckooSetMetadata_eq : @CuckooRedis.setMetadata = @cuckooSetMetadata := rfl

def cuckooInitBuckets (st : Store) (h : CuckooRedis) : Store :=
  let st := st.del (.rand h.key)
  let st := forN h.n (fun st i => st.lpushKeys (.rand h.key) [.cuckooBucket h.key i]) st
  forN h.n (fun st i => st.incrBy (.cuckooBucketLen h.key i) 0) st
@[csimp] theorem cuckooInitBuckets_eq : @CuckooRedis.initBuckets = @cuckooInitBuckets := rfl

def cuckooImportBucket (id : Nat) (st : Store) (i : Nat) (d : BucketDoc) : Store :=
  let st := st.incrBy (.cuckooBucketLen id i) 0
  let st := d.e.foldl (fun st e => st.rpushStrs (.cuckooBucket id i) [e]) st
  st.incrBy (.cuckooBucketLen id i) (occupied d.e)
@[csimp] theorem cuckooImportBucket_eq : @CuckooRedis.importBucket = @cuckooImportBucket := rfl

def cuckooImportDoc (d : CuckooDoc) (nk nmk : Nat) (t : CuckooRedis) (st : Store) : CuckooRedis × Store :=
  let h : CuckooRedis :=
    { t with n := d.s, bsize := d.bs, fpl := d.fpl, retries := d.r, key := nk, metadataKey := nmk }
  let st := CuckooRedis.setMetadata st h d.l
  let st := CuckooRedis.initBuckets st h
  let st := forN d.b.length (fun st i => CuckooRedis.importBucket nk st i (d.b.getD i ⟨0, 0, [], none⟩)) st
  ({ h with nb := d.b.length }, st)
@[csimp] theorem cuckooImportDoc_eq : @CuckooRedis.importDoc = @cuckooImportDoc := rfl

-- Count-Min (CMSRedis.setMatrixStep / setMatrix / importDoc / initMatrix)
def cmsSetMatrixStep (id cols : Nat) (flat : List Nat) (acc : Store × Bool) (i : Nat) : Store × Bool :=
  if acc.2 then
    let row := (flat.drop (i * cols)).take cols
    let st := acc.1.del (.cmsRow id i)
    if row = [] then (st, false) else (st.rpushNums (.cmsRow id i) row, true)
  else acc
@[csimp] theorem cmsSetMatrixStep_eq : @CMSRedis.setMatrixStep = @cmsSetMatrixStep := rfl

def cmsSetMatrix (st : Store) (id : Nat) (m : List (List Nat)) : Option (Store × Bool) :=
  match m with
  | [] => none
  | row0 :: _ =>
    let flat := m.flatten
    let cols := row0.length
    some (forN (CMSRedis.setMatrixIters cols flat.length) (CMSRedis.setMatrixStep id cols flat) (st, true))
@[csimp] theorem cmsSetMatrix_eq : @CMSRedis.setMatrix = @cmsSetMatrix := by
  funext st id m; cases m <;> rfl

def cmsImportDoc (d : CMSDoc) (nk : Nat) (t : CMSRedis) (st : Store) : IRes (CMSRedis × Store) :=
  let h : CMSRedis := { t with rows := d.r, cols := d.c, allSum := d.s, key := nk }
  match CMSRedis.setMatrix st nk d.m with
  | none => .panic
  | some (st, true) => .ok (h, st)
  | some (st, false) => .err (h, st)
@[csimp] theorem cmsImportDoc_eq : @CMSRedis.importDoc = @cmsImportDoc := rfl

def cmsInitMatrix (st : Store) (id rows cols : Nat) : Store :=
  forN rows (fun st i => (st.del (.cmsRow id i)).lpushNums (.cmsRow id i) (List.replicate cols 0)) st
@[csimp] theorem cmsInitMatrix_eq : @CMSRedis.initMatrix = @cmsInitMatrix := rfl

-- HyperLogLog (HLLRedis.importRegisters / importDoc)
def hllImportRegisters (limit : Nat) (st : Store) (id : Nat) (regs : List Nat) : Store × Bool :=
  if regs = [] ∨ limit < regs.length then (st, false) else (st.rpushNums (.rand id) regs, true)
@[csimp] theorem hllImportRegisters_eq : @HLLRedis.importRegisters = @hllImportRegisters := rfl

def hllImportDoc (limit : Nat) (d : HLLDoc) (nk : Nat) (t : HLLRedis) (st : Store) :
    IRes (HLLRedis × Store) :=
  let h : HLLRedis := { t with m := d.nr, nbp := d.nbp, bias := d.c, key := nk }
  match HLLRedis.importRegisters limit st nk d.r with
  | (st, true) => .ok (h, st)
  | (st, false) => .err (h, st)
@[csimp] theorem hllImportDoc_eq : @HLLRedis.importDoc = @hllImportDoc := rfl

-- Top-K (TopKRedis.newSketch / importDoc)
def topkNewSketch (st : Store) (rows cols nk nmk : Nat) : CMSRedis × Store :=
  let st := st.hset (.rand nmk) [("rows", rows), ("columns", cols), ("key", nk)]
  (⟨rows, cols, 0, nk, nmk⟩, CMSRedis.initMatrix st nk rows cols)
@[csimp] theorem topkNewSketch_eq : @TopKRedis.newSketch = @topkNewSketch := rfl

def topkImportDoc {N : Type} [DecidableEq N] (ltN : N → N → Bool) (iter : List (N × Nat) → List (N × Nat))
    (d : TopKDoc N) (nhk nsk nsmk : Nat) (t : TopKRedis) (st : Store) (z : ZStore N) :
    IRes (TopKRedis × Store × ZStore N) :=
  let t1 : TopKRedis := { t with k := d.k, accuracy := d.a, errorRate := d.er, heapKey := nhk }
  let z := z.set nhk (importHeap ltN (z nhk) (iter (freqMap d.h)))
  if d.s.r = 0 ∨ d.s.c = 0 then .err (t1, st, z)
  else
    let (sk, st) := TopKRedis.newSketch st d.s.r d.s.c nsk nsmk
    let sk := { sk with allSum := d.s.s }
    match CMSRedis.setMatrix st nsk d.s.m with
    | none => .panic
    | some (st, _) => .ok ({ t1 with sketch := sk }, st, z)
@[csimp] theorem topkImportDoc_eq : @TopKRedis.importDoc = @topkImportDoc := rfl

end Exec

namespace Drv

abbrev P := Except String

/-! ### token decoders (same encodings as Driver.lean) -/

def pNat (s : String) : P Nat :=
  match s.toNat? with
  | some n => pure n
  | none => throw s!"nat:{s}"

def pNatList (s : String) : P (List Nat) :=
  if s == "-" then pure [] else (s.splitOn ",").mapM pNat

def pMatrix (s : String) : P (List (List Nat)) :=
  if s == "-" then pure [] else (s.splitOn ";").mapM pNatList

def pStrList (s : String) : P (List String) :=
  if s == "-" then pure [] else pure ((s.splitOn ",").map (fun t => if t == "_" then "" else t))

def hexVal (c : Char) : Option Nat :=
  if '0' ≤ c ∧ c ≤ '9' then some (c.toNat - '0'.toNat)
  else if 'a' ≤ c ∧ c ≤ 'f' then some (c.toNat - 'a'.toNat + 10) else none

partial def pHexAux : List Char → List UInt8 → P (List UInt8)
  | [], acc => pure acc.reverse
  | [_], _ => throw "hex:odd"
  | a :: b :: rest, acc =>
    match hexVal a, hexVal b with
    | some x, some y => pHexAux rest (UInt8.ofNat (x * 16 + y) :: acc)
    | _, _ => throw "hex:char"

def pHex (s : String) : P (List UInt8) := if s == "-" then pure [] else pHexAux s.toList []

def pOptNat (s : String) : P (Option Nat) := if s == "-" then pure none else some <$> pNat s

def hexDigit (n : Nat) : Char := if n < 10 then Char.ofNat (n + 48) else Char.ofNat (n - 10 + 97)
def toHex (bs : List UInt8) : String :=
  if bs.isEmpty then "-" else
  String.ofList (bs.foldr (fun b acc => hexDigit (b.toNat / 16) :: hexDigit (b.toNat % 16) :: acc) [])

def showNatList (l : List Nat) : String := if l.isEmpty then "-" else ",".intercalate (l.map toString)
def showMatrix (m : List (List Nat)) : String := if m.isEmpty then "-" else ";".intercalate (m.map showNatList)
def showStrList (l : List String) : String :=
  if l.isEmpty then "-" else ",".intercalate (l.map (fun s => if s.isEmpty then "_" else s))
def showOptNat : Option Nat → String | none => "-" | some n => toString n

def verdict (same : Bool) (what : String) : String := if same then "ok" else s!"mismatch {what}"

/-- bit `i` of a bitset held in 64-bit words -/
def bitsOfWords (len : Nat) (ws : List Nat) : List Bool :=
  (List.range len).map (fun i => (ws.getD (i / 64) 0).testBit (i % 64))
def setOf (bits : List Bool) : List Nat := (List.range bits.length).filter (fun i => bits.getD i false)

/-! ### keys, values, stores -/

def pKey (s : String) : P Key := do
  match s.toList with
  | c :: rest =>
    match c, (String.ofList rest).splitOn "." with
    | 'r', [a] => pure (.rand (← pNat a))
    | 'b', [a, b] => pure (.cuckooBucket (← pNat a) (← pNat b))
    | 'l', [a, b] => pure (.cuckooBucketLen (← pNat a) (← pNat b))
    | 'm', [a, b] => pure (.cmsRow (← pNat a) (← pNat b))
    | _, _ => throw s!"key:{s}"
  | [] => throw "key:empty"

def showKey : Key → String
  | .rand id => s!"r{id}"
  | .cuckooBucket id i => s!"b{id}.{i}"
  | .cuckooBucketLen id i => s!"l{id}.{i}"
  | .cmsRow id r => s!"m{id}.{r}"

def pKeyList (s : String) : P (List Key) := if s == "-" then pure [] else (s.splitOn ",").mapM pKey

def pHashEntry (s : String) : P (String × Nat) := do
  match s.splitOn "~" with
  | [f, v] => pure (f, ← pNat v)
  | _ => throw s!"hash:{s}"

def pVal (s : String) : P Val := do
  match s.toList with
  | t :: ':' :: rest =>
    let body := String.ofList rest
    match t with
    | 's' => pure (.str (← pHex body))
    | 'i' => pure (.int (← pNat body))
    | 'S' => pure (.strs (← pStrList body))
    | 'n' => pure (.nums (← pNatList body))
    | 'k' => pure (.keys (← pKeyList body))
    | 'h' => pure (.hash (← if body == "-" then pure [] else (body.splitOn ",").mapM pHashEntry))
    | _ => throw s!"val:{s}"
  | _ => throw s!"val:{s}"

def insHash (x : String × Nat) : List (String × Nat) → List (String × Nat)
  | [] => [x]
  | y :: ys => if x.1 < y.1 then x :: y :: ys else y :: insHash x ys

/-- Redis hashes are unordered and a list / hash without entries does not exist -/
def normVal : Val → Val
  | .hash h => if h.isEmpty then .absent else .hash (h.foldr insHash [])
  | .strs [] => .absent
  | .nums [] => .absent
  | .keys [] => .absent
  | v => v

def showVal : Val → String
  | .absent => "absent"
  | .str b => s!"s:{toHex b}"
  | .int n => s!"i:{n}"
  | .strs l => s!"S:{showStrList l}"
  | .nums l => s!"n:{showNatList l}"
  | .keys l => "k:" ++ (if l.isEmpty then "-" else ",".intercalate (l.map showKey))
  | .hash h => "h:" ++ (if h.isEmpty then "-" else ",".intercalate (h.map (fun p => s!"{p.1}~{p.2}")))

abbrev Obs := List (Key × Val)

def pStore (s : String) : P Obs :=
  if s == "-" then pure [] else (s.splitOn "|").mapM (fun e => do
    match e.splitOn "=" with
    | [k, v] => pure (← pKey k, ← pVal v)
    | _ => throw s!"store-entry:{e}")

def mkStore (l : Obs) : Store := fun k =>
  match l.find? (fun p => p.1 == k) with
  | some p => p.2
  | none => .absent

def keyIdx : Key → Nat
  | .rand _ => 0
  | .cuckooBucket _ i => i
  | .cuckooBucketLen _ i => i
  | .cmsRow _ r => r

/-- every key the model could derive from the given names, indices below `bound` -/
def keyUniverse (ids : List Nat) (bound : Nat) : List Key :=
  ids.eraseDups.flatMap (fun id => Key.rand id ::
    (List.range bound).flatMap (fun i => [Key.cuckooBucket id i, Key.cuckooBucketLen id i, Key.cmsRow id i]))

/-- keys on which the model's store differs from the observed one: all keys that exist before
    or after, and all keys derivable from the ids involved -/
def storeDiff (st : Store) (pre post : Obs) (ids : List Nat) (bound : Nat) : List Key :=
  let ks := (pre ++ post).map (·.1)
  let ids := ids ++ ks.map Key.id
  let bound := (ks.foldl (fun m k => max m (keyIdx k + 2)) bound)
  let o := mkStore post
  (ks ++ keyUniverse ids bound).eraseDups.filter (fun k => normVal (st k) != normVal (o k))

def showStoreAt (st : Store) (ks : List Key) : String :=
  if ks.isEmpty then "-" else "|".intercalate (ks.map (fun k => s!"{showKey k}={showVal (normVal (st k))}"))

/-! ### heaps with byte-string names, sorted sets -/

abbrev Name := List UInt8

def pHeap (s : String) : P (List (Name × Nat)) :=
  if s == "-" then pure [] else (s.splitOn ",").mapM (fun t => do
    match t.splitOn ":" with
    | [v, f] => pure ((← if v == "_" then pure [] else pHex v), ← pNat f)
    | _ => throw s!"heap:{t}")

def showHeap (l : List (Name × Nat)) : String :=
  if l.isEmpty then "-" else ",".intercalate (l.map (fun e => s!"{if e.1.isEmpty then "_" else toHex e.1}:{e.2}"))

/-- byte-wise lexicographic order (memcmp), the order of sorted-set members with equal scores -/
def ltName : Name → Name → Bool
  | [], [] => false
  | [], _ :: _ => true
  | _ :: _, [] => false
  | a :: as, b :: bs => a < b || (a == b && ltName as bs)

abbrev ZObs := List (Nat × List (Name × Nat))

def pZStore (s : String) : P ZObs :=
  if s == "-" then pure [] else (s.splitOn "|").mapM (fun e => do
    match e.splitOn "=" with
    | [k, v] => pure (← pNat k, ← pHeap v)
    | _ => throw s!"zstore-entry:{e}")

def mkZ (l : ZObs) : ZStore Name := fun k =>
  match l.find? (fun p => p.1 == k) with
  | some p => p.2
  | none => []

def zDiff (z : ZStore Name) (pre post : ZObs) (ids : List Nat) : List Nat :=
  let o := mkZ post
  (ids ++ (pre ++ post).map (·.1)).eraseDups.filter (fun k => z k != o k)

def showZAt (z : ZStore Name) (ks : List Nat) : String :=
  if ks.isEmpty then "-" else "|".intercalate (ks.map (fun k => s!"{k}={showHeap (z k)}"))

/-! ### buckets -/

def pBucket3 (s : String) : P (Nat × Nat × List String) := do
  match s.splitOn ":" with
  | [sz, ln, es] => pure (← pNat sz, ← pNat ln, ← pStrList es)
  | _ => throw s!"bucket:{s}"

def pBucketsMem (s : String) : P (List (BucketMem String)) :=
  if s == "-" then pure [] else (s.splitOn ";").mapM (fun b => do
    let (sz, ln, es) ← pBucket3 b
    pure ⟨sz, es, ln⟩)

def showBucketsMem (l : List (BucketMem String)) : String :=
  if l.isEmpty then "-" else ";".intercalate (l.map (fun b => s!"{b.size}:{b.length}:{showStrList b.elements}"))

def pOptKeys (s : String) (n : Nat) : P (List (Option Key)) :=
  if s == "-" then pure (List.replicate n none)
  else (s.splitOn ",").mapM (fun t => if t == "-" then pure none else some <$> pKey t)

def pBucketDocs (bs ks : String) : P (List BucketDoc) := do
  let l ← if bs == "-" then pure [] else (bs.splitOn ";").mapM pBucket3
  let keys ← pOptKeys ks l.length
  if keys.length != l.length then throw "bucketkeys:length"
  pure ((l.zip keys).map (fun (b, k) => ⟨b.1, b.2.1, b.2.2, k⟩))

def showBucketDocs (l : List BucketDoc) : String :=
  (if l.isEmpty then "-" else ";".intercalate (l.map (fun b => s!"{b.s}:{b.l}:{showStrList b.e}"))) ++ " " ++
  (if l.isEmpty then "-" else ",".intercalate (l.map (fun b => match b.k with | none => "-" | some k => showKey k)))

/-! ### reading token groups: a state monad over the remaining tokens -/

abbrev Q := StateT (List String) P

def tok : Q String := do
  match (← get) with
  | t :: r => set r; pure t
  | [] => throw "json:too-few-tokens"

def qNat : Q Nat := do pNat (← tok)
def qNatList : Q (List Nat) := do pNatList (← tok)
def qMatrix : Q (List (List Nat)) := do pMatrix (← tok)
def qOptNat : Q (Option Nat) := do pOptNat (← tok)
def qStore : Q Obs := do pStore (← tok)
def qZStore : Q ZObs := do pZStore (← tok)
def qHeap : Q (List (Name × Nat)) := do pHeap (← tok)

def qBloomMem : Q BloomMem := do
  let size ← qNat; let k ← qNat; let bs ← qNat; let len ← qNat; let ws ← qNatList
  pure ⟨size, k, bs, bitsOfWords len ws⟩
def qBloomMemDoc : Q (BloomDoc (List Bool)) := do
  let m ← qNat; let k ← qNat; let len ← qNat; let ws ← qNatList
  pure ⟨m, k, bitsOfWords len ws⟩
def showBloomMem (s : BloomMem) : String :=
  s!"{s.size} {s.k} {s.bsSize} {s.bits.length} set={showNatList (setOf s.bits)}"

def qBloomRedis : Q BloomRedis := do
  let size ← qNat; let k ← qNat; let bs ← qNat; let key ← qNat; let mk ← qNat
  pure ⟨size, k, bs, key, mk⟩
def qBloomRedisDoc : Q (BloomDoc Bytes) := do
  let m ← qNat; let k ← qNat; let b ← pHex (← tok)
  pure ⟨m, k, b⟩
def showBloomRedis (h : BloomRedis) : String := s!"{h.size} {h.k} {h.bsSize} {h.key} {h.metadataKey}"

def qCuckooMem : Q CuckooMem := do
  let n ← qNat; let b ← qNat; let fpl ← qNat; let r ← qNat; let len ← qNat
  let bks ← pBucketsMem (← tok)
  pure ⟨n, b, fpl, r, bks, len⟩
def showCuckooMem (c : CuckooMem) : String :=
  s!"{c.n} {c.bsize} {c.fpl} {c.retries} {c.length} {showBucketsMem c.buckets}"

def qCuckooDoc : Q CuckooDoc := do
  let s ← qNat; let bs ← qNat; let fpl ← qNat; let l ← qNat; let r ← qNat
  let bt ← tok; let kt ← tok
  let b ← pBucketDocs bt kt
  let k ← qOptNat; let mk ← qOptNat
  pure ⟨s, bs, fpl, l, r, b, k, mk⟩
def showCuckooDoc (d : CuckooDoc) : String :=
  s!"{d.s} {d.bs} {d.fpl} {d.l} {d.r} {showBucketDocs d.b} {showOptNat d.k} {showOptNat d.mkey}"

def qCuckooRedis : Q CuckooRedis := do
  let n ← qNat; let b ← qNat; let fpl ← qNat; let r ← qNat; let key ← qNat; let mk ← qNat; let nb ← qNat
  pure ⟨n, b, fpl, r, key, mk, nb⟩
def showCuckooRedis (h : CuckooRedis) : String :=
  s!"{h.n} {h.bsize} {h.fpl} {h.retries} {h.key} {h.metadataKey} {h.nb}"

def qCMSMem : Q CMSMem := do
  let r ← qNat; let c ← qNat; let s ← qNat; let m ← qMatrix
  pure ⟨⟨r, c, m⟩, s⟩
def showCMSMem (s : CMSMem) : String := s!"{s.core.rows} {s.core.cols} {s.allSum} {showMatrix s.core.m}"
def qCMSDoc : Q CMSDoc := do
  let r ← qNat; let c ← qNat; let s ← qNat; let m ← qMatrix; let k ← qOptNat
  pure ⟨r, c, s, m, k⟩
def showCMSDoc (d : CMSDoc) : String := s!"{d.r} {d.c} {d.s} {showMatrix d.m} {showOptNat d.k}"
def qCMSRedis : Q CMSRedis := do
  let r ← qNat; let c ← qNat; let s ← qNat; let k ← qNat; let mk ← qNat
  pure ⟨r, c, s, k, mk⟩
def showCMSRedis (h : CMSRedis) : String := s!"{h.rows} {h.cols} {h.allSum} {h.key} {h.metadataKey}"

def qHLLMem : Q HLLMem := do
  let m ← qNat; let nbp ← qNat; let bias ← qNat; let regs ← qNatList
  pure ⟨⟨m, regs⟩, nbp, bias⟩
def showHLLMem (s : HLLMem) : String := s!"{s.core.m} {s.nbp} {s.bias} {showNatList s.core.regs}"
def qHLLDoc : Q HLLDoc := do
  let nr ← qNat; let nbp ← qNat; let c ← qNat; let r ← qNatList; let k ← qOptNat
  pure ⟨nr, nbp, c, r, k⟩
def showHLLDoc (d : HLLDoc) : String := s!"{d.nr} {d.nbp} {d.c} {showNatList d.r} {showOptNat d.k}"
def qHLLRedis : Q HLLRedis := do
  let m ← qNat; let nbp ← qNat; let bias ← qNat; let k ← qNat; let mk ← qNat
  pure ⟨m, nbp, bias, k, mk⟩
def showHLLRedis (h : HLLRedis) : String := s!"{h.m} {h.nbp} {h.bias} {h.key} {h.metadataKey}"

def qTopKMem : Q (TopKMem Name) := do
  let k ← qNat; let er ← qNat; let a ← qNat
  let sk ← qCMSMem
  let h ← qHeap
  pure ⟨k, er, a, sk, h⟩
def showTopKMem (t : TopKMem Name) : String :=
  s!"{t.k} {t.errorRate} {t.accuracy} {showCMSMem t.sketch} {showHeap t.heap}"
def eqTopKMem (a b : TopKMem Name) : Bool :=
  a.k == b.k && a.errorRate == b.errorRate && a.accuracy == b.accuracy && a.sketch == b.sketch && a.heap == b.heap

def qTopKDoc : Q (TopKDoc Name) := do
  let k ← qNat; let er ← qNat; let a ← qNat
  let s ← qCMSDoc
  let h ← qHeap
  let hk ← qOptNat
  pure ⟨k, er, a, s, h, hk⟩
def showTopKDoc (d : TopKDoc Name) : String :=
  s!"{d.k} {d.er} {d.a} {showCMSDoc d.s} {showHeap d.h} {showOptNat d.hk}"
def eqTopKDoc (a b : TopKDoc Name) : Bool :=
  a.k == b.k && a.er == b.er && a.a == b.a && a.s == b.s && a.h == b.h && a.hk == b.hk

def qTopKRedis : Q TopKRedis := do
  let k ← qNat; let er ← qNat; let a ← qNat
  let sk ← qCMSRedis
  let hk ← qNat; let mk ← qNat
  pure ⟨k, er, a, sk, hk, mk⟩
def showTopKRedis (h : TopKRedis) : String :=
  s!"{h.k} {h.errorRate} {h.accuracy} {showCMSRedis h.sketch} {h.heapKey} {h.metadataKey}"

/-- all tokens must have been consumed -/
def done (ans : String) : Q String := do
  if (← get).isEmpty then pure ans else throw "json:too-many-tokens"

/-- outcome of a Redis import against the observation `(res, handle, store)` -/
def redisVerdict {H : Type} [BEq H] (sh : H → String) (got : IRes (H × Store)) (res : String) (p : H)
    (pre post : Obs) (ids : List Nat) (bound : Nat) : String :=
  match got with
  | .panic => verdict (res == "panic") "panic"
  | .ok (h, st) =>
    let bad := storeDiff st pre post ids bound
    verdict (res == "ok" && h == p && bad.isEmpty) s!"ok {sh h} {showStoreAt st bad}"
  | .err (h, st) =>
    let bad := storeDiff st pre post ids bound
    verdict (res == "err" && h == p && bad.isEmpty) s!"err {sh h} {showStoreAt st bad}"

def memTag {σ : Type} : IRes σ → String | .ok _ => "ok" | .err _ => "err" | .panic => "panic"

def maxL (l : List Nat) : Nat := l.foldl max 0

/-- one `json.<variant>.<export|import>` line; the remaining tokens are the state of the monad.
    (hll.redis: the `unpack` limit of the Lua interpreter of the test environment comes with the line) -/
def handleQ (op : String) : Q String := do
  match op with
  -- Bloom -----------------------------------------------------------------------------------
  | "json.bloom.mem.export" =>
    let s ← qBloomMem; let d ← qBloomMemDoc
    let g := s.exportDoc
    done (verdict (g == d) s!"{g.m} {g.k} {g.b.length} set={showNatList (setOf g.b)}")
  | "json.bloom.mem.import" =>
    let d ← qBloomMemDoc; let t ← qBloomMem; let res ← tok; let p ← qBloomMem
    let g := BloomMem.importDoc d t
    done (verdict (res == "ok" && g == p) s!"ok {showBloomMem g}")
  | "json.bloom.redis.export" =>
    let h ← qBloomRedis; let st ← qStore; let d ← qBloomRedisDoc
    let g := h.exportDoc (mkStore st)
    done (verdict (g == d) s!"{g.m} {g.k} {toHex g.b}")
  | "json.bloom.redis.import" =>
    let d ← qBloomRedisDoc; let t ← qBloomRedis; let pre ← qStore
    let res ← tok; let p ← qBloomRedis; let post ← qStore
    let g := BloomRedis.importDoc d t (mkStore pre)
    done (redisVerdict showBloomRedis g res p pre post [t.key, t.metadataKey, p.key, p.metadataKey] 1)
  -- Cuckoo ----------------------------------------------------------------------------------
  | "json.cuckoo.mem.export" =>
    let s ← qCuckooMem; let d ← qCuckooDoc
    let g := CuckooMem.exportDoc s
    done (verdict (g == d) (showCuckooDoc g))
  | "json.cuckoo.mem.import" =>
    let d ← qCuckooDoc; let t ← qCuckooMem; let res ← tok; let p ← qCuckooMem
    let g := CuckooMem.importDoc d t
    let same := match g with
      | .ok s => res == "ok" && s == p
      | .err s => res == "err" && s == p
      | .panic => res == "panic"
    let what := match g with
      | .ok s => s!"ok {showCuckooMem s}" | .err s => s!"err {showCuckooMem s}" | .panic => "panic"
    done (verdict same what)
  | "json.cuckoo.redis.export" =>
    let h ← qCuckooRedis; let st ← qStore; let d ← qCuckooDoc
    let g := h.exportDoc (mkStore st)
    done (verdict (g == d) (showCuckooDoc g))
  | "json.cuckoo.redis.import" =>
    let d ← qCuckooDoc; let nk ← qNat; let nmk ← qNat; let t ← qCuckooRedis; let pre ← qStore
    let res ← tok; let p ← qCuckooRedis; let post ← qStore
    let g := CuckooRedis.importDoc d nk nmk t (mkStore pre)
    done (redisVerdict showCuckooRedis (.ok g) res p pre post
      [nk, nmk, t.key, t.metadataKey, p.key, p.metadataKey] (maxL [d.s, d.b.length, t.n] + 1))
  -- Count-Min -------------------------------------------------------------------------------
  | "json.cms.mem.export" =>
    let s ← qCMSMem; let d ← qCMSDoc
    let g := s.exportDoc
    done (verdict (g == d) (showCMSDoc g))
  | "json.cms.mem.import" =>
    let d ← qCMSDoc; let t ← qCMSMem; let res ← tok; let p ← qCMSMem
    let g := CMSMem.importDoc d t
    done (verdict (res == "ok" && g == p) s!"ok {showCMSMem g}")
  | "json.cms.redis.export" =>
    let h ← qCMSRedis; let st ← qStore; let d ← qCMSDoc
    let g := h.exportDoc (mkStore st)
    done (verdict (g == d) (showCMSDoc g))
  | "json.cms.redis.import" =>
    let d ← qCMSDoc; let nk ← qNat; let t ← qCMSRedis; let pre ← qStore
    let res ← tok; let p ← qCMSRedis; let post ← qStore
    let g := CMSRedis.importDoc d nk t (mkStore pre)
    done (redisVerdict showCMSRedis g res p pre post
      [nk, t.key, t.metadataKey, p.key, p.metadataKey] (maxL [d.r, d.m.length, t.rows] + 1))
  -- HyperLogLog -----------------------------------------------------------------------------
  | "json.hll.mem.export" =>
    let s ← qHLLMem; let d ← qHLLDoc
    let g := s.exportDoc
    done (verdict (g == d) (showHLLDoc g))
  | "json.hll.mem.import" =>
    let d ← qHLLDoc; let t ← qHLLMem; let res ← tok; let p ← qHLLMem
    let g := HLLMem.importDoc d t
    done (verdict (res == "ok" && g == p) s!"ok {showHLLMem g}")
  | "json.hll.redis.export" =>
    let h ← qHLLRedis; let st ← qStore; let d ← qHLLDoc
    let g := h.exportDoc (mkStore st)
    done (verdict (g == d) (showHLLDoc g))
  | "json.hll.redis.import" =>
    let d ← qHLLDoc; let limit ← qNat; let nk ← qNat; let t ← qHLLRedis; let pre ← qStore
    let res ← tok; let p ← qHLLRedis; let post ← qStore
    let g := HLLRedis.importDoc limit d nk t (mkStore pre)
    done (redisVerdict showHLLRedis g res p pre post [nk, t.key, t.metadataKey, p.key, p.metadataKey] 1)
  -- Top-K -----------------------------------------------------------------------------------
  | "json.topk.mem.export" =>
    let s ← qTopKMem; let d ← qTopKDoc
    let g := s.exportDoc
    done (verdict (eqTopKDoc g d) (showTopKDoc g))
  | "json.topk.mem.import" =>
    let d ← qTopKDoc; let t ← qTopKMem; let res ← tok; let p ← qTopKMem
    let g := TopKMem.importDoc d t
    let same := match g with
      | .ok s => res == "ok" && eqTopKMem s p
      | .err s => res == "err" && eqTopKMem s p
      | .panic => res == "panic"
    let what := match g with
      | .ok s => s!"ok {showTopKMem s}" | .err s => s!"err {showTopKMem s}" | .panic => "panic"
    done (verdict same what)
  | "json.topk.redis.export" =>
    let h ← qTopKRedis; let st ← qStore; let z ← qZStore; let d ← qTopKDoc
    let g : TopKDoc Name := h.exportDoc (mkStore st) (mkZ z)
    done (verdict (eqTopKDoc g d) (showTopKDoc g))
  | "json.topk.redis.import" =>
    let d ← qTopKDoc; let nhk ← qNat; let nsk ← qNat; let nsmk ← qNat
    let t ← qTopKRedis; let pre ← qStore; let prez ← qZStore
    let res ← tok; let p ← qTopKRedis; let post ← qStore; let postz ← qZStore
    -- the iteration order over `frequencyMap` does not matter: its names are distinct
    let g := TopKRedis.importDoc ltName id d nhk nsk nsmk t (mkStore pre) (mkZ prez)
    let ids := [nhk, nsk, nsmk, t.heapKey, t.metadataKey, t.sketch.key, t.sketch.metadataKey,
      p.heapKey, p.metadataKey, p.sketch.key, p.sketch.metadataKey]
    let bound := maxL [d.s.r, d.s.m.length, t.sketch.rows] + 1
    let ans := match g with
      | .panic => verdict (res == "panic") "panic"
      | .ok (h, st, z) =>
        let bad := storeDiff st pre post ids bound
        let badz := zDiff z prez postz ids
        verdict (res == "ok" && h == p && bad.isEmpty && badz.isEmpty)
          s!"ok {showTopKRedis h} {showStoreAt st bad} {showZAt z badz}"
      | .err (h, st, z) =>
        let bad := storeDiff st pre post ids bound
        let badz := zDiff z prez postz ids
        verdict (res == "err" && h == p && bad.isEmpty && badz.isEmpty)
          s!"err {showTopKRedis h} {showStoreAt st bad} {showZAt z badz}"
    done ans
  | _ => throw s!"unknown-op:{op}"

end Drv

/-- entry point of the driver: tokens of one `json.…` line -/
def handle (toks : List String) : Except String String :=
  match toks with
  | op :: rest => (Drv.handleQ op).run' rest
  | [] => throw "empty"

end Gostatix.Json
