/-
  Gostatix.Model.RedisDriver — line protocol that ties Model/Redis.lean (the Redis-level model the
  theorems of Props/C08, C09, C19 are about) to the real library.  Suite `redistie` of the harness
  (harness/s_redistie.go) drives the real library against the in-process Redis, dumps the ACTUAL
  content of the Redis keys around every operation and writes one line per operation; `handleTie`
  builds a `Store` from the dumped "before" content, runs the model's command/script on it and
  compares the resulting key contents and the answer with the dumped "after" content / the
  answer the library returned.  Answers `ok` / `mismatch <what the model computed>`; a parse
  error is `bad-line` (raised as `Except.error`, printed by the driver).

  Token encodings (single-space separated tokens):
      nat            decimal
      nat list       `-` (empty) or `1,2,3`
      string list    `-` (empty) or items separated by `,`, `_` = empty string
      key            the Redis key as is (`_` = empty string)
      list value     content of a Redis list key: `nil` = key absent, else a string list
      rows           list values of the row keys `key0 … key(rows-1)`, separated by `;`
      hash value     `nil` = key absent, `-` = no field, else `field=value,field=value`
                     (any order; compared as a set), `str:<hex>` = the key holds a string instead
      bytes value    content of a Redis string key: `nil` = absent, `-` = empty, else lowercase hex
      result         `ok` / `err`, or the returned number / `0`,`1` for a boolean

  Lines (the second token `<ctor>` names the Go constructor / scenario; it is not interpreted):
      rt.create.bloom  <ctor> <rawSize> <rawNumHashes> <bitsetKey> <metadataKey> <hash> <GetCap> <GetNumHashes>
      rt.create.cuckoo <ctor> <size> <bucketSize> <fpLen> <retries> <key> <metadataKey> <hash>
      rt.create.cms    <ctor> <rows> <cols> <key> <metadataKey> <hash>
      rt.create.hll    <ctor> <m> <key> <metadataKey> <hash>
      rt.create.topk   <ctor> <k> <errorRate> <accuracy> <heapKey> <metadataKey> <rows> <cols> <sketchKey>
                       <sketchMetadataKey> <hash> <sketchHash>
      rt.attach.bloom  <ctor> <metadataKey> <hash> (err | ok <GetCap> <GetNumHashes> <bitsetKey|?>)
      rt.attach.cuckoo <ctor> <metadataKey> <hash> (err | ok <size> <bucketSize> <fpLen> <retries> <key>)
      rt.attach.cms    <ctor> <metadataKey> <hash> (err | ok <rows> <cols> <key|?>)
      rt.attach.hll    <ctor> <metadataKey> <hash> (err | ok <m> <key|?>)
      rt.attach.topk   <ctor> <metadataKey> <hash> <sketchMetadataKey> <sketchHash>
                       (err | ok <k> <errorRate> <accuracy> <heapKey> <rows> <cols> <sketchKey>)
      rt.cms.init   <rows> <cols> <key> <rows before> <rows after>
      rt.cms.update <rows> <cols> <key> <rows before> <positions> <count> <rows after> <ok|err>
      rt.cms.count  <rows> <cols> <key> <rows before> <positions> <rows after> <number|err>
      rt.cms.merge  <rows1> <cols1> <key1> <rows1 before> <rows2> <cols2> <key2> <rows2 before>
                    <rows1 after> <rows2 after> <ok|err>
      rt.cms.abs    <rows> <cols> <key> <rows content> (none | <matrix as Export() reports it>)
      rt.hll.init   <m> <key> <list before> <list after> <ok|err>
      rt.hll.update <m> <key> <list before> <index> <value> <list after> <ok|err>
      rt.hll.merge  <m1> <key1> <list1 before> <m2> <key2> <list2 before> <list1 after> <list2 after> <ok|err>
      rt.hll.equals <m1> <key1> <list1> <m2> <key2> <list2> <0|0n|1|err>   (`0n` = false reported as redis.Nil)
      rt.hll.abs    <m> <key> <list content> (none | <registers as Export() reports them>)
      rt.bloom.init   <rawSize> <bitsetKey> <bytes before> <bytes after>
      rt.bloom.insert <bitsetKey> <bytes before> <probes> <bytes after>
      rt.bloom.lookup <bitsetKey> <bytes before> <probes> <bytes after> <0|1>
      rt.bloom.abs    <size> <k> <bitsetKey> <bytes content> (none | <set bits as Export() reports them>)

  Core Lean only (linked into the driver executable).
-/
import Gostatix.Model.Redis
namespace Gostatix.Redis
namespace Tie

abbrev P := Except String

def pNat (s : String) : P Nat :=
  match s.toNat? with
  | some n => pure n
  | none => throw s!"nat:{s}"

def pNatList (s : String) : P (List Nat) :=
  if s == "-" then pure [] else (s.splitOn ",").mapM pNat

def unTok (t : String) : String := if t == "_" then "" else t
def tok (s : String) : String := if s.isEmpty then "_" else s

def pStrList (s : String) : P (List String) :=
  if s == "-" then pure [] else pure ((s.splitOn ",").map unTok)

def showNatList (l : List Nat) : String := if l.isEmpty then "-" else ",".intercalate (l.map toString)
def showStrList (l : List String) : String := if l.isEmpty then "-" else ",".intercalate (l.map tok)

def hexVal (c : Char) : Option Nat :=
  if '0' ≤ c ∧ c ≤ '9' then some (c.toNat - '0'.toNat)
  else if 'a' ≤ c ∧ c ≤ 'f' then some (c.toNat - 'a'.toNat + 10) else none

partial def pHexAux : List Char → List UInt8 → P (List UInt8)
  | [], acc => pure acc.reverse
  | [_], _ => throw "hex:odd"
  | a :: b :: rest, acc =>
    match hexVal a, hexVal b with
    | some x, some y => pHexAux rest (UInt8.ofNat (x * 16 + y) :: acc)
    | _, _ => throw "hex:char"

def pHex (s : String) : P (List UInt8) := if s == "-" then pure [] else pHexAux s.toList []

def hexDigit (n : Nat) : Char := if n < 10 then Char.ofNat (n + 48) else Char.ofNat (n - 10 + 97)
def toHex (bs : List UInt8) : String :=
  if bs.isEmpty then "-" else
  String.ofList (bs.foldr (fun b acc => hexDigit (b.toNat / 16) :: hexDigit (b.toNat % 16) :: acc) [])

/-! ### values of keys -/

def pListVal (s : String) : P (Option Val) := do
  if s == "nil" then pure none else pure (some (.list (← pStrList s)))

def pRows (s : String) : P (List (Option Val)) := (s.splitOn ";").mapM pListVal

def pBytesVal (s : String) : P (Option Val) := do
  if s == "nil" then pure none else pure (some (.str (← pHex s)))

def pField (s : String) : P (String × String) :=
  match s.splitOn "=" with
  | f :: v :: rest => pure (f, "=".intercalate (v :: rest))
  | _ => throw s!"field:{s}"

def pHashVal (s : String) : P (Option Val) := do
  if s == "nil" then pure none
  else if s == "-" then pure (some (.hash []))
  else if s.startsWith "str:" then pure (some (.str (← pHex (s.drop 4).toString)))
  else pure (some (.hash (← (s.splitOn ",").mapM pField)))

def sortFields (h : List (String × String)) : List (String × String) :=
  (h.toArray.qsort (fun a b => a.1 < b.1)).toList

/-- hashes are compared as sets of (field, value): fields sorted by name. -/
def norm : Option Val → Option Val
  | some (.hash h) => some (.hash (sortFields h))
  | v => v

def showVal : Option Val → String
  | none => "nil"
  | some (.list l) => showStrList l
  | some (.hash h) => if h.isEmpty then "-" else ",".intercalate (h.map fun fv => s!"{fv.1}={fv.2}")
  | some (.str b) => toHex b
  | some (.zset _) => "zset"

def showRows (l : List (Option Val)) : String := ";".intercalate (l.map showVal)

def put (s : Store) (k : String) : Option Val → Store
  | none => s
  | some v => s.set k v

/-- the Redis key the HARNESS dumped row `r` from (`key + strconv.Itoa(r)`, where the real library
    keeps it).  Deliberately not `cmsRowKey`: if the model named the row keys differently, its
    scripts would not find the dumped rows and the line would be a mismatch. -/
def dumpedRowKey (key : String) (r : Nat) : String := key ++ toString r

/-- the store holding `vals[r]` under the key row `r` was dumped from. -/
def putRows (s : Store) (key : String) (vals : List (Option Val)) : Store :=
  (vals.zip (List.range vals.length)).foldl (fun s vr => put s (dumpedRowKey key vr.2) vr.1) s

def readRows (s : Store) (key : String) (n : Nat) : List (Option Val) :=
  (List.range n).map (fun r => s (dumpedRowKey key r))

def verdict (same : Bool) (what : String) : String := if same then "ok" else s!"mismatch {what}"

def okErr {α} (r : Option α) : String := if r.isSome then "ok" else "err"

/-- compare the model's answer tokens with the observed ones; an observed `?` was not observable. -/
def sameToks (got obs : List String) : Bool :=
  got.length == obs.length && (got.zip obs).all (fun go => go.2 == "?" || go.1 == go.2)

def attachVerdict (got obs : List String) : String :=
  verdict (sameToks got obs) (" ".intercalate got)

def sameHash (s : Store) (k : String) (obs : Option Val) : Bool := norm (s k) == norm obs

end Tie

open Tie in
/-- one `rt.…` line of the trace (see the header for the formats). -/
def handleTie (toks : List String) : Except String String := do
  match toks with
  -- constructors: the metadata HSET on an empty database ------------------------------------
  | ["rt.create.bloom", _ctor, size, nh, bk, mk, obs, cap, k] =>
    let bk := unTok bk; let mk := unTok mk
    let obs ← pHashVal obs; let cap ← pNat cap; let k ← pNat k
    let (s, r) := bloomCreateRaw (← pNat size) (← pNat nh) bk mk Store.empty
    -- the same hash through `bloomCreate` of the handle the real constructor returned
    let s2 := (bloomCreate { size := cap, k := k, bitsetKey := bk, metadataKey := mk } Store.empty).1
    let okH := match r with
      | some h => h.size == cap && h.k == k && h.bitsetKey == bk && h.metadataKey == mk
      | none => false
    let hs := match r with | some h => s!"{h.size} {h.k}" | none => "err"
    pure (verdict (sameHash s mk obs && sameHash s2 mk obs && okH)
      s!"raw:{showVal (norm (s mk))} handle:{showVal (norm (s2 mk))} {hs}")
  | ["rt.create.cuckoo", _ctor, n, b, fpl, retries, key, mk, obs] =>
    let h : CuckooHandle := { n := ← pNat n, bsize := ← pNat b, fpl := ← pNat fpl, retries := ← pNat retries,
                              key := unTok key, metadataKey := unTok mk }
    let (s, r) := cuckooCreate h Store.empty
    pure (verdict (sameHash s h.metadataKey (← pHashVal obs) && r.isSome) s!"{okErr r} {showVal (norm (s h.metadataKey))}")
  | ["rt.create.cms", _ctor, rows, cols, key, mk, obs] =>
    let h : CMSHandle := { rows := ← pNat rows, cols := ← pNat cols, key := unTok key, metadataKey := unTok mk }
    let (s, r) := cmsCreate h Store.empty
    pure (verdict (sameHash s h.metadataKey (← pHashVal obs) && r.isSome) s!"{okErr r} {showVal (norm (s h.metadataKey))}")
  | ["rt.create.hll", _ctor, m, key, mk, obs] =>
    let h : HLLHandle := { m := ← pNat m, key := unTok key, metadataKey := unTok mk }
    let (s, r) := hllCreate h Store.empty
    pure (verdict (sameHash s h.metadataKey (← pHashVal obs) && r.isSome) s!"{okErr r} {showVal (norm (s h.metadataKey))}")
  | ["rt.create.topk", _ctor, k, er, acc, hk, mk, rows, cols, sk, smk, obs, sobs] =>
    let sketch : CMSHandle := { rows := ← pNat rows, cols := ← pNat cols, key := unTok sk, metadataKey := unTok smk }
    let h : TopKHandle := { k := ← pNat k, errorRate := unTok er, accuracy := unTok acc, heapKey := unTok hk,
                            metadataKey := unTok mk, sketch := sketch }
    let (s, r) := topkCreate h Store.empty
    let same := sameHash s h.metadataKey (← pHashVal obs) && sameHash s sketch.metadataKey (← pHashVal sobs) && r.isSome
    pure (verdict same s!"{okErr r} {showVal (norm (s h.metadataKey))} {showVal (norm (s sketch.metadataKey))}")
  -- re-attachment: `New…FromKey` on a database holding the observed hash ---------------------
  | "rt.attach.bloom" :: _ctor :: mk :: hash :: obs =>
    let mk := unTok mk
    let s := put Store.empty mk (← pHashVal hash)
    let got := match bloomAttach s mk with
      | none => ["err"]
      | some h => ["ok", toString h.size, toString h.k, tok h.bitsetKey]
    pure (attachVerdict got obs)
  | "rt.attach.cuckoo" :: _ctor :: mk :: hash :: obs =>
    let mk := unTok mk
    let s := put Store.empty mk (← pHashVal hash)
    let got := match cuckooAttach s mk with
      | none => ["err"]
      | some h => ["ok", toString h.n, toString h.bsize, toString h.fpl, toString h.retries, tok h.key]
    pure (attachVerdict got obs)
  | "rt.attach.cms" :: _ctor :: mk :: hash :: obs =>
    let mk := unTok mk
    let s := put Store.empty mk (← pHashVal hash)
    let got := match cmsAttach s mk with
      | none => ["err"]
      | some h => ["ok", toString h.rows, toString h.cols, tok h.key]
    pure (attachVerdict got obs)
  | "rt.attach.hll" :: _ctor :: mk :: hash :: obs =>
    let mk := unTok mk
    let s := put Store.empty mk (← pHashVal hash)
    let got := match hllAttach s mk with
      | none => ["err"]
      | some h => ["ok", toString h.m, tok h.key]
    pure (attachVerdict got obs)
  | "rt.attach.topk" :: _ctor :: mk :: hash :: smk :: shash :: obs =>
    let mk := unTok mk; let smk := unTok smk
    let s := put (put Store.empty smk (← pHashVal shash)) mk (← pHashVal hash)
    let got := match topkAttach s mk with
      | none => ["err"]
      | some h => ["ok", toString h.k, tok h.errorRate, tok h.accuracy, tok h.heapKey,
                   toString h.sketch.rows, toString h.sketch.cols, tok h.sketch.key]
    pure (attachVerdict got obs)
  -- Count-Min Sketch scripts ---------------------------------------------------------------
  | ["rt.cms.init", rows, cols, key, before, after] =>
    let h : CMSHandle := { rows := ← pNat rows, cols := ← pNat cols, key := key, metadataKey := "" }
    let (s, r) := cmsInit h (putRows Store.empty key (← pRows before))
    let got := readRows s key h.rows
    pure (verdict (got == (← pRows after)) s!"{okErr r} {showRows got}")
  | ["rt.cms.update", rows, cols, key, before, pos, count, after, res] =>
    let h : CMSHandle := { rows := ← pNat rows, cols := ← pNat cols, key := key, metadataKey := "" }
    let (s, r) := cmsUpdate h (← pNatList pos) (← pNat count) (putRows Store.empty key (← pRows before))
    let got := readRows s key h.rows
    pure (verdict (got == (← pRows after) && okErr r == res) s!"{okErr r} {showRows got}")
  | ["rt.cms.count", rows, cols, key, before, pos, after, res] =>
    let h : CMSHandle := { rows := ← pNat rows, cols := ← pNat cols, key := key, metadataKey := "" }
    let (s, r) := cmsCount h (← pNatList pos) (putRows Store.empty key (← pRows before))
    let got := readRows s key h.rows
    let gr := match r with | some n => toString n | none => "err"
    pure (verdict (got == (← pRows after) && gr == res) s!"{gr} {showRows got}")
  | ["rt.cms.merge", rows1, cols1, key1, before1, rows2, cols2, key2, before2, after1, after2, res] =>
    let h1 : CMSHandle := { rows := ← pNat rows1, cols := ← pNat cols1, key := key1, metadataKey := "" }
    let h2 : CMSHandle := { rows := ← pNat rows2, cols := ← pNat cols2, key := key2, metadataKey := "" }
    let s0 := putRows (putRows Store.empty key2 (← pRows before2)) key1 (← pRows before1)
    let (s, r) := cmsMerge h1 h2 s0
    let got1 := readRows s key1 h1.rows
    let got2 := readRows s key2 h2.rows
    pure (verdict (got1 == (← pRows after1) && got2 == (← pRows after2) && okErr r == res)
      s!"{okErr r} {showRows got1} {showRows got2}")
  | ["rt.cms.abs", rows, cols, key, content, exported] =>
    let h : CMSHandle := { rows := ← pNat rows, cols := ← pNat cols, key := key, metadataKey := "" }
    let got := match absCMS (putRows Store.empty key (← pRows content)) h with
      | none => "none"
      | some c => if c.rows == h.rows && c.cols == h.cols
          then (if c.m.isEmpty then "-" else ";".intercalate (c.m.map showNatList)) else "dims"
    pure (verdict (got == exported) got)
  -- HyperLogLog scripts ----------------------------------------------------------------------
  | ["rt.hll.init", m, key, before, after, res] =>
    let h : HLLHandle := { m := ← pNat m, key := key, metadataKey := "" }
    let (s, r) := hllInit h (put Store.empty key (← pListVal before))
    pure (verdict (s key == (← pListVal after) && okErr r == res) s!"{okErr r} {showVal (s key)}")
  | ["rt.hll.update", m, key, before, idx, val, after, res] =>
    let h : HLLHandle := { m := ← pNat m, key := key, metadataKey := "" }
    let (s, r) := hllUpdate h (← pNat idx) (← pNat val) (put Store.empty key (← pListVal before))
    pure (verdict (s key == (← pListVal after) && okErr r == res) s!"{okErr r} {showVal (s key)}")
  | ["rt.hll.merge", m1, key1, before1, m2, key2, before2, after1, after2, res] =>
    let h : HLLHandle := { m := ← pNat m1, key := key1, metadataKey := "" }
    let g : HLLHandle := { m := ← pNat m2, key := key2, metadataKey := "" }
    let s0 := put (put Store.empty key2 (← pListVal before2)) key1 (← pListVal before1)
    let (s, r) := hllMerge h g s0
    pure (verdict (s key1 == (← pListVal after1) && s key2 == (← pListVal after2) && okErr r == res)
      s!"{okErr r} {showVal (s key1)} {showVal (s key2)}")
  | ["rt.hll.equals", m1, key1, l1, m2, key2, l2, res] =>
    let h : HLLHandle := { m := ← pNat m1, key := key1, metadataKey := "" }
    let g : HLLHandle := { m := ← pNat m2, key := key2, metadataKey := "" }
    let v1 ← pListVal l1; let v2 ← pListVal l2
    let s0 := put (put Store.empty key2 v2) key1 v1
    let (s, r) := hllEquals h g s0
    let gr := match r with | some true => "1" | some false => "0" | none => "err"
    -- `0n`: the script returned false, which reaches the Go caller as a nil reply (`redis.Nil` from `Bool()`)
    pure (verdict ((gr == res || (gr == "0" && res == "0n")) && s key1 == v1 && s key2 == v2) gr)
  | ["rt.hll.abs", m, key, content, exported] =>
    let h : HLLHandle := { m := ← pNat m, key := key, metadataKey := "" }
    let got := match absHLL (put Store.empty key (← pListVal content)) h with
      | none => "none"
      | some c => if c.m == h.m then showNatList c.regs else "dims"
    pure (verdict (got == exported) got)
  -- Bloom filter commands ----------------------------------------------------------------------
  | ["rt.bloom.init", size, bk, before, after] =>
    let h : BloomHandle := { size := ← pNat size, k := 0, bitsetKey := bk, metadataKey := "" }
    let (s, r) := bloomInit h (put Store.empty bk (← pBytesVal before))
    pure (verdict (s bk == (← pBytesVal after) && r.isSome) s!"{okErr r} {showVal (s bk)}")
  | ["rt.bloom.insert", bk, before, probes, after] =>
    let h : BloomHandle := { size := 0, k := 0, bitsetKey := bk, metadataKey := "" }
    let (s, r) := bloomInsert h (← pNatList probes) (put Store.empty bk (← pBytesVal before))
    pure (verdict (s bk == (← pBytesVal after)) s!"{okErr r} {showVal (s bk)}")
  | ["rt.bloom.lookup", bk, before, probes, after, res] =>
    let h : BloomHandle := { size := 0, k := 0, bitsetKey := bk, metadataKey := "" }
    let (s, r) := bloomLookup h (← pNatList probes) (put Store.empty bk (← pBytesVal before))
    let gr := match r with | some true => "1" | some false => "0" | none => "err"
    pure (verdict (s bk == (← pBytesVal after) && gr == res) s!"{gr} {showVal (s bk)}")
  | ["rt.bloom.abs", size, k, bk, content, exported] =>
    let h : BloomHandle := { size := ← pNat size, k := ← pNat k, bitsetKey := bk, metadataKey := "" }
    let got := match absBloom (put Store.empty bk (← pBytesVal content)) h with
      | none => "none"
      | some b =>
        if b.size == h.size && b.k == h.k && b.bits.length == h.size
        then showNatList ((List.range b.bits.length).filter (fun i => b.bits.getD i false)) else "dims"
    pure (verdict (got == exported) got)
  | op :: _ => throw s!"unknown-rt-op:{op}"
  | [] => throw "empty"

end Gostatix.Redis
