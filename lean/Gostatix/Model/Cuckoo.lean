/-
  Gostatix.Model.Cuckoo — model of cuckoo_filter.go / cuckoo_filter_redis.go /
  base_cuckoo_filter.go / bucket_mem.go / bucket_redis.go (after fix D1: the eviction loop
  carries the displaced fingerprint to its alternate bucket).

  The insert / lookup / remove algorithms are written once over a record of bucket operations
  (`BucketOps`); `memOps` is bucket_mem.go (fixed slot array, "" = empty slot, cached length),
  `redisOps` is bucket_redis.go (Redis list grown by LPUSH, holes re-used through LPOS ''/LSET,
  counter key `<key>_len`).  Randomness is an explicit argument: `side` (rand.Float32() < 0.5)
  and `slots` (the slot index drawn in each retry).
-/
import Gostatix.Model.Basic
import Gostatix.Model.Murmur
namespace Gostatix

/-- operations a cuckoo filter needs from a bucket of fingerprints `F` -/
structure BucketOps (B F : Type) where
  isFree : B → Bool
  add : B → F → B
  remove : B → F → B
  lookup : B → F → Bool
  get : B → Nat → F
  set : B → Nat → F → B

/-! ### bucket_mem.go -/

structure BucketMem (F : Type) where
  size : Nat
  elements : List F
  length : Nat
  deriving Repr, DecidableEq

namespace BucketMem
variable {F : Type} [DecidableEq F]

def new (emp : F) (size : Nat) : BucketMem F := ⟨size, List.replicate size emp, 0⟩
def isFree (b : BucketMem F) : Bool := b.length < b.size
def set (b : BucketMem F) (i : Nat) (e : F) : BucketMem F := { b with elements := b.elements.set i e }
/-- `add`: refuses the empty string and a full bucket; else first empty slot (`indexOf("")`). -/
def add (emp : F) (b : BucketMem F) (e : F) : BucketMem F :=
  if e = emp ∨ ¬ b.isFree then b
  else { b with elements := b.elements.set (b.elements.idxOf emp) e, length := b.length + 1 }
def lookup (b : BucketMem F) (e : F) : Bool := b.elements.contains e
/-- `remove`: first slot holding `e` is emptied and the cached length decremented. -/
def remove (emp : F) (b : BucketMem F) (e : F) : BucketMem F :=
  if b.elements.contains e then
    { b with elements := b.elements.set (b.elements.idxOf e) emp, length := b.length - 1 }
  else b
def get (emp : F) (b : BucketMem F) (i : Nat) : F := b.elements.getD i emp

def ops (emp : F) : BucketOps (BucketMem F) F :=
  { isFree := isFree, add := add emp, remove := remove emp, lookup := lookup, get := get emp, set := set }
end BucketMem

/-! ### bucket_redis.go  (list + `_len` counter) -/

structure BucketRedis (F : Type) where
  size : Nat
  list : List F
  len : Nat
  deriving Repr, DecidableEq

namespace BucketRedis
variable {F : Type} [DecidableEq F]

def new (size : Nat) : BucketRedis F := ⟨size, [], 0⟩
def isFree (b : BucketRedis F) : Bool := b.len < b.size
def set (b : BucketRedis F) (i : Nat) (e : F) : BucketRedis F := { b with list := b.list.set i e }
/-- Lua `addElement`: full → nothing; `LPOS key ''` found → `LSET`, else `LPUSH`; `INCRBY len 1`. -/
def add (emp : F) (b : BucketRedis F) (e : F) : BucketRedis F :=
  if e = emp ∨ ¬ b.isFree then b
  else if b.list.contains emp then
    { b with list := b.list.set (b.list.idxOf emp) e, len := b.len + 1 }
  else { b with list := e :: b.list, len := b.len + 1 }
def lookup (b : BucketRedis F) (e : F) : Bool := b.list.contains e
def remove (emp : F) (b : BucketRedis F) (e : F) : BucketRedis F :=
  if b.list.contains e then
    { b with list := b.list.set (b.list.idxOf e) emp, len := b.len - 1 }
  else b
def get (emp : F) (b : BucketRedis F) (i : Nat) : F := b.list.getD i emp

def ops (emp : F) : BucketOps (BucketRedis F) F :=
  { isFree := isFree, add := add emp, remove := remove emp, lookup := lookup, get := get emp, set := set }
end BucketRedis

/-! ### the filter -/

structure Cuckoo (B : Type) where
  n : Nat          -- number of buckets (`size`)
  bsize : Nat      -- bucket size
  fpl : Nat        -- fingerprint length (decimal digits)
  retries : Nat
  buckets : List B
  length : Nat
  deriving Repr, DecidableEq

inductive CRes (α : Type) where
  | ok : α → CRes α          -- Insert returned true
  | full : α → CRes α        -- panic("cannot insert element, cuckoofilter is full"), state after
  deriving Repr, DecidableEq

namespace Cuckoo
variable {B F : Type}

def bucketAt [Inhabited B] (bs : List B) (i : Nat) : B := bs.getD i default

/-- the eviction loop. `alt idx fp = (idx ^^^ H fp) % n`.
    returns the buckets after the loop, the log (newest first) and whether room was found. -/
def kick [Inhabited B] (o : BucketOps B F) (alt : Nat → F → Nat) :
    Nat → List B → Nat → F → List Nat → List (F × Nat × Nat) → List B × List (F × Nat × Nat) × Bool
  | 0, bs, _, _, _, log => (bs, log, false)
  | r+1, bs, idx, cur, slots, log =>
    let slot := slots.headD 0
    let prev := o.get (bucketAt bs idx) slot
    let log := (prev, idx, slot) :: log
    let bs := modAt bs idx (fun b => o.set b slot cur)
    let nidx := alt idx prev
    if o.isFree (bucketAt bs nidx) then
      (modAt bs nidx (fun b => o.add b prev), log, true)
    else kick o alt r bs nidx prev slots.tail log

/-- replay the log (newest first, exactly the Go `for i := len(items)-1; i >= 0; i--`) -/
def rollback (o : BucketOps B F) (bs : List B) (log : List (F × Nat × Nat)) : List B :=
  log.foldl (fun bs it => modAt bs it.2.1 (fun b => o.set b it.2.2 it.1)) bs

/-- `Insert(data, destructive)` with positions `(fp, i1, i2)`, and random choices. -/
def insert [Inhabited B] (o : BucketOps B F) (alt : Nat → F → Nat) (c : Cuckoo B)
    (fp : F) (i1 i2 : Nat) (destructive : Bool) (side : Bool) (slots : List Nat) : CRes (Cuckoo B) :=
  if o.isFree (bucketAt c.buckets i1) then
    .ok { c with buckets := modAt c.buckets i1 (fun b => o.add b fp), length := c.length + 1 }
  else if o.isFree (bucketAt c.buckets i2) then
    .ok { c with buckets := modAt c.buckets i2 (fun b => o.add b fp), length := c.length + 1 }
  else
    let idx := if side then i1 else i2
    let (bs, log, found) := kick o alt c.retries c.buckets idx fp slots []
    if found then .ok { c with buckets := bs, length := c.length + 1 }
    else if destructive then .full { c with buckets := bs }
    else .full { c with buckets := rollback o bs log }

def lookup [Inhabited B] (o : BucketOps B F) (c : Cuckoo B) (fp : F) (i1 i2 : Nat) : Bool :=
  o.lookup (bucketAt c.buckets i1) fp || o.lookup (bucketAt c.buckets i2) fp

def remove [Inhabited B] (o : BucketOps B F) (c : Cuckoo B) (fp : F) (i1 i2 : Nat) : Cuckoo B × Bool :=
  if o.lookup (bucketAt c.buckets i1) fp then
    ({ c with buckets := modAt c.buckets i1 (fun b => o.remove b fp), length := c.length - 1 }, true)
  else if o.lookup (bucketAt c.buckets i2) fp then
    ({ c with buckets := modAt c.buckets i2 (fun b => o.remove b fp), length := c.length - 1 }, true)
  else (c, false)

/-! ### exact mode: positions from the element bytes (`getPositions`) -/

/-- alternate bucket: `(index ^ getHash(fp)) % n` -/
def altOf (H : F → Nat) (n : Nat) (idx : Nat) (fp : F) : Nat := (idx ^^^ H fp) % n

def hashStr (s : String) : Nat := Murmur.getHash s.toUTF8.toList

/-- `getPositions`: decimal string of the hash, first `fpl` digits; invalid (`fpl` longer than
    the decimal string) gives `("", 0, 0)` — the Go callers ignore the error. -/
def positions (n fpl : Nat) (data : List UInt8) : String × Nat × Nat :=
  let hash := Murmur.getHash data
  let hs := toString hash
  if fpl > hs.length then ("", 0, 0)
  else
    let fp : String := String.ofList (hs.toList.take fpl)
    let i1 := hash % n
    (fp, i1, (i1 ^^^ hashStr fp) % n)

end Cuckoo

instance : Inhabited (BucketMem String) := ⟨⟨0, [], 0⟩⟩
instance : Inhabited (BucketRedis String) := ⟨⟨0, [], 0⟩⟩

end Gostatix
