/-
  Gostatix.Model.GoMurmur — HAND-WRITTEN assembly of the pieces of `Gostatix/Generated/Murmur.lean`
  (written by extract/murmur.go from /repo/murmur.go on every run) into the functions `bmix` and
  `sum128` of murmur.go.

  GENERATED (Generated/Murmur.lean): the constants, `blockLoad` (the unsafe load of one block),
  `bmixBlock` (the loop body of `bmix`), `bmixLoopFrom` / `bmixLoopStep` (loop header), `fmix64`,
  `tailMix` (the `switch ... fallthrough` over the tail), `finalize`, `digestSum128` (= `Sum128`),
  `seedH1` / `seedH2` (initial state), `nblocksOf` (`nblocks := dlen / 16`), `tailStart`
  (`data[nblocks*d.Size():]`), `getHashWord`.

  ASSEMBLY (this file, not regenerated): the `for` loop as a fold over the block indices
  `bmixLoopFrom, bmixLoopFrom + bmixLoopStep, ...` (`nblocks - bmixLoopFrom` iterations when the step
  is 1; the extractor only accepts `for i := <lit>; i < nblocks; i++`), the sequence of the six
  statements of `sum128` (their shapes are checked by the extractor, which lists them in the comment of
  `seedH1`), `data[j:]` as `List.drop j`, `len` as `List.length`, `uint(dlen)` as `UInt64.ofNat`.
  The definitions are put into the namespace `Gostatix.Generated.Murmur` next to the pieces.
-/
import Gostatix.Generated.Murmur
namespace Gostatix.Generated.Murmur

/-- `(*digest128).bmix(p, nblocks)` on the state `(d.h1, d.h2)`:
    `h1, h2 := d.h1, d.h2; for i := bmixLoopFrom; i < nblocks; i += bmixLoopStep { k1, k2 := load; body }; d.h1, d.h2 = h1, h2` -/
def bmix (p : List UInt8) (nblocks : Nat) (h1 h2 : UInt64) : UInt64 × UInt64 :=
  (List.range' bmixLoopFrom (nblocks - bmixLoopFrom) bmixLoopStep).foldl
    (fun s i => bmixBlock s.1 s.2 (blockLoad p i).1 (blockLoad p i).2) (h1, h2)

/-- `sum128(data)`: both words. -/
def sum128 (data : List UInt8) : UInt64 × UInt64 :=
  let dlen := data.length
  let nblocks := nblocksOf dlen
  let s := bmix data nblocks seedH1 seedH2
  let tail := data.drop (tailStart nblocks)
  digestSum128 tail (UInt64.ofNat dlen) s.1 s.2

/-- `getHash(data)` of base_cuckoo_filter.go. -/
def getHash (data : List UInt8) : UInt64 := getHashWord (sum128 data)

end Gostatix.Generated.Murmur
