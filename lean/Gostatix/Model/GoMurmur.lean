/-
  Gostatix.Model.GoMurmur — HAND-WRITTEN assembly of the pieces of `Gostatix/Generated/Murmur.lean`
  (written by extract/murmur.go from /repo/murmur.go on every run) into the functions `bmix` and
  `sum128` of murmur.go.

  GENERATED (Generated/Murmur.lean): `blockLoad` (the unsafe load of one block), `bmixBlock` (the
  loop body of `bmix`), `bmixLoopFrom` / `bmixLoopStep` (loop header), `tailMix` (the
  `switch ... fallthrough` over the tail), `finalize` (with `fmix64` inlined), `digestSum128`
  (= `Sum128`), `seedH1` / `seedH2` (initial state), `nblocksOf` (the block count passed to `bmix`,
  `len(data) / 16`), `tailStart` (first byte of the tail, `len(data) / 16 * 16`), `lengthArg` (the
  length passed to `Sum128`), `getHashWord`.  These names are ROLES chosen by the translator; this
  file and the proofs never refer to a name that comes from a Go identifier (constants are resolved
  to their values, helper functions are inlined).

  ASSEMBLY (this file, not regenerated): the `for` loop as a fold over the block indices
  `bmixLoopFrom, bmixLoopFrom + bmixLoopStep, ...` (`nblocks - bmixLoopFrom` iterations when the step
  is 1; the extractor only accepts `for i := <const>; i < nblocks; i++`), the data flow of `sum128`
  (create the digest, `bmix` on the whole input with the block count, `Sum128` on the tail with the
  length; the extractor recognises every statement of `sum128` and lists them in the comment of
  `seedH1`), `data[j:]` as `List.drop j`, `len` as `List.length`, `uint(..)` as `UInt64.ofNat`.
  The definitions are put into the namespace `Gostatix.Generated.Murmur` next to the pieces.
-/
import Gostatix.Generated.Murmur
namespace Gostatix.Generated.Murmur

/-- `(*digest128).bmix(p, nblocks)` on the state `(d.h1, d.h2)`:
    `h1, h2 := d.h1, d.h2; for i := bmixLoopFrom; i < nblocks; i += bmixLoopStep { k1, k2 := load; body }; d.h1, d.h2 = h1, h2` -/
def bmix (p : List UInt8) (nblocks : Nat) (h1 h2 : UInt64) : UInt64 × UInt64 :=
  (List.range' bmixLoopFrom (nblocks - bmixLoopFrom) bmixLoopStep).foldl
    (fun s i => bmixBlock s.1 s.2 (blockLoad p i).1 (blockLoad p i).2) (h1, h2)

/-- `sum128(data)`: both words. -/
def sum128 (data : List UInt8) : UInt64 × UInt64 :=
  let dlen := data.length
  let s := bmix data (nblocksOf dlen) seedH1 seedH2
  let tail := data.drop (tailStart dlen)
  digestSum128 tail (UInt64.ofNat (lengthArg dlen)) s.1 s.2

/-- `getHash(data)` of base_cuckoo_filter.go. -/
def getHash (data : List UInt8) : UInt64 := getHashWord (sum128 data)

end Gostatix.Generated.Murmur
