/-
  Gostatix.Model.LuaDriver — line protocol that ties the Lua interpreter (Model/Lua.lean) applied
  to the scripts extracted from the Go sources (Generated/LuaScripts.lean) to what the real
  stand-in did.  Suite `luatie` of the harness (harness/s_luatie.go) records EVERY `EVAL`/`EVALSHA`
  the library issues: the arguments as sent on the wire, the whole database before and after, the
  reply as received on the wire.  One line per invocation:

      lua.eval <sha1> <keys> <args> <db before> <reply> <db after>

  `handle` looks the script up by its SHA-1 in `Generated.LuaScripts.all`, runs `Lua.runLog` on the
  database built from `<db before>` and answers
      ok                         reply and resulting database agree with the recorded ones
      skip <why>                 the interpreter's outcome is `unsupported` (floats, …)
      mismatch unknown-script    no extracted script has that SHA-1
      mismatch <computed>        what the interpreter computed instead
  (a parse error is `bad-line`, raised as `Except.error`).

  Encodings (tokens are separated by single spaces and contain none):
      string        lowercase hex of its bytes, `_` for the empty string
      string list   `-` (empty) or strings separated by `,`
      database      `-` (empty) or entries separated by `;`, sorted by key, each `<key>=<t>:<payload>`
                      s:<string>                        string value
                      l:<string list>                   list
                      h:<field>~<value>,…  (or `-`)     hash   (compared as a set of pairs)
                      z:<member>~<score>,… (or `-`)     sorted set, score a decimal natural
                                                        (compared as a set: its order is derived)
      reply         i:<int> | b:<string> (bulk) | n (nil) | s:<string> (status) | e (error: the
                    message is not compared) | a(<reply>|<reply>|…) (array, `a()` when empty)

  Byte strings become Lean strings whose characters are the bytes (see Model/Lua.lean).
  Core Lean only; `partial` is used for parsing only.
-/
import Gostatix.Model.Lua
import Gostatix.Generated.LuaScripts
namespace Gostatix.Lua.Driver
open Gostatix.Redis

abbrev P := Except String

/-! ### strings -/

def hexVal (c : Char) : Option Nat :=
  if '0' ≤ c ∧ c ≤ '9' then some (c.toNat - '0'.toNat)
  else if 'a' ≤ c ∧ c ≤ 'f' then some (c.toNat - 'a'.toNat + 10) else none

partial def unhexAux : List Char → List Char → P (List Char)
  | [], acc => pure acc.reverse
  | [_], _ => throw "hex:odd"
  | a :: b :: rest, acc =>
    match hexVal a, hexVal b with
    | some x, some y => unhexAux rest (Char.ofNat (x * 16 + y) :: acc)
    | _, _ => throw "hex:char"

/-- a hex token as the string whose characters are the bytes. -/
def pStr (s : String) : P String :=
  if s == "_" then pure "" else do pure (String.ofList (← unhexAux s.toList []))

def hexDigit (n : Nat) : Char := if n < 10 then Char.ofNat (n + 48) else Char.ofNat (n - 10 + 97)

def showStr (s : String) : String :=
  if s.isEmpty then "_" else
  String.ofList (s.toList.foldr (fun c acc => hexDigit (c.toNat / 16 % 16) :: hexDigit (c.toNat % 16) :: acc) [])

def pStrList (s : String) : P (List String) :=
  if s == "-" then pure [] else (s.splitOn ",").mapM pStr

def showStrList (l : List String) : String :=
  if l.isEmpty then "-" else ",".intercalate (l.map showStr)

def pNat (s : String) : P Nat :=
  match s.toNat? with
  | some n => pure n
  | none => throw s!"nat:{s}"

/-! ### database -/

def pPair (s : String) : P (String × String) :=
  match s.splitOn "~" with
  | [a, b] => pure (a, b)
  | _ => throw s!"pair:{s}"

def sortPairs (h : List (String × String)) : List (String × String) :=
  (h.toArray.qsort (fun a b => a.1 < b.1 || (a.1 == b.1 && a.2 < b.2))).toList

def sortZ (z : List HElem) : List HElem := (z.toArray.qsort (fun a b => TopK.zLt a b)).toList

/-- values are kept in a normal form: hash fields sorted, sorted sets in (score, member) order. -/
def norm : Val → Val
  | .hash h => .hash (sortPairs h)
  | .zset z => .zset (sortZ z)
  | v => v

def pVal (s : String) : P Val := do
  let cs := s.toList
  match cs with
  | t :: ':' :: rest =>
    let payload := String.ofList rest
    match t with
    | 's' => pure (.str (asciiBytes (← pStr payload)))
    | 'l' => pure (.list (← pStrList payload))
    | 'h' =>
      if payload == "-" then pure (.hash []) else do
        let ps ← (payload.splitOn ",").mapM pPair
        let fs ← ps.mapM fun (f, v) => do pure (← pStr f, ← pStr v)
        pure (norm (.hash fs))
    | 'z' =>
      if payload == "-" then pure (.zset []) else do
        let ps ← (payload.splitOn ",").mapM pPair
        let ms ← ps.mapM fun (m, sc) => do pure (← pStr m, ← pNat sc)
        pure (norm (.zset ms))
    | _ => throw s!"type:{t}"
  | _ => throw s!"value:{s}"

def pEntry (s : String) : P (String × Val) :=
  match s.splitOn "=" with
  | [k, v] => do pure (← pStr k, ← pVal v)
  | _ => throw s!"entry:{s}"

def pDb (s : String) : P (List (String × Val)) :=
  if s == "-" then pure [] else (s.splitOn ";").mapM pEntry

def showVal : Val → String
  | .str b => "s:" ++ showStr (latin1 b)
  | .list l => "l:" ++ showStrList l
  | .hash h => "h:" ++ (if h.isEmpty then "-" else ",".intercalate (h.map fun fv => showStr fv.1 ++ "~" ++ showStr fv.2))
  | .zset z => "z:" ++ (if z.isEmpty then "-" else ",".intercalate (z.map fun e => showStr e.1 ++ "~" ++ toString e.2))

def showOptVal : Option Val → String
  | none => "absent"
  | some v => showVal (norm v)

def storeOf (db : List (String × Val)) : Store :=
  db.foldl (fun st kv => st.set kv.1 kv.2) Store.empty

def lookup (db : List (String × Val)) (k : String) : Option Val :=
  (db.find? (fun kv => kv.1 == k)).map (·.2)

/-! ### replies -/

partial def pReplyAux : List Char → P (Reply × List Char)
  | 'n' :: rest => pure (.nil, rest)
  | 'e' :: rest => pure (.error "", rest)
  | 'i' :: ':' :: rest =>
    let (tok, rest') := rest.span (fun c => c != '|' && c != ')')
    match (String.ofList tok).toInt? with
    | some n => pure (.int n, rest')
    | none => throw "reply:int"
  | 'b' :: ':' :: rest => do
    let (tok, rest') := rest.span (fun c => c != '|' && c != ')')
    pure (.bulk (← pStr (String.ofList tok)), rest')
  | 's' :: ':' :: rest => do
    let (tok, rest') := rest.span (fun c => c != '|' && c != ')')
    pure (.status (← pStr (String.ofList tok)), rest')
  | 'a' :: '(' :: ')' :: rest => pure (.array [], rest)
  | 'a' :: '(' :: rest => do
    let rec items (cs : List Char) (acc : List Reply) : P (List Reply × List Char) := do
      let (r, cs') ← pReplyAux cs
      match cs' with
      | '|' :: cs'' => items cs'' (r :: acc)
      | ')' :: cs'' => pure ((r :: acc).reverse, cs'')
      | _ => throw "reply:array"
    let (l, rest') ← items rest []
    pure (.array l, rest')
  | _ => throw "reply"

def pReply (s : String) : P Reply := do
  let (r, rest) ← pReplyAux s.toList
  if rest.isEmpty then pure r else throw "reply:trailing"

partial def showReply : Reply → String
  | .int n => s!"i:{n}"
  | .bulk s => "b:" ++ showStr s
  | .nil => "n"
  | .status s => "s:" ++ showStr s
  | .error _ => "e"
  | .array l => "a(" ++ "|".intercalate (l.map showReply) ++ ")"

/-! ### one invocation -/

def fuel : Nat := 100000000

def dedup (l : List String) : List String :=
  l.foldl (fun acc k => if acc.contains k then acc else acc ++ [k]) []

def verdictEval (sha keys args before reply after : String) : P String := do
  let keys ← pStrList keys
  let args ← pStrList args
  let before ← pDb before
  let after ← pDb after
  -- the recorded reply, re-printed in normal form (an error's message is dropped)
  let obsReply := showReply (← pReply reply)
  match Gostatix.Generated.LuaScripts.all.find? (fun s => s.sha1 == sha) with
  | none => pure "mismatch unknown-script"
  | some info =>
    let (st, outcome, log) := runLog fuel info.ast keys args (storeOf before)
    match outcome with
    | .unsupported why => pure s!"skip {info.name}: {why}"
    | .outOfFuel => pure s!"mismatch {info.name}: out of fuel"
    | _ =>
      let gotReply := match outcome with
        | .reply r => showReply r
        | _ => "e"
      -- every key that existed before, exists after, or was handed to a command
      let ks := dedup (before.map (·.1) ++ after.map (·.1) ++ log.reverse)
      let diffs := ks.filter fun k => showOptVal (st k) != showOptVal (lookup after k)
      if gotReply == obsReply && diffs.isEmpty then pure "ok"
      else
        let d := diffs.map fun k => s!"{showStr k}={showOptVal (st k)}"
        pure s!"mismatch {info.name}: reply {gotReply} db {if d.isEmpty then "same" else ";".intercalate d}"

def handle (toks : List String) : P String :=
  match toks with
  | ["lua.eval", sha, keys, args, before, reply, after] => verdictEval sha keys args before reply after
  | op :: _ => throw s!"lua:args:{op}"
  | [] => throw "empty"

end Gostatix.Lua.Driver
