/-
  Gostatix.Model.TopKSpec — abstract specification of `TopK.Insert` (top_k.go / top_k_redis.go).

  The tracked heap is a list of `(element, frequency)` pairs read as a MULTISET (everything below
  is stated up to `List.Perm`).  One insert event is `(x, c, f)`: the element, the count added to
  the sketch, and the sketch estimate `f` of `x` right after the update.  The step is a RELATION:
  the in-memory heap and the Redis sorted set break frequency ties differently, so the victim of
  an eviction is only required to carry a minimal frequency.

      if len(heap) < k || f >= (minimal frequency in heap) {
          drop the entry of x (if any); add (x, f)
          if len(heap) > k { remove some entry of minimal frequency }
      }

  Core Lean only.
-/
namespace Gostatix.TopK

variable {E : Type} [DecidableEq E]

/-- one `Insert(x, c)`; `f` is the Count-Min estimate of `x` right after the sketch update -/
structure Event (E : Type) where
  x : E
  c : Nat
  f : Nat
  deriving DecidableEq, Repr

/-- exact number of occurrences of `y` inserted by the history (sum of the counts of its events) -/
def trueTotal (evs : List (Event E)) (y : E) : Nat :=
  ((evs.filter (fun e => e.x = y)).map (·.c)).sum

/-- sum of all inserted counts -/
def total (evs : List (Event E)) : Nat := (evs.map (·.c)).sum

/-- the elements of a list without repetition (keeps the last occurrence of each) -/
def distinct : List E → List E
  | [] => []
  | a :: l => if a ∈ l then distinct l else a :: distinct l

/-- number of distinct elements inserted by the history -/
def numDistinct (evs : List (Event E)) : Nat := (distinct (evs.map (·.x))).length

/-- `mn` is the minimal frequency stored in `heap` (`heap[0].frequency` / `ZRANGE 0 0`) -/
def isMinFreq (heap : List (E × Nat)) (mn : Nat) : Prop :=
  (∃ e ∈ heap, e.2 = mn) ∧ ∀ e ∈ heap, mn ≤ e.2

/-- the guard `len(heap) < k || f >= heap[0].frequency`, with `heap[0]` an entry of minimal
    frequency (stated on entries so that it is decidable; see `admit_iff_isMinFreq`). -/
def Admit (k : Nat) (heap : List (E × Nat)) (f : Nat) : Prop :=
  heap.length < k ∨ ∃ m ∈ heap, (∀ e ∈ heap, m.2 ≤ e.2) ∧ m.2 ≤ f

/-- `heap.Remove(IndexOf x)` (if present) followed by `heap.Push (x, f)`, as a multiset -/
def upsert (heap : List (E × Nat)) (x : E) (f : Nat) : List (E × Nat) :=
  heap.filter (fun e => e.1 ≠ x) ++ [(x, f)]

/-- One `Insert` on the tracked heap, for ANY resolution of ties. -/
def Step (k : Nat) (heap : List (E × Nat)) (xf : E × Nat) (heap' : List (E × Nat)) : Prop :=
  (Admit k heap xf.2 →
    (k < (upsert heap xf.1 xf.2).length →
      ∃ victim ∈ upsert heap xf.1 xf.2,
        (∀ e ∈ upsert heap xf.1 xf.2, victim.2 ≤ e.2) ∧
        heap'.Perm ((upsert heap xf.1 xf.2).erase victim)) ∧
    (¬ k < (upsert heap xf.1 xf.2).length → heap'.Perm (upsert heap xf.1 xf.2))) ∧
  (¬ Admit k heap xf.2 → heap'.Perm heap)

/-- heaps reachable from the empty heap by a history of inserts (chronological order) -/
inductive Reach (k : Nat) : List (Event E) → List (E × Nat) → Prop
  | nil : Reach k [] []
  | snoc {evs heap e heap'} : Reach k evs heap → Step k heap (e.x, e.f) heap' →
      Reach k (evs ++ [e]) heap'

/-- What the Count-Min sketch guarantees about the estimates of a history:
    * event `i` for element `x`:  `trueTotal (events 0..i) x ≤ f_i ≤ total (events 0..i)`;
    * the estimates of one element never decrease over time. -/
def EstOK (evs : List (Event E)) : Prop :=
  (∀ i (h : i < evs.length),
      trueTotal (evs.take (i + 1)) evs[i].x ≤ evs[i].f ∧ evs[i].f ≤ total (evs.take (i + 1))) ∧
  (∀ j (hj : j < evs.length) i (hi : i < j),
      (evs[i]'(Nat.lt_trans hi hj)).x = evs[j].x → (evs[i]'(Nat.lt_trans hi hj)).f ≤ evs[j].f)

/-- all counts are positive (`Insert(x, 0)` is legal in the Go code; none of the C04 theorems
    needs this, it is only here to state the hypothesis of the informal property) -/
def CountsPos (evs : List (Event E)) : Prop := ∀ e ∈ evs, 1 ≤ e.c

/-- every estimate is exact (no collision ever inflated a probed cell) -/
def Exact (evs : List (Event E)) : Prop :=
  ∀ i (h : i < evs.length), evs[i].f = trueTotal (evs.take (i + 1)) evs[i].x

instance (k : Nat) (heap : List (E × Nat)) (f : Nat) : Decidable (Admit k heap f) := by
  unfold Admit; infer_instance

instance (k : Nat) (heap : List (E × Nat)) (xf : E × Nat) (heap' : List (E × Nat)) :
    Decidable (Step k heap xf heap') := by
  unfold Step; infer_instance

instance (evs : List (Event E)) : Decidable (EstOK evs) := by
  unfold EstOK; infer_instance

instance (evs : List (Event E)) : Decidable (Exact evs) := by
  unfold Exact; infer_instance

instance (evs : List (Event E)) : Decidable (CountsPos evs) := by
  unfold CountsPos; infer_instance

end Gostatix.TopK
