/-
  Gostatix.Model.GoBits — the Go primitives used by the definitions that extract/murmur.go writes
  into `Gostatix/Generated/Murmur.lean`.  HAND-WRITTEN, small, and independent of the hand
  transcription `Gostatix/Model/Murmur.lean` (none of its definitions is used here): the tie
  theorems of Props/MurmurTie.lean relate the two.

  * `rotl64 x k`  — `bits.RotateLeft64(x, k)` for a literal `0 ≤ k < 64` (the extractor refuses
                    anything else): the rotation of the 64-bit vector, `BitVec.rotateLeft`.
  * `byteAt s i`  — `uint64(s[i])` for `s []byte`: the zero-extended byte.  Go panics when
                    `i ≥ len(s)`; here the value is 0.  The extractor checks that the statements of
                    `case c` of the tail switch only read indices `< c`, and they only run when
                    `len(s) & 15 ≥ c`, so every index that is read is in range.
  * `le64 bs`     — the little-endian value of (at most 8) bytes, first byte least significant.
                    This is what `*(*uint64)(unsafe.Pointer(&p[j]))` reads on a little-endian
                    target (amd64, arm64, riscv64, ...): ASSUMPTION, recorded in the generated header.
  * `loadLE64 p j` — `le64` of the 8 bytes `p[j] .. p[j+7]`.
-/
namespace Gostatix.GoBits

/-- `bits.RotateLeft64(x, k)`, literal `0 ≤ k < 64`. -/
def rotl64 (x : UInt64) (k : Nat) : UInt64 := ⟨x.toBitVec.rotateLeft k⟩

/-- `uint64(s[i])` for a byte slice `s`. -/
def byteAt (s : List UInt8) (i : Nat) : UInt64 := (s.getD i 0).toUInt64

/-- little-endian value of a byte string: `b0 + 256 * (b1 + 256 * (...))` in 64 bits. -/
def le64 : List UInt8 → UInt64
  | [] => 0
  | b :: bs => b.toUInt64 ||| (le64 bs <<< 8)

/-- the 64-bit word stored at byte offset `j` of `p` (little-endian target). -/
def loadLE64 (p : List UInt8) (j : Nat) : UInt64 := le64 ((p.drop j).take 8)

end Gostatix.GoBits
