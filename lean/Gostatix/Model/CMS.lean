/-
  Gostatix.Model.CMS — model of count_min_sketch.go / count_min_sketch_redis.go.

  Go (in-memory):  for r, c := range getPositions(data) { matrix[r][c] += count }            (Update)
                   for r, c := range getPositions(data) { if r == 0 || matrix[r][c] < min { min = matrix[r][c] } }  (Count)
  Lua (Redis):     per row list `<key><r>`: LINDEX / LSET val+count                              (Update)
                   `if count < min or tonumber(KEYS[i]) == 0 then min = count end`               (Count)
  `pos : List Nat` is the element's column per row (`getPositions`), one entry per row.
  Counters are `Nat`; the Go counters are uint64 and the Lua ones float64 – the theorems state the
  no-overflow hypothesis where it matters.
-/
import Gostatix.Model.Basic
namespace Gostatix

structure CMS where
  rows : Nat
  cols : Nat
  m : List (List Nat)
  deriving Repr, DecidableEq

namespace CMS

def new (rows cols : Nat) : CMS :=
  { rows := rows, cols := cols, m := List.replicate rows (List.replicate cols 0) }

/-- add `c` at column `pos[r]` of every row `r`. -/
def updRows : List (List Nat) → List Nat → Nat → List (List Nat)
  | row :: m, p :: pos, c => modAt row p (· + c) :: updRows m pos c
  | m, _, _ => m

def update (s : CMS) (pos : List Nat) (c : Nat) : CMS := { s with m := updRows s.m pos c }

/-- the cells probed by an element, one per row. -/
def cells : List (List Nat) → List Nat → List Nat
  | row :: m, p :: pos => row.getD p 0 :: cells m pos
  | _, _ => []

/-- minimum where the first row initialises (`r == 0 || v < min`), 0 for no rows. -/
def minInit : List Nat → Nat
  | [] => 0
  | v :: vs => vs.foldl (fun mn x => if x < mn then x else mn) v

def count (s : CMS) (pos : List Nat) : Nat := minInit (cells s.m pos)

/-- `getPositions` of base_count_min_sketch.go: `(h1 + r*h2) mod 2^64 mod columns`. -/
def position (h1 h2 r cols : Nat) : Nat := ((h1 + r * h2) % 2 ^ 64) % cols

def positionsOf (h1 h2 rows cols : Nat) : List Nat :=
  (List.range rows).map (fun r => position h1 h2 r cols)

/-- pointwise sum of two matrices (Merge). -/
def addRows : List (List Nat) → List (List Nat) → List (List Nat)
  | r1 :: m1, r2 :: m2 => List.zipWith (· + ·) r1 r2 :: addRows m1 m2
  | m1, _ => m1

inductive Res (α : Type) where
  | ok : α → Res α
  | err : Res α
  deriving Repr, DecidableEq

/-- `Merge`: dimension check (rows first, then columns), then cell-wise addition into the receiver. -/
def merge (a b : CMS) : Res CMS :=
  if a.rows ≠ b.rows then .err
  else if a.cols ≠ b.cols then .err
  else .ok { a with m := addRows a.m b.m }

/-- `Equals` (after fix D10): `rows != || columns !=` → false, else cell-wise comparison. -/
def equals (a b : CMS) : Bool :=
  if a.rows ≠ b.rows ∨ a.cols ≠ b.cols then false else a.m == b.m

end CMS
end Gostatix
