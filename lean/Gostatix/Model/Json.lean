/-
  Gostatix.Model.Json — model of the JSON `Export` / `Import` methods of the ten variants
  (Bloom / Cuckoo / Count-Min / HyperLogLog / Top-K  ×  in-memory / Redis).   Core Lean only.

  Conventions
  * `encoding/json` (Go mirror struct ⇄ bytes) is trusted: the mirror struct `*JSON` of the Go
    code is a Lean record `…Doc`, and Marshal followed by Unmarshal is the identity on it, EXCEPT
    that Go strings are coerced to valid UTF-8 by Marshal (`utf8fix`, an abstract function; nothing
    is assumed about it).  The only strings with arbitrary bytes are the Top-K element names
    (`TopKDoc.jsonTrip`).  Cuckoo fingerprints are decimal digit strings, key names are
    alphabetic; `[]byte` / `[]uint8` fields travel as base64 (lossless); float64 fields travel in
    the shortest round-tripping decimal form and are modelled by their bit pattern (a `Nat`).
  * `exportDoc` (`export` is a Lean keyword) builds the mirror struct exactly as the Go method
    does; `importDoc` assigns exactly
    the fields the Go method assigns, in the order it does, re-adding elements the way it does.
    The second argument of `importDoc` is the instance being overwritten (arbitrary state).
  * `IRes` is the outcome of an `Import` call: returned nil / returned an error (with the state
    it left behind) / run-time panic.
  * Redis: `Store` is the key space.  Key *names* are structured (`Key`): `rand id` is a result
    of `util.GenerateRandomString(16)` (52-letter alphabet), the other constructors are the
    names derived from it by the Go code.  That distinct structured keys are distinct strings
    is a property of those 16-letter alphabetic names (derived names differ in length or in
    the position of `_`/digits) and is the one modelling assumption on key names.
    Importing "under new keys" = the random names drawn by Import (`withNewKey = true`) are
    passed in as fresh ids.
-/
import Gostatix.Model.Basic
import Gostatix.Model.Bloom
import Gostatix.Model.CMS
import Gostatix.Model.HLL
import Gostatix.Model.Cuckoo
import Gostatix.Model.TopK
import Gostatix.Model.Codec
namespace Gostatix.Json
open Gostatix.Codec (encU64 beVal)

/-- outcome of an `Import` call -/
inductive IRes (σ : Type) where
  | ok (s : σ)      -- returned nil
  | err (s : σ)     -- returned a non-nil error; `s` is the state left behind
  | panic           -- run-time panic (index out of range …)
  deriving Repr, DecidableEq

/-- `for i := 0; i < n; i++ { st = body(st, i) }` -/
def forN {σ : Type} (n : Nat) (body : σ → Nat → σ) (st : σ) : σ := (List.range n).foldl body st

/-! ## The Redis key space -/

inductive Key where
  | rand (id : Nat)                 -- `util.GenerateRandomString(16)`
  | cuckooBucket (id i : Nat)       -- `"cuckoo_" + key + "_bucket_" + strconv.FormatUint(i, 10)`
  | cuckooBucketLen (id i : Nat)    -- the same `+ "_len"`
  | cmsRow (id r : Nat)             -- `key .. tostring(r)`
  deriving DecidableEq, Repr

/-- the random name a key name is derived from -/
def Key.id : Key → Nat
  | .rand id => id
  | .cuckooBucket id _ => id
  | .cuckooBucketLen id _ => id
  | .cmsRow id _ => id

inductive Val where
  | absent                              -- key does not exist
  | str (b : Bytes)                     -- string (bitmap)
  | int (n : Nat)                       -- string holding a decimal integer (INCRBY counters)
  | strs (l : List String)              -- list of strings (cuckoo bucket)
  | nums (l : List Nat)                 -- list of decimal numbers (sketch row, registers)
  | keys (l : List Key)                 -- list of key names (cuckoo filter's bucket list)
  | hash (h : List (String × Nat))      -- hash (metadata); key names stored by their id
  deriving DecidableEq, Repr

/-- reading a value at the type a command expects (a missing key reads as empty / 0) -/
def Val.toStr : Val → Bytes | .str b => b | _ => []
def Val.toInt : Val → Nat | .int n => n | _ => 0
def Val.toStrs : Val → List String | .strs l => l | _ => []
def Val.toNums : Val → List Nat | .nums l => l | _ => []
def Val.toKeys : Val → List Key | .keys l => l | _ => []
def Val.toHash : Val → List (String × Nat) | .hash h => h | _ => []

abbrev Store := Key → Val

namespace Store
def set (st : Store) (k : Key) (v : Val) : Store := fun k' => if k' = k then v else st k'

def getStr (st : Store) (k : Key) : Bytes := (st k).toStr
def getInt (st : Store) (k : Key) : Nat := (st k).toInt
def getStrs (st : Store) (k : Key) : List String := (st k).toStrs
def getNums (st : Store) (k : Key) : List Nat := (st k).toNums
def getKeys (st : Store) (k : Key) : List Key := (st k).toKeys
def getHash (st : Store) (k : Key) : List (String × Nat) := (st k).toHash

/-- `DEL k` -/
def del (st : Store) (k : Key) : Store := st.set k .absent
/-- `RPUSH k v₁ … vₙ` on a list of strings -/
def rpushStrs (st : Store) (k : Key) (vs : List String) : Store := st.set k (.strs (st.getStrs k ++ vs))
/-- `RPUSH k v₁ … vₙ` on a list of numbers -/
def rpushNums (st : Store) (k : Key) (vs : List Nat) : Store := st.set k (.nums (st.getNums k ++ vs))
/-- `LPUSH k v₁ … vₙ`: each value is put at the head, so they end up reversed -/
def lpushNums (st : Store) (k : Key) (vs : List Nat) : Store := st.set k (.nums (vs.reverse ++ st.getNums k))
def lpushKeys (st : Store) (k : Key) (vs : List Key) : Store := st.set k (.keys (vs.reverse ++ st.getKeys k))
/-- `INCRBY k n` (a missing key counts as 0) -/
def incrBy (st : Store) (k : Key) (n : Nat) : Store := st.set k (.int (st.getInt k + n))
/-- `HSET k f₁ v₁ …`: the given fields replace equally named ones -/
def hset (st : Store) (k : Key) (fs : List (String × Nat)) : Store :=
  st.set k (.hash (fs ++ (st.getHash k).filter (fun p => !fs.any (fun q => q.1 == p.1))))
/-- `HGET k f` (0 when missing, as `.Int64()` with the error dropped) -/
def hget (st : Store) (k : Key) (f : String) : Nat :=
  match (st.getHash k).find? (fun p => p.1 == f) with | some p => p.2 | none => 0
end Store

/-! ## Bloom filter (bloom_filter.go, bitset_mem.go, bitset_redis.go)

  `bloomFilterType{M, K, B []byte}`.  `B` is what `filter.marshal()` returned.
  * BitSetMem: `bitset.BitSet.MarshalJSON` = JSON string of base64url(`MarshalBinary`), i.e. of
    `uint64 length ++ words` (the format of C11); the Doc carries the bit vector itself.
  * BitSetRedis: JSON string of base64url(`8-byte big-endian size ++ transformed bitmap`); the
    Doc carries that byte string (`marshalRedis`) — the transformation is modelled byte-exactly. -/

structure BloomDoc (β : Type) where
  m : Nat
  k : Nat
  b : β
  deriving Repr, DecidableEq

/-- in-memory filter: `BloomFilter{size,numHashes}` + `BitSetMem{set,size}` -/
structure BloomMem where
  size : Nat
  k : Nat
  bsSize : Nat          -- BitSetMem.size
  bits : List Bool      -- bitset.BitSet (its `length` is `bits.length`)
  deriving Repr, DecidableEq

namespace BloomMem
def toModel (s : BloomMem) : Bloom := ⟨s.size, s.k, s.bits⟩

/-- `Export`: `bloomFilterType{size, numHashes, filter.marshal()}` -/
def exportDoc (s : BloomMem) : BloomDoc (List Bool) := ⟨s.size, s.k, s.bits⟩

/-- `Import`: `size = f.M; numHashes = f.K; filter.unmarshal(f.B)` where `BitSetMem.unmarshal`
    is `set.UnmarshalJSON(data); size = set.Len()`. -/
def importDoc (d : BloomDoc (List Bool)) (t : BloomMem) : BloomMem :=
  { t with size := d.m, k := d.k, bits := d.b, bsSize := d.b.length }
end BloomMem

/-- `util.ConvertByteToLittleEndianByte` on the byte's value:
    `for i := 0; i < 8; i++ { if b&(1<<i) != 0 { r |= 1 << (7-i) } }` -/
def revNat (n : Nat) : Nat :=
  (List.range 8).foldl (fun r i => if n &&& (1 <<< i) ≠ 0 then r ||| (1 <<< (7 - i)) else r) 0

def revByte (b : UInt8) : UInt8 := UInt8.ofNat (revNat b.toNat)

/-- `BitSetRedis.marshal`, bytes handed to base64: every byte bit-reversed, then
    `util.ReverseBytes`, then prefixed with `binary.BigEndian.PutUint64(size)`. -/
def marshalRedis (size : Nat) (v : Bytes) : Bytes := encU64 size ++ (v.map revByte).reverse

/-- `BitSetRedis.unmarshal` on the base64-decoded bytes: `bytes[:8]` is the size (slicing panics
    when there are fewer than 8 bytes), the rest is reversed, then every byte bit-reversed. -/
def unmarshalRedis (bs : Bytes) : Option (Nat × Bytes) :=
  if bs.length < 8 then none
  else some (beVal (bs.take 8), ((bs.drop 8).reverse).map revByte)

/-- Redis filter handle: `BloomFilter{size,numHashes,metadataKey}` + `BitSetRedis{size,key}` -/
structure BloomRedis where
  size : Nat
  k : Nat
  bsSize : Nat
  key : Nat
  metadataKey : Nat
  deriving Repr, DecidableEq

namespace BloomRedis
/-- what the handle's queries see: parameters and the bitmap string at its key -/
def bitmap (h : BloomRedis) (st : Store) : Bytes := st.getStr (.rand h.key)

def exportDoc (h : BloomRedis) (st : Store) : BloomDoc Bytes :=
  ⟨h.size, h.k, marshalRedis h.bsSize (h.bitmap st)⟩

/-- `Import`: `size = f.M; numHashes = f.K; unmarshal` = `bitSet.size = …; SET bitSet.key bytes`.
    The key is the importing instance's own key; the metadata hash is not touched. -/
def importDoc (d : BloomDoc Bytes) (t : BloomRedis) (st : Store) : IRes (BloomRedis × Store) :=
  match unmarshalRedis d.b with
  | none => .panic
  | some (sz, v) =>
    .ok ({ t with size := d.m, k := d.k, bsSize := sz }, st.set (.rand t.key) (.str v))
end BloomRedis

/-! ## Cuckoo filter, in memory (cuckoo_filter.go, bucket_mem.go) -/

structure BucketDoc where
  s : Nat
  l : Nat
  e : List String
  k : Option Key := none      -- `bucketRedisJSON.Key` (Redis only)
  deriving Repr, DecidableEq

structure CuckooDoc where
  s : Nat
  bs : Nat
  fpl : Nat
  l : Nat
  r : Nat
  b : List BucketDoc
  k : Option Nat := none      -- `cuckooFilterRedisJSON.Key` (Redis only)
  mkey : Option Nat := none   -- `…MetadataKey` (json "mk")
  deriving Repr, DecidableEq

abbrev CuckooMem := Cuckoo (BucketMem String)

/-- number of non-empty slots -/
def occupied (l : List String) : Nat := l.countP (fun e => e ≠ "")

namespace CuckooMem

def bucketDoc (b : BucketMem String) : BucketDoc := ⟨b.size, b.length, b.elements, none⟩

/-- `Export`: `bucketsJSON := make([]bucketMemJSON, size); for i := range buckets {…}` -/
def exportDoc (c : CuckooMem) : CuckooDoc :=
  { s := c.n, bs := c.bsize, fpl := c.fpl, l := c.length, r := c.retries,
    b := (List.range c.n).map (fun i => ((c.buckets[i]?).map bucketDoc).getD ⟨0, 0, [], none⟩) }

/-- inner loop of `Import`:
    `for j := range Elements { if j < BucketSize && Elements[j] != "" { bucket.set(j, e); bucket.length++ } }` -/
def restoreAux (bsize : Nat) : List String → Nat → List String × Nat → List String × Nat
  | [], _, acc => acc
  | e :: es, j, (els, len) =>
    restoreAux bsize es (j + 1) (if j < bsize ∧ e ≠ "" then (els.set j e, len + 1) else (els, len))

/-- `bucket := *newBucketMem(f.BucketSize)` then the loop above; the exported `s`/`l` are ignored -/
def restoreBucket (bsize : Nat) (d : BucketDoc) : BucketMem String :=
  let r := restoreAux bsize d.e 0 (List.replicate bsize "", 0)
  ⟨bsize, r.1, r.2⟩

/-- `Import`: the five scalar fields, then `filters := make([]BucketMem, f.Size)` filled from
    `f.Buckets` (index out of range when there are more buckets than `f.Size`; missing ones stay
    zero values). -/
def importDoc (d : CuckooDoc) (_t : CuckooMem) : IRes CuckooMem :=
  if d.b.length > d.s then .panic
  else .ok
    { n := d.s, bsize := d.bs, fpl := d.fpl, length := d.l, retries := d.r,
      buckets := (List.range d.s).map
        (fun i => ((d.b[i]?).map (restoreBucket d.bs)).getD ⟨0, [], 0⟩) }
end CuckooMem

/-! ## Cuckoo filter, Redis (cuckoo_filter_redis.go, bucket_redis.go) -/

/-- handle.  `nb` is `len(filter.buckets)` (the Go map holds one `BucketRedis{key,size}` per
    index, all created with `size = bucketSize`). -/
structure CuckooRedis where
  n : Nat
  bsize : Nat
  fpl : Nat
  retries : Nat
  key : Nat
  metadataKey : Nat
  nb : Nat
  deriving Repr, DecidableEq

namespace CuckooRedis

/-- the bucket at index `i` as the bucket operations see it: the list and the `_len` counter -/
def bucketView (h : CuckooRedis) (st : Store) (i : Nat) : BucketRedis String :=
  ⟨h.bsize, st.getStrs (.cuckooBucket h.key i), st.getInt (.cuckooBucketLen h.key i)⟩

/-- what the handle's operations see: the pure model of Model/Cuckoo.lean.
    `Length()` is `HGET metadataKey length`. -/
def view (h : CuckooRedis) (st : Store) : Cuckoo (BucketRedis String) :=
  { n := h.n, bsize := h.bsize, fpl := h.fpl, retries := h.retries,
    buckets := (List.range h.n).map (h.bucketView st),
    length := st.hget (.rand h.metadataKey) "length" }

/-- `Export`: per index `bucketRedisJSON{bucket.Size(), GET key_len, LRANGE key 0 -1, key}` -/
def exportDoc (h : CuckooRedis) (st : Store) : CuckooDoc :=
  { s := h.n, bs := h.bsize, fpl := h.fpl, l := st.hget (.rand h.metadataKey) "length", r := h.retries,
    b := (List.range h.n).map (fun i =>
      ⟨h.bsize, st.getInt (.cuckooBucketLen h.key i), st.getStrs (.cuckooBucket h.key i),
        some (.cuckooBucket h.key i)⟩),
    k := some h.key, mkey := some h.metadataKey }

/-- `setMetadata(length)`: HSET of six fields -/
def setMetadata (st : Store) (h : CuckooRedis) (length : Nat) : Store :=
  st.hset (.rand h.metadataKey)
    [("size", h.n), ("bucketSize", h.bsize), ("fingerPrintLength", h.fpl), ("retries", h.retries),
     ("key", h.key), ("length", length)]

/-- `initBuckets`: Lua `DEL key; for i=2,size+1 do LPUSH key KEYS[i]`, then one
    `newBucketRedis` (= `INCRBY key_len 0`) per index.  The bucket lists are NOT deleted. -/
def initBuckets (st : Store) (h : CuckooRedis) : Store :=
  let st := st.del (.rand h.key)
  let st := forN h.n (fun st i => st.lpushKeys (.rand h.key) [.cuckooBucket h.key i]) st
  forN h.n (fun st i => st.incrBy (.cuckooBucketLen h.key i) 0) st

/-- body of the `for i := range f.Buckets` loop of `Import`:
    `newBucketRedis`; `RPUSH bucketKey e` for every exported element (empty ones included);
    `INCRBY bucketKey_len <number of non-empty elements>`.  Exported `s`, `l`, `k` are ignored. -/
def importBucket (id : Nat) (st : Store) (i : Nat) (d : BucketDoc) : Store :=
  let st := st.incrBy (.cuckooBucketLen id i) 0
  let st := d.e.foldl (fun st e => st.rpushStrs (.cuckooBucket id i) [e]) st
  st.incrBy (.cuckooBucketLen id i) (occupied d.e)

/-- `Import(data, withNewRedisKey = true)`; `nk`, `nmk` are the two random names drawn. -/
def importDoc (d : CuckooDoc) (nk nmk : Nat) (t : CuckooRedis) (st : Store) : CuckooRedis × Store :=
  let h : CuckooRedis :=
    { t with n := d.s, bsize := d.bs, fpl := d.fpl, retries := d.r, key := nk, metadataKey := nmk }
  let st := setMetadata st h d.l
  let st := initBuckets st h
  let st := forN d.b.length (fun st i => importBucket nk st i (d.b.getD i ⟨0, 0, [], none⟩)) st
  ({ h with nb := d.b.length }, st)
end CuckooRedis

/-! ## Count-Min sketch (count_min_sketch.go, count_min_sketch_redis.go) -/

structure CMSDoc where
  r : Nat
  c : Nat
  s : Nat
  m : List (List Nat)
  k : Option Nat := none
  deriving Repr, DecidableEq

/-- in-memory sketch: the model of Model/CMS.lean plus `allSum` -/
structure CMSMem where
  core : CMS
  allSum : Nat
  deriving Repr, DecidableEq

namespace CMSMem
def exportDoc (s : CMSMem) : CMSDoc := ⟨s.core.rows, s.core.cols, s.allSum, s.core.m, none⟩
/-- `Import` assigns rows, columns, allSum, matrix -/
def importDoc (d : CMSDoc) (_t : CMSMem) : CMSMem := ⟨⟨d.r, d.c, d.m⟩, d.s⟩
end CMSMem

structure CMSRedis where
  rows : Nat
  cols : Nat
  allSum : Nat
  key : Nat
  metadataKey : Nat
  deriving Repr, DecidableEq

namespace CMSRedis

/-- Lua `getMatrix`: `LRANGE key..(i-1) 0 -1` for `i = 1..rows` -/
def matrix (h : CMSRedis) (st : Store) : List (List Nat) :=
  (List.range h.rows).map (fun r => st.getNums (.cmsRow h.key r))

/-- what the handle's operations see -/
def view (h : CMSRedis) (st : Store) : CMSMem := ⟨⟨h.rows, h.cols, h.matrix st⟩, h.allSum⟩

def exportDoc (h : CMSRedis) (st : Store) : CMSDoc := ⟨h.rows, h.cols, h.allSum, h.matrix st, some h.key⟩

/-- one iteration (0-based `i`) of the Lua loop of `setMatrix`:
    `row[j] = ARGV[index]; index = index + 1` for `j = 1..columns` — entries past the end of ARGV
    are nil, which ends the table; `DEL rowKey; RPUSH rowKey unpack(row)` — RPUSH without values
    is a Redis error, `redis.call` raises it and the script stops (writes so far are kept).
    `flat` is ARGV without its first entry. -/
def setMatrixStep (id cols : Nat) (flat : List Nat) (acc : Store × Bool) (i : Nat) : Store × Bool :=
  if acc.2 then
    let row := (flat.drop (i * cols)).take cols
    let st := acc.1.del (.cmsRow id i)
    if row = [] then (st, false) else (st.rpushNums (.cmsRow id i) row, true)
  else acc

/- Remark (`unpack` limit).  `unpack(row)` / `unpack(list)` in `setMatrix`, `initMatrix` and
   `mergeMatrix` raise for more than ~8000 columns.  This is not modelled for the Count-Min
   sketch because the constructor's `initMatrix` hits the same limit (its error is ignored by
   `NewCountMinSketchRedis`), so a sketch with that many columns never has its rows in Redis
   and is not a well-formed state in the sense of `CMSRedis.WF`.  It IS modelled for
   HyperLogLog (`HLLRedis.importRegisters`), where the constructor avoids the limit and Import
   does not. -/

/-- number of iterations of `for i=1, rows` with `rows = (#ARGV - 1) / columns` (a float; the
    columns argument ARGV[1] is not counted as a cell — fix 23ae505): `floor(cells / columns)`
    with `cells = #ARGV - 1 = len(flat)`.  (`columns = 0`: `0/0 = nan` runs no iteration,
    `cells/0 = inf` fails in its first iteration.) -/
def setMatrixIters (cols cells : Nat) : Nat :=
  if cols = 0 then (if cells = 0 then 0 else 1) else cells / cols

/-- `setMatrix(matrix)`: `args[0] = len(matrix[0])` (panics on an empty matrix), then the
    flattened cells.  Result: store and "script succeeded". -/
def setMatrix (st : Store) (id : Nat) (m : List (List Nat)) : Option (Store × Bool) :=
  match m with
  | [] => none
  | row0 :: _ =>
    let flat := m.flatten
    let cols := row0.length
    some (forN (setMatrixIters cols flat.length) (setMatrixStep id cols flat) (st, true))

/-- `Import(data, withNewKey = true)`: rows, columns, allSum, `key = GenerateRandomString`,
    `return setMatrix(Matrix)`.  The metadata hash is not touched. -/
def importDoc (d : CMSDoc) (nk : Nat) (t : CMSRedis) (st : Store) : IRes (CMSRedis × Store) :=
  let h : CMSRedis := { t with rows := d.r, cols := d.c, allSum := d.s, key := nk }
  match setMatrix st nk d.m with
  | none => .panic
  | some (st, true) => .ok (h, st)
  | some (st, false) => .err (h, st)

/-- Lua `initMatrix`: per row `DEL; LPUSH rowKey 0 … 0` (`columns` zeros) -/
def initMatrix (st : Store) (id rows cols : Nat) : Store :=
  forN rows (fun st i => (st.del (.cmsRow id i)).lpushNums (.cmsRow id i) (List.replicate cols 0)) st

end CMSRedis

/-! ## HyperLogLog (hyperloglog.go, hyperloglog_redis.go) -/

structure HLLDoc where
  nr : Nat
  nbp : Nat
  c : Nat            -- float64 bit pattern
  r : List Nat       -- `[]uint8`
  k : Option Nat := none
  deriving Repr, DecidableEq

structure HLLMem where
  core : HLL
  nbp : Nat
  bias : Nat
  deriving Repr, DecidableEq

namespace HLLMem
def exportDoc (s : HLLMem) : HLLDoc := ⟨s.core.m, s.nbp, s.bias, s.core.regs, none⟩
/-- `Import` assigns numRegisters, numBytesPerHash, correctionBias, registers -/
def importDoc (d : HLLDoc) (_t : HLLMem) : HLLMem := ⟨⟨d.nr, d.r⟩, d.nbp, d.c⟩
end HLLMem

structure HLLRedis where
  m : Nat
  nbp : Nat
  bias : Nat
  key : Nat
  metadataKey : Nat
  deriving Repr, DecidableEq

namespace HLLRedis
def view (h : HLLRedis) (st : Store) : HLLMem := ⟨⟨h.m, st.getNums (.rand h.key)⟩, h.nbp, h.bias⟩

/-- `Export`: `LRANGE key 0 -1`; `registers[i] = uint8(Atoi(result[i]))` for `i < numRegisters` -/
def exportDoc (h : HLLRedis) (st : Store) : HLLDoc :=
  ⟨h.m, h.nbp, h.bias, ((st.getNums (.rand h.key)).take h.m).map (· % 256), some h.key⟩

/-- Lua `importRegisters`: `RPUSH key unpack(registers)` — appended to whatever is at `key`;
    no values is a Redis error.  `unpack` itself raises ("too many results to unpack" /
    "registry overflow") when the table has more than `limit` entries: the C stack limit
    `LUAI_MAXCSTACK = 8000` of Redis' Lua 5.1, the registry size of gopher-lua under miniredis
    (`initRegisters` pushes the zeros in two halves, this script pushes all at once). -/
def importRegisters (limit : Nat) (st : Store) (id : Nat) (regs : List Nat) : Store × Bool :=
  if regs = [] ∨ limit < regs.length then (st, false) else (st.rpushNums (.rand id) regs, true)

/-- `Import(data, withNewKey = true)` -/
def importDoc (limit : Nat) (d : HLLDoc) (nk : Nat) (t : HLLRedis) (st : Store) :
    IRes (HLLRedis × Store) :=
  let h : HLLRedis := { t with m := d.nr, nbp := d.nbp, bias := d.c, key := nk }
  match importRegisters limit st nk d.r with
  | (st, true) => .ok (h, st)
  | (st, false) => .err (h, st)
end HLLRedis

/-! ## Top-K (top_k.go, top_k_redis.go)

  Element names are Go strings holding arbitrary bytes; the development is generic in the name
  type `N` (instantiate `N := Bytes`; `N := String` connects to Model/TopK.lean). -/

structure TopKDoc (N : Type) where
  k : Nat
  er : Nat
  a : Nat
  s : CMSDoc
  h : List (N × Nat)
  hk : Option Nat := none

/-- `json.Unmarshal (json.Marshal doc)`: the identity except that the element names (JSON
    strings) come back coerced to valid UTF-8. -/
def TopKDoc.jsonTrip {N : Type} (utf8fix : N → N) (d : TopKDoc N) : TopKDoc N :=
  { d with h := d.h.map (fun e => (utf8fix e.1, e.2)) }

structure TopKMem (N : Type) where
  k : Nat
  errorRate : Nat
  accuracy : Nat
  sketch : CMSMem
  heap : List (N × Nat)     -- the `minHeap` slice, in slice order

namespace TopKMem
variable {N : Type}

def exportDoc (t : TopKMem N) : TopKDoc N :=
  ⟨t.k, t.errorRate, t.accuracy, t.sketch.exportDoc, t.heap, none⟩

/-- `Import`: k, accuracy, errorRate; the heap slice rebuilt by `append` in exported order (no
    `heap.Init`); `NewCountMinSketch(rows, columns)` (error when either is 0 — k/heap already
    assigned), then `allSum` and `matrix` assigned. -/
def importDoc (d : TopKDoc N) (t : TopKMem N) : IRes (TopKMem N) :=
  let t1 : TopKMem N := { t with k := d.k, accuracy := d.a, errorRate := d.er, heap := d.h }
  if d.s.r = 0 ∨ d.s.c = 0 then .err t1
  else .ok { t1 with sketch := ⟨⟨d.s.r, d.s.c, d.s.m⟩, d.s.s⟩ }

/-- the model of Model/TopK.lean behind a state with `String` names -/
def toModel (t : TopKMem String) : TopK := ⟨t.k, t.sketch.core, t.heap.toArray⟩
end TopKMem

/-- sorted sets live in their own key space (`heapKey` names); a missing key is the empty set.
    The list is the set in `ZRANGE 0 -1` order: ascending by (score, member). -/
abbrev ZStore (N : Type) := Nat → List (N × Nat)

def ZStore.set {N : Type} (z : ZStore N) (k : Nat) (v : List (N × Nat)) : ZStore N :=
  fun k' => if k' = k then v else z k'

section zset
variable {N : Type} [DecidableEq N] (ltN : N → N → Bool)

/-- zset order: (score, member bytes) ascending -/
def zLt (a b : N × Nat) : Bool := a.2 < b.2 || (a.2 == b.2 && ltN a.1 b.1)

def insertSorted (lt : N × Nat → N × Nat → Bool) (x : N × Nat) : List (N × Nat) → List (N × Nat)
  | [] => [x]
  | y :: ys => if lt x y then x :: y :: ys else y :: insertSorted lt x ys

/-- `ZADD key score member` -/
def zadd (z : List (N × Nat)) (x : N) (f : Nat) : List (N × Nat) :=
  insertSorted (zLt ltN) (x, f) (z.filter (fun e => e.1 ≠ x))

/-- `frequencyMap[Value] = Frequency` over the exported heap: a later entry with the same name
    overwrites the earlier one.  (As an association list; Go's map has no order.) -/
def freqMap (h : List (N × Nat)) : List (N × Nat) :=
  h.foldl (fun m e => m.filter (fun p => p.1 ≠ e.1) ++ [e]) []

/-- Lua `importHeap`: `ZADD key score element` for the pairs in `args` order -/
def importHeap (z : List (N × Nat)) (args : List (N × Nat)) : List (N × Nat) :=
  args.foldl (fun z e => zadd ltN z e.1 e.2) z
end zset

structure TopKRedis where
  k : Nat
  errorRate : Nat
  accuracy : Nat
  sketch : CMSRedis
  heapKey : Nat
  metadataKey : Nat
  deriving Repr, DecidableEq

/-- Redis Top-K as its operations see it -/
structure TopKView (N : Type) where
  k : Nat
  errorRate : Nat
  accuracy : Nat
  sketch : CMSMem
  zset : List (N × Nat)

namespace TopKRedis
variable {N : Type} [DecidableEq N]

def view (h : TopKRedis) (st : Store) (z : ZStore N) : TopKView N :=
  ⟨h.k, h.errorRate, h.accuracy, h.sketch.view st, z h.heapKey⟩

/-- `Export`: `ZRANGE heapKey 0 -1 WITHSCORES`, the sketch through `getMatrix` -/
def exportDoc (h : TopKRedis) (st : Store) (z : ZStore N) : TopKDoc N :=
  ⟨h.k, h.errorRate, h.accuracy, h.sketch.exportDoc st, z h.heapKey, some h.heapKey⟩

/-- `NewCountMinSketchRedis(rows, columns)` with the two random names `nk`, `nmk`:
    HSET of the metadata, `initMatrix` (result ignored). -/
def newSketch (st : Store) (rows cols nk nmk : Nat) : CMSRedis × Store :=
  let st := st.hset (.rand nmk) [("rows", rows), ("columns", cols), ("key", nk)]
  (⟨rows, cols, 0, nk, nmk⟩, CMSRedis.initMatrix st nk rows cols)

/-- `Import(data, withNewKey = true)`.
    `iter` is the order in which the Go runtime ranges over `frequencyMap` (arbitrary);
    `nhk`, `nsk`, `nsmk` are the random names drawn (heap key; key and metadata key of the new
    sketch).  Order of effects as in the Go code: k/accuracy/errorRate, heap key, `importHeap`,
    `NewCountMinSketchRedis` (error when rows or columns is 0), `allSum`, `setMatrix` — whose
    error is DROPPED (`sketch.setMatrix(…)` is an expression statement). -/
def importDoc (ltN : N → N → Bool) (iter : List (N × Nat) → List (N × Nat))
    (d : TopKDoc N) (nhk nsk nsmk : Nat) (t : TopKRedis) (st : Store) (z : ZStore N) :
    IRes (TopKRedis × Store × ZStore N) :=
  let t1 : TopKRedis := { t with k := d.k, accuracy := d.a, errorRate := d.er, heapKey := nhk }
  let z := z.set nhk (importHeap ltN (z nhk) (iter (freqMap d.h)))
  if d.s.r = 0 ∨ d.s.c = 0 then .err (t1, st, z)
  else
    let (sk, st) := newSketch st d.s.r d.s.c nsk nsmk
    let sk := { sk with allSum := d.s.s }
    match CMSRedis.setMatrix st nsk d.s.m with
    | none => .panic
    | some (st, _) => .ok ({ t1 with sketch := sk }, st, z)
end TopKRedis

end Gostatix.Json
