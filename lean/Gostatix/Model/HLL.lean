/-
  Gostatix.Model.HLL — model of hyperloglog.go / hyperloglog_redis.go / base_hyperloglog.go,
  AS CODED: the register *index* is `1 + clz64(hash << p)` (the rank) and the stored *value* is
  `uint8(hash >> (32-p))`.

  Go:   registers[idx] = uint8(max(uint(registers[idx]), uint(uint8(count))))        (Update, after fix D5)
        for i := range g.registers { h.registers[i] = max(h.registers[i], g.registers[i]) }   (Merge)
  Lua:  count = LINDEX key idx; if val > tonumber(count) then count = val end; LSET key idx count
-/
import Gostatix.Model.Basic
namespace Gostatix

structure HLL where
  m : Nat
  regs : List Nat
  deriving Repr, DecidableEq

namespace HLL

inductive Res (α : Type) where
  | ok : α → Res α
  | err : Res α      -- returned error (Redis variant) / mismatch error
  | panic : Res α    -- index out of range (in-memory variant)
  deriving Repr, DecidableEq

def new (m : Nat) : HLL := { m := m, regs := List.replicate m 0 }

/-- register update: `regs[idx] := max regs[idx] val`; out-of-range index panics (in-memory) -/
def update (s : HLL) (idx val : Nat) : Res HLL :=
  if idx < s.regs.length then .ok { s with regs := modAt s.regs idx (fun o => max o val) }
  else .panic

/-- total version used by the algebraic theorems (out-of-range is a no-op). -/
def upd (regs : List Nat) (iv : Nat × Nat) : List Nat := modAt regs iv.1 (fun o => max o iv.2)

def mergeRegs : List Nat → List Nat → List Nat
  | a :: as, b :: bs => max a b :: mergeRegs as bs
  | as, _ => as

def merge (a b : HLL) : Res HLL :=
  if a.m ≠ b.m then .err else .ok { a with regs := mergeRegs a.regs b.regs }

def equals (a b : HLL) : Bool := if a.m ≠ b.m then false else a.regs == b.regs

/-- count leading zeros of a 64-bit value -/
def clz64 (x : Nat) : Nat := 64 - Nat.log2 x - (if x = 0 then 0 else 1)

/-- `getRegisterIndexAndCount`: p = log2 m. -/
def indexOf (hash p : Nat) : Nat := 1 + clz64 ((hash * 2 ^ p) % 2 ^ 64)
def valueOf (hash p : Nat) : Nat := (hash / 2 ^ (32 - p)) % 256

end HLL
end Gostatix
