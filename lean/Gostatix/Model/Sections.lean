/-
  Gostatix.Model.Sections — the record the extractor fills, per method of the five in-memory
  types, with the ORDERED list of the critical sections one call of the method consists of
  (C07, `Generated/LockTable.lean`, table `sectionTable`; obligations in `Props/C07Sections.lean`).

  The lock table (`MethodFact`, Model/Conc.lean) answers "is every access to mutable state inside
  a critical section of the right mutex".  It does not say how many critical sections a call is
  made of: a method that checks under `RLock`, releases, and writes under `Lock` has every access
  guarded, yet is not of the form `acquire ; body ; release` that `Props/C07.lean` models.  This
  record says it.  Core Lean only.
-/
namespace Gostatix.Conc

/-- the instance a critical section is on, relative to the method -/
inductive Inst where
  | none                     -- (only as `outer`: not nested in anything)
  | recv                     -- the receiver's mutex
  | arg (name : String)      -- the mutex of the parameter `name`
  | field (name : String)    -- the mutex of `recv.name`, a structure of the five types the receiver owns
  | other (expr : String)    -- anything else
  deriving Repr, DecidableEq

def Inst.isArg : Inst → Bool
  | .arg _ => true
  | _ => false

def Inst.isField : Inst → Bool
  | .field _ => true
  | _ => false

/-- `W` = `Lock()`, `R` = `RLock()`, `call` = a call of a method of the five types that takes locks
    itself: a critical section of the CALLEE's instance, recorded by name and not expanded -/
inductive SecMode where
  | R | W | call
  deriving Repr, DecidableEq

structure SectionFact where
  inst : Inst
  instTyp : String            -- type of the locked instance ("" when it is none of the five)
  mode : SecMode
  callee : String := ""       -- method name when `mode = call` (its receiver type is `instTyp`)
  nested : Bool := false      -- starts while an earlier section of this method is still held
  outer : Inst := .none       -- the innermost section held when it starts
  outerTyp : String := ""
  seq : Bool                  -- released before the next section of the list starts (true for the last)
  reads : Bool                -- mutable state of `inst` is read inside (direct sections; helper calls included)
  writes : Bool
  conditional : Bool := false -- `if c { X.lock.Lock(); defer X.lock.Unlock() }`
  deriving Repr, DecidableEq

structure MethodSections where
  typ : String
  method : String
  sectionsUnknown : Bool      -- the extractor does not understand the shape (see extract/gen.go)
  bareReads : Bool            -- mutable state of a tracked instance read outside every section on that instance
  bareWrites : Bool
  sections : List SectionFact -- in source order
  deriving Repr, DecidableEq

/-- the sections a call starts while holding nothing -/
def MethodSections.topLevel (s : MethodSections) : List SectionFact := s.sections.filter (fun c => !c.nested)

def MethodSections.bare (s : MethodSections) : Bool := s.bareReads || s.bareWrites

end Gostatix.Conc
