/-
  Gostatix.Model.Lua — an interpreter for the subset of Lua 5.1 used by the Redis scripts of the
  library (bucket_redis.go, count_min_sketch_redis.go, cuckoo_filter_redis.go, hyperloglog_redis.go,
  top_k_redis.go), on the store model of Model/Redis.lean.

  The scripts themselves are NOT written here: `Gostatix/Generated/LuaScripts.lean` is regenerated
  from the Go sources on every run (extract/lua.go: go/ast finds `redis.NewScript(<literal>)`, the
  gopher-lua parser parses the text, the AST is printed as a term of `Lua.Stmt`).  `Lua.run`
  gives those terms their meaning.  The reference semantics is the stand-in the recorded traces
  come from: miniredis v2.30.4 (lua.go, cmd_scripting.go, cmd_list.go, cmd_string.go,
  cmd_sorted_set.go) running gopher-lua v1.1.0.  Where these differ from a real Redis server the
  interpreter follows miniredis (see the notes marked MINIREDIS).

  Subset.  Statements: `local n1, n2 = e1, e2`; `x = e`, `t[k] = e` (one target); numeric `for`;
  `for i, v in ipairs(t)`; `if/elseif/else`; `return`; a function call.  Expressions: literals,
  variables, `t[k]`, the binary operators `+ - * / % ^ .. == ~= < <= > >= and or`, the unary
  `- not #`, `{e1, .., en}` (positional), parentheses around a call (truncation to one value),
  calls of `tonumber tostring unpack string.format redis.call redis.pcall`.  Everything else is an
  `unsupported` node produced by the extractor; evaluating one gives `Outcome.unsupported`.

  Values: nil, booleans, numbers, strings, tables.  Tables live in a heap and are referred to by
  an index (Lua tables are references: `local u = t; u[1] = 5` changes `t`).  A table has an array
  part (a list, holes are `nil`) and a hash part, with gopher-lua's rules (table.go): an integral
  key `1 ≤ k < 67108864` always lives in the array part, which is padded with `nil` when a key
  beyond its end is set; `#t` is the position of the last non-nil entry of the array part.

  ASSUMPTIONS
    * Numbers.  A Lua number is a float64.  The interpreter computes with `Int` and is exact as
      long as every number stays integral with |n| ≤ 2^53: whenever an operation would leave that
      range of exactly representable integers (result beyond 2^53; `/` with a remainder or a zero
      divisor; `%` by zero; `^` with a negative exponent; `tonumber` of a string with a `.` or of
      a numeral beyond 2^53; arithmetic on a string operand, which Lua would coerce with its float
      parser; `string.format`), the result is `unsupported` — never a guess.  Float literals
      (`0.0`) are `unsupported` nodes already in the generated AST.
    * Strings are byte strings.  A byte string is represented by the Lean `String` whose
      characters are the bytes (code points 0–255, "latin1"), as in Model/RedisCuckoo.lean; on
      such strings `String.length`, `++` and `<` are byte length, concatenation and the bytewise
      order of Lua/Redis.
    * Sorted-set scores are naturals (Model/RedisTopK.lean); `ZADD` with any other score that Go's
      `strconv.ParseFloat` might accept is `unsupported`.
    * `unpack(t)` pushes `#t` values on gopher-lua's fixed data stack of 5120 slots (registry
      growth is off in miniredis): it raises "registry overflow" when the slots in use plus `#t`
      exceed 5120.  The slots in use depend on the compiler's register allocation at the call
      site (measured: the largest working `#t` is 5105–5115 for the library's call sites), which
      is not modelled: `#t ≤ 4800` works, `#t ≥ 5120` raises, in between is `unsupported`.
    * Tables hold fewer than 67108864 array entries; table-valued replies nest less than 64 deep.
    * A global name other than `KEYS`/`ARGV` used as a value, an assignment to a global, a local
      that shadows a builtin that is then called: `unsupported`.

  MINIREDIS (differences from a real Redis server that the recorded traces show)
    * `redis.pcall` returns `nil` when the command fails — not the `{err=…}` table of Redis.
    * a non-string/number argument of `redis.call`/`redis.pcall` raises a Lua error in both.
    * integers are parsed with Go's `strconv.Atoi` (`+5`, `007` are accepted; `LINDEX k -0` is
      rejected); `INCRBY` re-parses the stored value the same way.
    * `tonumber` is gopher-lua's: blanks/tabs/newlines are trimmed, `0x` hexadecimal is accepted,
      exponents (`1e3`) are not.

  A Lua runtime error aborts the script; the writes made so far stay (Redis does not roll back).
  All functions are total (one fuel argument bounds the recursion depth, including the number of
  loop iterations).  Core Lean only.
-/
import Gostatix.Model.Redis
import Gostatix.Model.RedisCuckoo
import Gostatix.Model.RedisTopK
namespace Gostatix.Lua
open Gostatix.Redis

/-! ## syntax -/

inductive BinOp where
  | add | sub | mul | div | mod | pow | concat | eq | ne | lt | le | gt | ge | and | or
  deriving Repr, DecidableEq

inductive UnOp where
  | neg | not | len
  deriving Repr, DecidableEq

/-- what a call expression calls: a global name (`tonumber`) or a field of a global (`redis.call`). -/
inductive FnRef where
  | global (name : String)
  | field (obj : String) (name : String)
  deriving Repr, DecidableEq

inductive Expr where
  | litNil
  | litTrue
  | litFalse
  | num (n : Int)
  | str (s : String)
  | var (name : String)
  | index (t : Expr) (k : Expr)
  | binop (op : BinOp) (a : Expr) (b : Expr)
  | unop (op : UnOp) (a : Expr)
  /-- `{e1, …, en}` (positional fields only; the last one is expanded if it is a call) -/
  | table (fields : List Expr)
  | call (f : FnRef) (args : List Expr)
  /-- `( f(…) )`: the call's results truncated to one value -/
  | paren (e : Expr)
  | unsupported (why : String)

inductive Stmt where
  | localDecl (names : List String) (exprs : List Expr)
  /-- `x = e` (`target = .var x`) or `t[k] = e` (`target = .index t k`) -/
  | assign (target : Expr) (value : Expr)
  | numFor (var : String) (init : Expr) (limit : Expr) (step : Option Expr) (body : List Stmt)
  /-- `for n1, n2 in ipairs(t) do body end` -/
  | ipairsFor (names : List String) (t : Expr) (body : List Stmt)
  | ifThen (cond : Expr) (thn : List Stmt) (els : List Stmt)
  | ret (exprs : List Expr)
  | callStmt (f : FnRef) (args : List Expr)
  | unsupported (why : String)

abbrev Block := List Stmt

/-- one `redis.NewScript(...)` of the Go sources. -/
structure ScriptInfo where
  name : String
  file : String
  func : String
  sha1 : String
  ast : Block

/-! ## values -/

inductive Value where
  | nil
  | bool (b : Bool)
  | num (n : Int)
  | str (s : String)
  | table (id : Nat)
  deriving Repr, DecidableEq, Inhabited

namespace Value
def truthy : Value → Bool
  | .nil => false
  | .bool b => b
  | _ => true

def typeName : Value → String
  | .nil => "nil" | .bool _ => "boolean" | .num _ => "number" | .str _ => "string" | .table _ => "table"
end Value

/-- gopher-lua `MaxArrayIndex`. -/
def maxArrayIndex : Nat := 67108864

structure Table where
  arr : List Value := []
  hash : List (Value × Value) := []
  deriving Repr, DecidableEq, Inhabited

/-- the key is an array key (`isArrayKey`): position in the array part. -/
def arrayPos : Value → Option Nat
  | .num n => if 1 ≤ n ∧ n < (maxArrayIndex : Int) then some (n.toNat - 1) else none
  | _ => none

def hashGet : List (Value × Value) → Value → Value
  | [], _ => .nil
  | (k', v) :: h, k => if k' = k then v else hashGet h k

def hashDel : List (Value × Value) → Value → List (Value × Value)
  | [], _ => []
  | (k', v) :: h, k => if k' = k then h else (k', v) :: hashDel h k

def hashPut : List (Value × Value) → Value → Value → List (Value × Value)
  | [], k, v => [(k, v)]
  | (k', v') :: h, k, v => if k' = k then (k, v) :: h else (k', v') :: hashPut h k v

namespace Table
/-- `RawGet` -/
def get (t : Table) (k : Value) : Value :=
  match arrayPos k with
  | some i => t.arr.getD i .nil
  | none => hashGet t.hash k

/-- `RawSet` (the key is not nil) -/
def set (t : Table) (k : Value) (v : Value) : Table :=
  match arrayPos k with
  | some i =>
    if i < t.arr.length then { t with arr := t.arr.set i v }
    else { t with arr := t.arr ++ List.replicate (i - t.arr.length) .nil ++ [v] }
  | none => if v = .nil then { t with hash := hashDel t.hash k } else { t with hash := hashPut t.hash k v }

/-- `Len`: position of the last non-nil entry of the array part. -/
def len (t : Table) : Nat := (t.arr.reverse.dropWhile (· = .nil)).length
end Table

/-! ## replies and outcomes -/

/-- the reply a script gives to the client. -/
inductive Reply where
  | int (n : Int)
  | bulk (s : String)
  | nil
  | status (s : String)
  | error (msg : String)
  | array (l : List Reply)

inductive Outcome where
  | reply (r : Reply)
  | error (msg : String)
  | unsupported (why : String)
  | outOfFuel

/-! ## numerals -/

/-- the integers a float64 represents exactly, as far as the interpreter goes. -/
def numLimit : Nat := 2 ^ 53

inductive NumParse where
  | num (n : Int)
  | nan                 -- not a numeral, or outside int64: Go reports an error
  | big                 -- a numeral beyond 2^53 (inside int64)
  deriving Repr, DecidableEq

def digitVal (c : Char) : Option Nat :=
  if '0' ≤ c ∧ c ≤ '9' then some (c.toNat - 48)
  else if 'a' ≤ c ∧ c ≤ 'z' then some (c.toNat - 97 + 10)
  else if 'A' ≤ c ∧ c ≤ 'Z' then some (c.toNat - 65 + 10)
  else none

def parseDigits (base : Nat) : List Char → Nat → Option Nat
  | [], acc => some acc
  | c :: cs, acc =>
    match digitVal c with
    | some d => if d < base then parseDigits base cs (acc * base + d) else none
    | none => none

/-- Go `strconv.ParseInt(s, base, 64)` for an explicit base (no underscores, no prefix): an
    optional sign and a non-empty digit string. -/
def goParseInt (base : Nat) (cs : List Char) : NumParse :=
  let (neg, ds) : Bool × List Char :=
    match cs with
    | '-' :: r => (true, r)
    | '+' :: r => (false, r)
    | r => (false, r)
  if ds.isEmpty then .nan else
  match parseDigits base ds 0 with
  | none => .nan
  | some n =>
    -- outside int64: Go reports a range error, which the callers treat like a syntax error
    if (neg && n > 2 ^ 63) || (!neg && n ≥ 2 ^ 63) then .nan
    else if n > numLimit then .big else .num (if neg then -(n : Int) else (n : Int))

/-- Go `strconv.Atoi`. -/
def goAtoi (s : String) : NumParse := goParseInt 10 s.toList

def isTrimChar (c : Char) : Bool := c = ' ' || c = '\n' || c = '\t'

def trimChars (cs : List Char) : List Char :=
  ((cs.dropWhile isTrimChar).reverse.dropWhile isTrimChar).reverse

inductive ToNumber where
  | num (n : Int)
  | nil
  | unsupported (why : String)

/-- gopher-lua `tonumber` of a string (baselib.go `baseToNumber`, no base argument). -/
def luaToNumber (s : String) : ToNumber :=
  let cs := trimChars s.toList
  if cs.contains '.' then .unsupported "tonumber of a string containing '.'" else
  let r := match cs with
    | '0' :: x :: rest => if x = 'x' ∨ x = 'X' then goParseInt 16 rest else goParseInt 10 cs
    | _ => goParseInt 10 cs
  match r with
  | .num n => .num n
  | .nan => .nil
  | .big => .unsupported "tonumber of a numeral beyond 2^53"

/-- characters that can occur in a string accepted by Go `strconv.ParseFloat`. -/
def floatAlphabet : List Char := "0123456789abcdefABCDEFxXpP+-._iInNtTyY".toList

inductive ScoreParse where
  | nat (n : Nat)
  | invalid
  | unsupported

/-- the score argument of `ZADD`: Go `strconv.ParseFloat(s, 64)`, as far as naturals go. -/
def parseScore (s : String) : ScoreParse :=
  let cs := s.toList
  let ds := match cs with | '+' :: r => r | r => r
  if !ds.isEmpty && ds.all Char.isDigit then
    match parseDigits 10 ds 0 with
    | some n => if n > numLimit then .unsupported else .nat n
    | none => .invalid
  else if cs.isEmpty || cs.any (fun c => !floatAlphabet.contains c) then .invalid
  else .unsupported

/-! ## Redis commands (miniredis semantics), on the store of Model/Redis.lean -/

inductive CmdReply where
  | int (n : Int)
  | bulk (s : String)
  | nil
  | status (s : String)
  | list (l : List String)

inductive CmdRes where
  | ok (st : Store) (r : CmdReply)
  | error (msg : String)
  | unsupported (why : String)

def msgWrongType : String := "WRONGTYPE Operation against a key holding the wrong kind of value"
def msgInvalidInt : String := "ERR value is not an integer or out of range"
def msgSyntax : String := "ERR syntax error"
def msgWrongNumber (cmd : String) : String := s!"ERR wrong number of arguments for '{cmd}' command"

/-- run a command of the store model; its failure (`none`, store untouched) is the Redis error. -/
def liftCmd {α} (m : Script α) (f : α → CmdReply) (msg : String) (st : Store) : CmdRes :=
  match m st with
  | (st', some a) => .ok st' (f a)
  | (_, none) => .error msg

/-- position `i` (negative: from the end) of a list of length `len`, if inside. -/
def resolveIndex (len : Nat) (i : Int) : Option Nat :=
  if 0 ≤ i then (if i.toNat < len then some i.toNat else none)
  else if (-i).toNat ≤ len then some (len - (-i).toNat) else none

/-- `INCRBY` as miniredis does it (`db.stringIncr`): the stored value is read with `Atoi`. -/
def cmdINCRBYmr (k : String) (d : Int) (st : Store) : CmdRes :=
  match st k with
  | none => .ok (st.set k (.str (asciiBytes (renderInt d)))) (.int d)
  | some (.str b) =>
    (match goAtoi (latin1 b) with
     | .num n =>
       if (n + d).natAbs > numLimit then .unsupported "INCRBY beyond 2^53"
       else .ok (st.set k (.str (asciiBytes (renderInt (n + d))))) (.int (n + d))
     | .nan => .error msgInvalidInt
     | .big => .unsupported "INCRBY of a value beyond 2^53")
  | some _ => .error msgWrongType

def delAll (st : Store) : List String → Store × Nat
  | [] => (st, 0)
  | k :: ks =>
    let n := if (st k).isSome then 1 else 0
    let (st', m) := delAll ((cmdDEL k st).1) ks
    (st', n + m)

def listLength (st : Store) (k : String) : Nat :=
  match st k with
  | some (.list l) => l.length
  | _ => 0

def withScores (z : List HElem) : List String :=
  z.foldr (fun e acc => e.1 :: decimal e.2 :: acc) []

def upperAscii (s : String) : String := String.ofList (s.toList.map Char.toUpper)
def lowerAscii (s : String) : String := String.ofList (s.toList.map Char.toLower)

/-- an integer argument: `Atoi`. -/
def intArg (s : String) (k : Int → CmdRes) : CmdRes :=
  match goAtoi s with
  | .num n => k n
  | .nan => .error msgInvalidInt
  | .big => .unsupported "integer argument beyond 2^53"

/-- one command with its arguments (already converted to strings). -/
def redisCommand (name : String) (args : List String) (st : Store) : CmdRes :=
  match upperAscii name, args with
  | "GET", [k] => liftCmd (cmdGET k) (fun r => match r with | some v => .bulk v | none => .nil) msgWrongType st
  | "GET", _ => .error (msgWrongNumber "get")
  | "INCRBY", [k, d] => intArg d fun d => cmdINCRBYmr k d st
  | "INCRBY", _ => .error (msgWrongNumber "incrby")
  | "DEL", [] => .error (msgWrongNumber "del")
  | "DEL", ks => let (st', n) := delAll st ks; .ok st' (.int n)
  | "LINDEX", [k, i] =>
    intArg i fun n =>
      if i = "-0" then .error msgInvalidInt else
      if 0 ≤ n then
        liftCmd (cmdLINDEX k n.toNat) (fun r => match r with | some v => .bulk v | none => .nil) msgWrongType st
      else
        match st k with
        | none => .ok st .nil
        | some (.list l) =>
          (match resolveIndex l.length n with
           | some j => liftCmd (cmdLINDEX k j) (fun r => match r with | some v => .bulk v | none => .nil) msgWrongType st
           | none => .ok st .nil)
        | some _ => .error msgWrongType
  | "LINDEX", _ => .error (msgWrongNumber "lindex")
  | "LPOS", [k, e] =>
    liftCmd (cmdLPOS k e) (fun r => match r with | some i => .int i | none => .nil) msgWrongType st
  | "LPOS", [_] => .error (msgWrongNumber "lpos")
  | "LPOS", _ => .unsupported "LPOS with options"
  | "LPUSH", k :: v :: vs =>
    (match cmdLPUSH k (v :: vs) st with
     | (st', some _) => .ok st' (.int (listLength st' k))
     | (_, none) => .error msgWrongType)
  | "LPUSH", _ => .error (msgWrongNumber "lpush")
  | "RPUSH", k :: v :: vs =>
    (match cmdRPUSH k (v :: vs) st with
     | (st', some _) => .ok st' (.int (listLength st' k))
     | (_, none) => .error msgWrongType)
  | "RPUSH", _ => .error (msgWrongNumber "rpush")
  | "LSET", [k, i, v] =>
    intArg i fun n =>
      match st k with
      | none => .error "ERR no such key"
      | some (.list l) =>
        (match resolveIndex l.length n with
         | some j => liftCmd (cmdLSET k j v) (fun _ => .status "OK") "ERR index out of range" st
         | none => .error "ERR index out of range")
      | some _ => .error msgWrongType
  | "LSET", _ => .error (msgWrongNumber "lset")
  | "LRANGE", [k, s, e] =>
    intArg s fun s => intArg e fun e =>
      match st k with
      | some (.list _) | none =>
        if s = 0 ∧ e = -1 then liftCmd (cmdLRANGE k) (fun l => .list l) msgWrongType st
        else .unsupported "LRANGE other than 0 -1"
      | some _ => .error msgWrongType
  | "LRANGE", _ => .error (msgWrongNumber "lrange")
  | "ZADD", [k, score, member] =>
    if ["NX", "XX", "GT", "LT", "CH", "INCR"].contains (upperAscii score) then .error msgSyntax else
    (match parseScore score with
     | .nat f => liftCmd (cmdZADD k member f) (fun n => .int n) msgWrongType st
     | .invalid => .error "ERR value is not a valid float"
     | .unsupported => .unsupported "ZADD with a score that is not a natural number")
  | "ZADD", _ :: _ :: _ :: _ :: _ => .unsupported "ZADD with options or several members"
  | "ZADD", _ => .error (msgWrongNumber "zadd")
  | "ZRANGE", k :: mn :: mx :: opts =>
    let opts := opts.map lowerAscii
    if opts.any (fun o => ["byscore", "bylex", "rev", "limit"].contains o) then .unsupported "ZRANGE with options"
    else if opts.any (fun o => o ≠ "withscores") then .error msgSyntax
    else
      intArg mn fun mn => intArg mx fun mx =>
        match zsetAt st k with
        | none => .error msgWrongType
        | some _ =>
          if mn = 0 ∧ mx = -1 then
            liftCmd (cmdZRANGEALL k)
              (fun z => .list (if opts.isEmpty then z.map (·.1) else withScores z)) msgWrongType st
          else .unsupported "ZRANGE other than 0 -1"
  | "ZRANGE", _ => .error (msgWrongNumber "zrange")
  | c, _ => .unsupported s!"command {c}"

/-! ## interpreter state and monad -/

structure State where
  store : Store
  heap : List Table
  env : List (String × Value)
  /-- the key (first argument) of every command issued, newest first -/
  log : List String

inductive Res (α : Type) where
  | ok (a : α) (s : State)
  | error (msg : String) (s : State)
  | unsupported (why : String) (s : State)
  | outOfFuel (s : State)

/-- computations of the interpreter: state passing, three ways to stop. -/
def M (α : Type) : Type := State → Res α

namespace M
@[inline] def pure {α} (a : α) : M α := fun s => .ok a s
@[inline] def bind {α β} (m : M α) (f : α → M β) : M β := fun s =>
  match m s with
  | .ok a s' => f a s'
  | .error e s' => .error e s'
  | .unsupported w s' => .unsupported w s'
  | .outOfFuel s' => .outOfFuel s'
@[inline] def error {α} (msg : String) : M α := fun s => .error msg s
@[inline] def unsupported {α} (why : String) : M α := fun s => .unsupported why s
@[inline] def outOfFuel {α} : M α := fun s => .outOfFuel s
@[inline] def get : M State := fun s => .ok s s
@[inline] def modify (f : State → State) : M Unit := fun s => .ok () (f s)
end M

instance : Monad M where
  pure := M.pure
  bind := M.bind

/-! ### variables -/

def envGet : List (String × Value) → String → Option Value
  | [], _ => none
  | (n, v) :: e, x => if n = x then some v else envGet e x

def envSet : List (String × Value) → String → Value → Option (List (String × Value))
  | [], _, _ => none
  | (n, v) :: e, x, w =>
    if n = x then some ((n, w) :: e) else (envSet e x w).map fun e' => (n, v) :: e'

def isLocal (x : String) : M Bool := fun s => .ok (envGet s.env x).isSome s

/-- the heap positions of the two global tables. -/
def keysId : Nat := 0
def argvId : Nat := 1

def readVar (x : String) : M Value := fun s =>
  match envGet s.env x with
  | some v => .ok v s
  | none =>
    if x = "KEYS" then .ok (.table keysId) s
    else if x = "ARGV" then .ok (.table argvId) s
    else .unsupported s!"global variable {x}" s

def assignVar (x : String) (v : Value) : M Unit := fun s =>
  match envSet s.env x v with
  | some e => .ok () { s with env := e }
  | none => .unsupported s!"assignment to global variable {x}" s

def declare (x : String) (v : Value) : M Unit := M.modify fun s => { s with env := (x, v) :: s.env }

/-- `local n1, …, nk = v1, …, vm`: missing values are nil, extra values are dropped. -/
def declareAll : List String → List Value → M Unit
  | [], _ => pure ()
  | n :: ns, [] => do declare n .nil; declareAll ns []
  | n :: ns, v :: vs => do declare n v; declareAll ns vs

/-- run `m` in a new block scope: the locals it declares disappear afterwards. -/
@[inline] def inScope {α} (m : M α) : M α := fun s =>
  let depth := s.env.length
  match m s with
  | .ok a s' => .ok a { s' with env := s'.env.drop (s'.env.length - depth) }
  | r => r

/-! ### tables -/

def allocTable (t : Table) : M Value := fun s =>
  .ok (.table s.heap.length) { s with heap := s.heap ++ [t] }

def getTable (id : Nat) : M Table := fun s => .ok (s.heap.getD id {}) s

def putTable (id : Nat) (t : Table) : M Unit := M.modify fun s => { s with heap := s.heap.set id t }

def indexValue (t k : Value) : M Value :=
  match t with
  | .table id => do let tb ← getTable id; pure (tb.get k)
  | .str _ => M.unsupported "indexing a string value"
  | v => M.error s!"attempt to index a non-table object({v.typeName})"

def setIndex (t k v : Value) : M Unit :=
  match t with
  | .table id =>
    if k = .nil then M.error "table index is nil"
    else do let tb ← getTable id; putTable id (tb.set k v)
  | w => M.error s!"attempt to index a non-table object({w.typeName})"

/-! ### operators -/

def checkNum (n : Int) : M Value :=
  if n.natAbs > numLimit then M.unsupported "number beyond 2^53" else pure (.num n)

def arith (op : BinOp) (x y : Int) : M Value :=
  match op with
  | .add => checkNum (x + y)
  | .sub => checkNum (x - y)
  | .mul => checkNum (x * y)
  | .div =>
    if y = 0 then M.unsupported "division by zero (inf/nan)"
    else if x % y = 0 then checkNum (x / y)
    else M.unsupported "division with a remainder (float result)"
  | .mod => if y = 0 then M.unsupported "modulo by zero (nan)" else checkNum (Int.fmod x y)
  | .pow =>
    if y < 0 then M.unsupported "power with a negative exponent (float result)"
    else if y.toNat > 64 ∧ x.natAbs > 1 then M.unsupported "number beyond 2^53"
    else checkNum (x ^ y.toNat)
  | _ => M.unsupported "not an arithmetic operator"

/-- the spelling of a value that `..` and command arguments accept. -/
def strOrNum : Value → Option String
  | .str s => some s
  | .num n => some (renderInt n)
  | _ => none

def compare (op : BinOp) (a b : Value) : M Value :=
  match a, b with
  | .num x, .num y =>
    pure (.bool (match op with
      | .lt => decide (x < y) | .le => decide (x ≤ y) | .gt => decide (y < x) | _ => decide (y ≤ x)))
  | .str x, .str y =>
    pure (.bool (match op with
      | .lt => decide (x < y) | .le => decide (x ≤ y) | .gt => decide (y < x) | _ => decide (y ≤ x)))
  | _, _ => M.error s!"attempt to compare {a.typeName} with {b.typeName}"

def binop (op : BinOp) (a b : Value) : M Value :=
  match op with
  | .add | .sub | .mul | .div | .mod | .pow =>
    (match a, b with
     | .num x, .num y => arith op x y
     | .str _, _ => M.unsupported "arithmetic on a string operand (float coercion)"
     | _, .str _ => M.unsupported "arithmetic on a string operand (float coercion)"
     | _, _ => M.error s!"cannot perform arithmetic between {a.typeName} and {b.typeName}")
  | .concat =>
    (match strOrNum a, strOrNum b with
     | some x, some y => pure (.str (x ++ y))
     | _, _ => M.error s!"cannot perform concat operation between {a.typeName} and {b.typeName}")
  | .eq => pure (.bool (decide (a = b)))
  | .ne => pure (.bool (!decide (a = b)))
  | .lt | .le | .gt | .ge => compare op a b
  -- `and`/`or` short-circuit: handled by the evaluator
  | .and => pure (if a.truthy then b else a)
  | .or => pure (if a.truthy then a else b)

def unop (op : UnOp) (a : Value) : M Value :=
  match op, a with
  | .neg, .num n => pure (.num (-n))
  | .neg, .str _ => M.unsupported "arithmetic on a string operand (float coercion)"
  | .neg, v => M.error s!"cannot perform unary minus on {v.typeName}"
  | .not, v => pure (.bool (!v.truthy))
  | .len, .str s => pure (.num s.length)
  | .len, .table id => do let tb ← getTable id; pure (.num tb.len)
  | .len, v => M.error s!"attempt to get length of a {v.typeName} value"

/-! ### builtins -/

/-- the sizes of `unpack` that certainly work / certainly overflow the data stack (file header). -/
def unpackSafe : Nat := 4800
def unpackOverflow : Nat := 5120

def cmdArgs : List Value → Option (List String)
  | [] => some []
  | v :: vs => match strOrNum v, cmdArgs vs with
    | some s, some ss => some (s :: ss)
    | _, _ => none

/-- a command reply as the Lua value `redis.call` returns. -/
def replyToLua : CmdReply → M Value
  | .int n => pure (.num n)
  | .bulk s => pure (.str s)
  | .nil => pure (.bool false)
  | .status s => allocTable { hash := [(.str "ok", .str s)] }
  | .list l => allocTable { arr := l.map .str }

/-- `redis.call` (`failFast`) / `redis.pcall`. -/
def redisCall (failFast : Bool) (args : List Value) : M (List Value) :=
  match args with
  | [] => M.error "Please specify at least one argument for this redis lib call"
  | _ =>
    match cmdArgs args with
    | none => M.error "Lua redis lib command arguments must be strings or integers"
    | some [] => M.error "Please specify at least one argument for this redis lib call"
    | some (name :: cargs) => fun s =>
      let s := match cargs with | k :: _ => { s with log := k :: s.log } | [] => s
      match redisCommand name cargs s.store with
      | .ok st r => (do let v ← replyToLua r; pure [v]) { s with store := st }
      | .error msg => if failFast then .error msg s else .ok [.nil] s
      | .unsupported why => .unsupported why s

def callFn (f : FnRef) (args : List Value) : M (List Value) := do
  let shadowed ← match f with
    | .global n => isLocal n
    | .field o _ => isLocal o
  if shadowed then M.unsupported "call of a local variable" else
  match f with
  | .global "tonumber" =>
    (match args with
     | [] => M.error "bad argument #1 to tonumber (value expected)"
     | v :: rest =>
       if rest.headD .nil ≠ .nil then M.unsupported "tonumber with a base" else
       match v with
       | .num n => pure [.num n]
       | .str s =>
         (match luaToNumber s with
          | .num n => pure [.num n]
          | .nil => pure [.nil]
          | .unsupported why => M.unsupported why)
       | _ => pure [.nil])
  | .global "tostring" =>
    (match args with
     | [] => M.error "bad argument #1 to tostring (value expected)"
     | .nil :: _ => pure [.str "nil"]
     | .bool b :: _ => pure [.str (if b then "true" else "false")]
     | .num n :: _ => pure [.str (renderInt n)]
     | .str s :: _ => pure [.str s]
     | .table _ :: _ => M.unsupported "tostring of a table")
  | .global "unpack" =>
    (match args with
     | .table id :: rest =>
       if rest.any (· ≠ .nil) then M.unsupported "unpack with a range" else do
       let tb ← getTable id
       let n := tb.len
       if n ≤ unpackSafe then pure ((List.range n).map fun i => tb.arr.getD i .nil)
       else if n ≥ unpackOverflow then M.error "registry overflow"
       else M.unsupported "unpack near the data stack limit"
     | _ => M.error "bad argument #1 to unpack (table expected)")
  | .field "redis" "call" => redisCall true args
  | .field "redis" "pcall" => redisCall false args
  | .field "string" "format" => M.unsupported "string.format"
  | .global n => M.unsupported s!"function {n}"
  | .field o n => M.unsupported s!"function {o}.{n}"

/-! ## evaluation -/

mutual

/-- an expression in a one-value context. -/
def evalExpr : Nat → Expr → M Value
  | 0, _ => M.outOfFuel
  | fuel + 1, e =>
    match e with
    | .litNil => pure .nil
    | .litTrue => pure (.bool true)
    | .litFalse => pure (.bool false)
    | .num n => pure (.num n)
    | .str s => pure (.str s)
    | .var x => readVar x
    | .index t k => do
      let tv ← evalExpr fuel t
      let kv ← evalExpr fuel k
      indexValue tv kv
    | .binop .and a b => do
      let av ← evalExpr fuel a
      if av.truthy then evalExpr fuel b else pure av
    | .binop .or a b => do
      let av ← evalExpr fuel a
      if av.truthy then pure av else evalExpr fuel b
    | .binop op a b => do
      let av ← evalExpr fuel a
      let bv ← evalExpr fuel b
      binop op av bv
    | .unop op a => do
      let av ← evalExpr fuel a
      unop op av
    | .table fields => do
      let vs ← evalList fuel fields
      allocTable { arr := vs }
    | .call f args => do
      let vs ← evalList fuel args
      let rs ← callFn f vs
      pure (rs.headD .nil)
    | .paren e => evalExpr fuel e
    | .unsupported why => M.unsupported why

/-- an expression where several values are accepted: a call gives all its results. -/
def evalMulti : Nat → Expr → M (List Value)
  | 0, _ => M.outOfFuel
  | fuel + 1, e =>
    match e with
    | .call f args => do
      let vs ← evalList fuel args
      callFn f vs
    | e => do
      let v ← evalExpr fuel e
      pure [v]

/-- an expression list (arguments, `local … =`, `return`): the last expression is expanded. -/
def evalList : Nat → List Expr → M (List Value)
  | 0, _ => M.outOfFuel
  | fuel + 1, es =>
    match es with
    | [] => pure []
    | [e] => evalMulti fuel e
    | e :: es => do
      let v ← evalExpr fuel e
      let vs ← evalList fuel es
      pure (v :: vs)

/-- a statement; `some vs` = the script returned `vs`. -/
def execStmt : Nat → Stmt → M (Option (List Value))
  | 0, _ => M.outOfFuel
  | fuel + 1, s =>
    match s with
    | .localDecl names exprs => do
      let vs ← evalList fuel exprs
      declareAll names vs
      pure none
    | .assign (.var x) e => do
      let v ← evalExpr fuel e
      assignVar x v
      pure none
    | .assign (.index t k) e => do
      let tv ← evalExpr fuel t
      let kv ← evalExpr fuel k
      let v ← evalExpr fuel e
      setIndex tv kv v
      pure none
    | .assign _ _ => M.unsupported "assignment target"
    | .numFor x init limit step body => do
      let iv ← evalExpr fuel init
      let lv ← evalExpr fuel limit
      let sv ← match step with
        | some e => evalExpr fuel e
        | none => pure (.num 1)
      match iv, lv, sv with
      | .num i, .num l, .num st => numForLoop fuel x i l st body
      | _, _, _ => M.error "for statement: initial value, limit and step must be numbers"
    | .ipairsFor names t body => do
      if (← isLocal "ipairs") then M.unsupported "call of a local variable" else
      let vs ← evalList fuel [t]
      match vs.headD .nil with
      | .table id => ipairsLoop fuel names id 1 body
      | _ => M.error "bad argument #1 to ipairs (table expected)"
    | .ifThen c thn els => do
      let cv ← evalExpr fuel c
      if cv.truthy then inScope (execBlock fuel thn) else inScope (execBlock fuel els)
    | .ret exprs => do
      let vs ← evalList fuel exprs
      pure (some vs)
    | .callStmt f args => do
      let vs ← evalList fuel args
      let _ ← callFn f vs
      pure none
    | .unsupported why => M.unsupported why

/-- the statements of a block, in the current scope. -/
def execBlock : Nat → List Stmt → M (Option (List Value))
  | 0, _ => M.outOfFuel
  | fuel + 1, ss =>
    match ss with
    | [] => pure none
    | s :: rest => do
      match ← execStmt fuel s with
      | some vs => pure (some vs)
      | none => execBlock fuel rest

/-- `for x = i, limit, step`: continues while `i ≤ limit` (`step > 0`) / `i ≥ limit` (otherwise). -/
def numForLoop : Nat → String → Int → Int → Int → List Stmt → M (Option (List Value))
  | 0, _, _, _, _, _ => M.outOfFuel
  | fuel + 1, x, i, limit, step, body =>
    if (0 < step ∧ i ≤ limit) ∨ (step ≤ 0 ∧ limit ≤ i) then do
      match ← inScope (do declare x (.num i); execBlock fuel body) with
      | some vs => pure (some vs)
      | none => numForLoop fuel x (i + step) limit step body
    else pure none

/-- `for names in ipairs(t)`: positions 1, 2, … of the table until the first nil. -/
def ipairsLoop : Nat → List String → Nat → Nat → List Stmt → M (Option (List Value))
  | 0, _, _, _, _ => M.outOfFuel
  | fuel + 1, names, id, i, body => do
    let tb ← getTable id
    match tb.get (.num i) with
    | .nil => pure none
    | v =>
      match ← inScope (do declareAll names [.num i, v]; execBlock fuel body) with
      | some vs => pure (some vs)
      | none => ipairsLoop fuel names id (i + 1) body

end

/-! ## the script's return value as a reply (`luaToRedis`) -/

def valueString : Value → String
  | .nil => "nil"
  | .bool b => if b then "true" else "false"
  | .num n => renderInt n
  | .str s => s
  | .table _ => "table"

/-- `Except.error why` = not modelled. -/
def toReply (heap : List Table) : Nat → Value → Except String Reply
  | 0, _ => .error "reply nested too deep"
  | d + 1, v =>
    match v with
    | .nil => .ok .nil
    | .bool true => .ok (.int 1)
    | .bool false => .ok .nil
    | .num n => .ok (.int n)
    | .str s => .ok (.bulk s)
    | .table id =>
      let tb := heap.getD id {}
      match tb.get (.str "err") with
      | .nil =>
        (match tb.get (.str "ok") with
         | .nil => (tb.arr.takeWhile (· ≠ .nil)).mapM (toReply heap d) |>.map .array
         | .table _ => .error "status reply made of a table"
         | okv => .ok (.status (valueString okv)))
      | errv => .ok (.error (valueString errv))

/-! ## running a script -/

def initState (keys args : List String) (st : Store) : State :=
  { store := st
    heap := [{ arr := keys.map .str }, { arr := args.map .str }]
    env := []
    log := [] }

/-- `run` with the keys the script handed to Redis commands (for enumerating what it may have
    written: `Store` is a function). -/
def runLog (fuel : Nat) (script : Block) (keys args : List String) (st : Store) :
    Store × Outcome × List String :=
  match execBlock fuel script (initState keys args st) with
  | .ok none s => (s.store, .reply .nil, s.log)
  | .ok (some vs) s =>
    (match toReply s.heap 64 (vs.headD .nil) with
     | .ok r => (s.store, .reply r, s.log)
     | .error why => (s.store, .unsupported why, s.log))
  | .error msg s => (s.store, .error msg, s.log)
  | .unsupported why s => (s.store, .unsupported why, s.log)
  | .outOfFuel s => (s.store, .outOfFuel, s.log)

/-- `EVAL script numkeys keys… args…` on the database `st`: the database afterwards and the reply
    (or why there is none). -/
def run (fuel : Nat) (script : Block) (keys args : List String) (st : Store) : Store × Outcome :=
  let r := runLog fuel script keys args st
  (r.1, r.2.1)

end Gostatix.Lua
