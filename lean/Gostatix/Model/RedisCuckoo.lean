/-
  Gostatix.Model.RedisCuckoo — Redis-store-level model of bucket_redis.go and of the length
  counter of cuckoo_filter_redis.go.

  One level below `Gostatix.BucketRedis` (Model/Cuckoo.lean: a list and a `len` counter): here a
  bucket is two Redis keys of a `Store` (Model/Redis.lean) — the list `bk` and the string counter
  `bk ++ "_len"` — and every operation of bucket_redis.go is transcribed command by command:

    isFree        Lua:  pcall GET len; `tonumber(len) >= tonumber(size)` → false, else true
    add           Go:   `element == ""` → false.  Lua: the same guard; `pcall LPOS key ''`;
                        `pos == false` → `pcall LPUSH key element`, else `pcall LSET key pos element`;
                        `pcall INCRBY len 1`; true
    remove        Lua:  `call LPOS key element`; `call LSET key pos ''`; `pcall INCRBY len -1`; true
    lookup        Lua:  `pcall LPOS key element`; false → -1, else the position.  Go: `pos > -1`
    at            LINDEX (the callers drop the error: "" for a missing index)
    set           LSET
    getLength     GET … `.Int64()`, error dropped, converted to uint64
    getElements   LRANGE 0 -1
    newBucketRedis  INCRBY len 0 (creates the counter "0")
  and `CuckooFilterRedis.incrLength/decrLength/Length` = HINCRBY ±1 / HGET on the metadata hash.

  Commands the store model did not have yet are defined here in the same style: GET, INCRBY,
  LPOS, HGET, HINCRBY.  INCRBY/HINCRBY produce NEGATIVE numbers when decremented below zero (the
  library does that: `INCRBY len -1` is not guarded), so signed decimal strings are modelled:
  `renderInt`/`parseInt`.

  Modelling assumptions (in addition to those of Model/Redis.lean):
    - a Redis string value is a list of bytes; where a command or Lua reads it as text it is
      decoded byte-per-character (`latin1`); numbers are written as ASCII (`asciiBytes`).  For the
      digit strings and the '-' sign this is UTF-8.
    - Lua `tonumber` and Go `strconv.ParseInt` are modelled by `parseInt` (optional '-', decimal
      digits); Redis' own integer parser (`string2ll`, used by INCRBY/HINCRBY) accepts canonical
      spellings only (`parseIntStrict`: no leading zeros, no "-0").
    - the signed 64-bit range of INCRBY/HINCRBY (overflow error) is not modelled.
    - `redis.pcall` with a non-string/number argument (an error table or `false` where an index
      is expected) returns the error to the script; `redis.call` raises it.
  Core Lean only.
-/
import Gostatix.Model.Redis
import Gostatix.Model.Cuckoo
namespace Gostatix.Redis

/-! ## signed decimal strings, strings as bytes -/

/-- Redis' / Lua's spelling of an integer. -/
def renderInt : Int → String
  | .ofNat n => decimal n
  | .negSucc n => "-" ++ decimal (n + 1)

/-- optional '-' followed by a non-empty string of decimal digits. -/
def parseInt (s : String) : Option Int :=
  match s.toList with
  | '-' :: cs => (parseDecimal (String.ofList cs)).map fun n => -(n : Int)
  | _ => (parseDecimal s).map fun n => (n : Int)

/-- `string2ll`: only the canonical spelling of an integer is an integer. -/
def parseIntStrict (s : String) : Option Int :=
  match parseInt s with
  | some i => if renderInt i = s then some i else none
  | none => none

/-- the bytes of an ASCII string. -/
def asciiBytes (s : String) : List UInt8 := s.toList.map fun c => UInt8.ofNat c.toNat

/-- a byte string read as text, one character per byte. -/
def latin1 (b : List UInt8) : String := String.ofList (b.map fun x => Char.ofNat x.toNat)

/-- `strconv.ParseInt(s, 10, 64)` with the error dropped, converted by `uint64(·)`:
    0 for a syntax error, the nearest bound for a range error, two's complement for negatives. -/
def goInt64AsUint64 (s : String) : Nat :=
  match parseInt s with
  | some (.ofNat n) => min n (2 ^ 63 - 1)
  | some (.negSucc n) => 2 ^ 64 - min (n + 1) (2 ^ 63)
  | none => 0

/-! ## commands -/

/-- `GET k` (`none` = nil reply; WRONGTYPE for a non-string). -/
def cmdGET (k : String) : Script (Option String) := fun s =>
  match s k with
  | none => (s, some none)
  | some (.str b) => (s, some (some (latin1 b)))
  | some _ => (s, none)

/-- `INCRBY k d`: an absent key counts as 0; the value must be a canonical integer. -/
def cmdINCRBY (k : String) (d : Int) : Script Int := fun s =>
  match s k with
  | none => (s.set k (.str (asciiBytes (renderInt d))), some d)
  | some (.str b) =>
    (match parseIntStrict (latin1 b) with
     | some n => (s.set k (.str (asciiBytes (renderInt (n + d)))), some (n + d))
     | none => (s, none))
  | some _ => (s, none)

/-- position of the first entry equal to `e`. -/
def lpos (l : List String) (e : String) : Option Nat :=
  if l.contains e then some (l.idxOf e) else none

/-- `LPOS k e` (`none` = nil reply: no such entry or no such key). -/
def cmdLPOS (k : String) (e : String) : Script (Option Nat) := fun s =>
  match s k with
  | none => (s, some none)
  | some (.list l) => (s, some (lpos l e))
  | some _ => (s, none)

def cmdHGET (k f : String) : Script (Option String) := fun s =>
  match s k with
  | none => (s, some none)
  | some (.hash h) => (s, some (hashGet h f))
  | some _ => (s, none)

/-- `HINCRBY k f d`: an absent key or field counts as 0. -/
def cmdHINCRBY (k f : String) (d : Int) : Script Int := fun s =>
  match s k with
  | none => (s.set k (.hash [(f, renderInt d)]), some d)
  | some (.hash h) =>
    (match hashGet h f with
     | none => (s.set k (.hash (hashSet h f (renderInt d))), some d)
     | some v =>
       (match parseIntStrict v with
        | some n => (s.set k (.hash (hashSet h f (renderInt (n + d)))), some (n + d))
        | none => (s, none)))
  | some _ => (s, none)

/-- Lua `tonumber(v)` followed by a comparison: `nil` (false, an error table, not a number)
    raises "attempt to compare nil with number". -/
def luaInt (v : Option String) : Script Int := fun s =>
  match v with
  | some x => (match parseInt x with | some n => (s, some n) | none => (s, none))
  | none => (s, none)

/-- Go `val, _ := script.Run(…).Bool()`: a script error (or a nil reply) reads as `false`. -/
def goBool (m : Script Bool) : Op Bool := fun s => ((m s).1, (m s).2.getD false)

/-! ## bucket_redis.go -/

/-- `bucket.key + "_len"` / Lua `key .. '_len'`. -/
def bucketLenKey (bk : String) : String := bk ++ "_len"

/-- `newBucketRedis` → `incrLength()`: `INCRBY key_len 0` (error dropped). -/
def bucketNew (bk : String) : Script Unit :=
  Script.try_ (cmdINCRBY (bucketLenKey bk) 0) >>=ₛ fun _ => Script.pure ()

/-- the `isFree` script. -/
def bucketIsFreeScript (bk : String) (size : Nat) : Script Bool :=
  Script.try_ (cmdGET (bucketLenKey bk)) >>=ₛ fun r =>
  luaInt (r.getD none) >>=ₛ fun n =>
  Script.pure (decide (n < (size : Int)))

/-- `isFree()`. -/
def bucketIsFree (bk : String) (size : Nat) : Op Bool := goBool (bucketIsFreeScript bk size)

/-- the middle of the `addElement` script: `pos = pcall LPOS key ''`; `pos == false` → `pcall
    LPUSH key element`, else `pcall LSET key tonumber(pos) element` (an error table for `pos`
    makes the LSET fail, which `pcall` swallows). -/
def bucketStoreElement (bk : String) (e : String) : Script Unit :=
  Script.try_ (cmdLPOS bk "") >>=ₛ fun pos =>
  match pos with
  | some none => Script.try_ (cmdLPUSH bk [e]) >>=ₛ fun _ => Script.pure ()
  | some (some i) => Script.try_ (cmdLSET bk i e) >>=ₛ fun _ => Script.pure ()
  | none => Script.pure ()

/-- the `addElement` script. -/
def bucketAddScript (bk : String) (size : Nat) (e : String) : Script Bool :=
  Script.try_ (cmdGET (bucketLenKey bk)) >>=ₛ fun r =>
  luaInt (r.getD none) >>=ₛ fun n =>
  if n ≥ (size : Int) then Script.pure false else
  bucketStoreElement bk e >>=ₛ fun _ =>
  Script.try_ (cmdINCRBY (bucketLenKey bk) 1) >>=ₛ fun _ =>
  Script.pure true

/-- `add(element)`: the Go guard `element == ""`, then the script; the Boolean is the first
    component of the Go result (`true` iff the script returned true). -/
def bucketAdd (bk : String) (size : Nat) (e : String) : Op Bool :=
  if e = "" then fun s => (s, false) else goBool (bucketAddScript bk size e)

/-- the `removeElement` script: `redis.call` for LPOS and LSET (an absent element gives
    `pos = false`, which LSET refuses: the script aborts before writing), `pcall` for INCRBY. -/
def bucketRemove (bk : String) (e : String) : Script Bool :=
  cmdLPOS bk e >>=ₛ fun pos =>
  (match pos with
   | some i => cmdLSET bk i ""
   | none => Script.fail) >>=ₛ fun _ =>
  Script.try_ (cmdINCRBY (bucketLenKey bk) (-1)) >>=ₛ fun _ =>
  Script.pure true

/-- the `exists` script: -1 or the position; an error table gives a nil reply (an error for
    the Go `.Int64()`). -/
def bucketLookupScript (bk : String) (e : String) : Script Int :=
  Script.try_ (cmdLPOS bk e) >>=ₛ fun pos =>
  match pos with
  | some none => Script.pure (-1)
  | some (some i) => Script.pure (i : Int)
  | none => Script.fail

/-- `lookup(element)`: `pos > -1`. -/
def bucketLookup (bk : String) (e : String) : Script Bool :=
  bucketLookupScript bk e >>=ₛ fun p => Script.pure (decide (p > -1))

/-- `at(index)` as its callers use it (`prevFingerPrint, _ := …at(randIndex)`): "" on error. -/
def bucketAt (bk : String) (i : Nat) : Op String := fun s =>
  ((cmdLINDEX bk i s).1, (((cmdLINDEX bk i s).2).getD none).getD "")

/-- `set(index, element)`. -/
def bucketSet (bk : String) (i : Nat) (e : String) : Script Unit := cmdLSET bk i e

/-- `getLength()`: `val, _ := GET(key_len).Int64(); uint64(val)`. -/
def bucketGetLength (bk : String) : Op Nat := fun s =>
  ((cmdGET (bucketLenKey bk) s).1,
    match (cmdGET (bucketLenKey bk) s).2 with
    | some (some v) => goInt64AsUint64 v
    | _ => 0)

/-- `getElements()`. -/
def bucketElements (bk : String) : Script (List String) := cmdLRANGE bk

/-- the list at a key, as `LRANGE k 0 -1` reads it: an absent key is the empty list. -/
def listAt (st : Store) (k : String) : Option (List String) :=
  match st k with
  | none => some []
  | some (.list l) => some l
  | some _ => none

/-- the bucket a store represents at key `bk`: the list (an absent key is the empty list, as
    for a bucket nothing was added to yet) and the counter, which must exist and be a canonical
    non-negative decimal number. -/
def absBucket (st : Store) (bk : String) (size : Nat) : Option (BucketRedis String) :=
  match listAt st bk, st (bucketLenKey bk) with
  | some l, some (.str b) =>
    (match parseDecimal (latin1 b) with
     | some n => if asciiBytes (decimal n) = b then some ⟨size, l, n⟩ else none
     | none => none)
  | _, _ => none

/-! ## cuckoo_filter_redis.go: the `length` field of the metadata hash -/

def cuckooIncrLength (h : CuckooHandle) : Script Int := cmdHINCRBY h.metadataKey "length" 1
def cuckooDecrLength (h : CuckooHandle) : Script Int := cmdHINCRBY h.metadataKey "length" (-1)

/-- `Length()`: `value, _ := HGET(metadataKey, "length").Int64(); uint64(value)`. -/
def cuckooLength (h : CuckooHandle) : Op Nat := fun s =>
  ((cmdHGET h.metadataKey "length" s).1,
    match (cmdHGET h.metadataKey "length" s).2 with
    | some (some v) => goInt64AsUint64 v
    | _ => 0)

/-- the filter length a store records. -/
def absCuckooLength (st : Store) (h : CuckooHandle) : Option Nat :=
  match st h.metadataKey with
  | some (.hash m) =>
    (match hashGet m "length" with
     | some v => (match parseDecimal v with
        | some n => if decimal n = v then some n else none
        | none => none)
     | none => none)
  | _ => none

end Gostatix.Redis
