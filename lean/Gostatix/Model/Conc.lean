/-
  Gostatix.Model.Conc — threads, atomic steps, interleavings (C07, C16).  Core Lean only.

  * generic part: a thread is a list of atomic steps over a shared state `σ`; `Interleaving ts w`
    says that the schedule `w` is a merge of the threads' step lists `ts` that keeps every thread's
    program order; `exec f s w` runs a schedule.
  * mutex part (C07): the action alphabet `acq t | body t i | rel t`, the program of a thread
    (`acq; body; rel` per call), validity of a schedule for ONE mutex, the order in which the lock
    was acquired, concurrent and serial execution of call bodies `σ → σ × ρ`.
  * the lock table record (`MethodFact`) the extractor fills from the Go source, and the
    obligation `lockDisciplineOK` that is decided over it on every run.
-/
namespace Gostatix.Conc

universe u v

/-! ### threads, schedules -/

/-- `Interleaving ts w`: the schedule `w` is obtained by repeatedly taking the next step of
    some thread `i` (`ts[i] = a :: t`), until every thread is exhausted. -/
inductive Interleaving {α : Type u} : List (List α) → List α → Prop
  | done (ts : List (List α)) : (∀ t ∈ ts, t = []) → Interleaving ts []
  | step (ts : List (List α)) (i : Nat) (a : α) (t w : List α) :
      ts[i]? = some (a :: t) → Interleaving (ts.set i t) w → Interleaving ts (a :: w)

/-- run a schedule: the steps are applied one after another (each step is atomic). -/
def exec {σ : Type u} {α : Type v} (f : σ → α → σ) (s : σ) (w : List α) : σ := w.foldl f s

/-- run the threads one after another (thread 0 to completion, then thread 1, …). -/
def execThreads {σ : Type u} {α : Type v} (f : σ → α → σ) (s : σ) (ts : List (List α)) : σ :=
  ts.foldl (fun s t => exec f s t) s

/-- all steps commute pairwise, in every state. -/
def Commute {σ : Type u} {α : Type v} (f : σ → α → σ) : Prop :=
  ∀ s a b, f (f s a) b = f (f s b) a

/-- a schedule given as the list of thread indices that move; `none` when a thread that has
    nothing left is picked or when something is left over at the end. -/
def pick {α : Type u} (ts : List (List α)) : List Nat → Option (List α)
  | [] => if ts.all List.isEmpty then some [] else none
  | i :: is =>
    match ts[i]? with
    | some (a :: t) => (pick (ts.set i t) is).map (a :: ·)
    | _ => none

/-! ### mutex-guarded calls -/

/-- atomic actions of thread `t`: take the mutex, run the body of its `i`-th call, release. -/
inductive Act where
  | acq (t : Nat)
  | body (t i : Nat)
  | rel (t : Nat)
  deriving Repr, DecidableEq

def Act.tid : Act → Nat
  | .acq t => t
  | .body t _ => t
  | .rel t => t

/-- one guarded method call -/
def call (t i : Nat) : List Act := [.acq t, .body t i, .rel t]

/-- the program of thread `t` making `n` calls -/
def prog (t n : Nat) : List Act := (List.range n).flatMap (call t)

def progsFrom (t : Nat) : List Nat → List (List Act)
  | [] => []
  | n :: ns => prog t n :: progsFrom (t + 1) ns

/-- thread `t` (position in the list) makes `ns[t]` calls -/
def progs (ns : List Nat) : List (List Act) := progsFrom 0 ns

/-- mutex semantics: `acq` is only enabled when nobody holds the mutex, `rel` frees it. `holder`
    is the thread inside its critical section.  (That `rel t` is issued by the holder and that
    `body t i` runs while `t` holds the mutex is NOT part of the definition: it follows from the
    shape of the programs, see `Proofs/Conc.lean`.) -/
def validFrom : Option Nat → List Act → Bool
  | _, [] => true
  | h, .acq t :: w => h.isNone && validFrom (some t) w
  | h, .body _ _ :: w => validFrom h w
  | _, .rel _ :: w => validFrom none w

/-- between `acq t` and the next `rel` no `acq` occurs. -/
def validMutex (w : List Act) : Prop := validFrom none w = true

instance (w : List Act) : Decidable (validMutex w) := by unfold validMutex; infer_instance

/-- a call is named by (thread, index in the thread) -/
abbrev CallId := Nat × Nat

/-- the order in which the mutex was taken: the `j`-th `acq t` of the schedule is call `(t, j)`. -/
def acqOrderFrom (cnt : Nat → Nat) : List Act → List CallId
  | [] => []
  | .acq t :: w => (t, cnt t) :: acqOrderFrom (fun u => if u = t then cnt u + 1 else cnt u) w
  | _ :: w => acqOrderFrom cnt w

def acqOrder (w : List Act) : List CallId := acqOrderFrom (fun _ => 0) w

/-- the order in which the bodies ran -/
def bodiesOf : List Act → List CallId
  | [] => []
  | .body t i :: w => (t, i) :: bodiesOf w
  | _ :: w => bodiesOf w

def callIdsFrom (t : Nat) : List Nat → List CallId
  | [] => []
  | n :: ns => (List.range n).map (fun i => (t, i)) ++ callIdsFrom (t + 1) ns

/-- every call of every thread, thread by thread -/
def allCalls (ns : List Nat) : List CallId := callIdsFrom 0 ns

section
variable {σ : Type u} {ρ : Type v}

/-- the body of call `c` when thread `t` is given as the list of its call bodies -/
def bodyAt (threads : List (List (σ → σ × ρ))) (c : CallId) : Option (σ → σ × ρ) :=
  match threads[c.1]? with
  | some calls => calls[c.2]?
  | none => none

/-- run one call body: new state, and the result is appended to the result log -/
def runCall (threads : List (List (σ → σ × ρ))) (r : σ × List (CallId × ρ)) (c : CallId) :
    σ × List (CallId × ρ) :=
  match bodyAt threads c with
  | some f => ((f r.1).1, r.2 ++ [(c, (f r.1).2)])
  | none => r

/-- `acq`/`rel` do not touch the guarded state; `body t i` runs the call's body. -/
def stepAct (threads : List (List (σ → σ × ρ))) (r : σ × List (CallId × ρ)) : Act → σ × List (CallId × ρ)
  | .body t i => runCall threads r (t, i)
  | _ => r

/-- the schedule of actions the threads can produce -/
def sched (threads : List (List (σ → σ × ρ))) : List (List Act) := progs (threads.map List.length)

/-- concurrent execution of a schedule: final state and the result of every call -/
def execConc (threads : List (List (σ → σ × ρ))) (s : σ) (w : List Act) : σ × List (CallId × ρ) :=
  exec (stepAct threads) (s, []) w

/-- sequential execution of whole calls in the given order -/
def execSerial (threads : List (List (σ → σ × ρ))) (s : σ) (order : List CallId) : σ × List (CallId × ρ) :=
  exec (runCall threads) (s, []) order

end

/-! ### the lock table (filled by the extractor from the Go source on every run) -/

structure MethodFact where
  typ : String        -- receiver type, e.g. "CountMinSketch"
  method : String
  touchesMutable : Bool   -- reads or writes a mutable field of the receiver (directly or via helpers)
  writesMutable : Bool
  guarded : Bool          -- all those accesses are dominated by Lock()/RLock() on the receiver's mutex with deferred/paired Unlock
  exclusive : Bool        -- the lock taken is the write lock (Lock)
  exempt : Bool           -- listed as outside the property's call classes (Import/ReadFrom/Equals)
  deriving Repr, DecidableEq

def MethodFact.ok (m : MethodFact) : Bool :=
  m.exempt || !m.touchesMutable || (m.guarded && (!m.writesMutable || m.exclusive))

def lockDisciplineOK (t : List MethodFact) : Bool := t.all MethodFact.ok

end Gostatix.Conc
