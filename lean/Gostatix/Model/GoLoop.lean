/-
  Gostatix.Model.GoLoop — the (hand-written, small) semantics of the STATEMENT language of
  extract/loops.go, used by the definitions it writes into `Gostatix/Generated/Loops.lean`.

  A Go run either goes on or PANICS; a translated statement is an `Option` of the variables it
  assigns (`none` = the Go run-time panic: index out of range, integer division by zero).  A panic
  is never a silent no-op.

    Go                                   Lean
    ---------------------------------    -------------------------------------------------------
    x[i]            (read)               `idx x i.toNat`              none when `i ≥ len(x)`
    x[i] = v        (slice element)      `set1 x i.toNat v`           none when `i ≥ len(x)`
    a / b, a % b    (unsigned)           `div a b`, `mod a b`         none when `b = 0`
    for i := 0; i < n; i++ { body }      `forN n st (fun i st => body)`   (also every `range` loop:
    for i := range X / for i, v := range X   `n = len(X)` evaluated once, `v = X[i]`)
    int values                           the 64-bit two's-complement pattern in a `UInt64`
                                         (`intToNat`, `intLt` read it as a signed number)

  Slices are VALUES here (`List`): the translator refuses every program in which two names may
  denote the same storage with one of them written (see the header of extract/loops.go); a local
  that is bound to an element slice (`row := cms.matrix[r]`) is kept as the PATH it denotes.
-/
namespace Gostatix.GoLoop

/-- `x[i]`: `none` is Go's "index out of range" panic. -/
def idx {α} (l : List α) (i : Nat) : Option α := l[i]?

/-- `x[i] = v` on a slice: `none` is Go's "index out of range" panic. -/
def set1 {α} (l : List α) (i : Nat) (v : α) : Option (List α) :=
  if i < l.length then some (l.set i v) else none

/-- unsigned `a % b`: `none` is Go's "integer divide by zero" panic. -/
def mod (a b : UInt64) : Option UInt64 := if b = 0 then none else some (a % b)

/-- unsigned `a / b`: `none` is Go's "integer divide by zero" panic. -/
def div (a b : UInt64) : Option UInt64 := if b = 0 then none else some (a / b)

/-- the value of an `int` (given as its 64-bit pattern) as a loop bound: negative = no iteration. -/
def intToNat (n : UInt64) : Nat := if n < 9223372036854775808 then n.toNat else 0

/-- `a < b` on `int`s given as 64-bit patterns. -/
def intLt (a b : UInt64) : Bool := decide (a + 9223372036854775808 < b + 9223372036854775808)

/-- `for i := 0; i < n; i++ { st = body i st }`; a panic in one iteration ends the run. -/
def forN {σ} (n : Nat) (init : σ) (body : Nat → σ → Option σ) : Option σ :=
  (List.range n).foldl (fun acc i => acc.bind (body i)) (some init)

end Gostatix.GoLoop
