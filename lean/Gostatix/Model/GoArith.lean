/-
  Gostatix.Model.GoArith — the Go integer primitives that have no literal `UInt64` counterpart,
  used by the definitions the extractor writes into `Gostatix/Generated/Arith.lean` (extract/arith.go).

  A Go value of type `uint64`, `uint` (64-bit target), `int`, `int64` is represented by the `UInt64`
  holding its 64-bit two's-complement pattern; `uint8`/`uint16`/`uint32` values by the `UInt64`
  holding the zero-extended value.  `+ - * / % & | ^` of Go's unsigned 64-bit types are the
  `UInt64` operations (wrap-around); the translator only uses `+ - * & | ^ <<` on signed values
  (where the bit pattern of the result does not depend on signedness) and rejects signed `/ % >>`.
  A Go division / remainder by zero panics, `UInt64` gives `0` / the dividend: the tie theorems
  carry the hypothesis `modulus ≠ 0`.
-/
namespace Gostatix.GoArith

/-- Go `x << n` for an unsigned count `n`: a count of 64 or more gives 0
    (Lean's `UInt64.shiftLeft` reduces the count modulo 64). -/
def goShl (x n : UInt64) : UInt64 := if n < 64 then x <<< n else 0

/-- Go `x >> n` for unsigned `x` and unsigned count `n`: a count of 64 or more gives 0. -/
def goShr (x n : UInt64) : UInt64 := if n < 64 then x >>> n else 0

/-- scan from bit `i-1` downwards, counting the zero bits above the highest set bit. -/
def clzAux : Nat → Nat → Nat
  | 0, _ => 0
  | i + 1, x => if x.testBit i then 0 else clzAux i x + 1

/-- `bits.LeadingZeros64`: the number of zero bits above the highest set bit, 64 for 0.
    (The Go result type is `int`; the value is in `0..64`.) -/
def clz64u (x : UInt64) : UInt64 := UInt64.ofNat (clzAux 64 x.toNat)

/-- conversion to `uint8` / `uint16` / `uint32` (zero-extended result). -/
def trunc8 (x : UInt64) : UInt64 := x % 256
def trunc16 (x : UInt64) : UInt64 := x % 65536
def trunc32 (x : UInt64) : UInt64 := x % 4294967296

end Gostatix.GoArith
