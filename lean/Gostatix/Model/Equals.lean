/-
  Gostatix.Model.Equals — the `Equals` methods of every structure, transcribed loop by loop.
  Core Lean only (linked into the driver executable).

  Result type `Option Bool`:
    `none`       = the Go code PANICS (slice index out of range / nil pointer dereference),
    `some b`     = the boolean that is returned.  The Redis variants return `(bool, error)`;
                   "reported unequal" includes the `(false, err)` form (e.g. `compareMatrix` turns
                   every `false` of the script into `(false, err)`, and a Lua `return false` reaches
                   go-redis as a nil reply, i.e. `(false, redis.Nil)`), all modelled as `some false`.

  Go slices are indexed with `l[i]?`: an out-of-range index gives `none`, i.e. the panic.
  Lua tables (`LRANGE` / `ZRANGE` replies) are indexed with `l[i]?` too, but there a missing entry
  is the VALUE `nil`, which the scripts compare with `~=` (`nil ~= nil` is false, `nil ~= "x"` and
  `nil ~= ""` are true) — Lua comparisons never panic.

  State records hold exactly what `Equals` reads.
  Numbers stored in Redis lists (CMS counters, HLL registers, zset scores) are decimal strings that
  the scripts compare as strings (CMS, Top-K) or after `tonumber` (HLL); they are modelled as `Nat`,
  i.e. canonical decimal formatting is ASSUMED (every writer in the library formats through Lua
  number-to-string, so equal numbers have equal strings).
-/
import Gostatix.Model.CMS
import Gostatix.Model.HLL
import Gostatix.Model.Cuckoo
namespace Gostatix.Equals

/-! ### loops -/

/-- `for i := start; i < start+fuel; i++ { body }; return true` where the body is
    `none` = panic, `some false` = `return false`, `some true` = next iteration. -/
def forFrom (body : Nat → Option Bool) : Nat → Nat → Option Bool
  | _, 0 => some true
  | i, fuel + 1 =>
    match body i with
    | none => none
    | some false => some false
    | some true => forFrom body (i + 1) fuel

/-- `for i := 0; i < n; i++ { body }; return true` -/
def forN (n : Nat) (body : Nat → Option Bool) : Option Bool := forFrom body 0 n

/-- Go: `if xs[i] != ys[i] { return false }` — either index out of range panics. -/
def goIdxEq {α} [DecidableEq α] (xs ys : List α) (i : Nat) : Option Bool :=
  match xs[i]?, ys[i]? with
  | some x, some y => some (decide (x = y))
  | _, _ => none

/-- Lua: `if vals1[i] ~= vals2[i] then return false end` (0-based `i` here, `i+1` in Lua);
    a missing entry is `nil`, never an error. -/
def luaIdxEq {α} [DecidableEq α] (xs ys : List α) (i : Nat) : Option Bool :=
  some (decide (xs[i]? = ys[i]?))

/-- the bucket loop shared by both cuckoo `Equals`:
    `for count < len(aFilter.buckets) { bucket := aFilter.buckets[count]
       if !bFilter.buckets[count].equals(bucket) { return false }; count++ }; return true`
    (`as` = receiver's buckets, `bs` = argument's buckets; a missing bucket panics). -/
def bucketLoop {B} (beq : B → B → Option Bool) (as bs : List B) : Option Bool :=
  forN as.length (fun count =>
    match as[count]?, bs[count]? with
    | some bucket, some bb => beq bb bucket
    | _, _ => none)

/-! ### float64 parameters of Top-K (`errorRate`, `accuracy`), given by their IEEE-754 bits -/

namespace F64
def isNaN (b : Nat) : Bool := (b / 2 ^ 52) % 2 ^ 11 == 2 ^ 11 - 1 && b % 2 ^ 52 != 0
def isZero (b : Nat) : Bool := b % 2 ^ 63 == 0
/-- Go `x != y` on float64: true when either side is NaN; `+0 == -0`; otherwise bit equality. -/
def ne (x y : Nat) : Bool := isNaN x || isNaN y || !(x == y || (isZero x && isZero y))
end F64

/-! ### Bloom filter, in-memory bitset (bloom_filter.go, bitset_mem.go, bits-and-blooms v1.8.0) -/

/-- `size`, `numHashes`, and the `bitset.BitSet{length, set}` behind `BitSetMem`. -/
structure BloomMem where
  size : Nat
  k : Nat
  length : Nat
  words : List Nat
  deriving Repr, DecidableEq

/-- `wordsNeeded(i)` (allocation size of `set`): capped at `Cap() >> 6`. -/
def wordsNeeded (i : Nat) : Nat :=
  if i > (2 ^ 64 - 1) - 64 + 1 then (2 ^ 64 - 1) / 64 else (i + 63) / 64

/-- `b.wordCount() = wordsNeededUnbound(b.length)`: uint arithmetic, wraps. -/
def wordCount (i : Nat) : Nat := ((i + 63) % 2 ^ 64) / 64

/-- `b.Equal(c)`:
    ```
    if b.length != c.length { return false }
    if b.length == 0 { return true }
    wn := b.wordCount()
    for p := 0; p < wn; p++ { if c.set[p] != b.set[p] { return false } }
    return true
    ``` -/
def bitsetEqual (b c : BloomMem) : Option Bool :=
  if b.length ≠ c.length then some false
  else if b.length = 0 then some true
  else forN (wordCount b.length) (goIdxEq c.words b.words)

/-- `aFilter.Equals(bFilter)`: `size`/`numHashes` guard, then `aFilter.filter.set.Equal(bFilter.filter.set)`. -/
def BloomMem.equals (a b : BloomMem) : Option Bool :=
  if a.size ≠ b.size ∨ a.k ≠ b.k then some false else bitsetEqual a b

/-! ### Bloom filter, Redis bitset (bitset_redis.go): the two `GET` replies compared as Go strings -/

/-- `str = none`: the key does not exist (`GET` gives `redis.Nil`, returned as `(false, err)`). -/
structure BloomRedis where
  size : Nat
  k : Nat
  str : Option (List UInt8)
  deriving Repr, DecidableEq

def BloomRedis.equals (a b : BloomRedis) : Option Bool :=
  if a.size ≠ b.size ∨ a.k ≠ b.k then some false
  else match a.str with
    | none => some false                 -- err1 != nil
    | some x => match b.str with
      | none => some false               -- err2 != nil
      | some y => some (decide (x = y))  -- aSetVal == bSetVal

/-! ### Cuckoo filter, in memory (cuckoo_filter.go, bucket_mem.go) -/

abbrev MBucket := BucketMem String
abbrev CuckooMem := Cuckoo MBucket

/-- `bucket.equals(otherBucket)`:
    ```
    if bucket.size != otherBucket.size || bucket.length != otherBucket.length { return false }
    for index, val := range bucket.elements { if otherBucket.elements[index] != val { return false } }
    return true
    ``` -/
def MBucket.equals (bucket other : MBucket) : Option Bool :=
  if bucket.size ≠ other.size ∨ bucket.length ≠ other.length then some false
  else forN bucket.elements.length (goIdxEq other.elements bucket.elements)

/-- `aFilter.Equals(bFilter)`: guard on the four parameters, `length` and `len(buckets)`; then
    the bucket loop (`bucketLoop`) calling `bFilter.buckets[count].equals(&bucket)`. -/
def CuckooMem.equals (a b : CuckooMem) : Option Bool :=
  if a.n ≠ b.n ∨ a.bsize ≠ b.bsize ∨ a.fpl ≠ b.fpl ∨ a.retries ≠ b.retries ∨
      a.length ≠ b.length ∨ a.buckets.length ≠ b.buckets.length then some false
  else bucketLoop MBucket.equals a.buckets b.buckets

/-! ### Cuckoo filter, Redis (cuckoo_filter_redis.go, bucket_redis.go) -/

/-- what `BucketRedis.equals` reads: the Go-side `size` and the Redis list at `key`
    (the `<key>_len` counter is not read). -/
structure RBucket where
  size : Nat
  list : List String
  deriving Repr, DecidableEq

/-- `bucket.equals(otherBucket)`: `size` guard, then the script
    `for i=1, size do if vals1[i] ~= vals2[i] then return false end end return true`
    with `vals1 = LRANGE bucket.key 0 -1`, `vals2 = LRANGE otherBucket.key 0 -1`, `size = bucket.size`. -/
def RBucket.equals (bucket other : RBucket) : Option Bool :=
  if bucket.size ≠ other.size then some false
  else forN bucket.size (luaIdxEq bucket.list other.list)

/-- `buckets` models `map[string]*BucketRedis` restricted to the keys `getIndexKey(0..)`: entry `i`
    is the bucket stored under `getIndexKey(i)`; a missing key gives a nil `*BucketRedis`, and
    `.equals` on / with a nil bucket dereferences `bucket.size` — the panic `none`.
    `length` is the `length` field of the metadata hash (`Length()`). -/
structure CuckooRedis where
  n : Nat
  bsize : Nat
  fpl : Nat
  retries : Nat
  length : Nat
  buckets : List RBucket
  deriving Repr, DecidableEq

def CuckooRedis.equals (a b : CuckooRedis) : Option Bool :=
  if a.n ≠ b.n ∨ a.bsize ≠ b.bsize ∨ a.fpl ≠ b.fpl ∨ a.retries ≠ b.retries ∨
      a.length ≠ b.length ∨ a.buckets.length ≠ b.buckets.length then some false
  else bucketLoop RBucket.equals a.buckets b.buckets

/-! ### Count-Min sketch (count_min_sketch.go, count_min_sketch_redis.go)
    State: `Gostatix.CMS` = rows, cols, matrix.  (`allSum` is not read by `Equals`.) -/

/-- in memory:
    ```
    if cms.rows != cms1.rows || cms.columns != cms1.columns { return false }
    for i := range cms.matrix { for j := range cms.matrix[i] {
        if cms.matrix[i][j] != cms1.matrix[i][j] { return false } } }
    return true
    ``` -/
def CMSMem.equals (a b : CMS) : Option Bool :=
  if a.rows ≠ b.rows ∨ a.cols ≠ b.cols then some false
  else forN a.m.length (fun i =>
    match a.m[i]? with
    | none => none
    | some ra => forN ra.length (fun j =>
        match b.m[i]? with
        | none => none
        | some rb => goIdxEq ra rb j))

/-- Redis: guard, then `compareMatrix`:
    `for i=1,rows do vals1 = LRANGE key1..(i-1); vals2 = LRANGE key2..(i-1);
       for j=1,columns do if vals1[j] ~= vals2[j] then return false end end end return true`.
    A missing row key gives the empty table.  `false` comes back as `(false, err)`. -/
def CMSRedis.equals (a b : CMS) : Option Bool :=
  if a.rows ≠ b.rows ∨ a.cols ≠ b.cols then some false
  else forN a.rows (fun i =>
    forN a.cols (luaIdxEq ((a.m[i]?).getD []) ((b.m[i]?).getD [])))

/-! ### HyperLogLog (hyperloglog.go, hyperloglog_redis.go).  State: `Gostatix.HLL` = m, registers -/

/-- in memory: `for i := 0; i < int(h.numRegisters); i++ { if h.registers[i] != g.registers[i] … }` -/
def HLLMem.equals (h g : HLL) : Option Bool :=
  if h.m ≠ g.m then some false
  else forN h.m (goIdxEq h.regs g.regs)

/-- Redis `compareRegisters`: `for i=1,size do if tonumber(vals1[i]) ~= tonumber(vals2[i]) …`
    (`tonumber(nil) = nil`). -/
def HLLRedis.equals (h g : HLL) : Option Bool :=
  if h.m ≠ g.m then some false
  else forN h.m (luaIdxEq h.regs g.regs)

/-! ### Top-K (top_k.go, top_k_redis.go) -/

/-- `sketch = none` is a nil `*CountMinSketch` (what `NewTopK` stores when
    `NewCountMinSketchFromEstimates` fails — its error is discarded).  `er`, `acc` are float64 bits.
    `heap` is the backing array of the `container/heap`. -/
structure TopKMem where
  k : Nat
  er : Nat
  acc : Nat
  sketch : Option CMS
  heap : List (String × Nat)
  deriving Repr, DecidableEq

/-- ```
    if t.k != u.k … ; if t.accuracy != u.accuracy … ; if t.errorRate != u.errorRate … { return false, err }
    if !t.sketch.Equals(u.sketch) { return false, err }      // nil sketch: cms.rows dereferences nil
    if len(t.heap) != len(u.heap) { return false, err }
    for i := range t.heap { if t.heap[i] != u.heap[i] { return false, err } }
    return true, nil
    ``` -/
def TopKMem.equals (t u : TopKMem) : Option Bool :=
  if t.k ≠ u.k then some false
  else if F64.ne t.acc u.acc then some false
  else if F64.ne t.er u.er then some false
  else match t.sketch, u.sketch with
    | some st, some su =>
      match CMSMem.equals st su with
      | none => none
      | some false => some false
      | some true =>
        if t.heap.length ≠ u.heap.length then some false
        else forN t.heap.length (goIdxEq t.heap u.heap)
    | _, _ => none

/-- `zset`: the sorted set at `heapKey` in `ZRANGE 0 -1` order, as (member, score). -/
structure TopKRedis where
  k : Nat
  er : Nat
  acc : Nat
  sketch : Option CMS
  zset : List (String × Nat)
  deriving Repr, DecidableEq

/-- the reply of `ZRANGE key 0 -1 WITHSCORES`: member, score, member, score, … -/
def withScores : List (String × Nat) → List (String ⊕ Nat)
  | [] => []
  | (m, s) :: z => .inl m :: .inr s :: withScores z

/-- `compareHeaps`:
    `if #vals1 ~= #vals2 then return false end
     for i=1,#vals1 do if vals1[i] ~= vals2[i] then return false end end return true` -/
def compareHeaps (z1 z2 : List (String × Nat)) : Option Bool :=
  let vals1 := withScores z1
  let vals2 := withScores z2
  if vals1.length ≠ vals2.length then some false
  else forN vals1.length (luaIdxEq vals1 vals2)

/-- parameter guards as in memory; `if ok, _ := t.sketch.Equals(u.sketch); !ok { return false, err }`
    (nil sketch: dereference panics); `return t.compareHeaps(u.heapKey)`. -/
def TopKRedis.equals (t u : TopKRedis) : Option Bool :=
  if t.k ≠ u.k then some false
  else if F64.ne t.acc u.acc then some false
  else if F64.ne t.er u.er then some false
  else match t.sketch, u.sketch with
    | some st, some su =>
      match CMSRedis.equals st su with
      | none => none
      | some false => some false
      | some true => compareHeaps t.zset u.zset
    | _, _ => none

end Gostatix.Equals
