/-
  Gostatix.Proofs.LuaCorec — generic lemmas about the Lua-subset interpreter of Model/Lua.lean:
  numerals (`tonumber`/`Atoi` on the decimal strings the hand models use), the state monad,
  builtins (`tonumber`, `unpack`, `redis.call`/`redis.pcall`), the Redis commands on stores of the
  expected shape, statement sequencing, and the numeric `for` loop (`numForLoop_run`,
  `numForLoop_exit`).  Used by Proofs/LuaHLL.lean.
-/
import Gostatix.Generated.LuaScripts
import Gostatix.Proofs.RedisKeys
import Gostatix.Proofs.RedisCMS
namespace Gostatix.LuaHLL
open Gostatix Gostatix.Lua Gostatix.Redis

/-! ## numerals -/

theorem isDigit_iff (c : Char) : c.isDigit = true ↔ 48 ≤ c.toNat ∧ c.toNat ≤ 57 := by
  unfold Char.isDigit Char.toNat
  simp only [Bool.and_eq_true, decide_eq_true_eq, ge_iff_le, UInt32.le_iff_toNat_le]
  exact Iff.rfl

theorem digitVal_of_isDigit {c : Char} (h : c.isDigit = true) :
    digitVal c = some (c.toNat - 48) := by
  have := (isDigit_iff c).mp h
  unfold digitVal
  have h1 : '0' ≤ c ∧ c ≤ '9' := by
    constructor
    · show '0'.val ≤ c.val
      rw [UInt32.le_iff_toNat_le]; exact this.1
    · show c.val ≤ '9'.val
      rw [UInt32.le_iff_toNat_le]; exact this.2
  rw [if_pos h1]

theorem ne_of_isDigit {c d : Char} (h : c.isDigit = true) (hd : d.isDigit = false) : c ≠ d := by
  intro e; subst e; rw [h] at hd; cases hd

theorem isTrimChar_of_isDigit {c : Char} (h : c.isDigit = true) : isTrimChar c = false := by
  unfold isTrimChar
  have h1 : c ≠ ' ' := ne_of_isDigit h (by decide)
  have h2 : c ≠ '\n' := ne_of_isDigit h (by decide)
  have h3 : c ≠ '\t' := ne_of_isDigit h (by decide)
  simp [h1, h2, h3]

theorem parseDigits_digits (cs : List Char) (hd : ∀ c ∈ cs, c.isDigit = true) (acc : Nat) :
    parseDigits 10 cs acc = some (Nat.ofDigitChars 10 cs acc) := by
  induction cs generalizing acc with
  | nil => rfl
  | cons c cs ih =>
    have hc := hd c List.mem_cons_self
    have hr := (isDigit_iff c).mp hc
    rw [parseDigits, digitVal_of_isDigit hc]
    simp only
    rw [if_pos (by omega), ih (fun d hd' => hd d (List.mem_cons_of_mem _ hd'))]
    rw [Nat.ofDigitChars_cons]
    congr 2
    show acc * 10 + (c.toNat - 48) = 10 * acc + (c.toNat - 48)
    omega

/-- Go's `ParseInt(·, 10, 64)` on a non-empty string of digits. -/
theorem goParseInt_digits (cs : List Char) (hne : cs ≠ []) (hd : ∀ c ∈ cs, c.isDigit = true) :
    goParseInt 10 cs =
      (if Nat.ofDigitChars 10 cs 0 ≥ 2 ^ 63 then .nan
       else if Nat.ofDigitChars 10 cs 0 > numLimit then .big
       else .num (Nat.ofDigitChars 10 cs 0 : Nat)) := by
  cases cs with
  | nil => exact absurd rfl hne
  | cons a rest =>
    have ha := hd a List.mem_cons_self
    have h1 : a ≠ '-' := ne_of_isDigit ha (by decide)
    have h2 : a ≠ '+' := ne_of_isDigit ha (by decide)
    unfold goParseInt
    split
    rename_i x neg ds heq
    have hx : neg = false ∧ ds = a :: rest := by
      split at heq
      · rename_i h; injection h with e1 e2; exact absurd e1 h1
      · rename_i h; injection h with e1 e2; exact absurd e1 h2
      · injection heq with e1 e2; exact ⟨e1.symm, e2.symm⟩
    obtain ⟨rfl, rfl⟩ := hx
    simp only [List.isEmpty_cons, Bool.false_eq_true, if_false]
    rw [parseDigits_digits _ hd]
    simp only [Bool.false_and, Bool.not_false, Bool.true_and, Bool.false_or, decide_eq_true_eq]

theorem parseDecimal_some {s : String} {n : Nat} (h : parseDecimal s = some n) :
    s.toList ≠ [] ∧ (∀ c ∈ s.toList, c.isDigit = true) ∧ Nat.ofDigitChars 10 s.toList 0 = n := by
  unfold parseDecimal at h
  simp only at h
  split at h
  · rename_i hc
    refine ⟨hc.1, ?_, Option.some.inj h⟩
    exact List.all_eq_true.mp hc.2
  · cases h

theorem goParseInt_of_parseDecimal {s : String} {n : Nat} (h : parseDecimal s = some n)
    (hn : n ≤ numLimit) : goParseInt 10 s.toList = .num n := by
  obtain ⟨h1, h2, h3⟩ := parseDecimal_some h
  rw [goParseInt_digits _ h1 h2, h3]
  have : numLimit = 2 ^ 53 := rfl
  rw [if_neg (by omega), if_neg (by omega)]

/-- `Atoi` (command arguments) agrees with `parseDecimal` on digit strings up to 2^53. -/
theorem goAtoi_of_parseDecimal {s : String} {n : Nat} (h : parseDecimal s = some n)
    (hn : n ≤ numLimit) : goAtoi s = .num n := goParseInt_of_parseDecimal h hn

theorem dropWhile_eq_self_of_head {α} (p : α → Bool) (l : List α)
    (h : ∀ a, l.head? = some a → p a = false) : l.dropWhile p = l := by
  cases l with
  | nil => rfl
  | cons a l => rw [List.dropWhile_cons, h a rfl]; rfl

theorem trimChars_digits (cs : List Char) (hd : ∀ c ∈ cs, c.isDigit = true) : trimChars cs = cs := by
  unfold trimChars
  rw [dropWhile_eq_self_of_head _ cs, dropWhile_eq_self_of_head, List.reverse_reverse]
  · intro a ha
    have : a ∈ cs.reverse := List.mem_of_mem_head? ha
    exact isTrimChar_of_isDigit (hd a (List.mem_reverse.mp this))
  · intro a ha
    exact isTrimChar_of_isDigit (hd a (List.mem_of_mem_head? ha))

/-- gopher-lua's `tonumber` agrees with `parseDecimal` (the hand models' `tonumber`) on digit
    strings up to 2^53. -/
theorem luaToNumber_of_parseDecimal {s : String} {n : Nat} (h : parseDecimal s = some n)
    (hn : n ≤ numLimit) : luaToNumber s = .num n := by
  obtain ⟨h1, h2, h3⟩ := parseDecimal_some h
  unfold luaToNumber
  simp only [trimChars_digits _ h2]
  have hdot : s.toList.contains '.' = false := by
    rw [Bool.eq_false_iff]; intro hc
    have := h2 '.' (List.contains_iff_mem.mp hc)
    revert this; decide
  rw [hdot]
  simp only [Bool.false_eq_true, if_false]
  have key : ∀ r : NumParse, r = goParseInt 10 s.toList →
      (match r with
        | NumParse.num n => ToNumber.num n
        | NumParse.nan => ToNumber.nil
        | NumParse.big => ToNumber.unsupported "tonumber of a numeral beyond 2^53") = ToNumber.num ↑n := by
    intro r hr; rw [hr, goParseInt_of_parseDecimal h hn]
  refine key _ ?_
  split
  · rename_i x rest heq
    have hx : x.isDigit = true := h2 x (by rw [heq]; simp)
    have e1 : x ≠ 'x' := ne_of_isDigit hx (by decide)
    have e2 : x ≠ 'X' := ne_of_isDigit hx (by decide)
    rw [if_neg (by simp [e1, e2])]
  · rfl

theorem luaToNumber_decimal {n : Nat} (hn : n ≤ numLimit) : luaToNumber (decimal n) = .num n :=
  luaToNumber_of_parseDecimal (parseDecimal_decimal n) hn

theorem goAtoi_decimal {n : Nat} (hn : n ≤ numLimit) : goAtoi (decimal n) = .num n :=
  goAtoi_of_parseDecimal (parseDecimal_decimal n) hn

theorem renderInt_natCast (n : Nat) : renderInt (n : Int) = decimal n := rfl
theorem renderInt_zero : renderInt 0 = "0" := rfl
theorem renderInt_neg_one : renderInt (-1) = "-1" := by decide

theorem decimal_ne_minus_zero (n : Nat) : decimal n ≠ "-0" := by
  intro h
  have := parseDecimal_decimal n
  rw [h] at this
  have h0 : parseDecimal "-0" = none := by decide
  rw [h0] at this; cases this


/-! ## the state monad -/

theorem bind_apply {α β} (m : M α) (f : α → M β) (s : State) :
    (m >>= f) s = (match m s with
      | .ok a s' => f a s'
      | .error e s' => .error e s'
      | .unsupported w s' => .unsupported w s'
      | .outOfFuel s' => .outOfFuel s') := rfl

theorem pure_apply {α} (a : α) (s : State) : (pure a : M α) s = .ok a s := rfl

/-! ## arithmetic -/

theorem checkNum_nat (n : Nat) (h : n ≤ numLimit) (s : State) :
    checkNum (n : Int) s = .ok (.num n) s := by
  unfold checkNum
  rw [if_neg (by simp only [Int.natAbs_natCast]; omega)]
  rfl

/-- `n / 2` for an even natural `n` (an odd one gives a float: `unsupported`). -/
theorem arith_div_two (n : Nat) (he : n % 2 = 0) (h : n ≤ numLimit) (s : State) :
    arith .div (n : Int) 2 s = .ok (.num ((n / 2 : Nat) : Int)) s := by
  unfold arith
  simp only
  rw [if_neg (by omega), if_pos (by omega)]
  have e : (n : Int) / 2 = ((n / 2 : Nat) : Int) := by omega
  rw [e]
  exact checkNum_nat _ (by omega) s

/-! ## builtins -/

theorem callFn_tonumber (s : State) (v : Value) (h : envGet s.env "tonumber" = none) :
    callFn (.global "tonumber") [v] s =
      (match v with
       | .num n => .ok [.num n] s
       | .str x =>
         (match luaToNumber x with
          | .num n => .ok [.num n] s
          | .nil => .ok [.nil] s
          | .unsupported why => .unsupported why s)
       | _ => .ok [.nil] s) := by
  unfold callFn
  simp only [bind_apply, isLocal, h]
  cases v with
  | str x => simp; cases luaToNumber x <;> rfl
  | _ => simp <;> rfl

theorem callFn_redis_call (s : State) (args : List Value) (h : envGet s.env "redis" = none) :
    callFn (.field "redis" "call") args s = redisCall true args s := by
  unfold callFn
  simp only [bind_apply, isLocal, h]
  rfl

theorem callFn_redis_pcall (s : State) (args : List Value) (h : envGet s.env "redis" = none) :
    callFn (.field "redis" "pcall") args s = redisCall false args s := by
  unfold callFn
  simp only [bind_apply, isLocal, h]
  rfl

/-- the values `unpack(t)` pushes. -/
def unpackValues (t : Table) : List Value := (List.range t.len).map fun i => t.arr.getD i .nil

/-- `unpack(t)` of the table at heap position `id`. -/
theorem callFn_unpack (s : State) (id : Nat) (h : envGet s.env "unpack" = none) :
    callFn (.global "unpack") [.table id] s =
      (if (s.heap.getD id {}).len ≤ unpackSafe then .ok (unpackValues (s.heap.getD id {})) s
       else if (s.heap.getD id {}).len ≥ unpackOverflow then .error "registry overflow" s
       else .unsupported "unpack near the data stack limit" s) := by
  unfold callFn
  simp only [bind_apply, isLocal, h]
  simp [getTable, bind_apply]
  split
  · rfl
  · split <;> rfl

/-- what `redis.call` (`ff = true`) / `redis.pcall` make of a command's result; `k` is the key
    argument (logged). -/
def cmdResult (ff : Bool) (s : State) (k : String) : CmdRes → Res (List Value)
  | .ok st r => (replyToLua r >>= fun v => pure [v]) { s with log := k :: s.log, store := st }
  | .error msg => if ff then .error msg { s with log := k :: s.log } else .ok [.nil] { s with log := k :: s.log }
  | .unsupported why => .unsupported why { s with log := k :: s.log }

theorem redisCall_key (ff : Bool) (name k : String) (rest : List Value) (cs : List String) (s : State)
    (h : cmdArgs rest = some cs) :
    redisCall ff (.str name :: .str k :: rest) s = cmdResult ff s k (redisCommand name (k :: cs) s.store) := by
  unfold redisCall
  simp only [cmdArgs, strOrNum, h]
  cases redisCommand name (k :: cs) s.store <;> rfl

theorem cmdResult_ok (ff : Bool) (s : State) (k : String) (st : Store) (r : CmdReply) :
    cmdResult ff s k (.ok st r) =
      (replyToLua r >>= fun v => pure [v]) { s with log := k :: s.log, store := st } := rfl
theorem cmdResult_error_call (s : State) (k : String) (msg : String) :
    cmdResult true s k (.error msg) = .error msg { s with log := k :: s.log } := rfl
theorem cmdResult_error_pcall (s : State) (k : String) (msg : String) :
    cmdResult false s k (.error msg) = .ok [.nil] { s with log := k :: s.log } := rfl

theorem cmdArgs_map_str (l : List String) : cmdArgs (l.map .str) = some l := by
  induction l with
  | nil => rfl
  | cons a l ih => simp only [List.map_cons, cmdArgs, strOrNum, ih]

theorem cmdArgs_map_num (l : List Nat) :
    cmdArgs (l.map fun (n : Nat) => Value.num (n : Int)) = some (l.map decimal) := by
  induction l with
  | nil => rfl
  | cons a l ih => simp only [List.map_cons, cmdArgs, strOrNum, ih, renderInt_natCast]

/-! ## Redis commands on numeric arguments -/

theorem redisCommand_LINDEX_nat (k : String) (i : Nat) (hi : i ≤ numLimit) (st : Store) :
    redisCommand "LINDEX" [k, decimal i] st =
      (match st k with
       | none => .ok st .nil
       | some (.list l) => .ok st (match l[i]? with | some v => .bulk v | none => .nil)
       | some _ => .error msgWrongType) := by
  show intArg (decimal i) _ = _
  unfold intArg
  rw [goAtoi_decimal hi]
  simp only [decimal_ne_minus_zero, if_false, Int.natCast_nonneg, if_true, Int.toNat_natCast, liftCmd, cmdLINDEX]
  cases h : st k with
  | none => rfl
  | some v => cases v <;> rfl

theorem redisCommand_LSET_nat (k : String) (i : Nat) (v : String) (hi : i ≤ numLimit) (st : Store) :
    redisCommand "LSET" [k, decimal i, v] st =
      (match st k with
       | none => .error "ERR no such key"
       | some (.list l) =>
         if i < l.length then .ok (st.set k (.list (l.set i v))) (.status "OK")
         else .error "ERR index out of range"
       | some _ => .error msgWrongType) := by
  show intArg (decimal i) _ = _
  unfold intArg
  rw [goAtoi_decimal hi]
  cases h : st k with
  | none => rfl
  | some w =>
    cases w with
    | list l =>
      simp only [resolveIndex, Int.natCast_nonneg, if_true, Int.toNat_natCast]
      by_cases hl : i < l.length
      · simp only [hl, if_true, liftCmd, cmdLSET, h]
      · simp only [hl, if_false]
    | _ => rfl

theorem redisCommand_LRANGE_eq (k s e : String) (st : Store) :
    redisCommand "LRANGE" [k, s, e] st =
    intArg s fun s => intArg e fun e =>
      match st k with
      | some (.list _) | none =>
        if s = 0 ∧ e = -1 then liftCmd (cmdLRANGE k) (fun l => .list l) msgWrongType st
        else .unsupported "LRANGE other than 0 -1"
      | some _ => .error msgWrongType := rfl

/-- `LRANGE k 0 -1` (the arguments as `redis.call` spells the numbers `0` and `-1`). -/
theorem redisCommand_LRANGE (k : String) (st : Store) :
    redisCommand "LRANGE" [k, "0", "-1"] st =
      (match st k with
       | none => .ok st (.list [])
       | some (.list l) => .ok st (.list l)
       | some _ => .error msgWrongType) := by
  have h0 : goAtoi "0" = .num 0 := by decide
  have h1 : goAtoi "-1" = .num (-1) := by decide
  rw [redisCommand_LRANGE_eq]
  unfold intArg
  rw [h0]; simp only
  rw [h1]; simp only
  cases h : st k with
  | none => simp [liftCmd, cmdLRANGE, h]
  | some w => cases w <;> simp [liftCmd, cmdLRANGE, h]

theorem redisCommand_DEL1 (k : String) (st : Store) :
    redisCommand "DEL" [k] st = .ok (st.del k) (.int ((if (st k).isSome then 1 else 0 : Nat) : Int)) := by
  show (let (st', n) := delAll st [k]; CmdRes.ok st' (.int n)) = _
  simp [delAll, cmdDEL]

theorem redisCommand_RPUSH (k v : String) (vs : List String) (st : Store) :
    redisCommand "RPUSH" (k :: v :: vs) st =
    (match cmdRPUSH k (v :: vs) st with
     | (st', some _) => .ok st' (.int (listLength st' k))
     | (_, none) => .error msgWrongType) := rfl

theorem redisCommand_RPUSH_nil (k : String) (st : Store) :
    redisCommand "RPUSH" [k] st = .error (msgWrongNumber "rpush") := rfl

theorem redisCommand_LPUSH (k v : String) (vs : List String) (st : Store) :
    redisCommand "LPUSH" (k :: v :: vs) st =
    (match cmdLPUSH k (v :: vs) st with
     | (st', some _) => .ok st' (.int (listLength st' k))
     | (_, none) => .error msgWrongType) := rfl

theorem redisCommand_LPUSH_nil (k : String) (st : Store) :
    redisCommand "LPUSH" [k] st = .error (msgWrongNumber "lpush") := rfl

/-! ## sorted-set commands -/

theorem redisCommand_ZADD_eq (k score member : String) (st : Store) :
    redisCommand "ZADD" [k, score, member] st =
    (if ["NX", "XX", "GT", "LT", "CH", "INCR"].contains (upperAscii score) then .error msgSyntax else
    (match parseScore score with
     | .nat f => liftCmd (cmdZADD k member f) (fun n => .int n) msgWrongType st
     | .invalid => .error "ERR value is not a valid float"
     | .unsupported => .unsupported "ZADD with a score that is not a natural number")) := rfl

theorem redisCommand_ZRANGE_eq (k mn mx : String) (opts : List String) (st : Store) :
    redisCommand "ZRANGE" (k :: mn :: mx :: opts) st =
    (let opts := opts.map lowerAscii
    if opts.any (fun o => ["byscore", "bylex", "rev", "limit"].contains o) then .unsupported "ZRANGE with options"
    else if opts.any (fun o => o ≠ "withscores") then .error msgSyntax
    else
      intArg mn fun mn => intArg mx fun mx =>
        match zsetAt st k with
        | none => .error msgWrongType
        | some _ =>
          if mn = 0 ∧ mx = -1 then
            liftCmd (cmdZRANGEALL k)
              (fun z => .list (if opts.isEmpty then z.map (·.1) else withScores z)) msgWrongType st
          else .unsupported "ZRANGE other than 0 -1") := rfl

theorem toUpper_of_isDigit {c : Char} (h : c.isDigit = true) : c.toUpper = c := by
  have hr := (isDigit_iff c).mp h
  unfold Char.toUpper
  rw [dif_neg]
  intro hc
  have : 'a'.val.toNat ≤ c.val.toNat := UInt32.le_iff_toNat_le.mp hc.1
  have e : 'a'.val.toNat = 97 := rfl
  have e2 : c.val.toNat = c.toNat := rfl
  omega

theorem map_toUpper_digits (cs : List Char) (h : ∀ c ∈ cs, c.isDigit = true) : cs.map Char.toUpper = cs := by
  induction cs with
  | nil => rfl
  | cons c cs ih =>
    rw [List.map_cons, toUpper_of_isDigit (h c List.mem_cons_self),
      ih (fun d hd => h d (List.mem_cons_of_mem _ hd))]

theorem upperAscii_decimal (n : Nat) : upperAscii (decimal n) = decimal n := by
  unfold upperAscii
  rw [map_toUpper_digits _ (decimal_digits n)]
  exact String.ofList_toList

theorem parseScore_decimal {n : Nat} (hn : n ≤ numLimit) : parseScore (decimal n) = .nat n := by
  obtain ⟨h1, h2, h3⟩ := parseDecimal_some (parseDecimal_decimal n)
  have hne : (decimal n).toList.isEmpty = false := by
    cases h : (decimal n).toList with
    | nil => exact absurd h h1
    | cons a l => rfl
  have hall : (decimal n).toList.all Char.isDigit = true := List.all_eq_true.mpr h2
  have key : ∀ ds : List Char, ds = (decimal n).toList →
      (if (!ds.isEmpty && ds.all Char.isDigit) = true then
        match parseDigits 10 ds 0 with
        | some n => if n > numLimit then ScoreParse.unsupported else ScoreParse.nat n
        | none => ScoreParse.invalid
      else
        if ((decimal n).toList.isEmpty || (decimal n).toList.any fun c => !floatAlphabet.contains c) = true
        then ScoreParse.invalid else ScoreParse.unsupported) = ScoreParse.nat n := by
    intro ds hds
    rw [hds, hne, hall]
    simp only [Bool.not_false, Bool.and_self, if_true]
    rw [parseDigits_digits _ h2, h3]
    simp only
    rw [if_neg (by omega)]
  unfold parseScore
  refine key _ ?_
  split
  · rename_i r heq
    have := h2 '+' (by rw [heq]; simp)
    exact absurd this (by decide)
  · rfl

/-- `ZADD k <decimal score> member`. -/
theorem redisCommand_ZADD_nat (k member : String) (f : Nat) (hf : f ≤ numLimit) (st : Store) :
    redisCommand "ZADD" [k, decimal f, member] st =
      (match cmdZADD k member f st with
       | (st', some n) => .ok st' (.int (n : Int))
       | (_, none) => .error msgWrongType) := by
  rw [redisCommand_ZADD_eq, upperAscii_decimal, parseScore_decimal hf]
  have hnot : ["NX", "XX", "GT", "LT", "CH", "INCR"].contains (decimal f) = false := by
    rw [Bool.eq_false_iff]
    intro hc
    have hmem := List.contains_iff_mem.mp hc
    have hp := parseDecimal_decimal f
    simp only [List.mem_cons, List.not_mem_nil, or_false] at hmem
    have hno : ∀ s ∈ ["NX", "XX", "GT", "LT", "CH", "INCR"], parseDecimal s = none := by decide
    rcases hmem with h | h | h | h | h | h <;>
      (rw [h, hno _ (by simp)] at hp; cases hp)
  rw [hnot]
  simp only [Bool.false_eq_true, if_false, liftCmd]
  cases cmdZADD k member f st with
  | mk st' r => cases r <;> rfl


theorem redisCommand_ZRANGE_all (k : String) (st : Store) :
    redisCommand "ZRANGE" [k, "0", "-1"] st =
      (match zsetAt st k with
       | none => .error msgWrongType
       | some z => .ok st (.list (z.map (·.1)))) := by
  have h0 : goAtoi "0" = .num 0 := by decide
  have h1 : goAtoi "-1" = .num (-1) := by decide
  rw [redisCommand_ZRANGE_eq]
  simp only [List.map_nil, List.any_nil, Bool.false_eq_true, if_false, List.isEmpty_nil, if_true]
  unfold intArg
  rw [h0]; simp only
  rw [h1]; simp only
  cases h : zsetAt st k with
  | none => rfl
  | some z => simp [liftCmd, cmdZRANGEALL, h]

theorem redisCommand_ZRANGE_withscores (k : String) (st : Store) :
    redisCommand "ZRANGE" [k, "0", "-1", "WITHSCORES"] st =
      (match zsetAt st k with
       | none => .error msgWrongType
       | some z => .ok st (.list (withScores z))) := by
  have h0 : goAtoi "0" = .num 0 := by decide
  have h1 : goAtoi "-1" = .num (-1) := by decide
  have hl : lowerAscii "WITHSCORES" = "withscores" := by decide
  have hc : ["byscore", "bylex", "rev", "limit"].contains "withscores" = false := by decide
  rw [redisCommand_ZRANGE_eq]
  simp only [List.map_cons, List.map_nil, hl, List.any_cons, List.any_nil, hc, Bool.or_false,
    Bool.false_eq_true, if_false, ne_eq, not_true_eq_false, decide_false, List.isEmpty_cons]
  unfold intArg
  rw [h0]; simp only
  rw [h1]; simp only
  cases h : zsetAt st k with
  | none => rfl
  | some z => simp [liftCmd, cmdZRANGEALL, h]


/-! ## tables -/

theorem arrayPos_nat (k : Nat) (hk : k + 1 < maxArrayIndex) :
    arrayPos (.num ((k : Int) + 1)) = some k := by
  have h1 : (1 : Int) ≤ (k : Int) + 1 ∧ (k : Int) + 1 < (maxArrayIndex : Int) := by
    constructor <;> omega
  show (if (1 : Int) ≤ (k : Int) + 1 ∧ (k : Int) + 1 < (maxArrayIndex : Int) then
    some (((k : Int) + 1).toNat - 1) else none) = some k
  rw [if_pos h1]
  congr 1

theorem Table.get_nat (t : Table) (k : Nat) (hk : k + 1 < maxArrayIndex) :
    t.get (.num ((k : Int) + 1)) = t.arr.getD k .nil := by
  unfold Table.get
  rw [arrayPos_nat k hk]

theorem Table.get_one (t : Table) : t.get (.num 1) = t.arr.getD 0 .nil := rfl
theorem Table.get_two (t : Table) : t.get (.num 2) = t.arr.getD 1 .nil := rfl

/-- `t[k+1] = v` where `k < #arr`: overwrite. -/
theorem Table.set_nat_lt (t : Table) (k : Nat) (v : Value) (hk : k + 1 < maxArrayIndex)
    (hl : k < t.arr.length) :
    t.set (.num ((k : Int) + 1)) v = { t with arr := t.arr.set k v } := by
  unfold Table.set
  rw [arrayPos_nat k hk]
  simp only [hl, if_true]

/-- `t[#arr + 1] = v`: append. -/
theorem Table.set_nat_append (t : Table) (k : Nat) (v : Value) (hk : k + 1 < maxArrayIndex)
    (hl : t.arr.length = k) :
    t.set (.num ((k : Int) + 1)) v = { t with arr := t.arr ++ [v] } := by
  unfold Table.set
  rw [arrayPos_nat k hk]
  simp only [hl, Nat.lt_irrefl, if_false, Nat.sub_self, List.replicate_zero, List.append_nil]

theorem dropWhile_nil_of_ne (l : List Value) (h : ∀ a, l.head? = some a → a ≠ .nil) :
    l.dropWhile (· = .nil) = l := by
  apply dropWhile_eq_self_of_head
  intro a ha
  simpa using h a ha

/-- `#t` when the array part holds no nil. -/
theorem Table.len_of_no_nil (t : Table) (h : ∀ v ∈ t.arr, v ≠ .nil) : t.len = t.arr.length := by
  unfold Table.len
  rw [dropWhile_nil_of_ne, List.length_reverse]
  intro a ha
  exact h a (List.mem_reverse.mp (List.mem_of_mem_head? ha))

theorem range_map_getD {α} (l : List α) (d : α) : (List.range l.length).map (fun i => l.getD i d) = l := by
  apply List.ext_getElem
  · simp
  · intro i h1 h2
    simp only [List.length_map, List.length_range] at h1
    simp [List.getD_eq_getElem?_getD, List.getElem?_eq_getElem h2]

theorem unpackValues_of_no_nil (t : Table) (h : ∀ v ∈ t.arr, v ≠ .nil) : unpackValues t = t.arr := by
  unfold unpackValues
  rw [Table.len_of_no_nil t h]
  exact range_map_getD t.arr .nil

/-! ## blocks and loops -/

theorem execBlock_cons_none {f : Nat} {st : Stmt} {rest : List Stmt} {s s' : State}
    (h : execStmt f st s = .ok none s') :
    execBlock (f + 1) (st :: rest) s = execBlock f rest s' := by
  rw [execBlock]; simp only [bind_apply, h]

theorem execBlock_cons_error {f : Nat} {st : Stmt} {rest : List Stmt} {s s' : State} {msg : String}
    (h : execStmt f st s = .error msg s') :
    execBlock (f + 1) (st :: rest) s = .error msg s' := by
  rw [execBlock]; simp only [bind_apply, h]

theorem execBlock_cons_return {f : Nat} {st : Stmt} {rest : List Stmt} {s s' : State} {vs : List Value}
    (h : execStmt f st s = .ok (some vs) s') :
    execBlock (f + 1) (st :: rest) s = .ok (some vs) s' := by
  rw [execBlock]; simp only [bind_apply, h]; rfl

/-- a block that falls off its end, followed by more statements: the rest runs with the fuel left. -/
theorem execBlock_append (b1 b2 : List Stmt) : ∀ (f : Nat) (s s' : State),
    execBlock f b1 s = .ok none s' →
    execBlock f (b1 ++ b2) s = execBlock (f - b1.length) b2 s' := by
  induction b1 with
  | nil =>
    intro f s s' h
    cases f with
    | zero => rw [execBlock] at h; cases h
    | succ f =>
      rw [execBlock] at h
      injection h with _ h2
      subst h2
      rfl
  | cons st b1 ih =>
    intro f s s' h
    cases f with
    | zero => rw [execBlock] at h; cases h
    | succ f =>
      rw [execBlock] at h
      simp only [bind_apply] at h
      rw [List.cons_append, execBlock]
      simp only [bind_apply]
      cases hst : execStmt f st s with
      | ok a s1 =>
        rw [hst] at h
        cases a with
        | none =>
          simp only at h ⊢
          rw [ih f s1 s' h]
          simp
        | some vs => simp only [pure_apply] at h; cases h
      | error e s1 => rw [hst] at h; cases h
      | unsupported w s1 => rw [hst] at h; cases h
      | outOfFuel s1 => rw [hst] at h; cases h

theorem execBlock_append' (b1 b2 : List Stmt) (p f : Nat) (s s' : State) (hl : b1.length = p)
    (h : execBlock (f + p) b1 s = .ok none s') :
    execBlock (f + p) (b1 ++ b2) s = execBlock f b2 s' := by
  rw [execBlock_append b1 b2 _ s s' h, hl, Nat.add_sub_cancel]

theorem numForLoop_done (f : Nat) (x : String) (i limit : Int) (body : List Stmt) (s : State)
    (h : limit < i) : numForLoop (f + 1) x i limit 1 body s = .ok none s := by
  rw [numForLoop]
  rw [if_neg (by omega)]
  rfl

/-- one iteration that falls through. -/
theorem numForLoop_step (f : Nat) (x : String) (i limit : Int) (body : List Stmt) (s s' : State)
    (h : i ≤ limit)
    (hb : inScope (do declare x (.num i); execBlock f body) s = .ok none s') :
    numForLoop (f + 1) x i limit 1 body s = numForLoop f x (i + 1) limit 1 body s' := by
  rw [numForLoop]
  rw [if_pos (by omega)]
  simp only [bind_apply, hb]

/-- an iteration that does not fall through (a `return`, an error, …) ends the loop with that
    result. -/
theorem numForLoop_exit (f : Nat) (x : String) (i limit : Int) (body : List Stmt) (s : State)
    (r : Res (Option (List Value))) (h : i ≤ limit)
    (hb : inScope (do declare x (.num i); execBlock f body) s = r)
    (hr : ∀ s', r ≠ .ok none s') :
    numForLoop (f + 1) x i limit 1 body s = r := by
  rw [numForLoop]
  rw [if_pos (by omega)]
  simp only [bind_apply, hb]
  cases r with
  | ok a s' =>
    cases a with
    | none => exact absurd rfl (hr s')
    | some vs => rfl
  | _ => rfl

/-! the same for any positive step -/

theorem numForLoop_done_pos (f : Nat) (x : String) (i limit step : Int) (body : List Stmt) (s : State)
    (hs : 0 < step) (h : limit < i) : numForLoop (f + 1) x i limit step body s = .ok none s := by
  rw [numForLoop]
  rw [if_neg (by omega)]
  rfl

theorem numForLoop_step_pos (f : Nat) (x : String) (i limit step : Int) (body : List Stmt) (s s' : State)
    (hs : 0 < step) (h : i ≤ limit)
    (hb : inScope (do declare x (.num i); execBlock f body) s = .ok none s') :
    numForLoop (f + 1) x i limit step body s = numForLoop f x (i + step) limit step body s' := by
  rw [numForLoop]
  rw [if_pos (by omega)]
  simp only [bind_apply, hb]

theorem numForLoop_error_pos (f : Nat) (x : String) (i limit step : Int) (body : List Stmt) (s s' : State)
    (msg : String) (hs : 0 < step) (h : i ≤ limit)
    (hb : inScope (do declare x (.num i); execBlock f body) s = .error msg s') :
    numForLoop (f + 1) x i limit step body s = .error msg s' := by
  rw [numForLoop]
  rw [if_pos (by omega)]
  simp only [bind_apply, hb]

theorem numForLoop_error (f : Nat) (x : String) (i limit : Int) (body : List Stmt) (s s' : State)
    (msg : String) (h : i ≤ limit)
    (hb : inScope (do declare x (.num i); execBlock f body) s = .error msg s') :
    numForLoop (f + 1) x i limit 1 body s = .error msg s' :=
  numForLoop_exit f x i limit body s _ h hb (fun _ h => by cases h)

theorem numForLoop_return (f : Nat) (x : String) (i limit : Int) (body : List Stmt) (s s' : State)
    (vs : List Value) (h : i ≤ limit)
    (hb : inScope (do declare x (.num i); execBlock f body) s = .ok (some vs) s') :
    numForLoop (f + 1) x i limit 1 body s = .ok (some vs) s' :=
  numForLoop_exit f x i limit body s _ h hb (fun _ h => by cases h)

/-- THE LOOP LEMMA.  A numeric `for x = k+1, n` whose body, run in state `S j` with `x = j+1` and
    any fuel `≥ c`, falls through into state `S (j+1)`, runs from `S k` to `S n` — with fuel
    `c + (n - k) + 1`. -/
theorem numForLoop_run (x : String) (body : List Stmt) (c : Nat) (S : Nat → State) (n : Nat) :
    ∀ (d k : Nat), k + d = n →
    (∀ j, k ≤ j → j < n → ∀ f,
      inScope (do declare x (.num ((j : Int) + 1)); execBlock (f + c) body) (S j) = .ok none (S (j + 1))) →
    ∀ f, numForLoop (f + c + d + 1) x ((k : Int) + 1) (n : Int) 1 body (S k) = .ok none (S n) := by
  intro d
  induction d with
  | zero =>
    intro k hk _ f
    have : k = n := by omega
    subst this
    exact numForLoop_done _ _ _ _ _ _ (by omega)
  | succ d ih =>
    intro k hk hbody f
    have e : f + c + (d + 1) + 1 = (f + c + d + 1) + 1 := by omega
    rw [e, numForLoop_step (s' := S (k + 1)) (h := by omega)]
    · have e2 : ((k : Int) + 1 + 1) = ((k + 1 : Nat) : Int) + 1 := by omega
      rw [e2]
      exact ih (k + 1) (by omega) (fun j hj hjn f => hbody j (by omega) hjn f) f
    · have e3 : f + c + d + 1 = (f + d + 1) + c := by omega
      rw [e3]
      exact hbody k (Nat.le_refl _) (by omega) _

/-- the loop lemma with an exit: iterations `k+1 … e` fall through, iteration `e+1 ≤ n` ends
    the loop with `r` (a `return`, an error). -/
theorem numForLoop_run_exit (x : String) (body : List Stmt) (c : Nat) (S : Nat → State) (n e : Nat)
    (r : Res (Option (List Value))) (hr : ∀ s', r ≠ .ok none s') (he : e < n)
    (hexit : ∀ f, inScope (do declare x (.num ((e : Int) + 1)); execBlock (f + c) body) (S e) = r) :
    ∀ (d k : Nat), k + d = e →
    (∀ j, k ≤ j → j < e → ∀ f,
      inScope (do declare x (.num ((j : Int) + 1)); execBlock (f + c) body) (S j) = .ok none (S (j + 1))) →
    ∀ f, numForLoop (f + c + d + 1) x ((k : Int) + 1) (n : Int) 1 body (S k) = r := by
  intro d
  induction d with
  | zero =>
    intro k hk _ f
    have : k = e := by omega
    subst this
    have e3 : f + c + 0 = f + c := rfl
    rw [e3]
    exact numForLoop_exit _ _ _ _ _ _ r (by omega) (hexit f) hr
  | succ d ih =>
    intro k hk hbody f
    have e1 : f + c + (d + 1) + 1 = (f + c + d + 1) + 1 := by omega
    rw [e1, numForLoop_step (s' := S (k + 1)) (h := by omega)]
    · have e2 : ((k : Int) + 1 + 1) = ((k + 1 : Nat) : Int) + 1 := by omega
      rw [e2]
      exact ih (k + 1) (by omega) (fun j hj hjn f => hbody j (by omega) hjn f) f
    · have e3 : f + c + d + 1 = (f + d + 1) + c := by omega
      rw [e3]
      exact hbody k (Nat.le_refl _) (by omega) _

/-! ## from the block's result to `run` -/

/-- what `run` reports for the result of the script's block. -/
def finish (r : Res (Option (List Value))) : Store × Outcome :=
  match r with
  | .ok none s => (s.store, .reply .nil)
  | .ok (some vs) s =>
    (match toReply s.heap 64 (vs.headD .nil) with
     | .ok r => (s.store, .reply r)
     | .error why => (s.store, .unsupported why))
  | .error msg s => (s.store, .error msg)
  | .unsupported why s => (s.store, .unsupported why)
  | .outOfFuel s => (s.store, .outOfFuel)

theorem run_eq_finish (fuel : Nat) (script : Block) (keys args : List String) (st : Store) :
    run fuel script keys args st = finish (execBlock fuel script (initState keys args st)) := by
  unfold run runLog finish
  cases execBlock fuel script (initState keys args st) with
  | ok a s =>
    cases a with
    | none => rfl
    | some vs => simp only; cases toReply s.heap 64 (vs.headD .nil) <;> rfl
  | _ => rfl

theorem finish_true (s : State) : finish (.ok (some [.bool true]) s) = (s.store, .reply (.int 1)) := rfl
theorem finish_false (s : State) : finish (.ok (some [.bool false]) s) = (s.store, .reply .nil) := rfl
theorem finish_error (msg : String) (s : State) : finish (.error msg s) = (s.store, .error msg) := rfl

/-- the body of a `for` statement. -/
def forBody : Stmt → List Stmt
  | .numFor _ _ _ _ b => b
  | _ => []

/-- a script cut at statement `p`. -/
theorem block_split (b : Block) (p : Nat) (d : Stmt) (h : p < b.length) :
    b = b.take p ++ b.getD p d :: b.drop (p + 1) := by
  rw [List.getD_eq_getElem?_getD, List.getElem?_eq_getElem h, Option.getD_some]
  simp

/-! ## symbolic execution -/

/-- unfold the interpreter on a concrete piece of script and a state with concrete shape. -/
syntax "lua_simp_hll" (" [" Lean.Parser.Tactic.simpLemma,* "]")? : tactic
macro_rules
  | `(tactic| lua_simp_hll) => `(tactic| lua_simp_hll [])
  | `(tactic| lua_simp_hll [$ls,*]) => `(tactic|
      simp [execBlock, execStmt, evalList, evalMulti, evalExpr, bind_apply, pure_apply, readVar, envGet,
        indexValue, getTable, keysId, argvId, declareAll, declare, M.modify, assignVar, envSet, inScope,
        setIndex, putTable, allocTable, isLocal, initState,
        callFn_tonumber, callFn_redis_call, callFn_redis_pcall, callFn_unpack,
        redisCall_key, cmdArgs, strOrNum, renderInt_natCast, renderInt_zero, renderInt_neg_one, replyToLua, cmdResult_ok, cmdResult_error_call,
        cmdResult_error_pcall, Table.get_one, Table.get_two, binop, Lua.compare, Lua.unop, Value.truthy, M.error, M.unsupported, $ls,*])

end Gostatix.LuaHLL
