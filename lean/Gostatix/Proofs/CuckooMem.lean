/-
  Gostatix.Proofs.CuckooMem — the in-memory cuckoo filter (`BucketMem.ops emp`): concrete
  well-formedness predicate and counting functions used to state the property theorems, and
  their identification with the generic (`LawfulBucket`) notions.
-/
import Gostatix.Proofs.CuckooHistory
set_option linter.unusedSectionVars false
namespace Gostatix

/-- default bucket for concrete examples over `Nat` fingerprints (never read on valid positions) -/
instance instInhabitedBucketMemNat : Inhabited (BucketMem Nat) := ⟨⟨0, [], 0⟩⟩

namespace Cuckoo.Mem

section
variable {F : Type} [DecidableEq F] [Inhabited (BucketMem F)]

/-- number of slots of bucket `j` holding `f` -/
def cnt (c : Cuckoo (BucketMem F)) (j : Nat) (f : F) : Nat := (bucketAt c.buckets j).elements.count f

/-- orbit count: copies of `f` stored in the candidate pair `{j, alt j f}` -/
def kc (alt : Nat → F → Nat) (c : Cuckoo (BucketMem F)) (j : Nat) (f : F) : Nat :=
  if alt j f = j then cnt c j f else cnt c j f + cnt c (alt j f) f

/-- all slots of the table, bucket after bucket -/
def allSlots (c : Cuckoo (BucketMem F)) : List F := (c.buckets.map (·.elements)).flatten

/-- number of occupied (non-`emp`) slots of the table -/
def stored (emp : F) (c : Cuckoo (BucketMem F)) : Nat := occ emp (allSlots c)

/-- well-formed in-memory filter -/
structure WF (emp : F) (c : Cuckoo (BucketMem F)) : Prop where
  nbuckets : c.buckets.length = c.n
  bucket : ∀ b ∈ c.buckets, b.size = c.bsize ∧ b.elements.length = c.bsize ∧ b.length = occ emp b.elements
  length : c.length = stored emp c

/-- the filter `NewCuckooFilter` builds: `n` buckets of `bsize` empty slots -/
def empty (emp : F) (n bsize fpl retries : Nat) : Cuckoo (BucketMem F) :=
  ⟨n, bsize, fpl, retries, List.replicate n (BucketMem.new emp bsize), 0⟩

/-! ### bridge to the generic development -/

theorem tocc_eq (emp : F) (bs : List (BucketMem F)) :
    tocc (BucketMem.lawful emp) bs = occ emp (bs.map (·.elements)).flatten := by
  unfold tocc
  induction bs with
  | nil => rfl
  | cons b bs ih =>
    rw [tot_cons, List.map_cons, List.flatten_cons, occ_append, ih]; rfl

theorem tcnt_eq (emp : F) (bs : List (BucketMem F)) (g : F) :
    tcnt (BucketMem.lawful emp) bs g = ((bs.map (·.elements)).flatten).count g := by
  unfold tcnt
  induction bs with
  | nil => rfl
  | cons b bs ih =>
    rw [tot_cons, List.map_cons, List.flatten_cons, List.count_append, ih]; rfl

theorem wf_iff (emp : F) (c : Cuckoo (BucketMem F)) :
    WF emp c ↔ Cuckoo.WF (BucketMem.lawful emp) c := by
  constructor
  · intro h
    exact ⟨⟨h.nbuckets, h.bucket⟩, by rw [h.length, tocc_eq]; rfl⟩
  · intro h
    exact ⟨h.bs.len, h.bs.wfb, by rw [h.len, tocc_eq]; rfl⟩

theorem kc_eq (emp : F) (alt : Nat → F → Nat) (c : Cuckoo (BucketMem F)) (j : Nat) (f : F) :
    kc alt c j f = Cuckoo.kc (BucketMem.lawful emp) alt c j f := rfl

theorem cnt_eq (emp : F) (c : Cuckoo (BucketMem F)) (j : Nat) (f : F) :
    cnt c j f = cntB (BucketMem.lawful emp) c.buckets j f := rfl

theorem stored_eq (emp : F) (c : Cuckoo (BucketMem F)) :
    stored emp c = tocc (BucketMem.lawful emp) c.buckets := (tocc_eq emp c.buckets).symm

theorem count_allSlots_eq (emp : F) (c : Cuckoo (BucketMem F)) (g : F) :
    (allSlots c).count g = tcnt (BucketMem.lawful emp) c.buckets g := (tcnt_eq emp c.buckets g).symm

/-! ### the empty filter -/

theorem empty_wf (emp : F) (n bsize fpl retries : Nat) : WF emp (empty emp n bsize fpl retries) := by
  refine ⟨by simp [empty], ?_, ?_⟩
  · intro b hb
    simp only [empty, List.mem_replicate] at hb
    rw [hb.2]
    simp [BucketMem.new, empty, occ_replicate_emp]
  · rw [stored_eq, tocc]
    simp only [empty]
    rw [tot_replicate]
    show 0 = n * occ emp (List.replicate bsize emp)
    rw [occ_replicate_emp]; simp

theorem bucketAt_replicate (n : Nat) (b : BucketMem F) (j : Nat) (hj : j < n) :
    bucketAt (List.replicate n b) j = b := by
  simp [bucketAt, List.getD_eq_getElem?_getD, hj]

theorem empty_cnt (emp : F) (n bsize fpl retries : Nat) (j : Nat) (g : F) (hj : j < n) (hg : g ≠ emp) :
    cnt (empty emp n bsize fpl retries) j g = 0 := by
  unfold cnt empty
  rw [bucketAt_replicate n _ j hj]
  simp only [BucketMem.new]
  rw [List.count_replicate]
  have : ¬ emp = g := fun e => hg e.symm
  simp [this]

theorem empty_kc (emp : F) (alt : Nat → F → Nat) (n bsize fpl retries : Nat) (j : Nat) (g : F)
    (hj : j < n) (hj' : alt j g < n) (hg : g ≠ emp) :
    kc alt (empty emp n bsize fpl retries) j g = 0 := by
  unfold kc
  rw [empty_cnt emp n bsize fpl retries j g hj hg, empty_cnt emp n bsize fpl retries _ g hj' hg]
  simp

/-- a bucket whose slots are all empty is the new bucket -/
theorem bucket_eq_new (emp : F) (s : Nat) (b : BucketMem F) (h : BucketMem.WFB emp s b)
    (h0 : occ emp b.elements = 0) : b = BucketMem.new emp s := by
  obtain ⟨h1, h2, h3⟩ := h
  have hall := (occ_eq_zero_iff emp b.elements).mp h0
  have he : b.elements = List.replicate s emp := by
    rw [← h2]; exact List.eq_replicate_iff.mpr ⟨rfl, hall⟩
  cases b
  simp only [BucketMem.new] at *
  subst h1; subst he; rw [h3, h0]

/-- a well-formed filter with no occupied slot has the buckets of a new filter -/
theorem buckets_eq_empty (emp : F) (c : Cuckoo (BucketMem F)) (h : WF emp c) (h0 : c.length = 0) :
    c.buckets = List.replicate c.n (BucketMem.new emp c.bsize) := by
  have ht : tocc (BucketMem.lawful emp) c.buckets = 0 := by rw [← stored_eq, ← h.length, h0]
  unfold tocc at ht
  rw [tot_eq_zero_iff] at ht
  rw [← h.nbuckets]
  exact List.eq_replicate_iff.mpr ⟨rfl, fun b hb => bucket_eq_new emp c.bsize b (h.bucket b hb) (ht b hb)⟩

end
end Cuckoo.Mem
end Gostatix
