/-
  Gostatix.Proofs.C16Cond — helpers for Props/C16Cond.lean (conditions under which C16 holds for
  the Redis cuckoo filter and the Redis Top-K).

  * generic: steps of DIFFERENT threads commute ⇒ every interleaving = running the threads one
    after another (`exec_interleaving_of_indep`; unlike `exec_interleaving_of_commute` nothing is
    asked of two steps of the same thread — their order is fixed by the program);
  * `C16CuckooN`: the command-granularity model of `CuckooFilterRedis.Insert` of Props/C16.lean
    (`C16Cuckoo`) for ANY number of clients (client = natural number, locals = a function):
      - `toTwo_step`, `toTwo_exec`: it contains the two-client model;
      - `step_eq` (what a command reads and writes), `step_comm`, `progs_indep`: commands of
        different clients that address different buckets commute in every state;
      - `insertProg_alone`, `seq_run`: one client alone / the clients one after another compute what
        the sequential model `Cuckoo.insert` computes (`modelRun`);
      - `Inv`, `inv_step`, `inv_interleaving`: an invariant of EVERY interleaving when every targeted
        bucket has room for all the clients that target it (`RoomForAll`), by induction on the
        interleaving with program counters `pc` (`rem`, `bump`); `roomForAll_of_disjoint`;
  * `C16TopKR`: the Top-K writer of Props/C16.lean (`C16TopK`, client `false`) plus readers
    (`rstep`, `exec_rstep`), the sorted set after every prefix of one insert (`zAfter`,
    `exec_take`), what a reader can observe (`observable`, `prefix_observable`,
    `observable_length`);
  * `C16TopK2`: two writers refreshing two different tracked members — canonical sorted sets are
    determined by their members (`zsorted_ext`), the invariant (`Inv`: the set is canonical, its
    members are the untouched entries plus each writer's member in status old / gone / new, no
    ZPOPMIN can fire), `inv_step`, `inv_interleaving`, `two_refreshers`.
  Core Lean only.
-/
import Gostatix.Proofs.Conc
import Gostatix.Proofs.ConcMerge
import Gostatix.Props.C16
import Gostatix.Proofs.CuckooFilter
import Gostatix.Proofs.RedisZSet
namespace Gostatix
open Conc

universe u v

/-! ### generic: independent threads -/
namespace Conc

/-- a step that commutes with every step of `x` can be moved in front of `x` -/
theorem exec_comm_list {σ : Type u} {α : Type v} (f : σ → α → σ) (a : α) (x : List α)
    (hc : ∀ b ∈ x, ∀ s, f (f s b) a = f (f s a) b) (s : σ) :
    f (exec f s x) a = exec f (f s a) x := by
  induction x generalizing s with
  | nil => rfl
  | cons b x ih =>
    show f (exec f (f s b) x) a = exec f (f (f s a) b) x
    rw [ih (fun c hc' => hc c (List.mem_cons_of_mem _ hc')), hc b List.mem_cons_self]

/-- taking the first step `a` of thread `i` first, when it commutes with every step of the
    threads before `i` -/
theorem exec_flatten_pick {σ : Type u} {α : Type v} (f : σ → α → σ) :
    ∀ (ts : List (List α)) (i : Nat) (a : α) (t : List α), ts[i]? = some (a :: t) →
      (∀ j : Nat, j < i → ∀ b ∈ (ts[j]?).getD [], ∀ s, f (f s b) a = f (f s a) b) →
      ∀ s, exec f s ts.flatten = exec f (f s a) (ts.set i t).flatten := by
  intro ts
  induction ts with
  | nil => intro i a t h; simp at h
  | cons x xs ih =>
    intro i a t hg hc s
    cases i with
    | zero =>
      simp only [List.getElem?_cons_zero, Option.some.injEq] at hg
      subst hg
      rfl
    | succ i =>
      simp only [List.getElem?_cons_succ] at hg
      simp only [List.flatten_cons, List.set_cons_succ, exec, List.foldl_append]
      have h0 : ∀ b ∈ x, ∀ s, f (f s b) a = f (f s a) b := by
        intro b hb; exact hc 0 (Nat.succ_pos _) b (by simpa using hb)
      have := ih i a t hg (fun j hj b hb => hc (j + 1) (Nat.succ_lt_succ hj) b (by simpa using hb))
        (exec f s x)
      simp only [exec] at this
      rw [this]
      have h1 := exec_comm_list f a x h0 s
      simp only [exec] at h1
      rw [h1]

/-- **independent threads**: if every step of thread `i` commutes with every step of every other
    thread `j` (in every state), then every interleaving ends in the state of running the threads
    one after another.  Nothing is required of two steps of the same thread. -/
theorem exec_interleaving_of_indep {σ : Type u} {α : Type v} (f : σ → α → σ)
    {ts : List (List α)} {w : List α} (hi : Interleaving ts w)
    (hc : ∀ i j : Nat, i ≠ j → ∀ a ∈ (ts[i]?).getD [], ∀ b ∈ (ts[j]?).getD [], ∀ s,
      f (f s a) b = f (f s b) a) (s : σ) :
    exec f s w = exec f s ts.flatten := by
  induction hi generalizing s with
  | done ts he =>
    have : ts.flatten = [] := by simpa [List.flatten_eq_nil_iff] using he
    rw [this]
  | step ts i a t w hg _ ih =>
    have hlt : i < ts.length := by
      rcases Nat.lt_or_ge i ts.length with h | h
      · exact h
      · rw [List.getElem?_eq_none h] at hg; cases hg
    have hmem : ∀ j : Nat, ∀ b ∈ ((ts.set i t)[j]?).getD [], b ∈ (ts[j]?).getD [] := by
      intro j b hb
      by_cases e : i = j
      · subst e
        simp only [List.getElem?_set_self hlt, Option.getD_some] at hb
        rw [hg]; exact List.mem_cons_of_mem _ hb
      · rw [List.getElem?_set_ne e] at hb; exact hb
    have ih' := ih (fun i' j' hne a' ha' b' hb' s' =>
      hc i' j' hne a' (hmem i' a' ha') b' (hmem j' b' hb') s') (f s a)
    show exec f (f s a) w = _
    rw [ih']
    symm
    apply exec_flatten_pick f ts i a t hg
    intro j hj b hb s'
    exact hc j i (Nat.ne_of_lt hj) b hb a (by rw [hg]; exact List.mem_cons_self) s'

end Conc

/-! ### `modAt` at two different positions -/

theorem modAt_comm_ne {α : Type} (l : List α) (i j : Nat) (f g : α → α) (h : i ≠ j) :
    modAt (modAt l i f) j g = modAt (modAt l j g) i f := by
  induction l generalizing i j with
  | nil => rfl
  | cons a as ih =>
    cases i with
    | zero =>
      cases j with
      | zero => exact absurd rfl h
      | succ j => simp [modAt]
    | succ i =>
      cases j with
      | zero => simp [modAt]
      | succ j => simp only [modAt]; rw [ih i j (by omega)]

/-! ## the cuckoo `Insert` command model for any number of clients -/
namespace C16CuckooN
open C16Cuckoo (Fp Local)

/-- the Redis store (bucket lists, their `_len` counters, the metadata `length`) and every
    client's Go locals -/
structure St where
  buckets : List (BucketRedis Fp)
  length : Nat
  loc : Nat → Local := fun _ => {}

def St.setLoc (s : St) (c : Nat) (l : Local) : St :=
  { s with loc := fun d => if d = c then l else s.loc d }
def St.bucket (s : St) (i : Nat) : BucketRedis Fp := s.buckets.getD i ⟨0, [], 0⟩

/-- one Redis round trip of client `c` (the commands of `C16Cuckoo.Cmd`) -/
inductive Cmd where
  | isFree1 (c : Nat) (i1 : Nat)
  | add1 (c : Nat) (i1 : Nat) (fp : Fp)
  | isFree2 (c : Nat) (i2 : Nat)
  | add2 (c : Nat) (i2 : Nat) (fp : Fp)
  | finish (c : Nat)
  deriving Repr, DecidableEq

/-- the same transitions as `C16Cuckoo.step` -/
def step (s : St) : Cmd → St
  | .isFree1 c i => s.setLoc c { s.loc c with free1 := some (s.bucket i).isFree }
  | .add1 c i fp =>
    if (s.loc c).free1 = some true then
      { s with buckets := modAt s.buckets i (fun b => BucketRedis.add 0 b fp) }
    else s
  | .isFree2 c i =>
    if (s.loc c).free1 = some false then s.setLoc c { s.loc c with free2 := some (s.bucket i).isFree }
    else s
  | .add2 c i fp =>
    if (s.loc c).free1 = some false ∧ (s.loc c).free2 = some true then
      { s with buckets := modAt s.buckets i (fun b => BucketRedis.add 0 b fp) }
    else s
  | .finish c =>
    if (s.loc c).free1 = some true ∨ (s.loc c).free2 = some true then
      ({ s with length := s.length + 1 }).setLoc c { s.loc c with acked := true }
    else s.setLoc c { s.loc c with evicting := true }

/-- a request: fingerprint and the two candidate buckets -/
abbrev Req := Fp × Nat × Nat

def insertProg (c : Nat) (r : Req) : List Cmd :=
  [.isFree1 c r.2.1, .add1 c r.2.1 r.1, .isFree2 c r.2.2, .add2 c r.2.2 r.1, .finish c]

/-- client `c + j` runs the `j`-th request -/
def progsFrom (c : Nat) : List Req → List (List Cmd)
  | [] => []
  | r :: rs => insertProg c r :: progsFrom (c + 1) rs

/-- client `j` runs `reqs[j]` -/
def progs (reqs : List Req) : List (List Cmd) := progsFrom 0 reqs

def found (s : St) (r : Req) : Bool := (s.bucket r.2.1).lookup r.1 || (s.bucket r.2.2).lookup r.1

/-- number of fingerprints actually stored -/
def stored (s : St) : Nat := sumL (s.buckets.map (fun b => (b.list.filter (· != 0)).length))

def Cmd.client : Cmd → Nat
  | .isFree1 c _ => c | .add1 c _ _ => c | .isFree2 c _ => c | .add2 c _ _ => c | .finish c => c

/-- the bucket a command addresses -/
def Cmd.bkt : Cmd → Option Nat
  | .isFree1 _ i => some i | .add1 _ i _ => some i | .isFree2 _ i => some i | .add2 _ i _ => some i
  | .finish _ => none

/-! ### the two-client model of Props/C16.lean is the restriction to clients 0 and 1 -/

def ofBool (c : Bool) : Nat := if c then 1 else 0

def ofCmd : C16Cuckoo.Cmd → Cmd
  | .isFree1 c i => .isFree1 (ofBool c) i
  | .add1 c i fp => .add1 (ofBool c) i fp
  | .isFree2 c i => .isFree2 (ofBool c) i
  | .add2 c i fp => .add2 (ofBool c) i fp
  | .finish c => .finish (ofBool c)

/-- what the two-client state sees of an N-client state -/
def toTwo (s : St) : C16Cuckoo.St := ⟨s.buckets, s.length, s.loc 0, s.loc 1⟩

theorem toTwo_loc (s : St) (c : Bool) : (toTwo s).loc c = s.loc (ofBool c) := by
  cases c <;> rfl

theorem toTwo_setLoc (s : St) (c : Bool) (l : Local) :
    toTwo (s.setLoc (ofBool c) l) = (toTwo s).setLoc c l := by
  cases c <;> rfl

theorem toTwo_bucket (s : St) (i : Nat) : (toTwo s).bucket i = s.bucket i := rfl

/-- **simulation**: a step of a client `false`/`true` of the two-client model is the step of
    client 0/1 of the N-client model -/
theorem toTwo_step (s : St) (a : C16Cuckoo.Cmd) :
    toTwo (step s (ofCmd a)) = C16Cuckoo.step (toTwo s) a := by
  cases a with
  | isFree1 c i =>
    simp only [ofCmd, step, C16Cuckoo.step, toTwo_setLoc, toTwo_loc, toTwo_bucket]
  | add1 c i fp =>
    simp only [ofCmd, step, C16Cuckoo.step, toTwo_loc]
    split <;> rfl
  | isFree2 c i =>
    simp only [ofCmd, step, C16Cuckoo.step, toTwo_loc]
    split
    · simp only [toTwo_setLoc, toTwo_bucket]
    · rfl
  | add2 c i fp =>
    simp only [ofCmd, step, C16Cuckoo.step, toTwo_loc]
    split <;> rfl
  | finish c =>
    simp only [ofCmd, step, C16Cuckoo.step, toTwo_loc]
    split
    · rw [toTwo_setLoc]; rfl
    · rw [toTwo_setLoc]

theorem toTwo_exec (s : St) (w : List C16Cuckoo.Cmd) :
    toTwo (exec step s (w.map ofCmd)) = exec C16Cuckoo.step (toTwo s) w := by
  induction w generalizing s with
  | nil => rfl
  | cons a w ih =>
    show toTwo (exec step (step s (ofCmd a)) (w.map ofCmd)) = exec C16Cuckoo.step (C16Cuckoo.step (toTwo s) a) w
    rw [ih, toTwo_step]

/-! ### commands of different clients on different buckets commute -/

theorem St.ext' {s t : St} (h1 : s.buckets = t.buckets) (h2 : s.length = t.length)
    (h3 : ∀ c, s.loc c = t.loc c) : s = t := by
  cases s; cases t
  simp only at h1 h2 h3
  subst h1; subst h2
  have : ‹Nat → Local› = ‹Nat → Local› := rfl
  congr
  funext c; exact h3 c

theorem bucket_modAt_ne (s : St) (i j : Nat) (f : BucketRedis Fp → BucketRedis Fp) (h : j ≠ i) :
    ({ s with buckets := modAt s.buckets i f } : St).bucket j = s.bucket j :=
  modAt_getD_ne s.buckets i j f _ h


/-! #### a normal form of `step`: what a command reads and what it writes -/

/-- the client's locals after the command, from its locals before and the bucket it addresses -/
def newLoc (l : Local) (bk : BucketRedis Fp) : Cmd → Local
  | .isFree1 _ _ => { l with free1 := some bk.isFree }
  | .add1 _ _ _ => l
  | .isFree2 _ _ => if l.free1 = some false then { l with free2 := some bk.isFree } else l
  | .add2 _ _ _ => l
  | .finish _ =>
    if l.free1 = some true ∨ l.free2 = some true then { l with acked := true }
    else { l with evicting := true }

/-- the `add` script the command runs, if any -/
def doesAdd (l : Local) : Cmd → Option (Nat × Fp)
  | .add1 _ i fp => if l.free1 = some true then some (i, fp) else none
  | .add2 _ i fp => if l.free1 = some false ∧ l.free2 = some true then some (i, fp) else none
  | _ => none

/-- the increment of the metadata `length` -/
def incr (l : Local) : Cmd → Nat
  | .finish _ => if l.free1 = some true ∨ l.free2 = some true then 1 else 0
  | _ => 0

def applyAdd (bs : List (BucketRedis Fp)) : Option (Nat × Fp) → List (BucketRedis Fp)
  | some (i, fp) => modAt bs i (fun b => BucketRedis.add 0 b fp)
  | none => bs

theorem ite_loc_self (s : St) (c : Nat) : ∀ d, s.loc d = if d = c then s.loc c else s.loc d := by
  intro d
  split
  · rename_i h; rw [h]
  · rfl

theorem step_eq (s : St) (a : Cmd) :
    step s a =
      { buckets := applyAdd s.buckets (doesAdd (s.loc a.client) a),
        length := s.length + incr (s.loc a.client) a,
        loc := fun d => if d = a.client then
          newLoc (s.loc a.client) (s.bucket (a.bkt.getD 0)) a else s.loc d } := by
  cases a with
  | isFree1 c i => rfl
  | add1 c i fp =>
    by_cases h : (s.loc c).free1 = some true <;> apply St.ext' <;>
      (try simp [step, Cmd.client, doesAdd, incr, newLoc, applyAdd, h]) <;>
      (try exact ite_loc_self s c)
  | isFree2 c i =>
    by_cases h : (s.loc c).free1 = some false <;> apply St.ext' <;>
      (try simp [step, Cmd.client, Cmd.bkt, doesAdd, incr, newLoc, applyAdd, h, St.setLoc]) <;>
      (try exact ite_loc_self s c)
  | add2 c i fp =>
    by_cases h : (s.loc c).free1 = some false ∧ (s.loc c).free2 = some true <;> apply St.ext' <;>
      (try simp [step, Cmd.client, doesAdd, incr, newLoc, applyAdd, h]) <;>
      (try exact ite_loc_self s c)
  | finish c =>
    by_cases h : (s.loc c).free1 = some true ∨ (s.loc c).free2 = some true <;> apply St.ext' <;>
      simp [step, Cmd.client, doesAdd, incr, newLoc, applyAdd, h, St.setLoc]

/-- `doesAdd` only ever names the bucket the command addresses -/
theorem doesAdd_bkt (l : Local) (a : Cmd) (i : Nat) (fp : Fp) (h : doesAdd l a = some (i, fp)) :
    a.bkt = some i := by
  cases a <;> simp only [doesAdd] at h
  · cases h
  · split at h
    · cases h; rfl
    · cases h
  · cases h
  · split at h
    · cases h; rfl
    · cases h
  · cases h

theorem bucket_applyAdd_ne (bs : List (BucketRedis Fp)) (o : Option (Nat × Fp)) (j : Nat)
    (h : ∀ i fp, o = some (i, fp) → j ≠ i) :
    (applyAdd bs o).getD j ⟨0, [], 0⟩ = bs.getD j ⟨0, [], 0⟩ := by
  cases o with
  | none => rfl
  | some p =>
    obtain ⟨i, fp⟩ := p
    exact modAt_getD_ne bs i j _ _ (h i fp rfl)

theorem applyAdd_comm (bs : List (BucketRedis Fp)) (o o' : Option (Nat × Fp))
    (h : ∀ i fp i' fp', o = some (i, fp) → o' = some (i', fp') → i ≠ i') :
    applyAdd (applyAdd bs o) o' = applyAdd (applyAdd bs o') o := by
  cases o with
  | none => rfl
  | some p =>
    cases o' with
    | none => rfl
    | some p' =>
      obtain ⟨i, fp⟩ := p
      obtain ⟨i', fp'⟩ := p'
      exact modAt_comm_ne bs i i' _ _ (h i fp i' fp' rfl rfl)

/-- **commands of different clients that address different buckets commute**, in every state -/
theorem step_comm (s : St) (a b : Cmd) (hc : a.client ≠ b.client)
    (hb : ∀ i j, a.bkt = some i → b.bkt = some j → i ≠ j) :
    step (step s a) b = step (step s b) a := by
  have hc' : b.client ≠ a.client := fun e => hc e.symm
  -- what `b` reads after `a` is what it reads before `a`, and vice versa
  have rb : (step s a).loc b.client = s.loc b.client := by rw [step_eq s a]; simp [hc']
  have ra : (step s b).loc a.client = s.loc a.client := by rw [step_eq s b]; simp [hc]
  have kb : (step s a).bucket (b.bkt.getD 0) = s.bucket (b.bkt.getD 0) ∨ b.bkt = none := by
    cases hbk : b.bkt with
    | none => right; rfl
    | some j =>
      left
      rw [step_eq s a]
      apply bucket_applyAdd_ne
      intro i fp hi
      exact fun e => hb i j (doesAdd_bkt _ _ _ _ hi) hbk (by simpa using e.symm)
  have ka : (step s b).bucket (a.bkt.getD 0) = s.bucket (a.bkt.getD 0) ∨ a.bkt = none := by
    cases hak : a.bkt with
    | none => right; rfl
    | some i =>
      left
      rw [step_eq s b]
      apply bucket_applyAdd_ne
      intro j fp hj
      exact fun e => hb i j hak (doesAdd_bkt _ _ _ _ hj) (by simpa using e)
  -- `newLoc` does not look at the bucket when the command addresses none
  have nb : newLoc (s.loc b.client) ((step s a).bucket (b.bkt.getD 0)) b
      = newLoc (s.loc b.client) (s.bucket (b.bkt.getD 0)) b := by
    rcases kb with h | h
    · rw [h]
    · cases b <;> simp only [Cmd.bkt] at h <;> first | rfl | cases h
  have na : newLoc (s.loc a.client) ((step s b).bucket (a.bkt.getD 0)) a
      = newLoc (s.loc a.client) (s.bucket (a.bkt.getD 0)) a := by
    rcases ka with h | h
    · rw [h]
    · cases a <;> simp only [Cmd.bkt] at h <;> first | rfl | cases h
  rw [step_eq (step s a) b, step_eq (step s b) a, rb, ra, nb, na]
  apply St.ext'
  · rw [step_eq s a, step_eq s b]
    simp only
    apply applyAdd_comm
    intro i fp j fp' hi hj
    exact hb i j (doesAdd_bkt _ _ _ _ hi) (doesAdd_bkt _ _ _ _ hj)
  · rw [step_eq s a, step_eq s b]; simp only; omega
  · intro d
    rw [step_eq s a, step_eq s b]
    simp only
    by_cases e1 : d = b.client
    · subst e1; simp [hc']
    · by_cases e2 : d = a.client
      · subst e2; simp [e1]
      · simp [e1, e2]

/-! #### programs -/

theorem mem_insertProg (c : Nat) (r : Req) (a : Cmd) (h : a ∈ insertProg c r) :
    a.client = c ∧ ∀ i, a.bkt = some i → i = r.2.1 ∨ i = r.2.2 := by
  simp only [insertProg, List.mem_cons, List.not_mem_nil, or_false] at h
  rcases h with rfl | rfl | rfl | rfl | rfl <;> refine ⟨rfl, ?_⟩ <;> intro i hi <;>
    simp only [Cmd.bkt, Option.some.injEq] at hi <;> first | exact Or.inl hi.symm | exact Or.inr hi.symm | cases hi

theorem progsFrom_getElem? (c : Nat) (reqs : List Req) (j : Nat) :
    (progsFrom c reqs)[j]? = (reqs[j]?).map (fun r => insertProg (c + j) r) := by
  induction reqs generalizing c j with
  | nil => simp [progsFrom]
  | cons r rs ih =>
    cases j with
    | zero => simp [progsFrom]
    | succ j =>
      simp only [progsFrom, List.getElem?_cons_succ, ih]
      have : c + 1 + j = c + (j + 1) := by omega
      rw [this]

theorem progsFrom_length (c : Nat) (reqs : List Req) : (progsFrom c reqs).length = reqs.length := by
  induction reqs generalizing c with
  | nil => rfl
  | cons r rs ih => simp [progsFrom, ih]

/-- the candidate buckets of different clients are different -/
def Disjoint (reqs : List Req) : Prop :=
  ∀ (i j : Nat) (r r' : Req), i ≠ j → reqs[i]? = some r → reqs[j]? = some r' →
    r.2.1 ≠ r'.2.1 ∧ r.2.1 ≠ r'.2.2 ∧ r.2.2 ≠ r'.2.1 ∧ r.2.2 ≠ r'.2.2

/-- under `Disjoint` the commands of different clients commute -/
theorem progs_indep (reqs : List Req) (hd : Disjoint reqs) :
    ∀ i j : Nat, i ≠ j → ∀ a ∈ ((progs reqs)[i]?).getD [], ∀ b ∈ ((progs reqs)[j]?).getD [], ∀ s,
      step (step s a) b = step (step s b) a := by
  intro i j hne a ha b hb s
  unfold progs at ha hb
  rw [progsFrom_getElem?] at ha hb
  cases hi : reqs[i]? with
  | none => simp [hi] at ha
  | some r =>
    cases hj : reqs[j]? with
    | none => simp [hj] at hb
    | some r' =>
      simp only [hi, hj, Option.map_some, Option.getD_some, Nat.zero_add] at ha hb
      obtain ⟨ca, ba⟩ := mem_insertProg i r a ha
      obtain ⟨cb, bb⟩ := mem_insertProg j r' b hb
      obtain ⟨d1, d2, d3, d4⟩ := hd i j r r' hne hi hj
      apply step_comm s a b (by rw [ca, cb]; exact hne)
      intro x y hx hy
      rcases ba x hx with rfl | rfl <;> rcases bb y hy with rfl | rfl <;> assumption


/-! #### one client alone, and the clients one after another -/

/-- the bucket a sequential `Insert` without eviction adds to -/
def tgt (s : St) (r : Req) : Nat := if (s.bucket r.2.1).isFree then r.2.1 else r.2.2

/-- the locals of a client whose `Insert` returned true without eviction -/
def doneLoc (s : St) (r : Req) : Local :=
  if (s.bucket r.2.1).isFree then { free1 := some true, acked := true }
  else { free1 := some false, free2 := some true, acked := true }

theorem doneLoc_acked (s : St) (r : Req) : (doneLoc s r).acked = true ∧ (doneLoc s r).evicting = false := by
  unfold doneLoc; split <;> exact ⟨rfl, rfl⟩

/-- **one client alone**, one of its candidate buckets has room: the command program adds the
    fingerprint to the first candidate with room, increments `length`, acknowledges -/
theorem insertProg_alone (s : St) (c : Nat) (r : Req) (hl : s.loc c = {})
    (hf : (s.bucket r.2.1).isFree = true ∨ (s.bucket r.2.2).isFree = true) :
    exec step s (insertProg c r) =
      { buckets := modAt s.buckets (tgt s r) (fun b => BucketRedis.add 0 b r.1),
        length := s.length + 1,
        loc := fun d => if d = c then doneLoc s r else s.loc d } := by
  by_cases h1 : (s.bucket r.2.1).isFree = true
  · apply St.ext'
    · simp [exec, insertProg, step, St.setLoc, hl, h1, tgt]
    · simp [exec, insertProg, step, St.setLoc, hl, h1]
    · intro d
      by_cases e : d = c <;> simp [exec, insertProg, step, St.setLoc, hl, h1, doneLoc, e]
  · have h2 : (s.bucket r.2.2).isFree = true := by
      rcases hf with h | h
      · exact absurd h h1
      · exact h
    have h1' : (s.bucket r.2.1).isFree = false := by simpa using h1
    apply St.ext'
    · simp [exec, insertProg, step, St.setLoc, St.bucket, hl, tgt]
      simp [St.bucket] at h2 h1'
      simp [h2, h1']
    · simp [exec, insertProg, step, St.setLoc, St.bucket, hl]
      simp [St.bucket] at h2 h1'
      simp [h2, h1']
    · intro d
      simp [St.bucket] at h2 h1'
      by_cases e : d = c <;> simp [exec, insertProg, step, St.setLoc, St.bucket, hl, h1', h2, doneLoc, e]


instance instInhabitedBucket : Inhabited (BucketRedis Fp) := ⟨⟨0, [], 0⟩⟩

/-- the sequential model (`Cuckoo.insert` of Model/Cuckoo.lean over `BucketRedis`) applied to the
    requests one after another; `none` as soon as an insert reports "full" -/
def modelRun (alt : Nat → Fp → Nat) (d side : Bool) (slots : List Nat) :
    Cuckoo (BucketRedis Fp) → List Req → Option (Cuckoo (BucketRedis Fp))
  | cm, [] => some cm
  | cm, r :: rs =>
    match Cuckoo.insert (BucketRedis.ops 0) alt cm r.1 r.2.1 r.2.2 d side slots with
    | .ok cm' => modelRun alt d side slots cm' rs
    | .full _ => none

/-- the sequential model when a candidate bucket has room -/
theorem model_insert_free (alt : Nat → Fp → Nat) (d side : Bool) (slots : List Nat)
    (cm : Cuckoo (BucketRedis Fp)) (s : St) (r : Req) (hb : cm.buckets = s.buckets)
    (hf : (s.bucket r.2.1).isFree = true ∨ (s.bucket r.2.2).isFree = true) :
    Cuckoo.insert (BucketRedis.ops 0) alt cm r.1 r.2.1 r.2.2 d side slots =
      .ok { cm with buckets := modAt s.buckets (tgt s r) (fun b => BucketRedis.add 0 b r.1),
                    length := cm.length + 1 } := by
  unfold Cuckoo.insert
  rw [hb]
  by_cases h1 : (s.bucket r.2.1).isFree = true
  · have : (BucketRedis.ops (0 : Fp)).isFree (Cuckoo.bucketAt s.buckets r.2.1) = true := h1
    rw [if_pos this]
    simp only [tgt, h1, if_true]; rfl
  · have h2 : (s.bucket r.2.2).isFree = true := by
      rcases hf with h | h
      · exact absurd h h1
      · exact h
    have n1 : ¬ (BucketRedis.ops (0 : Fp)).isFree (Cuckoo.bucketAt s.buckets r.2.1) = true := h1
    have p2 : (BucketRedis.ops (0 : Fp)).isFree (Cuckoo.bucketAt s.buckets r.2.2) = true := h2
    rw [if_neg n1, if_pos p2]
    simp only [tgt, h1]; rfl

theorem Disjoint.tail {r : Req} {rs : List Req} (h : Disjoint (r :: rs)) :
    Disjoint rs ∧ ∀ r' ∈ rs, r.2.1 ≠ r'.2.1 ∧ r.2.1 ≠ r'.2.2 ∧ r.2.2 ≠ r'.2.1 ∧ r.2.2 ≠ r'.2.2 := by
  refine ⟨?_, ?_⟩
  · intro i j a b hne hi hj
    exact h (i + 1) (j + 1) a b (by omega) (by simpa using hi) (by simpa using hj)
  · intro r' hr'
    obtain ⟨j, hj⟩ := List.mem_iff_getElem?.1 hr'
    exact h 0 (j + 1) r r' (by omega) (by simp) (by simpa using hj)

theorem tgt_mem (s : St) (r : Req) : tgt s r = r.2.1 ∨ tgt s r = r.2.2 := by
  unfold tgt; split
  · exact Or.inl rfl
  · exact Or.inr rfl

/-- **the clients one after another** (client `c + j` runs `reqs[j]`): with pairwise disjoint
    candidate pairs and a candidate with room for every request, the sequential command run is the
    sequential MODEL run: every `Cuckoo.insert` answers `.ok`, buckets and `length` agree, every
    client has acknowledged and nobody entered the eviction loop. -/
theorem seq_run (alt : Nat → Fp → Nat) (d side : Bool) (slots : List Nat) :
    ∀ (reqs : List Req) (c : Nat) (s : St) (cm : Cuckoo (BucketRedis Fp)),
      cm.buckets = s.buckets → cm.length = s.length → (∀ e, c ≤ e → s.loc e = {}) →
      Disjoint reqs →
      (∀ r ∈ reqs, (s.bucket r.2.1).isFree = true ∨ (s.bucket r.2.2).isFree = true) →
      ∃ cm', modelRun alt d side slots cm reqs = some cm' ∧
        (exec step s (progsFrom c reqs).flatten).buckets = cm'.buckets ∧
        (exec step s (progsFrom c reqs).flatten).length = cm'.length ∧
        cm'.length = cm.length + reqs.length ∧ Cuckoo.SameParams cm cm' ∧
        (∀ j r, reqs[j]? = some r →
          ((exec step s (progsFrom c reqs).flatten).loc (c + j)).acked = true ∧
          ((exec step s (progsFrom c reqs).flatten).loc (c + j)).evicting = false) ∧
        (∀ e, e < c → (exec step s (progsFrom c reqs).flatten).loc e = s.loc e) := by
  intro reqs
  induction reqs with
  | nil =>
    intro c s cm hb hl _ _ _
    exact ⟨cm, rfl, hb.symm, hl.symm, rfl, Cuckoo.SameParams.refl cm, by simp, fun _ _ => rfl⟩
  | cons r rs ih =>
    intro c s cm hb hl hloc hd hf
    obtain ⟨hd', hne⟩ := hd.tail
    have hfr := hf r List.mem_cons_self
    have h1 := insertProg_alone s c r (hloc c (Nat.le_refl c)) hfr
    have hm := model_insert_free alt d side slots cm s r hb hfr
    -- the state after the first client
    generalize hs1 : exec step s (insertProg c r) = s1 at h1
    have hex : exec step s (progsFrom c (r :: rs)).flatten = exec step s1 (progsFrom (c + 1) rs).flatten := by
      simp only [progsFrom, List.flatten_cons, exec, List.foldl_append]
      simp only [exec] at hs1
      rw [hs1]
    have hbk : ∀ i, i ≠ tgt s r → s1.bucket i = s.bucket i := by
      intro i hi
      rw [h1]
      exact modAt_getD_ne s.buckets (tgt s r) i _ _ hi
    have hf' : ∀ r' ∈ rs, (s1.bucket r'.2.1).isFree = true ∨ (s1.bucket r'.2.2).isFree = true := by
      intro r' hr'
      obtain ⟨a, b, c', d'⟩ := hne r' hr'
      have e1 : r'.2.1 ≠ tgt s r := by
        rcases tgt_mem s r with e | e <;> rw [e] <;> intro x
        · exact a x.symm
        · exact c' x.symm
      have e2 : r'.2.2 ≠ tgt s r := by
        rcases tgt_mem s r with e | e <;> rw [e] <;> intro x
        · exact b x.symm
        · exact d' x.symm
      rw [hbk _ e1, hbk _ e2]
      exact hf r' (List.mem_cons_of_mem _ hr')
    have hloc' : ∀ e, c + 1 ≤ e → s1.loc e = {} := by
      intro e he
      rw [h1]
      have : ¬ e = c := by omega
      simp only [this, if_false]
      exact hloc e (by omega)
    obtain ⟨cm', r1, r2, r3, r4, r5, r6, r7⟩ :=
      ih (c + 1) s1
        { cm with buckets := modAt s.buckets (tgt s r) (fun b => BucketRedis.add 0 b r.1),
                  length := cm.length + 1 }
        (by rw [h1]) (by rw [h1]; simp only; rw [hl]) hloc' hd' hf'
    refine ⟨cm', ?_, ?_, ?_, ?_, ?_, ?_, ?_⟩
    · simp only [modelRun, hm]; exact r1
    · rw [hex]; exact r2
    · rw [hex]; exact r3
    · rw [r4]; simp only [List.length_cons]; omega
    · exact Cuckoo.SameParams.trans ⟨rfl, rfl, rfl, rfl⟩ r5
    · intro j r' hj
      rw [hex]
      cases j with
      | zero =>
        simp only [List.getElem?_cons_zero, Option.some.injEq] at hj
        subst hj
        simp only [Nat.add_zero]
        rw [r7 c (Nat.lt_succ_self c), h1]
        simp only [if_true]
        exact doneLoc_acked s r
      | succ j =>
        have := r6 j r' (by simpa using hj)
        have e : c + (j + 1) = c + 1 + j := by omega
        rw [e]; exact this
    · intro e he
      rw [hex, r7 e (by omega), h1]
      have : ¬ e = c := by omega
      simp only [this, if_false]


/-! ### shared buckets with room for everybody: an invariant of every interleaving -/

/-- number of `j < n` with `P j` -/
def cnt (P : Nat → Bool) : Nat → Nat
  | 0 => 0
  | n + 1 => cnt P n + (if P n then 1 else 0)

theorem cnt_congr (P Q : Nat → Bool) (n : Nat) (h : ∀ j, j < n → P j = Q j) : cnt P n = cnt Q n := by
  induction n with
  | zero => rfl
  | succ n ih =>
    simp only [cnt]
    rw [ih (fun j hj => h j (by omega)), h n (by omega)]

theorem cnt_le (P Q : Nat → Bool) (n : Nat) (h : ∀ j, j < n → P j = true → Q j = true) :
    cnt P n ≤ cnt Q n := by
  induction n with
  | zero => exact Nat.le_refl _
  | succ n ih =>
    simp only [cnt]
    have := ih (fun j hj => h j (by omega))
    have := h n (by omega)
    cases hp : P n <;> cases hq : Q n <;> simp_all <;> omega

theorem cnt_lt (P Q : Nat → Bool) (n i : Nat) (h : ∀ j, j < n → P j = true → Q j = true)
    (hi : i < n) (hp : P i = false) (hq : Q i = true) : cnt P n < cnt Q n := by
  induction n with
  | zero => omega
  | succ n ih =>
    simp only [cnt]
    by_cases e : i = n
    · subst e
      have := cnt_le P Q i (fun j hj => h j (by omega))
      simp [hp, hq]; omega
    · have := ih (fun j hj => h j (by omega)) (by omega)
      have := h n (by omega)
      cases hp' : P n <;> cases hq' : Q n <;> simp_all <;> omega

theorem cnt_update (P Q : Nat → Bool) (n i : Nat) (h : ∀ j, j < n → j ≠ i → Q j = P j)
    (hi : i < n) (hp : P i = false) (hq : Q i = true) : cnt Q n = cnt P n + 1 := by
  induction n with
  | zero => omega
  | succ n ih =>
    simp only [cnt]
    by_cases e : i = n
    · subst e
      rw [cnt_congr Q P i (fun j hj => h j (by omega) (by omega))]
      simp [hp, hq]
    · rw [ih (fun j hj => h j (by omega)) (by omega), h n (by omega) (fun x => e x.symm)]
      omega

theorem cnt_all (P : Nat → Bool) (n : Nat) (h : ∀ j, j < n → P j = true) : cnt P n = n := by
  induction n with
  | zero => rfl
  | succ n ih => simp only [cnt]; rw [ih (fun j hj => h j (by omega)), h n (by omega)]; simp

/-! #### what `add` does to one Redis bucket -/

theorem add_size (b : BucketRedis Fp) (e : Fp) : (BucketRedis.add 0 b e).size = b.size := by
  unfold BucketRedis.add; split
  · rfl
  · split <;> rfl

theorem add_len (b : BucketRedis Fp) (e : Fp) :
    b.len ≤ (BucketRedis.add 0 b e).len ∧ (BucketRedis.add 0 b e).len ≤ b.len + 1 := by
  unfold BucketRedis.add; split
  · exact ⟨Nat.le_refl _, Nat.le_succ _⟩
  · split <;> exact ⟨Nat.le_succ _, Nat.le_refl _⟩

theorem mem_set_of_ne {l : List Fp} {i : Nat} {v e : Fp} (h : e ∈ l) (hne : l.getD i 0 ≠ e ∨ l.length ≤ i) :
    e ∈ l.set i v := by
  induction l generalizing i with
  | nil => cases h
  | cons a l ih =>
    cases i with
    | zero =>
      rcases hne with hne | hne
      · simp only [List.getD_cons_zero] at hne
        rcases List.mem_cons.1 h with rfl | h
        · exact absurd rfl hne
        · simp [h]
      · simp at hne
    | succ i =>
      rcases List.mem_cons.1 h with rfl | h
      · simp
      · simp only [List.set_cons_succ, List.mem_cons]
        right
        apply ih h
        rcases hne with hne | hne
        · left; simpa using hne
        · right; simpa using hne

/-- a stored fingerprint survives an `add` of another one -/
theorem mem_add_of_mem (b : BucketRedis Fp) (e e' : Fp) (h : e ∈ b.list) (he : e ≠ 0) :
    e ∈ (BucketRedis.add 0 b e').list := by
  unfold BucketRedis.add; split
  · exact h
  · split
    · rename_i hc
      have hm : (0 : Fp) ∈ b.list := by simpa using hc
      apply mem_set_of_ne h
      left
      rw [getD_idxOf b.list 0 0 hm]
      exact fun x => he x.symm
    · exact List.mem_cons_of_mem _ h

/-- an `add` into a bucket with room stores the fingerprint -/
theorem mem_add_self (b : BucketRedis Fp) (e : Fp) (hf : b.isFree = true) (he : e ≠ 0) :
    e ∈ (BucketRedis.add 0 b e).list := by
  unfold BucketRedis.add
  rw [if_neg (by simp [he, hf])]
  split
  · rename_i hc
    have hm : (0 : Fp) ∈ b.list := by simpa using hc
    exact List.mem_iff_getElem.2 ⟨b.list.idxOf 0, by simpa using idxOf_lt_of_mem _ _ hm, by simp⟩
  · exact List.mem_cons_self

/-- number of stored (non-zero) entries of a bucket -/
def nz (b : BucketRedis Fp) : Nat := (b.list.filter (· != 0)).length

theorem nz_set_hole (l : List Fp) (e : Fp) (he : e ≠ 0) (hm : (0 : Fp) ∈ l) :
    ((l.set (l.idxOf 0) e).filter (· != 0)).length = (l.filter (· != 0)).length + 1 := by
  induction l with
  | nil => cases hm
  | cons a l ih =>
    by_cases ha : a = 0
    · subst ha
      simp [List.idxOf_cons_self, he]
    · have hm' : (0 : Fp) ∈ l := by
        rcases List.mem_cons.1 hm with h | h
        · exact absurd h.symm ha
        · exact h
      have hne : (a == 0) = false := by simpa using ha
      rw [List.idxOf_cons, hne]
      simp only [cond_false, List.set_cons_succ, List.filter_cons, bne, hne, Bool.not_false, if_true,
        List.length_cons]
      have := ih hm'
      simp only [bne] at this
      rw [this]

/-- an `add` of a non-empty fingerprint into a bucket with room stores exactly one more entry -/
theorem nz_add (b : BucketRedis Fp) (e : Fp) (hf : b.isFree = true) (he : e ≠ 0) :
    nz (BucketRedis.add 0 b e) = nz b + 1 := by
  unfold nz BucketRedis.add
  rw [if_neg (by simp [he, hf])]
  split
  · rename_i hc
    exact nz_set_hole b.list e he (by simpa using hc)
  · simp [he]

theorem lt_length_of_isFree (bs : List (BucketRedis Fp)) (i : Nat)
    (h : (bs.getD i ⟨0, [], 0⟩).isFree = true) : i < bs.length := by
  rcases Nat.lt_or_ge i bs.length with hl | hl
  · exact hl
  · rw [List.getD_eq_getElem?_getD, List.getElem?_eq_none hl] at h
    simp [BucketRedis.isFree] at h

theorem sumL_map_modAt (l : List (BucketRedis Fp)) (i : Nat) (f : BucketRedis Fp → BucketRedis Fp)
    (g : BucketRedis Fp → Nat) (d : BucketRedis Fp) (hi : i < l.length) :
    sumL ((modAt l i f).map g) + g (l.getD i d) = sumL (l.map g) + g (f (l.getD i d)) := by
  induction l generalizing i with
  | nil => simp at hi
  | cons a l ih =>
    cases i with
    | zero => simp [modAt]; omega
    | succ i =>
      have := ih i (by simpa using hi)
      simp only [modAt, List.map_cons, sumL_cons, List.getD_cons_succ] at this ⊢
      omega

theorem stored_eq (s : St) : stored s = sumL (s.buckets.map nz) := rfl


/-! #### the invariant -/

/-- the `k`-th command of `insertProg c r` -/
def cmdAt (c : Nat) (r : Req) : Nat → Cmd
  | 0 => .isFree1 c r.2.1
  | 1 => .add1 c r.2.1 r.1
  | 2 => .isFree2 c r.2.2
  | 3 => .add2 c r.2.2 r.1
  | _ => .finish c

theorem insertProg_getElem? (c : Nat) (r : Req) (k : Nat) :
    (insertProg c r)[k]? = if k < 5 then some (cmdAt c r k) else none := by
  rcases k with _ | _ | _ | _ | _ | k <;> simp [insertProg, cmdAt]

theorem cmdAt_client (c : Nat) (r : Req) (k : Nat) : (cmdAt c r k).client = c := by
  rcases k with _ | _ | _ | _ | _ | k <;> rfl

/-- the locals of a client that has executed `k` commands, `f1` = "the first candidate had room" -/
def locAt (f1 : Bool) : Nat → Local
  | 0 => {}
  | 1 => { free1 := some f1 }
  | 2 => { free1 := some f1 }
  | 3 => if f1 then { free1 := some true } else { free1 := some false, free2 := some true }
  | 4 => if f1 then { free1 := some true } else { free1 := some false, free2 := some true }
  | _ => if f1 then { free1 := some true, acked := true }
         else { free1 := some false, free2 := some true, acked := true }

/-- the client has run its `add` script -/
def addedAt (f1 : Bool) (k : Nat) : Bool := if f1 then decide (2 ≤ k) else decide (4 ≤ k)

theorem locAt_done (f1 : Bool) (k : Nat) (hk : 5 ≤ k) :
    (locAt f1 k).acked = true ∧ (locAt f1 k).evicting = false := by
  obtain ⟨m, rfl⟩ : ∃ m, k = m + 5 := ⟨k - 5, by omega⟩
  cases f1 <;> exact ⟨rfl, rfl⟩

theorem addedAt_done (f1 : Bool) (k : Nat) (hk : 5 ≤ k) : addedAt f1 k = true := by
  unfold addedAt; cases f1 <;> simp <;> omega

/-- what the `k`-th command does, as a function of the client's locals `locAt f k` -/
theorem client_step (c : Nat) (r : Req) (f : Bool) (k : Nat) (hk : k < 5) (bk : BucketRedis Fp)
    (h0 : k = 0 → bk.isFree = f) (h2 : k = 2 → f = false → bk.isFree = true) :
    doesAdd (locAt f k) (cmdAt c r k)
      = (if addedAt f (k + 1) && !addedAt f k then some (if f then r.2.1 else r.2.2, r.1) else none) ∧
    incr (locAt f k) (cmdAt c r k) = (if k = 4 then 1 else 0) ∧
    newLoc (locAt f k) bk (cmdAt c r k) = locAt f (k + 1) := by
  rcases k with _ | _ | _ | _ | _ | k
  · have := h0 rfl
    cases f <;> simp [locAt, cmdAt, doesAdd, incr, newLoc, addedAt, this]
  · cases f <;> simp [locAt, cmdAt, doesAdd, incr, newLoc, addedAt]
  · cases f
    · have := h2 rfl rfl
      simp [locAt, cmdAt, doesAdd, incr, newLoc, addedAt, this]
    · simp [locAt, cmdAt, doesAdd, incr, newLoc, addedAt]
  · cases f <;> simp [locAt, cmdAt, doesAdd, incr, newLoc, addedAt]
  · cases f <;> simp [locAt, cmdAt, doesAdd, incr, newLoc, addedAt]
  · omega

theorem addedAt_mono (f : Bool) (k : Nat) (h : addedAt f k = true) : addedAt f (k + 1) = true := by
  unfold addedAt at *; cases f <;> simp at * <;> omega

section shared
variable (s0 : St) (reqs : List Req)

/-- request of client `j` -/
def req (j : Nat) : Req := reqs.getD j (0, 0, 0)
/-- the first candidate of client `j` has room in the initial store -/
def f1 (j : Nat) : Bool := (s0.bucket (req reqs j).2.1).isFree
/-- the bucket client `j` adds to when it runs alone from the initial store -/
def tj (j : Nat) : Nat := if f1 s0 reqs j then (req reqs j).2.1 else (req reqs j).2.2

theorem req_of_getElem? {j : Nat} {r : Req} (h : reqs[j]? = some r) : req reqs j = r := by
  simp [req, List.getD_eq_getElem?_getD, h]

/-- every request has a candidate bucket with room in the initial store -/
def HasRoom : Prop :=
  ∀ j, j < reqs.length →
    (s0.bucket (req reqs j).2.1).isFree = true ∨ (s0.bucket (req reqs j).2.2).isFree = true

/-- every bucket some client targets has room for ALL the clients that (running alone) would add
    to it: `len + #{clients targeting it} ≤ size` -/
def RoomForAll : Prop :=
  ∀ i, i < reqs.length →
    (s0.bucket (tj s0 reqs i)).len + cnt (fun j => tj s0 reqs j == tj s0 reqs i) reqs.length
      ≤ (s0.bucket (tj s0 reqs i)).size

/-- the invariant of every interleaving; `pc j` = number of commands client `j` has executed -/
structure Inv (pc : Nat → Nat) (s : St) : Prop where
  blen : s.buckets.length = s0.buckets.length
  size : ∀ b, (s.bucket b).size = (s0.bucket b).size
  len_ge : ∀ b, (s0.bucket b).len ≤ (s.bucket b).len
  len_le : ∀ b, (s.bucket b).len ≤ (s0.bucket b).len +
    cnt (fun j => tj s0 reqs j == b && addedAt (f1 s0 reqs j) (pc j)) reqs.length
  locs : ∀ j, j < reqs.length → s.loc j = locAt (f1 s0 reqs j) (pc j)
  found : ∀ j, j < reqs.length → addedAt (f1 s0 reqs j) (pc j) = true → (req reqs j).1 ≠ 0 →
    (req reqs j).1 ∈ (s.bucket (tj s0 reqs j)).list
  length : s.length = s0.length + cnt (fun j => decide (5 ≤ pc j)) reqs.length
  stored : (∀ j, j < reqs.length → (req reqs j).1 ≠ 0) →
    stored s = stored s0 + cnt (fun j => addedAt (f1 s0 reqs j) (pc j)) reqs.length

theorem cnt_false (n : Nat) (P : Nat → Bool) (h : ∀ j, j < n → P j = false) : cnt P n = 0 := by
  induction n with
  | zero => rfl
  | succ n ih => simp only [cnt]; rw [ih (fun j hj => h j (by omega)), h n (by omega)]; rfl

theorem inv_init (hl : ∀ j, j < reqs.length → s0.loc j = {}) : Inv s0 reqs (fun _ => 0) s0 where
  blen := rfl
  size := fun _ => rfl
  len_ge := fun _ => Nat.le_refl _
  len_le := fun b => by
    rw [cnt_false]
    · exact Nat.le_refl _
    · intro j _; cases hf : f1 s0 reqs j <;> simp [addedAt]
  locs := fun j hj => hl j hj
  found := fun j _ h => by cases hf : f1 s0 reqs j <;> simp [addedAt, hf] at h
  length := by
    rw [cnt_false]
    · rfl
    · intro j _; rfl
  stored := fun _ => by
    rw [cnt_false]
    · rfl
    · intro j _; cases hf : f1 s0 reqs j <;> simp [addedAt]

variable {s0 reqs}

/-- a client that has not yet run its `add` still finds room in its target bucket -/
theorem free_of_pending (hroom : RoomForAll s0 reqs) {pc : Nat → Nat} {s : St} (hI : Inv s0 reqs pc s)
    (i : Nat) (hi : i < reqs.length) (hp : addedAt (f1 s0 reqs i) (pc i) = false) :
    (s.bucket (tj s0 reqs i)).isFree = true := by
  have h1 := hI.len_le (tj s0 reqs i)
  have h2 := hroom i hi
  have h3 := hI.size (tj s0 reqs i)
  have h4 := cnt_lt (fun j => tj s0 reqs j == tj s0 reqs i && addedAt (f1 s0 reqs j) (pc j))
    (fun j => tj s0 reqs j == tj s0 reqs i) reqs.length i
    (by intro j _ h; simp only [Bool.and_eq_true] at h; exact h.1) hi (by simp [hp]) (by simp)
  simp only [BucketRedis.isFree, decide_eq_true_eq]
  omega

/-- a bucket without room in the initial store never gets room -/
theorem full_stays {pc : Nat → Nat} {s : St} (hI : Inv s0 reqs pc s) (b : Nat)
    (h : (s0.bucket b).isFree = false) : (s.bucket b).isFree = false := by
  have h1 := hI.len_ge b
  have h3 := hI.size b
  simp only [BucketRedis.isFree, decide_eq_false_iff_not] at h ⊢
  omega


/-- the next command of client `i`, in a state that satisfies the invariant, written out -/
theorem step_at (hroom : RoomForAll s0 reqs) {pc : Nat → Nat} {s : St}
    (hI : Inv s0 reqs pc s) (i : Nat) (hi : i < reqs.length) (hk : pc i < 5) :
    step s (cmdAt i (req reqs i) (pc i)) =
      { buckets := applyAdd s.buckets
          (if addedAt (f1 s0 reqs i) (pc i + 1) && !addedAt (f1 s0 reqs i) (pc i)
            then some (tj s0 reqs i, (req reqs i).1) else none),
        length := s.length + (if pc i = 4 then 1 else 0),
        loc := fun d => if d = i then locAt (f1 s0 reqs i) (pc i + 1) else s.loc d } := by
  have h0 : pc i = 0 →
      (s.bucket ((cmdAt i (req reqs i) (pc i)).bkt.getD 0)).isFree = f1 s0 reqs i := by
    intro e
    rw [e]
    show (s.bucket (req reqs i).2.1).isFree = f1 s0 reqs i
    cases hf : f1 s0 reqs i with
    | true =>
      have := free_of_pending hroom hI i hi (by rw [hf, e]; rfl)
      unfold tj at this; rw [hf] at this
      exact this
    | false => exact full_stays hI _ hf
  have h2 : pc i = 2 → f1 s0 reqs i = false →
      (s.bucket ((cmdAt i (req reqs i) (pc i)).bkt.getD 0)).isFree = true := by
    intro e hf
    rw [e]
    show (s.bucket (req reqs i).2.2).isFree = true
    have := free_of_pending hroom hI i hi (by rw [hf, e]; rfl)
    unfold tj at this; rw [hf] at this
    exact this
  obtain ⟨e1, e2, e3⟩ := client_step i (req reqs i) (f1 s0 reqs i) (pc i) hk _ h0 h2
  rw [step_eq, cmdAt_client, hI.locs i hi, e1, e2, e3]
  rfl

/-- client `i` has executed one more command -/
def bump (pc : Nat → Nat) (i : Nat) : Nat → Nat := fun j => if j = i then pc i + 1 else pc j

theorem bump_self (pc : Nat → Nat) (i : Nat) : bump pc i i = pc i + 1 := by simp [bump]
theorem bump_ne (pc : Nat → Nat) (i j : Nat) (h : j ≠ i) : bump pc i j = pc j := by simp [bump, h]

/-- **the invariant is kept by the next command of any client** -/
theorem inv_step (hroom : RoomForAll s0 reqs) {pc : Nat → Nat} {s : St}
    (hI : Inv s0 reqs pc s) (i : Nat) (hi : i < reqs.length) (hk : pc i < 5) :
    Inv s0 reqs (bump pc i) (step s (cmdAt i (req reqs i) (pc i))) := by
  rw [step_at hroom hI i hi hk]
  have hpc := bump_ne pc i
  have hpi := bump_self pc i
  have hlen5 : s.length + (if pc i = 4 then 1 else 0)
      = s0.length + cnt (fun j => decide (5 ≤ bump pc i j)) reqs.length := by
    rw [hI.length]
    by_cases e : pc i = 4
    · have := cnt_update (fun j => decide (5 ≤ pc j)) (fun j => decide (5 ≤ bump pc i j)) reqs.length i
        (fun j _ hj => by simp only [hpc j hj]) hi (by simp; omega) (by simp only [hpi]; simp; omega)
      rw [if_pos e, this, Nat.add_assoc]
    · rw [if_neg e, Nat.add_zero]
      congr 1
      apply cnt_congr
      intro j _
      by_cases ej : j = i
      · subst ej; simp only [hpi]; simp; omega
      · simp only [hpc j ej]
  cases hadd : (addedAt (f1 s0 reqs i) (pc i + 1) && !addedAt (f1 s0 reqs i) (pc i)) with
  | false =>
    -- no `add` script: the buckets are unchanged, and so is "who has added"
    have hsame : ∀ j, addedAt (f1 s0 reqs j) (bump pc i j) = addedAt (f1 s0 reqs j) (pc j) := by
      intro j
      by_cases ej : j = i
      · subst ej
        rw [hpi]
        cases h1 : addedAt (f1 s0 reqs j) (pc j) with
        | true => exact addedAt_mono _ _ h1
        | false => rw [h1] at hadd; simpa using hadd
      · rw [hpc j ej]
    simp only [Bool.false_eq_true, if_false, applyAdd]
    refine ⟨hI.blen, hI.size, hI.len_ge, ?_, ?_, ?_, hlen5, ?_⟩
    · intro b
      rw [cnt_congr _ (fun j => tj s0 reqs j == b && addedAt (f1 s0 reqs j) (pc j)) _
        (fun j _ => by rw [hsame j])]
      exact hI.len_le b
    · intro j hj
      by_cases ej : j = i
      · subst ej; simp [hpi]
      · simp only [ej, if_false, hpc j ej]; exact hI.locs j hj
    · intro j hj ha hne
      rw [hsame j] at ha
      exact hI.found j hj ha hne
    · intro hne
      rw [cnt_congr _ (fun j => addedAt (f1 s0 reqs j) (pc j)) _ (fun j _ => hsame j)]
      exact hI.stored hne
  | true =>
    -- the client runs its `add` script on its target bucket, which still has room
    have hnot : addedAt (f1 s0 reqs i) (pc i) = false := by
      cases h1 : addedAt (f1 s0 reqs i) (pc i) with
      | false => rfl
      | true => rw [h1] at hadd; simp at hadd
    have hnow : addedAt (f1 s0 reqs i) (pc i + 1) = true := by
      rw [hnot] at hadd; simpa using hadd
    have hfree := free_of_pending hroom hI i hi hnot
    have ht : tj s0 reqs i < s.buckets.length := lt_length_of_isFree _ _ hfree
    have hbk : ∀ b, (modAt s.buckets (tj s0 reqs i) (fun b => BucketRedis.add 0 b (req reqs i).1)).getD b
        ⟨0, [], 0⟩ = if b = tj s0 reqs i then BucketRedis.add 0 (s.bucket (tj s0 reqs i)) (req reqs i).1
          else s.bucket b := fun b => modAt_getD _ _ _ _ _ ht
    have hadded : ∀ j, j ≠ i → addedAt (f1 s0 reqs j) (bump pc i j) = addedAt (f1 s0 reqs j) (pc j) := by
      intro j hj; rw [hpc j hj]
    simp only [if_true, applyAdd]
    refine ⟨by rw [modAt_length]; exact hI.blen, ?_, ?_, ?_, ?_, ?_, hlen5, ?_⟩
    · intro b
      show ((modAt s.buckets _ _).getD b ⟨0, [], 0⟩).size = _
      rw [hbk b]
      by_cases e : b = tj s0 reqs i
      · rw [if_pos e, add_size, ← e]; exact hI.size b
      · rw [if_neg e]; exact hI.size b
    · intro b
      show _ ≤ ((modAt s.buckets _ _).getD b ⟨0, [], 0⟩).len
      rw [hbk b]
      by_cases e : b = tj s0 reqs i
      · rw [if_pos e]
        have := (add_len (s.bucket (tj s0 reqs i)) (req reqs i).1).1
        have := hI.len_ge b
        rw [e] at this ⊢
        omega
      · rw [if_neg e]; exact hI.len_ge b
    · intro b
      show ((modAt s.buckets _ _).getD b ⟨0, [], 0⟩).len ≤ _
      rw [hbk b]
      by_cases e : b = tj s0 reqs i
      · rw [if_pos e]
        have h1 := (add_len (s.bucket (tj s0 reqs i)) (req reqs i).1).2
        have h2 := hI.len_le b
        have h3 := cnt_update (fun j => tj s0 reqs j == b && addedAt (f1 s0 reqs j) (pc j))
          (fun j => tj s0 reqs j == b && addedAt (f1 s0 reqs j) (bump pc i j)) reqs.length i
          (fun j _ hj => by simp only [hadded j hj]) hi (by simp [hnot])
          (by simp only [hpi, hnow, e]; simp)
        rw [h3]
        rw [e] at h2 ⊢
        omega
      · rw [if_neg e]
        rw [cnt_congr _ (fun j => tj s0 reqs j == b && addedAt (f1 s0 reqs j) (pc j)) _ (by
          intro j _
          by_cases ej : j = i
          · subst ej
            have : (tj s0 reqs j == b) = false := by simpa using fun x => e x.symm
            simp [this]
          · simp only [hadded j ej])]
        exact hI.len_le b
    · intro j hj
      by_cases ej : j = i
      · subst ej; simp [hpi]
      · simp only [ej, if_false, hpc j ej]; exact hI.locs j hj
    · intro j hj ha hne
      show (req reqs j).1 ∈ ((modAt s.buckets _ _).getD (tj s0 reqs j) ⟨0, [], 0⟩).list
      rw [hbk]
      by_cases ej : j = i
      · subst ej
        rw [if_pos rfl]
        exact mem_add_self _ _ hfree hne
      · rw [hadded j ej] at ha
        have hm := hI.found j hj ha hne
        by_cases e : tj s0 reqs j = tj s0 reqs i
        · rw [if_pos e, ← e]
          exact mem_add_of_mem _ _ _ hm hne
        · rw [if_neg e]; exact hm
    · intro hne
      have h1 := sumL_map_modAt s.buckets (tj s0 reqs i)
        (fun b => BucketRedis.add 0 b (req reqs i).1) nz ⟨0, [], 0⟩ ht
      have h2 := nz_add (s.bucket (tj s0 reqs i)) (req reqs i).1 hfree (hne i hi)
      have h3 := hI.stored hne
      have h4 := cnt_update (fun j => addedAt (f1 s0 reqs j) (pc j))
        (fun j => addedAt (f1 s0 reqs j) (bump pc i j)) reqs.length i
        (fun j _ hj => hadded j hj) hi hnot (by simp only [hpi]; exact hnow)
      rw [h4]
      rw [stored_eq] at h3 ⊢
      simp only [St.bucket] at h2
      show sumL ((modAt s.buckets _ _).map nz) = _
      omega


/-! #### every interleaving -/

/-- what is left of the clients' programs when client `c + j` has executed `pc (c + j)` commands -/
def rem (pc : Nat → Nat) (c : Nat) : List Req → List (List Cmd)
  | [] => []
  | r :: rs => (insertProg c r).drop (pc c) :: rem pc (c + 1) rs

theorem rem_getElem? (pc : Nat → Nat) (c : Nat) (rs : List Req) (j : Nat) :
    (rem pc c rs)[j]? = (rs[j]?).map (fun r => (insertProg (c + j) r).drop (pc (c + j))) := by
  induction rs generalizing c j with
  | nil => simp [rem]
  | cons r rs ih =>
    cases j with
    | zero => simp [rem]
    | succ j =>
      simp only [rem, List.getElem?_cons_succ, ih]
      have : c + 1 + j = c + (j + 1) := by omega
      rw [this]

theorem rem_length (pc : Nat → Nat) (c : Nat) (rs : List Req) : (rem pc c rs).length = rs.length := by
  induction rs generalizing c with
  | nil => rfl
  | cons r rs ih => simp [rem, ih]

theorem rem_zero (c : Nat) (rs : List Req) : rem (fun _ => 0) c rs = progsFrom c rs := by
  induction rs generalizing c with
  | nil => rfl
  | cons r rs ih => simp [rem, progsFrom, ih]

theorem rem_set (pc : Nat → Nat) (rs : List Req) (i : Nat) (r : Req) (hi : rs[i]? = some r) :
    (rem pc 0 rs).set i ((insertProg i r).drop (pc i + 1)) = rem (bump pc i) 0 rs := by
  apply List.ext_getElem?
  intro j
  rw [rem_getElem?]
  by_cases e : i = j
  · subst e
    have hl : i < (rem pc 0 rs).length := by
      rw [rem_length]
      rcases Nat.lt_or_ge i rs.length with h | h
      · exact h
      · rw [List.getElem?_eq_none h] at hi; cases hi
    rw [List.getElem?_set_self hl, hi]
    simp [bump_self]
  · rw [List.getElem?_set_ne e, rem_getElem?]
    simp only [Nat.zero_add]
    rw [bump_ne pc i j (fun x => e x.symm)]

/-- **the invariant holds after every interleaving**, and then every client has executed all five
    commands -/
theorem inv_interleaving (hroom : RoomForAll s0 reqs) :
    ∀ (ts : List (List Cmd)) (w : List Cmd), Interleaving ts w →
      ∀ (pc : Nat → Nat) (s : St), ts = rem pc 0 reqs → Inv s0 reqs pc s →
      ∃ pc', (∀ j, j < reqs.length → 5 ≤ pc' j) ∧ Inv s0 reqs pc' (exec step s w) := by
  intro ts w hi
  induction hi with
  | done ts he =>
    intro pc s hts hI
    refine ⟨pc, ?_, hI⟩
    intro j hj
    have hg : ts[j]? = some ((insertProg j (req reqs j)).drop (pc j)) := by
      rw [hts, rem_getElem?]
      have : reqs[j]? = some (req reqs j) := by
        simp [req, List.getD_eq_getElem?_getD, List.getElem?_eq_getElem hj]
      simp [this]
    have hnil := he _ (List.mem_iff_getElem?.2 ⟨j, hg⟩)
    have hlen : ((insertProg j (req reqs j)).drop (pc j)).length = 0 := by rw [hnil]; rfl
    rw [List.length_drop] at hlen
    have : (insertProg j (req reqs j)).length = 5 := rfl
    omega
  | step ts i a t w hg _ ih =>
    intro pc s hts hI
    rw [hts, rem_getElem?] at hg
    cases hri : reqs[i]? with
    | none => simp [hri] at hg
    | some r =>
      have hi' : i < reqs.length := by
        rcases Nat.lt_or_ge i reqs.length with h | h
        · exact h
        · rw [List.getElem?_eq_none h] at hri; cases hri
      have hreq : req reqs i = r := req_of_getElem? reqs hri
      simp only [hri, Option.map_some, Nat.zero_add, Option.some.injEq] at hg
      obtain ⟨hget, hdrop⟩ := drop_eq_cons hg
      rw [insertProg_getElem?] at hget
      have hk : pc i < 5 := by
        rcases Nat.lt_or_ge (pc i) 5 with h | h
        · exact h
        · simp [Nat.not_lt.2 h] at hget
      simp only [hk, if_true, Option.some.injEq] at hget
      have hstep := inv_step hroom hI i hi' hk
      rw [hreq, hget] at hstep
      have hts' : ts.set i t = rem (bump pc i) 0 reqs := by
        rw [hts, ← hdrop]; exact rem_set pc reqs i r hri
      exact ih (bump pc i) (step s a) hts' hstep


/-- the target bucket of a request with a candidate with room has room -/
theorem tj_free (hr : HasRoom s0 reqs) (i : Nat) (hi : i < reqs.length) :
    (s0.bucket (tj s0 reqs i)).isFree = true := by
  unfold tj
  cases hf : f1 s0 reqs i with
  | true => simpa [f1] using hf
  | false =>
    rcases hr i hi with h | h
    · rw [f1] at hf; rw [hf] at h; cases h
    · simpa using h

theorem tj_mem (i : Nat) : tj s0 reqs i = (req reqs i).2.1 ∨ tj s0 reqs i = (req reqs i).2.2 := by
  unfold tj; split
  · exact Or.inl rfl
  · exact Or.inr rfl

/-- pairwise disjoint candidate pairs + a candidate with room each ⇒ room for all (every bucket
    is targeted by at most one client) -/
theorem roomForAll_of_disjoint (hd : Disjoint reqs) (hr : HasRoom s0 reqs) : RoomForAll s0 reqs := by
  intro i hi
  have hone : cnt (fun j => tj s0 reqs j == tj s0 reqs i) reqs.length = 1 := by
    have := cnt_update (fun _ => false) (fun j => tj s0 reqs j == tj s0 reqs i) reqs.length i
      (by
        intro j hj hne
        have hri : reqs[i]? = some (req reqs i) := by
          simp [req, List.getD_eq_getElem?_getD, List.getElem?_eq_getElem hi]
        have hrj : reqs[j]? = some (req reqs j) := by
          simp [req, List.getD_eq_getElem?_getD, List.getElem?_eq_getElem hj]
        obtain ⟨a, b, c, d⟩ := hd j i _ _ hne hrj hri
        have : tj s0 reqs j ≠ tj s0 reqs i := by
          rcases tj_mem (s0 := s0) (reqs := reqs) j with e | e <;>
            rcases tj_mem (s0 := s0) (reqs := reqs) i with e' | e' <;> rw [e, e'] <;> assumption
        simpa using this)
      hi rfl (by simp)
    rw [this, cnt_false _ _ (fun _ _ => rfl)]
  have hfree := tj_free hr i hi
  rw [hone]
  simp only [BucketRedis.isFree, decide_eq_true_eq] at hfree
  omega

end shared

end C16CuckooN

/-! ## Top-K: one writer (client `false` of `C16TopK`) and any number of readers -/
namespace C16TopKR
open C16TopK (St Cmd step insertProg)

/-- a command of the writer, or the `ZRANGE heap 0 -1 WITHSCORES` of reader `c`'s `Values()` -/
inductive RCmd where
  | w (a : Cmd)
  | read (c : Nat)
  deriving Repr, DecidableEq

/-- the shared store with the writer's locals, and what the readers' `ZRANGE`s returned, in order -/
structure RSt where
  st : St
  obs : List (Nat × List HElem) := []
  deriving Repr, DecidableEq

def rstep (k : Nat) (s : RSt) : RCmd → RSt
  | .w a => { s with st := step k s.st a }
  | .read c => { s with obs := s.obs ++ [(c, s.st.z)] }

def getW : RCmd → Option Cmd
  | .w a => some a
  | .read _ => none

/-- the writer's command sequence for the inserts `ins` (element, estimate) -/
def writerCmds (ins : List HElem) : List Cmd := ins.flatMap (fun e => insertProg false e.1 e.2)
def writerProg (ins : List HElem) : List RCmd := (writerCmds ins).map .w

theorem filterMap_writerProg (ins : List HElem) : (writerProg ins).filterMap getW = writerCmds ins := by
  unfold writerProg
  rw [List.filterMap_map]
  have : (getW ∘ RCmd.w) = some := rfl
  rw [this, List.filterMap_some]

/-- the writer's commands occur in every schedule in program order, and nothing else writes -/
theorem interleaving_filterMap {ts : List (List RCmd)} {w : List RCmd} (hi : Interleaving ts w)
    (hr : ∀ i : Nat, i ≠ 0 → ∀ a ∈ (ts[i]?).getD [], getW a = none) :
    w.filterMap getW = ((ts[0]?).getD []).filterMap getW := by
  induction hi with
  | done ts he =>
    cases h0 : ts[0]? with
    | none => rfl
    | some t => rw [he t (List.mem_iff_getElem?.2 ⟨0, h0⟩)]; rfl
  | step ts i a t w hg _ ih =>
    have hlt : i < ts.length := by
      rcases Nat.lt_or_ge i ts.length with h | h
      · exact h
      · rw [List.getElem?_eq_none h] at hg; cases hg
    have hr' : ∀ j : Nat, j ≠ 0 → ∀ b ∈ ((ts.set i t)[j]?).getD [], getW b = none := by
      intro j hj b hb
      by_cases e : i = j
      · subst e
        simp only [List.getElem?_set_self hlt, Option.getD_some] at hb
        exact hr i hj b (by rw [hg]; exact List.mem_cons_of_mem _ hb)
      · rw [List.getElem?_set_ne e] at hb; exact hr j hj b hb
    have := ih hr'
    by_cases e : i = 0
    · subst e
      rw [hg]
      simp only [List.getElem?_set_self hlt, Option.getD_some] at this
      simp only [Option.getD_some, List.filterMap_cons]
      rw [this]
    · have hn : getW a = none := hr i e a (by rw [hg]; exact List.mem_cons_self)
      rw [List.filterMap_cons, hn, this, List.getElem?_set_ne e]

/-- a schedule acts on the store through its writer commands only; every observation is the sorted
    set after a PREFIX of those writer commands -/
theorem exec_rstep (k : Nat) (w : List RCmd) (s : RSt) :
    (exec (rstep k) s w).st = exec (step k) s.st (w.filterMap getW) ∧
    ∃ new, (exec (rstep k) s w).obs = s.obs ++ new ∧
      ∀ o ∈ new, ∃ p q, p ++ q = w.filterMap getW ∧ o.2 = (exec (step k) s.st p).z := by
  induction w generalizing s with
  | nil => exact ⟨rfl, [], by simp [exec], by simp⟩
  | cons a w ih =>
    cases a with
    | w a =>
      obtain ⟨h1, new, h2, h3⟩ := ih (rstep k s (.w a))
      refine ⟨h1, new, h2, ?_⟩
      intro o ho
      obtain ⟨p, q, hpq, hz⟩ := h3 o ho
      exact ⟨a :: p, q, by simp [getW, hpq], hz⟩
    | read c =>
      obtain ⟨h1, new, h2, h3⟩ := ih (rstep k s (.read c))
      refine ⟨h1, (c, s.st.z) :: new, ?_, ?_⟩
      · show (exec (rstep k) (rstep k s (.read c)) w).obs = _
        rw [h2]; simp [rstep]
      · intro o ho
        rcases List.mem_cons.1 ho with rfl | ho
        · exact ⟨[], w.filterMap getW, by simp [List.filterMap_cons, getW], rfl⟩
        · obtain ⟨p, q, hpq, hz⟩ := h3 o ho
          exact ⟨p, q, by simpa [List.filterMap_cons, getW] using hpq, hz⟩

/-! #### one insert of the writer, command by command -/

/-- the guard of `TopKRedis.Insert` as the writer evaluates it on the sorted set `z` -/
def goOf (k : Nat) (z : List HElem) (f : Nat) : Bool :=
  decide (z.length < k) || (match z.head? with | some mn => decide (f ≥ mn.2) | none => false)

/-- `ZSCORE` as the Go code reads it (0 for a missing member) -/
def scoreOf (z : List HElem) (x : String) : Nat :=
  match z.find? (fun e => e.1 == x) with | some e => e.2 | none => 0

/-- the sorted set after the first `n` of the seven commands of `Insert x` with estimate `f`,
    started on the sorted set `z`:  ZCARD, ZRANGE 0 0, ZSCORE leave it alone; after ZREM the
    member `x` is GONE (if it had a positive score); after ZADD and the second ZCARD it is back
    with the new score — possibly as entry number `k + 1`; after ZPOPMIN the set is
    `offerRedis k z x f`. -/
def zAfter (k : Nat) (z : List HElem) (x : String) (f : Nat) (n : Nat) : List HElem :=
  if goOf k z f then
    (if n ≤ 3 then z
     else if n = 4 then (if scoreOf z x > 0 then z.filter (fun e => e.1 != x) else z)
     else if n ≤ 6 then TopK.zadd z x f
     else TopK.offerRedis k z x f)
  else z

theorem zadd_filter (z : List HElem) (x : String) (f : Nat) :
    TopK.zadd (z.filter (fun e => e.1 != x)) x f = TopK.zadd z x f := by
  simp [TopK.zadd]

theorem offerRedis_go (k : Nat) (z : List HElem) (x : String) (f : Nat) :
    TopK.offerRedis k z x f =
      if goOf k z f then (if (TopK.zadd z x f).length > k then (TopK.zadd z x f).tail else TopK.zadd z x f)
      else z := rfl

/-- the five commands after the guard has been evaluated -/
def restProg (x : String) (f : Nat) : List Cmd :=
  [.zscore false x, .zrem false x, .zadd false x f, .zcard2 false, .zpopmin false]

theorem insertProg_eq (x : String) (f : Nat) :
    insertProg false x f = [.zcard false, .zrange false f] ++ restProg x f := rfl

/-- the state after ZCARD and ZRANGE 0 0 -/
theorem exec_two (k : Nat) (s : St) (f : Nat) :
    exec (step k) s [.zcard false, .zrange false f] =
      ⟨s.z, { card := s.z.length, go := goOf k s.z f, score := s.la.score, card2 := s.la.card2 }, s.lb⟩ :=
  rfl

theorem rest_false (k : Nat) (s : St) (x : String) (f : Nat) (hg : s.la.go = false) (m : Nat) :
    (exec (step k) s ((restProg x f).take m)).z = s.z := by
  rcases m with _ | _ | _ | _ | _ | m <;>
    simp [exec, restProg, step, St.loc, hg]

/-- the four commands after ZSCORE -/
def rest4 (x : String) (f : Nat) : List Cmd :=
  [.zrem false x, .zadd false x f, .zcard2 false, .zpopmin false]

theorem step_zscore (k : Nat) (s : St) (x : String) (hg : s.la.go = true) :
    step k s (.zscore false x) =
      ⟨s.z, { card := s.la.card, go := true, score := scoreOf s.z x, card2 := s.la.card2 }, s.lb⟩ := by
  show (if (s.loc false).go = true then _ else s) = _
  have : (s.loc false).go = true := hg
  rw [if_pos this]
  simp only [St.setLoc, St.loc, Bool.false_eq_true, if_false, hg]
  rfl

theorem rest4_true (k : Nat) (s : St) (x : String) (f : Nat) (hg : s.la.go = true) (m : Nat) :
    (exec (step k) s ((rest4 x f).take m)).z =
      if m = 0 then s.z
      else if m = 1 then (if s.la.score > 0 then s.z.filter (fun e => e.1 != x) else s.z)
      else if m ≤ 3 then TopK.zadd s.z x f
      else (if (TopK.zadd s.z x f).length > k then (TopK.zadd s.z x f).tail else TopK.zadd s.z x f) := by
  have hz := zadd_filter s.z x f
  by_cases hs : s.la.score > 0
  · rcases m with _ | _ | _ | _ | m
    · simp [exec]
    · simp [exec, rest4, step, St.loc, hg, hs]
    · simp [exec, rest4, step, St.loc, hg, hs, hz]
    · simp [exec, rest4, step, St.loc, St.setLoc, hg, hs, hz]
    · by_cases hk : (TopK.zadd s.z x f).length > k <;>
        simp [exec, rest4, step, St.loc, St.setLoc, hg, hs, hz, hk]
  · rcases m with _ | _ | _ | _ | m
    · simp [exec]
    · simp [exec, rest4, step, St.loc, hg, hs]
    · simp [exec, rest4, step, St.loc, hg, hs]
    · simp [exec, rest4, step, St.loc, St.setLoc, hg, hs]
    · by_cases hk : (TopK.zadd s.z x f).length > k <;>
        simp [exec, rest4, step, St.loc, St.setLoc, hg, hs, hk]

theorem rest_true (k : Nat) (s : St) (x : String) (f : Nat) (hg : s.la.go = true) (m : Nat) :
    (exec (step k) s ((restProg x f).take m)).z =
      if m ≤ 1 then s.z
      else if m = 2 then (if scoreOf s.z x > 0 then s.z.filter (fun e => e.1 != x) else s.z)
      else if m ≤ 4 then TopK.zadd s.z x f
      else (if (TopK.zadd s.z x f).length > k then (TopK.zadd s.z x f).tail else TopK.zadd s.z x f) := by
  rcases m with _ | m
  · simp [exec]
  · have : (restProg x f).take (m + 1) = .zscore false x :: (rest4 x f).take m := rfl
    rw [this]
    show (exec (step k) (step k s (.zscore false x)) ((rest4 x f).take m)).z = _
    rw [step_zscore k s x hg, rest4_true k _ x f rfl m]
    simp only
    by_cases h0 : m = 0
    · subst h0; simp
    · by_cases h1 : m = 1
      · subst h1; simp
      · by_cases h3 : m ≤ 3
        · have a1 : ¬ m + 1 ≤ 1 := by omega
          have a2 : ¬ m + 1 = 2 := by omega
          have a3 : m + 1 ≤ 4 := by omega
          simp [h0, h1, h3, a1, a2, a3]
        · have a1 : ¬ m + 1 ≤ 1 := by omega
          have a2 : ¬ m + 1 = 2 := by omega
          have a3 : ¬ m + 1 ≤ 4 := by omega
          simp [h0, h1, h3, a1, a2, a3]

/-- **the sorted set after every prefix of one `Insert`**, whatever the writer's locals were -/
theorem exec_take (k : Nat) (s : St) (x : String) (f : Nat) (n : Nat) :
    (exec (step k) s ((insertProg false x f).take n)).z = zAfter k s.z x f n := by
  rcases n with _ | _ | n
  · simp [zAfter, exec]
  · simp [zAfter, exec, insertProg, step, St.loc, St.setLoc]
  · have : (insertProg false x f).take (n + 2) = [.zcard false, .zrange false f] ++ (restProg x f).take n := by
      rw [insertProg_eq]; rfl
    rw [this]
    simp only [exec, List.foldl_append]
    have h2 := exec_two k s f
    simp only [exec] at h2
    rw [h2]
    cases hgo : goOf k s.z f with
    | false =>
      have := rest_false k ⟨s.z, { card := s.z.length, go := false, score := s.la.score, card2 := s.la.card2 }, s.lb⟩
        x f rfl n
      simp only [exec] at this
      rw [this]
      simp [zAfter, hgo]
    | true =>
      have := rest_true k ⟨s.z, { card := s.z.length, go := true, score := s.la.score, card2 := s.la.card2 }, s.lb⟩
        x f rfl n
      simp only [exec] at this
      rw [this]
      simp only [zAfter, hgo, if_true, offerRedis_go]
      by_cases h1 : n ≤ 1
      · have : n + 1 + 1 ≤ 3 := by omega
        simp [h1, this]
      · by_cases h2 : n = 2
        · subst h2; simp
        · by_cases h3 : n ≤ 4
          · have a1 : ¬ n + 1 + 1 ≤ 3 := by omega
            have a2 : ¬ n + 1 + 1 = 4 := by omega
            have a3 : n + 1 + 1 ≤ 6 := by omega
            simp [h1, h2, h3, a1, a2, a3]
          · have a1 : ¬ n + 1 + 1 ≤ 3 := by omega
            have a2 : ¬ n + 1 + 1 = 4 := by omega
            have a3 : ¬ n + 1 + 1 ≤ 6 := by omega
            simp [h1, h2, h3, a1, a2, a3]

/-- a whole `Insert` of the writer computes `offerRedis`, whatever its locals were before -/
theorem insertProg_any (k : Nat) (s : St) (x : String) (f : Nat) :
    (exec (step k) s (insertProg false x f)).z = TopK.offerRedis k s.z x f := by
  have h := exec_take k s x f 7
  have ht : (insertProg false x f).take 7 = insertProg false x f := rfl
  rw [ht] at h
  rw [h, offerRedis_go]
  simp only [zAfter]
  cases hgo : goOf k s.z f <;> simp [offerRedis_go, hgo]

theorem writerCmds_cons (e : HElem) (es : List HElem) :
    writerCmds (e :: es) = insertProg false e.1 e.2 ++ writerCmds es := by
  simp [writerCmds]

/-- the writer alone: the sorted set after its inserts is the fold of `offerRedis` -/
theorem writer_seq (k : Nat) (ins : List HElem) (s : St) :
    (exec (step k) s (writerCmds ins)).z = ins.foldl (fun z e => TopK.offerRedis k z e.1 e.2) s.z := by
  induction ins generalizing s with
  | nil => rfl
  | cons e es ih =>
    rw [writerCmds_cons]
    simp only [exec, List.foldl_append, List.foldl_cons]
    have h1 := insertProg_any k s e.1 e.2
    have h2 := ih (exec (step k) s (insertProg false e.1 e.2))
    simp only [exec] at h1 h2
    rw [h2, h1]

/-- the sorted sets that exist while ONE insert of `(x, f)` runs on `z`: after 0, 1, …, 7 commands -/
def midStates (k : Nat) (z : List HElem) (x : String) (f : Nat) : List (List HElem) :=
  (List.range 8).map (zAfter k z x f)

/-- **what a reader can observe** while the writer runs the inserts `ins` from the sorted set `z` -/
def observable (k : Nat) : List HElem → List HElem → List (List HElem)
  | z, [] => [z]
  | z, e :: es => midStates k z e.1 e.2 ++ observable k (TopK.offerRedis k z e.1 e.2) es

/-- the sorted set after any PREFIX of the writer's command sequence is observable -/
theorem prefix_observable (k : Nat) (ins : List HElem) :
    ∀ (s : St) (p q : List Cmd), p ++ q = writerCmds ins →
      (exec (step k) s p).z ∈ observable k s.z ins := by
  induction ins with
  | nil =>
    intro s p q h
    have : p = [] := by
      have : p ++ q = [] := h
      exact (List.append_eq_nil_iff.1 this).1
    subst this
    simp [observable, exec]
  | cons e es ih =>
    intro s p q h
    rw [writerCmds_cons] at h
    rcases List.append_eq_append_iff.1 h with ⟨a', h1, _⟩ | ⟨c', h1, h2⟩
    · have hp : p = (insertProg false e.1 e.2).take p.length := by rw [h1]; simp
      have hlen : p.length ≤ 7 := by
        have : (insertProg false e.1 e.2).length = 7 := rfl
        rw [h1] at this; simp at this; omega
      rw [hp, exec_take]
      simp only [observable, List.mem_append]
      left
      exact List.mem_map.2 ⟨p.length, List.mem_range.2 (by omega), rfl⟩
    · subst h1
      simp only [observable, List.mem_append]
      right
      have := ih (exec (step k) s (insertProg false e.1 e.2)) c' q h2.symm
      rw [insertProg_any] at this
      simpa [exec, List.foldl_append] using this

end C16TopKR

/-! ## Top-K: two writers that refresh two different tracked elements -/
namespace C16TopK2
open C16TopK (St Cmd Local step insertProg)
open TopK (zLt zadd ZSorted)
open Redis (ZWf)

/-! #### canonical sorted sets are determined by their members -/

theorem zLt_irrefl (a : HElem) : zLt a a = false := by
  simp [zLt, String.lt_irrefl]

theorem zLt_asymm (a b : HElem) (h : zLt a b = true) : zLt b a = false := by
  cases h' : zLt b a with
  | false => rfl
  | true =>
    have := TopK.zLt_trans a b a h h'
    rw [zLt_irrefl] at this; cases this

theorem zsorted_ext : ∀ (l1 l2 : List HElem), ZSorted l1 → ZSorted l2 →
    (∀ e, e ∈ l1 ↔ e ∈ l2) → l1 = l2 := by
  intro l1
  induction l1 with
  | nil =>
    intro l2 _ _ h
    cases l2 with
    | nil => rfl
    | cons b t2 => exact absurd ((h b).2 List.mem_cons_self) (by simp)
  | cons a t1 ih =>
    intro l2 h1 h2 h
    cases l2 with
    | nil => exact absurd ((h a).1 List.mem_cons_self) (by simp)
    | cons b t2 =>
      have p1 := List.pairwise_cons.1 h1
      have p2 := List.pairwise_cons.1 h2
      have hab : a = b := by
        rcases List.mem_cons.1 ((h a).1 List.mem_cons_self) with e | e
        · exact e
        · rcases List.mem_cons.1 ((h b).2 List.mem_cons_self) with e' | e'
          · exact e'.symm
          · have x1 := p2.1 a e
            have x2 := p1.1 b e'
            rw [zLt_asymm _ _ x1] at x2; cases x2
      subst hab
      congr 1
      apply ih t2 p1.2 p2.2
      intro e
      constructor
      · intro he
        rcases List.mem_cons.1 ((h e).1 (List.mem_cons_of_mem _ he)) with e' | e'
        · subst e'
          have := p1.1 e he
          rw [zLt_irrefl] at this; cases this
        · exact e'
      · intro he
        rcases List.mem_cons.1 ((h e).2 (List.mem_cons_of_mem _ he)) with e' | e'
        · subst e'
          have := p2.1 e he
          rw [zLt_irrefl] at this; cases this
        · exact e'

theorem mem_zadd (z : List HElem) (x : String) (f : Nat) (e : HElem) :
    e ∈ zadd z x f ↔ e = (x, f) ∨ (e ∈ z ∧ e.1 ≠ x) := by
  rw [(TopK.zadd_perm z x f).mem_iff, TopK.mem_upsert]
  exact Or.comm

theorem mem_zrem (z : List HElem) (x : String) (e : HElem) :
    e ∈ z.filter (fun e => e.1 != x) ↔ e ∈ z ∧ e.1 ≠ x := by
  simp [List.mem_filter]

theorem length_zadd (z : List HElem) (x : String) (f : Nat) :
    (zadd z x f).length = (z.filter (fun e => e.1 != x)).length + 1 := by
  unfold zadd
  rw [(TopK.insertSorted_perm zLt (x, f) _).length_eq]; rfl

theorem length_filter_lt (z : List HElem) (x : String) (v : Nat) (h : (x, v) ∈ z) :
    (z.filter (fun e => e.1 != x)).length + 1 ≤ z.length := by
  induction z with
  | nil => cases h
  | cons a t ih =>
    rw [List.filter_cons]
    rcases List.mem_cons.1 h with e | e
    · subst e
      simp only [bne_self_eq_false, Bool.false_eq_true, if_false, List.length_cons]
      have := List.length_filter_le (fun e : HElem => e.1 != x) t
      omega
    · have := ih e
      split <;> simp only [List.length_cons] <;> omega

/-- in a canonical sorted set a member name has one entry -/
theorem mem_unique (z : List HElem) (h : ZWf z) (x : String) (v w : Nat) (h1 : (x, v) ∈ z)
    (h2 : (x, w) ∈ z) : v = w := by
  have e1 := (Redis.zscore_eq_some_iff z x v h).2 h1
  have e2 := (Redis.zscore_eq_some_iff z x w h).2 h2
  rw [e1] at e2
  exact Option.some.inj e2

/-- the guard `f ≥ minimum score` holds as soon as SOME member has a score `≤ f` -/
theorem head_le_of_mem (z : List HElem) (h : ZSorted z) (e : HElem) (he : e ∈ z) (f : Nat)
    (hf : e.2 ≤ f) : (match z.head? with | some mn => decide (f ≥ mn.2) | none => false) = true := by
  cases z with
  | nil => cases he
  | cons m t =>
    have := TopK.zsorted_head_min m t h e he
    simp only [List.head?_cons, decide_eq_true_eq]
    omega


/-! #### the invariant of two refreshing writers -/

/-- a refresh: the member, its score in the initial sorted set, the new estimate -/
structure Ref where
  name : String
  olds : Nat
  news : Nat

/-- where the member of a writer is: still with its old score, removed (between ZREM and ZADD), or
    back with the new score -/
inductive Status where
  | old | gone | new
  deriving DecidableEq

/-- the status of a writer's member from the number of commands it has executed and its locals -/
def stat (pc : Nat) (l : Local) : Status :=
  if pc ≤ 3 then .old else if pc = 4 then (if l.score > 0 then .gone else .old) else .new

def entry (r : Ref) : Status → Option HElem
  | .old => some (r.name, r.olds)
  | .gone => none
  | .new => some (r.name, r.news)

def goneN : Status → Nat
  | .gone => 1
  | _ => 0

/-- the `n`-th command of `insertProg c r.name r.news` -/
def cmdAt (c : Bool) (r : Ref) : Nat → Cmd
  | 0 => .zcard c
  | 1 => .zrange c r.news
  | 2 => .zscore c r.name
  | 3 => .zrem c r.name
  | 4 => .zadd c r.name r.news
  | 5 => .zcard2 c
  | _ => .zpopmin c

theorem insertProg_getElem? (c : Bool) (r : Ref) (n : Nat) :
    (insertProg c r.name r.news)[n]? = if n < 7 then some (cmdAt c r n) else none := by
  rcases n with _ | _ | _ | _ | _ | _ | _ | n <;> simp [insertProg, cmdAt]

theorem loc_setLoc_self (s : St) (c : Bool) (l : Local) : (s.setLoc c l).loc c = l := by
  cases c <;> rfl
theorem loc_setLoc_other (s : St) (c : Bool) (l : Local) : (s.setLoc c l).loc (!c) = s.loc (!c) := by
  cases c <;> rfl
theorem z_setLoc (s : St) (c : Bool) (l : Local) : (s.setLoc c l).z = s.z := by
  cases c <;> rfl
theorem loc_withZ (s : St) (z : List HElem) (c : Bool) : ({ s with z := z } : St).loc c = s.loc c := by
  cases c <;> rfl

section
variable (k : Nat) (z0 : List HElem) (rf : Bool → Ref)

/-- the entries of the initial set that belong to neither writer -/
def restMem (e : HElem) : Prop := e ∈ z0 ∧ e.1 ≠ (rf false).name ∧ e.1 ≠ (rf true).name

/-- the invariant; `pc c` = number of commands writer `c` has executed -/
structure Inv (pc : Bool → Nat) (s : St) : Prop where
  wf : ZWf s.z
  mem : ∀ c e, e ∈ s.z ↔ restMem z0 rf e ∨ entry (rf c) (stat (pc c) (s.loc c)) = some e ∨
      entry (rf !c) (stat (pc !c) (s.loc !c)) = some e
  len : ∀ c, s.z.length + goneN (stat (pc c) (s.loc c)) + goneN (stat (pc !c) (s.loc !c)) ≤ k
  go : ∀ c, 2 ≤ pc c → (s.loc c).go = true
  card2 : ∀ c, 6 ≤ pc c → (s.loc c).card2 ≤ k

/-- writer `c` has executed one more command -/
def bumpB (pc : Bool → Nat) (c : Bool) : Bool → Nat := fun d => if d = c then pc c + 1 else pc d

theorem bumpB_self (pc : Bool → Nat) (c : Bool) : bumpB pc c c = pc c + 1 := by simp [bumpB]
theorem bumpB_other (pc : Bool → Nat) (c : Bool) : bumpB pc c (!c) = pc (!c) := by
  cases c <;> simp [bumpB]

variable {k z0 rf}

/-- it suffices to establish the `c`-oriented forms of `mem` and `len` -/
theorem Inv.of_c {pc : Bool → Nat} {s : St} (c : Bool) (wf : ZWf s.z)
    (mem : ∀ e, e ∈ s.z ↔ restMem z0 rf e ∨ entry (rf c) (stat (pc c) (s.loc c)) = some e ∨
      entry (rf !c) (stat (pc !c) (s.loc !c)) = some e)
    (len : s.z.length + goneN (stat (pc c) (s.loc c)) + goneN (stat (pc !c) (s.loc !c)) ≤ k)
    (go : ∀ c, 2 ≤ pc c → (s.loc c).go = true) (card2 : ∀ c, 6 ≤ pc c → (s.loc c).card2 ≤ k) :
    Inv k z0 rf pc s := by
  refine ⟨wf, ?_, ?_, go, card2⟩
  · intro d e
    by_cases hd : d = c
    · subst hd; exact mem e
    · have : d = !c := by cases d <;> cases c <;> simp_all
      subst this
      rw [Bool.not_not, mem e]
      constructor
      · rintro (h | h | h)
        · exact Or.inl h
        · exact Or.inr (Or.inr h)
        · exact Or.inr (Or.inl h)
      · rintro (h | h | h)
        · exact Or.inl h
        · exact Or.inr (Or.inr h)
        · exact Or.inr (Or.inl h)
  · intro d
    by_cases hd : d = c
    · subst hd; exact len
    · have : d = !c := by cases d <;> cases c <;> simp_all
      subst this
      rw [Bool.not_not]; omega

/-- a command of writer `c` that changes neither the sorted set nor the status of its member -/
theorem inv_frame {pc : Bool → Nat} {s s' : St} (hI : Inv k z0 rf pc s) (c : Bool)
    (hz : s'.z = s.z) (ho : s'.loc (!c) = s.loc (!c))
    (hs : stat (pc c + 1) (s'.loc c) = stat (pc c) (s.loc c))
    (hgo : 2 ≤ pc c + 1 → (s'.loc c).go = true) (hc2 : 6 ≤ pc c + 1 → (s'.loc c).card2 ≤ k) :
    Inv k z0 rf (bumpB pc c) s' := by
  apply Inv.of_c c
  · rw [hz]; exact hI.wf
  · intro e
    rw [hz, bumpB_self, bumpB_other, ho, hs]
    exact hI.mem c e
  · rw [hz, bumpB_self, bumpB_other, ho, hs]
    exact hI.len c
  · intro d hd
    by_cases e : d = c
    · subst e; rw [bumpB_self] at hd; exact hgo hd
    · have : d = !c := by cases d <;> cases c <;> simp_all
      subst this
      rw [bumpB_other] at hd; rw [ho]; exact hI.go _ hd
  · intro d hd
    by_cases e : d = c
    · subst e; rw [bumpB_self] at hd; exact hc2 hd
    · have : d = !c := by cases d <;> cases c <;> simp_all
      subst this
      rw [bumpB_other] at hd; rw [ho]; exact hI.card2 _ hd


theorem entry_name (r : Ref) (st : Status) (e : HElem) (h : entry r st = some e) : e.1 = r.name := by
  cases st <;> simp only [entry] at h
  · cases h; rfl
  · cases h
  · cases h; rfl

/-- what is assumed of the two refreshes -/
structure Hyp (k : Nat) (z0 : List HElem) (rf : Bool → Ref) : Prop where
  wf0 : ZWf z0
  len0 : z0.length ≤ k
  ne : (rf false).name ≠ (rf true).name
  tracked : ∀ c, ((rf c).name, (rf c).olds) ∈ z0
  mono : ∀ c, (rf c).olds ≤ (rf c).news

theorem Hyp.ne_c (H : Hyp k z0 rf) (c : Bool) : (rf c).name ≠ (rf !c).name := by
  cases c
  · exact H.ne
  · exact fun e => H.ne e.symm

theorem restMem_ne (c : Bool) (e : HElem) (h : restMem z0 rf e) : e.1 ≠ (rf c).name := by
  cases c
  · exact h.2.1
  · exact h.2.2

/-- **the invariant is kept by the next command of either writer** -/
theorem inv_step (H : Hyp k z0 rf) {pc : Bool → Nat} {s : St} (hI : Inv k z0 rf pc s) (c : Bool)
    (hk : pc c < 7) : Inv k z0 rf (bumpB pc c) (step k s (cmdAt c (rf c) (pc c))) := by
  have hne := H.ne_c c
  rcases hpc : pc c with _ | _ | _ | _ | _ | _ | _ | n
  · -- ZCARD
    apply inv_frame hI c (z_setLoc _ _ _) (loc_setLoc_other _ _ _)
    · simp [stat, hpc]
    · intro h; omega
    · intro h; omega
  · -- ZRANGE 0 0: the member is still there with a score ≤ the new estimate
    have hm : ((rf c).name, (rf c).olds) ∈ s.z :=
      (hI.mem c _).2 (Or.inr (Or.inl (by simp [stat, hpc, entry])))
    apply inv_frame hI c (z_setLoc _ _ _) (loc_setLoc_other _ _ _)
    · simp [stat, hpc]
    · intro _
      rw [loc_setLoc_self]
      show (decide ((s.loc c).card < k) || _) = true
      rw [Bool.or_eq_true]; right
      exact head_le_of_mem s.z hI.wf.1 _ hm _ (H.mono c)
    · intro h; omega
  · -- ZSCORE
    have hgo := hI.go c (by omega)
    simp only [cmdAt, step, hgo, if_true]
    apply inv_frame hI c (z_setLoc _ _ _) (loc_setLoc_other _ _ _)
    · simp [stat, hpc]
    · intro _; rw [loc_setLoc_self]
    · intro h; omega
  · -- ZREM
    have hgo := hI.go c (by omega)
    have hm : ((rf c).name, (rf c).olds) ∈ s.z :=
      (hI.mem c _).2 (Or.inr (Or.inl (by simp [stat, hpc, entry])))
    simp only [cmdAt, step, hgo, true_and]
    by_cases hs : (s.loc c).score > 0
    · rw [if_pos hs]
      apply Inv.of_c c
      · exact Redis.zrem_wf s.z _ hI.wf
      · intro e
        simp only [loc_withZ, bumpB_self, bumpB_other, hpc]
        have hst : stat (2 + 1 + 1) (s.loc c) = .gone := by simp [stat, hs]
        rw [hst, mem_zrem, hI.mem c e]
        have hold : stat (pc c) (s.loc c) = .old := by simp [stat, hpc]
        rw [hold]
        constructor
        · rintro ⟨h | h | h, hn⟩
          · exact Or.inl h
          · exact absurd (entry_name _ _ _ h) hn
          · exact Or.inr (Or.inr h)
        · rintro (h | h | h)
          · exact ⟨Or.inl h, restMem_ne c e h⟩
          · simp [entry] at h
          · exact ⟨Or.inr (Or.inr h), by rw [entry_name _ _ _ h]; exact fun x => hne x.symm⟩
      · simp only [loc_withZ, bumpB_self, bumpB_other, hpc]
        have hst : stat (2 + 1 + 1) (s.loc c) = .gone := by simp [stat, hs]
        have hold : stat (pc c) (s.loc c) = .old := by simp [stat, hpc]
        have h1 := hI.len c
        rw [hold] at h1
        rw [hst]
        have h2 := length_filter_lt s.z _ _ hm
        simp only [goneN] at h1 ⊢
        omega
      · intro d hd; rw [loc_withZ]
        by_cases e : d = c
        · subst e; exact hgo
        · have : d = !c := by cases d <;> cases c <;> simp_all
          subst this; rw [bumpB_other] at hd; exact hI.go _ hd
      · intro d hd; rw [loc_withZ]
        by_cases e : d = c
        · subst e; rw [bumpB_self] at hd; omega
        · have : d = !c := by cases d <;> cases c <;> simp_all
          subst this; rw [bumpB_other] at hd; exact hI.card2 _ hd
    · rw [if_neg hs]
      apply inv_frame hI c rfl rfl
      · simp [stat, hpc, hs]
      · intro _; exact hgo
      · intro h; omega
  · -- ZADD
    have hgo := hI.go c (by omega)
    simp only [cmdAt, step, hgo, if_true]
    apply Inv.of_c c
    · exact Redis.zadd_wf s.z _ _ hI.wf
    · intro e
      simp only [loc_withZ, bumpB_self, bumpB_other, hpc]
      have hst : stat (3 + 1 + 1) (s.loc c) = .new := by simp [stat]
      rw [hst, mem_zadd, hI.mem c e]
      constructor
      · rintro (h | ⟨h | h | h, hn⟩)
        · exact Or.inr (Or.inl (by rw [h]; rfl))
        · exact Or.inl h
        · exact absurd (entry_name _ _ _ h) hn
        · exact Or.inr (Or.inr h)
      · rintro (h | h | h)
        · exact Or.inr ⟨Or.inl h, restMem_ne c e h⟩
        · left; simp only [entry, Option.some.injEq] at h; exact h.symm
        · exact Or.inr ⟨Or.inr (Or.inr h), by rw [entry_name _ _ _ h]; exact fun x => hne x.symm⟩
    · simp only [loc_withZ, bumpB_self, bumpB_other, hpc]
      have hst : stat (3 + 1 + 1) (s.loc c) = .new := by simp [stat]
      rw [hst, length_zadd]
      have h1 := hI.len c
      by_cases hs : (s.loc c).score > 0
      · have hold : stat (pc c) (s.loc c) = .gone := by simp [stat, hpc, hs]
        rw [hold] at h1
        have := List.length_filter_le (fun e : HElem => e.1 != (rf c).name) s.z
        simp only [goneN] at h1 ⊢
        omega
      · have hold : stat (pc c) (s.loc c) = .old := by simp [stat, hpc, hs]
        rw [hold] at h1
        have hm : ((rf c).name, (rf c).olds) ∈ s.z :=
          (hI.mem c _).2 (Or.inr (Or.inl (by rw [hold]; rfl)))
        have h2 := length_filter_lt s.z _ _ hm
        simp only [goneN] at h1 ⊢
        omega
    · intro d hd; rw [loc_withZ]
      by_cases e : d = c
      · subst e; exact hgo
      · have : d = !c := by cases d <;> cases c <;> simp_all
        subst this; rw [bumpB_other] at hd; exact hI.go _ hd
    · intro d hd; rw [loc_withZ]
      by_cases e : d = c
      · subst e; rw [bumpB_self] at hd; omega
      · have : d = !c := by cases d <;> cases c <;> simp_all
        subst this; rw [bumpB_other] at hd; exact hI.card2 _ hd
  · -- second ZCARD
    have hgo := hI.go c (by omega)
    simp only [cmdAt, step, hgo, if_true]
    apply inv_frame hI c (z_setLoc _ _ _) (loc_setLoc_other _ _ _)
    · simp [stat, hpc]
    · intro _; rw [loc_setLoc_self]
    · intro _
      rw [loc_setLoc_self]
      have := hI.len c
      show s.z.length ≤ k
      omega
  · -- ZPOPMIN: never runs
    have hgo := hI.go c (by omega)
    have hc2 := hI.card2 c (by omega)
    have : ¬ ((s.loc c).go = true ∧ (s.loc c).card2 > k) := by omega
    simp only [cmdAt, step, this, if_false]
    apply inv_frame hI c rfl rfl
    · simp [stat, hpc]
    · intro _; exact hgo
    · intro _; exact hc2
  · omega


/-! #### every interleaving of the two writers -/

/-- what is left of the two programs -/
def thr (rf : Bool → Ref) (pc : Bool → Nat) : List (List Cmd) :=
  [(insertProg false (rf false).name (rf false).news).drop (pc false),
   (insertProg true (rf true).name (rf true).news).drop (pc true)]

theorem thr_zero (rf : Bool → Ref) :
    thr rf (fun _ => 0) = [insertProg false (rf false).name (rf false).news,
      insertProg true (rf true).name (rf true).news] := rfl

theorem inv_init (H : Hyp k z0 rf) (s : St) (hz : s.z = z0) : Inv k z0 rf (fun _ => 0) s := by
  refine ⟨by rw [hz]; exact H.wf0, ?_, ?_, fun c h => by omega, fun c h => by omega⟩
  · intro c e
    have hst : ∀ d, stat 0 (s.loc d) = .old := fun d => rfl
    rw [hz, hst, hst]
    simp only [entry, Option.some.injEq]
    constructor
    · intro he
      by_cases h1 : e.1 = (rf c).name
      · right; left
        have : e = ((rf c).name, e.2) := by rw [← h1]
        rw [this] at he ⊢
        rw [mem_unique z0 H.wf0 _ _ _ he (H.tracked c)]
      · by_cases h2 : e.1 = (rf !c).name
        · right; right
          have : e = ((rf !c).name, e.2) := by rw [← h2]
          rw [this] at he ⊢
          rw [mem_unique z0 H.wf0 _ _ _ he (H.tracked !c)]
        · left
          refine ⟨he, ?_, ?_⟩ <;> cases c <;> simp_all
    · rintro (h | h | h)
      · exact h.1
      · rw [← h]; exact H.tracked c
      · rw [← h]; exact H.tracked !c
  · intro c
    have hst : ∀ d, stat 0 (s.loc d) = .old := fun d => rfl
    rw [hz, hst, hst]
    simp only [goneN]
    exact H.len0

theorem inv_interleaving (H : Hyp k z0 rf) :
    ∀ (ts : List (List Cmd)) (w : List Cmd), Interleaving ts w →
      ∀ (pc : Bool → Nat) (s : St), ts = thr rf pc → Inv k z0 rf pc s →
      ∃ pc', (∀ c, 7 ≤ pc' c) ∧ Inv k z0 rf pc' (exec (step k) s w) := by
  intro ts w hi
  induction hi with
  | done ts he =>
    intro pc s hts hI
    refine ⟨pc, ?_, hI⟩
    intro c
    have hm : (insertProg c (rf c).name (rf c).news).drop (pc c) ∈ ts := by
      rw [hts]; cases c <;> simp [thr]
    have hnil := he _ hm
    have hlen : ((insertProg c (rf c).name (rf c).news).drop (pc c)).length = 0 := by rw [hnil]; rfl
    rw [List.length_drop] at hlen
    have : (insertProg c (rf c).name (rf c).news).length = 7 := rfl
    omega
  | step ts i a t w hg _ ih =>
    intro pc s hts hI
    -- which writer moves
    obtain ⟨c, hi', hgc⟩ : ∃ c : Bool, i = (if c then 1 else 0) ∧
        (insertProg c (rf c).name (rf c).news).drop (pc c) = a :: t := by
      rw [hts] at hg
      rcases i with _ | _ | i
      · exact ⟨false, rfl, by simpa [thr] using hg⟩
      · exact ⟨true, rfl, by simpa [thr] using hg⟩
      · simp [thr] at hg
    obtain ⟨hget, hdrop⟩ := drop_eq_cons hgc
    rw [insertProg_getElem?] at hget
    have hk : pc c < 7 := by
      rcases Nat.lt_or_ge (pc c) 7 with h | h
      · exact h
      · simp [Nat.not_lt.2 h] at hget
    simp only [hk, if_true, Option.some.injEq] at hget
    have hstep := inv_step H hI c hk
    rw [hget] at hstep
    have hts' : ts.set i t = thr rf (bumpB pc c) := by
      rw [hts, hi', ← hdrop]
      cases c <;> simp [thr, bumpB]
    exact ih (bumpB pc c) (step k s a) hts' hstep

/-- **two writers refreshing two different tracked members**: every interleaving ends with both
    members at their new scores and everything else untouched -/
theorem two_refreshers (H : Hyp k z0 rf) (s0 : St) (hz : s0.z = z0) (w : List Cmd)
    (hi : Interleaving [insertProg false (rf false).name (rf false).news,
      insertProg true (rf true).name (rf true).news] w) :
    (exec (step k) s0 w).z
      = zadd (zadd z0 (rf false).name (rf false).news) (rf true).name (rf true).news := by
  obtain ⟨pc', hpc, hI⟩ := inv_interleaving H _ w hi (fun _ => 0) s0 (thr_zero rf).symm
    (inv_init H s0 hz)
  apply zsorted_ext _ _ hI.wf.1 (Redis.zadd_wf _ _ _ (Redis.zadd_wf _ _ _ H.wf0)).1
  intro e
  have hst : ∀ d, stat (pc' d) ((exec (step k) s0 w).loc d) = .new := by
    intro d
    have := hpc d
    have a1 : ¬ pc' d ≤ 3 := by omega
    have a2 : ¬ pc' d = 4 := by omega
    simp [stat, a1, a2]
  rw [hI.mem false e, hst, hst, mem_zadd, mem_zadd]
  simp only [entry, Option.some.injEq, Bool.not_false]
  constructor
  · rintro (h | h | h)
    · exact Or.inr ⟨Or.inr ⟨h.1, h.2.1⟩, h.2.2⟩
    · right; rw [← h]; exact ⟨Or.inl rfl, H.ne⟩
    · exact Or.inl h.symm
  · rintro (h | ⟨h | h, hn⟩)
    · exact Or.inr (Or.inr h.symm)
    · exact Or.inr (Or.inl h.symm)
    · exact Or.inl ⟨h.1, h.2, hn⟩

end

end C16TopK2

/-! #### size of what a reader can observe -/
namespace C16TopKR

theorem length_zadd_le (z : List HElem) (x : String) (f : Nat) : (TopK.zadd z x f).length ≤ z.length + 1 := by
  rw [C16TopK2.length_zadd]
  have := List.length_filter_le (fun e : HElem => e.1 != x) z
  omega

theorem length_offerRedis_le (k : Nat) (z : List HElem) (x : String) (f : Nat) (h : z.length ≤ k) :
    (TopK.offerRedis k z x f).length ≤ k := by
  rw [offerRedis_go]
  have := length_zadd_le z x f
  split
  · split
    · rw [List.length_tail]; omega
    · omega
  · exact h

theorem length_zAfter_le (k : Nat) (z : List HElem) (x : String) (f : Nat) (n : Nat) (h : z.length ≤ k) :
    (zAfter k z x f n).length ≤ k + 1 := by
  have h1 := length_zadd_le z x f
  have h2 := length_offerRedis_le k z x f h
  have h3 := List.length_filter_le (fun e : HElem => e.1 != x) z
  unfold zAfter
  split
  · split
    · omega
    · split
      · split <;> omega
      · split <;> omega
  · omega

/-- a reader never sees more than `k + 1` entries (and `k + 1` is attained, see Props/C16Cond.lean) -/
theorem observable_length (k : Nat) (ins : List HElem) :
    ∀ (z : List HElem), z.length ≤ k → ∀ o ∈ observable k z ins, o.length ≤ k + 1 := by
  induction ins with
  | nil =>
    intro z h o ho
    simp only [observable, List.mem_singleton] at ho
    subst ho; omega
  | cons e es ih =>
    intro z h o ho
    simp only [observable, List.mem_append] at ho
    rcases ho with ho | ho
    · simp only [midStates, List.mem_map] at ho
      obtain ⟨n, _, rfl⟩ := ho
      exact length_zAfter_le k z e.1 e.2 n h
    · exact ih _ (length_offerRedis_le k z e.1 e.2 h) o ho

end C16TopKR
end Gostatix
