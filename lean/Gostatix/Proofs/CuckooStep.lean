/-
  Gostatix.Proofs.CuckooStep — per-bucket / whole-table counting functions for a list of buckets
  and the effect of the three primitive updates (overwrite a slot of a full bucket, add into a
  bucket with room, remove a stored fingerprint) on them.  Generic in the bucket implementation.
-/
import Gostatix.Proofs.CuckooBucket
set_option linter.unusedSectionVars false
namespace Gostatix.Cuckoo

section
variable {B F : Type} [DecidableEq F] [Inhabited B] {o : BucketOps B F} {emp : F}

/-- copies of `g` in bucket `j` -/
def cntB (L : LawfulBucket o emp) (bs : List B) (j : Nat) (g : F) : Nat :=
  (L.slots (bucketAt bs j)).count g
/-- occupied slots of bucket `j` -/
def occB (L : LawfulBucket o emp) (bs : List B) (j : Nat) : Nat :=
  occ emp (L.slots (bucketAt bs j))
/-- copies of `g` in the whole table -/
def tcnt (L : LawfulBucket o emp) (bs : List B) (g : F) : Nat :=
  tot (fun b => (L.slots b).count g) bs
/-- occupied slots of the whole table -/
def tocc (L : LawfulBucket o emp) (bs : List B) : Nat :=
  tot (fun b => occ emp (L.slots b)) bs

/-- `n` well-formed buckets of size `s` -/
structure WFbs (L : LawfulBucket o emp) (n s : Nat) (bs : List B) : Prop where
  len : bs.length = n
  wfb : ∀ b ∈ bs, L.wfb s b

theorem bucketAt_modAt (bs : List B) (i j : Nat) (f : B → B) (hi : i < bs.length) :
    bucketAt (modAt bs i f) j = if j = i then f (bucketAt bs i) else bucketAt bs j :=
  modAt_getD bs i j f default hi

theorem bucketAt_mem (bs : List B) (j : Nat) (hj : j < bs.length) : bucketAt bs j ∈ bs :=
  getD_mem_of_lt bs j default hj

theorem WFbs.at {L : LawfulBucket o emp} {n s : Nat} {bs : List B} (h : WFbs L n s bs)
    (j : Nat) (hj : j < n) : L.wfb s (bucketAt bs j) :=
  h.wfb _ (bucketAt_mem bs j (by rw [h.len]; exact hj))

theorem WFbs.modAt {L : LawfulBucket o emp} {n s : Nat} {bs : List B} (h : WFbs L n s bs)
    (i : Nat) (f : B → B) (hf : L.wfb s (f (bucketAt bs i))) : WFbs L n s (modAt bs i f) :=
  ⟨by rw [modAt_length, h.len], forall_mem_modAt bs i f default _ h.wfb (fun _ => hf)⟩

/-- a well-formed bucket without room has exactly `s` slots, none of them empty -/
theorem full_of_not_free (L : LawfulBucket o emp) (s : Nat) (b : B) (h : L.wfb s b)
    (hf : o.isFree b = false) : (L.slots b).length = s ∧ emp ∉ L.slots b := by
  have h1 := L.len_le s b h
  have h2 := occ_le_length emp (L.slots b)
  have h3 : ¬ occ emp (L.slots b) < s := by
    intro hlt; rw [(L.isFree_iff s b h).mpr hlt] at hf; cases hf
  have h4 : occ emp (L.slots b) = (L.slots b).length := by omega
  exact ⟨by omega, not_mem_emp_of_occ_eq_length emp _ h4⟩

theorem isFree_congr (L : LawfulBucket o emp) (s : Nat) (b b' : B) (h : L.wfb s b) (h' : L.wfb s b')
    (ho : occ emp (L.slots b') = occ emp (L.slots b)) : o.isFree b' = o.isFree b := by
  rw [Bool.eq_iff_iff, L.isFree_iff s b h, L.isFree_iff s b' h', ho]

/-! ### overwrite a slot of a full bucket -/

theorem set_full_bucket (L : LawfulBucket o emp) (s : Nat) (b : B) (slot : Nat) (cur : F)
    (h : L.wfb s b) (hf : o.isFree b = false) (hslot : slot < s) (hcur : cur ≠ emp) :
    o.get b slot ≠ emp ∧ o.get b slot ∈ L.slots b ∧ L.wfb s (o.set b slot cur) ∧
    occ emp (L.slots (o.set b slot cur)) = occ emp (L.slots b) ∧
    ∀ g, (L.slots (o.set b slot cur)).count g + ind (o.get b slot = g)
        = (L.slots b).count g + ind (cur = g) := by
  obtain ⟨hl, hne⟩ := full_of_not_free L s b h hf
  have hi : slot < (L.slots b).length := by omega
  have hp : o.get b slot ≠ emp := by
    rw [L.get_eq]; exact getD_ne_emp_of_not_mem emp _ slot hi hne
  have ho : occ emp ((L.slots b).set slot cur) = occ emp (L.slots b) := by
    have := occ_set_add emp (L.slots b) slot cur emp hi
    rw [← L.get_eq] at this
    simp only [ind, ne_eq, hp, not_false_eq_true, if_true, hcur] at this
    omega
  refine ⟨hp, ?_, L.wfb_set s b slot cur h ho, by rw [L.slots_set]; exact ho, ?_⟩
  · rw [L.get_eq]; exact getD_mem_of_lt _ _ _ hi
  · intro g
    rw [L.slots_set, L.get_eq]
    exact count_set_add (L.slots b) slot cur emp g hi

/-- facts about one overwrite step of the eviction loop -/
structure SetStep (L : LawfulBucket o emp) (n s : Nat) (bs bs1 : List B) (idx : Nat)
    (cur prev : F) : Prop where
  wf : WFbs L n s bs1
  prev_ne : prev ≠ emp
  prev_mem : 0 < cntB L bs idx prev
  free : ∀ j, o.isFree (bucketAt bs1 j) = o.isFree (bucketAt bs j)
  occB : ∀ j, occB L bs1 j = occB L bs j
  cnt : ∀ j g, cntB L bs1 j g + ind (j = idx ∧ prev = g) = cntB L bs j g + ind (j = idx ∧ cur = g)
  tcnt : ∀ g, tcnt L bs1 g + ind (prev = g) = tcnt L bs g + ind (cur = g)
  tocc : tocc L bs1 = tocc L bs

theorem set_step (L : LawfulBucket o emp) (n s : Nat) (bs : List B) (idx slot : Nat) (cur : F)
    (h : WFbs L n s bs) (hidx : idx < n) (hf : o.isFree (bucketAt bs idx) = false)
    (hslot : slot < s) (hcur : cur ≠ emp) :
    SetStep L n s bs (modAt bs idx (fun b => o.set b slot cur)) idx cur
      (o.get (bucketAt bs idx) slot) := by
  have hlen : idx < bs.length := by rw [h.len]; exact hidx
  obtain ⟨h1, h2, h3, h4, h5⟩ :=
    set_full_bucket L s (bucketAt bs idx) slot cur (h.at idx hidx) hf hslot hcur
  have hb := fun j => bucketAt_modAt bs idx j (fun b => o.set b slot cur) hlen
  refine ⟨h.modAt idx _ h3, h1, ?_, ?_, ?_, ?_, ?_, ?_⟩
  · exact List.count_pos_iff.mpr h2
  · intro j
    rw [hb j]
    by_cases e : j = idx
    · subst e; rw [if_pos rfl]
      exact isFree_congr L s _ _ (h.at j hidx) h3 h4
    · rw [if_neg e]
  · intro j
    unfold Cuckoo.occB
    rw [hb j]
    by_cases e : j = idx
    · subst e; rw [if_pos rfl]; exact h4
    · rw [if_neg e]
  · intro j g
    unfold cntB
    rw [hb j]
    by_cases e : j = idx
    · subst e; simpa [ind] using h5 g
    · simp [ind, e]
  · intro g
    have := tot_modAt (fun b => (L.slots b).count g) bs idx (fun b => o.set b slot cur) default hlen
    have h5g := h5 g
    unfold Cuckoo.tcnt
    change tot _ _ + (L.slots (bucketAt bs idx)).count g = tot _ _ +
      (L.slots (o.set (bucketAt bs idx) slot cur)).count g at this
    omega
  · have := tot_modAt (fun b => occ emp (L.slots b)) bs idx (fun b => o.set b slot cur) default hlen
    unfold Cuckoo.tocc
    change tot _ _ + occ emp (L.slots (bucketAt bs idx)) = tot _ _ +
      occ emp (L.slots (o.set (bucketAt bs idx) slot cur)) at this
    omega

/-! ### add into a bucket with room -/

structure AddStep (L : LawfulBucket o emp) (n s : Nat) (bs bs' : List B) (j0 : Nat) (e : F) : Prop where
  wf : WFbs L n s bs'
  occB : ∀ j, occB L bs' j = occB L bs j + ind (j = j0)
  cnt : ∀ j g, g ≠ emp → cntB L bs' j g = cntB L bs j g + ind (j = j0 ∧ e = g)
  tcnt : ∀ g, g ≠ emp → tcnt L bs' g = tcnt L bs g + ind (e = g)
  tocc : tocc L bs' = tocc L bs + 1

theorem add_step (L : LawfulBucket o emp) (n s : Nat) (bs : List B) (j0 : Nat) (e : F)
    (h : WFbs L n s bs) (hj0 : j0 < n) (hf : o.isFree (bucketAt bs j0) = true) (he : e ≠ emp) :
    AddStep L n s bs (modAt bs j0 (fun b => o.add b e)) j0 e := by
  have hlen : j0 < bs.length := by rw [h.len]; exact hj0
  have hw := h.at j0 hj0
  have hb := fun j => bucketAt_modAt bs j0 j (fun b => o.add b e) hlen
  refine ⟨h.modAt j0 _ (L.wfb_add s _ e hw hf he), ?_, ?_, ?_, ?_⟩
  · intro j
    unfold Cuckoo.occB
    rw [hb j]
    by_cases e' : j = j0
    · subst e'; simp only [ind, if_true]; exact L.occ_add s _ e hw hf he
    · simp [ind, e']
  · intro j g hg
    unfold cntB
    rw [hb j]
    by_cases e' : j = j0
    · subst e'; simpa [ind] using L.count_add s _ e g hw hf he hg
    · simp [ind, e']
  · intro g hg
    have := tot_modAt (fun b => (L.slots b).count g) bs j0 (fun b => o.add b e) default hlen
    have hc := L.count_add s _ e g hw hf he hg
    unfold Cuckoo.tcnt
    change tot _ _ + (L.slots (bucketAt bs j0)).count g = tot _ _ +
      (L.slots (o.add (bucketAt bs j0) e)).count g at this
    omega
  · have := tot_modAt (fun b => occ emp (L.slots b)) bs j0 (fun b => o.add b e) default hlen
    have hc := L.occ_add s _ e hw hf he
    unfold Cuckoo.tocc
    change tot _ _ + occ emp (L.slots (bucketAt bs j0)) = tot _ _ +
      occ emp (L.slots (o.add (bucketAt bs j0) e)) at this
    omega

/-! ### remove a stored fingerprint -/

structure RemoveStep (L : LawfulBucket o emp) (n s : Nat) (bs bs' : List B) (j0 : Nat) (e : F) : Prop where
  wf : WFbs L n s bs'
  occB : ∀ j, occB L bs' j + ind (j = j0) = occB L bs j
  cnt : ∀ j g, g ≠ emp → cntB L bs' j g + ind (j = j0 ∧ e = g) = cntB L bs j g
  tcnt : ∀ g, g ≠ emp → tcnt L bs' g + ind (e = g) = tcnt L bs g
  tocc : tocc L bs' + 1 = tocc L bs

theorem remove_step (L : LawfulBucket o emp) (n s : Nat) (bs : List B) (j0 : Nat) (e : F)
    (h : WFbs L n s bs) (hj0 : j0 < n) (he : e ≠ emp) (hm : e ∈ L.slots (bucketAt bs j0)) :
    RemoveStep L n s bs (modAt bs j0 (fun b => o.remove b e)) j0 e := by
  have hlen : j0 < bs.length := by rw [h.len]; exact hj0
  have hw := h.at j0 hj0
  have hb := fun j => bucketAt_modAt bs j0 j (fun b => o.remove b e) hlen
  refine ⟨h.modAt j0 _ (L.wfb_remove s _ e hw he hm), ?_, ?_, ?_, ?_⟩
  · intro j
    unfold Cuckoo.occB
    rw [hb j]
    by_cases e' : j = j0
    · subst e'; simp only [ind, if_true]; exact L.occ_remove s _ e hw he hm
    · simp [ind, e']
  · intro j g hg
    unfold cntB
    rw [hb j]
    by_cases e' : j = j0
    · subst e'; simpa [ind] using L.count_remove s _ e g hw he hm hg
    · simp [ind, e']
  · intro g hg
    have := tot_modAt (fun b => (L.slots b).count g) bs j0 (fun b => o.remove b e) default hlen
    have hc := L.count_remove s _ e g hw he hm hg
    unfold Cuckoo.tcnt
    change tot _ _ + (L.slots (bucketAt bs j0)).count g = tot _ _ +
      (L.slots (o.remove (bucketAt bs j0) e)).count g at this
    omega
  · have := tot_modAt (fun b => occ emp (L.slots b)) bs j0 (fun b => o.remove b e) default hlen
    have hc := L.occ_remove s _ e hw he hm
    unfold Cuckoo.tocc
    change tot _ _ + occ emp (L.slots (bucketAt bs j0)) = tot _ _ +
      occ emp (L.slots (o.remove (bucketAt bs j0) e)) at this
    omega

end
end Gostatix.Cuckoo
