/-
  Gostatix.Proofs.RedisZSet — the sorted-set commands of Model/RedisTopK.lean: evaluation lemmas,
  preservation of the canonical form, the command sequence of `TopKRedis.Insert` computes
  `TopK.offerRedis`, and the frame property.
-/
import Gostatix.Model.RedisTopK
import Gostatix.Proofs.TopKRedis
import Gostatix.Proofs.RedisBucket
import Gostatix.Proofs.RedisFrame
namespace Gostatix.Redis
open Gostatix.TopK

/-! ### the store -/

theorem zsetPut_self (s : Store) (k : String) (z : List HElem) :
    (zsetPut s k z) k = if z = [] then none else some (.zset z) := by
  unfold zsetPut; split
  · exact Store.del_self _ _
  · exact Store.set_self _ _ _

theorem zsetPut_ne (s : Store) {k k' : String} (z : List HElem) (h : k' ≠ k) :
    (zsetPut s k z) k' = s k' := by
  unfold zsetPut; split
  · exact Store.del_ne _ h
  · exact Store.set_ne _ _ h

theorem zsetAt_zsetPut (s : Store) (k : String) (z : List HElem) :
    zsetAt (zsetPut s k z) k = some z := by
  unfold zsetAt; rw [zsetPut_self]
  by_cases h : z = []
  · rw [if_pos h, h]
  · rw [if_neg h]

theorem zwf_iff (z : List HElem) : ZWf z ↔ ZSorted z ∧ (z.map (·.1)).Nodup := Iff.rfl

theorem absZSet_eq_some_iff (st : Store) (k : String) (z : List HElem) :
    absZSet st k = some z ↔ zsetAt st k = some z ∧ ZWf z := by
  unfold absZSet
  constructor
  · intro h
    split at h
    · rename_i z' hz'
      split at h
      · rename_i hw; cases h; exact ⟨hz', hw⟩
      · cases h
    · cases h
  · rintro ⟨h1, h2⟩
    rw [h1]; simp only [h2, if_true]

/-! ### evaluating the commands -/

section eval
variable {s : Store} {k : String} {z : List HElem}

theorem cmdZCARD_eq (h : zsetAt s k = some z) : cmdZCARD k s = (s, some z.length) := by
  unfold cmdZCARD; rw [h]

theorem cmdZRANGE0_eq (h : zsetAt s k = some z) : cmdZRANGE0 k s = (s, some (z.take 1)) := by
  unfold cmdZRANGE0; rw [h]

theorem cmdZRANGEALL_eq (h : zsetAt s k = some z) : cmdZRANGEALL k s = (s, some z) := by
  unfold cmdZRANGEALL; rw [h]

theorem cmdZSCORE_eq (h : zsetAt s k = some z) (x : String) :
    cmdZSCORE k x s = (s, some (zscore z x)) := by
  unfold cmdZSCORE; rw [h]

theorem cmdZREM_eq (h : zsetAt s k = some z) (x : String) :
    cmdZREM k x s = (zsetPut s k (zrem z x), some (z.length - (zrem z x).length)) := by
  unfold cmdZREM; rw [h]

theorem cmdZADD_eq (h : zsetAt s k = some z) (x : String) (f : Nat) :
    cmdZADD k x f s = (zsetPut s k (zadd z x f), some (if (zscore z x).isSome then 0 else 1)) := by
  unfold cmdZADD; rw [h]

theorem cmdZPOPMIN_eq (h : zsetAt s k = some z) :
    cmdZPOPMIN k s = (zsetPut s k z.tail, some (z.take 1)) := by
  unfold cmdZPOPMIN; rw [h]

end eval

theorem head?_take_one {α} (l : List α) : (l.take 1).head? = l.head? := by
  cases l <;> rfl

theorem zadd_zrem (z : List HElem) (x : String) (f : Nat) : zadd (zrem z x) x f = zadd z x f := by
  unfold zadd zrem
  rw [List.filter_filter]
  congr 1
  apply List.filter_congr
  intro e _; simp

/-! ### canonical form -/

theorem zrem_wf (z : List HElem) (x : String) (h : ZWf z) : ZWf (zrem z x) := by
  unfold zrem
  exact ⟨List.Pairwise.sublist List.filter_sublist h.1,
    (List.Sublist.map _ List.filter_sublist).nodup h.2⟩

theorem zadd_wf (z : List HElem) (x : String) (f : Nat) (h : ZWf z) : ZWf (zadd z x f) := by
  refine ⟨zadd_sorted z x f h.1, ?_⟩
  exact ((zadd_perm z x f).map (·.1)).nodup_iff.2 (upsert_nodup z x f h.2)

theorem tail_wf (z : List HElem) (h : ZWf z) : ZWf z.tail :=
  ⟨List.Pairwise.sublist (List.tail_sublist z) h.1,
    (List.Sublist.map _ (List.tail_sublist z)).nodup h.2⟩

/-- the head of a canonical list is strictly below every other element in (score, member) order:
    it is what `ZRANGE 0 0` returns and `ZPOPMIN` removes. -/
theorem head_min (m : HElem) (t : List HElem) (h : ZWf (m :: t)) : ∀ p ∈ t, zLt m p = true :=
  (List.pairwise_cons.1 h.1).1

/-- `ZSCORE` of a canonical list: the score of THE entry of the member. -/
theorem zscore_eq_some_iff (z : List HElem) (x : String) (n : Nat) (h : ZWf z) :
    zscore z x = some n ↔ (x, n) ∈ z := by
  unfold zscore
  induction z with
  | nil => simp
  | cons a t ih =>
    have ht : ZWf t := tail_wf (a :: t) h
    have hnd := h.2
    rw [List.map_cons, List.nodup_cons] at hnd
    rw [List.find?_cons]
    by_cases ha : a.1 = x
    · simp only [ha, beq_self_eq_true, Option.map_some, Option.some.injEq, List.mem_cons]
      constructor
      · intro e; left; rw [← ha, ← e]
      · rintro (e | e)
        · rw [← e]
        · exact absurd (List.mem_map.mpr ⟨(x, n), e, rfl⟩) (ha ▸ hnd.1)
    · have : (a.1 == x) = false := by simpa using ha
      simp only [this, List.mem_cons]
      rw [ih ht]
      constructor
      · exact Or.inr
      · rintro (e | e)
        · exact absurd (by rw [← e]) ha
        · exact e

/-! ### `TopKRedis.Insert` -/

theorem offerRedis_unfold (k : Nat) (z : List HElem) (x : String) (f : Nat) :
    offerRedis k z x f =
      if offerGuard z.length k (z.take 1) f = true then
        (if (zadd z x f).length > k then (zadd z x f).tail else zadd z x f)
      else z := by
  cases z <;> rfl

theorem topkInsertCmds_spec (s : Store) (hk : String) (k : Nat) (x : String) (f : Nat)
    (z : List HElem) (hz : zsetAt s hk = some z) :
    ∃ s', topkInsertCmds hk k x f s = (s', some ()) ∧
      zsetAt s' hk = some (offerRedis k z x f) ∧ ∀ k', k' ≠ hk → s' k' = s k' := by
  unfold topkInsertCmds
  rw [offerRedis_unfold, Script.bind_ok (cmdZCARD_eq hz), Script.bind_ok (cmdZRANGE0_eq hz)]
  by_cases hg : offerGuard z.length k (z.take 1) f = true
  · -- accepted
    rw [if_pos hg, if_pos hg]
    rw [Script.bind_ok (Script.try_ok (cmdZSCORE_eq hz x))]
    -- after the optional ZREM
    have hrem : ∃ s₁ z₁, zsetAt s₁ hk = some z₁ ∧ zadd z₁ x f = zadd z x f ∧
        (∀ k', k' ≠ hk → s₁ k' = s k') ∧
        (if ((some (zscore z x)).getD none).getD 0 > 0 then
            cmdZREM hk x >>=ₛ fun _ => Script.pure () else Script.pure ()) s = (s₁, some ()) := by
      split
      · refine ⟨zsetPut s hk (zrem z x), zrem z x, zsetAt_zsetPut _ _ _, zadd_zrem z x f,
          fun k' h => zsetPut_ne _ _ h, ?_⟩
        rw [Script.bind_ok (cmdZREM_eq hz x)]; rfl
      · exact ⟨s, z, hz, rfl, fun _ _ => rfl, rfl⟩
    obtain ⟨s₁, z₁, hz₁, hadd, hs₁, hrun⟩ := hrem
    rw [Script.bind_ok hrun, Script.bind_ok (cmdZADD_eq hz₁ x f), hadd]
    have hz₂ : zsetAt (zsetPut s₁ hk (zadd z x f)) hk = some (zadd z x f) := zsetAt_zsetPut _ _ _
    rw [Script.bind_ok (cmdZCARD_eq hz₂)]
    split
    · refine ⟨_, by rw [Script.bind_ok (cmdZPOPMIN_eq hz₂)]; rfl, zsetAt_zsetPut _ _ _, ?_⟩
      intro k' h
      rw [zsetPut_ne _ _ h, zsetPut_ne _ _ h]; exact hs₁ k' h
    · refine ⟨_, rfl, hz₂, ?_⟩
      intro k' h
      rw [zsetPut_ne _ _ h]; exact hs₁ k' h
  · rw [if_neg hg, if_neg hg]
    exact ⟨s, rfl, hz, fun _ _ => rfl⟩

theorem topkInsertCmds_abs (s : Store) (hk : String) (k : Nat) (x : String) (f : Nat)
    (z : List HElem) (habs : absZSet s hk = some z) :
    ∃ s', topkInsertCmds hk k x f s = (s', some ()) ∧
      absZSet s' hk = some (offerRedis k z x f) ∧ ∀ k', k' ≠ hk → s' k' = s k' := by
  obtain ⟨hz, hw⟩ := (absZSet_eq_some_iff _ _ _).mp habs
  obtain ⟨s', hrun, hz', hfr⟩ := topkInsertCmds_spec s hk k x f z hz
  refine ⟨s', hrun, (absZSet_eq_some_iff _ _ _).mpr ⟨hz', ?_⟩, hfr⟩
  have := redis_refines_spec k z x f hw.1 hw.2
  exact ⟨this.2.1, this.2.2⟩

theorem valueLe_antisymm (a b : HElem) (h1 : ValueLe a b) (h2 : ValueLe b a) : a = b := by
  unfold ValueLe at *
  rcases h1 with h1 | ⟨h1, h1'⟩ <;> rcases h2 with h2 | ⟨h2, h2'⟩
  · omega
  · omega
  · omega
  · exact Prod.ext (String.le_antisymm h1' h2') h1

/-- `Values` does not depend on the order in which the elements are handed to the sort. -/
theorem values_eq_of_perm {l₁ l₂ : List HElem} (h : l₁.Perm l₂) : values l₁ = values l₂ :=
  List.Perm.eq_of_pairwise (fun a b _ _ => valueLe_antisymm a b) (values_sorted l₁)
    (values_sorted l₂) ((values_perm l₁).trans (h.trans (values_perm l₂).symm))

theorem topkValues_abs (s : Store) (hk : String) (z : List HElem) (hz : zsetAt s hk = some z) :
    topkValues hk s = (s, some (values z.reverse)) := by
  unfold topkValues
  rw [Script.bind_ok (cmdZRANGEALL_eq hz)]; rfl

/-! ### frames -/

section frames
variable {K : List String} {k : String}

theorem zsetAt_congr {s s' : Store} (h : s k = s' k) : zsetAt s k = zsetAt s' k := by
  unfold zsetAt; rw [h]

theorem zsetPut_congr (s s' : Store) (z : List HElem) : (zsetPut s k z) k = (zsetPut s' k z) k := by
  rw [zsetPut_self, zsetPut_self]

theorem supported_ZCARD (hk : k ∈ K) : SupportedOn K (cmdZCARD k) := by
  apply supported_single hk
  · intro s k' _; unfold cmdZCARD; split <;> rfl
  · intro s s' h; unfold cmdZCARD; rw [zsetAt_congr h]; split <;> exact ⟨rfl, h⟩

theorem supported_ZRANGE0 (hk : k ∈ K) : SupportedOn K (cmdZRANGE0 k) := by
  apply supported_single hk
  · intro s k' _; unfold cmdZRANGE0; split <;> rfl
  · intro s s' h; unfold cmdZRANGE0; rw [zsetAt_congr h]; split <;> exact ⟨rfl, h⟩

theorem supported_ZRANGEALL (hk : k ∈ K) : SupportedOn K (cmdZRANGEALL k) := by
  apply supported_single hk
  · intro s k' _; unfold cmdZRANGEALL; split <;> rfl
  · intro s s' h; unfold cmdZRANGEALL; rw [zsetAt_congr h]; split <;> exact ⟨rfl, h⟩

theorem supported_ZSCORE (hk : k ∈ K) (x : String) : SupportedOn K (cmdZSCORE k x) := by
  apply supported_single hk
  · intro s k' _; unfold cmdZSCORE; split <;> rfl
  · intro s s' h; unfold cmdZSCORE; rw [zsetAt_congr h]; split <;> exact ⟨rfl, h⟩

theorem supported_ZREM (hk : k ∈ K) (x : String) : SupportedOn K (cmdZREM k x) := by
  apply supported_single hk
  · intro s k' hne; unfold cmdZREM; split
    · exact zsetPut_ne _ _ hne
    · rfl
  · intro s s' h; unfold cmdZREM; rw [zsetAt_congr h]; split
    · exact ⟨rfl, zsetPut_congr _ _ _⟩
    · exact ⟨rfl, h⟩

theorem supported_ZADD (hk : k ∈ K) (x : String) (f : Nat) : SupportedOn K (cmdZADD k x f) := by
  apply supported_single hk
  · intro s k' hne; unfold cmdZADD; split
    · exact zsetPut_ne _ _ hne
    · rfl
  · intro s s' h; unfold cmdZADD; rw [zsetAt_congr h]; split
    · exact ⟨rfl, zsetPut_congr _ _ _⟩
    · exact ⟨rfl, h⟩

theorem supported_ZPOPMIN (hk : k ∈ K) : SupportedOn K (cmdZPOPMIN k) := by
  apply supported_single hk
  · intro s k' hne; unfold cmdZPOPMIN; split
    · exact zsetPut_ne _ _ hne
    · rfl
  · intro s s' h; unfold cmdZPOPMIN; rw [zsetAt_congr h]; split
    · exact ⟨rfl, zsetPut_congr _ _ _⟩
    · exact ⟨rfl, h⟩

end frames

theorem supported_topkInsertCmds (hk : String) (k : Nat) (x : String) (f : Nat) :
    SupportedOn [hk] (topkInsertCmds hk k x f) := by
  have hm : hk ∈ [hk] := List.mem_cons_self
  unfold topkInsertCmds
  refine supported_bind (supported_ZCARD hm) fun n => ?_
  refine supported_bind (supported_ZRANGE0 hm) fun mn => ?_
  refine supported_ite _ ?_ (supported_pure _ _)
  refine supported_bind (supported_try (supported_ZSCORE hm x)) fun idx => ?_
  refine supported_bind ?_ fun _ => ?_
  · exact supported_ite _ (supported_bind (supported_ZREM hm x) fun _ => supported_pure _ _)
      (supported_pure _ _)
  refine supported_bind (supported_ZADD hm x f) fun _ => ?_
  refine supported_bind (supported_ZCARD hm) fun n' => ?_
  exact supported_ite _ (supported_bind (supported_ZPOPMIN hm) fun _ => supported_pure _ _)
    (supported_pure _ _)

theorem supported_topkValues (hk : String) : SupportedOn [hk] (topkValues hk) :=
  supported_bind (supported_ZRANGEALL List.mem_cons_self) fun _ => supported_pure _ _

end Gostatix.Redis
