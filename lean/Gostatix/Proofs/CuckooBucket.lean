/-
  Gostatix.Proofs.CuckooBucket — the abstract bucket laws (`LawfulBucket`) that the cuckoo-filter
  proofs rely on, and the proofs that `BucketMem.ops` (bucket_mem.go) and `BucketRedis.ops`
  (bucket_redis.go) satisfy them.
-/
import Gostatix.Proofs.CuckooList
set_option linter.unusedSectionVars false
namespace Gostatix

/-- What the filter-level proofs need to know about a bucket implementation.
    `slots b` is the slot list of `b`; `wfb s b` says `b` is a well-formed bucket of size `s`. -/
structure LawfulBucket {B F : Type} [DecidableEq F] (o : BucketOps B F) (emp : F) where
  slots : B → List F
  wfb : Nat → B → Prop
  len_le : ∀ s b, wfb s b → (slots b).length ≤ s
  isFree_iff : ∀ s b, wfb s b → (o.isFree b = true ↔ occ emp (slots b) < s)
  lookup_eq : ∀ b e, o.lookup b e = (slots b).contains e
  get_eq : ∀ b i, o.get b i = (slots b).getD i emp
  slots_set : ∀ b i e, slots (o.set b i e) = (slots b).set i e
  wfb_set : ∀ s b i e, wfb s b → occ emp ((slots b).set i e) = occ emp (slots b) → wfb s (o.set b i e)
  set_set_get : ∀ b i e, o.set (o.set b i e) i (o.get b i) = b
  wfb_add : ∀ s b e, wfb s b → o.isFree b = true → e ≠ emp → wfb s (o.add b e)
  occ_add : ∀ s b e, wfb s b → o.isFree b = true → e ≠ emp →
    occ emp (slots (o.add b e)) = occ emp (slots b) + 1
  count_add : ∀ s b e g, wfb s b → o.isFree b = true → e ≠ emp → g ≠ emp →
    (slots (o.add b e)).count g = (slots b).count g + ind (e = g)
  wfb_remove : ∀ s b e, wfb s b → e ≠ emp → e ∈ slots b → wfb s (o.remove b e)
  occ_remove : ∀ s b e, wfb s b → e ≠ emp → e ∈ slots b →
    occ emp (slots (o.remove b e)) + 1 = occ emp (slots b)
  count_remove : ∀ s b e g, wfb s b → e ≠ emp → e ∈ slots b → g ≠ emp →
    (slots (o.remove b e)).count g + ind (e = g) = (slots b).count g
  remove_not_mem : ∀ b e, e ∉ slots b → o.remove b e = b

/-! ### bucket_mem.go -/

namespace BucketMem
variable {F : Type} [DecidableEq F]

/-- well-formed in-memory bucket of size `s`: `s` slots, cached length = occupied slots -/
def WFB (emp : F) (s : Nat) (b : BucketMem F) : Prop :=
  b.size = s ∧ b.elements.length = s ∧ b.length = occ emp b.elements

theorem wfb_add (emp : F) (s : Nat) (b : BucketMem F) (e : F) (h : WFB emp s b)
    (hfree : isFree b = true) (he : e ≠ emp) :
    WFB emp s (add emp b e) ∧ occ emp (add emp b e).elements = occ emp b.elements + 1 ∧
    ∀ g, g ≠ emp → (add emp b e).elements.count g = b.elements.count g + ind (e = g) := by
  obtain ⟨h1, h2, h3⟩ := h
  have hlt : occ emp b.elements < b.elements.length := by
    simp only [isFree, decide_eq_true_eq] at hfree; omega
  have hmem := mem_emp_of_occ_lt_length emp _ hlt
  have hidx := idxOf_lt_of_mem _ _ hmem
  have hget := getD_idxOf b.elements emp emp hmem
  have hadd : add emp b e =
      { b with elements := b.elements.set (b.elements.idxOf emp) e, length := b.length + 1 } := by
    unfold add; rw [if_neg]; simp [he, hfree]
  have ho := occ_set_add emp b.elements (b.elements.idxOf emp) e emp hidx
  rw [hget] at ho
  simp only [ind, ne_eq, not_true_eq_false, if_false, he, not_false_eq_true, if_true] at ho
  rw [hadd]
  refine ⟨⟨h1, by simpa using h2, ?_⟩, by simpa using ho, ?_⟩
  · simp only; omega
  · intro g hg
    have hc := count_set_add b.elements (b.elements.idxOf emp) e emp g hidx
    rw [hget] at hc
    have : ¬ emp = g := fun x => hg x.symm
    simp only [ind, this, if_false] at hc
    simpa [ind] using hc

theorem wfb_remove (emp : F) (s : Nat) (b : BucketMem F) (e : F) (h : WFB emp s b)
    (he : e ≠ emp) (hmem : e ∈ b.elements) :
    WFB emp s (remove emp b e) ∧ occ emp (remove emp b e).elements + 1 = occ emp b.elements ∧
    ∀ g, g ≠ emp → (remove emp b e).elements.count g + ind (e = g) = b.elements.count g := by
  obtain ⟨h1, h2, h3⟩ := h
  have hidx := idxOf_lt_of_mem _ _ hmem
  have hget := getD_idxOf b.elements e emp hmem
  have hrem : remove emp b e =
      { b with elements := b.elements.set (b.elements.idxOf e) emp, length := b.length - 1 } := by
    unfold remove; rw [if_pos]; simpa using hmem
  have ho := occ_set_add emp b.elements (b.elements.idxOf e) emp emp hidx
  rw [hget] at ho
  simp only [ind, ne_eq, not_true_eq_false, if_false, he, not_false_eq_true, if_true] at ho
  rw [hrem]
  refine ⟨⟨h1, by simpa using h2, ?_⟩, by simpa using ho, ?_⟩
  · simp only; omega
  · intro g hg
    have hc := count_set_add b.elements (b.elements.idxOf e) emp emp g hidx
    rw [hget] at hc
    have : ¬ emp = g := fun x => hg x.symm
    simp only [ind, this, if_false] at hc
    simpa [ind] using hc

/-- bucket_mem.go satisfies the bucket laws -/
def lawful (emp : F) : LawfulBucket (BucketMem.ops emp) emp where
  slots := BucketMem.elements
  wfb := WFB emp
  len_le := fun s b h => by rw [h.2.1]; exact Nat.le_refl _
  isFree_iff := fun s b h => by
    obtain ⟨h1, h2, h3⟩ := h
    simp only [ops, isFree, decide_eq_true_eq]; omega
  lookup_eq := fun b e => rfl
  get_eq := fun b i => rfl
  slots_set := fun b i e => rfl
  wfb_set := fun s b i e h ho => by
    obtain ⟨h1, h2, h3⟩ := h
    refine ⟨h1, ?_, ?_⟩
    · simpa [ops, set] using h2
    · simp only [ops, set] at ho ⊢; omega
  set_set_get := fun b i e => by
    simp only [ops, set, get, set_set_getD]
  wfb_add := fun s b e h hf he => (wfb_add emp s b e h hf he).1
  occ_add := fun s b e h hf he => (wfb_add emp s b e h hf he).2.1
  count_add := fun s b e g h hf he hg => (wfb_add emp s b e h hf he).2.2 g hg
  wfb_remove := fun s b e h he hm => (wfb_remove emp s b e h he hm).1
  occ_remove := fun s b e h he hm => (wfb_remove emp s b e h he hm).2.1
  count_remove := fun s b e g h he hm hg => (wfb_remove emp s b e h he hm).2.2 g hg
  remove_not_mem := fun b e hm => by
    simp only [ops, remove]; rw [if_neg]; simpa using hm

end BucketMem

/-! ### bucket_redis.go -/

namespace BucketRedis
variable {F : Type} [DecidableEq F]

/-- well-formed Redis bucket of size `s`: at most `s` list entries, counter = non-empty entries -/
def WFB (emp : F) (s : Nat) (b : BucketRedis F) : Prop :=
  b.size = s ∧ b.list.length ≤ s ∧ b.len = occ emp b.list

theorem wfb_add (emp : F) (s : Nat) (b : BucketRedis F) (e : F) (h : WFB emp s b)
    (hfree : isFree b = true) (he : e ≠ emp) :
    WFB emp s (add emp b e) ∧ occ emp (add emp b e).list = occ emp b.list + 1 ∧
    ∀ g, g ≠ emp → (add emp b e).list.count g = b.list.count g + ind (e = g) := by
  obtain ⟨h1, h2, h3⟩ := h
  have hlt : occ emp b.list < s := by
    simp only [isFree, decide_eq_true_eq] at hfree; omega
  by_cases hmem : emp ∈ b.list
  · have hidx := idxOf_lt_of_mem _ _ hmem
    have hget := getD_idxOf b.list emp emp hmem
    have hadd : add emp b e =
        { b with list := b.list.set (b.list.idxOf emp) e, len := b.len + 1 } := by
      unfold add; rw [if_neg (by simp [he, hfree]), if_pos (by simpa using hmem)]
    have ho := occ_set_add emp b.list (b.list.idxOf emp) e emp hidx
    rw [hget] at ho
    simp only [ind, ne_eq, not_true_eq_false, if_false, he, not_false_eq_true, if_true] at ho
    rw [hadd]
    refine ⟨⟨h1, by simpa using h2, ?_⟩, by simpa using ho, ?_⟩
    · simp only; omega
    · intro g hg
      have hc := count_set_add b.list (b.list.idxOf emp) e emp g hidx
      rw [hget] at hc
      have : ¬ emp = g := fun x => hg x.symm
      simp only [ind, this, if_false] at hc
      simpa [ind] using hc
  · have hadd : add emp b e = { b with list := e :: b.list, len := b.len + 1 } := by
      unfold add; rw [if_neg (by simp [he, hfree]), if_neg (by simpa using hmem)]
    have hoc := occ_add_count emp b.list
    have hc0 : b.list.count emp = 0 := List.count_eq_zero.mpr hmem
    rw [hadd]
    refine ⟨⟨h1, ?_, ?_⟩, ?_, ?_⟩
    · simp only [List.length_cons]; omega
    · simp only [occ_cons, ind, ne_eq, he, not_false_eq_true, if_true]; omega
    · simp only [occ_cons, ind, ne_eq, he, not_false_eq_true, if_true]
    · intro g hg
      simp only [List.count_cons, ind, beq_iff_eq]

theorem wfb_remove (emp : F) (s : Nat) (b : BucketRedis F) (e : F) (h : WFB emp s b)
    (he : e ≠ emp) (hmem : e ∈ b.list) :
    WFB emp s (remove emp b e) ∧ occ emp (remove emp b e).list + 1 = occ emp b.list ∧
    ∀ g, g ≠ emp → (remove emp b e).list.count g + ind (e = g) = b.list.count g := by
  obtain ⟨h1, h2, h3⟩ := h
  have hidx := idxOf_lt_of_mem _ _ hmem
  have hget := getD_idxOf b.list e emp hmem
  have hrem : remove emp b e =
      { b with list := b.list.set (b.list.idxOf e) emp, len := b.len - 1 } := by
    unfold remove; rw [if_pos]; simpa using hmem
  have ho := occ_set_add emp b.list (b.list.idxOf e) emp emp hidx
  rw [hget] at ho
  simp only [ind, ne_eq, not_true_eq_false, if_false, he, not_false_eq_true, if_true] at ho
  rw [hrem]
  refine ⟨⟨h1, by simpa using h2, ?_⟩, by simpa using ho, ?_⟩
  · simp only; omega
  · intro g hg
    have hc := count_set_add b.list (b.list.idxOf e) emp emp g hidx
    rw [hget] at hc
    have : ¬ emp = g := fun x => hg x.symm
    simp only [ind, this, if_false] at hc
    simpa [ind] using hc

/-- bucket_redis.go satisfies the bucket laws -/
def lawful (emp : F) : LawfulBucket (BucketRedis.ops emp) emp where
  slots := BucketRedis.list
  wfb := WFB emp
  len_le := fun s b h => h.2.1
  isFree_iff := fun s b h => by
    obtain ⟨h1, h2, h3⟩ := h
    simp only [ops, isFree, decide_eq_true_eq]; omega
  lookup_eq := fun b e => rfl
  get_eq := fun b i => rfl
  slots_set := fun b i e => rfl
  wfb_set := fun s b i e h ho => by
    obtain ⟨h1, h2, h3⟩ := h
    refine ⟨h1, ?_, ?_⟩
    · simpa [ops, set] using h2
    · simp only [ops, set] at ho ⊢; omega
  set_set_get := fun b i e => by
    simp only [ops, set, get, set_set_getD]
  wfb_add := fun s b e h hf he => (wfb_add emp s b e h hf he).1
  occ_add := fun s b e h hf he => (wfb_add emp s b e h hf he).2.1
  count_add := fun s b e g h hf he hg => (wfb_add emp s b e h hf he).2.2 g hg
  wfb_remove := fun s b e h he hm => (wfb_remove emp s b e h he hm).1
  occ_remove := fun s b e h he hm => (wfb_remove emp s b e h he hm).2.1
  count_remove := fun s b e g h he hm hg => (wfb_remove emp s b e h he hm).2.2 g hg
  remove_not_mem := fun b e hm => by
    simp only [ops, remove]; rw [if_neg]; simpa using hm

end BucketRedis

end Gostatix
