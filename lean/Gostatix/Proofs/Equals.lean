/-
  Gostatix.Proofs.Equals — helper lemmas for C17: the loop combinators of Model/Equals.lean,
  element-wise list comparison (Go style and Lua style), the float64 `!=`, and the generic
  "total + sound + complete ⇒ decides equality ⇒ symmetric" argument.
-/
import Gostatix.Model.Equals
namespace Gostatix.Equals

/-! ### `forFrom` / `forN` -/

theorem forFrom_eq_true_iff (f : Nat → Option Bool) (i n : Nat) :
    forFrom f i n = some true ↔ ∀ j, j < n → f (i + j) = some true := by
  induction n generalizing i with
  | zero => simp [forFrom]
  | succ n ih =>
    unfold forFrom
    constructor
    · intro h j hj
      split at h
      · cases h
      · cases h
      · next hfi =>
        cases j with
        | zero => simpa using hfi
        | succ j =>
          have := (ih (i + 1)).1 h j (by omega)
          rw [show i + (j + 1) = i + 1 + j by omega]; exact this
    · intro h
      have h0 : f i = some true := by simpa using h 0 (by omega)
      rw [h0]
      apply (ih (i + 1)).2
      intro j hj
      have := h (j + 1) (by omega)
      rw [show i + 1 + j = i + (j + 1) by omega]; exact this

theorem forFrom_ne_none (f : Nat → Option Bool) (i n : Nat)
    (h : ∀ j, j < n → f (i + j) ≠ none) : forFrom f i n ≠ none := by
  induction n generalizing i with
  | zero => simp [forFrom]
  | succ n ih =>
    unfold forFrom
    split
    · next hfi => exact absurd hfi (by simpa using h 0 (by omega))
    · simp
    · apply ih
      intro j hj
      have := h (j + 1) (by omega)
      rw [show i + 1 + j = i + (j + 1) by omega]; exact this

theorem forFrom_congr (f g : Nat → Option Bool) (i n : Nat)
    (h : ∀ j, j < n → f (i + j) = g (i + j)) : forFrom f i n = forFrom g i n := by
  induction n generalizing i with
  | zero => simp [forFrom]
  | succ n ih =>
    unfold forFrom
    have h0 : f i = g i := by simpa using h 0 (by omega)
    rw [h0]
    split
    · rfl
    · rfl
    · apply ih
      intro j hj
      have := h (j + 1) (by omega)
      rw [show i + 1 + j = i + (j + 1) by omega]; exact this

theorem forN_eq_true_iff (n : Nat) (f : Nat → Option Bool) :
    forN n f = some true ↔ ∀ i, i < n → f i = some true := by
  simpa [forN] using forFrom_eq_true_iff f 0 n

theorem forN_ne_none (n : Nat) (f : Nat → Option Bool)
    (h : ∀ i, i < n → f i ≠ none) : forN n f ≠ none := by
  apply forFrom_ne_none; simpa using h

theorem forN_congr (n : Nat) (f g : Nat → Option Bool)
    (h : ∀ i, i < n → f i = g i) : forN n f = forN n g := by
  apply forFrom_congr; simpa using h

/-- a loop that returned `false` did so at some index, after all earlier iterations passed. -/
theorem forN_eq_false_imp (n : Nat) (f : Nat → Option Bool) (h : forN n f = some false) :
    ∃ i, i < n ∧ f i = some false := by
  suffices H : ∀ n i, forFrom f i n = some false → ∃ j, j < n ∧ f (i + j) = some false by
    simpa using H n 0 h
  intro n
  induction n with
  | zero => intro i h; simp [forFrom] at h
  | succ n ih =>
    intro i h
    unfold forFrom at h
    split at h
    · cases h
    · next hfi => exact ⟨0, by omega, by simpa using hfi⟩
    · obtain ⟨j, hj, hf⟩ := ih (i + 1) h
      exact ⟨j + 1, by omega, by rw [show i + (j + 1) = i + 1 + j by omega]; exact hf⟩

/-! ### Go-style element comparison -/

section
variable {α : Type} [DecidableEq α]

theorem goIdxEq_ne_none (xs ys : List α) (i : Nat) (hx : i < xs.length) (hy : i < ys.length) :
    goIdxEq xs ys i ≠ none := by
  simp [goIdxEq, List.getElem?_eq_getElem hx, List.getElem?_eq_getElem hy]

theorem goIdxEq_eq_none_iff (xs ys : List α) (i : Nat) :
    goIdxEq xs ys i = none ↔ xs.length ≤ i ∨ ys.length ≤ i := by
  unfold goIdxEq
  split
  · next x y hx hy =>
    have := (List.getElem?_eq_some_iff.1 hx).1
    have := (List.getElem?_eq_some_iff.1 hy).1
    simp; omega
  · next hno =>
    simp only [true_iff]
    by_cases hx : i < xs.length
    · by_cases hy : i < ys.length
      · exact (hno _ _ (List.getElem?_eq_getElem hx) (List.getElem?_eq_getElem hy)).elim
      · right; omega
    · left; omega

theorem goIdxEq_eq_true_iff (xs ys : List α) (i : Nat) :
    goIdxEq xs ys i = some true ↔ ∃ x, xs[i]? = some x ∧ ys[i]? = some x := by
  unfold goIdxEq
  split
  · next x y hx hy =>
    simp only [Option.some.injEq, decide_eq_true_eq]
    constructor
    · intro h; subst h; exact ⟨x, hx, hy⟩
    · rintro ⟨z, h1, h2⟩
      rw [hx] at h1; rw [hy] at h2
      cases h1; cases h2; rfl
  · next hno =>
    simp only [false_iff, reduceCtorEq]
    rintro ⟨z, h1, h2⟩
    exact hno _ _ h1 h2

/-- the loop passed over two slices of the loop's length: they are equal. -/
theorem forN_goIdxEq_true (n : Nat) (xs ys : List α)
    (h : forN n (goIdxEq xs ys) = some true) (hx : xs.length = n) (hy : ys.length = n) :
    xs = ys := by
  rw [forN_eq_true_iff] at h
  apply List.ext_getElem?
  intro i
  by_cases hi : i < n
  · obtain ⟨x, h1, h2⟩ := (goIdxEq_eq_true_iff xs ys i).1 (h i hi)
    rw [h1, h2]
  · rw [List.getElem?_eq_none (by omega), List.getElem?_eq_none (by omega)]

theorem forN_goIdxEq_self (n : Nat) (xs : List α) (hx : n ≤ xs.length) :
    forN n (goIdxEq xs xs) = some true := by
  rw [forN_eq_true_iff]
  intro i hi
  exact (goIdxEq_eq_true_iff xs xs i).2 ⟨xs[i]'(by omega), List.getElem?_eq_getElem _, List.getElem?_eq_getElem _⟩

theorem forN_goIdxEq_ne_none (n : Nat) (xs ys : List α) (hx : n ≤ xs.length) (hy : n ≤ ys.length) :
    forN n (goIdxEq xs ys) ≠ none :=
  forN_ne_none _ _ (fun i hi => goIdxEq_ne_none xs ys i (by omega) (by omega))

/-! ### Lua-style element comparison -/

theorem luaIdxEq_ne_none (xs ys : List α) (i : Nat) : luaIdxEq xs ys i ≠ none := by
  simp [luaIdxEq]

theorem forN_luaIdxEq_ne_none (n : Nat) (xs ys : List α) : forN n (luaIdxEq xs ys) ≠ none :=
  forN_ne_none _ _ (fun i _ => luaIdxEq_ne_none xs ys i)

/-- exactly what the Lua loop `for i=1,n do if v1[i] ~= v2[i] …` establishes:
    the first `n` entries agree, where a missing entry only agrees with a missing entry. -/
theorem forN_luaIdxEq_true_iff (n : Nat) (xs ys : List α) :
    forN n (luaIdxEq xs ys) = some true ↔ xs.take n = ys.take n := by
  rw [forN_eq_true_iff]
  constructor
  · intro h
    apply List.ext_getElem?
    intro i
    simp only [List.getElem?_take]
    split
    · next hi => simpa [luaIdxEq] using h i hi
    · rfl
  · intro h i hi
    have := congrArg (fun l => l[i]?) h
    simp only [List.getElem?_take, hi, if_true] at this
    simp [luaIdxEq, this]

theorem forN_luaIdxEq_true (n : Nat) (xs ys : List α)
    (h : forN n (luaIdxEq xs ys) = some true) (hx : xs.length ≤ n) (hy : ys.length ≤ n) :
    xs = ys := by
  have := (forN_luaIdxEq_true_iff n xs ys).1 h
  rwa [List.take_of_length_le hx, List.take_of_length_le hy] at this

theorem forN_luaIdxEq_self (n : Nat) (xs : List α) : forN n (luaIdxEq xs xs) = some true :=
  (forN_luaIdxEq_true_iff n xs xs).2 rfl

end

/-! ### the cuckoo bucket loop -/

section
variable {B : Type}

theorem bucketLoop_ne_none (beq : B → B → Option Bool) (as bs : List B)
    (hlen : as.length = bs.length)
    (h : ∀ (i : Nat) (x y : B), as[i]? = some x → bs[i]? = some y → beq y x ≠ none) :
    bucketLoop beq as bs ≠ none := by
  unfold bucketLoop
  apply forN_ne_none
  intro i hi
  rw [List.getElem?_eq_getElem hi, List.getElem?_eq_getElem (by omega : i < bs.length)]
  exact h i _ _ (List.getElem?_eq_getElem hi) (List.getElem?_eq_getElem (by omega))

theorem bucketLoop_true (beq : B → B → Option Bool) (as bs : List B)
    (hlen : as.length = bs.length)
    (h : ∀ (i : Nat) (x y : B), as[i]? = some x → bs[i]? = some y → beq y x = some true → y = x)
    (ht : bucketLoop beq as bs = some true) : as = bs := by
  unfold bucketLoop at ht
  rw [forN_eq_true_iff] at ht
  apply List.ext_getElem?
  intro i
  by_cases hi : i < as.length
  · have hx := List.getElem?_eq_getElem hi
    have hy := List.getElem?_eq_getElem (by omega : i < bs.length)
    have := ht i hi
    rw [hx, hy] at this
    rw [hx, hy, h i _ _ hx hy this]
  · rw [List.getElem?_eq_none (by omega), List.getElem?_eq_none (by omega)]

theorem bucketLoop_self (beq : B → B → Option Bool) (as : List B)
    (h : ∀ x, x ∈ as → beq x x = some true) : bucketLoop beq as as = some true := by
  unfold bucketLoop
  rw [forN_eq_true_iff]
  intro i hi
  rw [List.getElem?_eq_getElem hi]
  exact h _ (List.getElem_mem hi)

end

/-! ### float64 `!=` -/

/-- strictly positive, finite, non-zero float64 (sign bit 0, exponent < 0x7FF, bits ≠ 0). -/
def F64.PosFinite (b : Nat) : Prop := 0 < b ∧ b < 0x7FF0000000000000

instance (b : Nat) : Decidable (F64.PosFinite b) := by unfold F64.PosFinite; infer_instance

theorem F64.isNaN_of_posFinite {b : Nat} (h : F64.PosFinite b) : F64.isNaN b = false := by
  obtain ⟨h0, h1⟩ := h
  have : (b / 2 ^ 52) % 2 ^ 11 ≠ 2 ^ 11 - 1 := by omega
  simp [F64.isNaN, this]

theorem F64.isZero_of_posFinite {b : Nat} (h : F64.PosFinite b) : F64.isZero b = false := by
  obtain ⟨h0, h1⟩ := h
  have : b % 2 ^ 63 ≠ 0 := by omega
  simp [F64.isZero, this]

/-- on positive finite values Go's `!=` is inequality of the bit patterns. -/
theorem F64.ne_eq_false_iff {x y : Nat} (hx : F64.PosFinite x) (hy : F64.PosFinite y) :
    F64.ne x y = false ↔ x = y := by
  simp [F64.ne, F64.isNaN_of_posFinite hx, F64.isNaN_of_posFinite hy,
    F64.isZero_of_posFinite hx]

theorem F64.ne_self {x : Nat} (hx : F64.PosFinite x) : F64.ne x x = false :=
  (F64.ne_eq_false_iff hx hx).2 rfl

/-! ### bitset word counts -/

theorem wordCount_eq_wordsNeeded {len : Nat} (h : len ≤ 2 ^ 64 - 64) :
    wordCount len = wordsNeeded len := by
  unfold wordCount wordsNeeded
  split <;> omega

/-! ### `withScores` -/

theorem withScores_injective : ∀ (z1 z2 : List (String × Nat)), withScores z1 = withScores z2 → z1 = z2
  | [], [], _ => rfl
  | [], (m, s) :: z, h => by simp [withScores] at h
  | (m, s) :: z, [], h => by simp [withScores] at h
  | (m1, s1) :: z1, (m2, s2) :: z2, h => by
    simp only [withScores, List.cons.injEq, Sum.inl.injEq, Sum.inr.injEq] at h
    obtain ⟨hm, hs, hz⟩ := h
    rw [hm, hs, withScores_injective z1 z2 hz]

/-! ### total + sound + complete ⇒ `equals` decides equality ⇒ symmetric -/

theorem spec_of {S : Type} [DecidableEq S] (eq : S → S → Option Bool) (WF : S → Prop)
    (tot : ∀ a b, WF a → WF b → eq a b ≠ none)
    (snd : ∀ a b, WF a → WF b → eq a b = some true → a = b)
    (cmp : ∀ a, WF a → eq a a = some true)
    (a b : S) (ha : WF a) (hb : WF b) : eq a b = some (decide (a = b)) := by
  cases h : eq a b with
  | none => exact absurd h (tot a b ha hb)
  | some r =>
    cases r with
    | true => simp [snd a b ha hb h]
    | false =>
      have : a ≠ b := by
        intro e; subst e
        rw [cmp a ha] at h; cases h
      simp [this]

theorem symm_of_spec {S : Type} [DecidableEq S] (eq : S → S → Option Bool) (WF : S → Prop)
    (spec : ∀ a b, WF a → WF b → eq a b = some (decide (a = b)))
    (a b : S) (ha : WF a) (hb : WF b) : eq a b = eq b a := by
  rw [spec a b ha hb, spec b a hb ha]
  congr 1
  exact decide_eq_decide.2 eq_comm

end Gostatix.Equals
