/-
  Gostatix.Proofs.LuaHLL — the extracted HyperLogLog / Top-K scripts, run by the interpreter of
  Model/Lua.lean, step by step (helper lemmas for Props/LuaHLL.lean).
-/
import Gostatix.Proofs.LuaCorec
import Gostatix.Proofs.RedisHLL
namespace Gostatix.LuaHLL
open Gostatix Gostatix.Lua Gostatix.Redis Gostatix.Generated.LuaScripts

/-- a decimal numeral (non-empty string of digits) of value at most 2^53: what the library
    itself writes into register and counter lists, and where gopher-lua's `tonumber` (the
    interpreter) and the hand models' `parseDecimal` agree. -/
def Numeral (c : String) : Prop := ∃ n, parseDecimal c = some n ∧ n ≤ numLimit

theorem Numeral_decimal {n : Nat} (h : n ≤ numLimit) : Numeral (decimal n) :=
  ⟨n, parseDecimal_decimal n, h⟩

/-- the reply of a script that ends in `return true`, or the error it raised. -/
def unitOutcome (r : Option Unit) (msg : String) : Outcome :=
  match r with
  | some _ => .reply (.int 1)
  | none => .error msg

/-! ## `updateList` (hyperloglog_redis.go, `updateRegisters`) -/

section updateList
variable (f : Nat) (st : Store) (key : String) (idx val : Nat)
  (hi : idx ≤ numLimit) (hv : val ≤ numLimit)
include hi hv

/-- `LINDEX` raises (wrong type): the script stops with that error. -/
theorem updateList_run_error (msg : String)
    (h1 : redisCommand "LINDEX" [key, decimal idx] st = .error msg) :
    run (f + 20) hyperloglog_redis_updateList [key] [decimal idx, decimal val] st = (st, .error msg) := by
  unfold hyperloglog_redis_updateList run runLog
  lua_simp_hll [luaToNumber_decimal hi, luaToNumber_decimal hv, h1]

/-- `LINDEX` answers nil (no key, index out of range): `val > tonumber(false)` raises. -/
theorem updateList_run_nil
    (h1 : redisCommand "LINDEX" [key, decimal idx] st = .ok st .nil) :
    run (f + 20) hyperloglog_redis_updateList [key] [decimal idx, decimal val] st =
      (st, .error "attempt to compare number with nil") := by
  unfold hyperloglog_redis_updateList run runLog
  lua_simp_hll [luaToNumber_decimal hi, luaToNumber_decimal hv, h1]
  rfl

/-- the register holds a smaller number: `LSET` of the new value. -/
theorem updateList_run_lt (c : String) (old : Nat) (st' : Store)
    (h1 : redisCommand "LINDEX" [key, decimal idx] st = .ok st (.bulk c))
    (h2 : luaToNumber c = .num old) (hlt : old < val)
    (h3 : redisCommand "LSET" [key, decimal idx, decimal val] st = .ok st' (.status "OK")) :
    run (f + 20) hyperloglog_redis_updateList [key] [decimal idx, decimal val] st =
      (st', .reply (.int 1)) := by
  unfold hyperloglog_redis_updateList run runLog
  lua_simp_hll [toReply, luaToNumber_decimal hi, luaToNumber_decimal hv, h1, h2, h3, hlt]

/-- the register holds a number that is not smaller: `LSET` of the string read. -/
theorem updateList_run_ge (c : String) (old : Nat) (st' : Store)
    (h1 : redisCommand "LINDEX" [key, decimal idx] st = .ok st (.bulk c))
    (h2 : luaToNumber c = .num old) (hge : ¬ old < val)
    (h3 : redisCommand "LSET" [key, decimal idx, c] st = .ok st' (.status "OK")) :
    run (f + 20) hyperloglog_redis_updateList [key] [decimal idx, decimal val] st =
      (st', .reply (.int 1)) := by
  unfold hyperloglog_redis_updateList run runLog
  lua_simp_hll [toReply, luaToNumber_decimal hi, luaToNumber_decimal hv, h1, h2, h3, hge]

end updateList

/-- the error `updateList` raises when it fails: `LINDEX` on a key of the wrong type, or the
    comparison with the nil that `LINDEX` answered. -/
def updateListError (st : Store) (key : String) : String :=
  match st key with
  | none | some (.list _) => "attempt to compare number with nil"
  | some _ => msgWrongType

theorem updateList_eq (st : Store) (h : HLLHandle) (idx val f : Nat)
    (hi : idx ≤ numLimit) (hv : val ≤ numLimit)
    (hreg : ∀ l c, st h.key = some (.list l) → l[idx]? = some c → Numeral c) :
    run (f + 20) hyperloglog_redis_updateList [h.key] [decimal idx, decimal val] st =
      ((hllUpdate h idx val st).1,
        unitOutcome (hllUpdate h idx val st).2 (updateListError st h.key)) := by
  have hL := redisCommand_LINDEX_nat h.key idx hi st
  cases hk : st h.key with
  | none =>
    rw [hk] at hL
    rw [updateList_run_nil f st h.key idx val hi hv hL]
    simp [hllUpdate, Script.bind, cmdLINDEX, hk, luaNumber, unitOutcome, updateListError]
  | some w =>
    cases w with
    | list l =>
      simp only [hk] at hL
      cases hc : l[idx]? with
      | none =>
        simp only [hc] at hL
        rw [updateList_run_nil f st h.key idx val hi hv hL]
        simp [hllUpdate, Script.bind, cmdLINDEX, hk, hc, luaNumber, unitOutcome, updateListError]
      | some c =>
        simp only [hc] at hL
        obtain ⟨old, ho, hon⟩ := hreg l c hk hc
        have hil : idx < l.length := by
          rcases Nat.lt_or_ge idx l.length with h' | h'
          · exact h'
          · rw [List.getElem?_eq_none h'] at hc; cases hc
        have h2 := luaToNumber_of_parseDecimal ho hon
        have hS : ∀ v, redisCommand "LSET" [h.key, decimal idx, v] st =
            .ok (st.set h.key (.list (l.set idx v))) (.status "OK") := by
          intro v
          rw [redisCommand_LSET_nat _ _ _ hi, hk]; simp only [hil, if_true]
        have hM : hllUpdate h idx val st =
            (st.set h.key (.list (l.set idx (if val > old then decimal val else c))), some ()) := by
          unfold hllUpdate
          rw [Script.bind_ok (cmdLINDEX_list hk idx), hc, Script.bind_ok (luaNumber_some ho st)]
          exact cmdLSET_list hk hil _
        rw [hM]
        by_cases hlt : old < val
        · rw [updateList_run_lt f st h.key idx val hi hv c old _ hL h2 hlt (hS _)]
          simp [hlt, unitOutcome]
        · rw [updateList_run_ge f st h.key idx val hi hv c old _ hL h2 hlt (hS _)]
          simp [hlt, unitOutcome]
    | _ =>
      rw [hk] at hL
      rw [updateList_run_error f st h.key idx val hi hv _ hL]
      simp [hllUpdate, Script.bind, cmdLINDEX, hk, unitOutcome, updateListError]

/-! ## `initList` -/

/-- the state of `initList` when `j` registers have been put into the table. -/
def initS (st : Store) (key : String) (m j : Nat) : State :=
  { store := st
    heap := [{ arr := [.str key] }, { arr := [.str (decimal m)] }, { arr := List.replicate j (.num 0) }]
    env := [("registers", .table 2), ("size", .str (decimal m)), ("key", .str key)]
    log := [] }

def initBody : List Stmt := forBody (hyperloglog_redis_initList.getD 3 (.unsupported ""))

theorem initList_prefix (g : Nat) (st : Store) (key : String) (m : Nat) :
    execBlock (g + 5 + 3) (hyperloglog_redis_initList.take 3) (initState [key] [decimal m] st) =
      .ok none (initS st key m 0) := by
  simp only [hyperloglog_redis_initList, List.take]
  lua_simp_hll [initS]

theorem initList_for (g : Nat) (st : Store) (key : String) (m : Nat) (hm : m ≤ numLimit) (he : m % 2 = 0) :
    execStmt (g + 6) (hyperloglog_redis_initList.getD 3 (.unsupported "")) (initS st key m 0) =
      numForLoop (g + 5) "i" 1 ((m / 2 : Nat) : Int) 1 initBody (initS st key m 0) := by
  simp only [hyperloglog_redis_initList, initBody, forBody, List.getD_cons_succ, List.getD_cons_zero]
  lua_simp_hll [initS, luaToNumber_decimal hm, arith_div_two m he hm]

theorem initList_body (f : Nat) (st : Store) (key : String) (m j : Nat) (hj : j + 1 < maxArrayIndex) :
    inScope (do declare "i" (.num ((j : Int) + 1)); execBlock (f + 4) initBody) (initS st key m j) =
      .ok none (initS st key m (j + 1)) := by
  simp only [hyperloglog_redis_initList, initBody, forBody, List.getD_cons_succ, List.getD_cons_zero]
  lua_simp_hll [initS, Table.set_nat_append, hj]
  exact List.replicate_succ'.symm

theorem initList_loop (f : Nat) (st : Store) (key : String) (m n : Nat) (hn : n < maxArrayIndex) :
    numForLoop (f + n + 5) "i" 1 (n : Int) 1 initBody (initS st key m 0) = .ok none (initS st key m n) := by
  have := numForLoop_run "i" initBody 4 (initS st key m) n n 0 (by omega)
    (fun j _ hjn f => initList_body f st key m j (by omega)) f
  have e : f + n + 5 = f + 4 + n + 1 := by omega
  rw [e]
  simpa using this

/-- the two `LPUSH`es and `return true`, when both commands succeed. -/
theorem initList_suffix_ok (f : Nat) (st st1 st2 : Store) (key : String) (m n : Nat) (x1 x2 : Int)
    (hn : n ≤ unpackSafe)
    (h1 : redisCommand "LPUSH" (key :: List.replicate n (decimal 0)) st = .ok st1 (.int x1))
    (h2 : redisCommand "LPUSH" (key :: List.replicate n (decimal 0)) st1 = .ok st2 (.int x2)) :
    finish (execBlock (f + 12) (hyperloglog_redis_initList.drop 4) (initS st key m n)) =
      (st2, .reply (.int 1)) := by
  have hnn : ∀ v ∈ (Table.mk (List.replicate n (Value.num 0)) []).arr, v ≠ .nil := by
    intro v hv; simp at hv; rw [hv.2]; simp
  have hlen : Table.len { arr := List.replicate n (Value.num 0) } = n := by
    rw [Table.len_of_no_nil _ hnn]; simp
  have hun : unpackValues { arr := List.replicate n (Value.num 0) } = List.replicate n (Value.num 0) :=
    unpackValues_of_no_nil _ hnn
  have hargs : cmdArgs (List.replicate n (Value.num 0)) = some (List.replicate n (decimal 0)) := by
    have := cmdArgs_map_num (List.replicate n 0)
    simpa using this
  simp only [hyperloglog_redis_initList, List.drop]
  lua_simp_hll [initS, hlen, hn, hun, hargs, h1, h2, finish_true]

/-- the first `LPUSH` raises: the script stops with that error. -/
theorem initList_suffix_error (f : Nat) (st : Store) (key : String) (m n : Nat) (msg : String)
    (hn : n ≤ unpackSafe)
    (h1 : redisCommand "LPUSH" (key :: List.replicate n (decimal 0)) st = .error msg) :
    finish (execBlock (f + 12) (hyperloglog_redis_initList.drop 4) (initS st key m n)) =
      (st, .error msg) := by
  have hnn : ∀ v ∈ (Table.mk (List.replicate n (Value.num 0)) []).arr, v ≠ .nil := by
    intro v hv; simp at hv; rw [hv.2]; simp
  have hlen : Table.len { arr := List.replicate n (Value.num 0) } = n := by
    rw [Table.len_of_no_nil _ hnn]; simp
  have hun : unpackValues { arr := List.replicate n (Value.num 0) } = List.replicate n (Value.num 0) :=
    unpackValues_of_no_nil _ hnn
  have hargs : cmdArgs (List.replicate n (Value.num 0)) = some (List.replicate n (decimal 0)) := by
    have := cmdArgs_map_num (List.replicate n 0)
    simpa using this
  simp only [hyperloglog_redis_initList, List.drop]
  lua_simp_hll [initS, hlen, hn, hun, hargs, h1, finish_error]

/-- 5120 zeros or more (`m ≥ 10240`): `unpack` overflows gopher-lua's data stack (miniredis); the
    script raises before its first command. -/
theorem initList_suffix_overflow (f : Nat) (st : Store) (key : String) (m n : Nat)
    (hn : unpackOverflow ≤ n) :
    finish (execBlock (f + 12) (hyperloglog_redis_initList.drop 4) (initS st key m n)) =
      (st, .error "registry overflow") := by
  have hnn : ∀ v ∈ (Table.mk (List.replicate n (Value.num 0)) []).arr, v ≠ .nil := by
    intro v hv; simp at hv; rw [hv.2]; simp
  have hlen : Table.len { arr := List.replicate n (Value.num 0) } = n := by
    rw [Table.len_of_no_nil _ hnn]; simp
  have h1 : ¬ n ≤ unpackSafe := by
    have : unpackSafe = 4800 := rfl
    have : unpackOverflow = 5120 := rfl
    omega
  simp only [hyperloglog_redis_initList, List.drop]
  lua_simp_hll [initS, hlen, hn, h1, finish_error]

/-- the whole script up to the two `LPUSH`es. -/
theorem initList_to_suffix (f : Nat) (st : Store) (key : String) (m : Nat)
    (hm : m ≤ numLimit) (he : m % 2 = 0) (hn : m / 2 < maxArrayIndex) :
    execBlock (f + m / 2 + 16) hyperloglog_redis_initList (initState [key] [decimal m] st) =
      execBlock (f + m / 2 + 12) (hyperloglog_redis_initList.drop 4) (initS st key m (m / 2)) := by
  have hs := block_split hyperloglog_redis_initList 3 (.unsupported "") (by decide)
  have e1 : f + m / 2 + 16 = (f + m / 2 + 8) + 5 + 3 := by omega
  have e2 : f + m / 2 + 8 + 5 = (f + m / 2 + 12) + 1 := by omega
  have e3 : f + m / 2 + 12 = (f + m / 2 + 6) + 6 := by omega
  have e4 : f + m / 2 + 6 + 5 = (f + 6) + m / 2 + 5 := by omega
  conv => lhs; rw [hs, e1]
  rw [execBlock_append' _ _ 3 _ _ _ rfl (initList_prefix _ st key m), e2]
  apply execBlock_cons_none
  rw [e3, initList_for _ st key m hm he, e4]
  exact initList_loop _ st key m (m / 2) hn


theorem cmdLPUSH_cases (k : String) (vs : List String) (st : Store) :
    (∃ st1 l, cmdLPUSH k vs st = (st1, some ()) ∧ st1 k = some (.list l)) ∨
    cmdLPUSH k vs st = (st, none) := by
  unfold cmdLPUSH
  by_cases hv : vs = []
  · right; simp [hv]
  · simp only [hv, if_false]
    cases hk : st k with
    | none => left; exact ⟨_, _, rfl, Store.set_self _ _ _⟩
    | some w =>
      cases w with
      | list l => left; exact ⟨_, _, rfl, Store.set_self _ _ _⟩
      | _ => right; rfl

/-- the error `initList` raises when it fails: no register to push (`LPUSH` without values), or
    a key of the wrong type. -/
def initListError (m : Nat) : String :=
  if m / 2 = 0 then msgWrongNumber "lpush" else msgWrongType

theorem initList_eq (st : Store) (h : HLLHandle) (f : Nat)
    (hm : h.m ≤ numLimit) (he : h.m % 2 = 0) (hn : h.m / 2 ≤ unpackSafe) :
    run (f + h.m / 2 + 16) hyperloglog_redis_initList [h.key] [decimal h.m] st =
      ((hllInit h st).1, unitOutcome (hllInit h st).2 (initListError h.m)) := by
  have hn' : h.m / 2 < maxArrayIndex := by
    have : unpackSafe < maxArrayIndex := by decide
    omega
  rw [run_eq_finish, initList_to_suffix f st h.key h.m hm he hn']
  unfold hllInit
  generalize hz : h.m / 2 = n at *
  cases n with
  | zero =>
    rw [initList_suffix_error _ st h.key h.m 0 _ hn (redisCommand_LPUSH_nil h.key st)]
    simp [Script.bind, cmdLPUSH, unitOutcome, initListError, hz]
  | succ n =>
    rcases cmdLPUSH_cases h.key (List.replicate (n + 1) (decimal 0)) st with ⟨st1, l, h1, hl⟩ | h1
    · rcases cmdLPUSH_cases h.key (List.replicate (n + 1) (decimal 0)) st1 with ⟨st2, l2, h2, _⟩ | h2
      · rw [Script.bind_ok h1, h2]
        have r1 := redisCommand_LPUSH h.key (decimal 0) (List.replicate n (decimal 0)) st
        have r2 := redisCommand_LPUSH h.key (decimal 0) (List.replicate n (decimal 0)) st1
        rw [← List.replicate_succ] at r1 r2
        rw [h1] at r1
        rw [h2] at r2
        rw [initList_suffix_ok _ st st1 st2 h.key h.m (n + 1) _ _ hn r1 r2]
        rfl
      · exfalso
        unfold cmdLPUSH at h2
        simp [hl] at h2
    · rw [Script.bind_err h1]
      have r1 := redisCommand_LPUSH h.key (decimal 0) (List.replicate n (decimal 0)) st
      rw [← List.replicate_succ] at r1
      rw [h1] at r1
      rw [initList_suffix_error _ st h.key h.m (n + 1) _ hn r1]
      simp [unitOutcome, initListError, hz]

theorem initList_overflow (st : Store) (h : HLLHandle) (f : Nat)
    (hm : h.m ≤ numLimit) (he : h.m % 2 = 0) (hn : unpackOverflow ≤ h.m / 2)
    (hmax : h.m / 2 < maxArrayIndex) :
    run (f + h.m / 2 + 16) hyperloglog_redis_initList [h.key] [decimal h.m] st =
      (st, .error "registry overflow") := by
  rw [run_eq_finish, initList_to_suffix f st h.key h.m hm he hmax]
  exact initList_suffix_overflow _ st h.key h.m _ hn

/-! ## `mergeRegistersScript` -/

/-- the state of `mergeRegistersScript` / `equals` inside the loop: `vals1`, `vals2` are the
    tables `T1`, `T2`. -/
def mergeT (st : Store) (key1 key2 : String) (m : Nat) (T1 T2 : Table) : State :=
  { store := st
    heap := [{ arr := [.str key1, .str key2] }, { arr := [.str (decimal m)] }, T1, T2]
    env := [("vals2", .table 3), ("vals1", .table 2), ("size", .str (decimal m)),
      ("key2", .str key2), ("key1", .str key1)]
    log := [key2, key1] }

def strTable (l : List String) : Table := { arr := l.map .str }

def mergeBody : List Stmt := forBody (hyperloglog_redis_mergeRegistersScript.getD 5 (.unsupported ""))

theorem merge_prefix (g : Nat) (st : Store) (key1 key2 : String) (m : Nat) (l1 l2 : List String)
    (h1 : redisCommand "LRANGE" [key1, "0", "-1"] st = .ok st (.list l1))
    (h2 : redisCommand "LRANGE" [key2, "0", "-1"] st = .ok st (.list l2)) :
    execBlock (g + 10 + 5) (hyperloglog_redis_mergeRegistersScript.take 5)
        (initState [key1, key2] [decimal m] st) =
      .ok none (mergeT st key1 key2 m (strTable l1) (strTable l2)) := by
  simp only [hyperloglog_redis_mergeRegistersScript, List.take]
  lua_simp_hll [mergeT, strTable, h1, h2]

theorem merge_for (g : Nat) (st : Store) (key1 key2 : String) (m : Nat) (T1 T2 : Table) (hm : m ≤ numLimit) :
    execStmt (g + 6) (hyperloglog_redis_mergeRegistersScript.getD 5 (.unsupported "")) (mergeT st key1 key2 m T1 T2) =
      numForLoop (g + 5) "i" 1 (m : Int) 1 mergeBody (mergeT st key1 key2 m T1 T2) := by
  simp only [hyperloglog_redis_mergeRegistersScript, mergeBody, forBody, List.getD_cons_succ, List.getD_cons_zero]
  lua_simp_hll [mergeT, luaToNumber_decimal hm]

section body
variable (f : Nat) (st : Store) (key1 key2 : String) (m : Nat) (T1 T2 : Table) (i : Int)

theorem merge_body_lt (a b : String) (x y : Int) (T1' : Table)
    (hg1 : T1.get (.num i) = .str a) (hg2 : T2.get (.num i) = .str b)
    (ha : luaToNumber a = .num x) (hb : luaToNumber b = .num y) (hlt : x < y)
    (hset : T1.set (.num i) (.str b) = T1') :
    inScope (do declare "i" (.num i); execBlock (f + 8) mergeBody) (mergeT st key1 key2 m T1 T2) =
      .ok none (mergeT st key1 key2 m T1' T2) := by
  simp only [hyperloglog_redis_mergeRegistersScript, mergeBody, forBody, List.getD_cons_succ, List.getD_cons_zero]
  lua_simp_hll [mergeT, hg1, hg2, ha, hb, hlt, hset]

theorem merge_body_ge (a b : String) (x y : Int)
    (hg1 : T1.get (.num i) = .str a) (hg2 : T2.get (.num i) = .str b)
    (ha : luaToNumber a = .num x) (hb : luaToNumber b = .num y) (hge : ¬ x < y) :
    inScope (do declare "i" (.num i); execBlock (f + 8) mergeBody) (mergeT st key1 key2 m T1 T2) =
      .ok none (mergeT st key1 key2 m T1 T2) := by
  simp only [hyperloglog_redis_mergeRegistersScript, mergeBody, forBody, List.getD_cons_succ, List.getD_cons_zero]
  lua_simp_hll [mergeT, hg1, hg2, ha, hb, hge]

/-- `vals1[i]` is nil, `vals2[i]` is nil. -/
theorem merge_body_nil_nil
    (hg1 : T1.get (.num i) = .nil) (hg2 : T2.get (.num i) = .nil) :
    inScope (do declare "i" (.num i); execBlock (f + 8) mergeBody) (mergeT st key1 key2 m T1 T2) =
      .error "attempt to compare nil with nil"
        { mergeT st key1 key2 m T1 T2 with env := ("i", .num i) :: (mergeT st key1 key2 m T1 T2).env } := by
  simp only [hyperloglog_redis_mergeRegistersScript, mergeBody, forBody, List.getD_cons_succ, List.getD_cons_zero]
  lua_simp_hll [mergeT, hg1, hg2]
  rfl

/-- `vals1[i]` is nil, `vals2[i]` is a number. -/
theorem merge_body_nil_num (b : String) (y : Int)
    (hg1 : T1.get (.num i) = .nil) (hg2 : T2.get (.num i) = .str b) (hb : luaToNumber b = .num y) :
    inScope (do declare "i" (.num i); execBlock (f + 8) mergeBody) (mergeT st key1 key2 m T1 T2) =
      .error "attempt to compare nil with number"
        { mergeT st key1 key2 m T1 T2 with env := ("i", .num i) :: (mergeT st key1 key2 m T1 T2).env } := by
  simp only [hyperloglog_redis_mergeRegistersScript, mergeBody, forBody, List.getD_cons_succ, List.getD_cons_zero]
  lua_simp_hll [mergeT, hg1, hg2, hb]
  rfl

/-- `vals1[i]` is a number, `vals2[i]` is nil. -/
theorem merge_body_num_nil (a : String) (x : Int)
    (hg1 : T1.get (.num i) = .str a) (hg2 : T2.get (.num i) = .nil) (ha : luaToNumber a = .num x) :
    inScope (do declare "i" (.num i); execBlock (f + 8) mergeBody) (mergeT st key1 key2 m T1 T2) =
      .error "attempt to compare number with nil"
        { mergeT st key1 key2 m T1 T2 with env := ("i", .num i) :: (mergeT st key1 key2 m T1 T2).env } := by
  simp only [hyperloglog_redis_mergeRegistersScript, mergeBody, forBody, List.getD_cons_succ, List.getD_cons_zero]
  lua_simp_hll [mergeT, hg1, hg2, ha]
  rfl

end body

/-! list facts for the loop invariant -/

theorem strTable_get_nil (done : List String) (k : Nat) (hk : done.length = k) (hb : k + 1 < maxArrayIndex) :
    (strTable done).get (.num ((k : Int) + 1)) = .nil := by
  rw [Table.get_nat _ _ hb]
  simp [strTable, List.getD_eq_getElem?_getD, hk]

theorem strTable_get_cons (done : List String) (a : String) (l : List String) (k : Nat)
    (hk : done.length = k) (hb : k + 1 < maxArrayIndex) :
    (strTable (done ++ a :: l)).get (.num ((k : Int) + 1)) = .str a := by
  rw [Table.get_nat _ _ hb]
  simp [strTable, List.getD_eq_getElem?_getD, ← hk]

theorem strTable_set_cons (done : List String) (a b : String) (l : List String) (k : Nat)
    (hk : done.length = k) (hb : k + 1 < maxArrayIndex) :
    (strTable (done ++ a :: l)).set (.num ((k : Int) + 1)) (.str b) = strTable (done ++ b :: l) := by
  rw [Table.set_nat_lt _ _ _ hb (by simp [strTable, ← hk])]
  simp [strTable, ← hk]

theorem hllMergeVals_fst : ∀ (n : Nat) (l1 l2 : List String) (st : Store), (hllMergeVals n l1 l2 st).1 = st := by
  intro n
  induction n with
  | zero => intro l1 l2 st; rfl
  | succ n ih =>
    intro l1 l2 st
    unfold hllMergeVals
    cases h1 : l1.head? with
    | none => rfl
    | some a =>
      cases ha : parseDecimal a with
      | none => simp [Script.bind, luaNumber, ha]
      | some x =>
        cases h2 : l2.head? with
        | none => simp [Script.bind, luaNumber, ha]
        | some b =>
          cases hb : parseDecimal b with
          | none => simp [Script.bind, luaNumber, ha, hb]
          | some y =>
            have := ih l1.tail l2.tail st
            simp only [Script.bind, luaNumber, ha, hb]
            cases hr : hllMergeVals n l1.tail l2.tail st with
            | mk s' r =>
              rw [hr] at this
              simp only at this
              subst this
              cases r <;> rfl

theorem hllMergeVals_succ_cons (n : Nat) (a b : String) (l1 l2 : List String) (x y : Nat) (st : Store)
    (ha : parseDecimal a = some x) (hb : parseDecimal b = some y) :
    hllMergeVals (n + 1) (a :: l1) (b :: l2) st =
      (match hllMergeVals n l1 l2 st with
       | (s', some rest) => (s', some ((if x < y then b else a) :: rest))
       | (s', none) => (s', none)) := by
  rw [hllMergeVals]
  simp only [List.head?_cons, List.tail_cons, Script.bind, luaNumber, ha, hb]
  cases hllMergeVals n l1 l2 st with
  | mk s' r => cases r <;> rfl

/-- the error the merge loop raises at the first position where a register is missing:
    `tonumber(nil) < …` / `… < tonumber(nil)`. -/
def mergeErrorMsg : Nat → List String → List String → String
  | 0, _, _ => ""
  | _ + 1, [], [] => "attempt to compare nil with nil"
  | _ + 1, [], _ :: _ => "attempt to compare nil with number"
  | _ + 1, _ :: _, [] => "attempt to compare number with nil"
  | n + 1, _ :: l1, _ :: l2 => mergeErrorMsg n l1 l2

/-- the merge loop, by induction on the number of registers left (as `hllMergeVals` recurses):
    `done`/`pre2` are the parts of the two tables already visited. -/
theorem merge_loop (st : Store) (key1 key2 : String) (m L : Nat) :
    ∀ (n k : Nat) (done pre2 l1 l2 : List String), k + n = L → done.length = k → pre2.length = k →
      k + l1.length + 1 < maxArrayIndex →
      (∀ c ∈ l1.take n, Numeral c) → (∀ c ∈ l2.take n, Numeral c) → ∀ f,
      (∀ vals, hllMergeVals n l1 l2 st = (st, some vals) →
        numForLoop (f + n + 9) "i" ((k : Int) + 1) (L : Int) 1 mergeBody
            (mergeT st key1 key2 m (strTable (done ++ l1)) (strTable (pre2 ++ l2))) =
          .ok none (mergeT st key1 key2 m (strTable (done ++ vals)) (strTable (pre2 ++ l2)))) ∧
      (hllMergeVals n l1 l2 st = (st, none) →
        ∃ s', numForLoop (f + n + 9) "i" ((k : Int) + 1) (L : Int) 1 mergeBody
            (mergeT st key1 key2 m (strTable (done ++ l1)) (strTable (pre2 ++ l2))) =
              .error (mergeErrorMsg n l1 l2) s' ∧
          s'.store = st) := by
  intro n
  induction n with
  | zero =>
    intro k done pre2 l1 l2 hL hd hp hb h1 h2 f
    constructor
    · intro vals hv
      have : vals = l1 := by
        have : hllMergeVals 0 l1 l2 st = (st, some l1) := rfl
        rw [this] at hv; injection hv with _ h; injection h with h; exact h.symm
      subst this
      exact numForLoop_done _ _ _ _ _ _ (by omega)
    · intro hv
      have : hllMergeVals 0 l1 l2 st = (st, some l1) := rfl
      rw [this] at hv; injection hv with _ h; cases h
  | succ n ih =>
    intro k done pre2 l1 l2 hL hd hp hb h1 h2 f
    have hk1 : k + 1 < maxArrayIndex := by omega
    have hle : ((k : Int) + 1) ≤ (L : Int) := by omega
    have efuel : f + (n + 1) + 9 = (f + n + 9) + 1 := by omega
    have efuel2 : f + n + 9 = (f + n + 1) + 8 := by omega
    cases l1 with
    | nil =>
      have hm : hllMergeVals (n + 1) [] l2 st = (st, none) := rfl
      constructor
      · intro vals hv; rw [hm] at hv; injection hv with _ h; cases h
      · intro _
        have hg1 := strTable_get_nil done k hd hk1
        rw [List.append_nil, efuel]
        cases l2 with
        | nil =>
          have hg2 := strTable_get_nil pre2 k hp hk1
          rw [List.append_nil]
          have hx := numForLoop_error (f + n + 9) "i" _ _ mergeBody _ _ _ hle
            (by rw [efuel2]; exact merge_body_nil_nil _ st key1 key2 m _ _ _ hg1 hg2)
          exact ⟨_, hx, rfl⟩
        | cons b l2 =>
          obtain ⟨y, hy, hyn⟩ := h2 b (by simp)
          have hg2 := strTable_get_cons pre2 b l2 k hp hk1
          have hx := numForLoop_error (f + n + 9) "i" _ _ mergeBody _ _ _ hle
            (by rw [efuel2]; exact merge_body_nil_num _ st key1 key2 m _ _ _ b y hg1 hg2 (luaToNumber_of_parseDecimal hy hyn))
          exact ⟨_, hx, rfl⟩
    | cons a l1 =>
      obtain ⟨x, hx, hxn⟩ := h1 a (by simp)
      have hg1 := strTable_get_cons done a l1 k hd hk1
      cases l2 with
      | nil =>
        have hm : hllMergeVals (n + 1) (a :: l1) [] st = (st, none) := by
          rw [hllMergeVals]
          simp [Script.bind, luaNumber, hx]
        constructor
        · intro vals hv; rw [hm] at hv; injection hv with _ h; cases h
        · intro _
          have hg2 := strTable_get_nil pre2 k hp hk1
          rw [List.append_nil, efuel]
          have hx := numForLoop_error (f + n + 9) "i" _ _ mergeBody _ _ _ hle
            (by rw [efuel2]; exact merge_body_num_nil _ st key1 key2 m _ _ _ a x hg1 hg2 (luaToNumber_of_parseDecimal hx hxn))
          exact ⟨_, hx, rfl⟩
      | cons b l2 =>
        obtain ⟨y, hy, hyn⟩ := h2 b (by simp)
        have hg2 := strTable_get_cons pre2 b l2 k hp hk1
        have hm := hllMergeVals_succ_cons n a b l1 l2 x y st hx hy
        -- the state after this iteration
        have hstep : numForLoop (f + n + 9 + 1) "i" ((k : Int) + 1) (L : Int) 1 mergeBody
              (mergeT st key1 key2 m (strTable (done ++ a :: l1)) (strTable (pre2 ++ b :: l2))) =
            numForLoop (f + n + 9) "i" (((k + 1 : Nat) : Int) + 1) (L : Int) 1 mergeBody
              (mergeT st key1 key2 m (strTable ((done ++ [if x < y then b else a]) ++ l1))
                (strTable ((pre2 ++ [b]) ++ l2))) := by
          have e2 : ((k : Int) + 1 + 1) = ((k + 1 : Nat) : Int) + 1 := by omega
          rw [← e2]
          simp only [List.append_assoc, List.singleton_append]
          apply numForLoop_step _ _ _ _ _ _ _ hle
          rw [efuel2]
          by_cases hlt : x < y
          · rw [if_pos hlt]
            exact merge_body_lt _ st key1 key2 m _ _ _ a b x y _ hg1 hg2
              (luaToNumber_of_parseDecimal hx hxn) (luaToNumber_of_parseDecimal hy hyn)
              (by omega) (strTable_set_cons done a b l1 k hd hk1)
          · rw [if_neg hlt]
            exact merge_body_ge _ st key1 key2 m _ _ _ a b x y hg1 hg2
              (luaToNumber_of_parseDecimal hx hxn) (luaToNumber_of_parseDecimal hy hyn)
              (by omega)
        have hih := ih (k + 1) (done ++ [if x < y then b else a]) (pre2 ++ [b]) l1 l2 (by omega)
          (by simp [hd]) (by simp [hp]) (by simp at hb ⊢; omega)
          (fun c hc => h1 c (by simp [hc])) (fun c hc => h2 c (by simp [hc])) f
        have hfst := hllMergeVals_fst n l1 l2 st
        rw [efuel, hstep, hm]
        cases hr : hllMergeVals n l1 l2 st with
        | mk s' r =>
          rw [hr] at hfst
          simp only at hfst
          subst hfst
          cases r with
          | none =>
            constructor
            · intro vals hv; simp only at hv; injection hv with _ h; cases h
            · intro _; exact hih.2 hr
          | some rest =>
            constructor
            · intro vals hv
              simp only at hv
              injection hv with _ h; injection h with h
              subst h
              have := hih.1 rest hr
              simpa [List.append_assoc] using this
            · intro hv; simp only at hv; injection hv with _ h; cases h

theorem strTable_no_nil (l : List String) : ∀ v ∈ (strTable l).arr, v ≠ .nil := by
  intro v hv
  simp only [strTable, List.mem_map] at hv
  obtain ⟨a, _, rfl⟩ := hv
  simp

theorem strTable_len (l : List String) : (strTable l).len = l.length := by
  rw [Table.len_of_no_nil _ (strTable_no_nil l)]; simp [strTable]

theorem strTable_unpack (l : List String) : unpackValues (strTable l) = l.map .str :=
  unpackValues_of_no_nil _ (strTable_no_nil l)

/-- `DEL`, `RPUSH … unpack(vals1)`, `return true` when the `RPUSH` succeeds. -/
theorem merge_suffix_ok (f : Nat) (st st2 : Store) (key1 key2 : String) (m : Nat) (vals : List String)
    (T2 : Table) (d x : Int) (hn : vals.length ≤ unpackSafe)
    (hd : redisCommand "DEL" [key1] st = .ok (st.del key1) (.int d))
    (hr : redisCommand "RPUSH" (key1 :: vals) (st.del key1) = .ok st2 (.int x)) :
    finish (execBlock (f + 12) (hyperloglog_redis_mergeRegistersScript.drop 6)
      (mergeT st key1 key2 m (strTable vals) T2)) = (st2, .reply (.int 1)) := by
  have hlen := strTable_len vals
  have hun := strTable_unpack vals
  have hargs := cmdArgs_map_str vals
  simp only [hyperloglog_redis_mergeRegistersScript, List.drop]
  lua_simp_hll [mergeT, hlen, hn, hun, hargs, hd, hr, finish_true]

/-- the same when the `pcall`ed `RPUSH` fails (no values): its error is dropped. -/
theorem merge_suffix_err (f : Nat) (st : Store) (key1 key2 : String) (m : Nat) (vals : List String)
    (T2 : Table) (d : Int) (msg : String) (hn : vals.length ≤ unpackSafe)
    (hd : redisCommand "DEL" [key1] st = .ok (st.del key1) (.int d))
    (hr : redisCommand "RPUSH" (key1 :: vals) (st.del key1) = .error msg) :
    finish (execBlock (f + 12) (hyperloglog_redis_mergeRegistersScript.drop 6)
      (mergeT st key1 key2 m (strTable vals) T2)) = (st.del key1, .reply (.int 1)) := by
  have hlen := strTable_len vals
  have hun := strTable_unpack vals
  have hargs := cmdArgs_map_str vals
  simp only [hyperloglog_redis_mergeRegistersScript, List.drop]
  lua_simp_hll [mergeT, hlen, hn, hun, hargs, hd, hr, finish_true]

theorem hllMergeVals_length : ∀ (n : Nat) (l1 l2 vals : List String) (st st' : Store),
    hllMergeVals n l1 l2 st = (st', some vals) → vals.length = l1.length := by
  intro n
  induction n with
  | zero =>
    intro l1 l2 vals st st' h
    have : hllMergeVals 0 l1 l2 st = (st, some l1) := rfl
    rw [this] at h; injection h with _ h; injection h with h; rw [h]
  | succ n ih =>
    intro l1 l2 vals st st' h
    rw [hllMergeVals] at h
    cases l1 with
    | nil => simp [Script.bind, luaNumber] at h
    | cons a l1 =>
      cases l2 with
      | nil =>
        cases ha : parseDecimal a <;> simp [Script.bind, luaNumber, ha] at h
      | cons b l2 =>
        cases ha : parseDecimal a with
        | none => simp [Script.bind, luaNumber, ha] at h
        | some x =>
          cases hb : parseDecimal b with
          | none => simp [Script.bind, luaNumber, ha, hb] at h
          | some y =>
            simp only [List.head?_cons, List.tail_cons, Script.bind, luaNumber, ha, hb] at h
            cases hr : hllMergeVals n l1 l2 st with
            | mk s' r =>
              rw [hr] at h
              cases r with
              | none => simp at h
              | some rest =>
                simp only [Script.pure] at h
                injection h with _ h; injection h with h
                rw [← h, List.length_cons, List.length_cons, ih l1 l2 rest st s' hr]

/-- more than gopher-lua's data stack holds: `DEL` is done, then `unpack` raises — the registers
    are gone. -/
theorem merge_suffix_overflow (f : Nat) (st : Store) (key1 key2 : String) (m : Nat) (vals : List String)
    (T2 : Table) (d : Int) (hn : unpackOverflow ≤ vals.length)
    (hd : redisCommand "DEL" [key1] st = .ok (st.del key1) (.int d)) :
    finish (execBlock (f + 12) (hyperloglog_redis_mergeRegistersScript.drop 6)
      (mergeT st key1 key2 m (strTable vals) T2)) = (st.del key1, .error "registry overflow") := by
  have hlen := strTable_len vals
  have h1 : ¬ vals.length ≤ unpackSafe := by
    have : unpackSafe = 4800 := rfl
    have : unpackOverflow = 5120 := rfl
    omega
  simp only [hyperloglog_redis_mergeRegistersScript, List.drop]
  lua_simp_hll [mergeT, hlen, hn, h1, hd, finish_error]

/-- `LRANGE k 0 -1` succeeds with `l`: the key holds the list `l`, or is absent and `l = []`. -/
def ListAt (st : Store) (k : String) (l : List String) : Prop := cmdLRANGE k st = (st, some l)

theorem ListAt.lrange {st : Store} {k : String} {l : List String} (h : ListAt st k l) :
    redisCommand "LRANGE" [k, "0", "-1"] st = .ok st (.list l) := by
  rw [redisCommand_LRANGE]
  unfold ListAt cmdLRANGE at h
  cases hk : st k with
  | none => rw [hk] at h; injection h with _ h; injection h with h; rw [← h]
  | some w =>
    rw [hk] at h
    cases w with
    | list l' => injection h with _ h; injection h with h; rw [← h]
    | _ => injection h with _ h; cases h

theorem merge_eq (st : Store) (key1 key2 : String) (m f : Nat) (l1 l2 : List String)
    (hm : m ≤ numLimit) (h1 : ListAt st key1 l1) (h2 : ListAt st key2 l2)
    (hlen : l1.length ≤ unpackSafe)
    (hn1 : ∀ c ∈ l1.take m, Numeral c) (hn2 : ∀ c ∈ l2.take m, Numeral c) :
    run (f + m + 18) hyperloglog_redis_mergeRegistersScript [key1, key2] [decimal m] st =
      ((hllMergeScript key1 key2 m st).1,
        unitOutcome (hllMergeScript key1 key2 m st).2 (mergeErrorMsg m l1 l2)) := by
  have hs := block_split hyperloglog_redis_mergeRegistersScript 5 (.unsupported "") (by decide)
  have e1 : f + m + 18 = (f + m + 3) + 10 + 5 := by omega
  have e2 : f + m + 3 + 10 = (f + m + 12) + 1 := by omega
  have e3 : f + m + 12 = (f + m + 6) + 6 := by omega
  have e4 : f + m + 6 + 5 = (f + 2) + m + 9 := by omega
  have hb : 0 + l1.length + 1 < maxArrayIndex := by
    have : unpackSafe = 4800 := rfl
    have : maxArrayIndex = 67108864 := rfl
    omega
  have hloop := merge_loop st key1 key2 m m m 0 [] [] l1 l2 (by omega) rfl rfl hb hn1 hn2 (f + 2)
  simp only [List.nil_append, Int.natCast_zero, Int.zero_add] at hloop
  -- the model
  have t1 : Script.try_ (cmdLRANGE key1) st = (st, some (some l1)) := by
    unfold Script.try_; rw [h1]
  have t2 : Script.try_ (cmdLRANGE key2) st = (st, some (some l2)) := by
    unfold Script.try_; rw [h2]
  have hmodel : hllMergeScript key1 key2 m st =
      (hllMergeVals m l1 l2 >>=ₛ fun vals =>
        Script.try_ (cmdDEL key1) >>=ₛ fun _ =>
        Script.try_ (cmdRPUSH key1 vals) >>=ₛ fun _ => Script.pure ()) st := by
    unfold hllMergeScript
    rw [Script.bind_ok t1, Script.bind_ok t2]; rfl
  rw [hmodel]
  -- the interpreter, up to the loop
  rw [run_eq_finish]
  conv => lhs; rw [hs, e1]
  rw [execBlock_append' _ _ 5 _ _ _ rfl (merge_prefix _ st key1 key2 m l1 l2 h1.lrange h2.lrange), e2]
  have hfst := hllMergeVals_fst m l1 l2 st
  cases hr : hllMergeVals m l1 l2 st with
  | mk s' r =>
    rw [hr] at hfst; simp only at hfst; subst s'
    cases r with
    | none =>
      obtain ⟨s', hx, hst⟩ := hloop.2 hr
      rw [execBlock_cons_error (s' := s') (msg := mergeErrorMsg m l1 l2), finish_error, hst,
        Script.bind_err hr]
      · rfl
      · rw [e3, merge_for _ st key1 key2 m _ _ hm, e4]; exact hx
    | some vals =>
      have hx := hloop.1 vals hr
      rw [execBlock_cons_none (s' := mergeT st key1 key2 m (strTable vals) (strTable l2))]
      · rw [Script.bind_ok hr]
        have hvl : vals.length ≤ unpackSafe := by rw [hllMergeVals_length m l1 l2 vals st st hr]; exact hlen
        have t3 : Script.try_ (cmdDEL key1) st = (st.del key1, some (some ())) := rfl
        rw [Script.bind_ok t3]
        cases vals with
        | nil =>
          rw [merge_suffix_err _ st key1 key2 m [] _ _ _ hvl (redisCommand_DEL1 key1 st)
            (redisCommand_RPUSH_nil key1 _)]
          rfl
        | cons v vs =>
          have hr2 := redisCommand_RPUSH key1 v vs (st.del key1)
          rw [cmdRPUSH_none (Store.del_self _ _) (by simp)] at hr2
          rw [merge_suffix_ok _ st _ key1 key2 m (v :: vs) _ _ _ hvl (redisCommand_DEL1 key1 st) hr2]
          simp [Script.bind, Script.try_, cmdRPUSH, Store.del_self, Script.pure, unitOutcome]
      · rw [e3, merge_for _ st key1 key2 m _ _ hm, e4]; exact hx

/-- `Merge` of a HyperLogLog with 5120 registers or more (miniredis): the loop succeeds, `DEL`
    deletes the receiver's registers, `unpack` raises. -/
theorem merge_overflow (st : Store) (key1 key2 : String) (m f : Nat) (l1 l2 vals : List String)
    (hm : m ≤ numLimit) (h1 : ListAt st key1 l1) (h2 : ListAt st key2 l2)
    (hlen : unpackOverflow ≤ l1.length) (hmax : l1.length + 1 < maxArrayIndex)
    (hn1 : ∀ c ∈ l1.take m, Numeral c) (hn2 : ∀ c ∈ l2.take m, Numeral c)
    (hv : hllMergeVals m l1 l2 st = (st, some vals)) :
    run (f + m + 18) hyperloglog_redis_mergeRegistersScript [key1, key2] [decimal m] st =
      (st.del key1, .error "registry overflow") := by
  have hs := block_split hyperloglog_redis_mergeRegistersScript 5 (.unsupported "") (by decide)
  have e1 : f + m + 18 = (f + m + 3) + 10 + 5 := by omega
  have e2 : f + m + 3 + 10 = (f + m + 12) + 1 := by omega
  have e3 : f + m + 12 = (f + m + 6) + 6 := by omega
  have e4 : f + m + 6 + 5 = (f + 2) + m + 9 := by omega
  have hb : 0 + l1.length + 1 < maxArrayIndex := by omega
  have hloop := merge_loop st key1 key2 m m m 0 [] [] l1 l2 (by omega) rfl rfl hb hn1 hn2 (f + 2)
  simp only [List.nil_append, Int.natCast_zero, Int.zero_add] at hloop
  rw [run_eq_finish]
  conv => lhs; rw [hs, e1]
  rw [execBlock_append' _ _ 5 _ _ _ rfl (merge_prefix _ st key1 key2 m l1 l2 h1.lrange h2.lrange), e2]
  have hx := hloop.1 vals hv
  rw [execBlock_cons_none (s' := mergeT st key1 key2 m (strTable vals) (strTable l2))]
  · have hvl : unpackOverflow ≤ vals.length := by
      rw [hllMergeVals_length m l1 l2 vals st st hv]; exact hlen
    exact merge_suffix_overflow _ st key1 key2 m vals _ _ hvl (redisCommand_DEL1 key1 st)
  · rw [e3, merge_for _ st key1 key2 m _ _ hm, e4]; exact hx

/-! ## `equals` (hyperloglog_redis.go, `compareRegisters`) -/

def equalsBody : List Stmt := forBody (hyperloglog_redis_equals.getD 5 (.unsupported ""))

theorem equals_prefix (g : Nat) (st : Store) (key1 key2 : String) (m : Nat) (l1 l2 : List String)
    (h1 : redisCommand "LRANGE" [key1, "0", "-1"] st = .ok st (.list l1))
    (h2 : redisCommand "LRANGE" [key2, "0", "-1"] st = .ok st (.list l2)) :
    execBlock (g + 10 + 5) (hyperloglog_redis_equals.take 5)
        (initState [key1, key2] [decimal m] st) =
      .ok none (mergeT st key1 key2 m (strTable l1) (strTable l2)) := by
  simp only [hyperloglog_redis_equals, List.take]
  lua_simp_hll [mergeT, strTable, h1, h2]

theorem equals_for (g : Nat) (st : Store) (key1 key2 : String) (m : Nat) (T1 T2 : Table) (hm : m ≤ numLimit) :
    execStmt (g + 6) (hyperloglog_redis_equals.getD 5 (.unsupported "")) (mergeT st key1 key2 m T1 T2) =
      numForLoop (g + 5) "i" 1 (m : Int) 1 equalsBody (mergeT st key1 key2 m T1 T2) := by
  simp only [hyperloglog_redis_equals, equalsBody, forBody, List.getD_cons_succ, List.getD_cons_zero]
  lua_simp_hll [mergeT, luaToNumber_decimal hm]

theorem equals_suffix (f : Nat) (s : State) :
    finish (execBlock (f + 5) (hyperloglog_redis_equals.drop 6) s) = (s.store, .reply (.int 1)) := by
  simp only [hyperloglog_redis_equals, List.drop]
  lua_simp_hll [finish_true]

section body
variable (f : Nat) (st : Store) (key1 key2 : String) (m : Nat) (T1 T2 : Table) (i : Int)

theorem equals_body_nil_nil
    (hg1 : T1.get (.num i) = .nil) (hg2 : T2.get (.num i) = .nil) :
    inScope (do declare "i" (.num i); execBlock (f + 8) equalsBody) (mergeT st key1 key2 m T1 T2) =
      .ok none (mergeT st key1 key2 m T1 T2) := by
  simp only [hyperloglog_redis_equals, equalsBody, forBody, List.getD_cons_succ, List.getD_cons_zero]
  lua_simp_hll [mergeT, hg1, hg2]

theorem equals_body_nil_num (b : String) (y : Int)
    (hg1 : T1.get (.num i) = .nil) (hg2 : T2.get (.num i) = .str b) (hb : luaToNumber b = .num y) :
    inScope (do declare "i" (.num i); execBlock (f + 8) equalsBody) (mergeT st key1 key2 m T1 T2) =
      .ok (some [.bool false]) (mergeT st key1 key2 m T1 T2) := by
  simp only [hyperloglog_redis_equals, equalsBody, forBody, List.getD_cons_succ, List.getD_cons_zero]
  lua_simp_hll [mergeT, hg1, hg2, hb]

theorem equals_body_num_nil (a : String) (x : Int)
    (hg1 : T1.get (.num i) = .str a) (hg2 : T2.get (.num i) = .nil) (ha : luaToNumber a = .num x) :
    inScope (do declare "i" (.num i); execBlock (f + 8) equalsBody) (mergeT st key1 key2 m T1 T2) =
      .ok (some [.bool false]) (mergeT st key1 key2 m T1 T2) := by
  simp only [hyperloglog_redis_equals, equalsBody, forBody, List.getD_cons_succ, List.getD_cons_zero]
  lua_simp_hll [mergeT, hg1, hg2, ha]

theorem equals_body_eq (a b : String) (x : Int)
    (hg1 : T1.get (.num i) = .str a) (hg2 : T2.get (.num i) = .str b)
    (ha : luaToNumber a = .num x) (hb : luaToNumber b = .num x) :
    inScope (do declare "i" (.num i); execBlock (f + 8) equalsBody) (mergeT st key1 key2 m T1 T2) =
      .ok none (mergeT st key1 key2 m T1 T2) := by
  simp only [hyperloglog_redis_equals, equalsBody, forBody, List.getD_cons_succ, List.getD_cons_zero]
  lua_simp_hll [mergeT, hg1, hg2, ha, hb]

theorem equals_body_ne (a b : String) (x y : Int)
    (hg1 : T1.get (.num i) = .str a) (hg2 : T2.get (.num i) = .str b)
    (ha : luaToNumber a = .num x) (hb : luaToNumber b = .num y) (hne : x ≠ y) :
    inScope (do declare "i" (.num i); execBlock (f + 8) equalsBody) (mergeT st key1 key2 m T1 T2) =
      .ok (some [.bool false]) (mergeT st key1 key2 m T1 T2) := by
  simp only [hyperloglog_redis_equals, equalsBody, forBody, List.getD_cons_succ, List.getD_cons_zero]
  lua_simp_hll [mergeT, hg1, hg2, ha, hb, hne]

end body

/-- register `j` (0-based) of a list read back as a number, as the hand model reads it. -/
def regAt (l : List String) (j : Nat) : Option Nat := l[j]?.bind parseDecimal

theorem regAt_zero (l : List String) : regAt l 0 = l.head?.bind parseDecimal := by
  cases l <;> rfl

theorem regAt_succ (l : List String) (j : Nat) : regAt l (j + 1) = regAt l.tail j := by
  cases l <;> simp [regAt]

theorem hllCompareVals_true : ∀ (n : Nat) (l1 l2 : List String), hllCompareVals n l1 l2 = true →
    ∀ j, j < n → regAt l1 j = regAt l2 j := by
  intro n
  induction n with
  | zero => intro l1 l2 _ j hj; omega
  | succ n ih =>
    intro l1 l2 h j hj
    rw [hllCompareVals] at h
    split at h
    · cases h
    · rename_i hh
      have h0 : l1.head?.bind parseDecimal = l2.head?.bind parseDecimal := Classical.not_not.mp hh
      cases j with
      | zero => rw [regAt_zero, regAt_zero]; exact h0
      | succ j => rw [regAt_succ, regAt_succ]; exact ih _ _ h j (by omega)

theorem hllCompareVals_false : ∀ (n : Nat) (l1 l2 : List String), hllCompareVals n l1 l2 = false →
    ∃ e, e < n ∧ (∀ j, j < e → regAt l1 j = regAt l2 j) ∧ regAt l1 e ≠ regAt l2 e := by
  intro n
  induction n with
  | zero => intro l1 l2 h; cases h
  | succ n ih =>
    intro l1 l2 h
    rw [hllCompareVals] at h
    split at h
    · rename_i hh
      exact ⟨0, by omega, fun j hj => by omega, by rw [regAt_zero, regAt_zero]; exact hh⟩
    · rename_i hh
      have h0 : l1.head?.bind parseDecimal = l2.head?.bind parseDecimal := Classical.not_not.mp hh
      obtain ⟨e, he, hlt, hne⟩ := ih _ _ h
      refine ⟨e + 1, by omega, ?_, by rw [regAt_succ, regAt_succ]; exact hne⟩
      intro j hj
      cases j with
      | zero => rw [regAt_zero, regAt_zero]; exact h0
      | succ j => rw [regAt_succ, regAt_succ]; exact hlt j (by omega)

theorem strTable_get (l : List String) (j : Nat) (hj : j + 1 < maxArrayIndex) :
    (strTable l).get (.num ((j : Int) + 1)) = (match l[j]? with | some a => .str a | none => .nil) := by
  rw [Table.get_nat _ _ hj]
  simp only [strTable, List.getD_eq_getElem?_getD, List.getElem?_map]
  cases l[j]? <;> rfl

section bodyIdx
variable (f : Nat) (st : Store) (key1 key2 : String) (m : Nat) (l1 l2 : List String) (j : Nat)
  (hj : j + 1 < maxArrayIndex)
  (hn1 : ∀ a, l1[j]? = some a → Numeral a) (hn2 : ∀ a, l2[j]? = some a → Numeral a)
include hj hn1 hn2

theorem equals_body_match (heq : regAt l1 j = regAt l2 j) :
    inScope (do declare "i" (.num ((j : Int) + 1)); execBlock (f + 8) equalsBody)
        (mergeT st key1 key2 m (strTable l1) (strTable l2)) =
      .ok none (mergeT st key1 key2 m (strTable l1) (strTable l2)) := by
  have hg1 := strTable_get l1 j hj
  have hg2 := strTable_get l2 j hj
  unfold regAt at heq
  cases h1 : l1[j]? with
  | none =>
    cases h2 : l2[j]? with
    | none =>
      rw [h1] at hg1; rw [h2] at hg2
      exact equals_body_nil_nil _ _ _ _ _ _ _ _ hg1 hg2
    | some b =>
      obtain ⟨y, hy, _⟩ := hn2 b h2
      rw [h1, h2] at heq; simp [hy] at heq
  | some a =>
    obtain ⟨x, hx, hxn⟩ := hn1 a h1
    cases h2 : l2[j]? with
    | none => rw [h1, h2] at heq; simp [hx] at heq
    | some b =>
      obtain ⟨y, hy, hyn⟩ := hn2 b h2
      rw [h1, h2] at heq
      simp only [Option.bind_some, hx, hy, Option.some.injEq] at heq
      subst heq
      rw [h1] at hg1; rw [h2] at hg2
      exact equals_body_eq _ _ _ _ _ _ _ _ a b x hg1 hg2
        (luaToNumber_of_parseDecimal hx hxn) (luaToNumber_of_parseDecimal hy hyn)

theorem equals_body_mismatch (hne : regAt l1 j ≠ regAt l2 j) :
    inScope (do declare "i" (.num ((j : Int) + 1)); execBlock (f + 8) equalsBody)
        (mergeT st key1 key2 m (strTable l1) (strTable l2)) =
      .ok (some [.bool false]) (mergeT st key1 key2 m (strTable l1) (strTable l2)) := by
  have hg1 := strTable_get l1 j hj
  have hg2 := strTable_get l2 j hj
  unfold regAt at hne
  cases h1 : l1[j]? with
  | none =>
    cases h2 : l2[j]? with
    | none => rw [h1, h2] at hne; exact absurd rfl hne
    | some b =>
      obtain ⟨y, hy, hyn⟩ := hn2 b h2
      rw [h1] at hg1; rw [h2] at hg2
      exact equals_body_nil_num _ _ _ _ _ _ _ _ b y hg1 hg2 (luaToNumber_of_parseDecimal hy hyn)
  | some a =>
    obtain ⟨x, hx, hxn⟩ := hn1 a h1
    cases h2 : l2[j]? with
    | none =>
      rw [h1] at hg1; rw [h2] at hg2
      exact equals_body_num_nil _ _ _ _ _ _ _ _ a x hg1 hg2 (luaToNumber_of_parseDecimal hx hxn)
    | some b =>
      obtain ⟨y, hy, hyn⟩ := hn2 b h2
      rw [h1, h2] at hne
      simp only [Option.bind_some, hx, hy, ne_eq, Option.some.injEq] at hne
      rw [h1] at hg1; rw [h2] at hg2
      exact equals_body_ne _ _ _ _ _ _ _ _ a b x y hg1 hg2
        (luaToNumber_of_parseDecimal hx hxn) (luaToNumber_of_parseDecimal hy hyn) (by omega)

end bodyIdx

theorem numeral_of_take {l : List String} {m j : Nat} (h : ∀ c ∈ l.take m, Numeral c) (hj : j < m) :
    ∀ a, l[j]? = some a → Numeral a := by
  intro a ha
  apply h a
  have : (l.take m)[j]? = some a := by rw [List.getElem?_take, if_pos hj, ha]
  exact List.mem_of_getElem? this

/-- the compare loop: falls through when `hllCompareVals` says equal, returns `false` otherwise;
    the state is the same afterwards (instances of the loop lemmas with a constant state). -/
theorem equals_loop (st : Store) (key1 key2 : String) (m : Nat) (hm : m < maxArrayIndex)
    (l1 l2 : List String) (hn1 : ∀ c ∈ l1.take m, Numeral c) (hn2 : ∀ c ∈ l2.take m, Numeral c) (f : Nat) :
    numForLoop (f + m + 9) "i" 1 (m : Int) 1 equalsBody
        (mergeT st key1 key2 m (strTable l1) (strTable l2)) =
      (if hllCompareVals m l1 l2 then Res.ok none (mergeT st key1 key2 m (strTable l1) (strTable l2))
       else Res.ok (some [.bool false]) (mergeT st key1 key2 m (strTable l1) (strTable l2))) := by
  cases hc : hllCompareVals m l1 l2 with
  | true =>
    rw [if_pos rfl]
    have hall := hllCompareVals_true m l1 l2 hc
    have := numForLoop_run "i" equalsBody 8 (fun _ => mergeT st key1 key2 m (strTable l1) (strTable l2))
      m m 0 (by omega)
      (fun j _ hjm f => equals_body_match f st key1 key2 m l1 l2 j (by omega)
        (numeral_of_take hn1 hjm) (numeral_of_take hn2 hjm) (hall j hjm)) f
    have e : f + m + 9 = f + 8 + m + 1 := by omega
    rw [e]
    simpa using this
  | false =>
    rw [if_neg (by simp)]
    obtain ⟨e, he, hlt, hne⟩ := hllCompareVals_false m l1 l2 hc
    have := numForLoop_run_exit "i" equalsBody 8 (fun _ => mergeT st key1 key2 m (strTable l1) (strTable l2))
      m e (.ok (some [.bool false]) (mergeT st key1 key2 m (strTable l1) (strTable l2)))
      (fun _ h => by cases h) he
      (fun f => equals_body_mismatch f st key1 key2 m l1 l2 e (by omega)
        (numeral_of_take hn1 he) (numeral_of_take hn2 he) hne)
      e 0 (by omega)
      (fun j _ hje f => equals_body_match f st key1 key2 m l1 l2 j (by omega)
        (numeral_of_take hn1 (by omega)) (numeral_of_take hn2 (by omega)) (hlt j hje)) (f + (m - e))
    have e' : f + m + 9 = f + (m - e) + 8 + e + 1 := by omega
    rw [e']
    simpa using this

/-- the reply of a script that ends in `return true` / `return false` (Redis turns a Lua `false`
    into the nil reply; go-redis' `.Bool()` reads `1` as true and nil as `redis.Nil`). -/
def boolOutcome : Option Bool → Outcome
  | some true => .reply (.int 1)
  | some false => .reply .nil
  | none => .error ""

theorem hllEquals_of_listAt (h g : HLLHandle) (st : Store) (l1 l2 : List String) (hmm : h.m = g.m)
    (h1 : ListAt st h.key l1) (h2 : ListAt st g.key l2) :
    hllEquals h g st = (st, some (hllCompareVals h.m l1 l2)) := by
  unfold hllEquals
  rw [if_neg (by simp [hmm])]
  have t1 : Script.try_ (cmdLRANGE h.key) st = (st, some (some l1)) := by
    unfold Script.try_; rw [h1]
  have t2 : Script.try_ (cmdLRANGE g.key) st = (st, some (some l2)) := by
    unfold Script.try_; rw [h2]
  rw [Script.bind_ok t1, Script.bind_ok t2]
  rfl

theorem equals_eq (st : Store) (key1 key2 : String) (m f : Nat) (l1 l2 : List String)
    (hm : m ≤ numLimit) (hmax : m < maxArrayIndex)
    (h1 : ListAt st key1 l1) (h2 : ListAt st key2 l2)
    (hn1 : ∀ c ∈ l1.take m, Numeral c) (hn2 : ∀ c ∈ l2.take m, Numeral c) :
    run (f + m + 18) hyperloglog_redis_equals [key1, key2] [decimal m] st =
      (st, boolOutcome (some (hllCompareVals m l1 l2))) := by
  have hs := block_split hyperloglog_redis_equals 5 (.unsupported "") (by decide)
  have e1 : f + m + 18 = (f + m + 3) + 10 + 5 := by omega
  have e2 : f + m + 3 + 10 = (f + m + 12) + 1 := by omega
  have e3 : f + m + 12 = (f + m + 6) + 6 := by omega
  have e4 : f + m + 6 + 5 = (f + 2) + m + 9 := by omega
  have e5 : f + m + 12 = (f + m + 7) + 5 := by omega
  have hloop := equals_loop st key1 key2 m hmax l1 l2 hn1 hn2 (f + 2)
  rw [run_eq_finish]
  conv => lhs; rw [hs, e1]
  rw [execBlock_append' _ _ 5 _ _ _ rfl (equals_prefix _ st key1 key2 m l1 l2 h1.lrange h2.lrange), e2]
  cases hc : hllCompareVals m l1 l2 with
  | true =>
    rw [hc, if_pos rfl] at hloop
    rw [execBlock_cons_none (s' := mergeT st key1 key2 m (strTable l1) (strTable l2))]
    · rw [e5, equals_suffix]; rfl
    · rw [e3, equals_for _ st key1 key2 m _ _ hm, e4]; exact hloop
  | false =>
    rw [hc, if_neg (by simp)] at hloop
    rw [execBlock_cons_return (s' := mergeT st key1 key2 m (strTable l1) (strTable l2))
      (vs := [.bool false])]
    · rfl
    · rw [e3, equals_for _ st key1 key2 m _ _ hm, e4]; exact hloop

/-! ### `mergeRegistersScript` on keys of the wrong type, `size > 0` -/

/-- the state after the five `local`s when a `pcall`ed `LRANGE` failed: `vals1 = v1`, `vals2 = v2`,
    `extra` the reply tables allocated. -/
def mergeG (st : Store) (key1 key2 : String) (m : Nat) (v1 v2 : Value) (extra : List Table) : State :=
  { store := st
    heap := { arr := [.str key1, .str key2] } :: { arr := [.str (decimal m)] } :: extra
    env := [("vals2", v2), ("vals1", v1), ("size", .str (decimal m)),
      ("key2", .str key2), ("key1", .str key1)]
    log := [key2, key1] }

theorem merge_prefix_err_err (g : Nat) (st : Store) (key1 key2 : String) (m : Nat) (e1 e2 : String)
    (h1 : redisCommand "LRANGE" [key1, "0", "-1"] st = .error e1)
    (h2 : redisCommand "LRANGE" [key2, "0", "-1"] st = .error e2) :
    execBlock (g + 10 + 5) (hyperloglog_redis_mergeRegistersScript.take 5)
        (initState [key1, key2] [decimal m] st) =
      .ok none (mergeG st key1 key2 m .nil .nil []) := by
  simp only [hyperloglog_redis_mergeRegistersScript, List.take]
  lua_simp_hll [mergeG, h1, h2]

theorem merge_prefix_err_ok (g : Nat) (st : Store) (key1 key2 : String) (m : Nat) (e1 : String) (l2 : List String)
    (h1 : redisCommand "LRANGE" [key1, "0", "-1"] st = .error e1)
    (h2 : redisCommand "LRANGE" [key2, "0", "-1"] st = .ok st (.list l2)) :
    execBlock (g + 10 + 5) (hyperloglog_redis_mergeRegistersScript.take 5)
        (initState [key1, key2] [decimal m] st) =
      .ok none (mergeG st key1 key2 m .nil (.table 2) [strTable l2]) := by
  simp only [hyperloglog_redis_mergeRegistersScript, List.take]
  lua_simp_hll [mergeG, strTable, h1, h2]

theorem merge_prefix_ok_err (g : Nat) (st : Store) (key1 key2 : String) (m : Nat) (l1 : List String) (e2 : String)
    (h1 : redisCommand "LRANGE" [key1, "0", "-1"] st = .ok st (.list l1))
    (h2 : redisCommand "LRANGE" [key2, "0", "-1"] st = .error e2) :
    execBlock (g + 10 + 5) (hyperloglog_redis_mergeRegistersScript.take 5)
        (initState [key1, key2] [decimal m] st) =
      .ok none (mergeG st key1 key2 m (.table 2) .nil [strTable l1]) := by
  simp only [hyperloglog_redis_mergeRegistersScript, List.take]
  lua_simp_hll [mergeG, strTable, h1, h2]

theorem mergeG_for (g : Nat) (st : Store) (key1 key2 : String) (m : Nat) (v1 v2 : Value) (extra : List Table)
    (hm : m ≤ numLimit) :
    execStmt (g + 6) (hyperloglog_redis_mergeRegistersScript.getD 5 (.unsupported ""))
        (mergeG st key1 key2 m v1 v2 extra) =
      numForLoop (g + 5) "i" 1 (m : Int) 1 mergeBody (mergeG st key1 key2 m v1 v2 extra) := by
  simp only [hyperloglog_redis_mergeRegistersScript, mergeBody, forBody, List.getD_cons_succ, List.getD_cons_zero]
  lua_simp_hll [mergeG, luaToNumber_decimal hm]

/-- `vals1` is nil: `vals1[i]` raises. -/
theorem mergeG_body_nil1 (f : Nat) (st : Store) (key1 key2 : String) (m : Nat) (v2 : Value)
    (extra : List Table) (i : Int) :
    ∃ s', inScope (do declare "i" (.num i); execBlock (f + 8) mergeBody) (mergeG st key1 key2 m .nil v2 extra) =
      .error "attempt to index a non-table object(nil)" s' ∧ s'.store = st := by
  simp only [hyperloglog_redis_mergeRegistersScript, mergeBody, forBody, List.getD_cons_succ, List.getD_cons_zero]
  lua_simp_hll [mergeG, Value.typeName]
  exact ⟨_, ⟨by decide, rfl⟩, rfl⟩

/-- `vals2` is nil and `tonumber(vals1[i])` is nil or a number: `vals2[i]` raises. -/
theorem mergeG_body_nil2_nil (f : Nat) (st : Store) (key1 key2 : String) (m : Nat) (T1 : Table) (i : Int)
    (hg1 : T1.get (.num i) = .nil) :
    ∃ s', inScope (do declare "i" (.num i); execBlock (f + 8) mergeBody)
        (mergeG st key1 key2 m (.table 2) .nil [T1]) =
      .error "attempt to index a non-table object(nil)" s' ∧ s'.store = st := by
  simp only [hyperloglog_redis_mergeRegistersScript, mergeBody, forBody, List.getD_cons_succ, List.getD_cons_zero]
  lua_simp_hll [mergeG, Value.typeName, hg1]
  exact ⟨_, ⟨by decide, rfl⟩, rfl⟩

theorem mergeG_body_nil2_num (f : Nat) (st : Store) (key1 key2 : String) (m : Nat) (T1 : Table) (i : Int)
    (a : String) (x : Int) (hg1 : T1.get (.num i) = .str a) (ha : luaToNumber a = .num x) :
    ∃ s', inScope (do declare "i" (.num i); execBlock (f + 8) mergeBody)
        (mergeG st key1 key2 m (.table 2) .nil [T1]) =
      .error "attempt to index a non-table object(nil)" s' ∧ s'.store = st := by
  simp only [hyperloglog_redis_mergeRegistersScript, mergeBody, forBody, List.getD_cons_succ, List.getD_cons_zero]
  lua_simp_hll [mergeG, Value.typeName, hg1, ha]
  exact ⟨_, ⟨by decide, rfl⟩, rfl⟩


/-- `LRANGE k 0 -1` fails: the key holds a value that is not a list. -/
def NotListAt (st : Store) (k : String) : Prop := cmdLRANGE k st = (st, none)

theorem NotListAt.lrange {st : Store} {k : String} (h : NotListAt st k) :
    redisCommand "LRANGE" [k, "0", "-1"] st = .error msgWrongType := by
  rw [redisCommand_LRANGE]
  unfold NotListAt cmdLRANGE at h
  cases hk : st k with
  | none => rw [hk] at h; injection h with _ h; cases h
  | some w =>
    rw [hk] at h
    cases w with
    | list l' => injection h with _ h; cases h
    | _ => rfl

theorem lrange_cases (st : Store) (k : String) : (∃ l, ListAt st k l) ∨ NotListAt st k := by
  unfold ListAt NotListAt cmdLRANGE
  cases st k with
  | none => exact Or.inl ⟨[], rfl⟩
  | some w => cases w <;> first | exact Or.inl ⟨_, rfl⟩ | exact Or.inr rfl

/-- `size > 0` and one of the keys is not a list: both sides fail in the first iteration without
    writing (the hand model because an error table has no entries, the interpreter because nil
    cannot be indexed). -/
theorem merge_wrongtype (st : Store) (key1 key2 : String) (m f : Nat) (hm : m ≤ numLimit) (hpos : 0 < m)
    (hw : NotListAt st key1 ∨
      (∃ l1, ListAt st key1 l1 ∧ (∀ c ∈ l1.take 1, Numeral c) ∧ NotListAt st key2)) :
    run (f + m + 18) hyperloglog_redis_mergeRegistersScript [key1, key2] [decimal m] st =
        (st, .error "attempt to index a non-table object(nil)") ∧
      hllMergeScript key1 key2 m st = (st, none) := by
  have hs := block_split hyperloglog_redis_mergeRegistersScript 5 (.unsupported "") (by decide)
  have e1 : f + m + 18 = (f + m + 3) + 10 + 5 := by omega
  have e2 : f + m + 3 + 10 = (f + m + 12) + 1 := by omega
  have e3 : f + m + 12 = (f + m + 6) + 6 := by omega
  have e4 : f + m + 6 + 5 = (f + m + 2) + 8 + 1 := by omega
  have hle : (1 : Int) ≤ (m : Int) := by omega
  obtain ⟨n, rfl⟩ : ∃ n, m = n + 1 := ⟨m - 1, by omega⟩
  -- the interpreter: from any of the three states the prefix can leave
  have hfin : ∀ (v1 v2 : Value) (extra : List Table),
      (∀ f', ∃ s', inScope (do declare "i" (.num 1); execBlock (f' + 8) mergeBody)
          (mergeG st key1 key2 (n + 1) v1 v2 extra) =
        .error "attempt to index a non-table object(nil)" s' ∧ s'.store = st) →
      finish (execBlock (f + (n + 1) + 12 + 1)
        (hyperloglog_redis_mergeRegistersScript.getD 5 (.unsupported "") ::
          hyperloglog_redis_mergeRegistersScript.drop (5 + 1))
        (mergeG st key1 key2 (n + 1) v1 v2 extra)) =
      (st, .error "attempt to index a non-table object(nil)") := by
    intro v1 v2 extra hbody
    obtain ⟨s', hb, hs'⟩ := hbody (f + (n + 1) + 2)
    rw [execBlock_cons_error (s' := s') (msg := "attempt to index a non-table object(nil)"),
      finish_error, hs']
    rw [e3, mergeG_for _ st key1 key2 _ _ _ _ hm, e4]
    exact numForLoop_error _ _ _ _ _ _ _ _ hle hb
  rw [run_eq_finish]
  conv => lhs; lhs; rw [hs, e1]
  rcases hw with h1 | ⟨l1, h1, hn1, h2⟩
  · -- key1 is not a list
    have hmodel : hllMergeScript key1 key2 (n + 1) st = (st, none) := by
      unfold hllMergeScript
      have t1 : Script.try_ (cmdLRANGE key1) st = (st, some none) := by
        unfold Script.try_; rw [h1]
      rw [Script.bind_ok t1]
      cases hr2 : cmdLRANGE key2 st with
      | mk s2 r2 =>
        have hs2 : s2 = st := by
          unfold cmdLRANGE at hr2
          cases hk : st key2 with
          | none => rw [hk] at hr2; injection hr2 with h _; exact h.symm
          | some w => rw [hk] at hr2; cases w <;> (injection hr2 with h _; exact h.symm)
        subst hs2
        have t2 : Script.try_ (cmdLRANGE key2) s2 = (s2, some r2) := by
          unfold Script.try_; rw [hr2]
        rw [Script.bind_ok t2]
        simp only [Option.getD_none]
        have : hllMergeVals (n + 1) [] (r2.getD []) s2 = (s2, none) := rfl
        rw [Script.bind_err this]
    refine ⟨?_, hmodel⟩
    rcases lrange_cases st key2 with ⟨l2, h2⟩ | h2
    · rw [execBlock_append' _ _ 5 _ _ _ rfl (merge_prefix_err_ok _ st key1 key2 _ _ l2 h1.lrange h2.lrange), e2]
      exact hfin _ _ _ (fun f' => mergeG_body_nil1 f' st key1 key2 _ _ _ 1)
    · rw [execBlock_append' _ _ 5 _ _ _ rfl (merge_prefix_err_err _ st key1 key2 _ _ _ h1.lrange h2.lrange), e2]
      exact hfin _ _ _ (fun f' => mergeG_body_nil1 f' st key1 key2 _ _ _ 1)
  · -- key1 is a list of numerals, key2 is not a list
    have hmodel : hllMergeScript key1 key2 (n + 1) st = (st, none) := by
      unfold hllMergeScript
      have t1 : Script.try_ (cmdLRANGE key1) st = (st, some (some l1)) := by
        unfold Script.try_; rw [h1]
      have t2 : Script.try_ (cmdLRANGE key2) st = (st, some none) := by
        unfold Script.try_; rw [h2]
      rw [Script.bind_ok t1, Script.bind_ok t2]
      simp only [Option.getD_some, Option.getD_none]
      have : hllMergeVals (n + 1) l1 [] st = (st, none) := by
        rw [hllMergeVals]
        cases l1 with
        | nil => rfl
        | cons a l1 =>
          cases ha : parseDecimal a <;> simp [Script.bind, luaNumber, ha]
      rw [Script.bind_err this]
    refine ⟨?_, hmodel⟩
    rw [execBlock_append' _ _ 5 _ _ _ rfl (merge_prefix_ok_err _ st key1 key2 _ l1 _ h1.lrange h2.lrange), e2]
    apply hfin
    intro f'
    have hg := strTable_get l1 0 (by decide)
    simp only [Int.natCast_zero, Int.zero_add] at hg
    cases l1 with
    | nil => exact mergeG_body_nil2_nil f' st key1 key2 _ _ 1 hg
    | cons a l1 =>
      obtain ⟨x, hx, hxn⟩ := hn1 a (by simp)
      exact mergeG_body_nil2_num f' st key1 key2 _ _ 1 a x hg (luaToNumber_of_parseDecimal hx hxn)

/-! ## `importRegistersScript` (hyperloglog_redis.go, `importRegisters`) -/

def numTable (l : List Nat) : Table := { arr := l.map fun (n : Nat) => Value.num (n : Int) }

/-- the state of `importRegistersScript` in and after its loop: `ARGV` is the table `A`,
    `size = n`, `registers` is the table `R`. -/
def impS (st : Store) (key : String) (A : Table) (n : Nat) (R : Table) : State :=
  { store := st
    heap := [{ arr := [.str key] }, A, R]
    env := [("registers", .table 2), ("size", .num (n : Int)), ("key", .str key)]
    log := [] }

def importBody : List Stmt := forBody (hyperloglog_redis_importRegistersScript.getD 3 (.unsupported ""))

theorem import_prefix (g : Nat) (st : Store) (key : String) (A : Table) (n : Nat) (hlen : A.len = n) :
    execBlock (g + 5 + 3) (hyperloglog_redis_importRegistersScript.take 3)
        { store := st, heap := [{ arr := [.str key] }, A], env := [], log := [] } =
      .ok none (impS st key A n {}) := by
  simp only [hyperloglog_redis_importRegistersScript, List.take]
  lua_simp_hll [impS, hlen]

theorem import_for (g : Nat) (st : Store) (key : String) (A : Table) (n : Nat) (R : Table) :
    execStmt (g + 6) (hyperloglog_redis_importRegistersScript.getD 3 (.unsupported "")) (impS st key A n R) =
      numForLoop (g + 5) "i" 1 (n : Int) 1 importBody (impS st key A n R) := by
  simp only [hyperloglog_redis_importRegistersScript, importBody, forBody, List.getD_cons_succ, List.getD_cons_zero]
  lua_simp_hll [impS]

theorem import_body (f : Nat) (st : Store) (key : String) (A : Table) (n : Nat) (R R' : Table) (i : Int)
    (a : String) (x : Int)
    (hg : A.get (.num i) = .str a) (ha : luaToNumber a = .num x)
    (hset : R.set (.num i) (.num x) = R') :
    inScope (do declare "i" (.num i); execBlock (f + 8) importBody) (impS st key A n R) =
      .ok none (impS st key A n R') := by
  simp only [hyperloglog_redis_importRegistersScript, importBody, forBody, List.getD_cons_succ, List.getD_cons_zero]
  lua_simp_hll [impS, hg, ha, hset]


theorem numTable_set_append (l : List Nat) (x : Nat) (k : Nat) (hk : l.length = k) (hb : k + 1 < maxArrayIndex) :
    (numTable l).set (.num ((k : Int) + 1)) (.num (x : Int)) = numTable (l ++ [x]) := by
  rw [Table.set_nat_append _ _ _ hb (by simp [numTable, hk])]
  simp [numTable]

theorem numTable_no_nil (l : List Nat) : ∀ v ∈ (numTable l).arr, v ≠ .nil := by
  intro v hv
  simp only [numTable, List.mem_map] at hv
  obtain ⟨a, _, rfl⟩ := hv
  simp

theorem numTable_len (l : List Nat) : (numTable l).len = l.length := by
  rw [Table.len_of_no_nil _ (numTable_no_nil l)]; simp [numTable]

theorem numTable_unpack (l : List Nat) :
    unpackValues (numTable l) = l.map fun (n : Nat) => Value.num (n : Int) :=
  unpackValues_of_no_nil _ (numTable_no_nil l)

theorem take_succ_of_getElem? {α} (l : List α) (j : Nat) (a : α) (h : l[j]? = some a) :
    l.take (j + 1) = l.take j ++ [a] := by
  rw [List.take_add_one, h]; rfl

theorem import_loop (f : Nat) (st : Store) (key : String) (regs : List Nat)
    (hlen : regs.length < maxArrayIndex) (hr : ∀ r ∈ regs, r ≤ numLimit) :
    numForLoop (f + regs.length + 9) "i" 1 (regs.length : Int) 1 importBody
        (impS st key (strTable (regs.map decimal)) regs.length (numTable [])) =
      .ok none (impS st key (strTable (regs.map decimal)) regs.length (numTable regs)) := by
  have := numForLoop_run "i" importBody 8
    (fun j => impS st key (strTable (regs.map decimal)) regs.length (numTable (regs.take j)))
    regs.length regs.length 0 (by omega)
    (fun j _ hjn f => by
      have hj : j + 1 < maxArrayIndex := by omega
      have hx : regs[j]? = some regs[j] := List.getElem?_eq_getElem hjn
      have hg : (strTable (regs.map decimal)).get (.num ((j : Int) + 1)) = .str (decimal regs[j]) := by
        rw [strTable_get _ _ hj]; simp [hx]
      have ha := luaToNumber_decimal (hr regs[j] (List.getElem_mem hjn))
      have hset := numTable_set_append (regs.take j) regs[j] j (by simp; omega) hj
      rw [← take_succ_of_getElem? regs j _ hx] at hset
      exact import_body f st key _ _ _ _ _ _ _ hg ha hset) f
  have e : f + regs.length + 9 = f + 8 + regs.length + 1 := by omega
  rw [e]
  simpa using this

/-- `RPUSH key unpack(registers)`, `return true`. -/
theorem import_suffix_ok (f : Nat) (st st2 : Store) (key : String) (A : Table) (regs : List Nat) (x : Int)
    (hn : regs.length ≤ unpackSafe)
    (hr : redisCommand "RPUSH" (key :: regs.map decimal) st = .ok st2 (.int x)) :
    finish (execBlock (f + 12) (hyperloglog_redis_importRegistersScript.drop 4)
      (impS st key A regs.length (numTable regs))) = (st2, .reply (.int 1)) := by
  have hlen := numTable_len regs
  have hun := numTable_unpack regs
  have hargs := cmdArgs_map_num regs
  simp only [hyperloglog_redis_importRegistersScript, List.drop]
  lua_simp_hll [impS, hlen, hn, hun, hargs, hr, finish_true]

theorem import_suffix_error (f : Nat) (st : Store) (key : String) (A : Table) (regs : List Nat) (msg : String)
    (hn : regs.length ≤ unpackSafe)
    (hr : redisCommand "RPUSH" (key :: regs.map decimal) st = .error msg) :
    finish (execBlock (f + 12) (hyperloglog_redis_importRegistersScript.drop 4)
      (impS st key A regs.length (numTable regs))) = (st, .error msg) := by
  have hlen := numTable_len regs
  have hun := numTable_unpack regs
  have hargs := cmdArgs_map_num regs
  simp only [hyperloglog_redis_importRegistersScript, List.drop]
  lua_simp_hll [impS, hlen, hn, hun, hargs, hr, finish_error]

/-- more registers than gopher-lua's data stack holds: `unpack` raises, nothing is written. -/
theorem import_suffix_overflow (f : Nat) (st : Store) (key : String) (A : Table) (regs : List Nat)
    (hn : unpackOverflow ≤ regs.length) :
    finish (execBlock (f + 12) (hyperloglog_redis_importRegistersScript.drop 4)
      (impS st key A regs.length (numTable regs))) = (st, .error "registry overflow") := by
  have hlen := numTable_len regs
  have h1 : ¬ regs.length ≤ unpackSafe := by
    have : unpackSafe = 4800 := rfl
    have : unpackOverflow = 5120 := rfl
    omega
  simp only [hyperloglog_redis_importRegistersScript, List.drop]
  lua_simp_hll [impS, hlen, hn, h1, finish_error]


theorem import_to_suffix (f : Nat) (st : Store) (key : String) (regs : List Nat)
    (hlen : regs.length < maxArrayIndex) (hr : ∀ r ∈ regs, r ≤ numLimit) :
    execBlock (f + regs.length + 18) hyperloglog_redis_importRegistersScript
        (initState [key] (regs.map decimal) st) =
      execBlock (f + regs.length + 2 + 12) (hyperloglog_redis_importRegistersScript.drop 4)
        (impS st key (strTable (regs.map decimal)) regs.length (numTable regs)) := by
  have hs := block_split hyperloglog_redis_importRegistersScript 3 (.unsupported "") (by decide)
  have e1 : f + regs.length + 18 = (f + regs.length + 10) + 5 + 3 := by omega
  have e2 : f + regs.length + 10 + 5 = (f + regs.length + 14) + 1 := by omega
  have e3 : f + regs.length + 14 = (f + regs.length + 8) + 6 := by omega
  have e4 : f + regs.length + 8 + 5 = (f + 4) + regs.length + 9 := by omega
  have hA : (strTable (regs.map decimal)).len = regs.length := by rw [strTable_len]; simp
  have h0 : initState [key] (regs.map decimal) st =
      { store := st, heap := [{ arr := [.str key] }, strTable (regs.map decimal)], env := [], log := [] } := rfl
  conv => lhs; rw [hs, e1, h0]
  rw [execBlock_append' _ _ 3 _ _ _ rfl (import_prefix _ st key _ _ hA), e2]
  have hl := import_loop (f + 4) st key regs hlen hr
  rw [execBlock_cons_none (s' := impS st key (strTable (regs.map decimal)) regs.length (numTable regs))]
  rw [e3, import_for, e4]; exact hl


/-- the error `importRegistersScript` raises when its `RPUSH` fails. -/
def importError (regs : List Nat) : String :=
  if regs = [] then msgWrongNumber "rpush" else msgWrongType

theorem cmdRPUSH_cases (k : String) (vs : List String) (st : Store) :
    (∃ st1, cmdRPUSH k vs st = (st1, some ())) ∨ cmdRPUSH k vs st = (st, none) := by
  unfold cmdRPUSH
  by_cases hv : vs = []
  · right; simp [hv]
  · simp only [hv, if_false]
    cases hk : st k with
    | none => left; exact ⟨_, rfl⟩
    | some w =>
      cases w with
      | list l => left; exact ⟨_, rfl⟩
      | _ => right; rfl

/-- `Import`'s script = `RPUSH key r₁ … rₙ` (decimal spellings), for at most 4800 registers. -/
theorem import_eq (st : Store) (key : String) (regs : List Nat) (f : Nat)
    (hn : regs.length ≤ unpackSafe) (hr : ∀ r ∈ regs, r ≤ numLimit) :
    run (f + regs.length + 18) hyperloglog_redis_importRegistersScript [key] (regs.map decimal) st =
      ((cmdRPUSH key (regs.map decimal) st).1,
        unitOutcome (cmdRPUSH key (regs.map decimal) st).2 (importError regs)) := by
  have hlen : regs.length < maxArrayIndex := by
    have : unpackSafe = 4800 := rfl
    have : maxArrayIndex = 67108864 := rfl
    omega
  rw [run_eq_finish, import_to_suffix f st key regs hlen hr]
  cases regs with
  | nil =>
    rw [import_suffix_error _ st key _ [] _ hn (redisCommand_RPUSH_nil key st)]
    simp [cmdRPUSH, unitOutcome, importError]
  | cons r rs =>
    have hc := redisCommand_RPUSH key (decimal r) (rs.map decimal) st
    rw [← List.map_cons] at hc
    rcases cmdRPUSH_cases key ((r :: rs).map decimal) st with ⟨st1, h1⟩ | h1
    · rw [h1] at hc ⊢
      rw [import_suffix_ok _ st st1 key _ (r :: rs) _ hn hc]
      rfl
    · rw [h1] at hc ⊢
      rw [import_suffix_error _ st key _ (r :: rs) _ hn hc]
      simp [unitOutcome, importError]

/-- 5120 registers or more: `unpack` overflows gopher-lua's data stack (miniredis), the script
    raises before any command. -/
theorem import_overflow (st : Store) (key : String) (regs : List Nat) (f : Nat)
    (hn : unpackOverflow ≤ regs.length) (hlen : regs.length < maxArrayIndex) (hr : ∀ r ∈ regs, r ≤ numLimit) :
    run (f + regs.length + 18) hyperloglog_redis_importRegistersScript [key] (regs.map decimal) st =
      (st, .error "registry overflow") := by
  rw [run_eq_finish, import_to_suffix f st key regs hlen hr]
  exact import_suffix_overflow _ st key _ regs hn


end Gostatix.LuaHLL
