/-
  Gostatix.Proofs.LuaCorea — generic lemmas about the Lua-subset interpreter (Model/Lua.lean):
  numerals, the Redis commands as `redis.call`/`redis.pcall` see them, builtins.
-/
import Gostatix.Model.Lua
import Gostatix.Proofs.RedisBucket
namespace Gostatix.LuaBucket
open Gostatix.Lua
open Gostatix.Redis

/-! ## numerals: what Lua `tonumber` and Go `Atoi` read in the spellings Redis writes -/

theorem digitVal_isDigit {c : Char} (h : c.isDigit = true) : digitVal c = some (c.toNat - '0'.toNat) := by
  have h' := h
  simp only [Char.isDigit, Bool.and_eq_true, decide_eq_true_eq] at h'
  unfold digitVal
  have h1 : '0' ≤ c := h'.1
  have h2 : c ≤ '9' := h'.2
  rw [if_pos ⟨h1, h2⟩]; rfl

theorem isDigit_sub_lt {c : Char} (h : c.isDigit = true) : c.toNat - '0'.toNat < 10 := by
  simp only [Char.isDigit, Bool.and_eq_true, decide_eq_true_eq] at h
  have h2 : c.val.toNat ≤ (57 : UInt32).toNat := UInt32.le_iff_toNat_le.mp h.2
  have h3 : c.toNat = c.val.toNat := rfl
  have h4 : '0'.toNat = 48 := rfl
  simp at h2; omega

theorem parseDigits_digits (cs : List Char) (h : ∀ c ∈ cs, c.isDigit = true) (acc : Nat) :
    parseDigits 10 cs acc = some (Nat.ofDigitChars 10 cs acc) := by
  induction cs generalizing acc with
  | nil => rfl
  | cons c cs ih =>
    have hc := h c List.mem_cons_self
    unfold parseDigits
    rw [digitVal_isDigit hc]
    simp only [isDigit_sub_lt hc, if_true]
    rw [ih (fun d hd => h d (List.mem_cons_of_mem _ hd))]
    simp only [Nat.ofDigitChars, List.foldl_cons, Nat.mul_comm]

theorem parseDigits_decimal (n : Nat) : parseDigits 10 (decimal n).toList 0 = some n := by
  rw [parseDigits_digits _ (decimal_digits n), decimal_toList, Nat.ofDigitChars_ten_toDigits]

theorem isDigit_ne_plus {c : Char} (h : c.isDigit = true) : c ≠ '+' := by
  rintro rfl; revert h; decide

theorem numLimit_lt : numLimit < 2 ^ 63 := by decide

theorem goParseInt_pos (cs : List Char) (n : Nat) (hne : cs ≠ []) (hd : ∀ c ∈ cs, c.isDigit = true)
    (hp : parseDigits 10 cs 0 = some n) (hn : n ≤ numLimit) : goParseInt 10 cs = .num n := by
  cases cs with
  | nil => exact absurd rfl hne
  | cons a l =>
    have ha1 : a ≠ '-' := isDigit_ne_minus (hd a List.mem_cons_self)
    have ha2 : a ≠ '+' := isDigit_ne_plus (hd a List.mem_cons_self)
    unfold goParseInt
    split
    rename_i x neg ds heq
    have hm : neg = false ∧ ds = a :: l := by
      split at heq
      · rename_i h; exact absurd (List.cons.inj h).1 ha1
      · rename_i h; exact absurd (List.cons.inj h).1 ha2
      · simp only [Prod.mk.injEq] at heq; exact ⟨heq.1.symm, heq.2.symm⟩
    obtain ⟨rfl, rfl⟩ := hm
    have := numLimit_lt
    simp only [List.isEmpty_cons, Bool.false_eq_true, if_false, hp, Bool.false_and, Bool.not_false,
      Bool.true_and, Bool.false_or, decide_eq_true_eq, ge_iff_le, gt_iff_lt]
    rw [if_neg (by omega), if_neg (by omega)]

theorem goParseInt_neg (cs : List Char) (n : Nat) (hne : cs ≠ [])
    (hp : parseDigits 10 cs 0 = some n) (hn : n ≤ numLimit) :
    goParseInt 10 ('-' :: cs) = .num (-(n : Int)) := by
  unfold goParseInt
  have := numLimit_lt
  cases cs with
  | nil => exact absurd rfl hne
  | cons a l =>
  simp only [List.isEmpty_cons, Bool.false_eq_true, if_false, hp, Bool.true_and, Bool.not_true,
      Bool.false_and, Bool.or_false, decide_eq_true_eq, ge_iff_le, gt_iff_lt, if_true]
  rw [if_neg (by omega), if_neg (by omega)]
theorem dropWhile_clean {p : Char → Bool} (cs : List Char) (h : ∀ c ∈ cs, p c = false) :
    cs.dropWhile p = cs := by
  cases cs with
  | nil => rfl
  | cons a l => rw [List.dropWhile_cons, h a List.mem_cons_self]; rfl

theorem trimChars_clean (cs : List Char) (h : ∀ c ∈ cs, isTrimChar c = false) : trimChars cs = cs := by
  unfold trimChars
  rw [dropWhile_clean cs h, dropWhile_clean cs.reverse (fun c hc => h c (List.mem_reverse.mp hc)),
    List.reverse_reverse]

/-- a character of a signed decimal numeral. -/
def isNumeralChar (c : Char) : Prop := c.isDigit = true ∨ c = '-'

theorem numeralChar_not_trim {c : Char} (h : isNumeralChar c) : isTrimChar c = false := by
  rcases h with h | rfl
  · simp only [Char.isDigit, Bool.and_eq_true, decide_eq_true_eq] at h
    unfold isTrimChar
    have h1 : c ≠ ' ' := by rintro rfl; exact absurd h.1 (by decide)
    have h2 : c ≠ '\n' := by rintro rfl; exact absurd h.1 (by decide)
    have h3 : c ≠ '\t' := by rintro rfl; exact absurd h.1 (by decide)
    simp [h1, h2, h3]
  · decide

theorem numeralChar_ne {c d : Char} (h : isNumeralChar c) (hd : d.isDigit = false) (hd' : d ≠ '-') : c ≠ d := by
  rintro rfl
  rcases h with h | h
  · rw [h] at hd; exact absurd hd (by decide)
  · exact hd' h


def toNumberOfParse : NumParse → ToNumber
  | .num n => .num n
  | .nan => .nil
  | .big => .unsupported "tonumber of a numeral beyond 2^53"

def hexOrDec (cs : List Char) : NumParse :=
  match cs with
  | '0' :: x :: rest => if x = 'x' ∨ x = 'X' then goParseInt 16 rest else goParseInt 10 cs
  | _ => goParseInt 10 cs

theorem luaToNumber_eq (s : String) : luaToNumber s =
    if (trimChars s.toList).contains '.' then .unsupported "tonumber of a string containing '.'"
    else toNumberOfParse (hexOrDec (trimChars s.toList)) := rfl

theorem hexOrDec_clean (cs : List Char) (h : ∀ c ∈ cs, isNumeralChar c) : hexOrDec cs = goParseInt 10 cs := by
  unfold hexOrDec
  split
  · rename_i x rest
    have hx : isNumeralChar x := h x (by simp)
    rw [if_neg]
    rintro (rfl | rfl)
    · exact numeralChar_ne hx (by decide) (by decide) rfl
    · exact numeralChar_ne hx (by decide) (by decide) rfl
  · rfl

theorem luaToNumber_clean (s : String) (h : ∀ c ∈ s.toList, isNumeralChar c) :
    luaToNumber s = toNumberOfParse (goParseInt 10 s.toList) := by
  rw [luaToNumber_eq, trimChars_clean _ (fun c hc => numeralChar_not_trim (h c hc))]
  have hdot : s.toList.contains '.' = false := by
    rw [Bool.eq_false_iff]; intro hc
    rw [List.contains_iff_mem] at hc
    exact numeralChar_ne (h _ hc) (by decide) (by decide) rfl
  rw [hdot, hexOrDec_clean _ h]; rfl

/-! the spellings -/

theorem renderInt_toList_neg (m : Nat) : (renderInt (Int.negSucc m)).toList = '-' :: (decimal (m + 1)).toList := by
  show ("-" ++ decimal (m + 1)).toList = _
  rw [String.toList_append]; rfl

theorem renderInt_numeralChars (n : Int) : ∀ c ∈ (renderInt n).toList, isNumeralChar c := by
  cases n with
  | ofNat m => intro c hc; exact Or.inl (decimal_digits m c hc)
  | negSucc m =>
    intro c hc
    rw [renderInt_toList_neg, List.mem_cons] at hc
    rcases hc with rfl | hc
    · exact Or.inr rfl
    · exact Or.inl (decimal_digits _ c hc)

theorem goAtoi_renderInt (n : Int) (h : n.natAbs ≤ numLimit) : goAtoi (renderInt n) = .num n := by
  unfold goAtoi
  cases n with
  | ofNat m =>
    exact goParseInt_pos _ m (decimal_toList_ne_nil m) (decimal_digits m) (parseDigits_decimal m) (by simpa using h)
  | negSucc m =>
    rw [renderInt_toList_neg, goParseInt_neg _ (m + 1) (decimal_toList_ne_nil _) (parseDigits_decimal _) (by simpa using h)]
    rfl

theorem goAtoi_decimal (n : Nat) (h : n ≤ numLimit) : goAtoi (decimal n) = .num n :=
  goAtoi_renderInt (n : Int) (by simpa using h)

theorem luaToNumber_renderInt (n : Int) (h : n.natAbs ≤ numLimit) : luaToNumber (renderInt n) = .num n := by
  rw [luaToNumber_clean _ (renderInt_numeralChars n)]
  have := goAtoi_renderInt n h
  unfold goAtoi at this
  rw [this]; rfl

theorem luaToNumber_decimal (n : Nat) (h : n ≤ numLimit) : luaToNumber (decimal n) = .num n :=
  luaToNumber_renderInt (n : Int) (by simpa using h)

/-! the hand model's parsers on the same spellings -/

theorem parseInt_renderInt (n : Int) : parseInt (renderInt n) = some n := by
  cases n with
  | ofNat m => exact parseInt_decimal m
  | negSucc m =>
    unfold parseInt
    rw [renderInt_toList_neg]
    simp only [String.ofList_toList, parseDecimal_decimal]
    rfl

theorem parseIntStrict_renderInt (n : Int) : parseIntStrict (renderInt n) = some n := by
  unfold parseIntStrict
  rw [parseInt_renderInt]
  simp only [if_true]

/-! ## the Redis commands of the bucket scripts, as `redisCommand` dispatches them -/

theorem redisCommand_GET (k : String) (st : Store) :
    redisCommand "GET" [k] st =
      liftCmd (cmdGET k) (fun r => match r with | some v => .bulk v | none => .nil) msgWrongType st := rfl

theorem redisCommand_LPOS (k e : String) (st : Store) :
    redisCommand "LPOS" [k, e] st =
      liftCmd (cmdLPOS k e) (fun r => match r with | some i => .int i | none => .nil) msgWrongType st := rfl

theorem redisCommand_LPUSH1 (k v : String) (st : Store) :
    redisCommand "LPUSH" [k, v] st =
      (match cmdLPUSH k [v] st with
       | (st', some _) => .ok st' (.int (listLength st' k))
       | (_, none) => .error msgWrongType) := rfl

theorem redisCommand_LSET (k i v : String) (st : Store) :
    redisCommand "LSET" [k, i, v] st =
      intArg i fun n =>
        match st k with
        | none => .error "ERR no such key"
        | some (.list l) =>
          (match resolveIndex l.length n with
           | some j => liftCmd (cmdLSET k j v) (fun _ => .status "OK") "ERR index out of range" st
           | none => .error "ERR index out of range")
        | some _ => .error msgWrongType := rfl

theorem redisCommand_INCRBY (k d : String) (st : Store) :
    redisCommand "INCRBY" [k, d] st = intArg d fun d => cmdINCRBYmr k d st := rfl

theorem redisCommand_LRANGE (k s e : String) (st : Store) :
    redisCommand "LRANGE" [k, s, e] st =
      intArg s fun s => intArg e fun e =>
        match st k with
        | some (.list _) | none =>
          if s = 0 ∧ e = -1 then liftCmd (cmdLRANGE k) (fun l => .list l) msgWrongType st
          else .unsupported "LRANGE other than 0 -1"
        | some _ => .error msgWrongType := rfl

theorem redisCommand_DEL1 (k : String) (st : Store) :
    redisCommand "DEL" [k] st = .ok (st.del k) (.int ((if (st k).isSome then 1 else 0 : Nat) + 0 : Nat)) := rfl

/-! ## the script's result -/

/-- what `run` makes of the result of the script's block. -/
def resultOf : Res (Option (List Value)) → Store × Outcome
  | .ok none s => (s.store, .reply .nil)
  | .ok (some vs) s =>
    (match toReply s.heap 64 (vs.headD .nil) with
     | .ok r => (s.store, .reply r)
     | .error why => (s.store, .unsupported why))
  | .error msg s => (s.store, .error msg)
  | .unsupported why s => (s.store, .unsupported why)
  | .outOfFuel s => (s.store, .outOfFuel)

theorem run_eq (fuel : Nat) (script : Block) (keys args : List String) (st : Store) :
    run fuel script keys args st = resultOf (execBlock fuel script (initState keys args st)) := by
  unfold run runLog resultOf
  cases execBlock fuel script (initState keys args st) with
  | ok a s =>
    cases a with
    | none => rfl
    | some vs => dsimp only; cases toReply s.heap 64 (vs.headD .nil) <;> rfl
  | _ => rfl

theorem toReply_true (h : List Table) (d : Nat) : toReply h (d + 1) (.bool true) = .ok (.int 1) := rfl
theorem toReply_false (h : List Table) (d : Nat) : toReply h (d + 1) (.bool false) = .ok .nil := rfl
theorem toReply_nil (h : List Table) (d : Nat) : toReply h (d + 1) .nil = .ok .nil := rfl
theorem toReply_num (h : List Table) (d : Nat) (n : Int) : toReply h (d + 1) (.num n) = .ok (.int n) := rfl

/-! ## symbolic execution: unfold the interpreter on a concrete script and a concrete environment -/

/-- unfolds the evaluator, the monad, variables, tables, operators and the builtins' dispatch.
    The store stays symbolic: facts about it are passed as extra simp lemmas. -/
macro "luaA_exec" "[" ts:Lean.Parser.Tactic.simpLemma,* "]" : tactic =>
  `(tactic| simp [execBlock, execStmt, evalList, evalMulti, evalExpr, initState,
    bind, M.bind, pure, M.pure, readVar, envGet, indexValue, getTable, declareAll, declare, M.modify,
    Table.get, arrayPos, maxArrayIndex, Lua.binop, Lua.unop, strOrNum, callFn, isLocal, redisCall, cmdArgs,
    keysId, argvId, liftCmd, replyToLua, Lua.compare, inScope, Value.truthy, M.error, M.unsupported,
    Value.typeName, allocTable, resultOf,
    toReply_true, toReply_false, toReply_nil, toReply_num, $ts,*])

/-! ## blocks -/

theorem execBlock_append (pre rest : List Stmt) (g n : Nat) (hn : n = pre.length) (σ : State) :
    execBlock (g + n) (pre ++ rest) σ =
      match execBlock (g + n) pre σ with
      | .ok none σ' => execBlock g rest σ'
      | r => r := by
  induction pre generalizing n σ with
  | nil =>
    subst hn
    cases g with
    | zero => simp [execBlock, M.outOfFuel]
    | succ g => simp [execBlock, pure, M.pure]
  | cons s pre ih =>
    subst hn
    simp only [List.length_cons, List.cons_append]
    rw [show g + (pre.length + 1) = (g + pre.length) + 1 from rfl]
    simp only [execBlock, bind, M.bind]
    cases hs : execStmt (g + pre.length) s σ with
    | ok a σ1 =>
      cases a with
      | none => simp only []; exact ih _ rfl σ1
      | some vs => rfl
    | _ => rfl

/-- one statement of a block. -/
theorem execBlock_cons (f : Nat) (s : Stmt) (rest : List Stmt) (σ : State) :
    execBlock (f + 1) (s :: rest) σ =
      match execStmt f s σ with
      | .ok none σ' => execBlock f rest σ'
      | .ok (some vs) σ' => .ok (some vs) σ'
      | .error m σ' => .error m σ'
      | .unsupported w σ' => .unsupported w σ'
      | .outOfFuel σ' => .outOfFuel σ' := by
  simp only [execBlock, bind, M.bind]
  cases execStmt f s σ with
  | ok a σ' => cases a <;> rfl
  | _ => rfl

theorem execBlock_nil (f : Nat) (σ : State) : execBlock (f + 1) [] σ = .ok none σ := rfl

/-- `return true` / `return false`. -/
theorem execStmt_ret_true (f : Nat) (σ : State) :
    execStmt (f + 4) (.ret [.litTrue]) σ = .ok (some [.bool true]) σ := rfl

theorem execStmt_ret_false (f : Nat) (σ : State) :
    execStmt (f + 4) (.ret [.litFalse]) σ = .ok (some [.bool false]) σ := rfl

theorem resultOf_ret_true (σ : State) : resultOf (.ok (some [.bool true]) σ) = (σ.store, .reply (.int 1)) := rfl
theorem resultOf_ret_false (σ : State) : resultOf (.ok (some [.bool false]) σ) = (σ.store, .reply .nil) := rfl
theorem resultOf_ret_num (σ : State) (n : Int) :
    resultOf (.ok (some [.num n]) σ) = (σ.store, .reply (.int n)) := rfl
theorem resultOf_ret_nil (σ : State) : resultOf (.ok (some [.nil]) σ) = (σ.store, .reply .nil) := rfl
theorem resultOf_error (m : String) (σ : State) : resultOf (.error m σ) = (σ.store, .error m) := rfl

end Gostatix.LuaBucket
