/-
  Proofs/LoopTieHLL — helpers of Props/LoopTieHLL.lean: the register-wise maximum on zero-extended
  `uint8` registers, `HLL.mergeRegs` element-wise, and the lemma for the generated loop definition
  `hllMerge_loop1` of Generated/Loops.lean (namespace `Generated.LoopsHLL`), proved with the loop
  rule of Proofs/LoopTieCMS.lean in the same way as the Count-Min loops (the body is never
  spelled out: invariant "registers below `i` merged, the others untouched").
-/
import Gostatix.Proofs.LoopTieCMS
import Gostatix.Model.HLL
set_option linter.unusedSimpArgs false
set_option linter.unusedVariables false

namespace Gostatix.LoopTie
open Gostatix GoLoop Gostatix.Generated.LoopsHLL

/-- `util.Max(a, b)` as its body reads: `if a > b { return a }; return b` -/
def maxU (a b : UInt64) : UInt64 := if b < a then a else b

theorem maxU_toNat (a b : UInt64) : (maxU a b).toNat = max a.toNat b.toNat := by
  unfold maxU
  by_cases h : b < a
  · have := UInt64.lt_iff_toNat_lt.1 h
    simp [h, Nat.max_def]; omega
  · have : ¬ b.toNat < a.toNat := fun h' => h (UInt64.lt_iff_toNat_lt.2 h')
    simp [h, Nat.max_def]; omega

theorem maxU_lt (a b : UInt64) (ha : a < 256) (hb : b < 256) : maxU a b < 256 := by
  unfold maxU; split <;> assumption

/-- a value that is a `uint8` already is not changed by the conversion to `uint8` -/
theorem trunc8_of_lt (x : UInt64) (h : x < 256) : GoArith.trunc8 x = x := by
  have h' := UInt64.lt_iff_toNat_lt.1 h
  apply UInt64.toNat_inj.1
  simp [GoArith.trunc8, UInt64.toNat_mod]
  exact h'

theorem trunc8_lt (x : UInt64) : GoArith.trunc8 x < 256 := by
  apply UInt64.lt_iff_toNat_lt.2
  simp [GoArith.trunc8, UInt64.toNat_mod]
  exact Nat.mod_lt _ (by decide)

theorem mergeRegs_map (a b : List UInt64) :
    HLL.mergeRegs (a.map UInt64.toNat) (b.map UInt64.toNat) = (List.zipWith maxU a b ++ a.drop b.length).map UInt64.toNat := by
  induction a generalizing b with
  | nil => cases b <;> simp [HLL.mergeRegs]
  | cons x a ih =>
    cases b with
    | nil => simp [HLL.mergeRegs]
    | cons y b => simp [HLL.mergeRegs, ih b, maxU_toNat]

theorem hll_merge_loop (h : HllState) (other : List UInt64)
    (hlen : other.length = h.registers.length) (hw : h.registers.length = h.numRegisters.toNat)
    (hA : ∀ r ∈ h.registers, r < 256) (hB : ∀ r ∈ other, r < 256) :
    hllMerge_loop1 h other = some { h with registers := List.zipWith maxU h.registers other } := by
  have hlt : h.registers.length ≤ 2 ^ 64 := by rw [hw]; exact Nat.le_of_lt h.numRegisters.toNat_lt
  unfold hllMerge_loop1
  try simp only [← hw]
  try simp only [← hlen]
  apply forN_eq_of_inv (fun i s => s = { h with registers := s.registers } ∧
      s.registers.length = h.registers.length ∧
      ∀ j, s.registers[j]? = if j < i then (List.zipWith maxU h.registers other)[j]? else h.registers[j]?)
  · exact ⟨rfl, rfl, fun j => by simp⟩
  · intro i s hi ⟨hs, hl, hget⟩
    have hi' : (UInt64.ofNat i).toNat = i := toNat_ofNat_lt (by omega)
    have hir : i < h.registers.length := by omega
    have hreg : s.registers[i]'(by omega) = h.registers[i] := by
      have h1 := hget i
      rw [List.getElem?_eq_getElem (by omega)] at h1
      simpa [hir] using h1
    have ha := hA _ (List.getElem_mem hir)
    have hb := hB _ (List.getElem_mem hi)
    have hZ : (List.zipWith maxU h.registers other)[i]? = some (maxU h.registers[i] other[i]) := by
      simp [List.getElem?_zipWith, hir, hi]
    refine ⟨{ s with registers := s.registers.set i (maxU h.registers[i] other[i]) }, ?_, by rw [hs],
      by simpa using hl, ?_⟩
    · have ht := trunc8_of_lt _ (maxU_lt _ _ ha hb)
      unfold maxU at ht ⊢
      by_cases hc : other[i] < h.registers[i]
      · simp only [hc, if_true] at ht
        simp [idx_of_lt, set1_of_lt, hi', hl, hir, hi, hreg, hc, ht]
      · simp only [hc, if_false] at ht
        simp [idx_of_lt, set1_of_lt, hi', hl, hir, hi, hreg, hc, ht]
    · intro j
      show (s.registers.set i _)[j]? = _
      exact getElem?_set_step s.registers h.registers _ i j _ (by omega) hget hZ
  · intro s ⟨hs, hl, hget⟩
    rw [hs]
    congr 1
    apply List.ext_getElem?
    intro j
    rw [hget j]
    by_cases hj : j < other.length
    · simp [hj]
    · have : h.registers[j]? = none := by simp; omega
      simp [hj, this, List.getElem?_zipWith]

end Gostatix.LoopTie
