/-
  Gostatix.Proofs.RedisAttach — the metadata hash written by a constructor is read back by the
  matching `New…FromKey`.
-/
import Gostatix.Proofs.RedisKeys
import Gostatix.Proofs.RedisFrame
namespace Gostatix.Redis

theorem hashGet_hashSet (h : List (String × String)) (f v f' : String) :
    hashGet (hashSet h f v) f' = if f' = f then some v else hashGet h f' := by
  induction h with
  | nil =>
    simp only [hashSet, hashGet]
    by_cases e : f' = f
    · simp [e]
    · have : f ≠ f' := fun x => e x.symm
      simp [e, this]
  | cons p h ih =>
    obtain ⟨a, b⟩ := p
    simp only [hashSet]
    by_cases e : a = f
    · subst e
      simp only [if_true, hashGet]
      by_cases e' : f' = a
      · subst e'; simp
      · have : a ≠ f' := fun x => e' x.symm
        simp [e', this]
    · simp only [e, if_false, hashGet, ih]
      by_cases e' : a = f'
      · subst e'; simp [e]
      · simp [e']

/-- the hash before an `HSET`: empty for an absent key. -/
def priorHash (s : Store) (k : String) : List (String × String) :=
  match s k with
  | some (.hash h) => h
  | _ => []

/-- the key is absent or holds a hash (so `HSET`/`HGETALL` do not fail with WRONGTYPE). -/
def HashOrAbsent (s : Store) (k : String) : Prop := s k = none ∨ ∃ h, s k = some (.hash h)

theorem cmdHSET_ok {s : Store} {k : String} (hs : HashOrAbsent s k) (fvs : List (String × String)) :
    cmdHSET k fvs s = (s.set k (.hash (hashSetAll (priorHash s k) fvs)), some ()) := by
  unfold cmdHSET priorHash
  rcases hs with h | ⟨h0, h⟩ <;> rw [h]

theorem cmdHGETALL_hash {s : Store} {k : String} {h : List (String × String)}
    (hs : s k = some (.hash h)) : cmdHGETALL k s = (s, some h) := by
  unfold cmdHGETALL; rw [hs]

theorem cmdHGETALL_congr {s s' : Store} {k : String} (e : s k = s' k) :
    (cmdHGETALL k s).2 = (cmdHGETALL k s').2 := by
  unfold cmdHGETALL; rw [e]; split <;> rfl

/-! ### Bloom -/

theorem bloomAttach_congr {s s' : Store} {k : String} (e : s k = s' k) :
    bloomAttach s k = bloomAttach s' k := by
  unfold bloomAttach; rw [cmdHGETALL_congr e]

theorem bloom_roundtrip (h : BloomHandle) (s : Store) (hs : HashOrAbsent s h.metadataKey)
    (h1 : h.size < 2 ^ 63) (h2 : h.k < 2 ^ 63) :
    bloomAttach (bloomCreate h s).1 h.metadataKey = some h := by
  unfold bloomCreate
  rw [cmdHSET_ok hs]
  unfold bloomAttach
  rw [cmdHGETALL_hash (Store.set_self _ _ _)]
  simp only [field, hashSetAll, List.foldl_cons, List.foldl_nil, hashGet_hashSet,
    String.reduceEq, if_true, if_false, Option.getD_some, atoi_decimal _ h1, atoi_decimal _ h2]

theorem bloom_roundtrip_raw (size numHashes : Nat) (bk mk : String) (s : Store)
    (hs : HashOrAbsent s mk) (h1 : size < 2 ^ 63) (h2 : numHashes < 2 ^ 63) :
    bloomAttach (bloomCreateRaw size numHashes bk mk s).1 mk =
      some { size := max size 1, k := max numHashes 1, bitsetKey := bk, metadataKey := mk } := by
  have h1' : max size 1 < 2 ^ 63 := by omega
  have h2' : max numHashes 1 < 2 ^ 63 := by omega
  unfold bloomCreateRaw
  rw [Script.bind_apply, cmdHSET_ok hs]
  unfold bloomAttach
  simp only [Script.pure]
  rw [cmdHGETALL_hash (Store.set_self _ _ _)]
  simp only [field, hashSetAll, List.foldl_cons, List.foldl_nil, hashGet_hashSet,
    String.reduceEq, if_true, if_false, Option.getD_some, atoi_decimal _ h1', atoi_decimal _ h2']

theorem bloomCreateRaw_result (size numHashes : Nat) (bk mk : String) (s : Store)
    (hs : HashOrAbsent s mk) :
    (bloomCreateRaw size numHashes bk mk s).2 =
      some { size := max size 1, k := max numHashes 1, bitsetKey := bk, metadataKey := mk } := by
  unfold bloomCreateRaw
  rw [Script.bind_apply, cmdHSET_ok hs]
  rfl

/-! ### Cuckoo -/

theorem cuckooAttach_congr {s s' : Store} {k : String} (e : s k = s' k) :
    cuckooAttach s k = cuckooAttach s' k := by
  unfold cuckooAttach; rw [cmdHGETALL_congr e]

theorem cuckoo_roundtrip (h : CuckooHandle) (length : Nat) (s : Store)
    (hs : HashOrAbsent s h.metadataKey)
    (h1 : h.n < 2 ^ 63) (h2 : h.bsize < 2 ^ 63) (h3 : h.fpl < 2 ^ 63) (h4 : h.retries < 2 ^ 63) :
    cuckooAttach (cuckooSetMetadata h length s).1 h.metadataKey = some h := by
  unfold cuckooSetMetadata
  rw [cmdHSET_ok hs]
  unfold cuckooAttach
  rw [cmdHGETALL_hash (Store.set_self _ _ _)]
  simp only [field, hashSetAll, List.foldl_cons, List.foldl_nil, hashGet_hashSet,
    String.reduceEq, if_true, if_false, Option.getD_some, atoi_decimal _ h1, atoi_decimal _ h2,
    atoi_decimal _ h3, atoi_decimal _ h4]

/-! ### Count-Min Sketch -/

theorem cmsAttach_congr {s s' : Store} {k : String} (e : s k = s' k) :
    cmsAttach s k = cmsAttach s' k := by
  unfold cmsAttach; rw [cmdHGETALL_congr e]

theorem cms_roundtrip (h : CMSHandle) (s : Store) (hs : HashOrAbsent s h.metadataKey)
    (h1 : 0 < h.rows) (h2 : 0 < h.cols) (h3 : h.rows < 2 ^ 63) (h4 : h.cols < 2 ^ 63) :
    cmsAttach (cmsCreate h s).1 h.metadataKey = some h := by
  unfold cmsCreate
  rw [cmdHSET_ok hs]
  unfold cmsAttach
  rw [cmdHGETALL_hash (Store.set_self _ _ _)]
  simp only [field, hashSetAll, List.foldl_cons, List.foldl_nil, hashGet_hashSet,
    String.reduceEq, if_true, if_false, Option.getD_some, atoi_decimal _ h3, atoi_decimal _ h4]
  have : ¬ (h.rows = 0 ∨ h.cols = 0) := by omega
  rw [if_neg this]

/-! ### HyperLogLog -/

theorem hllAttach_congr {s s' : Store} {k : String} (e : s k = s' k) :
    hllAttach s k = hllAttach s' k := by
  unfold hllAttach; rw [cmdHGETALL_congr e]

theorem hll_roundtrip (h : HLLHandle) (s : Store) (hs : HashOrAbsent s h.metadataKey)
    (h1 : 0 < h.m) (h2 : h.m &&& (h.m - 1) = 0) (h3 : h.m < 2 ^ 63) :
    hllAttach (hllCreate h s).1 h.metadataKey = some h := by
  unfold hllCreate
  rw [cmdHSET_ok hs]
  unfold hllAttach
  rw [cmdHGETALL_hash (Store.set_self _ _ _)]
  simp only [field, hashSetAll, List.foldl_cons, List.foldl_nil, hashGet_hashSet,
    String.reduceEq, if_true, if_false, Option.getD_some, atoi_decimal _ h3]
  have : ¬ (h.m = 0 ∨ h.m &&& (h.m - 1) ≠ 0) := by
    intro hh; rcases hh with hh | hh
    · omega
    · exact hh h2
  rw [if_neg this]

/-! ### Top-K -/

theorem topkAttach_congr {s s' : Store} {k : String} (e : s k = s' k)
    (e' : ∀ vals, (cmdHGETALL k s).2 = some vals →
      s (field vals "sketchKey") = s' (field vals "sketchKey")) :
    topkAttach s k = topkAttach s' k := by
  unfold topkAttach
  rw [← cmdHGETALL_congr e]
  cases hv : (cmdHGETALL k s).2 with
  | none => rfl
  | some vals => simp only; rw [cmsAttach_congr (e' vals hv)]

theorem topk_roundtrip (h : TopKHandle) (s : Store)
    (hs : HashOrAbsent s h.metadataKey) (hs' : HashOrAbsent s h.sketch.metadataKey)
    (hne : h.metadataKey ≠ h.sketch.metadataKey) (hk : h.k < 2 ^ 32)
    (h1 : 0 < h.sketch.rows) (h2 : 0 < h.sketch.cols)
    (h3 : h.sketch.rows < 2 ^ 63) (h4 : h.sketch.cols < 2 ^ 63) :
    topkAttach (topkCreate h s).1 h.metadataKey = some h := by
  unfold topkCreate
  rw [Script.bind_apply]
  have hc : (cmsCreate h.sketch s) =
      (s.set h.sketch.metadataKey (.hash (hashSetAll (priorHash s h.sketch.metadataKey)
        [("rows", decimal h.sketch.rows), ("columns", decimal h.sketch.cols), ("key", h.sketch.key)])),
        some ()) := by
    unfold cmsCreate; exact cmdHSET_ok hs' _
  have hsk := cms_roundtrip h.sketch s hs' h1 h2 h3 h4
  rw [hc] at hsk ⊢
  simp only at hsk ⊢
  generalize hashSetAll (priorHash s h.sketch.metadataKey)
    [("rows", decimal h.sketch.rows), ("columns", decimal h.sketch.cols), ("key", h.sketch.key)] = H
    at hsk ⊢
  have hs1 : HashOrAbsent (s.set h.sketch.metadataKey (.hash H)) h.metadataKey := by
    unfold HashOrAbsent
    rw [Store.set_ne _ _ hne]; exact hs
  rw [cmdHSET_ok hs1]
  unfold topkAttach
  rw [cmdHGETALL_hash (Store.set_self _ _ _)]
  simp only [field, hashSetAll, List.foldl_cons, List.foldl_nil, hashGet_hashSet,
    String.reduceEq, if_true, if_false, Option.getD_some, parseUint32_decimal _ hk]
  rw [cmsAttach_congr (s' := s.set h.sketch.metadataKey (.hash H))
      (Store.set_ne _ _ (Ne.symm hne)), hsk]

end Gostatix.Redis
