/-
  Gostatix.Proofs.C02Concrete — byte-level ("exact mode") histories of a cuckoo filter and their
  reduction to the abstract histories of Proofs/CuckooHistory.lean.

  `insertB / lookupB / removeB` are `Insert / Lookup / Remove` of the Go code on the element BYTES:
  they call `Cuckoo.positions c.n c.fpl data` (the model of `getPositions`, reading the number of
  buckets and the fingerprint length from the filter itself) and pass the three results, as they
  are, to `Cuckoo.insert / lookup / remove` with the eviction map `altOf hashStr c.n` — exactly
  what `Driver.lean` (`cuckooStep`) runs against the Go implementation.
  The third component of `positions` is used as returned; that it equals `alt i1 fp` is a lemma
  (`positions_alt`), not part of the definition.
-/
import Gostatix.Proofs.CuckooMem
import Gostatix.Proofs.CuckooRedis
set_option linter.unusedSectionVars false
namespace Gostatix.Cuckoo

/-! ### `getPositions` on valid input -/

/-- the fingerprint length `fpl` is usable for the element `data`: at least one digit, at most the
    number of decimal digits of the element's hash -/
def ValidData (fpl : Nat) (data : List UInt8) : Prop :=
  1 ≤ fpl ∧ fpl ≤ (toString (Murmur.getHash data)).length

instance (fpl : Nat) (data : List UInt8) : Decidable (ValidData fpl data) :=
  inferInstanceAs (Decidable (_ ∧ _))

/-- `positions` when the length check passes -/
theorem positions_of_le (n fpl : Nat) (data : List UInt8)
    (h : fpl ≤ (toString (Murmur.getHash data)).length) :
    positions n fpl data =
      (String.ofList ((toString (Murmur.getHash data)).toList.take fpl), Murmur.getHash data % n,
        (Murmur.getHash data % n ^^^
          hashStr (String.ofList ((toString (Murmur.getHash data)).toList.take fpl))) % n) := by
  have h' : ¬ fpl > (toString (Murmur.getHash data)).length := by omega
  simp only [positions, h', ↓reduceIte]

/-- `positions` when the length check fails (the Go callers ignore the error) -/
theorem positions_of_gt (n fpl : Nat) (data : List UInt8)
    (h : (toString (Murmur.getHash data)).length < fpl) : positions n fpl data = ("", 0, 0) := by
  have h' : fpl > (toString (Murmur.getHash data)).length := h
  simp only [positions, h', ↓reduceIte]

/-- the second index is the alternate bucket of the first (needs only the length check) -/
theorem positions_alt (n fpl : Nat) (data : List UInt8)
    (h : fpl ≤ (toString (Murmur.getHash data)).length) :
    (positions n fpl data).2.2
      = altOf hashStr n (positions n fpl data).2.1 (positions n fpl data).1 := by
  rw [positions_of_le n fpl data h]; rfl

/-- the fingerprint is not the empty string -/
theorem positions_fp_ne (n fpl : Nat) (data : List UInt8) (h : ValidData fpl data) :
    (positions n fpl data).1 ≠ "" := by
  obtain ⟨h1, h2⟩ := h
  rw [positions_of_le n fpl data h2]
  simp only [ne_eq, String.ofList_eq_empty_iff, List.take_eq_nil_iff, String.toList_eq_nil_iff]
  intro hc
  rcases hc with hc | hc
  · omega
  · rw [hc] at h2; simp at h2; omega

theorem positions_i1_lt (n fpl : Nat) (data : List UInt8) (hn : 0 < n)
    (h : fpl ≤ (toString (Murmur.getHash data)).length) : (positions n fpl data).2.1 < n := by
  rw [positions_of_le n fpl data h]; exact Nat.mod_lt _ hn

theorem positions_i2_lt (n fpl : Nat) (data : List UInt8) (hn : 0 < n)
    (h : fpl ≤ (toString (Murmur.getHash data)).length) : (positions n fpl data).2.2 < n := by
  rw [positions_of_le n fpl data h]; exact Nat.mod_lt _ hn

/-- in range for any `n > 0` -/
theorem altOf_lt {F : Type} (H : F → Nat) (n : Nat) (hn : 0 < n) (j : Nat) (f : F) :
    altOf H n j f < n := Nat.mod_lt _ hn

/-- which `fpl` pass the length check: `hash ≥ 10^(fpl-1)` (always, for one digit) -/
theorem le_digits_iff (fpl hash : Nat) (h1 : 1 ≤ fpl) :
    fpl ≤ (toString hash).length ↔ fpl = 1 ∨ 10 ^ (fpl - 1) ≤ hash := by
  rw [Nat.toString_eq_repr]
  by_cases h : fpl = 1
  · subst h
    have := @Nat.length_repr_pos hash
    simp; omega
  · have hk : 0 < fpl - 1 := by omega
    have := @Nat.length_repr_le_iff hash (fpl - 1) hk
    constructor
    · intro hl; right
      apply Nat.le_of_not_lt; intro hc
      have := this.mpr hc; omega
    · intro hr
      rcases hr with hr | hr
      · exact absurd hr h
      · apply Nat.le_of_not_lt; intro hc
        have h2 : hash.repr.length ≤ fpl - 1 := by omega
        have := this.mp h2; omega

/-- a 64-bit hash has at most 20 decimal digits -/
theorem digits_getHash_le (data : List UInt8) : (toString (Murmur.getHash data)).length ≤ 20 := by
  rw [Nat.toString_eq_repr, Nat.length_repr_le_iff (by decide)]
  have : Murmur.getHash data < 2^64 := by
    unfold Murmur.getHash; exact UInt64.toNat_lt _
  have : (2:Nat)^64 < 10^20 := by decide
  omega

/-! ### byte-level operations and histories -/

/-- one operation of a byte-level history; an insert carries its mode and random choices -/
inductive BOp where
  | insert (data : List UInt8) (destructive side : Bool) (slots : List Nat)
  | remove (data : List UInt8)
  | lookup (data : List UInt8)
  deriving Repr, DecidableEq

/-- the operation's element passes the fingerprint-length check, slot choices are slot indices -/
def ValidBOp (fpl s : Nat) : BOp → Prop
  | .insert data _ _ slots => ValidData fpl data ∧ ∀ x ∈ slots, x < s
  | .remove data => ValidData fpl data
  | .lookup data => ValidData fpl data

instance (fpl s : Nat) : DecidablePred (ValidBOp fpl s) := fun op => by
  cases op <;> unfold ValidBOp <;> infer_instance

/-- every insert of the history is non-destructive -/
def NonDestructiveB : List BOp → Prop
  | [] => True
  | .insert _ d _ _ :: h => d = false ∧ NonDestructiveB h
  | _ :: h => NonDestructiveB h

instance instDecidableNonDestructiveB : (h : List BOp) → Decidable (NonDestructiveB h)
  | [] => isTrue trivial
  | .insert _ d _ _ :: h =>
    have := instDecidableNonDestructiveB h
    inferInstanceAs (Decidable (d = false ∧ NonDestructiveB h))
  | .remove _ :: h => instDecidableNonDestructiveB h
  | .lookup _ :: h => instDecidableNonDestructiveB h

/-- the abstract operation `getPositions` turns a byte-level operation into -/
def toCOp (n fpl : Nat) : BOp → COp String
  | .insert data d side slots =>
    .insert (positions n fpl data).1 (positions n fpl data).2.1 d side slots
  | .remove data => .remove (positions n fpl data).1 (positions n fpl data).2.1
  | .lookup data => .lookup (positions n fpl data).1 (positions n fpl data).2.1

/-- elements with the same key as `data`: same fingerprint, and the first bucket of `data` is one of
    their two candidate buckets (as returned by `positions`).
    (The fingerprints are compared as character lists — the same thing as comparing the strings,
    `String.toList_inj` — because the kernel evaluates `List Char` equality structurally, whereas
    `String.decEq` makes it compare two unevaluated hash computations.) -/
def sameKey (n fpl : Nat) (data : List UInt8) : List UInt8 → Bool :=
  fun d => decide ((positions n fpl d).1.toList = (positions n fpl data).1.toList ∧
    ((positions n fpl data).2.1 = (positions n fpl d).2.1 ∨
     (positions n fpl data).2.1 = (positions n fpl d).2.2))

/-- every element -/
def allData : List UInt8 → Bool := fun _ => true

/-- exactly the element `data` -/
def thisData (data : List UInt8) : List UInt8 → Bool := fun d => decide (d = data)

section
variable {B : Type} [Inhabited B] {o : BucketOps B String}

/-- `Insert(data, destructive)` -/
def insertB (o : BucketOps B String) (c : Cuckoo B) (data : List UInt8) (d side : Bool)
    (slots : List Nat) : CRes (Cuckoo B) :=
  insert o (altOf hashStr c.n) c (positions c.n c.fpl data).1 (positions c.n c.fpl data).2.1
    (positions c.n c.fpl data).2.2 d side slots

/-- `Lookup(data)` -/
def lookupB (o : BucketOps B String) (c : Cuckoo B) (data : List UInt8) : Bool :=
  lookup o c (positions c.n c.fpl data).1 (positions c.n c.fpl data).2.1
    (positions c.n c.fpl data).2.2

/-- `Remove(data)` -/
def removeB (o : BucketOps B String) (c : Cuckoo B) (data : List UInt8) : Cuckoo B × Bool :=
  remove o c (positions c.n c.fpl data).1 (positions c.n c.fpl data).2.1
    (positions c.n c.fpl data).2.2

/-- run one operation: new state and the Boolean the Go method returns -/
def stepB (o : BucketOps B String) (c : Cuckoo B) : BOp → Cuckoo B × Bool
  | .insert data d side slots => ((insertB o c data d side slots).val, (insertB o c data d side slots).isOk)
  | .remove data => removeB o c data
  | .lookup data => (c, lookupB o c data)

def runB (o : BucketOps B String) (c : Cuckoo B) (h : List BOp) : Cuckoo B :=
  h.foldl (fun c op => (stepB o c op).1) c

@[simp] theorem runB_nil (c : Cuckoo B) : runB o c [] = c := rfl
@[simp] theorem runB_cons (c : Cuckoo B) (op : BOp) (h : List BOp) :
    runB o c (op :: h) = runB o (stepB o c op).1 h := rfl

/-- 1 if `op` is a successful insert of an element selected by `sel` -/
def insHitB (o : BucketOps B String) (sel : List UInt8 → Bool) (c : Cuckoo B) : BOp → Nat
  | .insert data d side slots =>
    if (insertB o c data d side slots).isOk = true ∧ sel data = true then 1 else 0
  | _ => 0

/-- 1 if `op` is a successful remove of an element selected by `sel` -/
def remHitB (o : BucketOps B String) (sel : List UInt8 → Bool) (c : Cuckoo B) : BOp → Nat
  | .remove data => if (removeB o c data).2 = true ∧ sel data = true then 1 else 0
  | _ => 0

/-- number of successful inserts of selected elements in the history `h` run from `c` -/
def okInsertsB (o : BucketOps B String) (sel : List UInt8 → Bool) : Cuckoo B → List BOp → Nat
  | _, [] => 0
  | c, op :: h => insHitB o sel c op + okInsertsB o sel (stepB o c op).1 h

/-- number of successful removes of selected elements in the history `h` run from `c` -/
def okRemovesB (o : BucketOps B String) (sel : List UInt8 → Bool) : Cuckoo B → List BOp → Nat
  | _, [] => 0
  | c, op :: h => remHitB o sel c op + okRemovesB o sel (stepB o c op).1 h

/-- `op` is not a destructive insert that fails -/
def OpSafeB (o : BucketOps B String) (c : Cuckoo B) : BOp → Prop
  | .insert data true side slots => (insertB o c data true side slots).isOk = true
  | _ => True

/-- no destructive insert of the history fails -/
def NoDestructiveFailB (o : BucketOps B String) : Cuckoo B → List BOp → Prop
  | _, [] => True
  | c, op :: h => OpSafeB o c op ∧ NoDestructiveFailB o (stepB o c op).1 h

instance instDecidableOpSafeB (o : BucketOps B String) (c : Cuckoo B) :
    (op : BOp) → Decidable (OpSafeB o c op)
  | .insert data true side slots =>
    inferInstanceAs (Decidable ((insertB o c data true side slots).isOk = true))
  | .insert _ false _ _ => isTrue trivial
  | .remove _ => isTrue trivial
  | .lookup _ => isTrue trivial

instance instDecidableNoDestructiveFailB (o : BucketOps B String) :
    (c : Cuckoo B) → (h : List BOp) → Decidable (NoDestructiveFailB o c h)
  | _, [] => isTrue trivial
  | c, op :: h =>
    have := instDecidableNoDestructiveFailB o (stepB o c op).1 h
    inferInstanceAs (Decidable (OpSafeB o c op ∧ NoDestructiveFailB o (stepB o c op).1 h))

/-! ### reduction to abstract histories -/

theorem BOp.le_digits {fpl s : Nat} {op : BOp} (hv : ValidBOp fpl s op) :
    match op with
    | .insert data _ _ _ => fpl ≤ (toString (Murmur.getHash data)).length
    | .remove data => fpl ≤ (toString (Murmur.getHash data)).length
    | .lookup data => fpl ≤ (toString (Murmur.getHash data)).length := by
  cases op with
  | insert data d side slots => exact hv.1.2
  | remove data => exact hv.2
  | lookup data => exact hv.2

/-- one byte-level step is the abstract step of the translated operation -/
theorem stepB_eq (c : Cuckoo B) (op : BOp) (s : Nat) (hv : ValidBOp c.fpl s op) :
    stepB o c op = step o (altOf hashStr c.n) c (toCOp c.n c.fpl op) := by
  have hd := BOp.le_digits hv
  cases op with
  | insert data d side slots =>
    simp only [stepB, insertB, toCOp, step, ← positions_alt c.n c.fpl data hd]
  | remove data =>
    simp only [stepB, removeB, toCOp, step, ← positions_alt c.n c.fpl data hd]
  | lookup data =>
    simp only [stepB, lookupB, toCOp, step, ← positions_alt c.n c.fpl data hd]

theorem stepB_params (c : Cuckoo B) (op : BOp) : SameParams c (stepB o c op).1 := by
  cases op with
  | insert data d side slots => exact insert_params _ c _ _ _ d side slots
  | remove data => exact remove_params c _ _ _
  | lookup data => exact SameParams.refl c

theorem runB_params (c : Cuckoo B) (h : List BOp) : SameParams c (runB o c h) := by
  induction h generalizing c with
  | nil => exact SameParams.refl c
  | cons op h ih => exact (stepB_params c op).trans (ih _)

/-- a byte-level history runs like its translation -/
theorem runB_eq (n fpl s : Nat) (c : Cuckoo B) (h : List BOp) (hn : c.n = n) (hf : c.fpl = fpl)
    (hv : ∀ op ∈ h, ValidBOp fpl s op) :
    runB o c h = run o (altOf hashStr n) c (h.map (toCOp n fpl)) := by
  induction h generalizing c with
  | nil => rfl
  | cons op h ih =>
    have hv1 := hv op List.mem_cons_self
    have e : stepB o c op = step o (altOf hashStr n) c (toCOp n fpl op) := by
      subst hn; subst hf; exact stepB_eq c op s hv1
    have hp := stepB_params (o := o) c op
    rw [runB_cons, List.map_cons, run_cons,
      ih _ (hp.1.trans hn) (hp.2.2.1.trans hf) (fun op' hop => hv op' (List.mem_cons_of_mem _ hop)), e]

/-- the selector `selB` on bytes and the selector `sel` on positions agree on the operation -/
def SelAgree (n fpl : Nat) (selB : List UInt8 → Bool) (sel : String → Nat → Bool) : BOp → Prop
  | .insert data _ _ _ => selB data = sel (positions n fpl data).1 (positions n fpl data).2.1
  | .remove data => selB data = sel (positions n fpl data).1 (positions n fpl data).2.1
  | .lookup _ => True

theorem okInsertsB_eq (n fpl s : Nat) (selB : List UInt8 → Bool) (sel : String → Nat → Bool)
    (c : Cuckoo B) (h : List BOp) (hn : c.n = n) (hf : c.fpl = fpl)
    (hv : ∀ op ∈ h, ValidBOp fpl s op) (hs : ∀ op ∈ h, SelAgree n fpl selB sel op) :
    okInsertsB o selB c h = okInserts o (altOf hashStr n) sel c (h.map (toCOp n fpl)) := by
  induction h generalizing c with
  | nil => rfl
  | cons op h ih =>
    have hv1 := hv op List.mem_cons_self
    have hs1 := hs op List.mem_cons_self
    have e : stepB o c op = step o (altOf hashStr n) c (toCOp n fpl op) := by
      subst hn; subst hf; exact stepB_eq c op s hv1
    have hp := stepB_params (o := o) c op
    rw [okInsertsB, List.map_cons, okInserts,
      ih _ (hp.1.trans hn) (hp.2.2.1.trans hf) (fun op' hop => hv op' (List.mem_cons_of_mem _ hop))
        (fun op' hop => hs op' (List.mem_cons_of_mem _ hop)), e]
    congr 1
    subst hn; subst hf
    have hd := BOp.le_digits hv1
    cases op with
    | insert data d side slots =>
      simp only [insHitB, insertB, toCOp, insHit, ← positions_alt c.n c.fpl data hd]
      rw [show selB data = _ from hs1]
      rfl
    | remove data => rfl
    | lookup data => rfl

theorem okRemovesB_eq (n fpl s : Nat) (selB : List UInt8 → Bool) (sel : String → Nat → Bool)
    (c : Cuckoo B) (h : List BOp) (hn : c.n = n) (hf : c.fpl = fpl)
    (hv : ∀ op ∈ h, ValidBOp fpl s op) (hs : ∀ op ∈ h, SelAgree n fpl selB sel op) :
    okRemovesB o selB c h = okRemoves o (altOf hashStr n) sel c (h.map (toCOp n fpl)) := by
  induction h generalizing c with
  | nil => rfl
  | cons op h ih =>
    have hv1 := hv op List.mem_cons_self
    have hs1 := hs op List.mem_cons_self
    have e : stepB o c op = step o (altOf hashStr n) c (toCOp n fpl op) := by
      subst hn; subst hf; exact stepB_eq c op s hv1
    have hp := stepB_params (o := o) c op
    rw [okRemovesB, List.map_cons, okRemoves,
      ih _ (hp.1.trans hn) (hp.2.2.1.trans hf) (fun op' hop => hv op' (List.mem_cons_of_mem _ hop))
        (fun op' hop => hs op' (List.mem_cons_of_mem _ hop)), e]
    congr 1
    subst hn; subst hf
    have hd := BOp.le_digits hv1
    cases op with
    | insert data d side slots => rfl
    | remove data =>
      simp only [remHitB, removeB, toCOp, remHit, ← positions_alt c.n c.fpl data hd]
      rw [show selB data = _ from hs1]
      rfl
    | lookup data => rfl

theorem noDestructiveFailB_eq (n fpl s : Nat) (c : Cuckoo B) (h : List BOp) (hn : c.n = n)
    (hf : c.fpl = fpl) (hv : ∀ op ∈ h, ValidBOp fpl s op) (hsafe : NoDestructiveFailB o c h) :
    NoDestructiveFail o (altOf hashStr n) c (h.map (toCOp n fpl)) := by
  induction h generalizing c with
  | nil => trivial
  | cons op h ih =>
    have hv1 := hv op List.mem_cons_self
    have e : stepB o c op = step o (altOf hashStr n) c (toCOp n fpl op) := by
      subst hn; subst hf; exact stepB_eq c op s hv1
    have hp := stepB_params (o := o) c op
    obtain ⟨h1, h2⟩ := hsafe
    refine ⟨?_, ?_⟩
    · subst hn; subst hf
      have hd := BOp.le_digits hv1
      cases op with
      | insert data d side slots =>
        cases d with
        | false => trivial
        | true =>
          simp only [OpSafeB, insertB] at h1
          simp only [toCOp, OpSafe, ← positions_alt c.n c.fpl data hd]
          exact h1
      | remove data => trivial
      | lookup data => trivial
    · rw [← e]
      exact ih _ (hp.1.trans hn) (hp.2.2.1.trans hf)
        (fun op' hop => hv op' (List.mem_cons_of_mem _ hop)) h2

theorem nonDestructive_map (n fpl : Nat) (h : List BOp) (hnd : NonDestructiveB h) :
    NonDestructive (h.map (toCOp n fpl)) := by
  induction h with
  | nil => trivial
  | cons op h ih =>
    cases op with
    | insert data d side slots => exact ⟨hnd.1, ih hnd.2⟩
    | remove data => exact ih hnd
    | lookup data => exact ih hnd

/-- translated operations are valid abstract operations (any `n > 0`) -/
theorem validOp_map (n fpl s : Nat) (hn : 0 < n) (h : List BOp) (hv : ∀ op ∈ h, ValidBOp fpl s op) :
    ∀ op ∈ h.map (toCOp n fpl), ValidOp "" n s op := by
  intro op hop
  obtain ⟨b, hb, rfl⟩ := List.mem_map.mp hop
  have hvb := hv b hb
  cases b with
  | insert data d side slots =>
    exact ⟨positions_fp_ne n fpl data hvb.1, positions_i1_lt n fpl data hn hvb.1.2, hvb.2⟩
  | remove data => exact ⟨positions_fp_ne n fpl data hvb, positions_i1_lt n fpl data hn hvb.2⟩
  | lookup data => exact ⟨positions_fp_ne n fpl data hvb, positions_i1_lt n fpl data hn hvb.2⟩

theorem selAgree_all (n fpl : Nat) (op : BOp) : SelAgree n fpl allData allSel op := by
  cases op <;> simp [SelAgree, allData, allSel]

/-- `sameKey` is `keySel` of the translated element -/
theorem selAgree_sameKey (n fpl s : Nat) (data : List UInt8) (op : BOp) (hv : ValidBOp fpl s op) :
    SelAgree n fpl (sameKey n fpl data)
      (keySel (altOf hashStr n) (positions n fpl data).1 (positions n fpl data).2.1) op := by
  have hd := BOp.le_digits hv
  cases op with
  | insert d _ _ _ =>
    simp only [SelAgree, sameKey, keySel, ← positions_alt n fpl d hd, String.toList_inj]
  | remove d =>
    simp only [SelAgree, sameKey, keySel, ← positions_alt n fpl d hd, String.toList_inj]
  | lookup d => trivial

/-- an element has its own key -/
theorem sameKey_self (n fpl : Nat) (data : List UInt8) : sameKey n fpl data data = true := by
  simp [sameKey]

/-- counting is monotone in the selector -/
theorem okInsertsB_mono (sel sel' : List UInt8 → Bool) (hss : ∀ d, sel d = true → sel' d = true)
    (c : Cuckoo B) (h : List BOp) : okInsertsB o sel c h ≤ okInsertsB o sel' c h := by
  induction h generalizing c with
  | nil => exact Nat.le_refl _
  | cons op h ih =>
    have := ih (stepB o c op).1
    have h1 : insHitB o sel c op ≤ insHitB o sel' c op := by
      cases op with
      | insert data d side slots =>
        simp only [insHitB]
        split
        · rename_i hc; rw [if_pos ⟨hc.1, hss _ hc.2⟩]; exact Nat.le_refl _
        · exact Nat.zero_le _
      | remove data => exact Nat.le_refl _
      | lookup data => exact Nat.le_refl _
    simp only [okInsertsB]; omega

end
end Gostatix.Cuckoo
