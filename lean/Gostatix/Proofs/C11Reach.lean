/-
  Gostatix.Proofs.C11Reach — from REACHABLE model states to well-formed binary images.

  For each of the five in-memory structures this file defines
    * the image function `imgOf…` (what `WriteTo` encodes for a model state; the fields the
      model state does not carry — float bit patterns, `allSum`, `numBytesPerHash` — are
      explicit arguments),
    * the reachable states (a constructor followed by any history of the structure's operations),
    * the invariants along such histories from which `Img.WF` (Props/C11.lean) follows.
  The property theorems are in Props/C11Reach.lean (which also has the header saying what is
  and what is not proved).
-/
import Gostatix.Props.C18
import Gostatix.Props.C01
import Gostatix.Proofs.CMS
import Gostatix.Proofs.HLL
import Gostatix.Proofs.CuckooMem
import Gostatix.Proofs.C02Concrete
import Gostatix.Proofs.TopKRun
import Gostatix.Proofs.TopKInv
set_option linter.unusedSectionVars false
namespace Gostatix.Reach
open Gostatix.Codec

/-! ## Bloom filter: `bitset.BitSet` words of a bit vector -/

/-- value of a little-endian bit list: bit `j` of the list is bit `j` of the word
    (`bitset.BitSet`: bit `i` lives in `set[i>>6]` at position `i&63`) -/
def wordVal : List Bool → Nat
  | [] => 0
  | b :: bs => (if b then 1 else 0) + 2 * wordVal bs

theorem wordVal_lt : ∀ l : List Bool, wordVal l < 2 ^ l.length
  | [] => by simp [wordVal]
  | b :: bs => by
    have := wordVal_lt bs
    simp only [wordVal, List.length_cons, Nat.pow_succ]
    split <;> omega

/-- the first `n` 64-bit words of a bit vector -/
def packN : Nat → List Bool → List Nat
  | 0, _ => []
  | n+1, bs => wordVal (bs.take 64) :: packN n (bs.drop 64)

/-- the word slice of `bitset.New(len(bits))` holding `bits` -/
def packWords (bits : List Bool) : List Nat := packN (wordsNeeded bits.length) bits

theorem packN_length (n : Nat) (bs : List Bool) : (packN n bs).length = n := by
  induction n generalizing bs with
  | zero => rfl
  | succ n ih => simp [packN, ih]

theorem packN_lt (n : Nat) (bs : List Bool) : ∀ w ∈ packN n bs, w < 2 ^ 64 := by
  induction n generalizing bs with
  | zero => intro w hw; simp [packN] at hw
  | succ n ih =>
    intro w hw
    simp only [packN, List.mem_cons] at hw
    rcases hw with rfl | hw
    · have h1 := wordVal_lt (bs.take 64)
      have h2 : (bs.take 64).length ≤ 64 := by simp [List.length_take]; omega
      exact Nat.lt_of_lt_of_le h1 (Nat.pow_le_pow_right (by decide) h2)
    · exact ih _ w hw

/-- bit `i` of the packed words is bit `i` of the vector: the image loses nothing -/
theorem wordVal_testBit : ∀ (l : List Bool) (j : Nat), (wordVal l).testBit j = l.getD j false
  | [], j => by simp [wordVal]
  | b :: bs, 0 => by
    cases b <;> simp [wordVal, Nat.testBit, Nat.shiftRight_zero] <;> omega
  | b :: bs, j+1 => by
    have ih := wordVal_testBit bs j
    have : (wordVal (b :: bs)) / 2 = wordVal bs := by
      cases b <;> simp [wordVal] <;> omega
    rw [Nat.testBit_succ, this, ih]
    simp

theorem packN_testBit (n : Nat) (bs : List Bool) (i : Nat) (hi : i / 64 < n) :
    ((packN n bs).getD (i / 64) 0).testBit (i % 64) = bs.getD i false := by
  induction n generalizing bs i with
  | zero => omega
  | succ n ih =>
    by_cases h : i < 64
    · have h0 : i / 64 = 0 := Nat.div_eq_of_lt h
      have h1 : i % 64 = i := Nat.mod_eq_of_lt h
      rw [h0, h1]
      simp only [packN, List.getD_cons_zero, wordVal_testBit]
      simp [List.getD_eq_getElem?_getD, h]
    · have hge : 64 ≤ i := by omega
      have h0 : i / 64 = (i - 64) / 64 + 1 := by omega
      have h1 : i % 64 = (i - 64) % 64 := by omega
      rw [h0, h1]
      simp only [packN, List.getD_cons_succ]
      rw [ih (bs.drop 64) (i - 64) (by omega)]
      simp only [List.getD_eq_getElem?_getD, List.getElem?_drop]
      congr 2
      omega

/-- what `BloomFilter.WriteTo` encodes for a model state: `size`, `numHashes`, `BitSetMem.size`,
    `bitset.length`, the words.  For every filter the constructors build from a non-empty
    bitset, `BitSetMem.size = bitset.length = len(bits)`. -/
def imgOfBloom (b : Bloom) : BloomImg :=
  ⟨b.size, b.k, b.bits.length, b.bits.length, packWords b.bits⟩

theorem bloom_run_params {E : Type} (probes : E → List Nat) (b : Bloom) (ops : List (BloomOp E)) :
    (Bloom.run probes b ops).size = b.size ∧ (Bloom.run probes b ops).k = b.k := by
  induction ops generalizing b with
  | nil => exact ⟨rfl, rfl⟩
  | cons op ops ih =>
    simp only [Bloom.run, List.foldl_cons]
    have := ih (Bloom.step probes b op)
    simp only [Bloom.run] at this
    rw [this.1, this.2]
    cases op <;> exact ⟨rfl, rfl⟩

/-- the image of a state is well formed as soon as its three numbers are `uint`s -/
theorem imgOfBloom_wf (b : Bloom) (h1 : b.size < 2 ^ 64) (h2 : b.k < 2 ^ 64)
    (h3 : b.bits.length < 2 ^ 64) : (imgOfBloom b).WF :=
  ⟨h1, h2, h3, h3, packN_length _ _, packN_lt _ _⟩

/-! ## Count-Min sketch -/

/-- every cell of the matrix is at most `T` -/
def Bounded (m : List (List Nat)) (T : Nat) : Prop := ∀ row ∈ m, ∀ v ∈ row, v ≤ T

theorem Bounded.mono {m : List (List Nat)} {T T' : Nat} (h : Bounded m T) (hle : T ≤ T') :
    Bounded m T' := fun row hr v hv => Nat.le_trans (h row hr v hv) hle

theorem bounded_new (rows cols : Nat) : Bounded (CMS.new rows cols).m 0 := by
  intro row hr v hv
  simp only [CMS.new, List.mem_replicate] at hr
  rw [hr.2] at hv
  simp only [List.mem_replicate] at hv
  omega

theorem bounded_updRows (m : List (List Nat)) (pos : List Nat) (c T : Nat) (h : Bounded m T) :
    Bounded (CMS.updRows m pos c) (T + c) := by
  induction m generalizing pos with
  | nil => cases pos <;> exact fun row hr => by cases hr
  | cons row m ih =>
    cases pos with
    | nil => exact h.mono (Nat.le_add_right _ _)
    | cons p pos =>
      intro row' hr'
      simp only [CMS.updRows, List.mem_cons] at hr'
      rcases hr' with rfl | hr'
      · apply forall_mem_modAt row p (· + c) 0 (fun v => v ≤ T + c)
        · intro v hv
          exact Nat.le_trans (h row List.mem_cons_self v hv) (Nat.le_add_right _ _)
        · intro hp
          have := h row List.mem_cons_self _ (CMS.getD_mem row p 0 hp)
          show row.getD p 0 + c ≤ T + c
          omega
      · exact ih pos (fun r hr => h r (List.mem_cons_of_mem _ hr)) row' hr'

theorem mem_zipWith_add (a b : List Nat) (v : Nat) (hv : v ∈ List.zipWith (· + ·) a b) :
    ∃ x ∈ a, ∃ y ∈ b, v = x + y := by
  induction a generalizing b with
  | nil => simp at hv
  | cons x a ih =>
    cases b with
    | nil => simp at hv
    | cons y b =>
      simp only [List.zipWith_cons_cons, List.mem_cons] at hv
      rcases hv with rfl | hv
      · exact ⟨x, List.mem_cons_self, y, List.mem_cons_self, rfl⟩
      · obtain ⟨x', hx', y', hy', e⟩ := ih b hv
        exact ⟨x', List.mem_cons_of_mem _ hx', y', List.mem_cons_of_mem _ hy', e⟩

theorem bounded_addRows (m₁ m₂ : List (List Nat)) (T₁ T₂ : Nat) (h₁ : Bounded m₁ T₁)
    (h₂ : Bounded m₂ T₂) : Bounded (CMS.addRows m₁ m₂) (T₁ + T₂) := by
  induction m₁ generalizing m₂ with
  | nil => cases m₂ <;> exact fun row hr => by cases hr
  | cons r₁ m₁ ih =>
    cases m₂ with
    | nil => exact h₁.mono (Nat.le_add_right _ _)
    | cons r₂ m₂ =>
      intro row hr
      simp only [CMS.addRows, List.mem_cons] at hr
      rcases hr with rfl | hr
      · intro v hv
        obtain ⟨x, hx, y, hy, rfl⟩ := mem_zipWith_add r₁ r₂ v hv
        have := h₁ r₁ List.mem_cons_self x hx
        have := h₂ r₂ List.mem_cons_self y hy
        omega
      · exact ih m₂ (fun r hr => h₁ r (List.mem_cons_of_mem _ hr))
          (fun r hr => h₂ r (List.mem_cons_of_mem _ hr)) row hr

theorem mem_cells_le (m : List (List Nat)) (pos : List Nat) (T : Nat) (h : Bounded m T) :
    ∀ v ∈ CMS.cells m pos, v ≤ T := by
  induction m generalizing pos with
  | nil => intro v hm; cases pos <;> cases hm
  | cons row m ih =>
    cases pos with
    | nil => intro v hm; cases hm
    | cons p pos =>
      intro v hm
      simp only [CMS.cells, List.mem_cons] at hm
      rcases hm with rfl | hm
      · by_cases hp : p < row.length
        · exact h row List.mem_cons_self _ (CMS.getD_mem row p 0 hp)
        · rw [CMS.getD_of_ge row p 0 (by omega)]; exact Nat.zero_le _
      · exact ih pos (fun r hr => h r (List.mem_cons_of_mem _ hr)) v hm

/-- the estimate never exceeds the bound of the cells -/
theorem count_le_of_bounded (s : CMS) (pos : List Nat) (T : Nat) (h : Bounded s.m T) :
    s.count pos ≤ T := by
  unfold CMS.count
  by_cases hne : CMS.cells s.m pos = []
  · rw [hne]; exact Nat.zero_le _
  · exact mem_cells_le s.m pos T h _ (CMS.minInit_mem _ hne)

/-- what `CountMinSketch.WriteTo` encodes: `rows`, `columns`, `allSum` (not part of the model
    state: an argument), the matrix row by row -/
def imgOfCMS (s : CMS) (allSum : Nat) : CMSImg := ⟨s.rows, s.cols, allSum, s.m⟩

theorem imgOfCMS_wf (s : CMS) (allSum T : Nat) (hs : CMS.Shape s.m s.rows s.cols)
    (hb : Bounded s.m T) (hr : s.rows < 2 ^ 64) (hc : s.cols < 2 ^ 64) (ha : allSum < 2 ^ 64)
    (hT : T < 2 ^ 64) : (imgOfCMS s allSum).WF :=
  ⟨hr, hc, ha, hs.1, hs.2, fun r hr' c hc' => Nat.lt_of_le_of_lt (hb r hr' c hc') hT⟩

/-- A history of a Count-Min sketch: `NewCountMinSketch(rows, cols)`, then any number of
    `Update(pos, c)` and `Merge(other)`, where `other` is itself any such history. -/
inductive CMSHist where
  | new (rows cols : Nat)
  | update (h : CMSHist) (pos : List Nat) (c : Nat)
  | merge (h g : CMSHist)

namespace CMSHist

/-- the state the history produces (`Merge` returning an error leaves the receiver alone) -/
def state : CMSHist → CMS
  | new r c => CMS.new r c
  | update h pos c => CMS.update (state h) pos c
  | merge h g => match CMS.merge (state h) (state g) with
    | .ok s => s
    | .err => state h

/-- constructor parameters of the receiver -/
def rows : CMSHist → Nat
  | new r _ => r
  | update h _ _ => h.rows
  | merge h _ => h.rows
def cols : CMSHist → Nat
  | new _ c => c
  | update h _ _ => h.cols
  | merge h _ => h.cols

/-- total of all counts that went into the matrix: own updates plus the totals of the sketches
    merged successfully -/
def total : CMSHist → Nat
  | new _ _ => 0
  | update h _ c => h.total + c
  | merge h g => h.total + (if h.rows = g.rows ∧ h.cols = g.cols then g.total else 0)

/-- the `allSum` field as the Go code maintains it: `Update` adds the count, `Merge` does not
    touch it (before wrap-around) -/
def ownSum : CMSHist → Nat
  | new _ _ => 0
  | update h _ c => h.ownSum + c
  | merge h _ => h.ownSum

theorem ownSum_le_total : ∀ h : CMSHist, h.ownSum ≤ h.total
  | new _ _ => Nat.le_refl _
  | update h _ c => by have := ownSum_le_total h; simp only [ownSum, total]; omega
  | merge h g => by have := ownSum_le_total h; simp only [ownSum, total]; omega

theorem inv : ∀ h : CMSHist, h.state.rows = h.rows ∧ h.state.cols = h.cols ∧
    CMS.Shape h.state.m h.rows h.cols ∧ Bounded h.state.m h.total
  | new r c => ⟨rfl, rfl, CMS.new_shape r c, bounded_new r c⟩
  | update h pos c => by
    obtain ⟨h1, h2, h3, h4⟩ := inv h
    exact ⟨h1, h2, CMS.updRows_shape _ pos c _ _ h3, bounded_updRows _ pos c _ h4⟩
  | merge h g => by
    obtain ⟨h1, h2, h3, h4⟩ := inv h
    obtain ⟨g1, g2, g3, g4⟩ := inv g
    by_cases hd : h.rows = g.rows ∧ h.cols = g.cols
    · have hm : h.state.merge g.state = .ok { h.state with m := CMS.addRows h.state.m g.state.m } :=
        CMS.merge_ok _ _ (by rw [h1, g1, hd.1]) (by rw [h2, g2, hd.2])
      simp only [state, total, hm, if_pos hd]
      refine ⟨h1, h2, ?_, bounded_addRows _ _ _ _ h4 g4⟩
      exact CMS.addRows_shape _ _ h.rows h.cols h3 (by rw [hd.1, hd.2]; exact g3)
    · have hm : h.state.merge g.state = .err := by
        apply CMS.merge_err
        rw [h1, g1, h2, g2]
        by_cases hr : h.rows = g.rows
        · exact Or.inr (fun hc => hd ⟨hr, hc⟩)
        · exact Or.inl hr
      simp only [state, total, hm, if_neg hd, Nat.add_zero]
      exact ⟨h1, h2, h3, h4⟩

end CMSHist

/-! ## HyperLogLog -/

/-- what `HyperLogLog.WriteTo` encodes: `numRegisters`, `numBytesPerHash` and the bit pattern
    of `correctionBias` (both fixed by the constructor, not part of the model state: arguments),
    one byte per register -/
def imgOfHLL (s : HLL) (nbp bias : Nat) : HLLImg := ⟨s.m, nbp, bias, s.regs.map UInt8.ofNat⟩

/-- `NewHyperLogLog(m)`, then any number of `Update` (register index and value of the element)
    and `Merge(other)` with `other` any such history -/
inductive HLLHist where
  | new (m : Nat)
  | update (h : HLLHist) (idx val : Nat)
  | merge (h g : HLLHist)

namespace HLLHist

/-- the state the history produces: an `Update` that panics (index out of range, finding D4) and a
    `Merge` that returns an error leave the receiver alone -/
def state : HLLHist → HLL
  | new m => HLL.new m
  | update h idx val => match HLL.update (state h) idx val with
    | .ok s => s
    | _ => state h
  | merge h g => match HLL.merge (state h) (state g) with
    | .ok s => s
    | _ => state h

def m : HLLHist → Nat
  | new m => m
  | update h _ _ => h.m
  | merge h _ => h.m

/-- every register value offered by an `Update` is a byte (`uint8(count)` in the Go code;
    `HLL.valueOf` is `… % 256`) -/
def ValsOK : HLLHist → Prop
  | new _ => True
  | update h _ val => h.ValsOK ∧ val < 256
  | merge h g => h.ValsOK ∧ g.ValsOK

instance instDecidableValsOK : (h : HLLHist) → Decidable h.ValsOK
  | new _ => isTrue trivial
  | update h _ val =>
    have := instDecidableValsOK h
    inferInstanceAs (Decidable (h.ValsOK ∧ val < 256))
  | merge h g =>
    have := instDecidableValsOK h
    have := instDecidableValsOK g
    inferInstanceAs (Decidable (h.ValsOK ∧ g.ValsOK))

theorem mem_mergeRegs : ∀ (a b : List Nat) (v : Nat), v ∈ HLL.mergeRegs a b → v ∈ a ∨ v ∈ b
  | [], b, v, hv => by cases b <;> simp [HLL.mergeRegs] at hv
  | x :: a, [], v, hv => Or.inl (by simpa [HLL.mergeRegs] using hv)
  | x :: a, y :: b, v, hv => by
    simp only [HLL.mergeRegs, List.mem_cons] at hv
    rcases hv with rfl | hv
    · by_cases hxy : x ≤ y
      · right; rw [Nat.max_eq_right hxy]; exact List.mem_cons_self
      · left; rw [Nat.max_eq_left (by omega)]; exact List.mem_cons_self
    · rcases mem_mergeRegs a b v hv with h | h
      · exact Or.inl (List.mem_cons_of_mem _ h)
      · exact Or.inr (List.mem_cons_of_mem _ h)

theorem inv : ∀ h : HLLHist, h.state.m = h.m ∧ h.state.regs.length = h.m
  | new m => ⟨rfl, by simp [state, HLL.new, HLLHist.m]⟩
  | update h idx val => by
    obtain ⟨h1, h2⟩ := inv h
    simp only [state, HLL.update]
    split
    · next s hs =>
      split at hs
      · cases hs; exact ⟨h1, by simpa [m] using h2⟩
      · cases hs
    · exact ⟨h1, h2⟩
  | merge h g => by
    obtain ⟨h1, h2⟩ := inv h
    simp only [state, HLL.merge]
    split
    · next s hs =>
      split at hs
      · cases hs
      · cases hs; exact ⟨h1, by simpa [HLL.mergeRegs_length, m] using h2⟩
    · exact ⟨h1, h2⟩

theorem regs_lt : ∀ h : HLLHist, h.ValsOK → ∀ v ∈ h.state.regs, v < 256
  | new m, _ => by
    intro v hv
    simp only [state, HLL.new, List.mem_replicate] at hv
    omega
  | update h idx val, hv => by
    have ih := regs_lt h hv.1
    simp only [state, HLL.update]
    split
    · next s hs =>
      split at hs
      · cases hs
        apply forall_mem_modAt h.state.regs idx (fun o => max o val) 0 (fun v => v < 256) ih
        intro hi
        have := ih _ (CMS.getD_mem h.state.regs idx 0 hi)
        have := hv.2
        show max (h.state.regs.getD idx 0) val < 256
        omega
      · cases hs
    · exact ih
  | merge h g, hv => by
    have ih := regs_lt h hv.1
    have ig := regs_lt g hv.2
    simp only [state, HLL.merge]
    split
    · next s hs =>
      split at hs
      · cases hs
      · cases hs
        intro v hv'
        rcases mem_mergeRegs _ _ v hv' with h' | h'
        · exact ih v h'
        · exact ig v h'
    · exact ih

end HLLHist

theorem map_toNat_ofNat (l : List Nat) (h : ∀ v ∈ l, v < 256) :
    (l.map UInt8.ofNat).map UInt8.toNat = l := by
  induction l with
  | nil => rfl
  | cons a l ih =>
    have ha := h a List.mem_cons_self
    simp only [List.map_cons, ih (fun v hv => h v (List.mem_cons_of_mem _ hv))]
    congr 1
    simp [UInt8.toNat_ofNat']
    omega

/-! ## Cuckoo filter (in memory: `BucketMem`) -/

section cuckoo
open Gostatix.Cuckoo
variable {F : Type} [DecidableEq F] [Inhabited (BucketMem F)]

/-- what `BucketMem.writeTo` encodes: `size`, the cached `length`, every slot as a string -/
def imgOfBucket (enc : F → Bytes) (b : BucketMem F) : BucketImg :=
  ⟨b.size, b.length, b.elements.map enc⟩

/-- what `CuckooFilter.WriteTo` encodes: the five numbers, then every bucket -/
def imgOfCuckoo (enc : F → Bytes) (c : Cuckoo (BucketMem F)) : CuckooImg :=
  ⟨c.n, c.bsize, c.fpl, c.length, c.retries, c.buckets.map (imgOfBucket enc)⟩

/-- bucket invariant that needs NO validity assumption on the operations: `s` slots, the cached
    length never exceeds `s`, every slot satisfies `P` -/
def BOK (P : F → Prop) (s : Nat) (b : BucketMem F) : Prop :=
  b.size = s ∧ b.elements.length = s ∧ b.length ≤ s ∧ ∀ e ∈ b.elements, P e

def BsOK (P : F → Prop) (s : Nat) (bs : List (BucketMem F)) : Prop := ∀ b ∈ bs, BOK P s b

variable {P : F → Prop} {s : Nat}

theorem bok_new (emp : F) (hemp : P emp) : BOK P s (BucketMem.new emp s) :=
  ⟨rfl, by simp [BucketMem.new], Nat.zero_le _, by
    intro e he
    simp only [BucketMem.new, List.mem_replicate] at he
    rw [he.2]; exact hemp⟩

theorem bok_set {b : BucketMem F} (hb : BOK P s b) (i : Nat) (e : F) (he : P e) :
    BOK P s (BucketMem.set b i e) := by
  obtain ⟨h1, h2, h3, h4⟩ := hb
  refine ⟨h1, by simpa [BucketMem.set] using h2, h3, ?_⟩
  intro x hx
  rcases List.mem_or_eq_of_mem_set hx with hx | rfl
  · exact h4 x hx
  · exact he

theorem bok_add (emp : F) {b : BucketMem F} (hb : BOK P s b) (e : F) (he : P e) :
    BOK P s (BucketMem.add emp b e) := by
  unfold BucketMem.add
  split
  · exact hb
  · next hc =>
    have hfree : b.length < b.size := by
      simp only [BucketMem.isFree, not_or, Decidable.not_not, decide_eq_true_eq] at hc
      exact hc.2
    obtain ⟨h1, h2, h3, h4⟩ := hb
    refine ⟨h1, by simpa using h2, by show b.length + 1 ≤ s; omega, ?_⟩
    intro x hx
    rcases List.mem_or_eq_of_mem_set hx with hx | rfl
    · exact h4 x hx
    · exact he

theorem bok_remove (emp : F) (hemp : P emp) {b : BucketMem F} (hb : BOK P s b) (e : F) :
    BOK P s (BucketMem.remove emp b e) := by
  unfold BucketMem.remove
  split
  · obtain ⟨h1, h2, h3, h4⟩ := hb
    refine ⟨h1, by simpa using h2, by show b.length - 1 ≤ s; omega, ?_⟩
    intro x hx
    rcases List.mem_or_eq_of_mem_set hx with hx | rfl
    · exact h4 x hx
    · exact hemp
  · exact hb

theorem p_get (emp : F) (hemp : P emp) (b : BucketMem F) (hb : ∀ e ∈ b.elements, P e) (i : Nat) :
    P (BucketMem.get emp b i) := by
  unfold BucketMem.get
  by_cases hi : i < b.elements.length
  · exact hb _ (CMS.getD_mem _ i emp hi)
  · rw [CMS.getD_of_ge _ i emp (by omega)]; exact hemp

/-- the slots of the bucket `bucketAt` returns — a bucket of the table, or the default bucket for
    an index outside the table — satisfy `P` -/
theorem bucketAt_slots (hdef : ∀ e ∈ (default : BucketMem F).elements, P e)
    {bs : List (BucketMem F)} (h : BsOK P s bs) (i : Nat) :
    ∀ e ∈ (bucketAt bs i).elements, P e := by
  unfold bucketAt
  by_cases hi : i < bs.length
  · exact (h _ (CMS.getD_mem bs i default hi)).2.2.2
  · rw [CMS.getD_of_ge bs i default (by omega)]; exact hdef

theorem bsok_modAt {bs : List (BucketMem F)} (h : BsOK P s bs) (i : Nat)
    (f : BucketMem F → BucketMem F) (hf : ∀ b, BOK P s b → BOK P s (f b)) :
    BsOK P s (modAt bs i f) :=
  forall_mem_modAt bs i f default (BOK P s) h
    (fun hi => hf _ (h _ (CMS.getD_mem bs i default hi)))

theorem kick_ok (emp : F) (hemp : P emp) (hdef : ∀ e ∈ (default : BucketMem F).elements, P e)
    (alt : Nat → F → Nat) :
    ∀ (r : Nat) (bs : List (BucketMem F)) (idx : Nat) (cur : F) (slots : List Nat)
      (log : List (F × Nat × Nat)), BsOK P s bs → P cur → (∀ it ∈ log, P it.1) →
      BsOK P s (kick (BucketMem.ops emp) alt r bs idx cur slots log).1 ∧
      (∀ it ∈ (kick (BucketMem.ops emp) alt r bs idx cur slots log).2.1, P it.1) ∧
      (kick (BucketMem.ops emp) alt r bs idx cur slots log).1.length = bs.length := by
  intro r
  induction r with
  | zero => intro bs idx cur slots log h _ hl; exact ⟨h, hl, rfl⟩
  | succ r ih =>
    intro bs idx cur slots log h hcur hl
    have hprev : P ((BucketMem.ops emp).get (bucketAt bs idx) (slots.headD 0)) :=
      p_get emp hemp _ (bucketAt_slots hdef h idx) _
    have h1 : BsOK P s (modAt bs idx (fun b => (BucketMem.ops emp).set b (slots.headD 0) cur)) :=
      bsok_modAt h idx _ (fun b hb => bok_set hb _ _ hcur)
    have hl' : ∀ it ∈ ((BucketMem.ops emp).get (bucketAt bs idx) (slots.headD 0), idx,
        slots.headD 0) :: log, P it.1 := by
      intro it hit
      rcases List.mem_cons.1 hit with rfl | hit
      · exact hprev
      · exact hl it hit
    rw [kick_succ]
    split
    · exact ⟨bsok_modAt h1 _ _ (fun b hb => bok_add emp hb _ hprev), hl', by simp⟩
    · obtain ⟨a, b, c⟩ := ih _ (alt idx ((BucketMem.ops emp).get (bucketAt bs idx) (slots.headD 0)))
        _ slots.tail _ h1 hprev hl'
      exact ⟨a, b, by rw [c]; simp⟩

theorem rollback_ok (emp : F) (log : List (F × Nat × Nat)) :
    ∀ (bs : List (BucketMem F)), BsOK P s bs → (∀ it ∈ log, P it.1) →
      BsOK P s (rollback (BucketMem.ops emp) bs log) ∧
      (rollback (BucketMem.ops emp) bs log).length = bs.length := by
  induction log with
  | nil => intro bs h _; exact ⟨h, rfl⟩
  | cons it log ih =>
    intro bs h hl
    rw [rollback_cons]
    obtain ⟨a, b⟩ := ih _ (bsok_modAt h it.2.1 _ (fun b hb => bok_set hb _ _ (hl it List.mem_cons_self)))
      (fun it' hit => hl it' (List.mem_cons_of_mem _ hit))
    exact ⟨a, b.trans (modAt_length _ _ _)⟩

/-- filter invariant: `n` buckets satisfying `BOK` -/
def COK (P : F → Prop) (c : Cuckoo (BucketMem F)) : Prop :=
  c.buckets.length = c.n ∧ BsOK P c.bsize c.buckets

/-- `Insert` of a fingerprint satisfying `P`, for any positions, any mode, any random choices and
    either outcome: the invariant is kept and `length` grows by at most one -/
theorem insert_ok (emp : F) (hemp : P emp) (hdef : ∀ e ∈ (default : BucketMem F).elements, P e)
    (alt : Nat → F → Nat) (c : Cuckoo (BucketMem F)) (fp : F) (i1 i2 : Nat) (d side : Bool)
    (slots : List Nat) (hc : COK P c) (hfp : P fp) :
    COK P (insert (BucketMem.ops emp) alt c fp i1 i2 d side slots).val ∧
    (insert (BucketMem.ops emp) alt c fp i1 i2 d side slots).val.length ≤ c.length + 1 := by
  obtain ⟨hn, hb⟩ := hc
  have hadd : ∀ i, BsOK P c.bsize (modAt c.buckets i (fun b => (BucketMem.ops emp).add b fp)) :=
    fun i => bsok_modAt hb i _ (fun b hb' => bok_add emp hb' _ hfp)
  rcases insert_cases (o := BucketMem.ops emp) alt c fp i1 i2 d side slots with
    ⟨_, e⟩ | ⟨_, _, e⟩ | ⟨_, _, bs, log, found, hk, e⟩
  · rw [e]; exact ⟨⟨by simpa [CRes.val] using hn, hadd i1⟩, Nat.le_refl _⟩
  · rw [e]; exact ⟨⟨by simpa [CRes.val] using hn, hadd i2⟩, Nat.le_refl _⟩
  · obtain ⟨k1, k2, k3⟩ := kick_ok (P := P) (s := c.bsize) emp hemp hdef alt c.retries c.buckets
      (if side then i1 else i2) fp slots [] hb hfp (fun _ h => by cases h)
    rw [hk] at k1 k2 k3
    rw [e]
    cases found with
    | true => exact ⟨⟨by simpa [CRes.val] using k3.trans hn, k1⟩, Nat.le_refl _⟩
    | false =>
      cases d with
      | true => exact ⟨⟨by simpa [CRes.val] using k3.trans hn, k1⟩, by simp [CRes.val]⟩
      | false =>
        obtain ⟨r1, r2⟩ := rollback_ok (P := P) (s := c.bsize) emp log bs k1 k2
        exact ⟨⟨by simpa [CRes.val] using (r2.trans k3).trans hn, r1⟩, by simp [CRes.val]⟩

theorem remove_ok (emp : F) (hemp : P emp) (c : Cuckoo (BucketMem F)) (fp : F) (i1 i2 : Nat)
    (hc : COK P c) :
    COK P (remove (BucketMem.ops emp) c fp i1 i2).1 ∧
    (remove (BucketMem.ops emp) c fp i1 i2).1.length ≤ c.length := by
  obtain ⟨hn, hb⟩ := hc
  have hrem : ∀ i, BsOK P c.bsize (modAt c.buckets i (fun b => (BucketMem.ops emp).remove b fp)) :=
    fun i => bsok_modAt hb i _ (fun b hb' => bok_remove emp hemp hb' _)
  unfold remove
  split
  · exact ⟨⟨by simpa using hn, hrem i1⟩, Nat.sub_le _ _⟩
  · split
    · exact ⟨⟨by simpa using hn, hrem i2⟩, Nat.sub_le _ _⟩
    · exact ⟨⟨hn, hb⟩, Nat.le_refl _⟩

/-- the fingerprint of an operation -/
def COp.fp : COp F → F
  | .insert fp _ _ _ _ => fp
  | .remove fp _ => fp
  | .lookup fp _ => fp

/-- number of `Insert` calls of a history (successful or not) -/
def numInserts : List (COp F) → Nat
  | [] => 0
  | .insert _ _ _ _ _ :: h => numInserts h + 1
  | _ :: h => numInserts h

theorem step_ok (emp : F) (hemp : P emp) (hdef : ∀ e ∈ (default : BucketMem F).elements, P e)
    (alt : Nat → F → Nat) (c : Cuckoo (BucketMem F)) (op : COp F) (hc : COK P c)
    (hfp : P (COp.fp op)) :
    COK P (step (BucketMem.ops emp) alt c op).1 ∧
    (step (BucketMem.ops emp) alt c op).1.length ≤ c.length + numInserts [op] := by
  cases op with
  | insert fp i1 d side slots => exact insert_ok emp hemp hdef alt c fp i1 _ d side slots hc hfp
  | remove fp i1 =>
    obtain ⟨a, b⟩ := remove_ok emp hemp c fp i1 (alt i1 fp) hc
    exact ⟨a, by simpa [step, numInserts] using b⟩
  | lookup fp i1 => exact ⟨hc, Nat.le_refl _⟩

theorem numInserts_cons (op : COp F) (h : List (COp F)) :
    numInserts (op :: h) = numInserts [op] + numInserts h := by
  cases op <;> simp [numInserts] <;> omega

/-- the invariant along ANY history (any positions, in range or not; any fingerprints satisfying
    `P`, the empty one included; failing inserts of both kinds; any random choices) -/
theorem run_ok (emp : F) (hemp : P emp) (hdef : ∀ e ∈ (default : BucketMem F).elements, P e)
    (alt : Nat → F → Nat) (c : Cuckoo (BucketMem F)) (h : List (COp F)) (hc : COK P c)
    (hfp : ∀ op ∈ h, P (COp.fp op)) :
    COK P (run (BucketMem.ops emp) alt c h) ∧
    (run (BucketMem.ops emp) alt c h).length ≤ c.length + numInserts h := by
  induction h generalizing c with
  | nil => exact ⟨hc, Nat.le_refl _⟩
  | cons op h ih =>
    obtain ⟨a, b⟩ := step_ok emp hemp hdef alt c op hc (hfp op List.mem_cons_self)
    obtain ⟨a', b'⟩ := ih _ a (fun op' hop => hfp op' (List.mem_cons_of_mem _ hop))
    refine ⟨a', ?_⟩
    rw [run_cons, numInserts_cons]
    omega

theorem empty_ok (emp : F) (hemp : P emp) (n bsize fpl retries : Nat) :
    COK P (Mem.empty emp n bsize fpl retries) :=
  ⟨by simp [Mem.empty], by
    intro b hb
    simp only [Mem.empty, List.mem_replicate] at hb
    rw [hb.2]; exact bok_new emp hemp⟩

/-- the image of a filter satisfying the invariant for `P e := (enc e).length < 2^64` is well
    formed as soon as its five numbers are `uint64`s -/
theorem imgOfCuckoo_wf (enc : F → Bytes) (c : Cuckoo (BucketMem F))
    (hc : COK (fun e => (enc e).length < 2 ^ 64) c)
    (h1 : c.n < 2 ^ 64) (h2 : c.bsize < 2 ^ 64) (h3 : c.fpl < 2 ^ 64) (h4 : c.length < 2 ^ 64)
    (h5 : c.retries < 2 ^ 64) : (imgOfCuckoo enc c).WF := by
  refine ⟨h1, h2, h3, h4, h5, by simpa [imgOfCuckoo] using hc.1, ?_⟩
  intro b hb
  simp only [imgOfCuckoo, List.mem_map] at hb
  obtain ⟨b0, hb0, rfl⟩ := hb
  obtain ⟨k1, k2, k3, k4⟩ := hc.2 b0 hb0
  refine ⟨by show b0.size < 2 ^ 64; omega, by show b0.length < 2 ^ 64; omega,
    by simp [imgOfBucket, k1, k2], ?_⟩
  intro e he
  simp only [imgOfBucket, List.mem_map] at he
  obtain ⟨e0, he0, rfl⟩ := he
  exact k4 e0 he0

end cuckoo

/-! ### byte-level histories of the in-memory filter (`getPositions` on the element bytes) -/

section cuckooBytes
open Gostatix.Cuckoo

/-- the bytes `[]byte(str)` of a fingerprint / element name -/
def strBytes (s : String) : Bytes := s.toUTF8.data.toList

theorem strBytes_ofList_le (l : List Char) : (strBytes (String.ofList l)).length ≤ 4 * l.length := by
  unfold strBytes
  rw [String.toUTF8_eq_toByteArray, String.toByteArray_ofList, List.utf8Encode]
  simp only [List.data_toByteArray, List.length_flatMap, String.length_utf8EncodeChar]
  induction l with
  | nil => simp
  | cons c l ih =>
    simp only [List.map_cons, List.sum_cons, List.length_cons]
    have := Char.utf8Size_le_four c
    omega

theorem strBytes_empty : strBytes "" = [] := by decide +kernel

/-- every fingerprint `getPositions` can return — a prefix of the decimal string of a 64-bit
    hash, or the empty string of finding D3 — has at most 80 bytes (in fact at most 20) -/
theorem strBytes_positions_le (n fpl : Nat) (data : List UInt8) :
    (strBytes (positions n fpl data).1).length ≤ 80 := by
  unfold positions
  simp only
  split
  · rw [strBytes_empty]; exact Nat.zero_le _
  · have h1 := strBytes_ofList_le ((toString (Murmur.getHash data)).toList.take fpl)
    have h2 := digits_getHash_le data
    have h3 : ((toString (Murmur.getHash data)).toList.take fpl).length ≤ 20 := by
      rw [List.length_take]
      have : (toString (Murmur.getHash data)).toList.length = (toString (Murmur.getHash data)).length :=
        String.length_toList
      omega
    show (strBytes (String.ofList ((toString (Murmur.getHash data)).toList.take fpl))).length ≤ 80
    omega

/-- number of `Insert` calls of a byte-level history -/
def numInsertsB : List BOp → Nat
  | [] => 0
  | .insert _ _ _ _ :: h => numInsertsB h + 1
  | _ :: h => numInsertsB h

theorem numInsertsB_cons (op : BOp) (h : List BOp) :
    numInsertsB (op :: h) = numInsertsB [op] + numInsertsB h := by
  cases op <;> simp [numInsertsB] <;> omega

theorem runB_ok (c : Cuckoo (BucketMem String)) (h : List BOp)
    (hc : COK (fun e => (strBytes e).length ≤ 80) c) :
    COK (fun e => (strBytes e).length ≤ 80) (runB (BucketMem.ops "") c h) ∧
    (runB (BucketMem.ops "") c h).length ≤ c.length + numInsertsB h := by
  have hemp : (strBytes "").length ≤ 80 := by rw [strBytes_empty]; exact Nat.zero_le _
  have hdef : ∀ e ∈ (default : BucketMem String).elements, (strBytes e).length ≤ 80 := by
    intro e he; cases he
  induction h generalizing c with
  | nil => exact ⟨hc, Nat.le_refl _⟩
  | cons op h ih =>
    have hstep : COK (fun e => (strBytes e).length ≤ 80) (stepB (BucketMem.ops "") c op).1 ∧
        (stepB (BucketMem.ops "") c op).1.length ≤ c.length + numInsertsB [op] := by
      cases op with
      | insert data d side slots =>
        exact insert_ok (P := fun e => (strBytes e).length ≤ 80) "" hemp hdef _ c _ _ _ d side slots hc
          (strBytes_positions_le c.n c.fpl data)
      | remove data =>
        obtain ⟨a, b⟩ := remove_ok (P := fun e => (strBytes e).length ≤ 80) "" hemp c
          (positions c.n c.fpl data).1 (positions c.n c.fpl data).2.1 (positions c.n c.fpl data).2.2 hc
        exact ⟨a, by simpa [stepB, removeB, numInsertsB] using b⟩
      | lookup data => exact ⟨hc, Nat.le_refl _⟩
    obtain ⟨a', b'⟩ := ih _ hstep.1
    refine ⟨a', ?_⟩
    rw [runB_cons, numInsertsB_cons]
    omega

end cuckooBytes

/-! ## Top-K (in memory: Count-Min sketch + `container/heap`) -/

section topk
open Gostatix.TopK

/-- what `TopK.WriteTo` encodes: `k`, the bit patterns of `errorRate` and `accuracy` (arguments),
    the sketch (with its `allSum`: argument), the heap slice in slice order -/
def imgOfTopK (enc : String → Bytes) (t : TopK) (er acc allSum : Nat) : TopKImg :=
  ⟨t.k, er, acc, imgOfCMS t.sketch allSum, t.heap.toList.map (fun e => (enc e.1, e.2))⟩

/-- one `Insert(x, c)`: element, its sketch positions (one per row), count -/
abbrev TKOp := String × List Nat × Nat

def tkStep (t : TopK) (o : TKOp) : TopK := t.insert o.1 o.2.1 o.2.2
def tkRun (t : TopK) (ops : List TKOp) : TopK := ops.foldl tkStep t
/-- `NewTopK`: an empty heap over a fresh sketch -/
def tkInit (k rows cols : Nat) : TopK := ⟨k, CMS.new rows cols, #[]⟩
/-- sum of all inserted counts -/
def tkTotal (ops : List TKOp) : Nat := sumL (ops.map (·.2.2))

/-- `TopK.runInserts` (positions a function of the name) is a special case of `tkRun` -/
theorem runInserts_eq_tkRun (posOf : String → List Nat) (t : TopK) (ops : List (String × Nat)) :
    runInserts posOf t ops = tkRun t (ops.map (fun o => (o.1, posOf o.1, o.2))) := by
  induction ops generalizing t with
  | nil => rfl
  | cons o ops ih =>
    simp only [runInserts, List.foldl_cons, tkRun, List.map_cons] at *
    rw [ih]; rfl

/-- consequences of one specification step that do not depend on how ties are broken -/
theorem step_mem {k : Nat} {heap heap' : List (String × Nat)} {xf : String × Nat}
    (hs : Step k heap xf heap') : ∀ p ∈ heap', p ∈ heap ∨ p = xf := by
  obtain ⟨hadm, hrej⟩ := hs
  intro p hp
  by_cases hA : Admit k heap xf.2
  · obtain ⟨hev, hkeep⟩ := hadm hA
    have hup : p ∈ upsert heap xf.1 xf.2 := by
      by_cases hgt : k < (upsert heap xf.1 xf.2).length
      · obtain ⟨v, _, _, hperm⟩ := hev hgt
        exact List.mem_of_mem_erase (hperm.mem_iff.1 hp)
      · exact (hkeep hgt).mem_iff.1 hp
    rcases (mem_upsert heap xf.1 xf.2 p).1 hup with h | h
    · exact Or.inl h.1
    · exact Or.inr h
  · exact Or.inl ((hrej hA).mem_iff.1 hp)

theorem step_length {k : Nat} {heap heap' : List (String × Nat)} {xf : String × Nat}
    (hs : Step k heap xf heap') (hle : heap.length ≤ k) : heap'.length ≤ k := by
  obtain ⟨hadm, hrej⟩ := hs
  by_cases hA : Admit k heap xf.2
  · obtain ⟨hev, hkeep⟩ := hadm hA
    have hu := upsert_length_le heap xf.1 xf.2
    by_cases hgt : k < (upsert heap xf.1 xf.2).length
    · obtain ⟨v, hv, _, hperm⟩ := hev hgt
      rw [hperm.length_eq, List.length_erase_of_mem hv]
      omega
    · rw [(hkeep hgt).length_eq]; omega
  · rw [(hrej hA).length_eq]; exact hle

/-- the invariant of a Top-K state whose inserted counts sum to `T`:
    sketch shape and cell bound, heap order and distinct names (what the heap code needs to
    behave as specified), at most `k` entries, every entry has a name satisfying `Q` and a
    frequency at most `T` -/
structure TKInv (Q : String → Prop) (rows cols T : Nat) (t : TopK) : Prop where
  srows : t.sketch.rows = rows
  scols : t.sketch.cols = cols
  shape : CMS.Shape t.sketch.m rows cols
  bound : Bounded t.sketch.m T
  heap : HeapInv t.heap
  nodup : (t.heap.toList.map (·.1)).Nodup
  size : t.heap.size ≤ t.k
  entries : ∀ e ∈ t.heap.toList, Q e.1 ∧ e.2 ≤ T

theorem tkInit_inv (Q : String → Prop) (k rows cols : Nat) :
    TKInv Q rows cols 0 (tkInit k rows cols) where
  srows := rfl
  scols := rfl
  shape := CMS.new_shape rows cols
  bound := bounded_new rows cols
  heap := by intro i hi; simp [tkInit] at hi
  nodup := by simp [tkInit]
  size := by simp [tkInit]
  entries := by intro e he; simp [tkInit] at he

theorem tkStep_inv (Q : String → Prop) (rows cols T : Nat) (t : TopK) (o : TKOp)
    (h : TKInv Q rows cols T t) (hq : Q o.1) :
    TKInv Q rows cols (T + o.2.2) (tkStep t o) ∧ (tkStep t o).k = t.k := by
  obtain ⟨x, pos, c⟩ := o
  have hb : Bounded (t.sketch.update pos c).m (T + c) := bounded_updRows _ pos c T h.bound
  have hf : (t.sketch.update pos c).count pos ≤ T + c := count_le_of_bounded _ pos _ hb
  obtain ⟨hstep, hinv⟩ := mem_refines_spec t.k t.heap x ((t.sketch.update pos c).count pos)
    h.heap h.nodup
  refine ⟨⟨h.srows, h.scols, CMS.updRows_shape _ pos c _ _ h.shape, hb, hinv,
    step_nodup hstep h.nodup, ?_, ?_⟩, rfl⟩
  · have := step_length hstep (by simpa using h.size)
    simpa [tkStep, TopK.insert] using this
  · intro e he
    rcases step_mem hstep e he with h' | rfl
    · exact ⟨(h.entries e h').1, Nat.le_trans (h.entries e h').2 (Nat.le_add_right _ _)⟩
    · exact ⟨hq, hf⟩

theorem tkRun_inv (Q : String → Prop) (rows cols T : Nat) (t : TopK) (ops : List TKOp)
    (h : TKInv Q rows cols T t) (hq : ∀ o ∈ ops, Q o.1) :
    TKInv Q rows cols (T + tkTotal ops) (tkRun t ops) ∧ (tkRun t ops).k = t.k := by
  induction ops generalizing t T with
  | nil => exact ⟨by simpa [tkTotal, tkRun] using h, rfl⟩
  | cons o ops ih =>
    obtain ⟨a, b⟩ := tkStep_inv Q rows cols T t o h (hq o List.mem_cons_self)
    obtain ⟨a', b'⟩ := ih _ _ a (fun o' ho => hq o' (List.mem_cons_of_mem _ ho))
    have e : T + tkTotal (o :: ops) = T + o.2.2 + tkTotal ops := by
      simp [tkTotal]; omega
    rw [e]
    exact ⟨a', b'.trans b⟩

theorem imgOfTopK_wf (enc : String → Bytes) (t : TopK) (er acc allSum rows cols T : Nat)
    (h : TKInv (fun x => (enc x).length < 2 ^ 64) rows cols T t)
    (hk : t.k < 2 ^ 64) (hr : rows < 2 ^ 64) (hc : cols < 2 ^ 64) (hT : T < 2 ^ 64)
    (her : er < 2 ^ 64) (hacc : acc < 2 ^ 64) (ha : allSum < 2 ^ 64) :
    (imgOfTopK enc t er acc allSum).WF := by
  refine ⟨hk, her, hacc, ?_, ?_, ?_⟩
  · exact imgOfCMS_wf t.sketch allSum T (by rw [h.srows, h.scols]; exact h.shape) h.bound
      (by rw [h.srows]; exact hr) (by rw [h.scols]; exact hc) ha hT
  · have := h.size
    simp only [imgOfTopK, List.length_map, Array.length_toList]
    omega
  · intro e he
    simp only [imgOfTopK, List.mem_map] at he
    obtain ⟨e0, he0, rfl⟩ := he
    obtain ⟨q1, q2⟩ := h.entries e0 he0
    exact ⟨q1, Nat.lt_of_le_of_lt q2 hT⟩

end topk

end Gostatix.Reach
