/-
  Gostatix.Proofs.CuckooList — list / `modAt` helper lemmas used by the cuckoo-filter proofs.
  Core Lean only.
-/
import Gostatix.Model.Basic
import Gostatix.Model.Cuckoo
set_option linter.unusedSectionVars false
namespace Gostatix

/-! ### indicator -/

/-- `ind p` = 1 if `p` else 0 -/
abbrev ind (p : Prop) [Decidable p] : Nat := if p then 1 else 0

theorem ind_eq_comm {α : Type} [DecidableEq α] (a b : α) : ind (a = b) = ind (b = a) := by
  unfold ind
  by_cases h : a = b
  · rw [if_pos h, if_pos h.symm]
  · rw [if_neg h, if_neg (fun e => h e.symm)]

/-! ### occupied slots of a slot list -/

section occ
variable {F : Type} [DecidableEq F]

/-- number of non-`emp` entries of a slot list -/
def occ (emp : F) (l : List F) : Nat := l.countP (fun x => decide (x ≠ emp))

@[simp] theorem occ_nil (emp : F) : occ emp [] = 0 := rfl

theorem occ_cons (emp : F) (a : F) (l : List F) :
    occ emp (a :: l) = occ emp l + ind (a ≠ emp) := by
  unfold occ ind
  rw [List.countP_cons]
  by_cases h : a = emp <;> simp [h]

theorem occ_add_count (emp : F) (l : List F) : occ emp l + l.count emp = l.length := by
  induction l with
  | nil => simp
  | cons a l ih =>
    rw [occ_cons, List.count_cons, List.length_cons]
    by_cases h : a = emp <;> simp [ind, h] <;> omega

theorem occ_le_length (emp : F) (l : List F) : occ emp l ≤ l.length := by
  have := occ_add_count emp l; omega

theorem occ_append (emp : F) (a b : List F) : occ emp (a ++ b) = occ emp a + occ emp b := by
  unfold occ; exact List.countP_append

theorem occ_replicate_emp (emp : F) (k : Nat) : occ emp (List.replicate k emp) = 0 := by
  induction k with
  | zero => rfl
  | succ k ih => rw [List.replicate_succ, occ_cons, ih]; simp [ind]

/-- a slot list without empty slot: every entry is a fingerprint -/
theorem not_mem_emp_of_occ_eq_length (emp : F) (l : List F) (h : occ emp l = l.length) :
    emp ∉ l := by
  have := occ_add_count emp l
  have h0 : l.count emp = 0 := by omega
  exact List.count_eq_zero.mp h0

theorem mem_emp_of_occ_lt_length (emp : F) (l : List F) (h : occ emp l < l.length) :
    emp ∈ l := by
  have := occ_add_count emp l
  have h0 : 0 < l.count emp := by omega
  exact List.count_pos_iff.mp h0

theorem occ_eq_zero_iff (emp : F) (l : List F) : occ emp l = 0 ↔ ∀ x ∈ l, x = emp := by
  induction l with
  | nil => simp
  | cons a l ih =>
    rw [occ_cons]
    by_cases h : a = emp
    · simp [ind, h, ih]
    · simp [ind, h]

theorem getD_ne_emp_of_not_mem (emp : F) (l : List F) (i : Nat) (hi : i < l.length) (h : emp ∉ l) :
    l.getD i emp ≠ emp := by
  intro e
  apply h
  have : l.getD i emp = l[i] := by simp [List.getD_eq_getElem?_getD, hi]
  rw [this] at e
  rw [← e]; exact List.getElem_mem hi

/-- additive form of `List.count_set` (no truncated subtraction) -/
theorem count_set_add (l : List F) (i : Nat) (v d g : F) (hi : i < l.length) :
    (l.set i v).count g + ind (l.getD i d = g) = l.count g + ind (v = g) := by
  induction l generalizing i with
  | nil => simp at hi
  | cons a l ih =>
    cases i with
    | zero =>
      simp only [List.set_cons_zero, List.count_cons, List.getD_cons_zero, ind, beq_iff_eq]
      omega
    | succ i =>
      have := ih i (by simpa using hi)
      simp only [List.set_cons_succ, List.count_cons, List.getD_cons_succ] at this ⊢
      omega

theorem occ_set_add (emp : F) (l : List F) (i : Nat) (v d : F) (hi : i < l.length) :
    occ emp (l.set i v) + ind (l.getD i d ≠ emp) = occ emp l + ind (v ≠ emp) := by
  induction l generalizing i with
  | nil => simp at hi
  | cons a l ih =>
    cases i with
    | zero =>
      simp only [List.set_cons_zero, occ_cons, List.getD_cons_zero]
      omega
    | succ i =>
      have := ih i (by simpa using hi)
      simp only [List.set_cons_succ, occ_cons, List.getD_cons_succ] at this ⊢
      omega

theorem set_getD_self (l : List F) (i : Nat) (d : F) : l.set i (l.getD i d) = l := by
  induction l generalizing i with
  | nil => rfl
  | cons a l ih =>
    cases i with
    | zero => simp
    | succ i => simp only [List.set_cons_succ, List.getD_cons_succ, ih i]

theorem set_set_getD (l : List F) (i : Nat) (v d : F) : (l.set i v).set i (l.getD i d) = l := by
  rw [List.set_set, set_getD_self]

theorem idxOf_lt_of_mem (l : List F) (a : F) (h : a ∈ l) : l.idxOf a < l.length :=
  List.idxOf_lt_length_iff.mpr h

theorem getD_idxOf (l : List F) (a d : F) (h : a ∈ l) : l.getD (l.idxOf a) d = a := by
  have hi := idxOf_lt_of_mem l a h
  have : l.getD (l.idxOf a) d = l[l.idxOf a] := by simp [List.getD_eq_getElem?_getD, hi]
  rw [this]; exact List.getElem_idxOf hi

end occ

/-! ### `modAt` -/

section modAt
variable {α : Type}

theorem modAt_modAt_same (l : List α) (i : Nat) (f g : α → α) :
    modAt (modAt l i f) i g = modAt l i (fun a => g (f a)) := by
  induction l generalizing i with
  | nil => rfl
  | cons a as ih => cases i <;> simp [modAt, ih]

theorem modAt_id (l : List α) (i : Nat) : modAt l i (fun a => a) = l := by
  induction l generalizing i with
  | nil => rfl
  | cons a as ih => cases i <;> simp [modAt, ih]

/-- `modAt` only looks at `f` on the element at position `i` -/
theorem modAt_congr (l : List α) (i : Nat) (f g : α → α) (d : α)
    (h : f (l.getD i d) = g (l.getD i d)) : modAt l i f = modAt l i g := by
  induction l generalizing i with
  | nil => rfl
  | cons a as ih =>
    cases i with
    | zero => simpa [modAt] using h
    | succ i => simp only [modAt]; rw [ih i (by simpa using h)]

theorem modAt_eq_self (l : List α) (i : Nat) (f : α → α) (d : α)
    (h : f (l.getD i d) = l.getD i d) : modAt l i f = l := by
  rw [modAt_congr l i f (fun a => a) d h, modAt_id]

theorem forall_mem_modAt (l : List α) (i : Nat) (f : α → α) (d : α) (P : α → Prop)
    (h : ∀ a ∈ l, P a) (hf : i < l.length → P (f (l.getD i d))) : ∀ a ∈ modAt l i f, P a := by
  induction l generalizing i with
  | nil => intro a ha; simp [modAt] at ha
  | cons x xs ih =>
    cases i with
    | zero =>
      intro a ha
      simp only [modAt, List.mem_cons] at ha
      rcases ha with rfl | ha
      · exact hf (by simp)
      · exact h a (List.mem_cons_of_mem _ ha)
    | succ i =>
      intro a ha
      simp only [modAt, List.mem_cons] at ha
      rcases ha with rfl | ha
      · exact h _ (List.mem_cons_self)
      · exact ih i (fun a ha => h a (List.mem_cons_of_mem _ ha))
          (fun hi => by simpa using hf (by simpa using hi)) a ha

/-- sum of a bucket measure -/
def tot (m : α → Nat) (l : List α) : Nat := (l.map m).sum

@[simp] theorem tot_nil (m : α → Nat) : tot m [] = 0 := rfl
@[simp] theorem tot_cons (m : α → Nat) (a : α) (l : List α) : tot m (a :: l) = m a + tot m l := by
  simp [tot]

theorem tot_modAt (m : α → Nat) (l : List α) (i : Nat) (f : α → α) (d : α) (hi : i < l.length) :
    tot m (modAt l i f) + m (l.getD i d) = tot m l + m (f (l.getD i d)) := by
  induction l generalizing i with
  | nil => simp at hi
  | cons a as ih =>
    cases i with
    | zero => simp [modAt]; omega
    | succ i =>
      have := ih i (by simpa using hi)
      simp only [modAt, tot_cons, List.getD_cons_succ] at this ⊢
      omega

theorem tot_eq_zero_iff (m : α → Nat) (l : List α) : tot m l = 0 ↔ ∀ a ∈ l, m a = 0 := by
  induction l with
  | nil => simp
  | cons a l ih => simp [ih]

theorem tot_replicate (m : α → Nat) (k : Nat) (a : α) : tot m (List.replicate k a) = k * m a := by
  induction k with
  | zero => simp
  | succ k ih => rw [List.replicate_succ, tot_cons, ih, Nat.succ_mul]; omega

theorem getD_mem_of_lt (l : List α) (i : Nat) (d : α) (hi : i < l.length) : l.getD i d ∈ l := by
  have : l.getD i d = l[i] := by simp [List.getD_eq_getElem?_getD, hi]
  rw [this]; exact List.getElem_mem hi

end modAt

end Gostatix
