/-
  Gostatix.Proofs.TopKHist — lemmas about histories: `trueTotal`, `total`, `distinct`,
  the last estimate of an element, and the snoc forms of `EstOK` / `Exact`.
-/
import Gostatix.Model.TopKSpec
namespace Gostatix.TopK

variable {E : Type} [DecidableEq E]

/-! ### induction from the right -/

theorem snocInd {α : Type} {P : List α → Prop} (nil : P [])
    (snoc : ∀ l a, P l → P (l ++ [a])) : ∀ l, P l := by
  intro l
  rw [← List.reverse_reverse l]
  induction l.reverse with
  | nil => exact nil
  | cons a t ih => rw [List.reverse_cons]; exact snoc _ _ ih

/-! ### totals -/

theorem trueTotal_append (a b : List (Event E)) (y : E) :
    trueTotal (a ++ b) y = trueTotal a y + trueTotal b y := by
  simp [trueTotal, List.filter_append, List.map_append, List.sum_append]

omit [DecidableEq E] in
theorem total_append (a b : List (Event E)) : total (a ++ b) = total a + total b := by
  simp [total, List.map_append, List.sum_append]

@[simp] theorem trueTotal_nil (y : E) : trueTotal ([] : List (Event E)) y = 0 := rfl
omit [DecidableEq E] in
@[simp] theorem total_nil : total ([] : List (Event E)) = 0 := rfl

theorem trueTotal_single (e : Event E) (y : E) :
    trueTotal [e] y = if e.x = y then e.c else 0 := by
  by_cases h : e.x = y <;> simp [trueTotal, h]

omit [DecidableEq E] in
theorem total_single (e : Event E) : total [e] = e.c := by simp [total]

theorem trueTotal_snoc_self (evs : List (Event E)) (e : Event E) :
    trueTotal (evs ++ [e]) e.x = trueTotal evs e.x + e.c := by
  rw [trueTotal_append, trueTotal_single]; simp

theorem trueTotal_snoc_ne (evs : List (Event E)) (e : Event E) (y : E) (h : e.x ≠ y) :
    trueTotal (evs ++ [e]) y = trueTotal evs y := by
  rw [trueTotal_append, trueTotal_single]; simp [h]

theorem trueTotal_le_total (evs : List (Event E)) (y : E) : trueTotal evs y ≤ total evs := by
  induction evs with
  | nil => simp
  | cons e evs ih =>
    have h1 := trueTotal_append [e] evs y
    have h2 := total_append [e] evs
    simp only [List.singleton_append] at h1 h2
    rw [h1, h2, trueTotal_single, total_single]
    split <;> omega

theorem trueTotal_le_snoc (evs : List (Event E)) (e : Event E) (y : E) :
    trueTotal evs y ≤ trueTotal (evs ++ [e]) y := by
  rw [trueTotal_append]; omega

omit [DecidableEq E] in
theorem total_le_snoc (evs : List (Event E)) (e : Event E) : total evs ≤ total (evs ++ [e]) := by
  rw [total_append]; omega

/-! ### distinct -/

theorem mem_distinct (l : List E) (y : E) : y ∈ distinct l ↔ y ∈ l := by
  induction l with
  | nil => simp [distinct]
  | cons a l ih =>
    simp only [distinct]
    split
    · rename_i h
      rw [ih, List.mem_cons]
      constructor
      · exact Or.inr
      · rintro (rfl | h') <;> assumption
    · simp [ih]

theorem distinct_nodup (l : List E) : (distinct l).Nodup := by
  induction l with
  | nil => simp [distinct]
  | cons a l ih =>
    simp only [distinct]
    split
    · exact ih
    · rename_i h
      rw [List.nodup_cons]
      exact ⟨fun h' => h ((mem_distinct l a).1 h'), ih⟩

/-- a duplicate-free list contained (as a set) in another list is not longer -/
theorem length_le_of_nodup_subset {α : Type} [DecidableEq α] :
    ∀ (l l' : List α), l.Nodup → (∀ a ∈ l, a ∈ l') → l.length ≤ l'.length
  | [], _, _, _ => by simp
  | a :: l, l', hn, hs => by
    rw [List.nodup_cons] at hn
    have ha : a ∈ l' := hs a (by simp)
    have hsub : ∀ b ∈ l, b ∈ l'.erase a := by
      intro b hb
      have hne : b ≠ a := fun h => hn.1 (h ▸ hb)
      exact (List.mem_erase_of_ne hne).2 (hs b (by simp [hb]))
    have ih := length_le_of_nodup_subset l (l'.erase a) hn.2 hsub
    rw [List.length_erase_of_mem ha] at ih
    have : 0 < l'.length := List.length_pos_of_mem ha
    simp only [List.length_cons]; omega

/-! ### the last estimate of an element -/

/-- the estimate carried by the last event of `y` in the history -/
def lastEst (evs : List (Event E)) (y : E) : Option Nat :=
  evs.foldl (fun acc e => if e.x = y then some e.f else acc) none

@[simp] theorem lastEst_nil (y : E) : lastEst ([] : List (Event E)) y = none := rfl

theorem lastEst_snoc (evs : List (Event E)) (e : Event E) (y : E) :
    lastEst (evs ++ [e]) y = if e.x = y then some e.f else lastEst evs y := by
  simp [lastEst, List.foldl_append]

theorem lastEst_snoc_self (evs : List (Event E)) (e : Event E) :
    lastEst (evs ++ [e]) e.x = some e.f := by simp [lastEst_snoc]

theorem lastEst_snoc_ne (evs : List (Event E)) (e : Event E) (y : E) (h : e.x ≠ y) :
    lastEst (evs ++ [e]) y = lastEst evs y := by simp [lastEst_snoc, h]

/-- the last estimate is the estimate of some event of the element -/
theorem lastEst_mem (evs : List (Event E)) (y : E) (g : Nat) :
    lastEst evs y = some g → ∃ e ∈ evs, e.x = y ∧ e.f = g := by
  induction evs using snocInd with
  | nil => simp
  | snoc evs e ih =>
    rw [lastEst_snoc]
    split
    · rename_i h
      intro hg
      exact ⟨e, by simp, h, by simpa using hg⟩
    · intro hg
      obtain ⟨e', he', h1, h2⟩ := ih hg
      exact ⟨e', by simp [he'], h1, h2⟩

/-- an element that occurs in the history has a last estimate -/
theorem lastEst_of_mem (evs : List (Event E)) (e : Event E) (he : e ∈ evs) :
    ∃ g, lastEst evs e.x = some g := by
  induction evs using snocInd with
  | nil => cases he
  | snoc evs e' ih =>
    rw [lastEst_snoc]
    split
    · exact ⟨_, rfl⟩
    · rename_i h
      rcases List.mem_append.1 he with h' | h'
      · exact ih h'
      · simp at h'; subst h'; exact absurd rfl h

/-! ### snoc forms of the hypotheses on the estimates -/

theorem estOK_snoc (evs : List (Event E)) (e : Event E) :
    EstOK (evs ++ [e]) ↔
      EstOK evs ∧ trueTotal (evs ++ [e]) e.x ≤ e.f ∧ e.f ≤ total (evs ++ [e]) ∧
      ∀ e' ∈ evs, e'.x = e.x → e'.f ≤ e.f := by
  constructor
  · rintro ⟨hb, hm⟩
    refine ⟨⟨?_, ?_⟩, ?_, ?_, ?_⟩
    · intro i hi
      have := hb i (by simp; omega)
      rw [List.getElem_append_left hi, List.take_append_of_le_length (by omega)] at this
      exact this
    · intro j hj i hi
      have := hm j (by simp; omega) i hi
      rw [List.getElem_append_left hj, List.getElem_append_left (by omega)] at this
      exact this
    · have := hb evs.length (by simp)
      rw [List.getElem_concat_length rfl] at this
      rw [List.take_of_length_le (by simp)] at this
      exact this.1
    · have := hb evs.length (by simp)
      rw [List.getElem_concat_length rfl] at this
      rw [List.take_of_length_le (by simp)] at this
      exact this.2
    · intro e' he' hx
      obtain ⟨i, hi, rfl⟩ := List.getElem_of_mem he'
      have := hm evs.length (by simp) i hi
      rw [List.getElem_concat_length rfl, List.getElem_append_left hi] at this
      exact this hx
  · rintro ⟨⟨hb, hm⟩, h1, h2, h3⟩
    refine ⟨?_, ?_⟩
    · intro i hi
      by_cases hlt : i < evs.length
      · rw [List.getElem_append_left hlt, List.take_append_of_le_length (by omega)]
        exact hb i hlt
      · have : i = evs.length := by simp at hi; omega
        subst this
        rw [List.getElem_concat_length rfl, List.take_of_length_le (by simp)]
        exact ⟨h1, h2⟩
    · intro j hj i hi
      by_cases hlt : j < evs.length
      · rw [List.getElem_append_left hlt, List.getElem_append_left (by omega)]
        exact hm j hlt i hi
      · have : j = evs.length := by simp at hj; omega
        subst this
        rw [List.getElem_concat_length rfl, List.getElem_append_left hi]
        exact h3 _ (List.getElem_mem hi)

theorem exact_snoc (evs : List (Event E)) (e : Event E) :
    Exact (evs ++ [e]) ↔ Exact evs ∧ e.f = trueTotal (evs ++ [e]) e.x := by
  constructor
  · intro h
    refine ⟨?_, ?_⟩
    · intro i hi
      have := h i (by simp; omega)
      rw [List.getElem_append_left hi, List.take_append_of_le_length (by omega)] at this
      exact this
    · have := h evs.length (by simp)
      rw [List.getElem_concat_length rfl, List.take_of_length_le (by simp)] at this
      exact this
  · rintro ⟨h, h1⟩ i hi
    by_cases hlt : i < evs.length
    · rw [List.getElem_append_left hlt, List.take_append_of_le_length (by omega)]
      exact h i hlt
    · have : i = evs.length := by simp at hi; omega
      subst this
      rw [List.getElem_concat_length rfl, List.take_of_length_le (by simp)]
      exact h1

/-- the last estimate of an element satisfies the Count-Min bounds w.r.t. the WHOLE history
    (later events of other elements do not change its true total and only raise the total). -/
theorem lastEst_bounds (evs : List (Event E)) (h : EstOK evs) (y : E) (g : Nat)
    (hg : lastEst evs y = some g) : trueTotal evs y ≤ g ∧ g ≤ total evs := by
  induction evs using snocInd with
  | nil => simp at hg
  | snoc evs e ih =>
    obtain ⟨h0, h1, h2, _⟩ := (estOK_snoc evs e).1 h
    rw [lastEst_snoc] at hg
    split at hg
    · rename_i hx
      subst hx
      have : e.f = g := by simpa using hg
      subst this
      exact ⟨h1, h2⟩
    · rename_i hx
      have := ih h0 hg
      rw [trueTotal_snoc_ne evs e y hx]
      exact ⟨this.1, Nat.le_trans this.2 (total_le_snoc evs e)⟩

/-- with exact estimates the last estimate of an element is its true total -/
theorem lastEst_exact (evs : List (Event E)) (h : Exact evs) (y : E) (g : Nat)
    (hg : lastEst evs y = some g) : g = trueTotal evs y := by
  induction evs using snocInd with
  | nil => simp at hg
  | snoc evs e ih =>
    obtain ⟨h0, h1⟩ := (exact_snoc evs e).1 h
    rw [lastEst_snoc] at hg
    split at hg
    · rename_i hx
      subst hx
      have : e.f = g := by simpa using hg
      rw [← this, h1]
    · rename_i hx
      rw [trueTotal_snoc_ne evs e y hx]
      exact ih h0 hg

/-- exact estimates satisfy the Count-Min hypotheses -/
theorem exact_estOK (evs : List (Event E)) (h : Exact evs) : EstOK evs := by
  induction evs using snocInd with
  | nil => exact ⟨fun i hi => by simp at hi, fun j hj => by simp at hj⟩
  | snoc evs e ih =>
    obtain ⟨h0, h1⟩ := (exact_snoc evs e).1 h
    refine (estOK_snoc evs e).2 ⟨ih h0, by omega, ?_, ?_⟩
    · rw [h1]; exact trueTotal_le_total _ _
    · intro e' he' hx
      obtain ⟨i, hi, rfl⟩ := List.getElem_of_mem he'
      rw [h0 i hi, h1, hx]
      have hsplit : evs ++ [e] = evs.take (i + 1) ++ (evs.drop (i + 1) ++ [e]) := by
        rw [← List.append_assoc, List.take_append_drop]
      rw [hsplit, trueTotal_append]
      omega

end Gostatix.TopK
