/-
  Gostatix.Proofs.CMSProb — finite counting lemmas behind the Count-Min (ε, δ) guarantee under
  IDEAL hashing (`Props/C15Prob.lean`).  No measure theory: "probability" is a fraction of a
  finite family of functions.

   * `sumL_filter_eq_sum`      a filtered history total is a sum of true counts over the universe;
   * `card_agree_mul`          #{f : E → Fin w | f y = f x} · w = #(E → Fin w)   for y ≠ x;
   * `sum_rowOver_mul`         double counting of the collision mass of one row;
   * `card_bad_row_mul_exp`    Markov for one row: #B · e ≤ #(E → Fin w);
   * `card_le_pow_of_forall`   a set of `d`-tuples all of whose components lie in `B` has ≤ #B^d
                               elements (independence of the rows = product set);
   * `pow_le_delta_mul`        (1/e)^d = exp(-d) ≤ δ.
-/
import Mathlib.Analysis.SpecialFunctions.Exp
import Mathlib.Data.Fintype.BigOperators
import Mathlib.Data.Fintype.Pi
import Mathlib.Algebra.Order.BigOperators.Group.Finset
import Gostatix.Props.C03
namespace Gostatix.CMS
open Finset

section counting
variable {E : Type} [Fintype E] [DecidableEq E]

omit [Fintype E] in
theorem trueCount_cons (ec : E × Nat) (h : List (E × Nat)) (y : E) :
    trueCount (ec :: h) y = (if ec.1 = y then ec.2 else 0) + trueCount h y := by
  unfold trueCount
  simp only [List.filter_cons]
  split <;> simp_all

/-- the total of the entries of `h` whose element satisfies `p` is the sum of the true counts of
    the elements of the universe that satisfy `p`. -/
theorem sumL_filter_eq_sum (p : E → Prop) [DecidablePred p] (h : List (E × Nat)) :
    sumL ((h.filter (fun ec => decide (p ec.1))).map (·.2))
      = ∑ y ∈ univ.filter p, trueCount h y := by
  induction h with
  | nil => simp [trueCount]
  | cons ec h ih =>
    simp only [trueCount_cons, Finset.sum_add_distrib, ← ih, Finset.sum_ite_eq, List.filter_cons,
      mem_filter, mem_univ, true_and]
    split <;> simp_all

theorem total_eq_sum (h : List (E × Nat)) : total h = ∑ y : E, trueCount h y := by
  have := sumL_filter_eq_sum (fun _ : E => True) h
  simpa [total] using this

/-- collision mass of `x` in a row hashed by `f`: the counts of the OTHER elements that share
    `x`'s column. -/
def rowOver (tc : E → ℕ) (x : E) {w : ℕ} (f : E → Fin w) : ℕ :=
  ∑ y ∈ univ.filter (fun y => y ≠ x ∧ f y = f x), tc y

theorem sum_same_col (tc : E → ℕ) (x : E) {w : ℕ} (f : E → Fin w) :
    ∑ y ∈ univ.filter (fun y => f y = f x), tc y = tc x + rowOver tc x f := by
  have e : univ.filter (fun y => f y = f x)
      = insert x (univ.filter (fun y => y ≠ x ∧ f y = f x)) := by
    ext y
    by_cases hy : y = x
    · simp [hy]
    · simp [hy]
  rw [e, Finset.sum_insert (by simp), rowOver]

theorem rowOver_le (tc : E → ℕ) (x : E) {w : ℕ} (f : E → Fin w) :
    rowOver tc x f ≤ ∑ y : E, tc y := by
  unfold rowOver
  exact Finset.sum_le_sum_of_subset (Finset.filter_subset _ _)

/-- functions with two prescribed-equal values: a `1/w` fraction of all functions. -/
theorem card_agree_mul (w : ℕ) (x y : E) (hxy : y ≠ x) :
    (univ.filter (fun f : E → Fin w => f y = f x)).card * w = Fintype.card (E → Fin w) := by
  calc (univ.filter (fun f : E → Fin w => f y = f x)).card * w
      = (univ.filter (fun f : E → Fin w => f y = f x)).card * (univ : Finset (Fin w)).card := by
        simp
    _ = ((univ.filter (fun f : E → Fin w => f y = f x)) ×ˢ (univ : Finset (Fin w))).card :=
        (Finset.card_product _ _).symm
    _ = (univ : Finset (E → Fin w)).card := by
        apply Finset.card_nbij' (fun p => Function.update p.1 y p.2)
          (fun k => (Function.update k y (k x), k y))
        · intro p _; simp
        · intro k _
          simp [Function.update_of_ne (Ne.symm hxy)]
        · rintro ⟨f, c⟩ hp
          have hf : f y = f x := by simpa using hp
          have hx : Function.update f y c x = f x := Function.update_of_ne (Ne.symm hxy) _ _
          simp only [hx, Function.update_idem, Function.update_self, ← hf,
            Function.update_eq_self]
        · intro k _
          simp
    _ = Fintype.card (E → Fin w) := Finset.card_univ

/-- double counting: the collision mass summed over all hash functions of a row. -/
theorem sum_rowOver_mul (tc : E → ℕ) (x : E) (w : ℕ) :
    (∑ f : E → Fin w, rowOver tc x f) * w
      = (∑ y ∈ univ.filter (fun y => y ≠ x), tc y) * Fintype.card (E → Fin w) := by
  have h1 : ∀ f : E → Fin w,
      rowOver tc x f = ∑ y ∈ univ.filter (fun y => y ≠ x), if f y = f x then tc y else 0 := by
    intro f
    rw [rowOver, ← Finset.sum_filter, Finset.filter_filter]
  simp only [h1]
  rw [Finset.sum_comm, Finset.sum_mul, Finset.sum_mul]
  apply Finset.sum_congr rfl
  intro y hy
  have hy' : y ≠ x := by simpa using hy
  rw [← card_agree_mul w x y hy', ← Finset.sum_filter, Finset.sum_const, smul_eq_mul]
  ring

end counting

section markov
variable {E : Type} [Fintype E] [DecidableEq E]
open Real

/-- Markov by counting, one row: the hash functions whose collision mass exceeds `ε·N` are at
    most a `1/e` fraction of all functions, when `e ≤ ε·w`. -/
theorem card_bad_row_mul_exp (tc : E → ℕ) (x : E) (w : ℕ) (ε : ℝ)
    (hw : exp 1 ≤ ε * w)
    (B : Finset (E → Fin w))
    (hB : ∀ f ∈ B, ε * ((∑ y : E, tc y : ℕ) : ℝ) < (rowOver tc x f : ℝ)) :
    (B.card : ℝ) * exp 1 ≤ (Fintype.card (E → Fin w) : ℝ) := by
  rcases B.eq_empty_or_nonempty with hBe | ⟨f₀, hf₀⟩
  · subst hBe; simp
  set N : ℕ := ∑ y : E, tc y with hN
  set W : ℕ := Fintype.card (E → Fin w) with hW
  -- N > 0
  have hNpos : (0 : ℝ) < N := by
    have h1 := hB f₀ hf₀
    have h2 : (rowOver tc x f₀ : ℝ) ≤ N := by exact_mod_cast rowOver_le tc x f₀
    by_contra hcon
    have hN0 : (N : ℝ) = 0 := le_antisymm (not_lt.mp hcon) (Nat.cast_nonneg _)
    rw [hN0] at h1 h2
    linarith
  -- Σ_{f ∈ B} over f ≤ Σ_f over f, in ℕ
  have hsub : ∑ f ∈ B, rowOver tc x f ≤ ∑ f : E → Fin w, rowOver tc x f :=
    Finset.sum_le_sum_of_subset (Finset.subset_univ _)
  have hdc := sum_rowOver_mul tc x w
  have hle : (∑ y ∈ univ.filter (fun y => y ≠ x), tc y) ≤ N :=
    Finset.sum_le_sum_of_subset (Finset.filter_subset _ _)
  have hnat : (∑ f ∈ B, rowOver tc x f) * w ≤ N * W := by
    calc (∑ f ∈ B, rowOver tc x f) * w ≤ (∑ f : E → Fin w, rowOver tc x f) * w :=
          Nat.mul_le_mul_right _ hsub
      _ = _ := hdc
      _ ≤ N * W := Nat.mul_le_mul_right _ hle
  have hreal : ((∑ f ∈ B, rowOver tc x f : ℕ) : ℝ) * w ≤ (N : ℝ) * W := by exact_mod_cast hnat
  have hmark : (B.card : ℝ) * (ε * N) ≤ ((∑ f ∈ B, rowOver tc x f : ℕ) : ℝ) := by
    have := Finset.card_nsmul_le_sum B (fun f => (rowOver tc x f : ℝ)) (ε * N)
      (fun f hf => le_of_lt (hB f hf))
    rw [nsmul_eq_mul] at this
    exact_mod_cast this
  have hw0 : (0 : ℝ) ≤ w := Nat.cast_nonneg _
  have hb0 : (0 : ℝ) ≤ B.card := Nat.cast_nonneg _
  have h3 : (B.card : ℝ) * (ε * w) * N ≤ W * N := by
    calc (B.card : ℝ) * (ε * w) * N = (B.card : ℝ) * (ε * N) * w := by ring
      _ ≤ ((∑ f ∈ B, rowOver tc x f : ℕ) : ℝ) * w := mul_le_mul_of_nonneg_right hmark hw0
      _ ≤ (N : ℝ) * W := hreal
      _ = W * N := by ring
  have h4 : (B.card : ℝ) * (ε * w) ≤ W := le_of_mul_le_mul_right h3 hNpos
  calc (B.card : ℝ) * exp 1 ≤ (B.card : ℝ) * (ε * w) := mul_le_mul_of_nonneg_left hw hb0
    _ ≤ W := h4

end markov

/-- independent rows = product set: a set of `d`-tuples with all components in `B`. -/
theorem card_le_pow_of_forall {α : Type} [DecidableEq α] (d : ℕ) (B : Finset α)
    (S : Finset (Fin d → α)) (hS : ∀ g ∈ S, ∀ r, g r ∈ B) : S.card ≤ B.card ^ d := by
  calc S.card ≤ (Fintype.piFinset (fun _ : Fin d => B)).card :=
        Finset.card_le_card (fun g hg => Fintype.mem_piFinset.mpr (hS g hg))
    _ = B.card ^ d := by simp [Fintype.card_piFinset]

/-- `(W/e)^d = W^d · exp(-d) ≤ δ · W^d`. -/
theorem pow_le_delta_mul (b W δ : ℝ) (d : ℕ) (hb : 0 ≤ b) (h1 : b * Real.exp 1 ≤ W)
    (hd : Real.exp (-(d : ℝ)) ≤ δ) : b ^ d ≤ δ * W ^ d := by
  have he : (0 : ℝ) < Real.exp 1 := Real.exp_pos 1
  have hW : 0 ≤ W := le_trans (mul_nonneg hb he.le) h1
  have h2 : b ^ d * Real.exp 1 ^ d ≤ W ^ d := by
    rw [← mul_pow]; exact pow_le_pow_left₀ (mul_nonneg hb he.le) h1 d
  have h3 : Real.exp 1 ^ d = Real.exp d := by
    rw [← Real.exp_nat_mul, mul_one]
  have h4 : Real.exp (d : ℝ) * Real.exp (-(d : ℝ)) = 1 := by
    rw [← Real.exp_add]; simp
  calc b ^ d = b ^ d * Real.exp 1 ^ d * Real.exp (-(d : ℝ)) := by
        rw [h3, mul_assoc, h4, mul_one]
    _ ≤ W ^ d * Real.exp (-(d : ℝ)) :=
        mul_le_mul_of_nonneg_right h2 (Real.exp_pos _).le
    _ ≤ W ^ d * δ := mul_le_mul_of_nonneg_left hd (pow_nonneg hW d)
    _ = δ * W ^ d := mul_comm _ _

end Gostatix.CMS
