/-
  Gostatix.Proofs.TopKRun — glue between the executable model `TopK.insert` (sketch + heap) and
  the specification: the event history of a run, the heap of the run as a fold of `offer`, and
  the monotonicity half of `EstOK` discharged from the sketch.
-/
import Gostatix.Proofs.TopKMem
import Gostatix.Proofs.TopKCMS
namespace Gostatix.TopK

/-- the events `(x, c, estimate after the update)` of a run of `Insert(x, c)` calls starting
    from sketch `s`; `posOf x` are the sketch positions of `x` -/
def sketchEvents (posOf : String → List Nat) (s : CMS) : List (String × Nat) → List (Event String)
  | [] => []
  | (x, c) :: ops =>
    ⟨x, c, (s.update (posOf x) c).count (posOf x)⟩ :: sketchEvents posOf (s.update (posOf x) c) ops

/-- a run of `TopK.insert` -/
def runInserts (posOf : String → List Nat) (t : TopK) (ops : List (String × Nat)) : TopK :=
  ops.foldl (fun t o => t.insert o.1 (posOf o.1) o.2) t

theorem runInserts_k (posOf : String → List Nat) (t : TopK) (ops : List (String × Nat)) :
    (runInserts posOf t ops).k = t.k := by
  induction ops generalizing t with
  | nil => rfl
  | cons o ops ih => simp only [runInserts, List.foldl_cons] at *; rw [ih]; rfl

/-- the heap of a run is the fold of `offer` over the run's events -/
theorem runInserts_heap (posOf : String → List Nat) (t : TopK) (ops : List (String × Nat)) :
    (runInserts posOf t ops).heap =
      (sketchEvents posOf t.sketch ops).foldl (fun h e => offer t.k h e.x e.f) t.heap := by
  induction ops generalizing t with
  | nil => rfl
  | cons o ops ih =>
    obtain ⟨x, c⟩ := o
    simp only [runInserts, List.foldl_cons, sketchEvents] at *
    rw [ih]
    rfl

/-- later events of an element carry an estimate at least the current one -/
theorem sketchEvents_ge (posOf : String → List Nat) (s : CMS) (ops : List (String × Nat))
    (e : Event String) (he : e ∈ sketchEvents posOf s ops) : s.count (posOf e.x) ≤ e.f := by
  induction ops generalizing s with
  | nil => cases he
  | cons o ops ih =>
    obtain ⟨x, c⟩ := o
    simp only [sketchEvents, List.mem_cons] at he
    rcases he with rfl | he
    · exact CMS.count_update_ge s (posOf x) (posOf x) c
    · exact Nat.le_trans (CMS.count_update_ge s (posOf x) (posOf e.x) c) (ih _ he)

theorem sketchEvents_mono (posOf : String → List Nat) (s : CMS) (ops : List (String × Nat)) :
    (sketchEvents posOf s ops).Pairwise (fun a b => a.x = b.x → a.f ≤ b.f) := by
  induction ops generalizing s with
  | nil => simp [sketchEvents]
  | cons o ops ih =>
    obtain ⟨x, c⟩ := o
    simp only [sketchEvents, List.pairwise_cons]
    refine ⟨?_, ih _⟩
    intro e he hx
    have := sketchEvents_ge posOf _ ops e he
    have hx' : x = e.x := hx
    rw [← hx'] at this
    exact this

/-- `EstOK` from its two halves: the Count-Min bounds at every insert (C02/C03) and the
    monotonicity of the estimates of one element. -/
theorem estOK_of_bounds_mono (evs : List (Event String))
    (hb : ∀ i (h : i < evs.length),
      trueTotal (evs.take (i + 1)) evs[i].x ≤ evs[i].f ∧ evs[i].f ≤ total (evs.take (i + 1)))
    (hm : evs.Pairwise (fun a b => a.x = b.x → a.f ≤ b.f)) : EstOK evs := by
  refine ⟨hb, ?_⟩
  intro j hj i hi
  exact (List.pairwise_iff_getElem.1 hm) i j (Nat.lt_trans hi hj) hj hi

end Gostatix.TopK
