/-
  Gostatix.Proofs.CuckooRedis — the Redis-backed cuckoo filter (`BucketRedis.ops emp`): concrete
  well-formedness predicate and counting functions used to state the property theorems, and
  their identification with the generic (`LawfulBucket`) notions.
-/
import Gostatix.Proofs.CuckooHistory
set_option linter.unusedSectionVars false
namespace Gostatix

/-- default bucket for concrete examples over `Nat` fingerprints (never read on valid positions) -/
instance instInhabitedBucketRedisNat : Inhabited (BucketRedis Nat) := ⟨⟨0, [], 0⟩⟩

namespace Cuckoo.Redis

section
variable {F : Type} [DecidableEq F] [Inhabited (BucketRedis F)]

/-- number of list entries of bucket `j` holding `f` -/
def cnt (c : Cuckoo (BucketRedis F)) (j : Nat) (f : F) : Nat := (bucketAt c.buckets j).list.count f

/-- orbit count: copies of `f` stored in the candidate pair `{j, alt j f}` -/
def kc (alt : Nat → F → Nat) (c : Cuckoo (BucketRedis F)) (j : Nat) (f : F) : Nat :=
  if alt j f = j then cnt c j f else cnt c j f + cnt c (alt j f) f

/-- all list entries of the table, bucket after bucket -/
def allSlots (c : Cuckoo (BucketRedis F)) : List F := (c.buckets.map (·.list)).flatten

/-- number of occupied (non-`emp`) entries of the table -/
def stored (emp : F) (c : Cuckoo (BucketRedis F)) : Nat := occ emp (allSlots c)

/-- well-formed Redis-backed filter -/
structure WF (emp : F) (c : Cuckoo (BucketRedis F)) : Prop where
  nbuckets : c.buckets.length = c.n
  bucket : ∀ b ∈ c.buckets, b.size = c.bsize ∧ b.list.length ≤ c.bsize ∧ b.len = occ emp b.list
  length : c.length = stored emp c

/-- the filter `NewCuckooFilterRedis` builds: `n` empty lists -/
def empty (n bsize fpl retries : Nat) : Cuckoo (BucketRedis F) :=
  ⟨n, bsize, fpl, retries, List.replicate n (BucketRedis.new bsize), 0⟩

/-! ### bridge to the generic development -/

theorem tocc_eq (emp : F) (bs : List (BucketRedis F)) :
    tocc (BucketRedis.lawful emp) bs = occ emp (bs.map (·.list)).flatten := by
  unfold tocc
  induction bs with
  | nil => rfl
  | cons b bs ih =>
    rw [tot_cons, List.map_cons, List.flatten_cons, occ_append, ih]; rfl

theorem tcnt_eq (emp : F) (bs : List (BucketRedis F)) (g : F) :
    tcnt (BucketRedis.lawful emp) bs g = ((bs.map (·.list)).flatten).count g := by
  unfold tcnt
  induction bs with
  | nil => rfl
  | cons b bs ih =>
    rw [tot_cons, List.map_cons, List.flatten_cons, List.count_append, ih]; rfl

theorem wf_iff (emp : F) (c : Cuckoo (BucketRedis F)) :
    WF emp c ↔ Cuckoo.WF (BucketRedis.lawful emp) c := by
  constructor
  · intro h
    exact ⟨⟨h.nbuckets, h.bucket⟩, by rw [h.length, tocc_eq]; rfl⟩
  · intro h
    exact ⟨h.bs.len, h.bs.wfb, by rw [h.len, tocc_eq]; rfl⟩

theorem kc_eq (emp : F) (alt : Nat → F → Nat) (c : Cuckoo (BucketRedis F)) (j : Nat) (f : F) :
    kc alt c j f = Cuckoo.kc (BucketRedis.lawful emp) alt c j f := rfl

theorem stored_eq (emp : F) (c : Cuckoo (BucketRedis F)) :
    stored emp c = tocc (BucketRedis.lawful emp) c.buckets := (tocc_eq emp c.buckets).symm

theorem count_allSlots_eq (emp : F) (c : Cuckoo (BucketRedis F)) (g : F) :
    (allSlots c).count g = tcnt (BucketRedis.lawful emp) c.buckets g := (tcnt_eq emp c.buckets g).symm

/-! ### the empty filter -/

theorem empty_wf (emp : F) (n bsize fpl retries : Nat) :
    WF emp (empty n bsize fpl retries : Cuckoo (BucketRedis F)) := by
  refine ⟨by simp [empty], ?_, ?_⟩
  · intro b hb
    simp only [empty, List.mem_replicate] at hb
    rw [hb.2]
    simp [BucketRedis.new, empty]
  · rw [stored_eq, tocc]
    simp only [empty]
    rw [tot_replicate]
    show 0 = n * occ emp ([] : List F)
    simp

theorem bucketAt_replicate (n : Nat) (b : BucketRedis F) (j : Nat) (hj : j < n) :
    bucketAt (List.replicate n b) j = b := by
  simp [bucketAt, List.getD_eq_getElem?_getD, hj]

theorem empty_cnt (n bsize fpl retries : Nat) (j : Nat) (g : F) (hj : j < n) :
    cnt (empty n bsize fpl retries : Cuckoo (BucketRedis F)) j g = 0 := by
  unfold cnt empty
  rw [bucketAt_replicate n _ j hj]
  rfl

theorem empty_kc (alt : Nat → F → Nat) (n bsize fpl retries : Nat) (j : Nat) (g : F)
    (hj : j < n) (hj' : alt j g < n) :
    kc alt (empty n bsize fpl retries : Cuckoo (BucketRedis F)) j g = 0 := by
  unfold kc
  rw [empty_cnt n bsize fpl retries j g hj, empty_cnt n bsize fpl retries _ g hj']
  simp

/-- in a well-formed filter with `length = 0` no bucket holds a fingerprint -/
theorem cnt_eq_zero_of_length_zero (emp : F) (c : Cuckoo (BucketRedis F)) (h : WF emp c)
    (h0 : c.length = 0) (j : Nat) (hj : j < c.n) (g : F) (hg : g ≠ emp) : cnt c j g = 0 := by
  have ht : tocc (BucketRedis.lawful emp) c.buckets = 0 := by rw [← stored_eq, ← h.length, h0]
  unfold tocc at ht
  rw [tot_eq_zero_iff] at ht
  have hm := bucketAt_mem c.buckets j (by rw [h.nbuckets]; exact hj)
  have hall := (occ_eq_zero_iff emp _).mp (ht _ hm)
  unfold cnt
  rw [List.count_eq_zero]
  intro hmem
  exact hg (hall g hmem)

end
end Cuckoo.Redis
end Gostatix
