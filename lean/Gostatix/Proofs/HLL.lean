/-
  Gostatix.Proofs.HLL — helper lemmas for the HyperLogLog register algebra (C06).

  Histories are folded explicitly (`List.foldl`); `Props/C06.lean` names the fold `runR`.
  Everything rests on three facts about `upd r (i,v) = modAt r i (max · v)`:
  updates commute, are idempotent, and distribute over the register-wise `max` (`mergeRegs`).
-/
import Gostatix.Model.HLL
namespace Gostatix.HLL

/-! ### `modAt` algebra -/

theorem modAt_comm {α} (l : List α) (i j : Nat) (f g : α → α) (hfg : ∀ x, g (f x) = f (g x)) :
    modAt (modAt l i f) j g = modAt (modAt l j g) i f := by
  induction l generalizing i j with
  | nil => rfl
  | cons a as ih =>
    cases i with
    | zero =>
      cases j with
      | zero => simp [modAt, hfg]
      | succ j => simp [modAt]
    | succ i =>
      cases j with
      | zero => simp [modAt]
      | succ j => simp [modAt, ih i j]

theorem modAt_idem {α} (l : List α) (i : Nat) (f : α → α) (hf : ∀ x, f (f x) = f x) :
    modAt (modAt l i f) i f = modAt l i f := by
  induction l generalizing i with
  | nil => rfl
  | cons a as ih =>
    cases i with
    | zero => simp [modAt, hf]
    | succ i => simp [modAt, ih i]

/-! ### `upd` -/

theorem upd_length (r : List Nat) (a : Nat × Nat) : (upd r a).length = r.length :=
  modAt_length _ _ _

theorem upd_comm (r : List Nat) (a b : Nat × Nat) : upd (upd r a) b = upd (upd r b) a := by
  unfold upd
  apply modAt_comm
  intro x; omega

theorem upd_idem (r : List Nat) (a : Nat × Nat) : upd (upd r a) a = upd r a := by
  unfold upd
  apply modAt_idem
  intro x; omega

section folds
variable {E : Type}

theorem foldl_upd_length (iv : E → Nat × Nat) (r : List Nat) (h : List E) :
    (h.foldl (fun r e => upd r (iv e)) r).length = r.length := by
  induction h generalizing r with
  | nil => rfl
  | cons e h ih => simp only [List.foldl_cons]; rw [ih, upd_length]

/-- an update commutes with a whole history. -/
theorem foldl_upd_comm (iv : E → Nat × Nat) (r : List Nat) (h : List E) (a : Nat × Nat) :
    h.foldl (fun r e => upd r (iv e)) (upd r a) = upd (h.foldl (fun r e => upd r (iv e)) r) a := by
  induction h generalizing r with
  | nil => rfl
  | cons e h ih =>
    simp only [List.foldl_cons]
    rw [upd_comm r a (iv e)]; exact ih _

theorem foldl_upd_perm (iv : E → Nat × Nat) (r : List Nat) (h₁ h₂ : List E) (p : h₁.Perm h₂) :
    h₁.foldl (fun r e => upd r (iv e)) r = h₂.foldl (fun r e => upd r (iv e)) r := by
  induction p generalizing r with
  | nil => rfl
  | cons x _ ih => simp only [List.foldl_cons]; exact ih _
  | swap x y l => simp only [List.foldl_cons]; rw [upd_comm]
  | trans _ _ ih₁ ih₂ => exact (ih₁ r).trans (ih₂ r)

/-- re-adding an element that was already processed changes nothing. -/
theorem foldl_upd_absorb (iv : E → Nat × Nat) (r : List Nat) (h : List E) (x : E) (hx : x ∈ h) :
    upd (h.foldl (fun r e => upd r (iv e)) r) (iv x) = h.foldl (fun r e => upd r (iv e)) r := by
  induction h generalizing r with
  | nil => cases hx
  | cons e h ih =>
    simp only [List.foldl_cons]
    cases hx with
    | head => rw [← foldl_upd_comm, upd_idem]
    | tail _ hx => exact ih _ hx

/-- a history all of whose elements are absorbed by `r` leaves `r` unchanged. -/
theorem foldl_upd_fixed (iv : E → Nat × Nat) (r : List Nat) (h : List E)
    (hfix : ∀ e ∈ h, upd r (iv e) = r) : h.foldl (fun r e => upd r (iv e)) r = r := by
  induction h with
  | nil => rfl
  | cons e h ih =>
    simp only [List.foldl_cons]
    rw [hfix e List.mem_cons_self]
    exact ih (fun e' he' => hfix e' (List.mem_cons_of_mem _ he'))

theorem foldl_upd_subset (iv : E → Nat × Nat) (r : List Nat) (h₁ h₂ : List E)
    (hsub : ∀ e ∈ h₂, e ∈ h₁) :
    (h₁ ++ h₂).foldl (fun r e => upd r (iv e)) r = h₁.foldl (fun r e => upd r (iv e)) r := by
  rw [List.foldl_append]
  exact foldl_upd_fixed iv _ h₂ (fun e he => foldl_upd_absorb iv r h₁ e (hsub e he))

theorem foldl_upd_set (iv : E → Nat × Nat) (r : List Nat) (h₁ h₂ : List E)
    (hset : ∀ e, e ∈ h₁ ↔ e ∈ h₂) :
    h₁.foldl (fun r e => upd r (iv e)) r = h₂.foldl (fun r e => upd r (iv e)) r := by
  rw [← foldl_upd_subset iv r h₁ h₂ (fun e he => (hset e).mpr he),
    ← foldl_upd_subset iv r h₂ h₁ (fun e he => (hset e).mp he)]
  exact foldl_upd_perm iv r _ _ List.perm_append_comm

end folds

/-! ### `mergeRegs` -/

theorem mergeRegs_length (a b : List Nat) : (mergeRegs a b).length = a.length := by
  induction a generalizing b with
  | nil => cases b <;> rfl
  | cons x a ih =>
    cases b with
    | nil => rfl
    | cons y b => simp [mergeRegs, ih]

theorem mergeRegs_nil_right (a : List Nat) : mergeRegs a [] = a := by
  cases a <;> rfl

theorem mergeRegs_comm (a b : List Nat) (hl : a.length = b.length) :
    mergeRegs a b = mergeRegs b a := by
  induction a generalizing b with
  | nil =>
    cases b with
    | nil => rfl
    | cons _ _ => simp at hl
  | cons x a ih =>
    cases b with
    | nil => simp at hl
    | cons y b =>
      simp only [mergeRegs]
      rw [ih b (by simpa using hl), Nat.max_comm]

theorem mergeRegs_idem (a : List Nat) : mergeRegs a a = a := by
  induction a with
  | nil => rfl
  | cons x a ih => simp [mergeRegs, ih]

/-- associativity needs the middle operand to cover the left one (`mergeRegs` keeps the
    length of its left operand and ignores the surplus of the right one). -/
theorem mergeRegs_assoc (a b c : List Nat) (hl : a.length ≤ b.length) :
    mergeRegs (mergeRegs a b) c = mergeRegs a (mergeRegs b c) := by
  induction a generalizing b c with
  | nil => cases b <;> cases c <;> rfl
  | cons x a ih =>
    cases b with
    | nil => simp at hl
    | cons y b =>
      cases c with
      | nil => rfl
      | cons z c =>
        simp only [mergeRegs]; rw [ih b c (by simpa using hl), Nat.max_assoc]

theorem mergeRegs_zero (m : Nat) :
    mergeRegs (List.replicate m 0) (List.replicate m 0) = List.replicate m 0 := mergeRegs_idem _

/-- an update on the left operand commutes with the merge (any lengths). -/
theorem mergeRegs_upd_left (a b : List Nat) (x : Nat × Nat) :
    mergeRegs (upd a x) b = upd (mergeRegs a b) x := by
  obtain ⟨i, v⟩ := x
  unfold upd
  simp only
  induction a generalizing b i with
  | nil => cases b <;> rfl
  | cons y a ih =>
    cases b with
    | nil => rw [mergeRegs_nil_right, mergeRegs_nil_right]
    | cons z b =>
      cases i with
      | zero => simp only [modAt, mergeRegs]; congr 1; omega
      | succ i => simp only [modAt, mergeRegs]; rw [ih b i]

/-- an update on the right operand commutes with the merge (right operand at least as long). -/
theorem mergeRegs_upd_right (a b : List Nat) (x : Nat × Nat) (hl : a.length ≤ b.length) :
    mergeRegs a (upd b x) = upd (mergeRegs a b) x := by
  obtain ⟨i, v⟩ := x
  unfold upd
  simp only
  induction a generalizing b i with
  | nil => cases b <;> cases i <;> rfl
  | cons y a ih =>
    cases b with
    | nil => simp at hl
    | cons z b =>
      cases i with
      | zero => simp only [modAt, mergeRegs]; congr 1; omega
      | succ i => simp only [modAt, mergeRegs]; rw [ih b (by simpa using hl) i]

/-- merging two runs = running the concatenated history from the merged start registers
    (the right register file must cover the left one). -/
theorem mergeRegs_foldl {E : Type} (iv : E → Nat × Nat) (r₁ r₂ : List Nat) (a b : List E)
    (hl : r₁.length ≤ r₂.length) :
    mergeRegs (a.foldl (fun r e => upd r (iv e)) r₁) (b.foldl (fun r e => upd r (iv e)) r₂)
      = (a ++ b).foldl (fun r e => upd r (iv e)) (mergeRegs r₁ r₂) := by
  induction a generalizing r₁ with
  | nil =>
    simp only [List.foldl_nil, List.nil_append]
    induction b generalizing r₂ with
    | nil => rfl
    | cons e b ih =>
      simp only [List.foldl_cons]
      rw [ih (upd r₂ (iv e)) (by rw [upd_length]; exact hl),
        mergeRegs_upd_right r₁ r₂ (iv e) hl]
  | cons e a ih =>
    simp only [List.foldl_cons, List.cons_append]
    rw [ih (upd r₁ (iv e)) (by rw [upd_length]; exact hl), mergeRegs_upd_left]

end Gostatix.HLL
