/-
  Gostatix.Proofs.TopKAgree — the specification step `Step` read up to permutation of the source
  heap, uniqueness of its successor when the eviction has no tie to break (`NoTie`), and
  `values` as a function of the multiset of entries.
-/
import Gostatix.Proofs.TopKInv
import Gostatix.Proofs.TopKSort
import Gostatix.Proofs.TopKRedis
import Gostatix.Proofs.TopKMem
namespace Gostatix.TopK

section spec
variable {E : Type} [DecidableEq E]

omit [DecidableEq E] in
theorem admit_perm {k : Nat} {h1 h2 : List (E × Nat)} (hp : h1.Perm h2) (f : Nat) :
    Admit k h1 f ↔ Admit k h2 f := by
  unfold Admit
  rw [hp.length_eq]
  constructor
  · rintro (h | ⟨m, hm, hmin, hf⟩)
    · exact Or.inl h
    · exact Or.inr ⟨m, hp.mem_iff.1 hm, fun e he => hmin e (hp.mem_iff.2 he), hf⟩
  · rintro (h | ⟨m, hm, hmin, hf⟩)
    · exact Or.inl h
    · exact Or.inr ⟨m, hp.mem_iff.2 hm, fun e he => hmin e (hp.mem_iff.1 he), hf⟩

theorem upsert_perm {h1 h2 : List (E × Nat)} (hp : h1.Perm h2) (x : E) (f : Nat) :
    (upsert h1 x f).Perm (upsert h2 x f) := by
  unfold upsert
  exact (hp.filter _).append_right _

/-- the specification step reads its source heap as a multiset -/
theorem step_perm_left {k : Nat} {h1 h2 h' : List (E × Nat)} {xf : E × Nat} (hp : h1.Perm h2)
    (hs : Step k h1 xf h') : Step k h2 xf h' := by
  obtain ⟨hadm, hrej⟩ := hs
  have hu := upsert_perm hp xf.1 xf.2
  refine ⟨fun hA => ?_, fun hA => ?_⟩
  · obtain ⟨hev, hkeep⟩ := hadm ((admit_perm hp xf.2).2 hA)
    refine ⟨fun hgt => ?_, fun hgt => ?_⟩
    · obtain ⟨v, hv, hmin, hperm⟩ := hev (by rw [hu.length_eq]; exact hgt)
      exact ⟨v, hu.mem_iff.1 hv, fun e he => hmin e (hu.mem_iff.2 he),
        hperm.trans (hu.erase v)⟩
    · exact (hkeep (by rw [hu.length_eq]; exact hgt)).trans hu
  · exact (hrej (fun h => hA ((admit_perm hp xf.2).1 h))).trans hp

/-- … and its target heap too -/
theorem step_perm_right {k : Nat} {h h1 h2 : List (E × Nat)} {xf : E × Nat} (hp : h2.Perm h1)
    (hs : Step k h xf h1) : Step k h xf h2 := by
  obtain ⟨hadm, hrej⟩ := hs
  refine ⟨fun hA => ?_, fun hA => hp.trans (hrej hA)⟩
  obtain ⟨hev, hkeep⟩ := hadm hA
  refine ⟨fun hgt => ?_, fun hgt => hp.trans (hkeep hgt)⟩
  obtain ⟨v, hv, hmin, hperm⟩ := hev hgt
  exact ⟨v, hv, hmin, hp.trans hperm⟩

/-- **no tie to break**: if the insert is admitted and an entry has to be evicted, then only one
    entry of `upsert heap x f` carries the minimal frequency.  (True in particular when the
    insert is rejected, or when nothing is evicted.) -/
def NoTie (k : Nat) (heap : List (E × Nat)) (x : E) (f : Nat) : Prop :=
  Admit k heap f → k < (upsert heap x f).length →
    ∀ a ∈ upsert heap x f, ∀ b ∈ upsert heap x f,
      (∀ e ∈ upsert heap x f, a.2 ≤ e.2) → (∀ e ∈ upsert heap x f, b.2 ≤ e.2) → a = b

instance (k : Nat) (heap : List (E × Nat)) (x : E) (f : Nat) : Decidable (NoTie k heap x f) := by
  unfold NoTie; infer_instance

theorem noTie_of_not_admit {k : Nat} {heap : List (E × Nat)} {x : E} {f : Nat}
    (h : ¬ Admit k heap f) : NoTie k heap x f := fun hA => absurd hA h

theorem noTie_of_no_eviction {k : Nat} {heap : List (E × Nat)} {x : E} {f : Nat}
    (h : (upsert heap x f).length ≤ k) : NoTie k heap x f := fun _ hgt => by omega

/-- distinct minimal frequencies: no two entries of `upsert heap x f` share the minimal one -/
theorem noTie_of_unique_min {k : Nat} {heap : List (E × Nat)} {x : E} {f : Nat}
    (h : ∀ a ∈ upsert heap x f, ∀ b ∈ upsert heap x f,
      (∀ e ∈ upsert heap x f, a.2 ≤ e.2) → a.2 = b.2 → a = b) : NoTie k heap x f := by
  intro _ _ a ha b hb hamin hbmin
  exact h a ha b hb hamin (Nat.le_antisymm (hamin b hb) (hbmin a ha))

theorem noTie_perm {k : Nat} {h1 h2 : List (E × Nat)} (hp : h1.Perm h2) (x : E) (f : Nat)
    (hn : NoTie k h1 x f) : NoTie k h2 x f := by
  have hu := upsert_perm hp x f
  intro hA hgt a ha b hb hamin hbmin
  exact hn ((admit_perm hp f).2 hA) (by rw [hu.length_eq]; exact hgt)
    a (hu.mem_iff.2 ha) b (hu.mem_iff.2 hb)
    (fun e he => hamin e (hu.mem_iff.1 he)) (fun e he => hbmin e (hu.mem_iff.1 he))

/-- **the successor is unique** (as a multiset) when there is no tie to break -/
theorem step_unique {k : Nat} {heap h1 h2 : List (E × Nat)} {xf : E × Nat}
    (hnt : NoTie k heap xf.1 xf.2) (s1 : Step k heap xf h1) (s2 : Step k heap xf h2) :
    h1.Perm h2 := by
  by_cases hA : Admit k heap xf.2
  · obtain ⟨ev1, keep1⟩ := s1.1 hA
    obtain ⟨ev2, keep2⟩ := s2.1 hA
    by_cases hgt : k < (upsert heap xf.1 xf.2).length
    · obtain ⟨v1, hv1, hmin1, hp1⟩ := ev1 hgt
      obtain ⟨v2, hv2, hmin2, hp2⟩ := ev2 hgt
      have : v1 = v2 := hnt hA hgt v1 hv1 v2 hv2 hmin1 hmin2
      subst this
      exact hp1.trans hp2.symm
    · exact (keep1 hgt).trans (keep2 hgt).symm
  · exact (s1.2 hA).trans (s2.2 hA).symm

end spec

/-! ### `Values` depends only on the multiset of entries -/

theorem valueLe_antisymm (a b : HElem) (h1 : ValueLe a b) (h2 : ValueLe b a) : a = b := by
  unfold ValueLe at h1 h2
  rcases h1 with h1 | ⟨h1, h1'⟩ <;> rcases h2 with h2 | ⟨h2, h2'⟩
  · omega
  · omega
  · omega
  · exact Prod.ext (String.le_antisymm h1' h2') h1

/-- `Values` sorts by a total order on entries: permuted heaps give EQUAL lists -/
theorem values_eq_of_perm {l1 l2 : List HElem} (hp : l1.Perm l2) : values l1 = values l2 :=
  List.Perm.eq_of_pairwise (fun a b _ _ => valueLe_antisymm a b) (values_sorted l1)
    (values_sorted l2) (((values_perm l1).trans hp).trans (values_perm l2).symm)

/-! ### the two implementations side by side -/

/-- what the two variants maintain, and how their states correspond -/
structure Agree (h : Array HElem) (z : List HElem) : Prop where
  heapInv : HeapInv h
  nodup : (h.toList.map (·.1)).Nodup
  sorted : ZSorted z
  perm : h.toList.Perm z

theorem Agree.nodup_z {h : Array HElem} {z : List HElem} (ha : Agree h z) :
    (z.map (·.1)).Nodup := ((ha.perm.map (·.1)).nodup_iff).1 ha.nodup

theorem agree_empty : Agree #[] [] :=
  ⟨fun i hi _ => by simp at hi, by simp, List.Pairwise.nil, List.Perm.refl _⟩

/-- both variants take a `Step` of the specification from the SAME source heap -/
theorem both_step (k : Nat) (h : Array HElem) (z : List HElem) (x : String) (f : Nat)
    (ha : Agree h z) :
    Step k z (x, f) (offer k h x f).toList ∧ Step k z (x, f) (offerRedis k z x f) :=
  ⟨step_perm_left ha.perm (mem_refines_spec k h x f ha.heapInv ha.nodup).1,
   (redis_refines_spec k z x f ha.sorted ha.nodup_z).1⟩

theorem agree_step (k : Nat) (h : Array HElem) (z : List HElem) (x : String) (f : Nat)
    (ha : Agree h z) (hnt : NoTie k z x f) :
    Agree (offer k h x f) (offerRedis k z x f) := by
  obtain ⟨s1, s2⟩ := both_step k h z x f ha
  obtain ⟨sm, hinv⟩ := mem_refines_spec k h x f ha.heapInv ha.nodup
  obtain ⟨_, hs, _⟩ := redis_refines_spec k z x f ha.sorted ha.nodup_z
  exact ⟨hinv, step_nodup sm ha.nodup, hs, step_unique hnt s1 s2⟩

/-- no insert of the history, run on the Redis variant from `z`, has a tie to break -/
def NoTieRun (k : Nat) : List HElem → List (Event String) → Prop
  | _, [] => True
  | z, e :: evs => NoTie k z e.x e.f ∧ NoTieRun k (offerRedis k z e.x e.f) evs

def NoTieRun.dec (k : Nat) :
    (z : List HElem) → (evs : List (Event String)) → Decidable (NoTieRun k z evs)
  | _, [] => isTrue trivial
  | z, e :: evs =>
    match (inferInstance : Decidable (NoTie k z e.x e.f)),
        NoTieRun.dec k (offerRedis k z e.x e.f) evs with
    | isTrue h1, isTrue h2 => isTrue ⟨h1, h2⟩
    | isFalse h1, _ => isFalse (fun h => h1 h.1)
    | _, isFalse h2 => isFalse (fun h => h2 h.2)

instance (k : Nat) (z : List HElem) (evs : List (Event String)) : Decidable (NoTieRun k z evs) :=
  NoTieRun.dec k z evs

theorem agree_run (k : Nat) (evs : List (Event String)) :
    ∀ (h : Array HElem) (z : List HElem), Agree h z → NoTieRun k z evs →
      ∀ n, Agree ((evs.take n).foldl (fun h e => offer k h e.x e.f) h)
        ((evs.take n).foldl (fun z e => offerRedis k z e.x e.f) z) := by
  induction evs with
  | nil => intro h z ha _ n; simpa using ha
  | cons e evs ih =>
    intro h z ha hnt n
    cases n with
    | zero => simpa using ha
    | succ n =>
      simp only [List.take_succ_cons, List.foldl_cons]
      exact ih _ _ (agree_step k h z e.x e.f ha hnt.1) hnt.2 n

end Gostatix.TopK
