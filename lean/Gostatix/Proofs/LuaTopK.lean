/-
  Gostatix.Proofs.LuaTopK — the extracted Top-K scripts (`importHeapScript`, `equals` of
  top_k_redis.go) run by the interpreter of Model/Lua.lean, step by step (helper lemmas for
  Props/LuaHLL.lean).
-/
import Gostatix.Proofs.LuaHLL
import Gostatix.Model.Json
namespace Gostatix.LuaHLL
open Gostatix Gostatix.Lua Gostatix.Redis Gostatix.Generated.LuaScripts

/-! ## `importHeapScript` (top_k_redis.go, `importHeap`) -/

/-- the script's commands on the store: `ZADD key score element` for the pairs, in order; the
    first failing one (key of the wrong type) aborts. -/
def zaddAll (key : String) : List (String × Nat) → Script Unit
  | [] => Script.pure ()
  | (x, f) :: ps => cmdZADD key x f >>=ₛ fun _ => zaddAll key ps

/-- `ARGV` of `importHeap`: element, count, element, count, … -/
def heapArgs : List (String × Nat) → List String
  | [] => []
  | (x, f) :: ps => x :: decimal f :: heapArgs ps

theorem heapArgs_length (ps : List (String × Nat)) : (heapArgs ps).length = 2 * ps.length := by
  induction ps with
  | nil => rfl
  | cons p ps ih => obtain ⟨x, f⟩ := p; simp [heapArgs, ih]; omega

/-- the state of `importHeapScript` in its loop: `ARGV` is `A`, `vals2` holds `v2`, `extra` are the
    tables allocated so far, `lg` the command log. -/
def heapS (st : Store) (key : String) (A : Table) (extra : List Table) (v2 : Value) (lg : List String) : State :=
  { store := st
    heap := { arr := [.str key] } :: A :: extra
    env := [("vals2", v2), ("key", .str key)]
    log := lg }

def heapBody : List Stmt := forBody (top_k_redis_importHeapScript.getD 2 (.unsupported ""))

theorem heap_prefix_zset (g : Nat) (st : Store) (key : String) (A : Table) (l : List String)
    (h1 : redisCommand "ZRANGE" [key, "0", "-1"] st = .ok st (.list l)) :
    execBlock (g + 10 + 2) (top_k_redis_importHeapScript.take 2)
        { store := st, heap := [{ arr := [.str key] }, A], env := [], log := [] } =
      .ok none (heapS st key A [strTable l] (.table 2) [key]) := by
  simp only [top_k_redis_importHeapScript, List.take]
  lua_simp_hll [heapS, strTable, h1]

theorem heap_prefix_error (g : Nat) (st : Store) (key : String) (A : Table) (msg : String)
    (h1 : redisCommand "ZRANGE" [key, "0", "-1"] st = .error msg) :
    execBlock (g + 10 + 2) (top_k_redis_importHeapScript.take 2)
        { store := st, heap := [{ arr := [.str key] }, A], env := [], log := [] } =
      .ok none (heapS st key A [] .nil [key]) := by
  simp only [top_k_redis_importHeapScript, List.take]
  lua_simp_hll [heapS, h1]

theorem heap_for (g : Nat) (st : Store) (key : String) (A : Table) (extra : List Table) (v2 : Value)
    (lg : List String) (n : Nat) (hlen : A.len = n) :
    execStmt (g + 6) (top_k_redis_importHeapScript.getD 2 (.unsupported "")) (heapS st key A extra v2 lg) =
      numForLoop (g + 5) "i" 1 (n : Int) 2 heapBody (heapS st key A extra v2 lg) := by
  simp only [top_k_redis_importHeapScript, heapBody, forBody, List.getD_cons_succ, List.getD_cons_zero]
  lua_simp_hll [heapS, hlen]

theorem heap_suffix (f : Nat) (s : State) :
    finish (execBlock (f + 5) (top_k_redis_importHeapScript.drop 3) s) = (s.store, .reply (.int 1)) := by
  simp only [top_k_redis_importHeapScript, List.drop]
  lua_simp_hll [finish_true]

section body
variable (f : Nat) (st : Store) (key : String) (A : Table) (extra : List Table) (v2 : Value)
    (lg : List String) (i : Int) (x sc : String)
    (hi : ¬ (i + 1).natAbs > numLimit)
    (hg1 : A.get (.num i) = .str x) (hg2 : A.get (.num (i + 1)) = .str sc)
include hi hg1 hg2

theorem heap_body_ok (st' : Store) (c : Int)
    (hz : redisCommand "ZADD" [key, sc, x] st = .ok st' (.int c)) :
    inScope (do declare "i" (.num i); execBlock (f + 10) heapBody) (heapS st key A extra v2 lg) =
      .ok none (heapS st' key A extra v2 (key :: lg)) := by
  simp only [top_k_redis_importHeapScript, heapBody, forBody, List.getD_cons_succ, List.getD_cons_zero]
  lua_simp_hll [heapS, arith, checkNum, hi, hg1, hg2, hz]

theorem heap_body_error (msg : String)
    (hz : redisCommand "ZADD" [key, sc, x] st = .error msg) :
    ∃ s', inScope (do declare "i" (.num i); execBlock (f + 10) heapBody) (heapS st key A extra v2 lg) =
      .error msg s' ∧ s'.store = st := by
  simp only [top_k_redis_importHeapScript, heapBody, forBody, List.getD_cons_succ, List.getD_cons_zero]
  lua_simp_hll [heapS, arith, checkNum, hi, hg1, hg2, hz]

end body

theorem cmdZADD_cases (k x : String) (v : Nat) (st : Store) :
    (∃ st1 n, cmdZADD k x v st = (st1, some n)) ∨ cmdZADD k x v st = (st, none) := by
  unfold cmdZADD
  cases zsetAt st k with
  | none => right; rfl
  | some z => left; exact ⟨_, _, rfl⟩

theorem strTable_get_append (pre : List String) (a : String) (l : List String) (j : Nat)
    (hj : pre.length = j) (hb : j + 1 < maxArrayIndex) :
    (strTable (pre ++ a :: l)).get (.num ((j : Int) + 1)) = .str a :=
  strTable_get_cons pre a l j hj hb

/-- the `ZADD` loop, by induction on the pairs left (as `zaddAll` recurses): `pre` are the
    arguments already consumed. -/
theorem heap_loop (key : String) (extra : List Table) (v2 : Value) (all : List String) (L : Nat)
    (hL : L < maxArrayIndex) :
    ∀ (ps : List (String × Nat)) (k : Nat) (pre : List String) (st : Store) (lg : List String),
      all = pre ++ heapArgs ps → pre.length = 2 * k → 2 * k + 2 * ps.length = L →
      (∀ p ∈ ps, p.2 ≤ numLimit) → ∀ f,
      (∀ st', zaddAll key ps st = (st', some ()) →
        ∃ lg', numForLoop (f + ps.length + 11) "i" (((2 * k : Nat) : Int) + 1) (L : Int) 2 heapBody
            (heapS st key (strTable all) extra v2 lg) =
          .ok none (heapS st' key (strTable all) extra v2 lg')) ∧
      (∀ st', zaddAll key ps st = (st', none) →
        ∃ s', numForLoop (f + ps.length + 11) "i" (((2 * k : Nat) : Int) + 1) (L : Int) 2 heapBody
            (heapS st key (strTable all) extra v2 lg) = .error msgWrongType s' ∧ s'.store = st') := by
  have hmax : maxArrayIndex = 67108864 := rfl
  have hlim : numLimit = 2 ^ 53 := rfl
  intro ps
  induction ps with
  | nil =>
    intro k pre st lg hall hpre hkL hsc f
    constructor
    · intro st' h
      have : zaddAll key [] st = (st, some ()) := rfl
      rw [this] at h; injection h with h _; subst h
      exact ⟨lg, numForLoop_done_pos _ _ _ _ _ _ _ (by omega) (by simp at hkL; omega)⟩
    · intro st' h
      have : zaddAll key [] st = (st, some ()) := rfl
      rw [this] at h; injection h with _ h; cases h
  | cons p ps ih =>
    obtain ⟨x, v⟩ := p
    intro k pre st lg hall hpre hkL hsc f
    simp only [List.length_cons] at hkL
    have hv : v ≤ numLimit := hsc (x, v) List.mem_cons_self
    have hle : (((2 * k : Nat) : Int) + 1) ≤ (L : Int) := by omega
    have hi : ¬ ((((2 * k : Nat) : Int) + 1) + 1).natAbs > numLimit := by omega
    have hall1 : all = pre ++ x :: (decimal v :: heapArgs ps) := by rw [hall]; rfl
    have hall2 : all = (pre ++ [x]) ++ decimal v :: heapArgs ps := by rw [hall1]; simp
    have hall3 : all = (pre ++ [x, decimal v]) ++ heapArgs ps := by rw [hall1]; simp
    have hg1 : (strTable all).get (.num (((2 * k : Nat) : Int) + 1)) = .str x := by
      rw [hall1]; exact strTable_get_append pre x _ (2 * k) hpre (by omega)
    have hg2 : (strTable all).get (.num ((((2 * k : Nat) : Int) + 1) + 1)) = .str (decimal v) := by
      have e : (((2 * k : Nat) : Int) + 1) + 1 = ((2 * k + 1 : Nat) : Int) + 1 := by omega
      rw [e, hall2]
      exact strTable_get_append (pre ++ [x]) (decimal v) _ (2 * k + 1) (by simp [hpre]) (by omega)
    have hcmd := redisCommand_ZADD_nat key x v hv st
    have efuel : f + (ps.length + 1) + 11 = (f + ps.length + 11) + 1 := by omega
    have efuel2 : f + ps.length + 11 = (f + ps.length + 1) + 10 := by omega
    have enext : (((2 * k : Nat) : Int) + 1) + 2 = ((2 * (k + 1) : Nat) : Int) + 1 := by omega
    have hmodel : zaddAll key ((x, v) :: ps) st = (cmdZADD key x v >>=ₛ fun _ => zaddAll key ps) st := rfl
    simp only [List.length_cons]
    rw [efuel, hmodel]
    rcases cmdZADD_cases key x v st with ⟨st1, n, h1⟩ | h1
    · rw [h1] at hcmd
      simp only at hcmd
      have hbody := heap_body_ok (f + ps.length + 1) st key (strTable all) extra v2 lg _ x (decimal v)
        hi hg1 hg2 st1 _ hcmd
      rw [← efuel2] at hbody
      rw [numForLoop_step_pos _ _ _ _ _ _ _ _ (by omega) hle hbody, enext, Script.bind_ok h1]
      exact ih (k + 1) (pre ++ [x, decimal v]) st1 (key :: lg) hall3 (by simp [hpre]; omega) (by omega)
        (fun p hp => hsc p (List.mem_cons_of_mem _ hp)) f
    · rw [h1] at hcmd
      simp only at hcmd
      obtain ⟨s', hbody, hs'⟩ := heap_body_error (f + ps.length + 1) st key (strTable all) extra v2 lg _ x
        (decimal v) hi hg1 hg2 _ hcmd
      rw [← efuel2] at hbody
      rw [Script.bind_err h1]
      constructor
      · intro st' h; injection h with _ h; cases h
      · intro st' h
        injection h with h _; subst h
        exact ⟨s', numForLoop_error_pos _ _ _ _ _ _ _ _ _ (by omega) hle hbody, hs'⟩

/-- `importHeap`'s script = the `ZADD`s of the pairs, in order. -/
theorem importHeap_eq (st : Store) (key : String) (ps : List (String × Nat)) (f : Nat)
    (hlen : 2 * ps.length < maxArrayIndex) (hsc : ∀ p ∈ ps, p.2 ≤ numLimit) :
    run (f + ps.length + 15) top_k_redis_importHeapScript [key] (heapArgs ps) st =
      ((zaddAll key ps st).1, unitOutcome (zaddAll key ps st).2 msgWrongType) := by
  have hs := block_split top_k_redis_importHeapScript 2 (.unsupported "") (by decide)
  have e1 : f + ps.length + 15 = (f + ps.length + 3) + 10 + 2 := by omega
  have e2 : f + ps.length + 3 + 10 = (f + ps.length + 12) + 1 := by omega
  have e3 : f + ps.length + 12 = (f + ps.length + 6) + 6 := by omega
  have e4 : f + ps.length + 6 + 5 = f + ps.length + 11 := by omega
  have e5 : f + ps.length + 12 = (f + ps.length + 7) + 5 := by omega
  have hA : (strTable (heapArgs ps)).len = 2 * ps.length := by rw [strTable_len, heapArgs_length]
  have h0 : initState [key] (heapArgs ps) st =
      { store := st, heap := [{ arr := [.str key] }, strTable (heapArgs ps)], env := [], log := [] } := rfl
  -- the loop, from either state the prefix can leave
  have hloop : ∀ (extra : List Table) (v2 : Value),
      finish (execBlock (f + ps.length + 12 + 1)
        (top_k_redis_importHeapScript.getD 2 (.unsupported "") :: top_k_redis_importHeapScript.drop (2 + 1))
        (heapS st key (strTable (heapArgs ps)) extra v2 [key])) =
      ((zaddAll key ps st).1, unitOutcome (zaddAll key ps st).2 msgWrongType) := by
    intro extra v2
    have hl := heap_loop key extra v2 (heapArgs ps) (2 * ps.length) hlen ps 0 [] st [key] rfl rfl
      (by omega) hsc f
    simp only [Nat.mul_zero, Int.natCast_zero, Int.zero_add] at hl
    cases hz : zaddAll key ps st with
    | mk st' r =>
      cases r with
      | some u =>
        obtain ⟨lg', hx⟩ := hl.1 st' hz
        rw [execBlock_cons_none (s' := heapS st' key (strTable (heapArgs ps)) extra v2 lg')]
        · rw [e5, heap_suffix]; rfl
        · rw [e3, heap_for _ st key _ extra v2 [key] _ hA, e4]; exact hx
      | none =>
        obtain ⟨s', hx, hs'⟩ := hl.2 st' hz
        rw [execBlock_cons_error (s' := s') (msg := msgWrongType), finish_error, hs']
        · rfl
        · rw [e3, heap_for _ st key _ extra v2 [key] _ hA, e4]; exact hx
  rw [run_eq_finish]
  conv => lhs; rw [hs, e1, h0]
  have hzr := redisCommand_ZRANGE_all key st
  cases hz : zsetAt st key with
  | none =>
    rw [hz] at hzr
    rw [execBlock_append' _ _ 2 _ _ _ rfl (heap_prefix_error _ st key _ _ hzr), e2]
    exact hloop _ _
  | some z =>
    rw [hz] at hzr
    rw [execBlock_append' _ _ 2 _ _ _ rfl (heap_prefix_zset _ st key _ _ hzr), e2]
    exact hloop _ _

/-! ### the `ZADD`s on a store that holds a sorted set; the Json-level model -/

theorem zsetAt_zsetPut (st : Store) (k : String) (z : List HElem) : zsetAt (zsetPut st k z) k = some z := by
  unfold zsetPut zsetAt
  by_cases h : z = []
  · simp [h, Store.del]
  · simp [h, Store.set]

theorem zsetPut_ne (st : Store) (k k' : String) (z : List HElem) (h : k' ≠ k) : zsetPut st k z k' = st k' := by
  unfold zsetPut
  split
  · simp [Store.del, h]
  · simp [Store.set, h]

/-- on a key that holds a sorted set (or nothing) every `ZADD` succeeds: the set becomes the fold
    of `TopK.zadd`; other keys are untouched. -/
theorem zaddAll_zset (key : String) : ∀ (ps : List (String × Nat)) (st : Store) (z : List HElem),
    zsetAt st key = some z →
    ∃ st', zaddAll key ps st = (st', some ()) ∧
      zsetAt st' key = some (ps.foldl (fun z e => TopK.zadd z e.1 e.2) z) ∧
      ∀ k, k ≠ key → st' k = st k := by
  intro ps
  induction ps with
  | nil => intro st z hz; exact ⟨st, rfl, hz, fun _ _ => rfl⟩
  | cons p ps ih =>
    obtain ⟨x, f⟩ := p
    intro st z hz
    have h1 : cmdZADD key x f st = (zsetPut st key (TopK.zadd z x f), some (if (zscore z x).isSome then 0 else 1)) := by
      unfold cmdZADD; rw [hz]
    obtain ⟨st', h2, h3, h4⟩ := ih (zsetPut st key (TopK.zadd z x f)) _ (zsetAt_zsetPut _ _ _)
    refine ⟨st', ?_, h3, ?_⟩
    · show (cmdZADD key x f >>=ₛ fun _ => zaddAll key ps) st = _
      rw [Script.bind_ok h1, h2]
    · intro k hk; rw [h4 k hk, zsetPut_ne _ _ _ _ hk]

theorem json_insertSorted_eq (lt : HElem → HElem → Bool) (x : HElem) (l : List HElem) :
    Json.insertSorted lt x l = TopK.insertSorted lt x l := by
  induction l with
  | nil => rfl
  | cons y ys ih => simp only [Json.insertSorted, TopK.insertSorted, ih]

/-- the Json-level `ZADD` (Model/Json.lean) with the bytewise order of member names is
    `TopK.zadd` (Model/TopK.lean). -/
theorem json_zadd_eq (z : List HElem) (x : String) (f : Nat) :
    Json.zadd (fun a b : String => decide (a < b)) z x f = TopK.zadd z x f := by
  unfold Json.zadd TopK.zadd
  rw [json_insertSorted_eq]
  have e1 : Json.zLt (fun a b : String => decide (a < b)) = TopK.zLt := by
    funext a b; simp [Json.zLt, TopK.zLt]
  have e2 : (fun e : String × Nat => decide (e.1 ≠ x)) = (fun e : HElem => e.1 != x) := by
    funext e; by_cases h : e.1 = x <;> simp [h]
  rw [e1, e2]

theorem json_importHeap_eq (z : List HElem) (ps : List (String × Nat)) :
    Json.importHeap (fun a b : String => decide (a < b)) z ps =
      ps.foldl (fun z e => TopK.zadd z e.1 e.2) z := by
  unfold Json.importHeap
  congr 1
  funext z e
  exact json_zadd_eq z e.1 e.2


/-! ## `equals` (top_k_redis.go, `compareHeaps`) -/

def tkBody : List Stmt := forBody (top_k_redis_equals.getD 6 (.unsupported ""))

theorem tk_prefix (g : Nat) (st : Store) (key1 key2 : String) (k : Nat) (w1 w2 : List String)
    (h1 : redisCommand "ZRANGE" [key1, "0", "-1", "WITHSCORES"] st = .ok st (.list w1))
    (h2 : redisCommand "ZRANGE" [key2, "0", "-1", "WITHSCORES"] st = .ok st (.list w2)) :
    execBlock (g + 10 + 5) (top_k_redis_equals.take 5) (initState [key1, key2] [decimal k] st) =
      .ok none (mergeT st key1 key2 k (strTable w1) (strTable w2)) := by
  simp only [top_k_redis_equals, List.take]
  lua_simp_hll [mergeT, strTable, h1, h2]

/-- `if #vals1 ~= #vals2 then return false end`, lengths equal. -/
theorem tk_if_eq (g : Nat) (st : Store) (key1 key2 : String) (k : Nat) (T1 T2 : Table) (n : Nat)
    (h1 : T1.len = n) (h2 : T2.len = n) :
    execStmt (g + 6) (top_k_redis_equals.getD 5 (.unsupported "")) (mergeT st key1 key2 k T1 T2) =
      .ok none (mergeT st key1 key2 k T1 T2) := by
  simp only [top_k_redis_equals, List.getD_cons_succ, List.getD_cons_zero]
  lua_simp_hll [mergeT, h1, h2]

theorem tk_if_ne (g : Nat) (st : Store) (key1 key2 : String) (k : Nat) (T1 T2 : Table) (n1 n2 : Nat)
    (h1 : T1.len = n1) (h2 : T2.len = n2) (hne : n1 ≠ n2) :
    execStmt (g + 6) (top_k_redis_equals.getD 5 (.unsupported "")) (mergeT st key1 key2 k T1 T2) =
      .ok (some [.bool false]) (mergeT st key1 key2 k T1 T2) := by
  simp only [top_k_redis_equals, List.getD_cons_succ, List.getD_cons_zero]
  have hne' : ¬ ((n1 : Int) = (n2 : Int)) := by omega
  lua_simp_hll [mergeT, h1, h2, hne']

theorem tk_for (g : Nat) (st : Store) (key1 key2 : String) (k : Nat) (T1 T2 : Table) (n : Nat)
    (h1 : T1.len = n) :
    execStmt (g + 6) (top_k_redis_equals.getD 6 (.unsupported "")) (mergeT st key1 key2 k T1 T2) =
      numForLoop (g + 5) "i" 1 (n : Int) 1 tkBody (mergeT st key1 key2 k T1 T2) := by
  simp only [top_k_redis_equals, tkBody, forBody, List.getD_cons_succ, List.getD_cons_zero]
  lua_simp_hll [mergeT, h1]

theorem tk_suffix (f : Nat) (s : State) :
    finish (execBlock (f + 5) (top_k_redis_equals.drop 7) s) = (s.store, .reply (.int 1)) := by
  simp only [top_k_redis_equals, List.drop]
  lua_simp_hll [finish_true]

theorem tk_body_eq (f : Nat) (st : Store) (key1 key2 : String) (k : Nat) (T1 T2 : Table) (i : Int)
    (v : Value) (hg1 : T1.get (.num i) = v) (hg2 : T2.get (.num i) = v) :
    inScope (do declare "i" (.num i); execBlock (f + 8) tkBody) (mergeT st key1 key2 k T1 T2) =
      .ok none (mergeT st key1 key2 k T1 T2) := by
  simp only [top_k_redis_equals, tkBody, forBody, List.getD_cons_succ, List.getD_cons_zero]
  lua_simp_hll [mergeT, hg1, hg2]

theorem tk_body_ne (f : Nat) (st : Store) (key1 key2 : String) (k : Nat) (T1 T2 : Table) (i : Int)
    (v1 v2 : Value) (hg1 : T1.get (.num i) = v1) (hg2 : T2.get (.num i) = v2) (hne : v1 ≠ v2) :
    inScope (do declare "i" (.num i); execBlock (f + 8) tkBody) (mergeT st key1 key2 k T1 T2) =
      .ok (some [.bool false]) (mergeT st key1 key2 k T1 T2) := by
  simp only [top_k_redis_equals, tkBody, forBody, List.getD_cons_succ, List.getD_cons_zero]
  lua_simp_hll [mergeT, hg1, hg2, hne]


theorem first_mismatch {α} : ∀ (w1 w2 : List α), w1.length = w2.length → w1 ≠ w2 →
    ∃ e, e < w1.length ∧ (∀ j, j < e → w1[j]? = w2[j]?) ∧ w1[e]? ≠ w2[e]? := by
  intro w1
  induction w1 with
  | nil =>
    intro w2 hl hne
    cases w2 with
    | nil => exact absurd rfl hne
    | cons b w2 => simp at hl
  | cons a w1 ih =>
    intro w2 hl hne
    cases w2 with
    | nil => simp at hl
    | cons b w2 =>
      by_cases hab : a = b
      · subst hab
        have hne' : w1 ≠ w2 := fun h => hne (by rw [h])
        obtain ⟨e, he, hlt, hx⟩ := ih w2 (by simpa using hl) hne'
        refine ⟨e + 1, by simp; omega, ?_, by simpa using hx⟩
        intro j hj
        cases j with
        | zero => rfl
        | succ j => simpa using hlt j (by omega)
      · exact ⟨0, by simp, fun j hj => by omega, by simpa using hab⟩

theorem optStr_inj (o1 o2 : Option String) :
    (match o1 with | some a => Value.str a | none => Value.nil) =
      (match o2 with | some a => Value.str a | none => Value.nil) ↔ o1 = o2 := by
  cases o1 <;> cases o2 <;> simp

/-- the compare loop of `compareHeaps`: the two `ZRANGE … WITHSCORES` replies `w1`, `w2` have the
    same length; it falls through iff they are equal (loop lemmas with a constant state). -/
theorem tk_loop (st : Store) (key1 key2 : String) (k : Nat) (w1 w2 : List String)
    (hl : w1.length = w2.length) (hn : w1.length < maxArrayIndex) (f : Nat) :
    numForLoop (f + w1.length + 9) "i" 1 (w1.length : Int) 1 tkBody
        (mergeT st key1 key2 k (strTable w1) (strTable w2)) =
      (if w1 = w2 then Res.ok none (mergeT st key1 key2 k (strTable w1) (strTable w2))
       else Res.ok (some [.bool false]) (mergeT st key1 key2 k (strTable w1) (strTable w2))) := by
  by_cases hw : w1 = w2
  · rw [if_pos hw]
    have := numForLoop_run "i" tkBody 8 (fun _ => mergeT st key1 key2 k (strTable w1) (strTable w2))
      w1.length w1.length 0 (by omega)
      (fun j _ hjm f => tk_body_eq f st key1 key2 k _ _ _ _ (strTable_get w1 j (by omega))
        (by rw [strTable_get w2 j (by omega), hw])) f
    have e : f + w1.length + 9 = f + 8 + w1.length + 1 := by omega
    rw [e]
    simpa using this
  · rw [if_neg hw]
    obtain ⟨e, he, hlt, hne⟩ := first_mismatch w1 w2 hl hw
    have := numForLoop_run_exit "i" tkBody 8 (fun _ => mergeT st key1 key2 k (strTable w1) (strTable w2))
      w1.length e (.ok (some [.bool false]) (mergeT st key1 key2 k (strTable w1) (strTable w2)))
      (fun _ h => by cases h) he
      (fun f => tk_body_ne f st key1 key2 k _ _ _ _ _ (strTable_get w1 e (by omega))
        (strTable_get w2 e (by omega)) (fun h => hne ((optStr_inj _ _).mp h)))
      e 0 (by omega)
      (fun j _ hje f => tk_body_eq f st key1 key2 k _ _ _ _ (strTable_get w1 j (by omega))
        (by rw [strTable_get w2 j (by omega), hlt j hje])) (f + (w1.length - e))
    have e' : f + w1.length + 9 = f + (w1.length - e) + 8 + e + 1 := by omega
    rw [e']
    simpa using this

theorem withScores_length (z : List HElem) : (withScores z).length = 2 * z.length := by
  induction z with
  | nil => rfl
  | cons e z ih => simp only [withScores, List.foldr_cons, List.length_cons] at ih ⊢; omega

/-- `compareHeaps`' script answers whether the two `ZRANGE … WITHSCORES` replies are equal. -/
theorem topkEquals_eq (st : Store) (key1 key2 : String) (k f : Nat) (z1 z2 : List HElem)
    (h1 : zsetAt st key1 = some z1) (h2 : zsetAt st key2 = some z2)
    (hn : 2 * z1.length < maxArrayIndex) :
    run (f + 2 * z1.length + 17) top_k_redis_equals [key1, key2] [decimal k] st =
      (st, boolOutcome (some (decide (withScores z1 = withScores z2)))) := by
  have hs := block_split top_k_redis_equals 5 (.unsupported "") (by decide)
  have hs2 : top_k_redis_equals.drop (5 + 1) =
      top_k_redis_equals.getD 6 (.unsupported "") :: top_k_redis_equals.drop 7 := rfl
  have hw1 := withScores_length z1
  have hw2 := withScores_length z2
  generalize hW1 : withScores z1 = w1 at *
  generalize hW2 : withScores z2 = w2 at *
  have hz1 : redisCommand "ZRANGE" [key1, "0", "-1", "WITHSCORES"] st = .ok st (.list w1) := by
    rw [redisCommand_ZRANGE_withscores, h1]; simp only [hW1]
  have hz2 : redisCommand "ZRANGE" [key2, "0", "-1", "WITHSCORES"] st = .ok st (.list w2) := by
    rw [redisCommand_ZRANGE_withscores, h2]; simp only [hW2]
  rw [← hw1] at hn ⊢
  have e1 : f + w1.length + 17 = (f + w1.length + 2) + 10 + 5 := by omega
  have e2 : f + w1.length + 2 + 10 = (f + w1.length + 11) + 1 := by omega
  have e3 : f + w1.length + 11 = (f + w1.length + 5) + 6 := by omega
  have e4 : f + w1.length + 11 = (f + w1.length + 10) + 1 := by omega
  have e5 : f + w1.length + 10 = (f + w1.length + 4) + 6 := by omega
  have e6 : f + w1.length + 4 + 5 = f + w1.length + 9 := by omega
  have e7 : f + w1.length + 10 = (f + w1.length + 5) + 5 := by omega
  rw [run_eq_finish]
  conv => lhs; rw [hs, e1]
  rw [execBlock_append' _ _ 5 _ _ _ rfl (tk_prefix _ st key1 key2 k w1 w2 hz1 hz2), e2]
  by_cases hl : w1.length = w2.length
  · rw [execBlock_cons_none (s' := mergeT st key1 key2 k (strTable w1) (strTable w2)), hs2, e4]
    · have hloop := tk_loop st key1 key2 k w1 w2 hl hn f
      by_cases hw : w1 = w2
      · rw [if_pos hw] at hloop
        rw [execBlock_cons_none (s' := mergeT st key1 key2 k (strTable w1) (strTable w2))]
        · rw [e7, tk_suffix]; simp [hw, boolOutcome]; rfl
        · rw [e5, tk_for _ st key1 key2 k _ _ _ (strTable_len w1), e6]; exact hloop
      · rw [if_neg hw] at hloop
        rw [execBlock_cons_return (s' := mergeT st key1 key2 k (strTable w1) (strTable w2))
          (vs := [.bool false])]
        · simp [hw, boolOutcome]; rfl
        · rw [e5, tk_for _ st key1 key2 k _ _ _ (strTable_len w1), e6]; exact hloop
    · rw [e3]
      exact tk_if_eq _ st key1 key2 k _ _ w1.length (strTable_len w1) (by rw [strTable_len, hl])
  · have hw : w1 ≠ w2 := fun h => hl (by rw [h])
    rw [execBlock_cons_return (s' := mergeT st key1 key2 k (strTable w1) (strTable w2))
      (vs := [.bool false])]
    · simp [hw, boolOutcome]; rfl
    · rw [e3]
      exact tk_if_ne _ st key1 key2 k _ _ _ _ (strTable_len w1) (strTable_len w2) hl

end Gostatix.LuaHLL
