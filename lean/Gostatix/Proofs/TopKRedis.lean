/-
  Gostatix.Proofs.TopKRedis — the Redis variant (`offerRedis` on a list sorted by `zLt`)
  refines the specification step.
-/
import Gostatix.Model.TopK
import Gostatix.Proofs.TopKSort
import Gostatix.Proofs.TopKInv
namespace Gostatix.TopK

/-- sorted w.r.t. the sorted-set order (score, then member) -/
def ZSorted (z : List HElem) : Prop := z.Pairwise (fun a b => zLt a b = true)

theorem zfilter_eq (z : List HElem) (x : String) :
    z.filter (fun e => e.1 != x) = z.filter (fun e => decide (e.1 ≠ x)) := by
  apply List.filter_congr
  intro e _
  by_cases h : e.1 = x <;> simp [h]

theorem zadd_perm (z : List HElem) (x : String) (f : Nat) :
    (zadd z x f).Perm (upsert z x f) := by
  unfold zadd upsert
  rw [zfilter_eq]
  exact (insertSorted_perm zLt (x, f) _).trans
    (List.perm_append_comm (l₁ := [(x, f)]) (l₂ := z.filter (fun e => decide (e.1 ≠ x))))

theorem zadd_sorted (z : List HElem) (x : String) (f : Nat) (hs : ZSorted z) :
    ZSorted (zadd z x f) := by
  unfold zadd ZSorted
  apply insertSorted_pairwise zLt (fun a b => zLt a b = true) zLt_trans
  · intro y _ h; exact h
  · intro y hy h
    have : y.1 ≠ x := by simpa using (List.mem_filter.1 hy).2
    exact zLt_of_not_zLt (x, f) y (fun h' => this h'.symm) h
  · exact List.Pairwise.sublist List.filter_sublist hs

theorem zsorted_head_min (m : HElem) (t : List HElem) (hs : ZSorted (m :: t)) :
    ∀ p ∈ m :: t, m.2 ≤ p.2 := by
  intro p hp
  rcases List.mem_cons.1 hp with rfl | hp
  · exact Nat.le_refl _
  · exact zLt_freq_le m p ((List.pairwise_cons.1 hs).1 p hp)

/-- on a sorted set the guard of `offerRedis` is the specification guard -/
theorem offerRedis_eq (k : Nat) (z : List HElem) (x : String) (f : Nat) (hs : ZSorted z) :
    offerRedis k z x f =
      if Admit k z f then
        (if (zadd z x f).length > k then (zadd z x f).tail else zadd z x f)
      else z := by
  unfold offerRedis
  cases z with
  | nil =>
    by_cases hk : 0 < k
    · have : Admit k ([] : List HElem) f := Or.inl hk
      simp [hk, this]
    · have : ¬ Admit k ([] : List HElem) f := by
        rintro (h | ⟨m, hm, _⟩)
        · exact hk h
        · cases hm
      simp [hk, this]
  | cons m t =>
    have hmin := zsorted_head_min m t hs
    have hiff : (decide ((m :: t).length < k) || decide (f ≥ m.2)) = true ↔
        Admit k (m :: t) f := by
      unfold Admit
      simp only [Bool.or_eq_true, decide_eq_true_eq]
      constructor
      · rintro (h | h)
        · exact Or.inl h
        · exact Or.inr ⟨m, by simp, hmin, h⟩
      · rintro (h | ⟨m', hm', _, hf⟩)
        · exact Or.inl h
        · exact Or.inr (Nat.le_trans (hmin m' hm') hf)
    show (if (decide ((m :: t).length < k) || decide (f ≥ m.2)) = true then
        (if (zadd (m :: t) x f).length > k then (zadd (m :: t) x f).tail else zadd (m :: t) x f)
        else m :: t) = _
    by_cases hA : Admit k (m :: t) f
    · rw [if_pos hA, if_pos (hiff.2 hA)]
    · rw [if_neg hA, if_neg (fun h => hA (hiff.1 h))]

theorem redis_refines_spec (k : Nat) (z : List HElem) (x : String) (f : Nat)
    (hs : ZSorted z) (hn : (z.map (·.1)).Nodup) :
    Step k z (x, f) (offerRedis k z x f) ∧ ZSorted (offerRedis k z x f) ∧
      ((offerRedis k z x f).map (·.1)).Nodup := by
  have hperm := zadd_perm z x f
  have hsort := zadd_sorted z x f hs
  have hnd : ((zadd z x f).map (·.1)).Nodup :=
    ((hperm.map (·.1)).nodup_iff).2 (upsert_nodup z x f hn)
  rw [offerRedis_eq k z x f hs]
  by_cases hA : Admit k z f
  · rw [if_pos hA]
    by_cases hgt : k < (upsert z x f).length
    · have hgt' : (zadd z x f).length > k := by rw [hperm.length_eq]; exact hgt
      simp only [hgt', if_true]
      cases hz : zadd z x f with
      | nil => rw [hz] at hgt'; simp at hgt'
      | cons v t =>
        rw [hz] at hperm hsort hnd
        refine ⟨⟨fun _ => ⟨fun _ => ?_, fun h => absurd hgt h⟩, fun h => absurd hA h⟩, ?_, ?_⟩
        · refine ⟨v, hperm.mem_iff.1 (by simp), ?_, ?_⟩
          · intro e he
            exact zsorted_head_min v t hsort e (hperm.mem_iff.2 he)
          · have := hperm.erase v
            rwa [List.erase_cons_head] at this
        · exact (List.pairwise_cons.1 hsort).2
        · rw [List.map_cons, List.nodup_cons] at hnd; exact hnd.2
    · have hgt' : ¬ (zadd z x f).length > k := by rw [hperm.length_eq]; exact hgt
      simp only [hgt', if_false]
      exact ⟨⟨fun _ => ⟨fun h => absurd h hgt, fun _ => hperm⟩, fun h => absurd hA h⟩,
        hsort, hnd⟩
  · rw [if_neg hA]
    exact ⟨⟨fun h => absurd h hA, fun _ => List.Perm.refl _⟩, hs, hn⟩

end Gostatix.TopK
