/-
  Gostatix.Proofs.RedisCMS — the Lua scripts of count_min_sketch_redis.go simulate the
  in-memory count-min sketch (`Gostatix.CMS`) through the abstraction `absCMS`.
-/
import Gostatix.Proofs.RedisKeys
import Gostatix.Proofs.RedisFrame
namespace Gostatix.Redis

/-! ### evaluating scripts -/

theorem Script.bind_ok {α β} {m : Script α} {f : α → Script β} {s s' : Store} {a : α}
    (h : m s = (s', some a)) : (m >>=ₛ f) s = f a s' := by
  unfold Script.bind; rw [h]

theorem Script.bind_err {α β} {m : Script α} {f : α → Script β} {s s' : Store}
    (h : m s = (s', none)) : (m >>=ₛ f) s = (s', none) := by
  unfold Script.bind; rw [h]

theorem cmdLINDEX_list {s : Store} {k : String} {l : List String} (h : s k = some (.list l))
    (i : Nat) : cmdLINDEX k i s = (s, some l[i]?) := by
  unfold cmdLINDEX; rw [h]

theorem cmdLSET_list {s : Store} {k : String} {l : List String} (h : s k = some (.list l))
    {i : Nat} (hi : i < l.length) (v : String) :
    cmdLSET k i v s = (s.set k (.list (l.set i v)), some ()) := by
  unfold cmdLSET; rw [h]; simp only [hi, if_true]

theorem cmdLRANGE_list {s : Store} {k : String} {l : List String} (h : s k = some (.list l)) :
    cmdLRANGE k s = (s, some l) := by
  unfold cmdLRANGE; rw [h]

theorem cmdRPUSH_none {s : Store} {k : String} (h : s k = none) {vs : List String} (hv : vs ≠ []) :
    cmdRPUSH k vs s = (s.set k (.list vs), some ()) := by
  unfold cmdRPUSH; rw [h]; simp only [hv, if_false]

theorem cmdLPUSH_none {s : Store} {k : String} (h : s k = none) {vs : List String} (hv : vs ≠ []) :
    cmdLPUSH k vs s = (s.set k (.list vs.reverse), some ()) := by
  unfold cmdLPUSH; rw [h]; simp only [hv, if_false]

theorem cmdLPUSH_list {s : Store} {k : String} {l : List String} (h : s k = some (.list l))
    {vs : List String} (hv : vs ≠ []) :
    cmdLPUSH k vs s = (s.set k (.list (vs.reverse ++ l)), some ()) := by
  unfold cmdLPUSH; rw [h]; simp only [hv, if_false]

theorem luaNumber_some {x : String} {n : Nat} (h : parseDecimal x = some n) (s : Store) :
    luaNumber (some x) s = (s, some n) := by
  unfold luaNumber; simp only [h]

/-! ### rows of numbers -/

theorem optAll_eq_some_iff {α} (l : List (Option α)) (m : List α) :
    optAll l = some m ↔ l = m.map some := by
  induction l generalizing m with
  | nil => cases m <;> simp [optAll]
  | cons a l ih =>
    cases a with
    | none => cases m <;> simp [optAll]
    | some a =>
      cases m with
      | nil => simp [optAll]
      | cons b m =>
        simp only [optAll, Option.map_eq_some_iff, List.map_cons, List.cons.injEq, Option.some.injEq]
        constructor
        · rintro ⟨x, hx, rfl, rfl⟩; exact ⟨rfl, (ih _).mp hx⟩
        · rintro ⟨rfl, hl⟩; exact ⟨m, (ih _).mpr hl, rfl, rfl⟩

/-- the list stored at `k` has `cols` entries and reads as the numbers `row`. -/
def RowIs (s : Store) (k : String) (cols : Nat) (row : List Nat) : Prop :=
  ∃ l, s k = some (.list l) ∧ l.length = cols ∧ l.map parseDecimal = row.map some

theorem RowIs.length {s k cols row} (h : RowIs s k cols row) : row.length = cols := by
  obtain ⟨l, _, hl, hm⟩ := h
  have := congrArg List.length hm
  simp only [List.length_map] at this
  omega

theorem RowIs.congr {s s' : Store} {k cols row} (h : RowIs s k cols row) (e : s' k = s k) :
    RowIs s' k cols row := by
  obtain ⟨l, h1, h2, h3⟩ := h
  exact ⟨l, by rw [e, h1], h2, h3⟩

theorem cmsReadRow_eq_some_iff (s : Store) (key : String) (cols r : Nat) (row : List Nat) :
    cmsReadRow s key cols r = some row ↔ RowIs s (cmsRowKey key r) cols row := by
  unfold cmsReadRow RowIs
  constructor
  · intro h
    split at h
    · rename_i l hl
      split at h
      · rename_i hlen
        exact ⟨l, hl, hlen, (optAll_eq_some_iff _ _).mp h⟩
      · cases h
    · cases h
  · rintro ⟨l, hl, hlen, hm⟩
    rw [hl]; simp only [hlen, if_true]
    exact (optAll_eq_some_iff _ _).mpr hm

theorem map_decimal_parse (row : List Nat) :
    (row.map decimal).map parseDecimal = row.map some := by
  induction row with
  | nil => rfl
  | cons a row ih => simp only [List.map_cons, parseDecimal_decimal, ih]

theorem cmsRowKey_inj {key : String} {a b : Nat} (h : cmsRowKey key a = cmsRowKey key b) : a = b := by
  unfold cmsRowKey at h
  have := congrArg String.toList h
  simp only [String.toList_append] at this
  exact decimal_inj (String.toList_inj.mp (List.append_cancel_left this))

/-- rows `r, r+1, …` of the sketch at `key` read as the matrix `m`. -/
def RowsAre (s : Store) (key : String) (cols : Nat) : Nat → List (List Nat) → Prop
  | _, [] => True
  | r, row :: m => RowIs s (cmsRowKey key r) cols row ∧ RowsAre s key cols (r + 1) m

theorem RowsAre.congr {s s' : Store} {key : String} {cols : Nat} {r : Nat} {m : List (List Nat)}
    (h : RowsAre s key cols r m) (e : ∀ j, r ≤ j → s' (cmsRowKey key j) = s (cmsRowKey key j)) :
    RowsAre s' key cols r m := by
  induction m generalizing r with
  | nil => trivial
  | cons row m ih =>
    exact ⟨h.1.congr (e r (Nat.le_refl _)), ih h.2 (fun j hj => e j (by omega))⟩

theorem optAll_range'_iff (s : Store) (key : String) (cols : Nat) (r n : Nat) (m : List (List Nat)) :
    optAll ((List.range' r n).map (cmsReadRow s key cols)) = some m ↔
      m.length = n ∧ RowsAre s key cols r m := by
  induction n generalizing r m with
  | zero =>
    cases m with
    | nil => simp [optAll, RowsAre]
    | cons a m => simp [optAll]
  | succ n ih =>
    rw [List.range'_succ, List.map_cons, optAll_eq_some_iff]
    cases m with
    | nil => simp
    | cons row m =>
      simp only [List.map_cons, List.cons.injEq, List.length_cons, RowsAre]
      rw [cmsReadRow_eq_some_iff, ← optAll_eq_some_iff, ih]
      constructor
      · rintro ⟨h1, h2, h3⟩; exact ⟨by omega, h1, h3⟩
      · rintro ⟨h1, h2, h3⟩; exact ⟨h2, by omega, h3⟩

theorem absCMS_eq_some_iff (s : Store) (h : CMSHandle) (c : CMS) :
    absCMS s h = some c ↔
      c.rows = h.rows ∧ c.cols = h.cols ∧ c.m.length = h.rows ∧ RowsAre s h.key h.cols 0 c.m := by
  unfold absCMS
  rw [List.range_eq_range', Option.map_eq_some_iff]
  constructor
  · rintro ⟨m, hm, rfl⟩
    obtain ⟨h1, h2⟩ := (optAll_range'_iff _ _ _ _ _ _).mp hm
    exact ⟨rfl, rfl, h1, h2⟩
  · rintro ⟨h1, h2, h3, h4⟩
    refine ⟨c.m, (optAll_range'_iff _ _ _ _ _ _).mpr ⟨h3, h4⟩, ?_⟩
    cases c; simp only at h1 h2; subst h1; subst h2; rfl

theorem set_map_parse {l : List String} {row : List Nat} (hm : l.map parseDecimal = row.map some)
    (c : Nat) (f : Nat → Nat) (hc : c < l.length) :
    (l.set c (decimal (f (row.getD c 0)))).map parseDecimal = (modAt row c f).map some := by
  induction l generalizing row c with
  | nil => simp at hc
  | cons a l ih =>
    cases row with
    | nil => simp at hm
    | cons x row =>
      simp only [List.map_cons, List.cons.injEq] at hm
      cases c with
      | zero => simp [modAt, parseDecimal_decimal, hm.2]
      | succ c =>
        have := ih hm.2 c (by simpa using hc)
        simpa [modAt, hm.1] using this

/-! ### Update -/

theorem cmsUpdateLoop_spec (key : String) (cols count : Nat) :
    ∀ (cs : List Nat) (r : Nat) (s : Store) (m : List (List Nat)),
      cs.length ≤ m.length → RowsAre s key cols r m → (∀ c ∈ cs, c < cols) →
      ∃ s', cmsUpdateLoop key count r cs s = (s', some ()) ∧
        RowsAre s' key cols r (CMS.updRows m cs count) ∧
        (∀ k, (∀ j, r ≤ j → k ≠ cmsRowKey key j) → s' k = s k) := by
  intro cs
  induction cs with
  | nil =>
    intro r s m _ hm _
    refine ⟨s, rfl, ?_, fun _ _ => rfl⟩
    cases m <;> exact hm
  | cons c cs ih =>
    intro r s m hlen hm hc
    cases m with
    | nil => simp at hlen
    | cons row m =>
      obtain ⟨⟨l, hl, hll, hlm⟩, hrest⟩ := hm
      have hcl : c < l.length := by rw [hll]; exact hc c List.mem_cons_self
      -- the value read by LINDEX
      have hrowlen : row.length = l.length := by
        have := congrArg List.length hlm; simpa using this.symm
      have hget : l[c]? = some l[c] := List.getElem?_eq_getElem hcl
      have hparse : parseDecimal l[c] = some (row.getD c 0) := by
        have h1 : (l.map parseDecimal)[c]? = (row.map some)[c]? := by rw [hlm]
        rw [List.getElem?_map, List.getElem?_map, hget] at h1
        have hr : row[c]? = some (row.getD c 0) := by
          rw [List.getD_eq_getElem?_getD, List.getElem?_eq_getElem (by omega)]; rfl
        rw [hr] at h1
        simpa using h1
      let s1 := s.set (cmsRowKey key r) (.list (l.set c (decimal (row.getD c 0 + count))))
      have hrest1 : RowsAre s1 key cols (r + 1) m :=
        hrest.congr (fun j hj => Store.set_ne s _ (fun e => by have := cmsRowKey_inj e; omega))
      obtain ⟨s', hrun, hrows, hframe⟩ := ih (r + 1) s1 m (by simpa using hlen) hrest1
        (fun c' hc' => hc c' (List.mem_cons_of_mem _ hc'))
      refine ⟨s', ?_, ⟨?_, hrows⟩, ?_⟩
      · unfold cmsUpdateLoop
        rw [Script.bind_ok (cmdLINDEX_list hl c), hget, Script.bind_ok (luaNumber_some hparse s)]
        have : Script.try_ (cmdLSET (cmsRowKey key r) c (decimal (row.getD c 0 + count))) s
            = (s1, some (some ())) := by
          unfold Script.try_; rw [cmdLSET_list hl hcl]
        rw [Script.bind_ok this]
        exact hrun
      · refine ⟨_, ?_, ?_, set_map_parse hlm c (· + count) hcl⟩
        · rw [hframe _ (fun j hj e => by have := cmsRowKey_inj e; omega)]
          exact Store.set_self _ _ _
        · simpa using hll
      · intro k hk
        rw [hframe k (fun j hj => hk j (by omega))]
        exact Store.set_ne s _ (hk r (Nat.le_refl _))

theorem updRows_length (m : List (List Nat)) (pos : List Nat) (c : Nat) :
    (CMS.updRows m pos c).length = m.length := by
  induction m generalizing pos with
  | nil => cases pos <;> rfl
  | cons row m ih => cases pos <;> simp [CMS.updRows, ih]

/-! ### Count -/

theorem cmsCountLoop_spec (key : String) (cols : Nat) :
    ∀ (cs : List Nat) (r : Nat) (s : Store) (m : List (List Nat)) (mn : Nat),
      0 < r → cs.length ≤ m.length → RowsAre s key cols r m → (∀ c ∈ cs, c < cols) →
      cmsCountLoop key r cs mn s =
        (s, some ((CMS.cells m cs).foldl (fun mn x => if x < mn then x else mn) mn)) := by
  intro cs
  induction cs with
  | nil => intro r s m mn _ _ _ _; cases m <;> rfl
  | cons c cs ih =>
    intro r s m mn hr hlen hm hc
    cases m with
    | nil => simp at hlen
    | cons row m =>
      obtain ⟨⟨l, hl, hll, hlm⟩, hrest⟩ := hm
      have hcl : c < l.length := by rw [hll]; exact hc c List.mem_cons_self
      have hrowlen : row.length = l.length := by
        have := congrArg List.length hlm; simpa using this.symm
      have hget : l[c]? = some l[c] := List.getElem?_eq_getElem hcl
      have hparse : parseDecimal l[c] = some (row.getD c 0) := by
        have h1 : (l.map parseDecimal)[c]? = (row.map some)[c]? := by rw [hlm]
        rw [List.getElem?_map, List.getElem?_map, hget] at h1
        have hr : row[c]? = some (row.getD c 0) := by
          rw [List.getD_eq_getElem?_getD, List.getElem?_eq_getElem (by omega)]; rfl
        rw [hr] at h1
        simpa using h1
      unfold cmsCountLoop
      rw [Script.bind_ok (cmdLINDEX_list hl c), hget, Script.bind_ok (luaNumber_some hparse s)]
      rw [ih (r + 1) s m _ (by omega) (by simpa using hlen) hrest
        (fun c' hc' => hc c' (List.mem_cons_of_mem _ hc'))]
      have : r ≠ 0 := by omega
      simp only [CMS.cells, List.foldl_cons, this, or_false]

theorem cmsCount_spec (key : String) (cols : Nat) (pos : List Nat) (s : Store) (m : List (List Nat))
    (hlen : pos.length ≤ m.length) (hm : RowsAre s key cols 0 m) (hc : ∀ c ∈ pos, c < cols) :
    cmsCountLoop key 0 pos 0 s = (s, some (CMS.minInit (CMS.cells m pos))) := by
  cases pos with
  | nil => cases m <;> rfl
  | cons c cs =>
    cases m with
    | nil => simp at hlen
    | cons row m =>
      obtain ⟨⟨l, hl, hll, hlm⟩, hrest⟩ := hm
      have hcl : c < l.length := by rw [hll]; exact hc c List.mem_cons_self
      have hrowlen : row.length = l.length := by
        have := congrArg List.length hlm; simpa using this.symm
      have hget : l[c]? = some l[c] := List.getElem?_eq_getElem hcl
      have hparse : parseDecimal l[c] = some (row.getD c 0) := by
        have h1 : (l.map parseDecimal)[c]? = (row.map some)[c]? := by rw [hlm]
        rw [List.getElem?_map, List.getElem?_map, hget] at h1
        have hr : row[c]? = some (row.getD c 0) := by
          rw [List.getD_eq_getElem?_getD, List.getElem?_eq_getElem (by omega)]; rfl
        rw [hr] at h1
        simpa using h1
      unfold cmsCountLoop
      rw [Script.bind_ok (cmdLINDEX_list hl c), hget, Script.bind_ok (luaNumber_some hparse s)]
      rw [cmsCountLoop_spec key cols cs 1 s m _ (by omega) (by simpa using hlen) hrest
        (fun c' hc' => hc c' (List.mem_cons_of_mem _ hc'))]
      simp only [CMS.cells, CMS.minInit, or_true, if_true]

end Gostatix.Redis
