/-
  Gostatix.Proofs.C07Merge — helper definitions and lemmas for Props/C07Merge.lean (calls that
  consist of TWO critical sections: `Merge` of count_min_sketch.go / hyperloglog.go after the lock
  fixes).  Core Lean only.

  * `Op` / `Sec`: a thread is a list of operations `upd a | merge`; an update is one critical
    section, a merge is the two sections `snap ; app`.
  * `TwoPhase`: the semantics parameters (`f` update, `snap` what the first section records,
    `ap v` what the second section does with the recorded value `v`).
  * section traces `List (Nat × Sec α)` (thread, section), the two-phase semantics `stepC`
    (state × thread-locals) and the atomic semantics `stepA` (merge = one step at the snapshot
    section, the apply section is a no-op).
  * `WT mid w`: the trace `w` is well formed when the threads in `mid` are between the two
    sections of a merge — what program order gives (`WT.of_proj`).
  * `exec_stepC_eq_stepA`: no snapshot section inside another merge + `ap v` commutes with the
    updates of the other threads ⇒ two-phase run = atomic run.
  * `exec_stepC_eq_lin`: all schedules: two-phase run = run with every merge at its snapshot
    section applying the value it recorded (needs `ap`/`ap` commutation as well).
  * `noOverlap_of_single_merger`: one merging thread ⇒ merges never overlap.
  * the connection with the mutex model of Model/Conc.lean: `bodyC` / `threadsC` (two-phase call
    bodies on `σ × Loc ν`), `bodyA` / `threadsA` (atomic merges, same call ids), `traceOf`
    (section trace of an order of call ids), `projT_traceOf_bodies` (program order),
    `log_threadsC` (recorded values = results of the snapshot calls), `updsOf_acqOrder_perm`,
    `countP_isSnap_acqOrder` (every update once, one snapshot per merge).
  * two instances (`h.Merge(g)`): `crossTP`, h's serial history `hHist`, `gUpds`, `hUpds`,
    `gSnaps`, and the projections of the runs on the two components.
-/
import Gostatix.Proofs.Conc
import Gostatix.Proofs.ConcMerge
import Gostatix.Props.C07
namespace Gostatix.Conc

universe u v w

/-! ### operations, sections, traces -/

/-- an operation of a thread: a single-section update, or a two-section merge -/
inductive Op (α : Type w) where
  | upd (a : α)
  | merge
  deriving Repr, DecidableEq

/-- a critical section: an update, the snapshot section of a merge, the apply section of a merge -/
inductive Sec (α : Type w) where
  | upd (a : α)
  | snap
  | app
  deriving Repr, DecidableEq

def Op.secs {α : Type w} : Op α → List (Sec α)
  | .upd a => [.upd a]
  | .merge => [.snap, .app]

/-- the critical sections of a thread, in program order -/
def secsOf {α : Type w} (ops : List (Op α)) : List (Sec α) := ops.flatMap Op.secs

@[simp] theorem secsOf_nil {α : Type w} : secsOf ([] : List (Op α)) = [] := rfl
@[simp] theorem secsOf_upd {α : Type w} (a : α) (o : List (Op α)) :
    secsOf (.upd a :: o) = .upd a :: secsOf o := rfl
@[simp] theorem secsOf_merge {α : Type w} (o : List (Op α)) :
    secsOf (.merge :: o) = .snap :: .app :: secsOf o := rfl

/-- the parameters of the semantics -/
structure TwoPhase (σ : Type u) (ν : Type v) (α : Type w) where
  /-- an update section -/
  f : σ → α → σ
  /-- what the snapshot section copies out of the state -/
  snap : σ → ν
  /-- what the apply section does with the copy -/
  ap : ν → σ → σ

/-- the thread-locals: `loc t` is the copy thread `t` holds (Go: the local `other`) -/
abbrev Loc (ν : Type v) := Nat → Option ν

def setLoc {ν : Type v} (l : Loc ν) (t : Nat) (v : ν) : Loc ν := fun u => if u = t then some v else l u

def setMid (mid : Nat → Bool) (t : Nat) (b : Bool) : Nat → Bool := fun u => if u = t then b else mid u

section sem
variable {σ : Type u} {ν : Type v} {α : Type w} (M : TwoPhase σ ν α)

def TwoPhase.applyLoc (o : Option ν) (s : σ) : σ :=
  match o with
  | some v => M.ap v s
  | none => s

/-- two-phase semantics of one critical section of thread `e.1` -/
def TwoPhase.stepC (r : σ × Loc ν) (e : Nat × Sec α) : σ × Loc ν :=
  match e with
  | (_, .upd a) => (M.f r.1 a, r.2)
  | (t, .snap) => (r.1, setLoc r.2 t (M.snap r.1))
  | (t, .app) => (M.applyLoc (r.2 t) r.1, r.2)

/-- atomic semantics: the whole merge happens at its snapshot section -/
def TwoPhase.stepA (s : σ) (e : Nat × Sec α) : σ :=
  match e with
  | (_, .upd a) => M.f s a
  | (_, .snap) => M.ap (M.snap s) s
  | (_, .app) => s

end sem

/-- projection of a trace on thread `t` -/
def projT {α : Type w} (tr : List (Nat × Sec α)) (t : Nat) : List (Sec α) :=
  (tr.filter (fun e => e.1 == t)).map (·.2)

theorem projT_cons_self {α : Type w} (t : Nat) (k : Sec α) (tr : List (Nat × Sec α)) :
    projT ((t, k) :: tr) t = k :: projT tr t := by
  simp [projT]

theorem projT_cons_ne {α : Type w} {t t' : Nat} (h : t' ≠ t) (k : Sec α) (tr : List (Nat × Sec α)) :
    projT ((t', k) :: tr) t = projT tr t := by
  simp [projT, h]

/-- `WT mid tr`: `tr` is a well-formed rest of a trace when exactly the threads `t` with
    `mid t = true` are between the snapshot and the apply section of a merge. -/
inductive WT {α : Type w} : (Nat → Bool) → List (Nat × Sec α) → Prop
  | nil (mid : Nat → Bool) : (∀ t, mid t = false) → WT mid []
  | upd (mid : Nat → Bool) (t : Nat) (a : α) (tr : List (Nat × Sec α)) :
      mid t = false → WT mid tr → WT mid ((t, .upd a) :: tr)
  | snap (mid : Nat → Bool) (t : Nat) (tr : List (Nat × Sec α)) :
      mid t = false → WT (setMid mid t true) tr → WT mid ((t, .snap) :: tr)
  | app (mid : Nat → Bool) (t : Nat) (tr : List (Nat × Sec α)) :
      mid t = true → WT (setMid mid t false) tr → WT mid ((t, .app) :: tr)

/-- program order gives well-formedness: every thread's projection is the rest of its program -/
theorem WT.of_proj {α : Type w} (tr : List (Nat × Sec α)) :
    ∀ (mid : Nat → Bool) (o : Nat → List (Op α)),
      (∀ t, projT tr t = (if mid t = true then [Sec.app] else []) ++ secsOf (o t)) → WT mid tr := by
  induction tr with
  | nil =>
    intro mid o h
    refine .nil mid (fun t => ?_)
    have := h t
    cases hm : mid t with
    | false => rfl
    | true => simp [projT, hm] at this
  | cons e tr ih =>
    intro mid o h
    obtain ⟨t0, k⟩ := e
    have h0 := h t0
    rw [projT_cons_self] at h0
    have hne : ∀ t, t ≠ t0 → projT tr t = (if mid t = true then [Sec.app] else []) ++ secsOf (o t) := by
      intro t ht
      have := h t
      rwa [projT_cons_ne (fun e => ht e.symm)] at this
    cases hm : mid t0 with
    | true =>
      simp only [hm, if_true, List.singleton_append, List.cons.injEq] at h0
      obtain ⟨rfl, h0⟩ := h0
      refine .app mid t0 tr hm (ih _ o ?_)
      intro t
      by_cases e : t = t0
      · subst e; simp [setMid, h0]
      · simp only [setMid, e, if_false]; exact hne t e
    | false =>
      simp only [hm, Bool.false_eq_true, if_false, List.nil_append] at h0
      cases ho : o t0 with
      | nil => rw [ho] at h0; simp at h0
      | cons x o' =>
        rw [ho] at h0
        cases x with
        | upd a =>
          simp only [secsOf_upd, List.cons.injEq] at h0
          obtain ⟨rfl, h0⟩ := h0
          refine .upd mid t0 a tr hm (ih mid (fun u => if u = t0 then o' else o u) ?_)
          intro t
          by_cases e : t = t0
          · subst e; simp [hm, h0]
          · simp only [e, if_false]; exact hne t e
        | merge =>
          simp only [secsOf_merge, List.cons.injEq] at h0
          obtain ⟨rfl, h0⟩ := h0
          refine .snap mid t0 tr hm (ih _ (fun u => if u = t0 then o' else o u) ?_)
          intro t
          by_cases e : t = t0
          · subst e; simp [setMid, h0]
          · simp only [setMid, e, if_false]; exact hne t e

/-- a thread that is inside a merge still has its apply section ahead -/
theorem WT.app_mem {α : Type w} {mid : Nat → Bool} {tr : List (Nat × Sec α)} (h : WT mid tr) :
    ∀ m, mid m = true → (m, Sec.app) ∈ tr := by
  induction h with
  | nil mid h0 => intro m hm; rw [h0 m] at hm; cases hm
  | upd mid t a tr _ _ ih => intro m hm; exact List.mem_cons_of_mem _ (ih m hm)
  | snap mid t tr ht _ ih =>
    intro m hm
    refine List.mem_cons_of_mem _ (ih m ?_)
    by_cases e : m = t
    · subst e; simp [setMid]
    · simp [setMid, e, hm]
  | app mid t tr ht _ ih =>
    intro m hm
    by_cases e : m = t
    · subst e; exact List.mem_cons_self
    · exact List.mem_cons_of_mem _ (ih m (by simp [setMid, e, hm]))

/-! ### merges that do not overlap: the two-phase run is the atomic run -/

/-- no snapshot section is entered while some merge is between its two sections (`b`: some merge
    is between its sections now) -/
def noOverlapFrom {α : Type w} : Bool → List (Nat × Sec α) → Bool
  | _, [] => true
  | b, (_, .upd _) :: tr => noOverlapFrom b tr
  | b, (_, .snap) :: tr => !b && noOverlapFrom true tr
  | _, (_, .app) :: tr => noOverlapFrom false tr

section atomic
variable {σ : Type u} {ν : Type v} {α : Type w} (M : TwoPhase σ ν α)

/-- the state of the atomic run: the pending copy (if a merge is between its sections) is
    already applied -/
def TwoPhase.pendApply (p : Option Nat) (loc : Loc ν) (s : σ) : σ :=
  match p with
  | none => s
  | some t => M.applyLoc (loc t) s

theorem exec_stepC_eq_stepA_aux {mid : Nat → Bool} {tr : List (Nat × Sec α)} (h : WT mid tr) :
    ∀ (p : Option Nat) (s : σ) (loc : Loc ν),
      (∀ t, mid t = true ↔ p = some t) →
      noOverlapFrom p.isSome tr = true →
      (∀ m t a, m ≠ t → (m, Sec.app) ∈ tr → (t, Sec.upd a) ∈ tr →
        ∀ v s, M.ap v (M.f s a) = M.f (M.ap v s) a) →
      (exec M.stepC (s, loc) tr).1 = exec M.stepA (M.pendApply p loc s) tr := by
  induction h with
  | nil mid h0 =>
    intro p s loc hinv _ _
    cases p with
    | none => rfl
    | some t => have := (hinv t).2 rfl; rw [h0 t] at this; cases this
  | upd mid t a tr ht hwt ih =>
    intro p s loc hinv hno hc
    have hc' : ∀ m t a, m ≠ t → (m, Sec.app) ∈ tr → (t, Sec.upd a) ∈ tr →
        ∀ v s, M.ap v (M.f s a) = M.f (M.ap v s) a :=
      fun m t a hmt hm hu => hc m t a hmt (List.mem_cons_of_mem _ hm) (List.mem_cons_of_mem _ hu)
    have := ih p (M.f s a) loc hinv hno hc'
    simp only [exec, List.foldl_cons] at this ⊢
    show (List.foldl M.stepC (M.f s a, loc) tr).1 = _
    rw [this]
    congr 1
    cases p with
    | none => rfl
    | some m =>
      have hm : mid m = true := (hinv m).2 rfl
      have hmt : m ≠ t := by intro e; subst e; rw [ht] at hm; cases hm
      show M.applyLoc (loc m) (M.f s a) = M.f (M.applyLoc (loc m) s) a
      cases hl : loc m with
      | none => rfl
      | some v =>
        exact hc m t a hmt (List.mem_cons_of_mem _ (hwt.app_mem m hm)) List.mem_cons_self v s
  | snap mid t tr ht hwt ih =>
    intro p s loc hinv hno hc
    have hc' : ∀ m t a, m ≠ t → (m, Sec.app) ∈ tr → (t, Sec.upd a) ∈ tr →
        ∀ v s, M.ap v (M.f s a) = M.f (M.ap v s) a :=
      fun m t a hmt hm hu => hc m t a hmt (List.mem_cons_of_mem _ hm) (List.mem_cons_of_mem _ hu)
    simp only [noOverlapFrom, Bool.and_eq_true, Bool.not_eq_true'] at hno
    have hp : p = none := by cases p <;> simp_all
    subst hp
    have hinv' : ∀ t', setMid mid t true t' = true ↔ some t = some t' := by
      intro t'
      by_cases e : t' = t
      · subst e; simp [setMid]
      · have : mid t' = false := by
          cases hm : mid t' with
          | false => rfl
          | true => have := (hinv t').1 hm; cases this
        simp only [setMid, e, if_false, this, Option.some.injEq]
        constructor
        · intro h; cases h
        · intro h; exact absurd h.symm e
    have := ih (some t) s (setLoc loc t (M.snap s)) hinv' hno.2 hc'
    simp only [exec, List.foldl_cons] at this ⊢
    show (List.foldl M.stepC (s, setLoc loc t (M.snap s)) tr).1 = _
    rw [this]
    congr 1
    simp [TwoPhase.pendApply, TwoPhase.applyLoc, setLoc, TwoPhase.stepA]
  | app mid t tr ht hwt ih =>
    intro p s loc hinv hno hc
    have hc' : ∀ m t a, m ≠ t → (m, Sec.app) ∈ tr → (t, Sec.upd a) ∈ tr →
        ∀ v s, M.ap v (M.f s a) = M.f (M.ap v s) a :=
      fun m t a hmt hm hu => hc m t a hmt (List.mem_cons_of_mem _ hm) (List.mem_cons_of_mem _ hu)
    have hp : p = some t := (hinv t).1 ht
    subst hp
    have hinv' : ∀ t', setMid mid t false t' = true ↔ (none : Option Nat) = some t' := by
      intro t'
      by_cases e : t' = t
      · subst e; simp [setMid]
      · simp only [setMid, e, if_false]
        constructor
        · intro h; have := (hinv t').1 h; cases this; exact absurd rfl e
        · intro h; cases h
    have := ih none (M.applyLoc (loc t) s) loc hinv' (by simpa [noOverlapFrom] using hno) hc'
    simp only [exec, List.foldl_cons] at this ⊢
    show (List.foldl M.stepC (M.applyLoc (loc t) s, loc) tr).1 = _
    rw [this]
    rfl

/-- **non-overlapping two-phase merges are atomic at their snapshot section.**  For a trace in
    program order (`projT tr t = secsOf (ops t)` for every thread) in which no snapshot section is
    entered while another merge is between its two sections, and `ap v` commuting with the updates
    of the threads other than the merging one: the two-phase run ends in the state of the atomic
    run. -/
theorem exec_stepC_eq_stepA (ops : Nat → List (Op α)) (tr : List (Nat × Sec α))
    (hproj : ∀ t, projT tr t = secsOf (ops t))
    (hno : noOverlapFrom false tr = true)
    (hc : ∀ m t a, m ≠ t → (m, Sec.app) ∈ tr → (t, Sec.upd a) ∈ tr →
      ∀ v s, M.ap v (M.f s a) = M.f (M.ap v s) a)
    (s : σ) (loc : Loc ν) :
    (exec M.stepC (s, loc) tr).1 = exec M.stepA s tr := by
  have hwt : WT (fun _ => false) tr := WT.of_proj tr _ ops (by intro t; simpa using hproj t)
  exact exec_stepC_eq_stepA_aux M hwt none s loc (by intro t; simp) hno hc

end atomic

/-- when only thread `m` issues merges, merges cannot overlap (program order of `m`) -/
theorem noOverlap_of_single_merger {α : Type w} {mid : Nat → Bool} {tr : List (Nat × Sec α)}
    (h : WT mid tr) (m : Nat) :
    (∀ t, t ≠ m → (t, Sec.snap) ∉ tr) → (∀ t, t ≠ m → mid t = false) →
    noOverlapFrom (mid m) tr = true := by
  induction h with
  | nil mid h0 => intro _ _; rfl
  | upd mid t a tr ht _ ih =>
    intro hs hm
    exact ih (fun t ht h => hs t ht (List.mem_cons_of_mem _ h)) hm
  | snap mid t tr ht _ ih =>
    intro hs hm
    have htm : t = m := by
      rcases Classical.em (t = m) with e | e
      · exact e
      · exact absurd List.mem_cons_self (hs t e)
    subst htm
    have := ih (fun t ht h => hs t ht (List.mem_cons_of_mem _ h))
      (fun u hu => by simp [setMid, hu, hm u hu])
    simp only [setMid, if_true] at this
    simp [noOverlapFrom, ht, this]
  | app mid t tr ht _ ih =>
    intro hs hm
    have htm : t = m := by
      rcases Classical.em (t = m) with e | e
      · exact e
      · rw [hm t e] at ht; cases ht
    subst htm
    have := ih (fun t ht h => hs t ht (List.mem_cons_of_mem _ h))
      (fun u hu => by simp [setMid, hu, hm u hu])
    simp only [setMid, if_true] at this
    simp [noOverlapFrom, this]

/-! ### all schedules: every merge at its snapshot section, applying the value it recorded -/

section lin
variable {σ : Type u} {ν : Type v} {α : Type w} (M : TwoPhase σ ν α)

/-- a step of the linearised history: an update, or "apply the value `v`" -/
def TwoPhase.stepL (s : σ) : α ⊕ ν → σ
  | .inl a => M.f s a
  | .inr v => M.ap v s

/-- the linearised history of a two-phase run from `r`: updates stay where they are, a snapshot
    section becomes "apply the value recorded here" (the value the state has in THIS run at that
    point), apply sections disappear -/
def TwoPhase.linHist : σ × Loc ν → List (Nat × Sec α) → List (α ⊕ ν)
  | _, [] => []
  | r, (t, .upd a) :: tr => .inl a :: TwoPhase.linHist (M.stepC r (t, .upd a)) tr
  | r, (t, .snap) :: tr => .inr (M.snap r.1) :: TwoPhase.linHist (M.stepC r (t, .snap)) tr
  | r, (t, .app) :: tr => TwoPhase.linHist (M.stepC r (t, .app)) tr

def TwoPhase.applyAll (l : List ν) (s : σ) : σ := l.foldl (fun s v => M.ap v s) s

theorem TwoPhase.applyAll_f (l : List ν) (a : α)
    (h : ∀ v ∈ l, ∀ s, M.ap v (M.f s a) = M.f (M.ap v s) a) (s : σ) :
    M.applyAll l (M.f s a) = M.f (M.applyAll l s) a := by
  induction l generalizing s with
  | nil => rfl
  | cons x l ih =>
    simp only [TwoPhase.applyAll, List.foldl_cons] at ih ⊢
    rw [h x List.mem_cons_self s]
    exact ih (fun v hv => h v (List.mem_cons_of_mem _ hv)) _

theorem TwoPhase.applyAll_ap (haa : ∀ v v' s, M.ap v (M.ap v' s) = M.ap v' (M.ap v s))
    (l : List ν) (v : ν) (s : σ) : M.ap v (M.applyAll l s) = M.applyAll l (M.ap v s) := by
  induction l generalizing s with
  | nil => rfl
  | cons x l ih =>
    simp only [TwoPhase.applyAll, List.foldl_cons] at ih ⊢
    rw [ih, haa v x s]

theorem TwoPhase.applyAll_perm (haa : ∀ v v' s, M.ap v (M.ap v' s) = M.ap v' (M.ap v s))
    {l₁ l₂ : List ν} (p : l₁.Perm l₂) (s : σ) : M.applyAll l₁ s = M.applyAll l₂ s :=
  foldl_perm_of_commute (f := fun s v => M.ap v s) (fun s a b => haa b a s) p s

theorem exec_stepC_eq_lin_aux (haa : ∀ v v' s, M.ap v (M.ap v' s) = M.ap v' (M.ap v s))
    {mid : Nat → Bool} {tr : List (Nat × Sec α)} (h : WT mid tr) :
    ∀ (P : List (Nat × ν)) (s : σ) (loc : Loc ν),
      (∀ t, mid t = true ↔ t ∈ P.map (·.1)) → (P.map (·.1)).Nodup →
      (∀ e ∈ P, loc e.1 = some e.2) →
      (∀ m t a, m ≠ t → (m, Sec.app) ∈ tr → (t, Sec.upd a) ∈ tr →
        ∀ v s, M.ap v (M.f s a) = M.f (M.ap v s) a) →
      (exec M.stepC (s, loc) tr).1
        = exec M.stepL (M.applyAll (P.map (·.2)) s) (M.linHist (s, loc) tr) := by
  induction h with
  | nil mid h0 =>
    intro P s loc hinv _ _ _
    cases P with
    | nil => rfl
    | cons e P => have := (hinv e.1).2 (by simp); rw [h0] at this; cases this
  | upd mid t a tr ht hwt ih =>
    intro P s loc hinv hnd hloc hc
    have hc' : ∀ m t a, m ≠ t → (m, Sec.app) ∈ tr → (t, Sec.upd a) ∈ tr →
        ∀ v s, M.ap v (M.f s a) = M.f (M.ap v s) a :=
      fun m t a hmt hm hu => hc m t a hmt (List.mem_cons_of_mem _ hm) (List.mem_cons_of_mem _ hu)
    have := ih P (M.f s a) loc hinv hnd hloc hc'
    simp only [exec, List.foldl_cons, TwoPhase.linHist] at this ⊢
    show (List.foldl M.stepC (M.f s a, loc) tr).1 = _
    rw [this]
    congr 1
    show _ = M.f (M.applyAll (P.map (·.2)) s) a
    apply M.applyAll_f
    intro v hv s'
    obtain ⟨e, he, rfl⟩ := List.mem_map.1 hv
    have hm : mid e.1 = true := (hinv e.1).2 (List.mem_map.2 ⟨e, he, rfl⟩)
    have hmt : e.1 ≠ t := by intro h; rw [h, ht] at hm; cases hm
    exact hc e.1 t a hmt (List.mem_cons_of_mem _ (hwt.app_mem e.1 hm)) List.mem_cons_self e.2 s'
  | snap mid t tr ht hwt ih =>
    intro P s loc hinv hnd hloc hc
    have hc' : ∀ m t a, m ≠ t → (m, Sec.app) ∈ tr → (t, Sec.upd a) ∈ tr →
        ∀ v s, M.ap v (M.f s a) = M.f (M.ap v s) a :=
      fun m t a hmt hm hu => hc m t a hmt (List.mem_cons_of_mem _ hm) (List.mem_cons_of_mem _ hu)
    have htP : t ∉ P.map (·.1) := by
      intro h; have := (hinv t).2 h; rw [ht] at this; cases this
    have hinv' : ∀ t', setMid mid t true t' = true ↔ t' ∈ ((t, M.snap s) :: P).map (·.1) := by
      intro t'
      by_cases e : t' = t
      · subst e; simp [setMid]
      · simp only [setMid, e, if_false, List.map_cons, List.mem_cons, false_or]
        exact hinv t'
    have hnd' : (((t, M.snap s) :: P).map (·.1)).Nodup := by
      simp only [List.map_cons, List.nodup_cons]; exact ⟨htP, hnd⟩
    have hloc' : ∀ e ∈ (t, M.snap s) :: P, setLoc loc t (M.snap s) e.1 = some e.2 := by
      intro e he
      rcases List.mem_cons.1 he with rfl | he
      · simp [setLoc]
      · have : e.1 ≠ t := by
          intro h; exact htP (h ▸ List.mem_map.2 ⟨e, he, rfl⟩)
        simp only [setLoc, this, if_false]; exact hloc e he
    have := ih ((t, M.snap s) :: P) s (setLoc loc t (M.snap s)) hinv' hnd' hloc' hc'
    simp only [exec, List.foldl_cons, TwoPhase.linHist] at this ⊢
    show (List.foldl M.stepC (s, setLoc loc t (M.snap s)) tr).1 = _
    rw [this]
    congr 1
    show M.applyAll (M.snap s :: P.map (·.2)) s = M.ap (M.snap s) (M.applyAll (P.map (·.2)) s)
    rw [M.applyAll_ap haa]
    rfl
  | app mid t tr ht hwt ih =>
    intro P s loc hinv hnd hloc hc
    have hc' : ∀ m t a, m ≠ t → (m, Sec.app) ∈ tr → (t, Sec.upd a) ∈ tr →
        ∀ v s, M.ap v (M.f s a) = M.f (M.ap v s) a :=
      fun m t a hmt hm hu => hc m t a hmt (List.mem_cons_of_mem _ hm) (List.mem_cons_of_mem _ hu)
    obtain ⟨e, he, het⟩ := List.mem_map.1 ((hinv t).1 ht)
    obtain ⟨P1, P2, rfl⟩ := List.append_of_mem he
    obtain ⟨t0, v⟩ := e
    simp only at het; subst het
    have hlt : loc t0 = some v := hloc (t0, v) he
    simp only [List.map_append, List.map_cons] at hnd
    have hnd2 := List.perm_middle.nodup_iff.1 hnd
    rw [List.nodup_cons] at hnd2
    obtain ⟨hnot, hnd'⟩ := hnd2
    have hinv' : ∀ t', setMid mid t0 false t' = true ↔ t' ∈ (P1 ++ P2).map (·.1) := by
      intro t'
      by_cases e : t' = t0
      · subst e
        simp only [setMid, if_true, Bool.false_eq_true, false_iff, List.map_append]
        exact hnot
      · simp only [setMid, e, if_false]
        rw [hinv t']
        simp [e]
    have hloc' : ∀ e ∈ P1 ++ P2, loc e.1 = some e.2 := by
      intro e he
      apply hloc
      rcases List.mem_append.1 he with h | h
      · exact List.mem_append_left _ h
      · exact List.mem_append_right _ (List.mem_cons_of_mem _ h)
    have := ih (P1 ++ P2) (M.ap v s) loc hinv' (by simpa using hnd') hloc' hc'
    have hstep : M.stepC (s, loc) (t0, Sec.app) = (M.ap v s, loc) := by
      simp [TwoPhase.stepC, TwoPhase.applyLoc, hlt]
    simp only [exec, List.foldl_cons, TwoPhase.linHist, hstep] at this ⊢
    rw [this]
    congr 1
    show M.applyAll (v :: (P1 ++ P2).map (·.2)) s = _
    apply M.applyAll_perm haa
    simp only [List.map_append, List.map_cons]
    exact List.perm_middle.symm

/-- **every schedule** (overlapping merges allowed): the two-phase run ends in the state of the
    serial run in which each merge sits at its snapshot section and applies the value it recorded
    there.  Needs `ap`/`ap` commutation, and `ap`/update commutation for the OTHER threads'
    updates. -/
theorem exec_stepC_eq_lin (haa : ∀ v v' s, M.ap v (M.ap v' s) = M.ap v' (M.ap v s))
    (ops : Nat → List (Op α)) (tr : List (Nat × Sec α))
    (hproj : ∀ t, projT tr t = secsOf (ops t))
    (hc : ∀ m t a, m ≠ t → (m, Sec.app) ∈ tr → (t, Sec.upd a) ∈ tr →
      ∀ v s, M.ap v (M.f s a) = M.f (M.ap v s) a)
    (s : σ) (loc : Loc ν) :
    (exec M.stepC (s, loc) tr).1 = exec M.stepL s (M.linHist (s, loc) tr) := by
  have hwt : WT (fun _ => false) tr := WT.of_proj tr _ ops (by intro t; simpa using hproj t)
  exact exec_stepC_eq_lin_aux M haa hwt [] s loc (by intro t; simp) (by simp) (by simp) hc

end lin

/-! ### the connection with the mutex model of `Model/Conc.lean` (`acq ; body ; rel` per section) -/

section actlevel
variable {σ : Type u} {ν : Type v} {α : Type w} (M : TwoPhase σ ν α)

/-- the body of a critical section of thread `t` in the two-phase semantics, as a call body of the
    mutex model: the guarded state is the structure's state together with the thread-locals; the
    result of a snapshot section is the value it recorded -/
def TwoPhase.bodyC (t : Nat) : Sec α → (σ × Loc ν → (σ × Loc ν) × Option ν)
  | .upd a => fun r => ((M.f r.1 a, r.2), none)
  | .snap => fun r => ((r.1, setLoc r.2 t (M.snap r.1)), some (M.snap r.1))
  | .app => fun r => ((M.applyLoc (r.2 t) r.1, r.2), none)

/-- the body of a critical section in the atomic semantics -/
def TwoPhase.bodyA : Sec α → (σ → σ × Option ν)
  | .upd a => fun s => (M.f s a, none)
  | .snap => fun s => (M.ap (M.snap s) s, some (M.snap s))
  | .app => fun s => (s, none)

theorem TwoPhase.bodyC_fst (t : Nat) (k : Sec α) (r : σ × Loc ν) :
    (M.bodyC t k r).1 = M.stepC r (t, k) := by cases k <;> rfl

theorem TwoPhase.bodyA_fst (t : Nat) (k : Sec α) (s : σ) :
    (M.bodyA k s).1 = M.stepA s (t, k) := by cases k <;> rfl

/-- thread `t` runs the operations `ops[t]`: its calls (critical sections) in the two-phase
    semantics -/
def TwoPhase.threadsC (ops : List (List (Op α))) : List (List (σ × Loc ν → (σ × Loc ν) × Option ν)) :=
  ops.mapIdx (fun t o => (secsOf o).map (M.bodyC t))

/-- the same threads with atomic merges (same call ids: the apply section is a no-op call) -/
def TwoPhase.threadsA (ops : List (List (Op α))) : List (List (σ → σ × Option ν)) :=
  ops.map (fun o => (secsOf o).map M.bodyA)

/-- the section behind a call id -/
def secAt (ops : List (List (Op α))) (c : CallId) : Option (Sec α) :=
  (secsOf ((ops[c.1]?).getD []))[c.2]?

/-- the section trace of an order of calls -/
def traceOf (ops : List (List (Op α))) (order : List CallId) : List (Nat × Sec α) :=
  order.filterMap (fun c => (secAt ops c).map (fun k => (c.1, k)))

theorem bodyAt_threadsC (ops : List (List (Op α))) (c : CallId) :
    bodyAt (M.threadsC ops) c = (secAt ops c).map (M.bodyC c.1) := by
  simp only [bodyAt, TwoPhase.threadsC, List.getElem?_mapIdx, secAt]
  cases ops[c.1]? <;> simp

theorem bodyAt_threadsA (ops : List (List (Op α))) (c : CallId) :
    bodyAt (M.threadsA ops) c = (secAt ops c).map M.bodyA := by
  simp only [bodyAt, TwoPhase.threadsA, List.getElem?_map, secAt]
  cases ops[c.1]? <;> simp

theorem sched_threadsC (ops : List (List (Op α))) :
    sched (M.threadsC ops) = progs (ops.map (fun o => (secsOf o).length)) := by
  unfold sched TwoPhase.threadsC
  congr 1
  apply List.ext_getElem?
  intro i
  simp only [List.getElem?_map, List.getElem?_mapIdx]
  cases ops[i]? <;> simp

theorem sched_threadsA (ops : List (List (Op α))) :
    sched (M.threadsA ops) = progs (ops.map (fun o => (secsOf o).length)) := by
  simp [sched, TwoPhase.threadsA, Function.comp_def]

theorem exec_runCall_threadsC (ops : List (List (Op α))) (order : List CallId)
    (r : (σ × Loc ν) × List (CallId × Option ν)) :
    (exec (runCall (M.threadsC ops)) r order).1 = exec M.stepC r.1 (traceOf ops order) := by
  induction order generalizing r with
  | nil => rfl
  | cons c order ih =>
    simp only [exec, List.foldl_cons, traceOf, List.filterMap_cons] at ih ⊢
    rw [ih]
    simp only [runCall, bodyAt_threadsC]
    cases hk : secAt ops c with
    | none => rfl
    | some k => simp [M.bodyC_fst]

theorem exec_runCall_threadsA (ops : List (List (Op α))) (order : List CallId)
    (r : σ × List (CallId × Option ν)) :
    (exec (runCall (M.threadsA ops)) r order).1 = exec M.stepA r.1 (traceOf ops order) := by
  induction order generalizing r with
  | nil => rfl
  | cons c order ih =>
    simp only [exec, List.foldl_cons, traceOf, List.filterMap_cons] at ih ⊢
    rw [ih]
    simp only [runCall, bodyAt_threadsA]
    cases hk : secAt ops c with
    | none => rfl
    | some k => simp [M.bodyA_fst c.1]

theorem projT_traceOf (ops : List (List (Op α))) (order : List CallId) (t : Nat) :
    projT (traceOf ops order) t = (order.filter (fun c => c.1 == t)).filterMap (secAt ops) := by
  induction order with
  | nil => rfl
  | cons c order ih =>
    simp only [traceOf, projT, List.filterMap_cons, List.filter_cons] at ih ⊢
    cases hk : secAt ops c with
    | none =>
      by_cases e : c.1 = t <;> simp [e, hk, ih]
    | some k =>
      by_cases e : c.1 = t <;> simp [e, hk, ih]

/-- program order: in every schedule of the threads' programs the section trace projects, on
    every thread, to the thread's sections in program order (no validity needed: this is about
    the bodies only) -/
theorem projT_traceOf_bodies (ops : List (List (Op α))) (wa : List Act)
    (hi : Interleaving (progs (ops.map (fun o => (secsOf o).length))) wa) (t : Nat) :
    projT (traceOf ops (bodiesOf wa)) t = secsOf ((ops[t]?).getD []) := by
  rw [projT_traceOf, bodiesOf_filter, proj_progs hi t, bodiesOf_prog, List.filterMap_map]
  have hn : (((ops.map (fun o => (secsOf o).length))[t]?).getD 0) = (secsOf ((ops[t]?).getD [])).length := by
    rw [List.getElem?_map]; cases ops[t]? <;> rfl
  rw [hn]
  have hf : (secAt ops ∘ fun i => (t, i)) = fun i => (secsOf ((ops[t]?).getD []))[i]? := by
    funext i; rfl
  rw [hf]
  exact filterMap_getElem?_range _

end actlevel

/-! ### membership: from the trace back to the threads' operations -/

theorem mem_secsOf_upd {α : Type w} {a : α} {o : List (Op α)} (h : Sec.upd a ∈ secsOf o) :
    Op.upd a ∈ o := by
  induction o with
  | nil => simp at h
  | cons x o ih =>
    cases x with
    | upd b =>
      simp only [secsOf_upd, List.mem_cons, Sec.upd.injEq] at h
      rcases h with rfl | h
      · exact List.mem_cons_self
      · exact List.mem_cons_of_mem _ (ih h)
    | merge =>
      simp only [secsOf_merge, List.mem_cons, reduceCtorEq, false_or] at h
      exact List.mem_cons_of_mem _ (ih h)

theorem mem_secsOf_app {α : Type w} {o : List (Op α)} (h : Sec.app ∈ secsOf o) : Op.merge ∈ o := by
  induction o with
  | nil => simp at h
  | cons x o ih =>
    cases x with
    | upd b =>
      simp only [secsOf_upd, List.mem_cons, reduceCtorEq, false_or] at h
      exact List.mem_cons_of_mem _ (ih h)
    | merge => exact List.mem_cons_self

theorem mem_secsOf_snap {α : Type w} {o : List (Op α)} (h : Sec.snap ∈ secsOf o) : Op.merge ∈ o := by
  induction o with
  | nil => simp at h
  | cons x o ih =>
    cases x with
    | upd b =>
      simp only [secsOf_upd, List.mem_cons, reduceCtorEq, false_or] at h
      exact List.mem_cons_of_mem _ (ih h)
    | merge => exact List.mem_cons_self

theorem mem_traceOf {α : Type w} {ops : List (List (Op α))} {order : List CallId} {t : Nat} {k : Sec α}
    (h : (t, k) ∈ traceOf ops order) : k ∈ secsOf ((ops[t]?).getD []) := by
  simp only [traceOf, List.mem_filterMap, Option.map_eq_some_iff] at h
  obtain ⟨c, _, k', hk, he⟩ := h
  cases he
  exact List.mem_of_getElem? hk

/-- a section of a trace in program order belongs to its thread's program -/
theorem mem_of_projT {α : Type w} {tr : List (Nat × Sec α)} {t : Nat} {k : Sec α}
    (h : (t, k) ∈ tr) : k ∈ projT tr t := by
  simp only [projT, List.mem_map, List.mem_filter, beq_iff_eq]
  exact ⟨(t, k), ⟨h, rfl⟩, rfl⟩

/-! ### the linearised history as a multiset: all updates, and the recorded values -/

def Sec.upd? {α : Type w} : Sec α → Option α
  | .upd a => some a
  | _ => none

def Sec.isSnap {α : Type w} : Sec α → Bool
  | .snap => true
  | _ => false

def Op.upd? {α : Type w} : Op α → Option α
  | .upd a => some a
  | .merge => none

def Op.isMerge {α : Type w} : Op α → Bool
  | .merge => true
  | .upd _ => false

/-- the updates of a trace, in trace order -/
def updsOf {α : Type w} (tr : List (Nat × Sec α)) : List α := tr.filterMap (fun e => e.2.upd?)

section vals
variable {σ : Type u} {ν : Type v} {α : Type w} (M : TwoPhase σ ν α)

/-- the values recorded by the snapshot sections of a two-phase run from `r`, in trace order -/
def TwoPhase.snapVals : σ × Loc ν → List (Nat × Sec α) → List ν
  | _, [] => []
  | r, (t, .upd a) :: tr => TwoPhase.snapVals (M.stepC r (t, .upd a)) tr
  | r, (t, .snap) :: tr => M.snap r.1 :: TwoPhase.snapVals (M.stepC r (t, .snap)) tr
  | r, (t, .app) :: tr => TwoPhase.snapVals (M.stepC r (t, .app)) tr

theorem TwoPhase.linHist_perm (r : σ × Loc ν) (tr : List (Nat × Sec α)) :
    (M.linHist r tr).Perm ((updsOf tr).map .inl ++ (M.snapVals r tr).map .inr) := by
  induction tr generalizing r with
  | nil => exact .nil
  | cons e tr ih =>
    obtain ⟨t, k⟩ := e
    cases k with
    | upd a =>
      simp only [TwoPhase.linHist, updsOf, List.filterMap_cons, Sec.upd?, TwoPhase.snapVals,
        List.map_cons, List.cons_append]
      exact (ih _).cons _
    | snap =>
      simp only [TwoPhase.linHist, updsOf, List.filterMap_cons, Sec.upd?, TwoPhase.snapVals,
        List.map_cons]
      exact ((ih _).cons _).trans List.perm_middle.symm
    | app =>
      simp only [TwoPhase.linHist, updsOf, List.filterMap_cons, Sec.upd?, TwoPhase.snapVals]
      exact ih _

theorem TwoPhase.snapVals_length (r : σ × Loc ν) (tr : List (Nat × Sec α)) :
    (M.snapVals r tr).length = tr.countP (fun e => e.2.isSnap) := by
  induction tr generalizing r with
  | nil => rfl
  | cons e tr ih =>
    obtain ⟨t, k⟩ := e
    cases k <;> simp [TwoPhase.snapVals, Sec.isSnap, ih]

/-- the recorded values are the results of the snapshot calls in the result log of the mutex
    model -/
theorem log_threadsC (ops : List (List (Op α))) (order : List CallId)
    (r : (σ × Loc ν) × List (CallId × Option ν)) :
    (exec (runCall (M.threadsC ops)) r order).2.filterMap (·.2)
      = r.2.filterMap (·.2) ++ M.snapVals r.1 (traceOf ops order) := by
  induction order generalizing r with
  | nil => simp [exec, traceOf, TwoPhase.snapVals]
  | cons c order ih =>
    simp only [exec, List.foldl_cons, traceOf, List.filterMap_cons] at ih ⊢
    rw [ih]
    simp only [runCall, bodyAt_threadsC]
    cases hk : secAt ops c with
    | none => rfl
    | some k =>
      cases k <;>
        simp [TwoPhase.bodyC, TwoPhase.snapVals, TwoPhase.stepC, List.filterMap_append]

end vals

/-- generic: looking every call id up in the threads gives the threads' entries, thread by
    thread -/
theorem filterMap_callIdsFrom {β : Type u} (all ths : List (List β)) (t : Nat)
    (h : ∀ i, all[t + i]? = ths[i]?) :
    (callIdsFrom t (ths.map List.length)).filterMap (fun c => ((all[c.1]?).getD [])[c.2]?)
      = ths.flatten := by
  induction ths generalizing t with
  | nil => rfl
  | cons x xs ih =>
    simp only [List.map_cons, callIdsFrom, List.filterMap_append, List.flatten_cons, List.filterMap_map]
    have h0 : all[t]? = some x := by simpa using h 0
    have hx : ((fun c : CallId => ((all[c.1]?).getD [])[c.2]?) ∘ fun i => (t, i)) = fun i => x[i]? := by
      funext i; simp [h0]
    rw [hx, filterMap_getElem?_range, ih (t + 1)]
    intro i
    have := h (i + 1)
    rw [List.getElem?_cons_succ] at this
    rw [← this]; congr 1; omega

theorem secsOf_append {α : Type w} (a b : List (Op α)) : secsOf (a ++ b) = secsOf a ++ secsOf b := by
  simp [secsOf]

theorem flatten_map_secsOf {α : Type w} (ops : List (List (Op α))) :
    (ops.map secsOf).flatten = secsOf ops.flatten := by
  induction ops with
  | nil => rfl
  | cons o ops ih => simp [secsOf_append, ih]

theorem secsOf_filterMap_upd? {α : Type w} (o : List (Op α)) :
    (secsOf o).filterMap Sec.upd? = o.filterMap Op.upd? := by
  induction o with
  | nil => rfl
  | cons x o ih =>
    cases x with
    | upd a => simp [Sec.upd?, Op.upd?, ih]
    | merge =>
      rw [secsOf_merge]
      simp only [List.filterMap_cons, Sec.upd?, Op.upd?]
      exact ih

theorem secsOf_countP_isSnap {α : Type w} (o : List (Op α)) :
    (secsOf o).countP Sec.isSnap = o.countP Op.isMerge := by
  induction o with
  | nil => rfl
  | cons x o ih =>
    cases x with
    | upd a => simp [Sec.isSnap, Op.isMerge, ih]
    | merge =>
      rw [secsOf_merge]
      simp [List.countP_cons, Sec.isSnap, Op.isMerge, ih]

/-- the sections of all calls, thread by thread -/
theorem filterMap_secAt_allCalls {α : Type w} (ops : List (List (Op α))) :
    (allCalls (ops.map (fun o => (secsOf o).length))).filterMap (secAt ops) = secsOf ops.flatten := by
  have := filterMap_callIdsFrom (ops.map secsOf) (ops.map secsOf) 0 (by intro i; simp)
  rw [flatten_map_secsOf, List.map_map] at this
  rw [← this, allCalls]
  congr 1
  funext c
  simp only [secAt, List.getElem?_map]
  cases ops[c.1]? <;> rfl

theorem updsOf_traceOf {α : Type w} (ops : List (List (Op α))) (order : List CallId) :
    updsOf (traceOf ops order) = (order.filterMap (secAt ops)).filterMap Sec.upd? := by
  induction order with
  | nil => rfl
  | cons c order ih =>
    simp only [updsOf, traceOf, List.filterMap_cons] at ih ⊢
    cases hk : secAt ops c with
    | none => simpa using ih
    | some k => cases hu : k.upd? <;> simp [hu, ih]

theorem countP_isSnap_traceOf {α : Type w} (ops : List (List (Op α))) (order : List CallId) :
    (traceOf ops order).countP (fun e => e.2.isSnap) = (order.filterMap (secAt ops)).countP Sec.isSnap := by
  induction order with
  | nil => rfl
  | cons c order ih =>
    simp only [traceOf, List.filterMap_cons] at ih ⊢
    cases hk : secAt ops c with
    | none => simpa using ih
    | some k => simp [List.countP_cons, ih]

/-- in a valid schedule the trace in lock order contains every update of every thread exactly
    once … -/
theorem updsOf_acqOrder_perm {α : Type w} (ops : List (List (Op α))) (wa : List Act)
    (hi : Interleaving (progs (ops.map (fun o => (secsOf o).length))) wa) (hv : validMutex wa) :
    (updsOf (traceOf ops (acqOrder wa))).Perm (ops.flatten.filterMap Op.upd?) := by
  rw [updsOf_traceOf, ← secsOf_filterMap_upd?, ← filterMap_secAt_allCalls]
  exact ((acqOrder_perm_allCalls hi hv).filterMap _).filterMap _

/-- … and one snapshot section per merge -/
theorem countP_isSnap_acqOrder {α : Type w} (ops : List (List (Op α))) (wa : List Act)
    (hi : Interleaving (progs (ops.map (fun o => (secsOf o).length))) wa) (hv : validMutex wa) :
    (traceOf ops (acqOrder wa)).countP (fun e => e.2.isSnap) = ops.flatten.countP Op.isMerge := by
  rw [countP_isSnap_traceOf, ← secsOf_countP_isSnap, ← filterMap_secAt_allCalls]
  exact ((acqOrder_perm_allCalls hi hv).filterMap _).countP_eq _

/-! ### section-level schedules (`Interleaving` of the threads' section lists) -/

/-- thread `t`'s critical sections, tagged with `t` -/
def taggedSecs {α : Type w} (ops : List (List (Op α))) : List (List (Nat × Sec α)) :=
  ops.mapIdx (fun t o => (secsOf o).map (fun k => (t, k)))

theorem projT_of_interleaving {α : Type w} (ops : List (List (Op α))) (tr : List (Nat × Sec α))
    (hi : Interleaving (taggedSecs ops) tr) (t : Nat) :
    projT tr t = secsOf ((ops[t]?).getD []) := by
  have htag : ∀ (i : Nat) (l : List (Nat × Sec α)), (taggedSecs ops)[i]? = some l →
      ∀ a ∈ l, (fun e : Nat × Sec α => e.1) a = i := by
    intro i l hl a ha
    simp only [taggedSecs, List.getElem?_mapIdx] at hl
    cases ho : ops[i]? with
    | none => simp [ho] at hl
    | some o =>
      simp only [ho, Option.map_some, Option.some.injEq] at hl
      subst hl
      obtain ⟨k, _, rfl⟩ := List.mem_map.1 ha
      rfl
  have := hi.filter_tag (fun e => e.1) htag t
  unfold projT
  rw [this]
  simp only [taggedSecs, List.getElem?_mapIdx]
  cases ops[t]? with
  | none => rfl
  | some o => simp [Function.comp_def]

/-! ### merge from ANOTHER instance: `h.Merge(g)`, two instances, two mutexes -/

section cross
variable {σg σh : Type u} {ν : Type v} {αg αh : Type w}

/-- the pair (g, h) as one two-phase system: updates of `g` (`inl`) and of `h` (`inr`); the
    snapshot section reads `g` (under g's mutex), the apply section writes `h` (under h's mutex) -/
def crossTP (G : σg → αg → σg) (H : σh → αh → σh) (snap : σg → ν) (ap : ν → σh → σh) :
    TwoPhase (σg × σh) ν (αg ⊕ αh) where
  f s a := match a with
    | .inl a => (G s.1 a, s.2)
    | .inr b => (s.1, H s.2 b)
  snap s := snap s.1
  ap v s := (s.1, ap v s.2)

/-- a step of h's serial history: one of its updates, or "apply the value `v`" -/
def hStepL (H : σh → αh → σh) (ap : ν → σh → σh) (s : σh) : αh ⊕ ν → σh
  | .inl b => H s b
  | .inr v => ap v s

/-- h's serial history read off a trace: h's updates where they are, and at every snapshot
    section the value `g` has at that point (`g` = initial value + g's updates so far) -/
def hHist (G : σg → αg → σg) (snap : σg → ν) : σg → List (Nat × Sec (αg ⊕ αh)) → List (αh ⊕ ν)
  | _, [] => []
  | g, (_, .upd (.inl a)) :: tr => hHist G snap (G g a) tr
  | g, (_, .upd (.inr b)) :: tr => .inl b :: hHist G snap g tr
  | g, (_, .snap) :: tr => .inr (snap g) :: hHist G snap g tr
  | g, (_, .app) :: tr => hHist G snap g tr

/-- g's updates of a trace, in trace order -/
def gUpds : List (Nat × Sec (αg ⊕ αh)) → List αg
  | [] => []
  | (_, .upd (.inl a)) :: tr => a :: gUpds tr
  | _ :: tr => gUpds tr

variable (G : σg → αg → σg) (H : σh → αh → σh) (snap : σg → ν) (ap : ν → σh → σh)

theorem crossTP_stepC_g (r : (σg × σh) × Loc ν) (e : Nat × Sec (αg ⊕ αh)) :
    ((crossTP G H snap ap).stepC r e).1.1
      = match e with
        | (_, .upd (.inl a)) => G r.1.1 a
        | _ => r.1.1 := by
  obtain ⟨t, k⟩ := e
  cases k with
  | upd a => cases a <;> rfl
  | snap => rfl
  | app =>
    simp only [TwoPhase.stepC, TwoPhase.applyLoc]
    cases r.2 t <;> rfl

/-- the `g` component only sees g's updates -/
theorem crossTP_exec_g (r : (σg × σh) × Loc ν) (tr : List (Nat × Sec (αg ⊕ αh))) :
    (exec (crossTP G H snap ap).stepC r tr).1.1 = exec G r.1.1 (gUpds tr) := by
  induction tr generalizing r with
  | nil => rfl
  | cons e tr ih =>
    simp only [exec, List.foldl_cons] at ih ⊢
    rw [ih, crossTP_stepC_g]
    obtain ⟨t, k⟩ := e
    cases k with
    | upd a => cases a <;> rfl
    | snap => rfl
    | app => rfl

/-- the `h` component of the atomic run is h's serial history -/
theorem crossTP_stepA_h (s : σg × σh) (tr : List (Nat × Sec (αg ⊕ αh))) :
    (exec (crossTP G H snap ap).stepA s tr).2 = exec (hStepL H ap) s.2 (hHist G snap s.1 tr) := by
  induction tr generalizing s with
  | nil => rfl
  | cons e tr ih =>
    obtain ⟨t, k⟩ := e
    simp only [exec, List.foldl_cons] at ih ⊢
    rw [ih]
    cases k with
    | upd a => cases a <;> rfl
    | snap => rfl
    | app => rfl

/-- the `h` component of the linearised run is h's serial history -/
theorem crossTP_lin_h (r : (σg × σh) × Loc ν) (s : σg × σh) (tr : List (Nat × Sec (αg ⊕ αh))) :
    (exec (crossTP G H snap ap).stepL s ((crossTP G H snap ap).linHist r tr)).2
      = exec (hStepL H ap) s.2 (hHist G snap r.1.1 tr) := by
  induction tr generalizing r s with
  | nil => rfl
  | cons e tr ih =>
    obtain ⟨t, k⟩ := e
    cases k with
    | upd a =>
      cases a with
      | inl a =>
        simp only [TwoPhase.linHist, exec, List.foldl_cons, hHist] at ih ⊢
        rw [ih]; rfl
      | inr b =>
        simp only [TwoPhase.linHist, exec, List.foldl_cons, hHist] at ih ⊢
        rw [ih]; rfl
    | snap =>
      simp only [TwoPhase.linHist, exec, List.foldl_cons, hHist] at ih ⊢
      rw [ih]; rfl
    | app =>
      simp only [TwoPhase.linHist, hHist] at ih ⊢
      rw [ih, crossTP_stepC_g]

end cross

section crossvals
variable {σg : Type u} {ν : Type v} {αg αh : Type w}

/-- h's updates of a trace, in trace order -/
def hUpds : List (Nat × Sec (αg ⊕ αh)) → List αh
  | [] => []
  | (_, .upd (.inl _)) :: tr => hUpds tr
  | (_, .upd (.inr b)) :: tr => b :: hUpds tr
  | (_, .snap) :: tr => hUpds tr
  | (_, .app) :: tr => hUpds tr

/-- the values `g` has at the snapshot sections of a trace (`g` = start value + g's updates so
    far), in trace order -/
def gSnaps (G : σg → αg → σg) (snap : σg → ν) : σg → List (Nat × Sec (αg ⊕ αh)) → List ν
  | _, [] => []
  | g, (_, .upd (.inl a)) :: tr => gSnaps G snap (G g a) tr
  | g, (_, .upd (.inr _)) :: tr => gSnaps G snap g tr
  | g, (_, .snap) :: tr => snap g :: gSnaps G snap g tr
  | g, (_, .app) :: tr => gSnaps G snap g tr

theorem hHist_perm (G : σg → αg → σg) (snap : σg → ν) (g : σg) (tr : List (Nat × Sec (αg ⊕ αh))) :
    (hHist G snap g tr).Perm ((hUpds tr).map .inl ++ (gSnaps G snap g tr).map .inr) := by
  induction tr generalizing g with
  | nil => exact .nil
  | cons e tr ih =>
    obtain ⟨t, k⟩ := e
    cases k with
    | upd a =>
      cases a with
      | inl a => simpa [hHist, hUpds, gSnaps] using ih _
      | inr b => simpa [hHist, hUpds, gSnaps] using ih _
    | snap =>
      simp only [hHist, hUpds, gSnaps, List.map_cons]
      exact ((ih _).cons _).trans List.perm_middle.symm
    | app => simpa [hHist, hUpds, gSnaps] using ih _

end crossvals

end Gostatix.Conc
