/-
  Gostatix.Proofs.C09Stable — helpers for Props/C09Stable.lean (re-attachment at ANY point of a
  history).

  * `keysMinus K mk` and the DATA keys of every handle (`keysOf` minus the metadata key; for Top-K
    minus its own and the nested sketch's metadata key);
  * the separation predicates ("no data key is spelled like the metadata key") and their
    derivation from the C19 hypotheses (16-letter base keys, pairwise different);
  * every modelled operation is `SupportedOn` the data keys (generic-`K` versions of the frame
    lemmas of Proofs/RedisFrameOps.lean, plus the missing frame of `hllEquals`, `bloomInit` and
    the composite `TopKRedis.Insert`);
  * `KeepsKey`, `runSteps`, the `…Handle.Step` predicates (one constructor per own operation, plus
    `other` for anything that leaves the metadata key alone) and their invariants;
  * `cuckooAttach` does not look at the `length` field: `HINCRBY mk "length" d` never changes
    what it returns.
  Core Lean only.
-/
import Gostatix.Proofs.RedisAttach
import Gostatix.Proofs.RedisFrameOps
import Gostatix.Proofs.RedisBucket
import Gostatix.Proofs.RedisZSet
namespace Gostatix.Redis

/-! ### key sets minus a key -/

/-- `K` without (every occurrence of) `mk`. -/
def keysMinus (K : List String) (mk : String) : List String := K.filter (fun k => decide (k ≠ mk))

theorem mem_keysMinus {K : List String} {mk k : String} : k ∈ keysMinus K mk ↔ k ∈ K ∧ k ≠ mk := by
  simp [keysMinus]

theorem self_not_mem_keysMinus (K : List String) (mk : String) : mk ∉ keysMinus K mk :=
  fun h => (mem_keysMinus.mp h).2 rfl

theorem keysMinus_subset (K : List String) (mk : String) : ∀ k ∈ keysMinus K mk, k ∈ K :=
  fun _ hk => (mem_keysMinus.mp hk).1

/-! ### steps of a history -/

/-- the store transformer `t` never changes what is stored at `mk`. -/
def KeepsKey (mk : String) (t : Store → Store) : Prop := ∀ s, t s mk = s mk

/-- run a list of store transformers in order. -/
def runSteps : List (Store → Store) → Store → Store
  | [], s => s
  | t :: ts, s => runSteps ts (t s)

theorem runSteps_append (ts us : List (Store → Store)) (s : Store) :
    runSteps (ts ++ us) s = runSteps us (runSteps ts s) := by
  induction ts generalizing s with
  | nil => rfl
  | cons t ts ih => exact ih (t s)

/-- anything every step preserves is preserved by the run. -/
theorem runSteps_invariant {α : Sort _} (f : Store → α) (ts : List (Store → Store))
    (h : ∀ t ∈ ts, ∀ s, f (t s) = f s) (s : Store) : f (runSteps ts s) = f s := by
  induction ts generalizing s with
  | nil => rfl
  | cons t ts ih =>
    show f (runSteps ts (t s)) = f s
    rw [ih (fun u hu => h u (List.mem_cons_of_mem _ hu)) (t s)]
    exact h t List.mem_cons_self s

theorem runSteps_keeps (mk : String) (ts : List (Store → Store))
    (h : ∀ t ∈ ts, KeepsKey mk t) (s : Store) : runSteps ts s mk = s mk :=
  runSteps_invariant (fun s => s mk) ts h s

/-- the store part of an operation supported on `K` keeps every key outside `K`. -/
theorem SupportedOn.keepsKey {ρ : Type} {K : List String} {op : Op ρ} (hsup : SupportedOn K op)
    {mk : String} (hmk : mk ∉ K) : KeepsKey mk (fun s => (op s).1) :=
  fun s => hsup.1 s mk hmk

theorem KeepsKey.comp {mk : String} {t u : Store → Store} (ht : KeepsKey mk t) (hu : KeepsKey mk u) :
    KeepsKey mk (fun s => u (t s)) := fun s => (hu (t s)).trans (ht s)

/-! ### Count-Min Sketch -/

/-- the row lists of a sketch. -/
def CMSHandle.rowKeys (h : CMSHandle) : List String := (List.range h.rows).map (cmsRowKey h.key)

/-- `keysOf` minus the metadata key. -/
def CMSHandle.dataKeys (h : CMSHandle) : List String := keysMinus h.keysOf h.metadataKey

/-- no row key of `h` is spelled `mk`. -/
def CMSHandle.RowsAvoid (h : CMSHandle) (mk : String) : Prop :=
  ∀ r, r < h.rows → cmsRowKey h.key r ≠ mk

instance (h : CMSHandle) (mk : String) : Decidable (h.RowsAvoid mk) := by
  unfold CMSHandle.RowsAvoid; exact inferInstance

theorem CMSHandle.keysOf_eq (h : CMSHandle) : h.keysOf = h.metadataKey :: h.rowKeys := by
  unfold CMSHandle.keysOf CMSHandle.descr CMSHandle.rowKeys
  rw [List.map_cons, List.map_map]
  rfl

theorem CMSHandle.mem_rowKeys {h : CMSHandle} {k : String} :
    k ∈ h.rowKeys ↔ ∃ r, r < h.rows ∧ cmsRowKey h.key r = k := by
  simp [CMSHandle.rowKeys]

theorem CMSHandle.mem_dataKeys {h : CMSHandle} {k : String} :
    k ∈ h.dataKeys ↔ k ∈ h.rowKeys ∧ k ≠ h.metadataKey := by
  unfold CMSHandle.dataKeys
  rw [mem_keysMinus, h.keysOf_eq, List.mem_cons]
  constructor
  · rintro ⟨h1 | h1, h2⟩
    · exact absurd h1 h2
    · exact ⟨h1, h2⟩
  · rintro ⟨h1, h2⟩; exact ⟨Or.inr h1, h2⟩

/-- when no row key is spelled like the metadata key the data keys are exactly the row keys. -/
theorem CMSHandle.dataKeys_eq (h : CMSHandle) (hsep : h.RowsAvoid h.metadataKey) :
    h.dataKeys = h.rowKeys := by
  unfold CMSHandle.dataKeys keysMinus
  rw [h.keysOf_eq, List.filter_cons_of_neg (by simp)]
  apply List.filter_eq_self.mpr
  intro k hk
  obtain ⟨r, hr, rfl⟩ := CMSHandle.mem_rowKeys.mp hk
  simpa using hsep r hr

theorem CMSHandle.rowKey_mem_data (h : CMSHandle) (hsep : h.RowsAvoid h.metadataKey) {r : Nat}
    (hr : r < h.rows) : cmsRowKey h.key r ∈ h.dataKeys :=
  CMSHandle.mem_dataKeys.mpr ⟨CMSHandle.mem_rowKeys.mpr ⟨r, hr, rfl⟩, hsep r hr⟩

theorem CMSHandle.metadataKey_not_mem_dataKeys (h : CMSHandle) : h.metadataKey ∉ h.dataKeys :=
  self_not_mem_keysMinus _ _

/-- a foreign key `mk` is not a data key of `g` when no row of `g` is spelled `mk`. -/
theorem CMSHandle.not_mem_dataKeys_of_avoid (g : CMSHandle) {mk : String} (hg : g.RowsAvoid mk) :
    mk ∉ g.dataKeys := by
  intro hm
  obtain ⟨r, hr, e⟩ := CMSHandle.mem_rowKeys.mp (CMSHandle.mem_dataKeys.mp hm).1
  exact hg r hr e

/-- from the C19 hypotheses: a row key over a 16-letter base never equals a 16-letter base. -/
theorem CMSHandle.rowsAvoid_of_isBase (h : CMSHandle) {mk : String} (hk : IsBase h.key)
    (hmk : IsBase mk) : h.RowsAvoid mk := by
  intro r _ e
  have := KeyD.render_inj (d₁ := KeyD.row h.key r) (d₂ := KeyD.base mk) hk hmk e
  cases this

theorem supported_cmsInit_on (K : List String) (h : CMSHandle)
    (hK : ∀ r, r < h.rows → cmsRowKey h.key r ∈ K) : SupportedOn K (cmsInit h) :=
  supported_cmsInitLoop _ _ _ _ _ (fun j _ hj => hK j (by omega))

theorem supported_cmsUpdate_on (K : List String) (h : CMSHandle) (pos : List Nat) (count : Nat)
    (hlen : pos.length ≤ h.rows) (hK : ∀ r, r < h.rows → cmsRowKey h.key r ∈ K) :
    SupportedOn K (cmsUpdate h pos count) :=
  supported_cmsUpdateLoop _ _ _ _ _ (fun j _ hj => hK j (by omega))

theorem supported_cmsCount_on (K : List String) (h : CMSHandle) (pos : List Nat)
    (hlen : pos.length ≤ h.rows) (hK : ∀ r, r < h.rows → cmsRowKey h.key r ∈ K) :
    SupportedOn K (cmsCount h pos) :=
  supported_cmsCountLoop _ _ _ _ _ (fun j _ hj => hK j (by omega))

theorem supported_cmsMerge_on (K : List String) (h1 h2 : CMSHandle)
    (hK1 : ∀ r, r < h1.rows → cmsRowKey h1.key r ∈ K)
    (hK2 : ∀ r, r < h2.rows → cmsRowKey h2.key r ∈ K) : SupportedOn K (cmsMerge h1 h2) := by
  unfold cmsMerge
  split
  · exact supported_fail _
  · rename_i hr
    split
    · exact supported_fail _
    · apply supported_cmsMergeLoop
      · intro j _ hj; exact hK1 j (by omega)
      · intro j _ hj
        have : h1.rows = h2.rows := Decidable.not_not.mp hr
        exact hK2 j (by omega)

theorem supported_cmsInit_data (h : CMSHandle) (hsep : h.RowsAvoid h.metadataKey) :
    SupportedOn h.dataKeys (cmsInit h) :=
  supported_cmsInit_on _ h (fun _ hr => h.rowKey_mem_data hsep hr)

theorem supported_cmsUpdate_data (h : CMSHandle) (pos : List Nat) (count : Nat)
    (hlen : pos.length ≤ h.rows) (hsep : h.RowsAvoid h.metadataKey) :
    SupportedOn h.dataKeys (cmsUpdate h pos count) :=
  supported_cmsUpdate_on _ h pos count hlen (fun _ hr => h.rowKey_mem_data hsep hr)

theorem supported_cmsCount_data (h : CMSHandle) (pos : List Nat) (hlen : pos.length ≤ h.rows)
    (hsep : h.RowsAvoid h.metadataKey) : SupportedOn h.dataKeys (cmsCount h pos) :=
  supported_cmsCount_on _ h pos hlen (fun _ hr => h.rowKey_mem_data hsep hr)

theorem supported_cmsMerge_data (h1 h2 : CMSHandle) (hsep1 : h1.RowsAvoid h1.metadataKey)
    (hsep2 : h2.RowsAvoid h2.metadataKey) :
    SupportedOn (h1.dataKeys ++ h2.dataKeys) (cmsMerge h1 h2) :=
  supported_cmsMerge_on _ h1 h2
    (fun _ hr => List.mem_append_left _ (h1.rowKey_mem_data hsep1 hr))
    (fun _ hr => List.mem_append_right _ (h2.rowKey_mem_data hsep2 hr))

/-- the operations of a count-min sketch handle, as store transformers, plus anything (`other`)
    that keeps the metadata key — e.g. any operation of another structure. -/
inductive CMSHandle.Step (h : CMSHandle) : (Store → Store) → Prop
  | init : Step h (fun s => (cmsInit h s).1)
  | update (pos : List Nat) (count : Nat) (hlen : pos.length ≤ h.rows) :
      Step h (fun s => (cmsUpdate h pos count s).1)
  | count (pos : List Nat) (hlen : pos.length ≤ h.rows) : Step h (fun s => (cmsCount h pos s).1)
  /-- `h.Merge(g)` -/
  | mergeFrom (g : CMSHandle) (hg : g.RowsAvoid h.metadataKey) : Step h (fun s => (cmsMerge h g s).1)
  /-- `g.Merge(h)` -/
  | mergeInto (g : CMSHandle) (hg : g.RowsAvoid h.metadataKey) : Step h (fun s => (cmsMerge g h s).1)
  | other (t : Store → Store) (ht : KeepsKey h.metadataKey t) : Step h t

theorem CMSHandle.Step.keeps {h : CMSHandle} (hsep : h.RowsAvoid h.metadataKey)
    {t : Store → Store} (ht : h.Step t) : KeepsKey h.metadataKey t := by
  have hmk := h.metadataKey_not_mem_dataKeys
  cases ht with
  | init => exact (supported_cmsInit_data h hsep).keepsKey hmk
  | update pos count hlen => exact (supported_cmsUpdate_data h pos count hlen hsep).keepsKey hmk
  | count pos hlen => exact (supported_cmsCount_data h pos hlen hsep).keepsKey hmk
  | mergeFrom g hg =>
    refine (supported_cmsMerge_on (h.rowKeys ++ g.rowKeys) h g
      (fun r hr => List.mem_append_left _ (CMSHandle.mem_rowKeys.mpr ⟨r, hr, rfl⟩))
      (fun r hr => List.mem_append_right _ (CMSHandle.mem_rowKeys.mpr ⟨r, hr, rfl⟩))).keepsKey ?_
    intro hm
    rcases List.mem_append.mp hm with hm | hm
    · obtain ⟨r, hr, e⟩ := CMSHandle.mem_rowKeys.mp hm; exact hsep r hr e
    · obtain ⟨r, hr, e⟩ := CMSHandle.mem_rowKeys.mp hm; exact hg r hr e
  | mergeInto g hg =>
    refine (supported_cmsMerge_on (g.rowKeys ++ h.rowKeys) g h
      (fun r hr => List.mem_append_left _ (CMSHandle.mem_rowKeys.mpr ⟨r, hr, rfl⟩))
      (fun r hr => List.mem_append_right _ (CMSHandle.mem_rowKeys.mpr ⟨r, hr, rfl⟩))).keepsKey ?_
    intro hm
    rcases List.mem_append.mp hm with hm | hm
    · obtain ⟨r, hr, e⟩ := CMSHandle.mem_rowKeys.mp hm; exact hg r hr e
    · obtain ⟨r, hr, e⟩ := CMSHandle.mem_rowKeys.mp hm; exact hsep r hr e
  | other t ht => exact ht

/-! ### HyperLogLog -/

def HLLHandle.dataKeys (h : HLLHandle) : List String := keysMinus h.keysOf h.metadataKey

theorem HLLHandle.keysOf_eq (h : HLLHandle) : h.keysOf = [h.key, h.metadataKey] := rfl

theorem HLLHandle.mem_dataKeys {h : HLLHandle} {k : String} :
    k ∈ h.dataKeys ↔ k = h.key ∧ k ≠ h.metadataKey := by
  unfold HLLHandle.dataKeys
  rw [mem_keysMinus, h.keysOf_eq]
  simp only [List.mem_cons, List.not_mem_nil, or_false]
  constructor
  · rintro ⟨h1 | h1, h2⟩
    · exact ⟨h1, h2⟩
    · exact absurd h1 h2
  · rintro ⟨h1, h2⟩; exact ⟨Or.inl h1, h2⟩

theorem HLLHandle.key_mem_data (h : HLLHandle) (hne : h.key ≠ h.metadataKey) : h.key ∈ h.dataKeys :=
  HLLHandle.mem_dataKeys.mpr ⟨rfl, hne⟩

theorem HLLHandle.dataKeys_eq (h : HLLHandle) (hne : h.key ≠ h.metadataKey) : h.dataKeys = [h.key] := by
  unfold HLLHandle.dataKeys keysMinus
  rw [h.keysOf_eq]
  simp [hne]

theorem HLLHandle.metadataKey_not_mem_dataKeys (h : HLLHandle) : h.metadataKey ∉ h.dataKeys :=
  self_not_mem_keysMinus _ _

theorem HLLHandle.not_mem_dataKeys_of_ne (g : HLLHandle) {mk : String} (hg : g.key ≠ mk) :
    mk ∉ g.dataKeys := fun hm => hg (HLLHandle.mem_dataKeys.mp hm).1.symm

theorem supported_hllInit_on (K : List String) (h : HLLHandle) (hk : h.key ∈ K) :
    SupportedOn K (hllInit h) :=
  supported_bind (supported_LPUSH hk _) fun _ => supported_LPUSH hk _

theorem supported_hllUpdate_on (K : List String) (h : HLLHandle) (idx val : Nat) (hk : h.key ∈ K) :
    SupportedOn K (hllUpdate h idx val) :=
  supported_bind (supported_LINDEX hk _) fun _ =>
    supported_bind (supported_luaNumber _ _) fun _ => supported_LSET hk _ _

theorem supported_hllMerge_on (K : List String) (h g : HLLHandle) (hk : h.key ∈ K) (gk : g.key ∈ K) :
    SupportedOn K (hllMerge h g) := by
  unfold hllMerge
  split
  · exact supported_fail _
  · unfold hllMergeScript
    refine supported_bind (supported_try (supported_LRANGE hk)) fun _ => ?_
    refine supported_bind (supported_try (supported_LRANGE gk)) fun _ => ?_
    refine supported_bind (supported_hllMergeVals _ _ _ _) fun _ => ?_
    refine supported_bind (supported_try (supported_DEL hk)) fun _ => ?_
    refine supported_bind (supported_try (supported_RPUSH hk _)) fun _ => ?_
    exact supported_pure _ _

/-- the frame of `Equals` (not in Proofs/RedisFrameOps.lean): two `LRANGE`s, no write. -/
theorem supported_hllEquals_on (K : List String) (h g : HLLHandle) (hk : h.key ∈ K) (gk : g.key ∈ K) :
    SupportedOn K (hllEquals h g) := by
  unfold hllEquals
  split
  · exact supported_pure _ _
  · refine supported_bind (supported_try (supported_LRANGE hk)) fun _ => ?_
    refine supported_bind (supported_try (supported_LRANGE gk)) fun _ => ?_
    exact supported_pure _ _

theorem supported_hllEquals (h g : HLLHandle) : SupportedOn (h.keysOf ++ g.keysOf) (hllEquals h g) :=
  supported_hllEquals_on _ h g (List.mem_append_left _ h.key_mem) (List.mem_append_right _ g.key_mem)

/-- the operations of a HyperLogLog handle, plus anything that keeps the metadata key. -/
inductive HLLHandle.Step (h : HLLHandle) : (Store → Store) → Prop
  | init : Step h (fun s => (hllInit h s).1)
  | update (idx val : Nat) : Step h (fun s => (hllUpdate h idx val s).1)
  /-- `h.Merge(g)` -/
  | mergeFrom (g : HLLHandle) (hg : g.key ≠ h.metadataKey) : Step h (fun s => (hllMerge h g s).1)
  /-- `g.Merge(h)` -/
  | mergeInto (g : HLLHandle) (hg : g.key ≠ h.metadataKey) : Step h (fun s => (hllMerge g h s).1)
  /-- `h.Equals(g)` -/
  | equals (g : HLLHandle) (hg : g.key ≠ h.metadataKey) : Step h (fun s => (hllEquals h g s).1)
  /-- `g.Equals(h)` -/
  | equalsRev (g : HLLHandle) (hg : g.key ≠ h.metadataKey) : Step h (fun s => (hllEquals g h s).1)
  | other (t : Store → Store) (ht : KeepsKey h.metadataKey t) : Step h t

theorem HLLHandle.Step.keeps {h : HLLHandle} (hne : h.key ≠ h.metadataKey)
    {t : Store → Store} (ht : h.Step t) : KeepsKey h.metadataKey t := by
  have two : ∀ g : HLLHandle, g.key ≠ h.metadataKey → h.metadataKey ∉ [h.key, g.key] := by
    intro g hg hm
    simp only [List.mem_cons, List.not_mem_nil, or_false] at hm
    rcases hm with e | e
    · exact hne e.symm
    · exact hg e.symm
  have one : h.metadataKey ∉ [h.key] := by
    intro hm
    simp only [List.mem_cons, List.not_mem_nil, or_false] at hm
    exact hne hm.symm
  cases ht with
  | init => exact (supported_hllInit_on [h.key] h List.mem_cons_self).keepsKey one
  | update idx val => exact (supported_hllUpdate_on [h.key] h idx val List.mem_cons_self).keepsKey one
  | mergeFrom g hg =>
    exact (supported_hllMerge_on [h.key, g.key] h g List.mem_cons_self
      (List.mem_cons_of_mem _ List.mem_cons_self)).keepsKey (two g hg)
  | mergeInto g hg =>
    exact (supported_hllMerge_on [h.key, g.key] g h (List.mem_cons_of_mem _ List.mem_cons_self)
      List.mem_cons_self).keepsKey (two g hg)
  | equals g hg =>
    exact (supported_hllEquals_on [h.key, g.key] h g List.mem_cons_self
      (List.mem_cons_of_mem _ List.mem_cons_self)).keepsKey (two g hg)
  | equalsRev g hg =>
    exact (supported_hllEquals_on [h.key, g.key] g h (List.mem_cons_of_mem _ List.mem_cons_self)
      List.mem_cons_self).keepsKey (two g hg)
  | other t ht => exact ht

/-! ### Bloom filter -/

def BloomHandle.dataKeys (h : BloomHandle) : List String := keysMinus h.keysOf h.metadataKey

theorem BloomHandle.keysOf_eq (h : BloomHandle) : h.keysOf = [h.bitsetKey, h.metadataKey] := rfl

theorem BloomHandle.mem_dataKeys {h : BloomHandle} {k : String} :
    k ∈ h.dataKeys ↔ k = h.bitsetKey ∧ k ≠ h.metadataKey := by
  unfold BloomHandle.dataKeys
  rw [mem_keysMinus, h.keysOf_eq]
  simp only [List.mem_cons, List.not_mem_nil, or_false]
  constructor
  · rintro ⟨h1 | h1, h2⟩
    · exact ⟨h1, h2⟩
    · exact absurd h1 h2
  · rintro ⟨h1, h2⟩; exact ⟨Or.inl h1, h2⟩

theorem BloomHandle.bitsetKey_mem_data (h : BloomHandle) (hne : h.bitsetKey ≠ h.metadataKey) :
    h.bitsetKey ∈ h.dataKeys := BloomHandle.mem_dataKeys.mpr ⟨rfl, hne⟩

theorem BloomHandle.dataKeys_eq (h : BloomHandle) (hne : h.bitsetKey ≠ h.metadataKey) :
    h.dataKeys = [h.bitsetKey] := by
  unfold BloomHandle.dataKeys keysMinus
  rw [h.keysOf_eq]
  simp [hne]

theorem BloomHandle.metadataKey_not_mem_dataKeys (h : BloomHandle) : h.metadataKey ∉ h.dataKeys :=
  self_not_mem_keysMinus _ _

/-- the operations of a Bloom filter handle (`init` is `newBitSetRedis`), plus anything that
    keeps the metadata key. -/
inductive BloomHandle.Step (h : BloomHandle) : (Store → Store) → Prop
  | init : Step h (fun s => (bloomInit h s).1)
  | insert (ps : List Nat) : Step h (fun s => (bloomInsert h ps s).1)
  | lookup (ps : List Nat) : Step h (fun s => (bloomLookup h ps s).1)
  | other (t : Store → Store) (ht : KeepsKey h.metadataKey t) : Step h t

theorem BloomHandle.Step.keeps {h : BloomHandle} (hne : h.bitsetKey ≠ h.metadataKey)
    {t : Store → Store} (ht : h.Step t) : KeepsKey h.metadataKey t := by
  have hmk := h.metadataKey_not_mem_dataKeys
  have hk := h.bitsetKey_mem_data hne
  cases ht with
  | init => exact (supported_SET hk _).keepsKey hmk
  | insert ps => exact (supported_bloomInsertLoop _ _ hk ps).keepsKey hmk
  | lookup ps => exact (supported_bloomLookupLoop _ _ hk ps).keepsKey hmk
  | other t ht => exact ht

/-! ### Top-K -/

/-- `TopKRedis.Insert(data, count)` as one operation: `sketch.Update` (error dropped),
    `sketch.Count` (error returned), then the sorted-set commands with that frequency. -/
def topkInsert (h : TopKHandle) (x : String) (pos : List Nat) (count : Nat) : Script Unit :=
  Script.try_ (cmsUpdate h.sketch pos count) >>=ₛ fun _ =>
  cmsCount h.sketch pos >>=ₛ fun f =>
  topkInsertCmds h.heapKey h.k x f

/-- `keysOf` minus BOTH metadata keys (`NewTopKRedisFromKey` reads its own hash and, through
    `sketchKey`, the nested sketch's). -/
def TopKHandle.dataKeys (h : TopKHandle) : List String :=
  keysMinus (keysMinus h.keysOf h.metadataKey) h.sketch.metadataKey

/-- neither the heap key nor a row key of the sketch is spelled like one of the two metadata keys. -/
structure TopKHandle.MetaSep (h : TopKHandle) : Prop where
  heap_own : h.heapKey ≠ h.metadataKey
  heap_sketch : h.heapKey ≠ h.sketch.metadataKey
  rows_own : h.sketch.RowsAvoid h.metadataKey
  rows_sketch : h.sketch.RowsAvoid h.sketch.metadataKey

instance (h : TopKHandle) : Decidable h.MetaSep :=
  decidable_of_iff (h.heapKey ≠ h.metadataKey ∧ h.heapKey ≠ h.sketch.metadataKey ∧
      h.sketch.RowsAvoid h.metadataKey ∧ h.sketch.RowsAvoid h.sketch.metadataKey)
    ⟨fun ⟨a, b, c, d⟩ => ⟨a, b, c, d⟩, fun ⟨a, b, c, d⟩ => ⟨a, b, c, d⟩⟩

theorem TopKHandle.keysOf_eq (h : TopKHandle) :
    h.keysOf = h.heapKey :: h.metadataKey :: h.sketch.keysOf := by
  unfold TopKHandle.keysOf TopKHandle.descr CMSHandle.keysOf
  rw [List.map_append]
  rfl

theorem TopKHandle.mem_dataKeys {h : TopKHandle} {k : String} :
    k ∈ h.dataKeys ↔ (k = h.heapKey ∨ k ∈ h.sketch.rowKeys) ∧ k ≠ h.metadataKey ∧
      k ≠ h.sketch.metadataKey := by
  unfold TopKHandle.dataKeys
  rw [mem_keysMinus, mem_keysMinus, h.keysOf_eq, h.sketch.keysOf_eq]
  simp only [List.mem_cons]
  constructor
  · rintro ⟨⟨h1 | h1 | h1 | h1, h2⟩, h3⟩
    · exact ⟨Or.inl h1, h2, h3⟩
    · exact absurd h1 h2
    · exact absurd h1 h3
    · exact ⟨Or.inr h1, h2, h3⟩
  · rintro ⟨h1 | h1, h2, h3⟩
    · exact ⟨⟨Or.inl h1, h2⟩, h3⟩
    · exact ⟨⟨Or.inr (Or.inr (Or.inr h1)), h2⟩, h3⟩

theorem TopKHandle.heapKey_mem_data (h : TopKHandle) (hsep : h.MetaSep) : h.heapKey ∈ h.dataKeys :=
  TopKHandle.mem_dataKeys.mpr ⟨Or.inl rfl, hsep.heap_own, hsep.heap_sketch⟩

theorem TopKHandle.rowKey_mem_data (h : TopKHandle) (hsep : h.MetaSep) {r : Nat}
    (hr : r < h.sketch.rows) : cmsRowKey h.sketch.key r ∈ h.dataKeys :=
  TopKHandle.mem_dataKeys.mpr ⟨Or.inr (CMSHandle.mem_rowKeys.mpr ⟨r, hr, rfl⟩),
    hsep.rows_own r hr, hsep.rows_sketch r hr⟩

theorem TopKHandle.metadataKey_not_mem_dataKeys (h : TopKHandle) : h.metadataKey ∉ h.dataKeys :=
  fun hm => (TopKHandle.mem_dataKeys.mp hm).2.1 rfl

theorem TopKHandle.sketchMetadataKey_not_mem_dataKeys (h : TopKHandle) :
    h.sketch.metadataKey ∉ h.dataKeys :=
  fun hm => (TopKHandle.mem_dataKeys.mp hm).2.2 rfl

/-- from the C19 hypotheses. -/
theorem TopKHandle.metaSep_of_isBase (h : TopKHandle) (hb : ∀ b ∈ h.bases, IsBase b)
    (hn : h.bases.Nodup) : h.MetaSep := by
  have hb' : IsBase h.heapKey ∧ IsBase h.metadataKey ∧ IsBase h.sketch.key ∧
      IsBase h.sketch.metadataKey := by
    refine ⟨hb _ ?_, hb _ ?_, hb _ ?_, hb _ ?_⟩ <;> simp [TopKHandle.bases, CMSHandle.bases]
  simp only [TopKHandle.bases, CMSHandle.bases, List.cons_append, List.nil_append, List.nodup_cons,
    List.mem_cons, List.not_mem_nil, or_false, not_or] at hn
  exact ⟨hn.1.1, hn.1.2.2, h.sketch.rowsAvoid_of_isBase hb'.2.2.1 hb'.2.1,
    h.sketch.rowsAvoid_of_isBase hb'.2.2.1 hb'.2.2.2⟩

theorem supported_topkInsertCmds_data (h : TopKHandle) (hsep : h.MetaSep) (k : Nat) (x : String)
    (f : Nat) : SupportedOn h.dataKeys (topkInsertCmds h.heapKey k x f) := by
  refine (supported_topkInsertCmds h.heapKey k x f).mono ?_
  intro key hk
  simp only [List.mem_cons, List.not_mem_nil, or_false] at hk
  subst hk; exact h.heapKey_mem_data hsep

theorem supported_topkValues_data (h : TopKHandle) (hsep : h.MetaSep) :
    SupportedOn h.dataKeys (topkValues h.heapKey) := by
  refine (supported_topkValues h.heapKey).mono ?_
  intro key hk
  simp only [List.mem_cons, List.not_mem_nil, or_false] at hk
  subst hk; exact h.heapKey_mem_data hsep

theorem supported_topkSketchInit_data (h : TopKHandle) (hsep : h.MetaSep) :
    SupportedOn h.dataKeys (cmsInit h.sketch) :=
  supported_cmsInit_on _ _ (fun _ hr => h.rowKey_mem_data hsep hr)

theorem supported_topkSketchUpdate_data (h : TopKHandle) (hsep : h.MetaSep) (pos : List Nat)
    (count : Nat) (hlen : pos.length ≤ h.sketch.rows) :
    SupportedOn h.dataKeys (cmsUpdate h.sketch pos count) :=
  supported_cmsUpdate_on _ _ pos count hlen (fun _ hr => h.rowKey_mem_data hsep hr)

theorem supported_topkSketchCount_data (h : TopKHandle) (hsep : h.MetaSep) (pos : List Nat)
    (hlen : pos.length ≤ h.sketch.rows) : SupportedOn h.dataKeys (cmsCount h.sketch pos) :=
  supported_cmsCount_on _ _ pos hlen (fun _ hr => h.rowKey_mem_data hsep hr)

theorem supported_topkInsert_data (h : TopKHandle) (hsep : h.MetaSep) (x : String) (pos : List Nat)
    (count : Nat) (hlen : pos.length ≤ h.sketch.rows) :
    SupportedOn h.dataKeys (topkInsert h x pos count) := by
  unfold topkInsert
  refine supported_bind (supported_try (supported_topkSketchUpdate_data h hsep pos count hlen))
    fun _ => ?_
  refine supported_bind (supported_topkSketchCount_data h hsep pos hlen) fun f => ?_
  exact supported_topkInsertCmds_data h hsep _ x f

/-- the operations of a Top-K handle — the sorted-set part of `Insert` for ANY frequency, `Values`,
    the nested sketch's operations, the whole `Insert` — plus anything that keeps both metadata
    keys. -/
inductive TopKHandle.Step (h : TopKHandle) : (Store → Store) → Prop
  | insertCmds (x : String) (f : Nat) : Step h (fun s => (topkInsertCmds h.heapKey h.k x f s).1)
  | values : Step h (fun s => (topkValues h.heapKey s).1)
  | sketchInit : Step h (fun s => (cmsInit h.sketch s).1)
  | sketchUpdate (pos : List Nat) (count : Nat) (hlen : pos.length ≤ h.sketch.rows) :
      Step h (fun s => (cmsUpdate h.sketch pos count s).1)
  | sketchCount (pos : List Nat) (hlen : pos.length ≤ h.sketch.rows) :
      Step h (fun s => (cmsCount h.sketch pos s).1)
  | insert (x : String) (pos : List Nat) (count : Nat) (hlen : pos.length ≤ h.sketch.rows) :
      Step h (fun s => (topkInsert h x pos count s).1)
  | other (t : Store → Store) (ht : KeepsKey h.metadataKey t)
      (ht' : KeepsKey h.sketch.metadataKey t) : Step h t

theorem TopKHandle.Step.keeps {h : TopKHandle} (hsep : h.MetaSep) {t : Store → Store}
    (ht : h.Step t) : KeepsKey h.metadataKey t ∧ KeepsKey h.sketch.metadataKey t := by
  have hmk := h.metadataKey_not_mem_dataKeys
  have hsk := h.sketchMetadataKey_not_mem_dataKeys
  cases ht with
  | insertCmds x f =>
    exact ⟨(supported_topkInsertCmds_data h hsep _ x f).keepsKey hmk,
      (supported_topkInsertCmds_data h hsep _ x f).keepsKey hsk⟩
  | values =>
    exact ⟨(supported_topkValues_data h hsep).keepsKey hmk,
      (supported_topkValues_data h hsep).keepsKey hsk⟩
  | sketchInit =>
    exact ⟨(supported_topkSketchInit_data h hsep).keepsKey hmk,
      (supported_topkSketchInit_data h hsep).keepsKey hsk⟩
  | sketchUpdate pos count hlen =>
    exact ⟨(supported_topkSketchUpdate_data h hsep pos count hlen).keepsKey hmk,
      (supported_topkSketchUpdate_data h hsep pos count hlen).keepsKey hsk⟩
  | sketchCount pos hlen =>
    exact ⟨(supported_topkSketchCount_data h hsep pos hlen).keepsKey hmk,
      (supported_topkSketchCount_data h hsep pos hlen).keepsKey hsk⟩
  | insert x pos count hlen =>
    exact ⟨(supported_topkInsert_data h hsep x pos count hlen).keepsKey hmk,
      (supported_topkInsert_data h hsep x pos count hlen).keepsKey hsk⟩
  | other t ht ht' => exact ⟨ht, ht'⟩

theorem cmsAttach_metadataKey {s : Store} {k : String} {sk : CMSHandle}
    (h : cmsAttach s k = some sk) : sk.metadataKey = k := by
  unfold cmsAttach at h
  split at h
  · cases h
  · simp only at h
    split at h
    · cases h
    · cases h; rfl

/-- what `topkAttach` returned is determined by the two metadata keys of the handle it returned. -/
theorem topkAttach_stable_of_some {s s' : Store} {mk : String} {h : TopKHandle}
    (hat : topkAttach s mk = some h) (e : s' mk = s mk)
    (e' : s' h.sketch.metadataKey = s h.sketch.metadataKey) : topkAttach s' mk = some h := by
  rw [← hat]
  refine topkAttach_congr e ?_
  intro vals hv
  rw [cmdHGETALL_congr e] at hv
  have hk : field vals "sketchKey" = h.sketch.metadataKey := by
    unfold topkAttach at hat
    rw [hv] at hat
    simp only at hat
    cases hc : cmsAttach s (field vals "sketchKey") with
    | none => rw [hc] at hat; cases hat
    | some sk =>
      rw [hc] at hat
      simp only [Option.some.injEq] at hat
      rw [← hat]
      exact (cmsAttach_metadataKey hc).symm
  rw [hk]; exact e'

/-! ### Cuckoo filter -/

def CuckooHandle.dataKeys (h : CuckooHandle) : List String := keysMinus h.keysOf h.metadataKey

/-- no bucket list key and no bucket counter key of `h` is spelled `mk`. -/
def CuckooHandle.BucketsAvoid (h : CuckooHandle) (mk : String) : Prop :=
  ∀ i, i < h.n → cuckooBucketKey h.key i ≠ mk ∧ cuckooBucketKey h.key i ++ "_len" ≠ mk

instance (h : CuckooHandle) (mk : String) : Decidable (h.BucketsAvoid mk) := by
  unfold CuckooHandle.BucketsAvoid; exact inferInstance

theorem CuckooHandle.bucketKey_mem (h : CuckooHandle) {i : Nat} (hi : i < h.n) :
    cuckooBucketKey h.key i ∈ h.keysOf := by
  unfold CuckooHandle.keysOf CuckooHandle.descr
  refine List.mem_map.mpr ⟨KeyD.bucket h.key i, ?_, rfl⟩
  simp only [List.mem_append, List.mem_cons, List.mem_map, List.mem_range, reduceCtorEq,
    List.not_mem_nil, or_false, false_or]
  exact Or.inl ⟨i, hi, rfl⟩

theorem CuckooHandle.lenKey_mem (h : CuckooHandle) {i : Nat} (hi : i < h.n) :
    cuckooBucketKey h.key i ++ "_len" ∈ h.keysOf := by
  unfold CuckooHandle.keysOf CuckooHandle.descr
  refine List.mem_map.mpr ⟨KeyD.blen h.key i, ?_, rfl⟩
  simp only [List.mem_append, List.mem_cons, List.mem_map, List.mem_range, reduceCtorEq,
    List.not_mem_nil, or_false, false_or]
  exact Or.inr ⟨i, hi, rfl⟩

theorem CuckooHandle.metadataKey_not_mem_dataKeys (h : CuckooHandle) : h.metadataKey ∉ h.dataKeys :=
  self_not_mem_keysMinus _ _

/-- from the C19 hypotheses: a `cuckoo_…` key never equals a 16-letter base. -/
theorem CuckooHandle.bucketsAvoid_of_isBase (h : CuckooHandle) {mk : String} (hk : IsBase h.key)
    (hmk : IsBase mk) : h.BucketsAvoid mk := by
  intro i _
  constructor
  · intro e
    have := KeyD.render_inj (d₁ := KeyD.bucket h.key i) (d₂ := KeyD.base mk) hk hmk e
    cases this
  · intro e
    have := KeyD.render_inj (d₁ := KeyD.blen h.key i) (d₂ := KeyD.base mk) hk hmk e
    cases this

/-- every operation framed by the two keys of bucket `i < n` is framed by the data keys. -/
theorem supported_bucket_in_data {ρ : Type} (h : CuckooHandle) (hsep : h.BucketsAvoid h.metadataKey)
    (i : Nat) (hi : i < h.n) (op : Op ρ)
    (hop : SupportedOn (bucketKeys (cuckooBucketKey h.key i)) op) : SupportedOn h.dataKeys op := by
  refine hop.mono ?_
  intro k hk
  simp only [bucketKeys, bucketLenKey, List.mem_cons, List.not_mem_nil, or_false] at hk
  rcases hk with rfl | rfl
  · exact mem_keysMinus.mpr ⟨h.bucketKey_mem hi, (hsep i hi).1⟩
  · exact mem_keysMinus.mpr ⟨h.lenKey_mem hi, (hsep i hi).2⟩

/-! #### `cuckooAttach` ignores the `length` field -/

theorem field_hashSet_ne (m : List (String × String)) {f f' : String} (v : String) (hne : f' ≠ f) :
    field (hashSet m f v) f' = field m f' := by
  unfold field; rw [hashGet_hashSet, if_neg hne]

/-- the handle `cuckooAttach` builds from the fields of the hash. -/
def cuckooOfVals (vals : List (String × String)) (mk : String) : CuckooHandle :=
  { n := atoi (field vals "size"), bsize := atoi (field vals "bucketSize"),
    fpl := atoi (field vals "fingerPrintLength"), retries := atoi (field vals "retries"),
    key := field vals "key", metadataKey := mk }

theorem cuckooAttach_eq (s : Store) (mk : String) :
    cuckooAttach s mk = ((cmdHGETALL mk s).2).map (cuckooOfVals · mk) := by
  unfold cuckooAttach cuckooOfVals
  cases (cmdHGETALL mk s).2 <;> rfl

theorem cuckooOfVals_hashSet_length (m : List (String × String)) (v mk : String) :
    cuckooOfVals (hashSet m "length" v) mk = cuckooOfVals m mk := by
  unfold cuckooOfVals
  rw [field_hashSet_ne m v (by decide : "size" ≠ "length"),
    field_hashSet_ne m v (by decide : "bucketSize" ≠ "length"),
    field_hashSet_ne m v (by decide : "fingerPrintLength" ≠ "length"),
    field_hashSet_ne m v (by decide : "retries" ≠ "length"),
    field_hashSet_ne m v (by decide : "key" ≠ "length")]

theorem cuckooAttach_set_hash (s : Store) (mk : String) (m : List (String × String)) :
    cuckooAttach (s.set mk (.hash m)) mk = some (cuckooOfVals m mk) := by
  rw [cuckooAttach_eq, cmdHGETALL_hash (Store.set_self _ _ _)]; rfl

/-- rewriting the `length` field of the metadata hash does not change what attach returns. -/
theorem cuckooAttach_set_length (s : Store) (mk : String) (m : List (String × String)) (v : String) :
    cuckooAttach (s.set mk (.hash (hashSet m "length" v))) mk = cuckooAttach (s.set mk (.hash m)) mk := by
  rw [cuckooAttach_set_hash, cuckooAttach_set_hash, cuckooOfVals_hashSet_length]

/-- `HINCRBY mk "length" d` — in every case: absent key, absent field, a number, not a number,
    wrong type — leaves `cuckooAttach · mk` unchanged. -/
theorem cuckooAttach_HINCRBY_length (mk : String) (d : Int) (s : Store) :
    cuckooAttach (cmdHINCRBY mk "length" d s).1 mk = cuckooAttach s mk := by
  have habs : ∀ m, s mk = some (.hash m) → cuckooAttach s mk = some (cuckooOfVals m mk) := by
    intro m hm; rw [cuckooAttach_eq, cmdHGETALL_hash hm]; rfl
  unfold cmdHINCRBY
  cases hs : s mk with
  | none =>
    simp only
    have e : ([("length", renderInt d)] : List (String × String)) = hashSet [] "length" (renderInt d) := rfl
    rw [e, cuckooAttach_set_hash, cuckooOfVals_hashSet_length, cuckooAttach_eq]
    unfold cmdHGETALL; rw [hs]; rfl
  | some v =>
    cases v with
    | hash m =>
      simp only
      cases hg : hashGet m "length" with
      | none =>
        simp only
        rw [cuckooAttach_set_hash, cuckooOfVals_hashSet_length, habs m hs]
      | some v =>
        simp only
        cases parseIntStrict v with
        | none => rfl
        | some n =>
          simp only
          rw [cuckooAttach_set_hash, cuckooOfVals_hashSet_length, habs m hs]
    | str b => rfl
    | list l => rfl
    | zset z => rfl

/-- the operations of a cuckoo filter handle on the store: the nine bucket operations on any of
    its buckets `i < n` (for any `size` argument; the filter passes `bsize`), the three accessors
    of the `length` field, plus anything that keeps the metadata key. -/
inductive CuckooHandle.Step (h : CuckooHandle) : (Store → Store) → Prop
  | bucketNew (i : Nat) (hi : i < h.n) : Step h (fun s => (bucketNew (cuckooBucketKey h.key i) s).1)
  | isFree (i : Nat) (hi : i < h.n) (size : Nat) :
      Step h (fun s => (bucketIsFree (cuckooBucketKey h.key i) size s).1)
  | add (i : Nat) (hi : i < h.n) (size : Nat) (e : String) :
      Step h (fun s => (bucketAdd (cuckooBucketKey h.key i) size e s).1)
  | remove (i : Nat) (hi : i < h.n) (e : String) :
      Step h (fun s => (bucketRemove (cuckooBucketKey h.key i) e s).1)
  | lookup (i : Nat) (hi : i < h.n) (e : String) :
      Step h (fun s => (bucketLookup (cuckooBucketKey h.key i) e s).1)
  | slotAt (i : Nat) (hi : i < h.n) (j : Nat) :
      Step h (fun s => (bucketAt (cuckooBucketKey h.key i) j s).1)
  | slotSet (i : Nat) (hi : i < h.n) (j : Nat) (e : String) :
      Step h (fun s => (bucketSet (cuckooBucketKey h.key i) j e s).1)
  | getLength (i : Nat) (hi : i < h.n) : Step h (fun s => (bucketGetLength (cuckooBucketKey h.key i) s).1)
  | elements (i : Nat) (hi : i < h.n) : Step h (fun s => (bucketElements (cuckooBucketKey h.key i) s).1)
  | incrLength : Step h (fun s => (cuckooIncrLength h s).1)
  | decrLength : Step h (fun s => (cuckooDecrLength h s).1)
  | length : Step h (fun s => (cuckooLength h s).1)
  | other (t : Store → Store) (ht : KeepsKey h.metadataKey t) : Step h t

theorem CuckooHandle.Step.attach_stable {h : CuckooHandle} (hsep : h.BucketsAvoid h.metadataKey)
    {t : Store → Store} (ht : h.Step t) (s : Store) :
    cuckooAttach (t s) h.metadataKey = cuckooAttach s h.metadataKey := by
  have hmk := h.metadataKey_not_mem_dataKeys
  have key : ∀ {ρ : Type} (i : Nat), i < h.n → ∀ (op : Op ρ),
      SupportedOn (bucketKeys (cuckooBucketKey h.key i)) op →
      cuckooAttach (op s).1 h.metadataKey = cuckooAttach s h.metadataKey := by
    intro ρ i hi op hop
    exact cuckooAttach_congr ((supported_bucket_in_data h hsep i hi op hop).1 s _ hmk)
  cases ht with
  | bucketNew i hi => exact key i hi _ (supported_bucketNew _)
  | isFree i hi size => exact key i hi _ (supported_bucketIsFree _ size)
  | add i hi size e => exact key i hi _ (supported_bucketAdd _ size e)
  | remove i hi e => exact key i hi _ (supported_bucketRemove _ e)
  | lookup i hi e => exact key i hi _ (supported_bucketLookup _ e)
  | slotAt i hi j => exact key i hi _ (supported_bucketAt _ j)
  | slotSet i hi j e => exact key i hi _ (supported_bucketSet _ j e)
  | getLength i hi => exact key i hi _ (supported_bucketGetLength _)
  | elements i hi => exact key i hi _ (supported_bucketElements _)
  | incrLength => exact cuckooAttach_HINCRBY_length _ _ s
  | decrLength => exact cuckooAttach_HINCRBY_length _ _ s
  | length =>
    refine cuckooAttach_congr ?_
    show (cmdHGET h.metadataKey "length" s).1 h.metadataKey = s h.metadataKey
    unfold cmdHGET; split <;> rfl
  | other t ht => exact cuckooAttach_congr (ht s)

end Gostatix.Redis
