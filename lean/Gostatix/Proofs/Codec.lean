/-
  Gostatix.Proofs.Codec — helper lemmas for the binary-format properties C11 (round trip,
  exact byte counts) and C18 (truncated images are rejected).

  Everything here is stated with unpacked hypotheses (no `WF` predicates); the predicates and
  the property theorems live in Props/C11.lean and Props/C18.lean.
-/
import Gostatix.Model.Codec
namespace Gostatix

/-! ### generic facts about the decoder monad -/

namespace Dec
variable {α β : Type}

/-- running a bind = run the first decoder, then the continuation on what is left -/
theorem run_bind (d : Dec α) (f : α → Dec β) : ∀ bs : Bytes,
    run (bind d f) bs = match run d bs with
      | none => none
      | some (a, r) => run (f a) r := by
  induction d with
  | ret a => intro bs; simp [bind, run]
  | err => intro bs; simp [bind, run]
  | read n k ih =>
    intro bs
    simp only [bind, run]
    split
    · rfl
    · exact ih _ _

/-- rewriting form of `run_bind` -/
theorem run_bind_of_eq {d : Dec α} {f : α → Dec β} {bs r : Bytes} {a : α}
    (h : run d bs = some (a, r)) : run (bind d f) bs = run (f a) r := by
  rw [run_bind, h]

theorem run_bind_of_none {d : Dec α} {f : α → Dec β} {bs : Bytes}
    (h : run d bs = none) : run (bind d f) bs = none := by
  rw [run_bind, h]

@[simp] theorem run_ret (a : α) (bs : Bytes) : run (ret a) bs = some (a, bs) := rfl

/-- a decoder that succeeds on `full` consuming `full.length - rest.length` bytes rejects every
    prefix of `full` shorter than what it consumed -/
theorem prefix_rejected (d : Dec α) : ∀ (full : Bytes) (a : α) (rest : Bytes),
    run d full = some (a, rest) →
    ∀ p : Bytes, p.length < full.length - rest.length → p <+: full → run d p = none := by
  induction d with
  | ret a => intro full a' rest h p hp hpre; simp [run] at h; obtain ⟨_, rfl⟩ := h; omega
  | err => intro full a rest h; simp [run] at h
  | read n k ih =>
    intro full a rest h p hp hpre
    simp only [run] at h ⊢
    split at h
    · simp at h
    · rename_i hn
      split
      · rfl
      · rename_i hpn
        have hpn' : n ≤ p.length := by omega
        obtain ⟨t, rfl⟩ := hpre
        have e1 : (p ++ t).take n = p.take n := by rw [List.take_append_of_le_length hpn']
        have e2 : (p ++ t).drop n = p.drop n ++ t := by rw [List.drop_append_of_le_length hpn']
        rw [e1, e2] at h
        apply ih (p.take n) (p.drop n ++ t) a rest h (p.drop n)
        · simp at hp ⊢; omega
        · exact ⟨t, rfl⟩

/-- a strict prefix is strictly shorter -/
theorem length_lt_of_prefix_ne {p full : Bytes} (hpre : p <+: full) (hne : p ≠ full) :
    p.length < full.length := by
  obtain ⟨t, rfl⟩ := hpre
  cases t with
  | nil => simp at hne
  | cons x xs => simp

/-- a decoder that consumes the whole of `full` rejects every strict prefix of `full` -/
theorem strict_prefix_rejected {d : Dec α} {full : Bytes} {a : α}
    (h : run d full = some (a, [])) {p : Bytes} (hpre : p <+: full) (hne : p ≠ full) :
    run d p = none := by
  apply prefix_rejected d full a [] h p _ hpre
  have := length_lt_of_prefix_ne hpre hne
  simpa using this

end Dec

namespace Codec
open Dec

/-! ### `encList` -/

@[simp] theorem encList_nil {α} (f : α → Bytes) : encList f [] = [] := rfl
@[simp] theorem encList_cons {α} (f : α → Bytes) (a : α) (l : List α) :
    encList f (a :: l) = f a ++ encList f l := rfl

theorem length_encList {α} (f : α → Bytes) (l : List α) :
    (encList f l).length = sumL (l.map fun a => (f a).length) := by
  induction l with
  | nil => rfl
  | cons a l ih => simp [ih]

theorem length_encList_const {α} (f : α → Bytes) (c : Nat) (l : List α)
    (h : ∀ a ∈ l, (f a).length = c) : (encList f l).length = l.length * c := by
  induction l with
  | nil => simp
  | cons a l ih =>
    have h1 := h a (by simp)
    have h2 := ih (fun b hb => h b (by simp [hb]))
    simp [h1, h2, Nat.add_mul]
    omega

/-- `replicateM` inverts `encList`, element decoder correct on every element of the list -/
theorem run_replicateM {α} (d : Dec α) (enc : α → Bytes) (l : List α)
    (h : ∀ a ∈ l, ∀ rest, run d (enc a ++ rest) = some (a, rest)) :
    ∀ rest, run (replicateM l.length d) (encList enc l ++ rest) = some (l, rest) := by
  induction l with
  | nil => intro rest; simp [replicateM]
  | cons a l ih =>
    intro rest
    have ha := h a (by simp)
    have hl := ih (fun b hb => h b (by simp [hb]))
    simp only [List.length_cons, replicateM, encList_cons, List.append_assoc]
    rw [run_bind_of_eq (ha _), run_bind_of_eq (hl _)]
    rfl

/-- same, with the count given separately (as the formats carry it in a header field) -/
theorem run_replicateM' {α} (d : Dec α) (enc : α → Bytes) (l : List α) (n : Nat)
    (hn : l.length = n)
    (h : ∀ a ∈ l, ∀ rest, run d (enc a ++ rest) = some (a, rest)) (rest : Bytes) :
    run (replicateM n d) (encList enc l ++ rest) = some (l, rest) := by
  subst hn; exact run_replicateM d enc l h rest

/-! ### primitives -/

@[simp] theorem length_beBytes (k n : Nat) : (beBytes k n).length = k := by
  induction k with
  | zero => rfl
  | succ k ih => simp [beBytes, ih]

@[simp] theorem length_encU64 (n : Nat) : (encU64 n).length = 8 := length_beBytes 8 n

theorem beVal_beBytes8 (n : Nat) (h : n < 2 ^ 64) : beVal (beBytes 8 n) = n := by
  simp [beVal, beBytes, UInt8.toNat_ofNat']
  omega

theorem run_decU64 {n : Nat} (h : n < 2 ^ 64) (rest : Bytes) :
    run decU64 (encU64 n ++ rest) = some (n, rest) := by
  have hl : (encU64 n).length = 8 := length_encU64 n
  simp only [decU64, run]
  rw [if_neg (by simp), List.take_left' hl, List.drop_left' hl]
  simp [encU64, beVal_beBytes8 n h]

@[simp] theorem length_encStr (s : Bytes) : (encStr s).length = 8 + s.length := by
  simp [encStr]

theorem run_decStr {s : Bytes} (h : s.length < 2 ^ 64) (rest : Bytes) :
    run decStr (encStr s ++ rest) = some (s, rest) := by
  simp only [decStr, encStr, List.append_assoc]
  rw [run_bind_of_eq (run_decU64 h _)]
  simp only [run]
  rw [if_neg (by simp), List.take_left' rfl, List.drop_left' rfl]

/-! ### components shared by several formats -/

theorem run_decWords (l : List Nat) (n : Nat) (hn : l.length = n) (h : ∀ w ∈ l, w < 2 ^ 64)
    (rest : Bytes) :
    run (replicateM n decU64) (encList encU64 l ++ rest) = some (l, rest) :=
  run_replicateM' decU64 encU64 l n hn (fun w hw => run_decU64 (h w hw)) rest

theorem run_decStrs (l : List Bytes) (n : Nat) (hn : l.length = n)
    (h : ∀ e ∈ l, e.length < 2 ^ 64) (rest : Bytes) :
    run (replicateM n decStr) (encList encStr l ++ rest) = some (l, rest) :=
  run_replicateM' decStr encStr l n hn (fun e he => run_decStr (h e he)) rest

theorem run_decMatrix (m : List (List Nat)) (rows cols : Nat) (hr : m.length = rows)
    (hc : ∀ r ∈ m, r.length = cols) (hv : ∀ r ∈ m, ∀ c ∈ r, c < 2 ^ 64) (rest : Bytes) :
    run (replicateM rows (replicateM cols decU64)) (encList (encList encU64) m ++ rest)
      = some (m, rest) :=
  run_replicateM' _ _ m rows hr
    (fun r hrm rest' => run_decWords r cols (hc r hrm) (hv r hrm) rest') rest

theorem run_decCMS (s : CMSImg) (h1 : s.rows < 2 ^ 64) (h2 : s.cols < 2 ^ 64)
    (h3 : s.allSum < 2 ^ 64) (hr : s.matrix.length = s.rows)
    (hc : ∀ r ∈ s.matrix, r.length = s.cols) (hv : ∀ r ∈ s.matrix, ∀ c ∈ r, c < 2 ^ 64)
    (rest : Bytes) : run decCMS (encCMS s ++ rest) = some (s, rest) := by
  simp only [decCMS, encCMS, List.append_assoc]
  rw [run_bind_of_eq (run_decU64 h1 _), run_bind_of_eq (run_decU64 h2 _),
    run_bind_of_eq (run_decU64 h3 _),
    run_bind_of_eq (run_decMatrix s.matrix s.rows s.cols hr hc hv _)]
  rfl

theorem run_decBucket (b : BucketImg) (h1 : b.size < 2 ^ 64) (h2 : b.length < 2 ^ 64)
    (hl : b.elements.length = b.size) (he : ∀ e ∈ b.elements, e.length < 2 ^ 64)
    (rest : Bytes) : run decBucket (encBucket b ++ rest) = some (b, rest) := by
  simp only [decBucket, encBucket, List.append_assoc]
  rw [run_bind_of_eq (run_decU64 h1 _), run_bind_of_eq (run_decU64 h2 _),
    run_bind_of_eq (run_decStrs b.elements b.size hl he _)]
  rfl

theorem run_decHeapElem (e : Bytes × Nat) (h1 : e.1.length < 2 ^ 64) (h2 : e.2 < 2 ^ 64)
    (rest : Bytes) : run decHeapElem (encHeapElem e ++ rest) = some (e, rest) := by
  simp only [decHeapElem, encHeapElem, List.append_assoc]
  rw [run_bind_of_eq (run_decStr h1 _), run_bind_of_eq (run_decU64 h2 _)]
  rfl

/-! ### encoded lengths of the components -/

theorem length_encWords (l : List Nat) : (encList encU64 l).length = l.length * 8 :=
  length_encList_const encU64 8 l (fun _ _ => length_encU64 _)

theorem length_encMatrix (m : List (List Nat)) (cols : Nat) (hc : ∀ r ∈ m, r.length = cols) :
    (encList (encList encU64) m).length = m.length * (8 * cols) :=
  length_encList_const _ _ m (fun r hr => by rw [length_encWords, hc r hr, Nat.mul_comm])

theorem length_encCMS (s : CMSImg) (hr : s.matrix.length = s.rows)
    (hc : ∀ r ∈ s.matrix, r.length = s.cols) : (encCMS s).length = countCMS s := by
  simp only [encCMS, countCMS, List.length_append, length_encU64,
    length_encMatrix s.matrix s.cols hc, hr]

theorem length_encBucket (b : BucketImg) : (encBucket b).length = countBucket b := by
  simp only [encBucket, countBucket, List.length_append, length_encU64, length_encList,
    length_encStr]

theorem length_encBuckets (l : List BucketImg) :
    (encList encBucket l).length = sumL (l.map countBucket) := by
  rw [length_encList]; simp only [length_encBucket]

theorem length_encHeapElem (e : Bytes × Nat) : (encHeapElem e).length = e.1.length + 16 := by
  simp only [encHeapElem, List.length_append, length_encStr, length_encU64]; omega

theorem length_encHeap (l : List (Bytes × Nat)) :
    (encList encHeapElem l).length = sumL (l.map fun e => e.1.length + 16) := by
  rw [length_encList]; simp only [length_encHeapElem]

end Codec
end Gostatix
