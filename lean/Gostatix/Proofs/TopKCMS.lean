/-
  Gostatix.Proofs.TopKCMS — the estimates of the Count-Min sketch never decrease under updates
  (of any element): what discharges the monotonicity part of `TopK.EstOK`.
-/
import Gostatix.Model.CMS
namespace Gostatix.CMS

/-- pointwise `≤` of two lists of the same length -/
def LeAll : List Nat → List Nat → Prop
  | [], [] => True
  | a :: as, b :: bs => a ≤ b ∧ LeAll as bs
  | _, _ => False

theorem LeAll.refl : ∀ l, LeAll l l
  | [] => trivial
  | _ :: l => ⟨Nat.le_refl _, LeAll.refl l⟩

theorem foldl_min_mono : ∀ (vs ws : List Nat) (a b : Nat), LeAll vs ws → a ≤ b →
    vs.foldl (fun mn x => if x < mn then x else mn) a ≤
      ws.foldl (fun mn x => if x < mn then x else mn) b
  | [], [], _, _, _, h => h
  | v :: vs, w :: ws, a, b, hl, h => by
    simp only [List.foldl_cons]
    apply foldl_min_mono vs ws _ _ hl.2
    have := hl.1
    split <;> split <;> omega
  | [], _ :: _, _, _, hl, _ => hl.elim
  | _ :: _, [], _, _, hl, _ => hl.elim

/-- `minInit` is monotone -/
theorem minInit_mono (vs ws : List Nat) (h : LeAll vs ws) : minInit vs ≤ minInit ws := by
  cases vs <;> cases ws
  · exact Nat.le_refl _
  · exact h.elim
  · exact h.elim
  · exact foldl_min_mono _ _ _ _ h.2 h.1

/-- a cell never decreases under `+= c` at any column -/
theorem getD_le_modAt (row : List Nat) (p q c : Nat) :
    row.getD q 0 ≤ (modAt row p (· + c)).getD q 0 := by
  by_cases hp : p < row.length
  · rw [modAt_getD row p q _ 0 hp]
    split
    · rename_i h; subst h; omega
    · exact Nat.le_refl _
  · rw [modAt_of_ge row p _ (by omega)]
    exact Nat.le_refl _

/-- the cells probed by `q` never decrease under an update at positions `p` -/
theorem cells_updRows_mono : ∀ (m : List (List Nat)) (p q : List Nat) (c : Nat),
    LeAll (cells m q) (cells (updRows m p c) q)
  | [], _, _, _ => by simp [updRows, cells, LeAll]
  | _ :: _, _, [], _ => by
    rename_i row m p c
    cases p <;> simp [updRows, cells, LeAll]
  | row :: m, [], _ :: _, _ => by simp only [updRows]; exact LeAll.refl _
  | row :: m, p :: ps, q :: qs, c => by
    simp only [updRows, cells]
    exact ⟨getD_le_modAt row p q c, cells_updRows_mono m ps qs c⟩

/-- **Estimates never decrease**: after any update the estimate of any element is at least its
    previous estimate. -/
theorem count_update_ge (s : CMS) (p q : List Nat) (c : Nat) :
    (s.update p c).count q ≥ s.count q := by
  unfold count update
  exact minInit_mono _ _ (cells_updRows_mono s.m p q c)

end Gostatix.CMS
