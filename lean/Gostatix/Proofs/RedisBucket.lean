/-
  Gostatix.Proofs.RedisBucket — the Lua scripts and commands of bucket_redis.go, transcribed on
  the store (Model/RedisCuckoo.lean), simulate `Gostatix.BucketRedis` (Model/Cuckoo.lean) through
  the abstraction `absBucket`; and they read and write only the two keys of the bucket.
-/
import Gostatix.Model.RedisCuckoo
import Gostatix.Proofs.RedisCMS
import Gostatix.Proofs.RedisFrame
namespace Gostatix.Redis

/-! ### strings, bytes, signed decimals -/


theorem latin1_asciiBytes (s : String) (h : ∀ c ∈ s.toList, c.toNat < 256) :
    latin1 (asciiBytes s) = s := by
  unfold latin1 asciiBytes
  rw [List.map_map]
  have : s.toList.map ((fun x : UInt8 => Char.ofNat x.toNat) ∘ fun c => UInt8.ofNat c.toNat) = s.toList := by
    conv => rhs; rw [← List.map_id s.toList]
    apply List.map_congr_left
    intro c hc
    have := h c hc
    simp only [Function.comp, id]
    rw [UInt8.toNat_ofNat']
    rw [Nat.mod_eq_of_lt (by simpa using this)]
    exact Char.ofNat_toNat c
  rw [this]
  exact String.ofList_toList

theorem isDigit_toNat_lt {c : Char} (h : c.isDigit = true) : c.toNat < 256 := by
  simp only [Char.isDigit, Bool.and_eq_true, decide_eq_true_eq] at h
  have := h.2
  have h2 : c.val.toNat ≤ (57 : UInt32).toNat := UInt32.le_iff_toNat_le.mp this
  have h3 : c.toNat = c.val.toNat := rfl
  simp at h2; omega

theorem isDigit_ne_minus {c : Char} (h : c.isDigit = true) : c ≠ '-' := by
  rintro rfl; revert h; decide

theorem parseInt_decimal (n : Nat) : parseInt (decimal n) = some (n : Int) := by
  unfold parseInt
  have hd := decimal_digits n
  have hne := decimal_toList_ne_nil n
  cases h : (decimal n).toList with
  | nil => exact absurd h hne
  | cons a l =>
    have ha : a ≠ '-' := isDigit_ne_minus (hd a (by rw [h]; exact List.mem_cons_self))
    split
    · rename_i cs heq
      simp only [List.cons.injEq] at heq
      exact absurd heq.1 ha
    · rw [parseDecimal_decimal]; rfl

theorem renderInt_natCast (n : Nat) : renderInt (n : Int) = decimal n := rfl

theorem parseIntStrict_decimal (n : Nat) : parseIntStrict (decimal n) = some (n : Int) := by
  unfold parseIntStrict
  rw [parseInt_decimal]
  simp only [renderInt_natCast, if_true]

theorem renderInt_succ (n : Nat) : renderInt ((n : Int) + 1) = decimal (n + 1) := rfl

theorem renderInt_pred {n : Nat} (h : 0 < n) : renderInt ((n : Int) + (-1)) = decimal (n - 1) := by
  obtain ⟨m, rfl⟩ : ∃ m, n = m + 1 := ⟨n - 1, by omega⟩
  have : ((m + 1 : Nat) : Int) + (-1) = (m : Int) := by omega
  rw [this]; rfl

theorem latin1_ascii_decimal (n : Nat) : latin1 (asciiBytes (decimal n)) = decimal n :=
  latin1_asciiBytes _ (fun c hc => isDigit_toNat_lt (decimal_digits n c hc))

theorem bucketLenKey_ne (bk : String) : bucketLenKey bk ≠ bk := by
  intro h
  have := congrArg String.length h
  unfold bucketLenKey at this
  rw [String.length_append] at this
  have h4 : "_len".length = 4 := by decide
  omega

/-! ### evaluating the new commands -/

theorem cmdGET_str {s : Store} {k : String} {b : List UInt8} (h : s k = some (.str b)) :
    cmdGET k s = (s, some (some (latin1 b))) := by
  unfold cmdGET; rw [h]

theorem cmdINCRBY_decimal {s : Store} {k : String} {n : Nat}
    (h : s k = some (.str (asciiBytes (decimal n)))) (d : Int) :
    cmdINCRBY k d s = (s.set k (.str (asciiBytes (renderInt ((n : Int) + d)))), some ((n : Int) + d)) := by
  unfold cmdINCRBY; rw [h]; simp only [latin1_ascii_decimal, parseIntStrict_decimal]

theorem cmdLPOS_none {s : Store} {k : String} (h : s k = none) (e : String) :
    cmdLPOS k e s = (s, some none) := by
  unfold cmdLPOS; rw [h]

theorem cmdLPOS_list {s : Store} {k : String} {l : List String} (h : s k = some (.list l))
    (e : String) : cmdLPOS k e s = (s, some (lpos l e)) := by
  unfold cmdLPOS; rw [h]

theorem cmdLINDEX_none {s : Store} {k : String} (h : s k = none) (i : Nat) :
    cmdLINDEX k i s = (s, some none) := by
  unfold cmdLINDEX; rw [h]

theorem cmdLRANGE_none {s : Store} {k : String} (h : s k = none) :
    cmdLRANGE k s = (s, some []) := by
  unfold cmdLRANGE; rw [h]

theorem cmdLSET_none {s : Store} {k : String} (h : s k = none) (i : Nat) (v : String) :
    cmdLSET k i v s = (s, none) := by
  unfold cmdLSET; rw [h]

theorem cmdLSET_list_ge {s : Store} {k : String} {l : List String} (h : s k = some (.list l))
    {i : Nat} (hi : ¬ i < l.length) (v : String) : cmdLSET k i v s = (s, none) := by
  unfold cmdLSET; rw [h]; simp only [hi, if_false]

theorem luaInt_some {x : String} {n : Int} (h : parseInt x = some n) (s : Store) :
    luaInt (some x) s = (s, some n) := by
  unfold luaInt; simp only [h]

theorem Script.try_ok {α} {m : Script α} {s s' : Store} {r : Option α} (h : m s = (s', r)) :
    Script.try_ m s = (s', some r) := by
  unfold Script.try_; rw [h]

theorem goBool_eq {m : Script Bool} {s s' : Store} {r : Option Bool} (h : m s = (s', r)) :
    goBool m s = (s', r.getD false) := by
  unfold goBool; rw [h]

theorem contains_idxOf_lt {l : List String} {e : String} (h : l.contains e = true) :
    l.idxOf e < l.length := by
  rw [List.contains_iff_mem] at h
  exact List.idxOf_lt_length_iff.mpr h

/-! ### the abstraction -/

theorem absBucket_eq_some_iff (st : Store) (bk : String) (size : Nat) (b : BucketRedis String) :
    absBucket st bk size = some b ↔
      b.size = size ∧ (st bk = none ∧ b.list = [] ∨ st bk = some (.list b.list)) ∧
      st (bucketLenKey bk) = some (.str (asciiBytes (decimal b.len))) := by
  unfold absBucket
  constructor
  · intro h
    split at h
    · rename_i l bytes hl hb
      split at h
      · rename_i n hn
        split at h
        · rename_i hcanon
          cases h
          refine ⟨rfl, ?_, by rw [hb, hcanon]⟩
          unfold listAt at hl
          split at hl
          · rename_i h0; cases hl; exact Or.inl ⟨h0, rfl⟩
          · rename_i l' h0; cases hl; exact Or.inr h0
          · cases hl
        · cases h
      · cases h
    · cases h
  · rintro ⟨hsz, hl, hb⟩
    have hl' : listAt st bk = some b.list := by
      unfold listAt
      rcases hl with ⟨h0, h1⟩ | h0
      · rw [h0, h1]
      · rw [h0]
    rw [hl', hb]
    simp only [latin1_ascii_decimal, parseDecimal_decimal, if_true]
    cases b; simp only at hsz; subst hsz; rfl

/-- a store that agrees with a representing store on the two keys represents the same bucket. -/
theorem absBucket_congr {st st' : Store} {bk : String} (h1 : st' bk = st bk)
    (h2 : st' (bucketLenKey bk) = st (bucketLenKey bk)) (size : Nat) :
    absBucket st' bk size = absBucket st bk size := by
  unfold absBucket listAt; rw [h1, h2]

/-! ### the operations -/

section ops
variable (s : Store) (bk : String) (size : Nat) (b : BucketRedis String)

theorem bucket_isFree_abs (habs : absBucket s bk size = some b) :
    bucketIsFree bk size s = (s, (BucketRedis.ops "").isFree b) := by
  obtain ⟨hsz, _, hlen⟩ := (absBucket_eq_some_iff _ _ _ _).mp habs
  have hscript : bucketIsFreeScript bk size s = (s, some (decide ((b.len : Int) < (size : Int)))) := by
    unfold bucketIsFreeScript
    rw [Script.bind_ok (Script.try_ok (cmdGET_str hlen))]
    simp only [Option.getD_some, latin1_ascii_decimal]
    rw [Script.bind_ok (luaInt_some (parseInt_decimal _) s)]
    rfl
  unfold bucketIsFree
  rw [goBool_eq hscript]
  simp only [Option.getD_some, BucketRedis.ops, BucketRedis.isFree, hsz, Int.ofNat_lt]

theorem bucket_add_abs (e : String) (habs : absBucket s bk size = some b) :
    ∃ s', bucketAdd bk size e s = (s', decide (e ≠ "" ∧ (BucketRedis.ops "").isFree b = true)) ∧
      absBucket s' bk size = some ((BucketRedis.ops "").add b e) ∧
      ∀ k, k ≠ bk → k ≠ bucketLenKey bk → s' k = s k := by
  obtain ⟨hsz, hlist, hlen⟩ := (absBucket_eq_some_iff _ _ _ _).mp habs
  have hK := bucketLenKey_ne bk
  by_cases he : e = ""
  · refine ⟨s, ?_, ?_, fun _ _ _ => rfl⟩
    · unfold bucketAdd; simp [he]
    · rw [habs]; simp [BucketRedis.ops, BucketRedis.add, he]
  by_cases hfree : b.len < size
  · -- room: the element is stored and the counter incremented
    have hguard : ¬ ((b.len : Int) ≥ (size : Int)) := by omega
    have hmodel : (BucketRedis.ops "").add b e =
        if b.list.contains "" then
          { b with list := b.list.set (b.list.idxOf "") e, len := b.len + 1 }
        else { b with list := e :: b.list, len := b.len + 1 } := by
      simp only [BucketRedis.ops, BucketRedis.add, BucketRedis.isFree, hsz, he, false_or]
      rw [if_neg (by simpa using hfree)]
    -- the list part
    have hstep : ∃ s₁, s₁ bk = some (.list ((BucketRedis.ops "").add b e).list) ∧
        (∀ k, k ≠ bk → s₁ k = s k) ∧ bucketStoreElement bk e s = (s₁, some ()) := by
      unfold bucketStoreElement
      rcases hlist with ⟨h0, h1⟩ | h0
      · refine ⟨s.set bk (.list [e]), ?_, fun k hk => Store.set_ne _ _ hk, ?_⟩
        · rw [hmodel, h1]; simp
        · rw [Script.bind_ok (Script.try_ok (cmdLPOS_none h0 _))]
          dsimp only
          rw [Script.bind_ok (Script.try_ok (cmdLPUSH_none h0 (by simp)))]; rfl
      · by_cases hc : b.list.contains "" = true
        · refine ⟨s.set bk (.list (b.list.set (b.list.idxOf "") e)), ?_,
            fun k hk => Store.set_ne _ _ hk, ?_⟩
          · rw [hmodel, if_pos hc]; exact Store.set_self _ _ _
          · rw [Script.bind_ok (Script.try_ok (cmdLPOS_list h0 _))]
            simp only [lpos, hc, if_true]
            rw [Script.bind_ok (Script.try_ok (cmdLSET_list h0 (contains_idxOf_lt hc) _))]; rfl
        · have hc' : b.list.contains "" = false := by simpa using hc
          refine ⟨s.set bk (.list (e :: b.list)), ?_, fun k hk => Store.set_ne _ _ hk, ?_⟩
          · rw [hmodel, if_neg hc]; exact Store.set_self _ _ _
          · rw [Script.bind_ok (Script.try_ok (cmdLPOS_list h0 _))]
            simp only [lpos, hc', Bool.false_eq_true, if_false]
            rw [Script.bind_ok (Script.try_ok (cmdLPUSH_list h0 (by simp)))]; rfl
    obtain ⟨s₁, hs₁, hs₁o, hrun⟩ := hstep
    have hlen₁ : s₁ (bucketLenKey bk) = some (.str (asciiBytes (decimal b.len))) := by
      rw [hs₁o _ hK]; exact hlen
    have hsize' : ((BucketRedis.ops "").add b e).size = size ∧
        ((BucketRedis.ops "").add b e).len = b.len + 1 := by
      rw [hmodel]; split <;> exact ⟨hsz, rfl⟩
    refine ⟨s₁.set (bucketLenKey bk) (.str (asciiBytes (decimal (b.len + 1)))), ?_, ?_, ?_⟩
    · unfold bucketAdd; rw [if_neg he]
      have hscript : bucketAddScript bk size e s =
          (s₁.set (bucketLenKey bk) (.str (asciiBytes (decimal (b.len + 1)))), some true) := by
        unfold bucketAddScript
        rw [Script.bind_ok (Script.try_ok (cmdGET_str hlen))]
        simp only [Option.getD_some, latin1_ascii_decimal]
        rw [Script.bind_ok (luaInt_some (parseInt_decimal _) s)]
        rw [if_neg hguard, Script.bind_ok hrun]
        rw [Script.bind_ok (Script.try_ok (cmdINCRBY_decimal hlen₁ 1))]
        rfl
      rw [goBool_eq hscript]
      simp only [Option.getD_some, BucketRedis.ops, BucketRedis.isFree,
        hsz, hfree, he, ne_eq, not_false_eq_true, decide_true, and_self]
    · refine (absBucket_eq_some_iff _ _ _ _).mpr ⟨hsize'.1, Or.inr ?_, ?_⟩
      · rw [Store.set_ne _ _ (Ne.symm hK)]; exact hs₁
      · rw [Store.set_self, hsize'.2]
    · intro k hk1 hk2
      rw [Store.set_ne _ _ hk2]; exact hs₁o k hk1
  · -- full: the script answers false and writes nothing
    have hguard : (b.len : Int) ≥ (size : Int) := by omega
    refine ⟨s, ?_, ?_, fun _ _ _ => rfl⟩
    · unfold bucketAdd; rw [if_neg he]
      have hscript : bucketAddScript bk size e s = (s, some false) := by
        unfold bucketAddScript
        rw [Script.bind_ok (Script.try_ok (cmdGET_str hlen))]
        simp only [Option.getD_some, latin1_ascii_decimal]
        rw [Script.bind_ok (luaInt_some (parseInt_decimal _) s)]
        rw [if_pos hguard]; rfl
      rw [goBool_eq hscript]
      simp only [Option.getD_some, BucketRedis.ops, BucketRedis.isFree, hsz, hfree,
        decide_false, Bool.false_eq_true, and_false]
    · rw [habs]; congr 1
      simp only [BucketRedis.ops, BucketRedis.add, BucketRedis.isFree, hsz]
      rw [if_pos (Or.inr (by simpa using hfree))]

theorem bucket_remove_abs (e : String) (habs : absBucket s bk size = some b)
    (hpres : (BucketRedis.ops "").lookup b e = true) (hpos : 0 < b.len) :
    ∃ s', bucketRemove bk e s = (s', some true) ∧
      absBucket s' bk size = some ((BucketRedis.ops "").remove b e) ∧
      ∀ k, k ≠ bk → k ≠ bucketLenKey bk → s' k = s k := by
  obtain ⟨hsz, hlist, hlen⟩ := (absBucket_eq_some_iff _ _ _ _).mp habs
  have hK := bucketLenKey_ne bk
  have hc : b.list.contains e = true := hpres
  have h0 : s bk = some (.list b.list) := by
    rcases hlist with ⟨_, h1⟩ | h0
    · rw [h1] at hc; simp at hc
    · exact h0
  have hmodel : (BucketRedis.ops "").remove b e =
      { b with list := b.list.set (b.list.idxOf e) "", len := b.len - 1 } := by
    simp only [BucketRedis.ops, BucketRedis.remove, hc, if_true]
  let s₁ := s.set bk (.list (b.list.set (b.list.idxOf e) ""))
  have hlen₁ : s₁ (bucketLenKey bk) = some (.str (asciiBytes (decimal b.len))) := by
    show (s.set _ _) _ = _
    rw [Store.set_ne _ _ hK]; exact hlen
  refine ⟨s₁.set (bucketLenKey bk) (.str (asciiBytes (decimal (b.len - 1)))), ?_, ?_, ?_⟩
  · unfold bucketRemove
    rw [Script.bind_ok (cmdLPOS_list h0 _)]
    simp only [lpos, hc, if_true]
    rw [Script.bind_ok (cmdLSET_list h0 (contains_idxOf_lt hc) _)]
    rw [Script.bind_ok (Script.try_ok (cmdINCRBY_decimal hlen₁ (-1)))]
    rw [renderInt_pred hpos]; rfl
  · rw [hmodel]
    refine (absBucket_eq_some_iff _ _ _ _).mpr ⟨hsz, Or.inr ?_, ?_⟩
    · rw [Store.set_ne _ _ (Ne.symm hK)]; exact Store.set_self _ _ _
    · exact Store.set_self _ _ _
  · intro k hk1 hk2
    rw [Store.set_ne _ _ hk2]; exact Store.set_ne _ _ hk1

/-- an absent element: `LPOS` answers nil, `redis.call('LSET', key, false, '')` raises, the
    script aborts before any write — the model's `remove` is the identity as well. -/
theorem bucket_remove_absent (e : String) (habs : absBucket s bk size = some b)
    (hnot : (BucketRedis.ops "").lookup b e = false) :
    bucketRemove bk e s = (s, none) ∧ (BucketRedis.ops "").remove b e = b := by
  obtain ⟨hsz, hlist, hlen⟩ := (absBucket_eq_some_iff _ _ _ _).mp habs
  have hc : b.list.contains e = false := hnot
  constructor
  · unfold bucketRemove
    rcases hlist with ⟨h0, _⟩ | h0
    · rw [Script.bind_ok (cmdLPOS_none h0 _)]; rfl
    · rw [Script.bind_ok (cmdLPOS_list h0 _)]
      simp only [lpos, hc, Bool.false_eq_true, if_false]; rfl
  · simp only [BucketRedis.ops, BucketRedis.remove, hc, Bool.false_eq_true, if_false]

theorem bucket_lookup_abs (e : String) (habs : absBucket s bk size = some b) :
    bucketLookup bk e s = (s, some ((BucketRedis.ops "").lookup b e)) := by
  obtain ⟨hsz, hlist, hlen⟩ := (absBucket_eq_some_iff _ _ _ _).mp habs
  show _ = (s, some (b.list.contains e))
  have hscript : ∃ p : Int, bucketLookupScript bk e s = (s, some p) ∧
      decide (p > -1) = b.list.contains e := by
    unfold bucketLookupScript
    rcases hlist with ⟨h0, h1⟩ | h0
    · refine ⟨-1, ?_, by rw [h1]; rfl⟩
      rw [Script.bind_ok (Script.try_ok (cmdLPOS_none h0 _))]; rfl
    · by_cases hc : b.list.contains e = true
      · refine ⟨(b.list.idxOf e : Nat), ?_, ?_⟩
        · rw [Script.bind_ok (Script.try_ok (cmdLPOS_list h0 _))]
          simp only [lpos, hc, if_true]; rfl
        · rw [hc, decide_eq_true_eq]; omega
      · have hc' : b.list.contains e = false := by simpa using hc
        refine ⟨-1, ?_, by rw [hc']; rfl⟩
        rw [Script.bind_ok (Script.try_ok (cmdLPOS_list h0 _))]
        simp only [lpos, hc', Bool.false_eq_true, if_false]; rfl
  obtain ⟨p, hp, hd⟩ := hscript
  unfold bucketLookup
  rw [Script.bind_ok hp, ← hd]; rfl

theorem bucket_at_abs (i : Nat) (habs : absBucket s bk size = some b) :
    bucketAt bk i s = (s, (BucketRedis.ops "").get b i) := by
  obtain ⟨hsz, hlist, hlen⟩ := (absBucket_eq_some_iff _ _ _ _).mp habs
  unfold bucketAt
  show _ = (s, b.list.getD i "")
  rcases hlist with ⟨h0, h1⟩ | h0
  · rw [cmdLINDEX_none h0, h1]; rfl
  · rw [cmdLINDEX_list h0]
    simp only [Option.getD_some, List.getD_eq_getElem?_getD]

theorem bucket_set_abs (i : Nat) (e : String) (habs : absBucket s bk size = some b) :
    ∃ s', bucketSet bk i e s = (s', if i < b.list.length then some () else none) ∧
      absBucket s' bk size = some ((BucketRedis.ops "").set b i e) ∧
      ∀ k, k ≠ bk → s' k = s k := by
  obtain ⟨hsz, hlist, hlen⟩ := (absBucket_eq_some_iff _ _ _ _).mp habs
  have hK := bucketLenKey_ne bk
  unfold bucketSet
  show ∃ s', _ ∧ absBucket s' bk size = some { b with list := b.list.set i e } ∧ _
  by_cases hi : i < b.list.length
  · have h0 : s bk = some (.list b.list) := by
      rcases hlist with ⟨_, h1⟩ | h0
      · rw [h1] at hi; simp at hi
      · exact h0
    refine ⟨_, by rw [cmdLSET_list h0 hi, if_pos hi], ?_, fun k hk => Store.set_ne _ _ hk⟩
    refine (absBucket_eq_some_iff _ _ _ _).mpr ⟨hsz, Or.inr (Store.set_self _ _ _), ?_⟩
    rw [Store.set_ne _ _ hK]; exact hlen
  · have hnop : b.list.set i e = b.list := List.set_eq_of_length_le (by omega)
    refine ⟨s, ?_, by rw [hnop]; exact habs, fun _ _ => rfl⟩
    rw [if_neg hi]
    rcases hlist with ⟨h0, _⟩ | h0
    · exact cmdLSET_none h0 _ _
    · exact cmdLSET_list_ge h0 hi _

theorem bucket_getLength_abs (habs : absBucket s bk size = some b) :
    bucketGetLength bk s = (s, min b.len (2 ^ 63 - 1)) := by
  obtain ⟨hsz, hlist, hlen⟩ := (absBucket_eq_some_iff _ _ _ _).mp habs
  unfold bucketGetLength
  rw [cmdGET_str hlen]
  simp only [latin1_ascii_decimal, goInt64AsUint64, parseInt_decimal]

theorem bucket_elements_abs (habs : absBucket s bk size = some b) :
    bucketElements bk s = (s, some b.list) := by
  obtain ⟨hsz, hlist, hlen⟩ := (absBucket_eq_some_iff _ _ _ _).mp habs
  unfold bucketElements
  rcases hlist with ⟨h0, h1⟩ | h0
  · rw [cmdLRANGE_none h0, h1]
  · exact cmdLRANGE_list h0

/-- `newBucketRedis` on fresh keys. -/
theorem bucket_new_abs (hf1 : s bk = none) (hf2 : s (bucketLenKey bk) = none) :
    ∃ s', bucketNew bk s = (s', some ()) ∧ absBucket s' bk size = some (BucketRedis.new size) ∧
      ∀ k, k ≠ bucketLenKey bk → s' k = s k := by
  have hK := bucketLenKey_ne bk
  refine ⟨s.set (bucketLenKey bk) (.str (asciiBytes (decimal 0))), ?_, ?_,
    fun k hk => Store.set_ne _ _ hk⟩
  · unfold bucketNew
    rw [Script.bind_ok (Script.try_ok (show cmdINCRBY (bucketLenKey bk) 0 s = _ from by
      unfold cmdINCRBY; rw [hf2]))]
    rfl
  · refine (absBucket_eq_some_iff _ _ _ _).mpr ⟨rfl, Or.inl ⟨?_, rfl⟩, Store.set_self _ _ _⟩
    rw [Store.set_ne _ _ (Ne.symm hK)]; exact hf1

end ops

/-! ### the metadata `length` field -/

theorem hashGet_hashSet_bk (h : List (String × String)) (f v : String) :
    hashGet (hashSet h f v) f = some v := by
  induction h with
  | nil => simp [hashSet, hashGet]
  | cons p h ih =>
    obtain ⟨f', v'⟩ := p
    unfold hashSet
    split
    · simp [hashGet]
    · rename_i hne; simp [hashGet, hne, ih]

theorem absCuckooLength_eq_some_iff (st : Store) (h : CuckooHandle) (n : Nat) :
    absCuckooLength st h = some n ↔
      ∃ m, st h.metadataKey = some (.hash m) ∧ hashGet m "length" = some (decimal n) := by
  unfold absCuckooLength
  constructor
  · intro hh
    split at hh
    · rename_i m hm
      split at hh
      · rename_i v hv
        split at hh
        · rename_i n' hn'
          split at hh
          · rename_i hc; cases hh; exact ⟨m, hm, by rw [hv, hc]⟩
          · cases hh
        · cases hh
      · cases hh
    · cases hh
  · rintro ⟨m, hm, hv⟩
    rw [hm]; simp only [hv, parseDecimal_decimal, if_true]

theorem cuckoo_length_step (st : Store) (h : CuckooHandle) (n : Nat) (d : Int) (r : Nat)
    (habs : absCuckooLength st h = some n) (hr : (n : Int) + d = (r : Int)) :
    ∃ st', cmdHINCRBY h.metadataKey "length" d st = (st', some (r : Int)) ∧
      absCuckooLength st' h = some r ∧ ∀ k, k ≠ h.metadataKey → st' k = st k := by
  obtain ⟨m, hm, hv⟩ := (absCuckooLength_eq_some_iff _ _ _).mp habs
  refine ⟨st.set h.metadataKey (.hash (hashSet m "length" (decimal r))), ?_, ?_,
    fun k hk => Store.set_ne _ _ hk⟩
  · unfold cmdHINCRBY; rw [hm]
    simp only [hv, parseIntStrict_decimal, hr, renderInt_natCast]
  · exact (absCuckooLength_eq_some_iff _ _ _).mpr ⟨_, Store.set_self _ _ _, hashGet_hashSet_bk _ _ _⟩

theorem cuckoo_length_abs (st : Store) (h : CuckooHandle) (n : Nat)
    (habs : absCuckooLength st h = some n) :
    cuckooLength h st = (st, min n (2 ^ 63 - 1)) := by
  obtain ⟨m, hm, hv⟩ := (absCuckooLength_eq_some_iff _ _ _).mp habs
  unfold cuckooLength cmdHGET; rw [hm]
  simp only [hv, goInt64AsUint64, parseInt_decimal]

/-! ### frames -/

theorem supported_mapResult {α β} {K : List String} {m : Op α} (g : α → β) (hm : SupportedOn K m) :
    SupportedOn K (fun s => ((m s).1, g (m s).2) : Op β) := by
  refine ⟨fun s k hk => hm.1 s k hk, fun s s' hag => ?_⟩
  obtain ⟨hr, hs⟩ := hm.2 s s' hag
  exact ⟨by simp only [hr], hs⟩

theorem supported_goBool {K : List String} {m : Script Bool} (hm : SupportedOn K m) :
    SupportedOn K (goBool m) := supported_mapResult (fun r => r.getD false) hm

section commands
variable {K : List String} {k : String}

theorem supported_GET (hk : k ∈ K) : SupportedOn K (cmdGET k) := by
  apply supported_single hk
  · intro s k' _; unfold cmdGET; split <;> rfl
  · intro s s' h; unfold cmdGET; rw [h]; split <;> exact ⟨rfl, h⟩

theorem supported_LPOS (hk : k ∈ K) (e : String) : SupportedOn K (cmdLPOS k e) := by
  apply supported_single hk
  · intro s k' _; unfold cmdLPOS; split <;> rfl
  · intro s s' h; unfold cmdLPOS; rw [h]; split <;> exact ⟨rfl, h⟩

theorem supported_HGET (hk : k ∈ K) (f : String) : SupportedOn K (cmdHGET k f) := by
  apply supported_single hk
  · intro s k' _; unfold cmdHGET; split <;> rfl
  · intro s s' h; unfold cmdHGET; rw [h]; split <;> exact ⟨rfl, h⟩

theorem supported_INCRBY (hk : k ∈ K) (d : Int) : SupportedOn K (cmdINCRBY k d) := by
  apply supported_single hk
  · intro s k' hne; unfold cmdINCRBY
    split
    · exact Store.set_ne s _ hne
    · split
      · exact Store.set_ne s _ hne
      · rfl
    · rfl
  · intro s s' h; unfold cmdINCRBY; rw [h]
    split
    · exact ⟨rfl, by simp⟩
    · split
      · exact ⟨rfl, by simp⟩
      · exact ⟨rfl, h⟩
    · exact ⟨rfl, h⟩

theorem supported_HINCRBY (hk : k ∈ K) (f : String) (d : Int) :
    SupportedOn K (cmdHINCRBY k f d) := by
  apply supported_single hk
  · intro s k' hne; unfold cmdHINCRBY
    split
    · exact Store.set_ne s _ hne
    · split
      · exact Store.set_ne s _ hne
      · split
        · exact Store.set_ne s _ hne
        · rfl
    · rfl
  · intro s s' h; unfold cmdHINCRBY; rw [h]
    split
    · exact ⟨rfl, by simp⟩
    · split
      · exact ⟨rfl, by simp⟩
      · split
        · exact ⟨rfl, by simp⟩
        · exact ⟨rfl, h⟩
    · exact ⟨rfl, h⟩

theorem supported_luaInt (K : List String) (v : Option String) : SupportedOn K (luaInt v) := by
  constructor
  · intro s k _; unfold luaInt; split
    · split <;> rfl
    · rfl
  · intro s s' h; unfold luaInt; split
    · split <;> exact ⟨rfl, h⟩
    · exact ⟨rfl, h⟩

end commands

/-- the two keys of a bucket. -/
def bucketKeys (bk : String) : List String := [bk, bucketLenKey bk]

theorem bk_mem (bk : String) : bk ∈ bucketKeys bk := List.mem_cons_self
theorem lenKey_mem (bk : String) : bucketLenKey bk ∈ bucketKeys bk :=
  List.mem_cons_of_mem _ List.mem_cons_self

theorem supported_bucketNew (bk : String) : SupportedOn (bucketKeys bk) (bucketNew bk) :=
  supported_bind (supported_try (supported_INCRBY (lenKey_mem bk) 0)) fun _ => supported_pure _ _

theorem supported_bucketIsFree (bk : String) (size : Nat) :
    SupportedOn (bucketKeys bk) (bucketIsFree bk size) := by
  refine supported_goBool ?_
  unfold bucketIsFreeScript
  refine supported_bind (supported_try (supported_GET (lenKey_mem bk))) fun r => ?_
  refine supported_bind (supported_luaInt _ _) fun n => supported_pure _ _

theorem supported_bucketStoreElement (bk e : String) :
    SupportedOn (bucketKeys bk) (bucketStoreElement bk e) := by
  unfold bucketStoreElement
  refine supported_bind (supported_try (supported_LPOS (bk_mem bk) _)) fun pos => ?_
  split
  · exact supported_bind (supported_try (supported_LPUSH (bk_mem bk) _)) fun _ => supported_pure _ _
  · exact supported_bind (supported_try (supported_LSET (bk_mem bk) _ _)) fun _ => supported_pure _ _
  · exact supported_pure _ _

theorem supported_bucketAdd (bk : String) (size : Nat) (e : String) :
    SupportedOn (bucketKeys bk) (bucketAdd bk size e) := by
  unfold bucketAdd
  split
  · exact ⟨fun _ _ _ => rfl, fun _ _ h => ⟨rfl, h⟩⟩
  · refine supported_goBool ?_
    unfold bucketAddScript
    refine supported_bind (supported_try (supported_GET (lenKey_mem bk))) fun r => ?_
    refine supported_bind (supported_luaInt _ _) fun n => ?_
    refine supported_ite _ (supported_pure _ _) ?_
    refine supported_bind (supported_bucketStoreElement bk e) fun _ => ?_
    refine supported_bind (supported_try (supported_INCRBY (lenKey_mem bk) 1)) fun _ => ?_
    exact supported_pure _ _

theorem supported_bucketRemove (bk e : String) :
    SupportedOn (bucketKeys bk) (bucketRemove bk e) := by
  unfold bucketRemove
  refine supported_bind (supported_LPOS (bk_mem bk) _) fun pos => ?_
  refine supported_bind ?_ fun _ => ?_
  · split
    · exact supported_LSET (bk_mem bk) _ _
    · exact supported_fail _
  · refine supported_bind (supported_try (supported_INCRBY (lenKey_mem bk) _)) fun _ => ?_
    exact supported_pure _ _

theorem supported_bucketLookup (bk e : String) :
    SupportedOn (bucketKeys bk) (bucketLookup bk e) := by
  unfold bucketLookup bucketLookupScript
  refine supported_bind ?_ fun _ => supported_pure _ _
  refine supported_bind (supported_try (supported_LPOS (bk_mem bk) _)) fun pos => ?_
  split
  · exact supported_pure _ _
  · exact supported_pure _ _
  · exact supported_fail _

theorem supported_bucketAt (bk : String) (i : Nat) : SupportedOn (bucketKeys bk) (bucketAt bk i) :=
  supported_mapResult (fun r => (r.getD none).getD "") (supported_LINDEX (bk_mem bk) i)

theorem supported_bucketSet (bk : String) (i : Nat) (e : String) :
    SupportedOn (bucketKeys bk) (bucketSet bk i e) := supported_LSET (bk_mem bk) i e

theorem supported_bucketGetLength (bk : String) :
    SupportedOn (bucketKeys bk) (bucketGetLength bk) :=
  supported_mapResult (fun r => match r with | some (some v) => goInt64AsUint64 v | _ => 0)
    (supported_GET (lenKey_mem bk))

theorem supported_bucketElements (bk : String) :
    SupportedOn (bucketKeys bk) (bucketElements bk) := supported_LRANGE (bk_mem bk)

theorem supported_cuckooIncrLength (h : CuckooHandle) :
    SupportedOn [h.metadataKey] (cuckooIncrLength h) :=
  supported_HINCRBY List.mem_cons_self _ _

theorem supported_cuckooDecrLength (h : CuckooHandle) :
    SupportedOn [h.metadataKey] (cuckooDecrLength h) :=
  supported_HINCRBY List.mem_cons_self _ _

theorem supported_cuckooLength (h : CuckooHandle) :
    SupportedOn [h.metadataKey] (cuckooLength h) :=
  supported_mapResult (fun r => match r with | some (some v) => goInt64AsUint64 v | _ => 0)
    (supported_HGET List.mem_cons_self _)

end Gostatix.Redis
