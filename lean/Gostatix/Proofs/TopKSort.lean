/-
  Gostatix.Proofs.TopKSort — the insertion sort of the model (`insertSorted`, `sortBy`),
  the `Values` order and the sorted-set order `zLt`.
-/
import Gostatix.Model.TopK
namespace Gostatix.TopK

/-! ### insertion sort, generic part -/

theorem insertSorted_perm (lt : HElem → HElem → Bool) (x : HElem) (l : List HElem) :
    (insertSorted lt x l).Perm (x :: l) := by
  induction l with
  | nil => exact List.Perm.refl _
  | cons y ys ih =>
    simp only [insertSorted]
    split
    · exact List.Perm.refl _
    · exact (List.Perm.cons y ih).trans (List.Perm.swap x y ys)

theorem sortBy_perm (lt : HElem → HElem → Bool) (l : List HElem) : (sortBy lt l).Perm l := by
  induction l with
  | nil => exact List.Perm.refl _
  | cons x xs ih =>
    simp only [sortBy, List.foldr_cons] at *
    exact (insertSorted_perm lt x _).trans (List.Perm.cons x ih)

/-- inserting into an `R`-sorted list keeps it `R`-sorted when `lt x y` implies `R x y`, its
    failure implies `R y x` (for the entries `y` of the list), and `R` is transitive. -/
theorem insertSorted_pairwise (lt : HElem → HElem → Bool) (R : HElem → HElem → Prop)
    (htrans : ∀ a b c, R a b → R b c → R a c) (x : HElem) (l : List HElem)
    (hlt : ∀ y ∈ l, lt x y = true → R x y) (hnlt : ∀ y ∈ l, lt x y = false → R y x)
    (hs : l.Pairwise R) : (insertSorted lt x l).Pairwise R := by
  induction l with
  | nil => simp [insertSorted]
  | cons y ys ih =>
    rw [List.pairwise_cons] at hs
    simp only [insertSorted]
    split
    · rename_i h
      have hxy := hlt y (by simp) h
      rw [List.pairwise_cons]
      refine ⟨?_, List.pairwise_cons.2 hs⟩
      intro z hz
      rcases List.mem_cons.1 hz with rfl | hz
      · exact hxy
      · exact htrans _ _ _ hxy (hs.1 z hz)
    · rename_i h
      have hyx := hnlt y (by simp) (by simpa using h)
      rw [List.pairwise_cons]
      refine ⟨?_, ih (fun z hz => hlt z (by simp [hz])) (fun z hz => hnlt z (by simp [hz])) hs.2⟩
      intro z hz
      rcases List.mem_cons.1 ((insertSorted_perm lt x ys).mem_iff.1 hz) with rfl | hz
      · exact hyx
      · exact hs.1 z hz

/-! ### the order of `Values` -/

/-- count descending, then element ascending -/
def ValueLe (a b : HElem) : Prop := a.2 > b.2 ∨ (a.2 = b.2 ∧ a.1 ≤ b.1)

theorem valueLe_trans (a b c : HElem) (h1 : ValueLe a b) (h2 : ValueLe b c) : ValueLe a c := by
  unfold ValueLe at *
  rcases h1 with h1 | ⟨h1, h1'⟩ <;> rcases h2 with h2 | ⟨h2, h2'⟩
  · left; omega
  · left; omega
  · left; omega
  · right; exact ⟨by omega, String.le_trans h1' h2'⟩

theorem valueLe_of_valueLt (a b : HElem) (h : valueLt a b = true) : ValueLe a b := by
  simp only [valueLt, Bool.or_eq_true, Bool.and_eq_true, decide_eq_true_eq, beq_iff_eq] at h
  rcases h with h | ⟨h, h'⟩
  · exact Or.inl h
  · exact Or.inr ⟨h, Std.le_of_lt h'⟩

theorem valueLe_of_not_valueLt (a b : HElem) (h : valueLt a b = false) : ValueLe b a := by
  simp only [valueLt, Bool.or_eq_false_iff, Bool.and_eq_false_iff, decide_eq_false_iff_not,
    beq_eq_false_iff_ne] at h
  obtain ⟨h1, h2⟩ := h
  unfold ValueLe
  rcases h2 with h2 | h2
  · left; omega
  · by_cases he : a.2 = b.2
    · right; exact ⟨he.symm, String.not_lt.1 h2⟩
    · left; omega

theorem values_perm (h : List HElem) : (values h).Perm h := sortBy_perm _ h

theorem values_sorted (h : List HElem) : (values h).Pairwise ValueLe := by
  induction h with
  | nil => simp [values, sortBy]
  | cons x xs ih =>
    simp only [values, sortBy, List.foldr_cons] at *
    exact insertSorted_pairwise valueLt ValueLe valueLe_trans x _
      (fun y _ => valueLe_of_valueLt x y) (fun y _ => valueLe_of_not_valueLt x y) ih

/-! ### the sorted-set order -/

theorem zLt_trans (a b c : HElem) (h1 : zLt a b = true) (h2 : zLt b c = true) :
    zLt a c = true := by
  simp only [zLt, Bool.or_eq_true, Bool.and_eq_true, decide_eq_true_eq, beq_iff_eq] at *
  rcases h1 with h1 | ⟨h1, h1'⟩ <;> rcases h2 with h2 | ⟨h2, h2'⟩
  · left; omega
  · left; omega
  · left; omega
  · right; exact ⟨by omega, String.lt_trans h1' h2'⟩

theorem zLt_of_not_zLt (a b : HElem) (hne : a.1 ≠ b.1) (h : zLt a b = false) :
    zLt b a = true := by
  simp only [zLt, Bool.or_eq_true, Bool.and_eq_true, decide_eq_true_eq, beq_iff_eq,
    Bool.or_eq_false_iff, Bool.and_eq_false_iff, decide_eq_false_iff_not,
    beq_eq_false_iff_ne] at *
  obtain ⟨h1, h2⟩ := h
  rcases h2 with h2 | h2
  · left; omega
  · by_cases he : a.2 = b.2
    · right
      exact ⟨he.symm, Std.lt_of_le_of_ne (String.not_lt.1 h2) (fun h => hne h.symm)⟩
    · left; omega

theorem zLt_freq_le (a b : HElem) (h : zLt a b = true) : a.2 ≤ b.2 := by
  simp only [zLt, Bool.or_eq_true, Bool.and_eq_true, decide_eq_true_eq, beq_iff_eq] at h
  rcases h with h | ⟨h, _⟩ <;> omega

end Gostatix.TopK
