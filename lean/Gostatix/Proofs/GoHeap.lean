/-
  Gostatix.Proofs.GoHeap — the transcribed `container/heap` (`GoHeap.up/down/push/pop/remove`)
  keeps the heap order and acts on the multiset of entries as expected.

  The order arguments are done on "key functions" `Nat → Nat` (position ↦ frequency) so that
  they are pure arithmetic; the array plumbing is separate.
-/
import Gostatix.Model.TopK
namespace Gostatix.GoHeap

/-! ### heap order on key functions -/

/-- keys after swapping positions `i` and `j` -/
def swapF (key : Nat → Nat) (i j : Nat) : Nat → Nat :=
  fun m => if m = j then key i else if m = i then key j else key m

/-- heap order among the first `n` positions -/
def OrdF (key : Nat → Nat) (n : Nat) : Prop :=
  ∀ m, 0 < m → m < n → key ((m - 1) / 2) ≤ key m

/-- heap order except possibly between `j` and its parent; `j`'s children respect `j`'s parent -/
def UpInvF (key : Nat → Nat) (j n : Nat) : Prop :=
  (∀ m, 0 < m → m < n → m ≠ j → key ((m - 1) / 2) ≤ key m) ∧
  (∀ m, 0 < m → m < n → (m - 1) / 2 = j → 0 < j → key ((j - 1) / 2) ≤ key m)

/-- heap order except possibly between `i` and its children; they respect `i`'s parent -/
def DownInvF (key : Nat → Nat) (i n : Nat) : Prop :=
  (∀ m, 0 < m → m < n → (m - 1) / 2 ≠ i → key ((m - 1) / 2) ≤ key m) ∧
  (∀ m, 0 < m → m < n → (m - 1) / 2 = i → 0 < i → key ((i - 1) / 2) ≤ key m)

/-- heap order except possibly on the edges incident to `i`; `i`'s children respect its parent -/
def HoleF (key : Nat → Nat) (i n : Nat) : Prop :=
  (∀ m, 0 < m → m < n → m ≠ i → (m - 1) / 2 ≠ i → key ((m - 1) / 2) ≤ key m) ∧
  (∀ m, 0 < m → m < n → (m - 1) / 2 = i → 0 < i → key ((i - 1) / 2) ≤ key m)

theorem upInvF_done (key : Nat → Nat) (j n : Nat) (h : UpInvF key j n)
    (hd : (j - 1) / 2 = j ∨ key ((j - 1) / 2) ≤ key j) : OrdF key n := by
  intro m hm hmn
  have a1 := h.1 m hm hmn
  grind

theorem upInvF_swap (key : Nat → Nat) (j n : Nat) (h : UpInvF key j n) (hjn : j < n)
    (hne : (j - 1) / 2 ≠ j) (hlt : key j < key ((j - 1) / 2)) :
    UpInvF (swapF key ((j - 1) / 2) j) ((j - 1) / 2) n := by
  have hj : 0 < j := by omega
  constructor
  · intro m hm hmn hmi
    have a1 := h.1 m hm hmn
    have a2 := h.2 m hm hmn
    simp only [swapF]
    grind
  · intro m hm hmn hpar hi
    have a1 := h.1 m hm hmn
    have a2 := h.1 ((j - 1) / 2) hi (by omega)
    simp only [swapF]
    grind

theorem downInvF_hole (key : Nat → Nat) (i n : Nat) (h : DownInvF key i n) : HoleF key i n :=
  ⟨fun m hm hmn _ hp => h.1 m hm hmn hp, h.2⟩

theorem downInvF_leaf (key : Nat → Nat) (i n : Nat) (h : DownInvF key i n)
    (hl : n ≤ 2 * i + 1) : OrdF key n := by
  intro m hm hmn
  exact h.1 m hm hmn (by omega)

/-- `c` is a smallest child of `i` among the first `n` positions -/
def MinChild (key : Nat → Nat) (i n c : Nat) : Prop :=
  (c = 2 * i + 1 ∨ c = 2 * i + 2) ∧ c < n ∧ key c ≤ key (2 * i + 1) ∧
  (2 * i + 2 < n → key c ≤ key (2 * i + 2))

theorem downInvF_done (key : Nat → Nat) (i n c : Nat) (h : DownInvF key i n)
    (hc : MinChild key i n c) (hle : key i ≤ key c) : OrdF key n := by
  intro m hm hmn
  have a1 := h.1 m hm hmn
  obtain ⟨hc1, hc2, hc3, hc4⟩ := hc
  by_cases hp : (m - 1) / 2 = i
  · have : m = 2 * i + 1 ∨ m = 2 * i + 2 := by omega
    rcases this with rfl | rfl
    · rw [hp]; omega
    · rw [hp]; have := hc4 hmn; omega
  · exact a1 hp

theorem holeF_swap (key : Nat → Nat) (i n c : Nat) (h : HoleF key i n)
    (hc : MinChild key i n c) (hlt : key c < key i) : DownInvF (swapF key i c) c n := by
  obtain ⟨hc1, hc2, hc3, hc4⟩ := hc
  constructor
  · intro m hm hmn hp
    have a1 := h.1 m hm hmn
    have a2 := h.2 m hm hmn
    have a3 := h.2 c (by omega) hc2 (by omega)
    simp only [swapF]
    by_cases hmi : m = i
    · subst hmi
      have : (m - 1) / 2 ≠ c := by omega
      have : (m - 1) / 2 ≠ m := by omega
      grind
    · by_cases hpi : (m - 1) / 2 = i
      · have : m = 2 * i + 1 ∨ m = 2 * i + 2 := by omega
        grind
      · grind
  · intro m hm hmn hp _
    have a1 := h.1 m hm hmn (by omega) (by omega)
    have : (c - 1) / 2 = i := by omega
    simp only [swapF]
    grind

theorem holeF_upInvF (key : Nat → Nat) (i n : Nat) (h : HoleF key i n)
    (hch : ∀ m, 0 < m → m < n → (m - 1) / 2 = i → key i ≤ key m) : UpInvF key i n := by
  refine ⟨?_, h.2⟩
  intro m hm hmn hne
  by_cases hp : (m - 1) / 2 = i
  · rw [hp]; exact hch m hm hmn hp
  · exact h.1 m hm hmn hne hp

theorem holeF_zero (key : Nat → Nat) (n : Nat) (h : HoleF key 0 n) : DownInvF key 0 n :=
  ⟨fun m hm hmn hp => h.1 m hm hmn (by omega) hp, h.2⟩

/-- moving the last entry into position `i` leaves a hole at `i` -/
theorem ordF_hole (key : Nat → Nat) (i n : Nat) (h : OrdF key (n + 1)) (hi : i < n) :
    HoleF (swapF key i n) i n := by
  constructor
  · intro m hm hmn hmi hp
    have a1 := h m hm (by omega)
    simp only [swapF]
    grind
  · intro m hm hmn hp hi0
    have a1 := h m hm (by omega)
    have a2 := h i hi0 (by omega)
    simp only [swapF]
    grind

theorem ordF_hole_zero (key : Nat → Nat) (n : Nat) (h : OrdF key (n + 1)) :
    DownInvF (swapF key 0 n) 0 n := by
  constructor
  · intro m hm hmn hp
    have a1 := h m hm (by omega)
    simp only [swapF]
    grind
  · intro m hm hmn hp hi0
    omega

theorem ordF_mono (key : Nat → Nat) (n n' : Nat) (h : OrdF key n) (hle : n' ≤ n) : OrdF key n' :=
  fun m hm hmn => h m hm (by omega)

/-- the root carries a minimal key -/
theorem ordF_root_min (key : Nat → Nat) (n : Nat) (h : OrdF key n) :
    ∀ m, m < n → key 0 ≤ key m := by
  intro m
  induction m using Nat.strongRecOn with
  | _ m ih =>
    intro hmn
    by_cases hm : m = 0
    · subst hm; exact Nat.le_refl _
    · have := ih ((m - 1) / 2) (by omega) (by omega)
      exact Nat.le_trans this (h m (by omega) hmn)

/-! ### arrays -/

/-- frequency at position `i` -/
def key (h : Array HElem) (i : Nat) : Nat := (h.getD i ("", 0)).2

theorem less_eq (h : Array HElem) (i j : Nat) : less h i j = decide (key h i < key h j) := rfl

theorem swap_size (h : Array HElem) (i j : Nat) : (swap h i j).size = h.size := by simp [swap]

theorem swap_getD (h : Array HElem) (i j m : Nat) (hi : i < h.size) (hj : j < h.size) :
    (swap h i j).getD m ("", 0) =
      if m = j then h.getD i ("", 0) else if m = i then h.getD j ("", 0) else h.getD m ("", 0) := by
  unfold swap
  simp only [Array.getD_eq_getD_getElem?, Array.getElem?_setIfInBounds, Array.size_setIfInBounds]
  by_cases h1 : m = j
  · subst h1; simp [hj]
  · by_cases h2 : m = i
    · subst h2; simp [hi, h1, Ne.symm h1]
    · simp [h1, h2, Ne.symm h1, Ne.symm h2]

theorem key_swap (h : Array HElem) (i j : Nat) (hi : i < h.size) (hj : j < h.size) :
    key (swap h i j) = swapF (key h) i j := by
  funext m
  simp only [key, swapF, swap_getD h i j m hi hj]
  split
  · rfl
  · split <;> rfl

theorem swap_eq (h : Array HElem) (i j : Nat) (hi : i < h.size) (hj : j < h.size) :
    swap h i j = h.swap i j hi hj := by
  unfold swap
  simp [Array.swap, Array.getD, hi, hj, Array.setIfInBounds]

theorem swap_perm (h : Array HElem) (i j : Nat) (hi : i < h.size) (hj : j < h.size) :
    (swap h i j).toList.Perm h.toList := by
  rw [swap_eq h i j hi hj]
  exact (Array.swap_perm hi hj).toList

/-- `h'` is a rearrangement of `h` that leaves the positions `≥ n` alone -/
structure Rearr (h h' : Array HElem) (n : Nat) : Prop where
  size : h'.size = h.size
  perm : h'.toList.Perm h.toList
  rest : ∀ m, n ≤ m → h'.getD m ("", 0) = h.getD m ("", 0)

theorem Rearr.refl (h : Array HElem) (n : Nat) : Rearr h h n := ⟨rfl, List.Perm.refl _, fun _ _ => rfl⟩

theorem Rearr.trans {h h' h'' : Array HElem} {n : Nat} (a : Rearr h h' n) (b : Rearr h' h'' n) :
    Rearr h h'' n :=
  ⟨b.size.trans a.size, b.perm.trans a.perm, fun m hm => (b.rest m hm).trans (a.rest m hm)⟩

theorem rearr_swap (h : Array HElem) (i j n : Nat) (hi : i < n) (hj : j < n) (hn : n ≤ h.size) :
    Rearr h (swap h i j) n := by
  refine ⟨swap_size h i j, swap_perm h i j (by omega) (by omega), ?_⟩
  intro m hm
  rw [swap_getD h i j m (by omega) (by omega)]
  rw [if_neg (by omega), if_neg (by omega)]

/-! ### `up` -/

theorem up_succ (f : Nat) (h : Array HElem) (j : Nat) :
    up (f + 1) h j =
      if ((j - 1) / 2 == j || !less h j ((j - 1) / 2)) = true then h
      else up f (swap h ((j - 1) / 2) j) ((j - 1) / 2) := rfl

theorem up_spec : ∀ (f : Nat) (h : Array HElem) (j n : Nat), j < f → j < n → n ≤ h.size →
    UpInvF (key h) j n → Rearr h (up f h j) n ∧ OrdF (key (up f h j)) n
  | 0, _, _, _, hf, _, _, _ => by omega
  | f + 1, h, j, n, hf, hjn, hn, hU => by
    rw [up_succ]
    by_cases hc : ((j - 1) / 2 == j || !less h j ((j - 1) / 2)) = true
    · rw [if_pos hc]
      refine ⟨Rearr.refl h n, upInvF_done (key h) j n hU ?_⟩
      simp only [less_eq, Bool.or_eq_true, beq_iff_eq, Bool.not_eq_true', decide_eq_false_iff_not,
        Nat.not_lt] at hc
      exact hc
    · rw [if_neg hc]
      simp only [less_eq, Bool.or_eq_true, beq_iff_eq, Bool.not_eq_true', decide_eq_false_iff_not,
        Nat.not_lt, not_or, Nat.not_le] at hc
      obtain ⟨hne, hlt⟩ := hc
      have hU' := upInvF_swap (key h) j n hU hjn hne hlt
      rw [← key_swap h _ _ (by omega) (by omega)] at hU'
      have hr := rearr_swap h ((j - 1) / 2) j n (by omega) hjn hn
      obtain ⟨r1, r2⟩ := up_spec f (swap h ((j - 1) / 2) j) ((j - 1) / 2) n (by omega) (by omega)
        (by rw [swap_size]; exact hn) hU'
      exact ⟨hr.trans r1, r2⟩

/-! ### `down` -/

/-- the child selected by `down` -/
def minChild (h : Array HElem) (i n : Nat) : Nat :=
  if (2 * i + 1 + 1 < n && less h (2 * i + 1 + 1) (2 * i + 1)) = true then 2 * i + 1 + 1
  else 2 * i + 1

theorem down_succ (f : Nat) (h : Array HElem) (i n : Nat) :
    down (f + 1) h i n =
      if 2 * i + 1 ≥ n then (h, i)
      else if (!less h (minChild h i n) i) = true then (h, i)
      else down f (swap h i (minChild h i n)) (minChild h i n) n := rfl

theorem minChild_spec (h : Array HElem) (i n : Nat) (hlt : 2 * i + 1 < n) :
    MinChild (key h) i n (minChild h i n) := by
  unfold minChild MinChild
  split
  · rename_i hc
    simp only [less_eq, Bool.and_eq_true, decide_eq_true_eq] at hc
    refine ⟨Or.inr rfl, hc.1, ?_, fun _ => Nat.le_refl _⟩
    have := hc.2
    omega
  · rename_i hc
    simp only [less_eq, Bool.and_eq_true, decide_eq_true_eq, not_and, Nat.not_lt] at hc
    exact ⟨Or.inl rfl, hlt, Nat.le_refl _, fun h2 => hc h2⟩

theorem down_ge : ∀ (f : Nat) (h : Array HElem) (i n : Nat), i ≤ (down f h i n).2
  | 0, _, _, _ => Nat.le_refl _
  | f + 1, h, i, n => by
    rw [down_succ]
    split
    · exact Nat.le_refl _
    · split
      · exact Nat.le_refl _
      · rename_i hlt _
        have := down_ge f (swap h i (minChild h i n)) (minChild h i n) n
        have hc := (minChild_spec h i n (by omega)).1
        omega

theorem down_spec : ∀ (f : Nat) (h : Array HElem) (i n : Nat), n < f + i → n ≤ h.size →
    DownInvF (key h) i n → Rearr h (down f h i n).1 n ∧ OrdF (key (down f h i n).1) n
  | 0, h, i, n, hf, _, hD =>
    ⟨Rearr.refl h n, downInvF_leaf (key h) i n hD (by omega)⟩
  | f + 1, h, i, n, hf, hn, hD => by
    rw [down_succ]
    by_cases hl : 2 * i + 1 ≥ n
    · rw [if_pos hl]
      exact ⟨Rearr.refl h n, downInvF_leaf (key h) i n hD hl⟩
    · rw [if_neg hl]
      have hmc := minChild_spec h i n (by omega)
      by_cases hc : (!less h (minChild h i n) i) = true
      · rw [if_pos hc]
        simp only [less_eq, Bool.not_eq_true', decide_eq_false_iff_not, Nat.not_lt] at hc
        exact ⟨Rearr.refl h n, downInvF_done (key h) i n _ hD hmc hc⟩
      · rw [if_neg hc]
        simp only [less_eq, Bool.not_eq_true', decide_eq_false_iff_not, Nat.not_lt,
          Nat.not_le] at hc
        have hD' := holeF_swap (key h) i n _ (downInvF_hole _ _ _ hD) hmc hc
        have hcn : minChild h i n < n := hmc.2.1
        have hci : i < minChild h i n := by have := hmc.1; omega
        rw [← key_swap h _ _ (by omega) (by omega)] at hD'
        have hr := rearr_swap h i (minChild h i n) n (by omega) hcn hn
        obtain ⟨r1, r2⟩ := down_spec f (swap h i (minChild h i n)) (minChild h i n) n (by omega)
          (by rw [swap_size]; exact hn) hD'
        exact ⟨hr.trans r1, r2⟩

/-- `down` from a hole (as in `heap.Remove`): either nothing moved and `up` may start at `i`,
    or the entry moved down and the heap order is restored. -/
theorem down_hole (f : Nat) (h : Array HElem) (i n : Nat) (hf : n < f + i) (hn : n ≤ h.size)
    (hH : HoleF (key h) i n) :
    (down f h i n = (h, i) ∧ UpInvF (key h) i n) ∨
    (i < (down f h i n).2 ∧ Rearr h (down f h i n).1 n ∧ OrdF (key (down f h i n).1) n) := by
  cases f with
  | zero =>
    left
    refine ⟨rfl, holeF_upInvF (key h) i n hH ?_⟩
    intro m hm hmn hp
    omega
  | succ f =>
    rw [down_succ]
    by_cases hl : 2 * i + 1 ≥ n
    · left
      rw [if_pos hl]
      refine ⟨rfl, holeF_upInvF (key h) i n hH ?_⟩
      intro m hm hmn hp
      omega
    · rw [if_neg hl]
      have hmc := minChild_spec h i n (by omega)
      by_cases hc : (!less h (minChild h i n) i) = true
      · left
        rw [if_pos hc]
        simp only [less_eq, Bool.not_eq_true', decide_eq_false_iff_not, Nat.not_lt] at hc
        refine ⟨rfl, holeF_upInvF (key h) i n hH ?_⟩
        intro m hm hmn hp
        obtain ⟨_, _, hc3, hc4⟩ := hmc
        have : m = 2 * i + 1 ∨ m = 2 * i + 2 := by omega
        rcases this with rfl | rfl
        · omega
        · have := hc4 hmn; omega
      · right
        rw [if_neg hc]
        simp only [less_eq, Bool.not_eq_true', decide_eq_false_iff_not, Nat.not_lt,
          Nat.not_le] at hc
        have hD' := holeF_swap (key h) i n _ hH hmc hc
        have hcn : minChild h i n < n := hmc.2.1
        have hci : i < minChild h i n := by have := hmc.1; omega
        rw [← key_swap h _ _ (by omega) (by omega)] at hD'
        have hr := rearr_swap h i (minChild h i n) n (by omega) hcn hn
        obtain ⟨r1, r2⟩ := down_spec f (swap h i (minChild h i n)) (minChild h i n) n (by omega)
          (by rw [swap_size]; exact hn) hD'
        have := down_ge f (swap h i (minChild h i n)) (minChild h i n) n
        exact ⟨by omega, hr.trans r1, r2⟩

/-! ### dropping the last entry -/

theorem getD_pop (a : Array HElem) (m : Nat) (hm : m < a.size - 1) :
    a.pop.getD m ("", 0) = a.getD m ("", 0) := by
  simp only [Array.getD_eq_getD_getElem?, Array.getElem?_pop]
  rw [if_pos hm]

theorem key_pop (a : Array HElem) (m : Nat) (hm : m < a.size - 1) : key a.pop m = key a m := by
  simp only [key, getD_pop a m hm]

theorem ordF_pop (a : Array HElem) (h : OrdF (key a) (a.size - 1)) :
    OrdF (key a.pop) a.pop.size := by
  intro m hm hmn
  rw [Array.size_pop] at hmn
  rw [key_pop a m hmn, key_pop a _ (by omega)]
  exact h m hm hmn

theorem toList_pop_concat (a : Array HElem) (ha : 0 < a.size) :
    a.pop.toList ++ [a.getD (a.size - 1) ("", 0)] = a.toList := by
  have hne : a.toList ≠ [] := by
    intro h
    have : a.size = 0 := by rw [← Array.length_toList, h]; rfl
    omega
  have hlt : a.size - 1 < a.size := by omega
  have hlast : a.toList.getLast hne = a.getD (a.size - 1) ("", 0) := by
    rw [List.getLast_eq_getElem]
    simp [Array.getD, hlt]
  rw [Array.toList_pop, ← hlast]
  exact List.dropLast_concat_getLast hne

/-! ### heap operations -/

/-- heap order of the whole array (on frequencies) -/
def Ord (h : Array HElem) : Prop := OrdF (key h) h.size

theorem push_spec (h : Array HElem) (x : HElem) (ho : Ord h) :
    (push h x).size = h.size + 1 ∧ (push h x).toList.Perm (h.toList ++ [x]) ∧ Ord (push h x) := by
  unfold push
  simp only [Array.size_push, Nat.add_sub_cancel]
  have hkey : ∀ m, m < h.size → key (h.push x) m = key h m := by
    intro m hm
    simp [key, Array.getD_eq_getD_getElem?, Array.getElem?_push, hm, Nat.ne_of_lt hm]
  have hU : UpInvF (key (h.push x)) h.size (h.size + 1) := by
    constructor
    · intro m hm hmn hne
      rw [hkey m (by omega), hkey _ (by omega)]
      exact ho m hm (by omega)
    · intro m hm hmn hp _
      omega
  obtain ⟨r1, r2⟩ := up_spec (h.size + 1) (h.push x) h.size (h.size + 1) (by omega) (by omega)
    (by simp) hU
  refine ⟨by rw [r1.size]; simp, ?_, ?_⟩
  · have := r1.perm
    simpa using this
  · unfold Ord
    rw [r1.size, Array.size_push]
    exact r2

theorem pop_spec (h : Array HElem) (hs : 0 < h.size) (ho : Ord h) :
    (pop h).size = h.size - 1 ∧ ((pop h).toList ++ [h.getD 0 ("", 0)]).Perm h.toList ∧
      Ord (pop h) := by
  unfold pop
  simp only
  have hsz : h.size - 1 + 1 = h.size := by omega
  have hD : DownInvF (key (swap h 0 (h.size - 1))) 0 (h.size - 1) := by
    rw [key_swap h 0 (h.size - 1) hs (by omega)]
    exact ordF_hole_zero (key h) (h.size - 1) (by rw [hsz]; exact ho)
  obtain ⟨r1, r2⟩ := down_spec (h.size - 1 + 1) (swap h 0 (h.size - 1)) 0 (h.size - 1) (by omega)
    (by rw [swap_size]; omega) hD
  generalize (down (h.size - 1 + 1) (swap h 0 (h.size - 1)) 0 (h.size - 1)).1 = h' at r1 r2
  have hsize : h'.size = h.size := r1.size.trans (swap_size h 0 _)
  refine ⟨by rw [Array.size_pop, hsize], ?_, ?_⟩
  · have hlast : h'.getD (h'.size - 1) ("", 0) = h.getD 0 ("", 0) := by
      rw [hsize, r1.rest (h.size - 1) (Nat.le_refl _), swap_getD h 0 (h.size - 1) _ hs (by omega)]
      simp
    rw [← hlast, toList_pop_concat h' (by omega)]
    exact r1.perm.trans (swap_perm h 0 (h.size - 1) hs (by omega))
  · exact ordF_pop h' (by rw [hsize]; exact r2)

theorem remove_spec (h : Array HElem) (i : Nat) (hi : i < h.size) (ho : Ord h) :
    (remove h i).size = h.size - 1 ∧ ((remove h i).toList ++ [h.getD i ("", 0)]).Perm h.toList ∧
      Ord (remove h i) := by
  unfold remove
  simp only
  by_cases hni : (h.size - 1 != i) = true
  · rw [if_pos hni]
    have hne : h.size - 1 ≠ i := by simpa using hni
    have hin : i < h.size - 1 := by omega
    have hsz : h.size - 1 + 1 = h.size := by omega
    have hH : HoleF (key (swap h i (h.size - 1))) i (h.size - 1) := by
      rw [key_swap h i (h.size - 1) hi (by omega)]
      exact ordF_hole (key h) i (h.size - 1) (by rw [hsz]; exact ho) hin
    have hsw : Rearr h (swap h i (h.size - 1)) h.size :=
      ⟨swap_size _ _ _, swap_perm h i (h.size - 1) hi (by omega), fun m hm => by
        simp [Array.getD_eq_getD_getElem?, Array.getElem?_eq_none hm,
          Array.getElem?_eq_none (show (swap h i (h.size - 1)).size ≤ m by rw [swap_size]; exact hm)]⟩
    have hlast0 : (swap h i (h.size - 1)).getD (h.size - 1) ("", 0) = h.getD i ("", 0) := by
      rw [swap_getD h i (h.size - 1) _ hi (by omega)]; simp
    -- the rearranged array, whatever branch is taken
    have key_claim : ∃ h', ((if (down (h.size - 1 + 1) (swap h i (h.size - 1)) i (h.size - 1)).2 > i
          then (down (h.size - 1 + 1) (swap h i (h.size - 1)) i (h.size - 1)).1
          else up (h.size - 1 + 1) (down (h.size - 1 + 1) (swap h i (h.size - 1)) i (h.size - 1)).1 i)
          = h') ∧ Rearr (swap h i (h.size - 1)) h' (h.size - 1) ∧ OrdF (key h') (h.size - 1) := by
      rcases down_hole (h.size - 1 + 1) (swap h i (h.size - 1)) i (h.size - 1) (by omega)
        (by rw [swap_size]; omega) hH with ⟨heq, hU⟩ | ⟨hgt, r1, r2⟩
      · rw [heq]
        simp only [Nat.lt_irrefl, gt_iff_lt, if_false]
        obtain ⟨r1, r2⟩ := up_spec (h.size - 1 + 1) (swap h i (h.size - 1)) i (h.size - 1) (by omega)
          hin (by rw [swap_size]; omega) hU
        exact ⟨_, rfl, r1, r2⟩
      · rw [if_pos hgt]
        exact ⟨_, rfl, r1, r2⟩
    obtain ⟨h', heq, r1, r2⟩ := key_claim
    rw [heq]
    have hsize : h'.size = h.size := r1.size.trans (swap_size h i _)
    refine ⟨by rw [Array.size_pop, hsize], ?_, ?_⟩
    · have hlast : h'.getD (h'.size - 1) ("", 0) = h.getD i ("", 0) := by
        rw [hsize, r1.rest (h.size - 1) (Nat.le_refl _), hlast0]
      rw [← hlast, toList_pop_concat h' (by omega)]
      exact r1.perm.trans hsw.perm
    · exact ordF_pop h' (by rw [hsize]; exact r2)
  · rw [if_neg hni]
    have hne : h.size - 1 = i := by simpa using hni
    refine ⟨Array.size_pop, ?_, ?_⟩
    · rw [← hne, toList_pop_concat h (by omega)]
    · exact ordF_pop h (ordF_mono _ _ _ ho (by omega))

end Gostatix.GoHeap
