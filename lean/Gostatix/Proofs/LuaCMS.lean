/-
  Gostatix.Proofs.LuaCMS — the Count-Min scripts of count_min_sketch_redis.go, as extracted into
  Generated/LuaScripts.lean, evaluated with the interpreter of Model/Lua.lean: one lemma per loop
  body (`…_body`, `…_inner`: straight-line evaluation with the simp set `luab_simp` on a state with a concrete
  environment), the loops by `numForLoop_spec0` / `ipairsLoop_spec0` (Proofs/LuaCoreb.lean) with the hand
  model's recursion as the invariant ("the model from the start = the model from round `j` on the current
  store"), then the whole script (`…_exec`, `…_run`).
  Sections: Update, Count, initMatrix, mergeMatrix, from `absCMS` to the preconditions, compareMatrix,
  setMatrix (+ the typed store of Model/Json.lean), getMatrix.
  Each script is restated as a list whose loop bodies are named definitions (`updScript_eq : … := rfl`), so a
  regenerated script that differs breaks that `rfl` first.
  The theorems for the outside are in Props/LuaCMS.lean.
-/
import Gostatix.Proofs.LuaCoreb
import Gostatix.Proofs.RedisCMSMerge
import Gostatix.Model.Equals
import Gostatix.Model.Json
namespace Gostatix.LuaCMS
open Gostatix.Lua Gostatix.Redis Gostatix.Generated.LuaScripts

/-! ## KEYS of `Update` / `Count` -/

/-- `for r, c := range cms.getPositions(data) { keys = append(keys, FormatInt(r), FormatUint(c)) }` -/
def cmsPosKeysFrom : Nat → List Nat → List String
  | _, [] => []
  | r, c :: cs => decimal r :: decimal c :: cmsPosKeysFrom (r + 1) cs

def cmsPosKeys (pos : List Nat) : List String := cmsPosKeysFrom 0 pos

theorem cmsPosKeysFrom_length (r : Nat) (pos : List Nat) : (cmsPosKeysFrom r pos).length = 2 * pos.length := by
  induction pos generalizing r with
  | nil => rfl
  | cons c cs ih => simp only [cmsPosKeysFrom, List.length_cons, ih]; omega

theorem cmsPosKeysFrom_getD (pos : List Nat) : ∀ (r0 j c : Nat), pos[j]? = some c →
    ((cmsPosKeysFrom r0 pos).map Value.str).getD (2 * j) .nil = .str (decimal (r0 + j)) ∧
    ((cmsPosKeysFrom r0 pos).map Value.str).getD (2 * j + 1) .nil = .str (decimal c) := by
  induction pos with
  | nil => intro r0 j c h; simp at h
  | cons a cs ih =>
    intro r0 j c h
    cases j with
    | zero =>
      simp only [List.getElem?_cons_zero, Option.some.injEq] at h
      subst h
      exact ⟨rfl, rfl⟩
    | succ j =>
      simp only [List.getElem?_cons_succ] at h
      have := ih (r0 + 1) j c h
      have e : 2 * (j + 1) = 2 * j + 1 + 1 := by omega
      simp only [cmsPosKeysFrom, List.map_cons, e, List.getD_cons_succ]
      rw [show r0 + (j + 1) = r0 + 1 + j by omega]
      exact this

/-- `KEYS[2j+1]`, `KEYS[2j+2]` of the table `KEYS` for the positions `pos`. -/
theorem cmsPosKeys_get (pos : List Nat) (j c : Nat) (h : pos[j]? = some c) (hj : 2 * j + 2 < maxArrayIndex) :
    (({ arr := (cmsPosKeys pos).map .str } : Table).get (.num ((2 * j + 1 : Nat) : Int)) = .str (decimal j)) ∧
    (({ arr := (cmsPosKeys pos).map .str } : Table).get (.num ((2 * j + 2 : Nat) : Int)) = .str (decimal c)) := by
  have := cmsPosKeysFrom_getD pos 0 j c h
  rw [Nat.zero_add] at this
  rw [Table.get_num _ _ (by omega) (by omega), Table.get_num _ _ (by omega) (by omega)]
  exact this

/-! ## `Update` -/

def EntryAgrees (count : Nat) (v : String) : Prop :=
  (∃ n, parseDecimal v = some n ∧ n + count ≤ numLimit) ∨ (parseDecimal v = none ∧ luaToNumber v = .nil)

def updBody : List Stmt := [
    .localDecl ["row"] [.binop .concat (.var "cmsKey") (.index (.var "KEYS") (.var "i"))],
    .localDecl ["column"] [.call (.global "tonumber") [.index (.var "KEYS") (.binop .add (.var "i") (.num 1))]],
    .localDecl ["val"] [.call (.field "redis" "call") [.str "LINDEX", .var "row", .var "column"]],
    .assign (.var "val") (.binop .add (.call (.global "tonumber") [.var "val"]) (.var "count")),
    .callStmt (.field "redis" "pcall") [.str "LSET", .var "row", .var "column", .var "val"]
  ]

def updEnv (count : Nat) (key sz : String) : List (String × Value) :=
  [("count", .num count), ("cmsKey", .str key), ("size", .str sz)]

theorem upd_body (key sz : String) (count : Nat) (KT AT : Table) (rest : List Table) (lg : List String)
    (j c : Nat) (st : Store) (hj : 2 * j + 2 < maxArrayIndex) (hc : c ≤ numLimit)
    (hk1 : KT.get (.num ((2 * j + 1 : Nat) : Int)) = .str (decimal j))
    (hk2 : KT.get (.num ((2 * j + 2 : Nat) : Int)) = .str (decimal c))
    (hag : ∀ l v, st (cmsRowKey key j) = some (.list l) → l[c]? = some v → EntryAgrees count v)
    (f : Nat) (cs : List Nat) :
    match inScope (do declare "i" (.num (1 + (j : Int) * 2)); execBlock (f + 20) updBody)
        ⟨st, KT :: AT :: rest, updEnv count key sz, lg⟩ with
    | .ok none s' => ∃ rest' lg' st', s' = ⟨st', KT :: AT :: rest', updEnv count key sz, lg'⟩ ∧
        cmsUpdateLoop key count j (c :: cs) st = cmsUpdateLoop key count (j + 1) cs st' ∧
        ∀ k, k ≠ cmsRowKey key j → st' k = st k
    | .error _ s' => cmsUpdateLoop key count j (c :: cs) st = (s'.store, none)
    | _ => False := by
  have e1 : (1 + (j : Int) * 2) = ((2 * j + 1 : Nat) : Int) := by omega
  have e2 : ((2 * j + 1 : Nat) : Int) + 1 = ((2 * j + 2 : Nat) : Int) := by omega
  have hnl : ((2 * j + 2 : Nat) : Int).natAbs ≤ numLimit := by
    unfold maxArrayIndex at hj; unfold numLimit; omega
  rw [e1]
  luab_simp [updBody, updEnv, hk1]
  rw [e2]
  luab_simp [checkNum_ok hnl, hk2, luaToNumber_decimal hc]
  rw [redisCall_key true "LINDEX" _ _ [decimal c] _ rfl, show key ++ decimal j = cmsRowKey key j from rfl]
  simp only [redisCommand_LINDEX _ hc]
  have hmodel : cmsUpdateLoop key count j (c :: cs) st =
      (cmdLINDEX (cmsRowKey key j) c >>=ₛ fun v => luaNumber v >>=ₛ fun n =>
        Script.try_ (cmdLSET (cmsRowKey key j) c (decimal (n + count))) >>=ₛ fun _ =>
        cmsUpdateLoop key count (j + 1) cs) st := rfl
  rw [hmodel]
  cases hk : st (cmsRowKey key j) with
  | none =>
    luab_simp []
    simp only [Script.bind, cmdLINDEX, hk, luaNumber]
  | some val =>
    cases val with
    | list l =>
      cases hv : l[c]? with
      | none =>
        luab_simp [hv]
        simp only [Script.bind, cmdLINDEX, hk, luaNumber, hv]
      | some v =>
        rcases hag l v hk hv with ⟨n, hp, hn⟩ | ⟨hp, hl⟩
        · have hn' : n ≤ numLimit := by omega
          have hsum : ((n : Int) + (count : Int)).natAbs ≤ numLimit := by omega
          have esum : (n : Int) + (count : Int) = ((n + count : Nat) : Int) := by omega
          have hlt : c < l.length := (List.getElem?_eq_some_iff.mp hv).1
          luab_simp [hv, luaToNumber_of_parseDecimal hp hn', checkNum_ok hsum]
          rw [esum, redisCall_key false "LSET" _ _ [decimal c, decimal (n + count)] _ rfl]
          simp only [redisCommand_LSET _ _ hc, hk]
          luab_simp [hlt, List.cons_append]
          refine ⟨_, _, _, rfl, ?_, ?_⟩
          · simp only [Script.bind, cmdLINDEX, hk, luaNumber, hv, hp, Script.try_, cmdLSET, hlt, if_true]
          · intro k hne
            simp only [Store.set, hne, if_false]
        · luab_simp [hv, hl]
          simp only [Script.bind, cmdLINDEX, hk, luaNumber, hv, hp]
    | _ =>
      luab_simp []
      simp only [Script.bind, cmdLINDEX, hk]


/-- the precondition of `Update` on the store: every entry the script reads is read the same way
    by `tonumber` and by the hand model. -/
def UpdReadsAgree (key : String) (count : Nat) (pos : List Nat) (st : Store) : Prop :=
  ∀ r c l v, pos[r]? = some c → st (cmsRowKey key r) = some (.list l) → l[c]? = some v → EntryAgrees count v

theorem upd_loop (key sz : String) (count : Nat) (pos : List Nat) (AT : Table) (rest : List Table)
    (lg : List String) (st0 : Store) (hlen : 2 * pos.length < maxArrayIndex) (hpos : ∀ c ∈ pos, c ≤ numLimit)
    (hag : UpdReadsAgree key count pos st0) (F : Nat) (hF : pos.length + 20 + 1 ≤ F) :
    match numForLoop F "i" 1 ((2 * pos.length : Nat) - 1 : Int) 2 updBody
        ⟨st0, { arr := (cmsPosKeys pos).map .str } :: AT :: rest, updEnv count key sz, lg⟩ with
    | .ok none s' => ∃ rest' lg', s' = ⟨(cmsUpdateLoop key count 0 pos st0).1,
          { arr := (cmsPosKeys pos).map .str } :: AT :: rest', updEnv count key sz, lg'⟩ ∧
        (cmsUpdateLoop key count 0 pos st0).2 = some ()
    | .error _ s' => cmsUpdateLoop key count 0 pos st0 = (s'.store, none)
    | _ => False := by
  refine numForLoop_spec0 (x := "i") (body := updBody) (step := 2) (i0 := 1) (by decide) 20 pos.length
    (fun j s => ∃ st rest' lg', s = ⟨st, { arr := (cmsPosKeys pos).map .str } :: AT :: rest', updEnv count key sz, lg'⟩ ∧
      cmsUpdateLoop key count 0 pos st0 = cmsUpdateLoop key count j (pos.drop j) st ∧
      ∀ r, j ≤ r → st (cmsRowKey key r) = st0 (cmsRowKey key r))
    (fun r => match r with
      | .ok none s' => ∃ rest' lg', s' = ⟨(cmsUpdateLoop key count 0 pos st0).1,
          { arr := (cmsPosKeys pos).map .str } :: AT :: rest', updEnv count key sz, lg'⟩ ∧
        (cmsUpdateLoop key count 0 pos st0).2 = some ()
      | .error _ s' => cmsUpdateLoop key count 0 pos st0 = (s'.store, none)
      | _ => False)
    (by intro j hj; omega) (by omega) ?_ ?_ F _ hF ⟨st0, rest, lg, rfl, rfl, fun _ _ => rfl⟩
  · intro j hj s f hP
    obtain ⟨st, rest', lg', rfl, hM, hsame⟩ := hP
    have hc : pos[j]? = some pos[j] := List.getElem?_eq_getElem hj
    have hdrop : pos.drop j = pos[j] :: pos.drop (j + 1) := List.drop_eq_getElem_cons hj
    obtain ⟨hk1, hk2⟩ := cmsPosKeys_get pos j pos[j] hc (by omega)
    have hb := upd_body key sz count _ AT rest' lg' j pos[j] st (by omega)
      (hpos _ (List.getElem_mem hj)) hk1 hk2
      (fun l v hl hv => hag j pos[j] l v hc (by rw [← hsame j (Nat.le_refl j)]; exact hl) hv) f (pos.drop (j + 1))
    rw [hdrop] at hM
    generalize inScope (do declare "i" (.num (1 + (j : Int) * 2)); execBlock (f + 20) updBody) _ = r at hb ⊢
    cases r with
    | ok a s' =>
      cases a with
      | none =>
        obtain ⟨rest'', lg'', st', rfl, hM', hother⟩ := hb
        refine ⟨st', rest'', lg'', rfl, hM.trans hM', ?_⟩
        intro r hr
        rw [hother _ (fun e => by have := cmsRowKey_inj e; omega)]
        exact hsame r (by omega)
      | some vs => exact hb
    | error e s' => simp only; rw [hM]; exact hb
    | unsupported w s' => exact hb
    | outOfFuel s' => exact hb
  · intro s hP
    obtain ⟨st, rest', lg', rfl, hM, _⟩ := hP
    rw [List.drop_length] at hM
    simp only [hM]
    exact ⟨rest', lg', rfl, rfl⟩


theorem run_of_exec_true {fuel : Nat} {script : Block} {keys args : List String} {st : Store} {s : State}
    (h : execBlock fuel script (initState keys args st) = .ok (some [.bool true]) s) :
    run fuel script keys args st = (s.store, .reply (.int 1)) := by
  simp only [run, runLog, h]; rfl

theorem run_of_exec_num {fuel : Nat} {script : Block} {keys args : List String} {st : Store} {s : State} {n : Int}
    (h : execBlock fuel script (initState keys args st) = .ok (some [.num n]) s) :
    run fuel script keys args st = (s.store, .reply (.int n)) := by
  simp only [run, runLog, h]; rfl

theorem run_of_exec_error {fuel : Nat} {script : Block} {keys args : List String} {st : Store} {s : State}
    {msg : String} (h : execBlock fuel script (initState keys args st) = .error msg s) :
    run fuel script keys args st = (s.store, .error msg) := by
  simp only [run, runLog, h]

theorem updScript_eq : count_min_sketch_redis_updateLists = [
    .localDecl ["size"] [.index (.var "ARGV") (.num 1)],
    .localDecl ["cmsKey"] [.index (.var "ARGV") (.num 2)],
    .localDecl ["count"] [.call (.global "tonumber") [.index (.var "ARGV") (.num 3)]],
    .numFor "i" (.num 1) (.binop .sub (.call (.global "tonumber") [.var "size"]) (.num 1)) (some (.num 2)) updBody,
    .ret [.litTrue]] := rfl

theorem upd_exec (key : String) (count : Nat) (pos : List Nat) (st : Store) (fuel : Nat)
    (hfuel : pos.length + 30 ≤ fuel) (hlen : 2 * pos.length < maxArrayIndex) (hcount : count ≤ numLimit)
    (hpos : ∀ c ∈ pos, c ≤ numLimit) (hag : UpdReadsAgree key count pos st) :
    match execBlock fuel count_min_sketch_redis_updateLists
        (initState (cmsPosKeys pos) [decimal (2 * pos.length), key, decimal count] st) with
    | .ok (some [.bool true]) s' => cmsUpdateLoop key count 0 pos st = (s'.store, some ())
    | .error _ s' => cmsUpdateLoop key count 0 pos st = (s'.store, none)
    | _ => False := by
  obtain ⟨F, rfl⟩ : ∃ F, fuel = F + 12 := ⟨fuel - 12, by omega⟩
  have h2 : 2 * pos.length ≤ numLimit := by unfold maxArrayIndex at hlen; unfold numLimit; omega
  have h3 : ((2 * pos.length : Nat) - 1 : Int).natAbs ≤ numLimit := by unfold numLimit at *; omega
  rw [updScript_eq]
  luab_simp [initState, luaToNumber_decimal hcount, luaToNumber_decimal h2, checkNum_ok h3]
  have hl := upd_loop key (decimal (2 * pos.length)) count pos { arr := [.str (decimal (2 * pos.length)), .str key, .str (decimal count)] } [] [] st hlen hpos hag (F + 7) (by omega)
  simp only [updEnv] at hl
  generalize numForLoop (F + 7) "i" 1 _ 2 updBody _ = r at hl ⊢
  cases r with
  | ok a s' =>
    cases a with
    | none =>
      obtain ⟨rest', lg', rfl, h2⟩ := hl
      luab_simp []
      rw [← h2]
    | some vs => exact hl.elim
  | error e s' => exact hl
  | unsupported w s' => exact hl.elim
  | outOfFuel s' => exact hl.elim

/-- the extracted `Update` script computes `cmsUpdateLoop` (the error message, when the model aborts, is left open). -/
theorem upd_run (key : String) (count : Nat) (pos : List Nat) (st : Store) (fuel : Nat)
    (hfuel : pos.length + 30 ≤ fuel) (hlen : 2 * pos.length < maxArrayIndex) (hcount : count ≤ numLimit)
    (hpos : ∀ c ∈ pos, c ≤ numLimit) (hag : UpdReadsAgree key count pos st) :
    ∃ msg, run fuel count_min_sketch_redis_updateLists (cmsPosKeys pos)
        [decimal (2 * pos.length), key, decimal count] st =
      ((cmsUpdateLoop key count 0 pos st).1,
        match (cmsUpdateLoop key count 0 pos st).2 with
        | some _ => .reply (.int 1)
        | none => .error msg) := by
  have h := upd_exec key count pos st fuel hfuel hlen hcount hpos hag
  split at h
  · rename_i s' he
    exact ⟨"", by rw [run_of_exec_true he, h]⟩
  · rename_i msg s' he
    exact ⟨msg, by rw [run_of_exec_error he, h]⟩
  · exact h.elim

/-! ## `Count` -/

def cntBody : List Stmt := [
    .localDecl ["row"] [.binop .concat (.var "cmsKey") (.index (.var "KEYS") (.var "i"))],
    .localDecl ["column"] [.call (.global "tonumber") [.index (.var "KEYS") (.binop .add (.var "i") (.num 1))]],
    .localDecl ["val"] [.call (.field "redis" "call") [.str "LINDEX", .var "row", .var "column"]],
    .localDecl ["count"] [.call (.global "tonumber") [.var "val"]],
    .ifThen (.binop .or (.binop .lt (.var "count") (.var "min")) (.binop .eq (.call (.global "tonumber") [.index (.var "KEYS") (.var "i")]) (.num 0))) [
      .assign (.var "min") (.var "count")
    ] []
  ]

def cntEnv (mn : Nat) (key sz : String) : List (String × Value) :=
  [("min", .num mn), ("cmsKey", .str key), ("size", .str sz)]

theorem cnt_body (key sz : String) (mn : Nat) (KT AT : Table) (rest : List Table) (lg : List String)
    (j c : Nat) (st : Store) (hj : 2 * j + 2 < maxArrayIndex) (hc : c ≤ numLimit)
    (hk1 : KT.get (.num ((2 * j + 1 : Nat) : Int)) = .str (decimal j))
    (hk2 : KT.get (.num ((2 * j + 2 : Nat) : Int)) = .str (decimal c))
    (hag : ∀ l v, st (cmsRowKey key j) = some (.list l) → l[c]? = some v → EntryAgrees 0 v)
    (f : Nat) (cs : List Nat) :
    match inScope (do declare "i" (.num (1 + (j : Int) * 2)); execBlock (f + 20) cntBody)
        ⟨st, KT :: AT :: rest, cntEnv mn key sz, lg⟩ with
    | .ok none s' => ∃ lg' mn', s' = ⟨st, KT :: AT :: rest, cntEnv mn' key sz, lg'⟩ ∧
        cmsCountLoop key j (c :: cs) mn st = cmsCountLoop key (j + 1) cs mn' st
    | .error _ s' => s'.store = st ∧ cmsCountLoop key j (c :: cs) mn st = (st, none)
    | _ => False := by
  have e1 : (1 + (j : Int) * 2) = ((2 * j + 1 : Nat) : Int) := by omega
  have e2 : ((2 * j + 1 : Nat) : Int) + 1 = ((2 * j + 2 : Nat) : Int) := by omega
  have hnl : ((2 * j + 2 : Nat) : Int).natAbs ≤ numLimit := by
    unfold maxArrayIndex at hj; unfold numLimit; omega
  have hjl : j ≤ numLimit := by unfold maxArrayIndex at hj; unfold numLimit; omega
  rw [e1]
  luab_simp [cntBody, cntEnv, hk1]
  rw [e2]
  luab_simp [checkNum_ok hnl, hk2, luaToNumber_decimal hc]
  rw [redisCall_key true "LINDEX" _ _ [decimal c] _ rfl, show key ++ decimal j = cmsRowKey key j from rfl]
  simp only [redisCommand_LINDEX _ hc]
  have hmodel : cmsCountLoop key j (c :: cs) mn st =
      (cmdLINDEX (cmsRowKey key j) c >>=ₛ fun v => luaNumber v >>=ₛ fun n =>
        cmsCountLoop key (j + 1) cs (if n < mn ∨ j = 0 then n else mn)) st := rfl
  rw [hmodel]
  cases hk : st (cmsRowKey key j) with
  | none =>
    luab_simp []
    simp only [Script.bind, cmdLINDEX, hk, luaNumber, and_self]
  | some val =>
    cases val with
    | list l =>
      cases hv : l[c]? with
      | none =>
        luab_simp [hv]
        simp only [Script.bind, cmdLINDEX, hk, luaNumber, hv, and_self]
      | some v =>
        rcases hag l v hk hv with ⟨n, hp, hn⟩ | ⟨hp, hl⟩
        · have hn' : n ≤ numLimit := by omega
          luab_simp [hv, luaToNumber_of_parseDecimal hp hn', luaToNumber_decimal hjl]
          have hm : (cmdLINDEX (cmsRowKey key j) c >>=ₛ fun v => luaNumber v >>=ₛ fun n =>
              cmsCountLoop key (j + 1) cs (if n < mn ∨ j = 0 then n else mn)) st =
              cmsCountLoop key (j + 1) cs (if n < mn ∨ j = 0 then n else mn) st := by
            simp only [Script.bind, cmdLINDEX, hk, luaNumber, hv, hp]
          rw [hm]
          by_cases hlt : n < mn
          · have hlt' : (n : Int) < (mn : Int) := by omega
            luab_simp [hlt', hlt, true_or]
            exact ⟨_, n, rfl, rfl⟩
          · have hlt' : ¬ (n : Int) < (mn : Int) := by omega
            luab_simp [hlt', hlt, false_or, hk1, luaToNumber_decimal hjl, Value.num.injEq, Int.natCast_eq_zero]
            by_cases hj0 : j = 0
            · luab_simp [hj0]
              exact ⟨_, n, rfl, rfl⟩
            · luab_simp [hj0]
              exact ⟨_, mn, rfl, rfl⟩
        · luab_simp [hv, hl]
          simp only [Script.bind, cmdLINDEX, hk, luaNumber, hv, hp, and_self]
    | _ =>
      luab_simp []
      simp only [Script.bind, cmdLINDEX, hk, and_self]

def CntReadsAgree (key : String) (pos : List Nat) (st : Store) : Prop :=
  ∀ r c l v, pos[r]? = some c → st (cmsRowKey key r) = some (.list l) → l[c]? = some v → EntryAgrees 0 v

theorem cnt_loop (key sz : String) (pos : List Nat) (AT : Table) (rest : List Table)
    (lg : List String) (st0 : Store) (hlen : 2 * pos.length < maxArrayIndex) (hpos : ∀ c ∈ pos, c ≤ numLimit)
    (hag : CntReadsAgree key pos st0) (F : Nat) (hF : pos.length + 20 + 1 ≤ F) :
    match numForLoop F "i" 1 ((2 * pos.length : Nat) - 1 : Int) 2 cntBody
        ⟨st0, { arr := (cmsPosKeys pos).map .str } :: AT :: rest, cntEnv 0 key sz, lg⟩ with
    | .ok none s' => ∃ mn lg', s' = ⟨st0, { arr := (cmsPosKeys pos).map .str } :: AT :: rest, cntEnv mn key sz, lg'⟩ ∧
        cmsCountLoop key 0 pos 0 st0 = (st0, some mn)
    | .error _ s' => s'.store = st0 ∧ cmsCountLoop key 0 pos 0 st0 = (st0, none)
    | _ => False := by
  refine numForLoop_spec0 (x := "i") (body := cntBody) (step := 2) (i0 := 1) (by decide) 20 pos.length
    (fun j s => ∃ mn lg', s = ⟨st0, { arr := (cmsPosKeys pos).map .str } :: AT :: rest, cntEnv mn key sz, lg'⟩ ∧
      cmsCountLoop key 0 pos 0 st0 = cmsCountLoop key j (pos.drop j) mn st0)
    (fun r => match r with
      | .ok none s' => ∃ mn lg', s' = ⟨st0, { arr := (cmsPosKeys pos).map .str } :: AT :: rest, cntEnv mn key sz, lg'⟩ ∧
          cmsCountLoop key 0 pos 0 st0 = (st0, some mn)
      | .error _ s' => s'.store = st0 ∧ cmsCountLoop key 0 pos 0 st0 = (st0, none)
      | _ => False)
    (by intro j hj; omega) (by omega) ?_ ?_ F _ hF ⟨0, lg, rfl, rfl⟩
  · intro j hj s f hP
    obtain ⟨mn, lg', rfl, hM⟩ := hP
    have hc : pos[j]? = some pos[j] := List.getElem?_eq_getElem hj
    have hdrop : pos.drop j = pos[j] :: pos.drop (j + 1) := List.drop_eq_getElem_cons hj
    obtain ⟨hk1, hk2⟩ := cmsPosKeys_get pos j pos[j] hc (by omega)
    have hb := cnt_body key sz mn _ AT rest lg' j pos[j] st0 (by omega)
      (hpos _ (List.getElem_mem hj)) hk1 hk2
      (fun l v hl hv => hag j pos[j] l v hc hl hv) f (pos.drop (j + 1))
    rw [hdrop] at hM
    generalize inScope (do declare "i" (.num (1 + (j : Int) * 2)); execBlock (f + 20) cntBody) _ = r at hb ⊢
    cases r with
    | ok a s' =>
      cases a with
      | none =>
        obtain ⟨lg'', mn', rfl, hM'⟩ := hb
        exact ⟨mn', lg'', rfl, hM.trans hM'⟩
      | some vs => exact hb
    | error e s' => exact ⟨hb.1, hM.trans hb.2⟩
    | unsupported w s' => exact hb
    | outOfFuel s' => exact hb
  · intro s hP
    obtain ⟨mn, lg', rfl, hM⟩ := hP
    rw [List.drop_length] at hM
    exact ⟨mn, lg', rfl, hM⟩

theorem cntScript_eq : count_min_sketch_redis_countLists = [
    .localDecl ["size"] [.index (.var "ARGV") (.num 1)],
    .localDecl ["cmsKey"] [.index (.var "ARGV") (.num 2)],
    .localDecl ["min"] [.num 0],
    .numFor "i" (.num 1) (.binop .sub (.call (.global "tonumber") [.var "size"]) (.num 1)) (some (.num 2)) cntBody,
    .ret [.var "min"]] := rfl

theorem cnt_exec (key : String) (pos : List Nat) (st : Store) (fuel : Nat)
    (hfuel : pos.length + 30 ≤ fuel) (hlen : 2 * pos.length < maxArrayIndex)
    (hpos : ∀ c ∈ pos, c ≤ numLimit) (hag : CntReadsAgree key pos st) :
    match execBlock fuel count_min_sketch_redis_countLists
        (initState (cmsPosKeys pos) [decimal (2 * pos.length), key] st) with
    | .ok (some [.num n]) s' => s'.store = st ∧ ∃ mn : Nat, n = mn ∧ cmsCountLoop key 0 pos 0 st = (st, some mn)
    | .error _ s' => s'.store = st ∧ cmsCountLoop key 0 pos 0 st = (st, none)
    | _ => False := by
  obtain ⟨F, rfl⟩ : ∃ F, fuel = F + 12 := ⟨fuel - 12, by omega⟩
  have h2 : 2 * pos.length ≤ numLimit := by unfold maxArrayIndex at hlen; unfold numLimit; omega
  have h3 : ((2 * pos.length : Nat) - 1 : Int).natAbs ≤ numLimit := by unfold numLimit at *; omega
  rw [cntScript_eq]
  luab_simp [initState, luaToNumber_decimal h2, checkNum_ok h3]
  have hl := cnt_loop key (decimal (2 * pos.length)) pos { arr := [.str (decimal (2 * pos.length)), .str key] } [] [] st hlen hpos hag (F + 7) (by omega)
  simp only [cntEnv] at hl
  generalize numForLoop (F + 7) "i" 1 _ 2 cntBody _ = r at hl ⊢
  cases r with
  | ok a s' =>
    cases a with
    | none =>
      obtain ⟨mn, lg', rfl, h2⟩ := hl
      luab_simp []
      exact ⟨trivial, mn, rfl, h2⟩
    | some vs => exact hl.elim
  | error e s' => exact hl
  | unsupported w s' => exact hl.elim
  | outOfFuel s' => exact hl.elim

theorem cnt_run (key : String) (pos : List Nat) (st : Store) (fuel : Nat)
    (hfuel : pos.length + 30 ≤ fuel) (hlen : 2 * pos.length < maxArrayIndex)
    (hpos : ∀ c ∈ pos, c ≤ numLimit) (hag : CntReadsAgree key pos st) :
    ∃ msg, run fuel count_min_sketch_redis_countLists (cmsPosKeys pos) [decimal (2 * pos.length), key] st =
      ((cmsCountLoop key 0 pos 0 st).1,
        match (cmsCountLoop key 0 pos 0 st).2 with
        | some mn => .reply (.int mn)
        | none => .error msg) := by
  have h := cnt_exec key pos st fuel hfuel hlen hpos hag
  split at h
  · rename_i n s' he
    obtain ⟨hs, mn, rfl, hm⟩ := h
    exact ⟨"", by rw [run_of_exec_num he, hm, hs]⟩
  · rename_i msg s' he
    exact ⟨msg, by rw [run_of_exec_error he, h.2, h.1]⟩
  · exact h.elim


/-! ## `initMatrix` -/

def initInner : List Stmt := [.assign (.index (.var "list") (.var "j")) (.num 0)]

def initBody : List Stmt := [
    .localDecl ["rowKey"] [.binop .concat (.var "key") (.call (.global "tostring") [.binop .sub (.var "i") (.num 1)])],
    .callStmt (.field "redis" "call") [.str "DEL", .var "rowKey"],
    .localDecl ["list"] [.table []],
    .numFor "j" (.num 1) (.call (.global "tonumber") [.var "columns"]) none initInner,
    .callStmt (.field "redis" "call") [.str "LPUSH", .var "rowKey", .call (.global "unpack") [.var "list"]]
  ]

def initEnv (key rows cols : String) : List (String × Value) :=
  [("columns", .str cols), ("rows", .str rows), ("key", .str key)]

def initEnvIn (id : Nat) (rk : String) (i : Int) (key rows cols : String) : List (String × Value) :=
  ("list", .table id) :: ("rowKey", .str rk) :: ("i", .num i) :: initEnv key rows cols

/-- `for j=1, columns do list[j] = 0 end` fills the table with `columns` zeros. -/
theorem init_inner (st : Store) (H : List Table) (rk : String) (i : Int) (key rows cols : String) (lg : List String)
    (n : Nat) (hn : n + 1 < maxArrayIndex) (F : Nat) (hF : n + 6 ≤ F) :
    numForLoop F "j" 1 (n : Int) 1 initInner ⟨st, H ++ [{ arr := [] }], initEnvIn H.length rk i key rows cols, lg⟩ =
      .ok none ⟨st, H ++ [{ arr := List.replicate n (.num 0) }], initEnvIn H.length rk i key rows cols, lg⟩ := by
  refine numForLoop_spec0 (x := "j") (body := initInner) (step := 1) (i0 := 1) (limit := (n : Int)) (by decide) 4 n
    (fun k s => s = ⟨st, H ++ [{ arr := List.replicate k (.num 0) }], initEnvIn H.length rk i key rows cols, lg⟩)
    (fun r => r = .ok none ⟨st, H ++ [{ arr := List.replicate n (.num 0) }], initEnvIn H.length rk i key rows cols, lg⟩)
    (by intro j hj; omega) (by omega) ?_ ?_ F _ (by omega) rfl
  · intro k hk s f hP
    subst hP
    have e : (1 + (k : Int) * 1) = (((List.replicate k (Value.num 0)).length + 1 : Nat) : Int) := by
      rw [List.length_replicate]; omega
    rw [e]
    luab_simp [initInner, initEnvIn, initEnv, setIndex_table, getD_append_length, set_append_length]
    rw [Table.set_push _ _ _ (by rw [List.length_replicate]; omega), ← List.replicate_succ']
  · intro s hP; rw [hP]

theorem cmdArgs_replicate_zero (n : Nat) :
    cmdArgs (List.replicate n (Value.num 0)) = some (List.replicate n (decimal 0)) := by
  induction n with
  | zero => rfl
  | succ n ih => rw [List.replicate_succ, cmdArgs_num, ih]; rfl

theorem unpack_replicate (n : Nat) (v : Value) :
    (List.range n).map (fun i => (List.replicate n v).getD i .nil) = List.replicate n v := by
  apply List.ext_getElem
  · simp
  · intro i h1 h2
    simp only [List.length_map, List.length_range] at h1
    simp [List.getD_eq_getElem?_getD, h1]

theorem init_body (key : String) (rows cols : Nat) (H : List Table) (lg : List String) (r : Nat) (st : Store)
    (hcols : cols ≤ unpackSafe) (hr : r < numLimit) (f n : Nat) :
    match inScope (do declare "i" (.num (1 + (r : Int) * 1)); execBlock (f + (cols + 30)) initBody)
        ⟨st, H, initEnv key (decimal rows) (decimal cols), lg⟩ with
    | .ok none s' => ∃ H' lg' st', s' = ⟨st', H', initEnv key (decimal rows) (decimal cols), lg'⟩ ∧
        cmsInitLoop key cols r (n + 1) st = cmsInitLoop key cols (r + 1) n st'
    | .error _ s' => cmsInitLoop key cols r (n + 1) st = (s'.store, none)
    | _ => False := by
  have e0 : f + (cols + 30) = f + cols + 30 := by omega
  have e1 : (1 + (r : Int) * 1) = ((r + 1 : Nat) : Int) := by omega
  have e2 : ((r + 1 : Nat) : Int) - 1 = (r : Int) := by omega
  have hrl : (r : Int).natAbs ≤ numLimit := by omega
  have hcl : cols ≤ numLimit := by unfold unpackSafe at hcols; unfold numLimit; omega
  rw [e0, e1]
  luab_simp [initBody, initEnv, e2, checkNum_ok hrl]
  rw [redisCall_key true "DEL" _ [] [] _ rfl]
  luab_simp [redisCommand_DEL, luaToNumber_decimal hcl]
  have hin := init_inner (st.del (key ++ renderInt (r : Int))) H (key ++ renderInt (r : Int)) ((r + 1 : Nat) : Int)
    key (decimal rows) (decimal cols) ((key ++ renderInt (r : Int)) :: lg) cols
    (by unfold unpackSafe at hcols; unfold maxArrayIndex; omega) (f + cols + 25) (by omega)
  simp only [initEnvIn, initEnv] at hin
  rw [hin]
  have hlen : (⟨List.replicate cols (.num 0), []⟩ : Table).len = cols := by
    rw [Table.len_of_no_nil, List.length_replicate]
    intro v hv
    rw [List.eq_of_mem_replicate hv]
    exact fun h => nomatch h
  luab_simp []
  rw [callFn_unpack _ _ rfl]
  simp only [getD_append_length, hlen, hcols, if_true, unpack_replicate]
  luab_simp []
  rw [redisCall_key true "LPUSH" _ _ _ _ (cmdArgs_replicate_zero cols)]
  have hmodel : cmsInitLoop key cols r (n + 1) st =
      (cmdDEL (cmsRowKey key r) >>=ₛ fun _ =>
        cmdLPUSH (cmsRowKey key r) (List.replicate cols (decimal 0)) >>=ₛ fun _ =>
        cmsInitLoop key cols (r + 1) n) st := rfl
  rw [hmodel, show key ++ renderInt (r : Int) = cmsRowKey key r from rfl]
  have hdel : (st.del (cmsRowKey key r)) (cmsRowKey key r) = none := by simp only [Store.del, if_true]
  cases cols with
  | zero =>
    simp only [List.replicate_zero, redisCommand_LPUSH_nil]
    luab_simp []
    simp only [Script.bind, cmdDEL, cmdLPUSH, if_true]
  | succ c =>
    simp only [List.replicate_succ, redisCommand_LPUSH, hdel]
    luab_simp []
    refine ⟨_, _, _, rfl, ?_⟩
    simp only [Script.bind, cmdDEL, cmdLPUSH, reduceCtorEq, if_false, hdel]

theorem init_loop (key : String) (rows cols : Nat) (H : List Table) (lg : List String) (st0 : Store)
    (hcols : cols ≤ unpackSafe) (hrows : rows ≤ numLimit) (F : Nat) (hF : rows + (cols + 30) + 1 ≤ F) :
    match numForLoop F "i" 1 (rows : Int) 1 initBody ⟨st0, H, initEnv key (decimal rows) (decimal cols), lg⟩ with
    | .ok none s' => cmsInitLoop key cols 0 rows st0 = (s'.store, some ())
    | .error _ s' => cmsInitLoop key cols 0 rows st0 = (s'.store, none)
    | _ => False := by
  refine numForLoop_spec0 (x := "i") (body := initBody) (step := 1) (i0 := 1) (limit := (rows : Int)) (by decide)
    (cols + 30) rows
    (fun j s => ∃ st H' lg', s = ⟨st, H', initEnv key (decimal rows) (decimal cols), lg'⟩ ∧
      cmsInitLoop key cols 0 rows st0 = cmsInitLoop key cols j (rows - j) st)
    (fun r => match r with
      | .ok none s' => cmsInitLoop key cols 0 rows st0 = (s'.store, some ())
      | .error _ s' => cmsInitLoop key cols 0 rows st0 = (s'.store, none)
      | _ => False)
    (by intro j hj; omega) (by omega) ?_ ?_ F _ hF ⟨st0, H, lg, rfl, rfl⟩
  · intro j hj s f hP
    obtain ⟨st, H', lg', rfl, hM⟩ := hP
    have hb := init_body key rows cols H' lg' j st hcols (by omega) f (rows - j - 1)
    rw [show rows - j = rows - j - 1 + 1 by omega] at hM
    generalize inScope (do declare "i" (.num (1 + (j : Int) * 1)); execBlock (f + (cols + 30)) initBody) _ = r at hb ⊢
    cases r with
    | ok a s' =>
      cases a with
      | none =>
        obtain ⟨H'', lg'', st', rfl, hM'⟩ := hb
        exact ⟨st', H'', lg'', rfl, by rw [hM, hM', show rows - j - 1 = rows - (j + 1) by omega]⟩
      | some vs => exact hb
    | error e s' => exact hM.trans hb
    | unsupported w s' => exact hb
    | outOfFuel s' => exact hb
  · intro s hP
    obtain ⟨st, H', lg', rfl, hM⟩ := hP
    rw [Nat.sub_self] at hM
    exact hM

theorem initScript_eq : count_min_sketch_redis_initMatrixRedis = [
    .localDecl ["key"] [.index (.var "KEYS") (.num 1)],
    .localDecl ["rows"] [.index (.var "ARGV") (.num 1)],
    .localDecl ["columns"] [.index (.var "ARGV") (.num 2)],
    .numFor "i" (.num 1) (.call (.global "tonumber") [.var "rows"]) none initBody,
    .ret [.litTrue]] := rfl

theorem init_exec (key : String) (rows cols : Nat) (st : Store) (fuel : Nat)
    (hfuel : rows + cols + 45 ≤ fuel) (hcols : cols ≤ unpackSafe) (hrows : rows ≤ numLimit) :
    match execBlock fuel count_min_sketch_redis_initMatrixRedis
        (initState [key] [decimal rows, decimal cols] st) with
    | .ok (some [.bool true]) s' => cmsInitLoop key cols 0 rows st = (s'.store, some ())
    | .error _ s' => cmsInitLoop key cols 0 rows st = (s'.store, none)
    | _ => False := by
  obtain ⟨F, rfl⟩ : ∃ F, fuel = F + 12 := ⟨fuel - 12, by omega⟩
  rw [initScript_eq]
  luab_simp [initState, luaToNumber_decimal hrows]
  have hl := init_loop key rows cols [{ arr := [.str key] }, { arr := [.str (decimal rows), .str (decimal cols)] }]
    [] st hcols hrows (F + 7) (by omega)
  simp only [initEnv] at hl
  generalize numForLoop (F + 7) "i" 1 _ 1 initBody _ = r at hl ⊢
  cases r with
  | ok a s' =>
    cases a with
    | none => luab_simp []; exact hl
    | some vs => exact hl.elim
  | error e s' => exact hl
  | unsupported w s' => exact hl.elim
  | outOfFuel s' => exact hl.elim

theorem init_run (key : String) (rows cols : Nat) (st : Store) (fuel : Nat)
    (hfuel : rows + cols + 45 ≤ fuel) (hcols : cols ≤ unpackSafe) (hrows : rows ≤ numLimit) :
    ∃ msg, run fuel count_min_sketch_redis_initMatrixRedis [key] [decimal rows, decimal cols] st =
      ((cmsInitLoop key cols 0 rows st).1,
        match (cmsInitLoop key cols 0 rows st).2 with
        | some _ => .reply (.int 1)
        | none => .error msg) := by
  have h := init_exec key rows cols st fuel hfuel hcols hrows
  split at h
  · rename_i s' he
    exact ⟨"", by rw [run_of_exec_true he, h]⟩
  · rename_i msg s' he
    exact ⟨msg, by rw [run_of_exec_error he, h]⟩
  · exact h.elim


/-- with `columns ≥ 5120` the first round of `initMatrix` stops in `unpack` ("registry overflow"), after
    the `DEL` of row 0. -/
theorem init_body_overflow (key : String) (rows cols : Nat) (H : List Table) (lg : List String) (st : Store)
    (hcols : unpackOverflow ≤ cols) (hcols' : cols + 1 < maxArrayIndex) (f : Nat) :
    ∃ s', inScope (do declare "i" (.num 1); execBlock (f + cols + 30) initBody)
        ⟨st, H, initEnv key (decimal rows) (decimal cols), lg⟩ = .error "registry overflow" s' ∧
      s'.store = st.del (cmsRowKey key 0) := by
  have hcl : cols ≤ numLimit := by unfold maxArrayIndex at hcols'; unfold numLimit; omega
  have h0 : ((1 : Int) - 1).natAbs ≤ numLimit := by decide
  luab_simp [initBody, initEnv, checkNum_ok h0]
  rw [redisCall_key true "DEL" _ [] [] _ rfl]
  luab_simp [redisCommand_DEL, luaToNumber_decimal hcl]
  have hin := init_inner (st.del (key ++ renderInt ((1 : Int) - 1))) H (key ++ renderInt ((1 : Int) - 1)) 1
    key (decimal rows) (decimal cols) ((key ++ renderInt ((1 : Int) - 1)) :: lg) cols hcols' (f + cols + 25) (by omega)
  simp only [initEnvIn, initEnv] at hin
  rw [hin]
  have hlen : (⟨List.replicate cols (.num 0), []⟩ : Table).len = cols := by
    rw [Table.len_of_no_nil, List.length_replicate]
    intro v hv
    rw [List.eq_of_mem_replicate hv]
    exact fun h => nomatch h
  have hns : ¬ cols ≤ unpackSafe := by unfold unpackSafe; unfold unpackOverflow at hcols; omega
  luab_simp []
  rw [callFn_unpack _ _ rfl]
  simp only [getD_append_length, hlen, hns, if_false, ge_iff_le, hcols, if_true]
  exact ⟨_, rfl, rfl⟩

theorem init_exec_overflow (key : String) (rows cols : Nat) (st : Store) (fuel : Nat)
    (hfuel : cols + 50 ≤ fuel) (hcols : unpackOverflow ≤ cols) (hcols' : cols + 1 < maxArrayIndex)
    (hrows : 1 ≤ rows) (hrows' : rows ≤ numLimit) :
    run fuel count_min_sketch_redis_initMatrixRedis [key] [decimal rows, decimal cols] st =
      (st.del (cmsRowKey key 0), .error "registry overflow") := by
  obtain ⟨F, rfl⟩ : ∃ F, fuel = F + cols + 42 := ⟨fuel - cols - 42, by omega⟩
  have hcond : (0 < (1 : Int) ∧ (1 : Int) ≤ (rows : Int)) ∨ ((1 : Int) ≤ 0 ∧ (rows : Int) ≤ 1) :=
    Or.inl ⟨by decide, by omega⟩
  obtain ⟨s', hb, hs⟩ := init_body_overflow key rows cols
    [{ arr := [.str key] }, { arr := [.str (decimal rows), .str (decimal cols)] }] [] st hcols hcols' (F + 6)
  simp only [initEnv] at hb
  have hex : execBlock (F + cols + 42) count_min_sketch_redis_initMatrixRedis
      (initState [key] [decimal rows, decimal cols] st) = .error "registry overflow" s' := by
    rw [initScript_eq]
    luab_simp [initState, luaToNumber_decimal hrows']
    rw [numForLoop_succ (F + cols + 36)]
    simp only [hcond, if_true, bind_apply]
    rw [show F + cols + 36 = F + 6 + cols + 30 by omega, hb]
  rw [run_of_exec_error hex, hs]

/-! ## `mergeMatrix` -/

def optNum : Option Nat → Value
  | some x => .num (x : Int)
  | none => .nil

/-- `tonumber(vals[j])` of an entry that `tonumber` and `parseDecimal` read the same way. -/
theorem tonumber_entry (l : List String) (k : Nat) (s : State)
    (hag : ∀ v, l[k]? = some v → EntryAgrees 0 v) (h : envGet s.env "tonumber" = none) :
    callFn (.global "tonumber") [(l.map Value.str).getD k .nil] s = .ok [optNum (l[k]?.bind parseDecimal)] s := by
  rw [getD_map_str]
  cases hv : l[k]? with
  | none => exact callFn_tonumber_nil s h
  | some v =>
    simp only [Option.bind_some]
    rw [callFn_tonumber_str v s h]
    rcases hag v hv with ⟨n, hp, hn⟩ | ⟨hp, hl⟩
    · rw [luaToNumber_of_parseDecimal hp (by omega), hp]; rfl
    · rw [hl, hp]; rfl

/-- the sums `cmsAddVals` computes, by position: entries `k … k + m - 1` of the two rows. -/
def addNumsFrom (l1 l2 : List String) : Nat → Nat → Option (List Nat)
  | _, 0 => some []
  | k, m + 1 =>
    match l1[k]?.bind parseDecimal, l2[k]?.bind parseDecimal with
    | some x, some y => (addNumsFrom l1 l2 (k + 1) m).map ((x + y) :: ·)
    | _, _ => none

theorem cmsAddVals_drop (l1 l2 : List String) (s : Store) : ∀ (m k : Nat),
    cmsAddVals m (l1.drop k) (l2.drop k) s = (s, (addNumsFrom l1 l2 k m).map (·.map decimal)) := by
  intro m
  induction m with
  | zero => intro k; rfl
  | succ m ih =>
    intro k
    unfold cmsAddVals addNumsFrom
    simp only [List.head?_drop, List.tail_drop]
    cases h1 : l1[k]? with
    | none => rfl
    | some v =>
      cases hp1 : parseDecimal v with
      | none => simp only [Script.bind, luaNumber, hp1, Option.bind_some, Option.map_none]
      | some x =>
        cases h2 : l2[k]? with
        | none => simp only [Script.bind, luaNumber, hp1, Option.bind_some, Option.bind_none, Option.map_none]
        | some w =>
          cases hp2 : parseDecimal w with
          | none => simp only [Script.bind, luaNumber, hp1, hp2, Option.bind_some, Option.map_none]
          | some y =>
            simp only [Script.bind, luaNumber, hp1, hp2, Option.bind_some, ih (k + 1)]
            cases addNumsFrom l1 l2 (k + 1) m <;> rfl

theorem cmsAddVals_eq (l1 l2 : List String) (s : Store) (m : Nat) :
    cmsAddVals m l1 l2 s = (s, (addNumsFrom l1 l2 0 m).map (·.map decimal)) := by
  have := cmsAddVals_drop l1 l2 s m 0
  simpa using this

def MergeRowAgree (cols : Nat) (l1 l2 : List String) : Prop :=
  ∀ k, k < cols → (∀ v, l1[k]? = some v → EntryAgrees 0 v) ∧ (∀ v, l2[k]? = some v → EntryAgrees 0 v) ∧
    (∀ x y, l1[k]?.bind parseDecimal = some x → l2[k]?.bind parseDecimal = some y → x + y ≤ numLimit)

def mergeInner : List Stmt := [
    .assign (.index (.var "vals3") (.var "j")) (.binop .add (.call (.global "tonumber") [.index (.var "vals1") (.var "j")]) (.call (.global "tonumber") [.index (.var "vals2") (.var "j")]))
  ]

def mergeEnv (key1 key2 : String) (rows cols : Nat) : List (String × Value) :=
  [("columns", .num cols), ("rows", .num rows), ("key2", .str key2), ("key1", .str key1)]

def mergeEnvIn (id : Nat) (rk1 rk2 : String) (i : Int) (key1 key2 : String) (rows cols : Nat) :
    List (String × Value) :=
  ("vals3", .table (id + 2)) :: ("vals2", .table (id + 1)) :: ("rowKey2", .str rk2) :: ("vals1", .table id) ::
    ("rowKey1", .str rk1) :: ("i", .num i) :: mergeEnv key1 key2 rows cols

def numTable (nums : List Nat) : Table := { arr := nums.map fun n : Nat => Value.num (n : Int) }

theorem merge_inner (st : Store) (H : List Table) (rk1 rk2 : String) (i : Int) (key1 key2 : String)
    (rows cols : Nat) (lg : List String) (l1 l2 : List String) (hag : MergeRowAgree cols l1 l2)
    (hn : cols + 1 < maxArrayIndex) (F : Nat) (hF : cols + 12 ≤ F) :
    match numForLoop F "j" 1 (cols : Int) 1 mergeInner
        ⟨st, H ++ [{ arr := l1.map .str }, { arr := l2.map .str }, { arr := [] }],
          mergeEnvIn H.length rk1 rk2 i key1 key2 rows cols, lg⟩ with
    | .ok none s' => ∃ nums, addNumsFrom l1 l2 0 cols = some nums ∧ nums.length = cols ∧
        s' = ⟨st, H ++ [{ arr := l1.map .str }, { arr := l2.map .str }, numTable nums],
          mergeEnvIn H.length rk1 rk2 i key1 key2 rows cols, lg⟩
    | .error _ s' => s'.store = st ∧ addNumsFrom l1 l2 0 cols = none
    | _ => False := by
  refine numForLoop_spec0 (x := "j") (body := mergeInner) (step := 1) (i0 := 1) (limit := (cols : Int)) (by decide)
    10 cols
    (fun k s => ∃ nums, nums.length = k ∧
      s = ⟨st, H ++ [{ arr := l1.map .str }, { arr := l2.map .str }, numTable nums],
          mergeEnvIn H.length rk1 rk2 i key1 key2 rows cols, lg⟩ ∧
      addNumsFrom l1 l2 0 cols = (addNumsFrom l1 l2 k (cols - k)).map (nums ++ ·))
    (fun r => match r with
      | .ok none s' => ∃ nums, addNumsFrom l1 l2 0 cols = some nums ∧ nums.length = cols ∧
          s' = ⟨st, H ++ [{ arr := l1.map .str }, { arr := l2.map .str }, numTable nums],
            mergeEnvIn H.length rk1 rk2 i key1 key2 rows cols, lg⟩
      | .error _ s' => s'.store = st ∧ addNumsFrom l1 l2 0 cols = none
      | _ => False)
    (by intro j hj; omega) (by omega) ?_ ?_ F _ (by omega) ⟨[], rfl, rfl, ?_⟩
  · intro k hk s f hP
    obtain ⟨nums, hlen, rfl, hM⟩ := hP
    obtain ⟨ha1, ha2, hsum⟩ := hag k hk
    have e : (1 + (k : Int) * 1) = ((k + 1 : Nat) : Int) := by omega
    have hk1 : k + 1 < maxArrayIndex := by omega
    rw [e]
    luab_simp [mergeInner, mergeEnvIn, mergeEnv, numTable, getD_append_length, getD_append_length1,
      Table.get_num _ _ (Nat.le_add_left 1 k) hk1, tonumber_entry l1 k _ ha1, tonumber_entry l2 k _ ha2]
    have hstep : addNumsFrom l1 l2 k (cols - k) =
        (match l1[k]?.bind parseDecimal, l2[k]?.bind parseDecimal with
         | some x, some y => (addNumsFrom l1 l2 (k + 1) (cols - (k + 1))).map ((x + y) :: ·)
         | _, _ => none) := by
      rw [show cols - k = cols - (k + 1) + 1 by omega, addNumsFrom]
    rw [hstep] at hM
    cases hx : l1[k]?.bind parseDecimal with
    | none =>
      rw [hx] at hM
      cases hy : l2[k]?.bind parseDecimal with
      | none => luab_simp [optNum, binop_add_nil_nil]; exact ⟨trivial, hM⟩
      | some y => luab_simp [optNum]; exact ⟨trivial, hM⟩
    | some x =>
      cases hy : l2[k]?.bind parseDecimal with
      | none =>
        rw [hx, hy] at hM
        luab_simp [optNum, binop_add_num_nil]; exact ⟨trivial, hM⟩
      | some y =>
        rw [hx, hy] at hM
        have hs := hsum x y hx hy
        have hsum' : ((x + y : Nat) : Int).natAbs ≤ numLimit := by omega
        have esum : (x : Int) + (y : Int) = ((x + y : Nat) : Int) := by omega
        have hpush := Table.set_push (nums.map fun n : Nat => Value.num (n : Int)) [] (.num ((x + y : Nat) : Int))
          (by rw [List.length_map, hlen]; omega)
        rw [List.length_map, hlen] at hpush
        luab_simp [optNum, checkNum_ok hsum', setIndex_table, getD_append_length2, set_append_length2, esum, hpush]
        refine ⟨nums ++ [x + y], by rw [List.length_append, hlen]; rfl, ?_, ?_⟩
        · simp only [List.map_append, List.map_cons, List.map_nil]
        · rw [hM, Option.map_map]
          congr 1
          funext rest
          simp
  · intro s hP
    obtain ⟨nums, hlen, rfl, hM⟩ := hP
    rw [Nat.sub_self] at hM
    refine ⟨nums, ?_, hlen, rfl⟩
    rw [hM]; simp [addNumsFrom]
  · simp

/-- what `LRANGE k 0 -1` returns: the list, `[]` for an absent key, an error for another type. -/
def lrangeO (st : Store) (k : String) : Option (List String) :=
  match st k with
  | none => some []
  | some (.list l) => some l
  | some _ => none

/-- the list at a key (`[]` when there is none). -/
def rowList (st : Store) (k : String) : List String :=
  match st k with
  | some (.list l) => l
  | _ => []

theorem cmdLRANGE_eq (k : String) (st : Store) : cmdLRANGE k st = (st, lrangeO st k) := by
  unfold cmdLRANGE lrangeO
  cases st k with
  | none => rfl
  | some v => cases v <;> rfl

theorem rowList_of_lrangeO {st : Store} {k : String} {l : List String} (h : lrangeO st k = some l) :
    rowList st k = l := by
  unfold lrangeO at h
  unfold rowList
  cases hk : st k with
  | none => rw [hk] at h; exact Option.some.inj h
  | some v =>
    rw [hk] at h
    cases v with
    | list l' => exact Option.some.inj h
    | _ => exact absurd h (by simp)

theorem redisCommand_LRANGE_O (k : String) (st : Store) :
    redisCommand "LRANGE" [k, "0", "-1"] st =
      match lrangeO st k with
      | some l => .ok st (.list l)
      | none => .error msgWrongType := by
  rw [redisCommand_LRANGE]
  unfold lrangeO
  cases st k with
  | none => rfl
  | some v => cases v <;> rfl

def cmsMergeStep (key1 key2 : String) (cols r : Nat) : Script Unit :=
  cmdLRANGE (cmsRowKey key1 r) >>=ₛ fun vals1 =>
  cmdLRANGE (cmsRowKey key2 r) >>=ₛ fun vals2 =>
  cmsAddVals cols vals1 vals2 >>=ₛ fun vals3 =>
  cmdDEL (cmsRowKey key1 r) >>=ₛ fun _ =>
  cmdRPUSH (cmsRowKey key1 r) vals3

def mergeBody : List Stmt := [
    .localDecl ["rowKey1"] [.binop .concat (.var "key1") (.call (.global "tostring") [.binop .sub (.var "i") (.num 1)])],
    .localDecl ["vals1"] [.call (.field "redis" "call") [.str "LRANGE", .var "rowKey1", .num 0, .unop .neg (.num 1)]],
    .localDecl ["rowKey2"] [.binop .concat (.var "key2") (.call (.global "tostring") [.binop .sub (.var "i") (.num 1)])],
    .localDecl ["vals2"] [.call (.field "redis" "call") [.str "LRANGE", .var "rowKey2", .num 0, .unop .neg (.num 1)]],
    .localDecl ["vals3"] [.table []],
    .numFor "j" (.num 1) (.call (.global "tonumber") [.var "columns"]) none mergeInner,
    .callStmt (.field "redis" "call") [.str "DEL", .var "rowKey1"],
    .callStmt (.field "redis" "call") [.str "RPUSH", .var "rowKey1", .call (.global "unpack") [.var "vals3"]]
  ]

theorem merge_body (key1 key2 : String) (rows cols : Nat) (H : List Table) (lg : List String) (r : Nat)
    (st : Store) (hcols : cols ≤ unpackSafe) (hr : r < numLimit)
    (hag : MergeRowAgree cols (rowList st (cmsRowKey key1 r)) (rowList st (cmsRowKey key2 r))) (f : Nat) :
    match inScope (do declare "i" (.num (1 + (r : Int) * 1)); execBlock (f + (cols + 40)) mergeBody)
        ⟨st, H, mergeEnv key1 key2 rows cols, lg⟩ with
    | .ok none s' => ∃ H' lg', s' = ⟨(cmsMergeStep key1 key2 cols r st).1, H', mergeEnv key1 key2 rows cols, lg'⟩ ∧
        (cmsMergeStep key1 key2 cols r st).2 = some ()
    | .error _ s' => s'.store = (cmsMergeStep key1 key2 cols r st).1 ∧ (cmsMergeStep key1 key2 cols r st).2 = none
    | _ => False := by
  have e0 : f + (cols + 40) = f + cols + 40 := by omega
  have e1 : (1 + (r : Int) * 1) = ((r + 1 : Nat) : Int) := by omega
  have e2 : ((r + 1 : Nat) : Int) - 1 = (r : Int) := by omega
  have hrl : (r : Int).natAbs ≤ numLimit := by omega
  rw [e0, e1]
  luab_simp [mergeBody, mergeEnv, e2, checkNum_ok hrl]
  rw [redisCall_key true "LRANGE" _ _ ["0", "-1"] _ rfl, show key1 ++ renderInt (r : Int) = cmsRowKey key1 r from rfl]
  simp only [redisCommand_LRANGE_O]
  cases hl1 : lrangeO st (cmsRowKey key1 r) with
  | none =>
    luab_simp []
    simp only [cmsMergeStep, Script.bind, cmdLRANGE_eq, hl1, and_self]
  | some l1 =>
    luab_simp [e2, checkNum_ok hrl]
    rw [redisCall_key true "LRANGE" _ _ ["0", "-1"] _ rfl, show key2 ++ renderInt (r : Int) = cmsRowKey key2 r from rfl]
    simp only [redisCommand_LRANGE_O]
    cases hl2 : lrangeO st (cmsRowKey key2 r) with
    | none =>
      luab_simp []
      simp only [cmsMergeStep, Script.bind, cmdLRANGE_eq, hl1, hl2, and_self]
    | some l2 =>
      luab_simp []
      have hn1 : ∀ (a b c : Table), H ++ [a] ++ [b] ++ [c] = H ++ [a, b, c] := by intros; simp
      have hn2 : ∀ (a b : Table), (H ++ [a] ++ [b]).length = H.length + 2 := by intros; simp
      have hn3 : ∀ (a : Table), (H ++ [a]).length = H.length + 1 := by intros; simp
      rw [hn1, hn2, hn3]
      have hin := merge_inner st H (cmsRowKey key1 r) (cmsRowKey key2 r) ((r + 1 : Nat) : Int) key1 key2 rows cols
        (cmsRowKey key2 r :: cmsRowKey key1 r :: lg) l1 l2
        (by rw [rowList_of_lrangeO hl1, rowList_of_lrangeO hl2] at hag; exact hag)
        (by unfold unpackSafe at hcols; unfold maxArrayIndex; omega) (f + cols + 33) (by omega)
      simp only [mergeEnvIn, mergeEnv] at hin
      have hstep : cmsMergeStep key1 key2 cols r st =
          (match addNumsFrom l1 l2 0 cols with
           | some nums => cmdRPUSH (cmsRowKey key1 r) (nums.map decimal) (st.del (cmsRowKey key1 r))
           | none => (st, none)) := by
        simp only [cmsMergeStep, Script.bind, cmdLRANGE_eq, hl1, hl2, cmsAddVals_eq]
        cases addNumsFrom l1 l2 0 cols <;> rfl
      rw [hstep]
      generalize numForLoop (f + cols + 33) "j" 1 (cols : Int) 1 mergeInner _ = res at hin ⊢
      cases res with
      | ok a s' =>
        cases a with
        | none =>
          obtain ⟨nums, hadd, hlen, rfl⟩ := hin
          rw [hadd]
          luab_simp []
          rw [redisCall_key true "DEL" _ [] [] _ rfl]
          luab_simp [redisCommand_DEL]
          have hlen' : (numTable nums).len = cols := by
            unfold numTable
            rw [Table.len_of_no_nil, List.length_map, hlen]
            intro v hv
            obtain ⟨n, _, rfl⟩ := List.mem_map.mp hv
            exact fun h => nomatch h
          have harr : (numTable nums).arr.length = cols := by
            unfold numTable; rw [List.length_map, hlen]
          have hun : (List.range cols).map (fun i => (numTable nums).arr.getD i .nil) =
              nums.map (fun n : Nat => Value.num (n : Int)) := by
            rw [← harr]; exact unpack_eq _
          rw [callFn_unpack _ _ rfl]
          simp only [getD_append_length2, hlen', hcols, if_true, hun]
          luab_simp []
          rw [redisCall_key true "RPUSH" _ _ _ _ (cmdArgs_map_num nums)]
          have hdel : (st.del (cmsRowKey key1 r)) (cmsRowKey key1 r) = none := by simp only [Store.del, if_true]
          cases nums with
          | nil =>
            simp only [List.map_nil, redisCommand_RPUSH_nil]
            luab_simp []
            simp only [cmdRPUSH, if_true, and_self]
          | cons x nums =>
            simp only [List.map_cons, redisCommand_RPUSH, hdel]
            luab_simp []
            have hpush : cmdRPUSH (cmsRowKey key1 r) (decimal x :: List.map decimal nums) (st.del (cmsRowKey key1 r)) =
                ((st.del (cmsRowKey key1 r)).set (cmsRowKey key1 r) (.list (decimal x :: List.map decimal nums)),
                  some ()) := by
              simp only [cmdRPUSH, reduceCtorEq, if_false, hdel]
            rw [hpush]
            exact ⟨_, _, rfl, rfl⟩
        | some vs => exact hin.elim
      | error e s' =>
        obtain ⟨hs, hadd⟩ := hin
        rw [hadd]
        exact ⟨hs, rfl⟩
      | unsupported w s' => exact hin.elim
      | outOfFuel s' => exact hin.elim

theorem Script.bind_assoc {α β γ} (m : Script α) (f : α → Script β) (g : β → Script γ) :
    (m >>=ₛ f) >>=ₛ g = m >>=ₛ fun a => f a >>=ₛ g := by
  funext s
  simp only [Script.bind]
  cases m s with
  | mk s' o => cases o <;> rfl

theorem cmsMergeLoop_succ (key1 key2 : String) (cols r n : Nat) :
    cmsMergeLoop key1 key2 cols r (n + 1) =
      cmsMergeStep key1 key2 cols r >>=ₛ fun _ => cmsMergeLoop key1 key2 cols (r + 1) n := by
  simp only [cmsMergeStep, Script.bind_assoc]
  rfl

/-- the precondition of `Merge`, along the run: in every round the entries of the two rows are read the same
    way by `tonumber` and by the hand model and their sums stay below 2^53. -/
def MergeReadsAgree (key1 key2 : String) (cols : Nat) : Nat → Nat → Store → Prop
  | _, 0, _ => True
  | r, n + 1, st =>
    MergeRowAgree cols (rowList st (cmsRowKey key1 r)) (rowList st (cmsRowKey key2 r)) ∧
    ((cmsMergeStep key1 key2 cols r st).2 = some () →
      MergeReadsAgree key1 key2 cols (r + 1) n (cmsMergeStep key1 key2 cols r st).1)

theorem merge_loop (key1 key2 : String) (rows cols : Nat) (H : List Table) (lg : List String) (st0 : Store)
    (hcols : cols ≤ unpackSafe) (hrows : rows ≤ numLimit)
    (hag : MergeReadsAgree key1 key2 cols 0 rows st0) (F : Nat) (hF : rows + (cols + 40) + 1 ≤ F) :
    match numForLoop F "i" 1 (rows : Int) 1 mergeBody ⟨st0, H, mergeEnv key1 key2 rows cols, lg⟩ with
    | .ok none s' => cmsMergeLoop key1 key2 cols 0 rows st0 = (s'.store, some ())
    | .error _ s' => cmsMergeLoop key1 key2 cols 0 rows st0 = (s'.store, none)
    | _ => False := by
  refine numForLoop_spec0 (x := "i") (body := mergeBody) (step := 1) (i0 := 1) (limit := (rows : Int)) (by decide)
    (cols + 40) rows
    (fun j s => ∃ st H' lg', s = ⟨st, H', mergeEnv key1 key2 rows cols, lg'⟩ ∧
      cmsMergeLoop key1 key2 cols 0 rows st0 = cmsMergeLoop key1 key2 cols j (rows - j) st ∧
      MergeReadsAgree key1 key2 cols j (rows - j) st)
    (fun r => match r with
      | .ok none s' => cmsMergeLoop key1 key2 cols 0 rows st0 = (s'.store, some ())
      | .error _ s' => cmsMergeLoop key1 key2 cols 0 rows st0 = (s'.store, none)
      | _ => False)
    (by intro j hj; omega) (by omega) ?_ ?_ F _ hF ⟨st0, H, lg, rfl, rfl, hag⟩
  · intro j hj s f hP
    obtain ⟨st, H', lg', rfl, hM, hA⟩ := hP
    rw [show rows - j = rows - j - 1 + 1 by omega] at hM hA
    obtain ⟨hrow, hnext⟩ := hA
    have hb := merge_body key1 key2 rows cols H' lg' j st hcols (by omega) hrow f
    rw [cmsMergeLoop_succ] at hM
    generalize inScope (do declare "i" (.num (1 + (j : Int) * 1)); execBlock (f + (cols + 40)) mergeBody) _ = r at hb ⊢
    cases hstep : cmsMergeStep key1 key2 cols j st with
    | mk st1 o1 =>
      rw [hstep] at hb hnext
      simp only [Script.bind, hstep] at hM
      cases r with
      | ok a s' =>
        cases a with
        | none =>
          obtain ⟨H'', lg'', rfl, ho⟩ := hb
          simp only at ho
          subst ho
          refine ⟨st1, H'', lg'', rfl, ?_, ?_⟩
          · rw [hM, show rows - j - 1 = rows - (j + 1) by omega]
          · rw [show rows - (j + 1) = rows - j - 1 by omega]; exact hnext rfl
        | some vs => exact hb
      | error e s' =>
        obtain ⟨hs, ho⟩ := hb
        simp only at hs ho
        subst ho
        simp only at hM ⊢
        rw [hM, hs]
      | unsupported w s' => exact hb
      | outOfFuel s' => exact hb
  · intro s hP
    obtain ⟨st, H', lg', rfl, hM, _⟩ := hP
    rw [Nat.sub_self] at hM
    exact hM

theorem mergeScript_eq : count_min_sketch_redis_mergeMatrixScript = [
    .localDecl ["key1"] [.index (.var "KEYS") (.num 1)],
    .localDecl ["key2"] [.index (.var "KEYS") (.num 2)],
    .localDecl ["rows"] [.call (.global "tonumber") [.index (.var "ARGV") (.num 1)]],
    .localDecl ["columns"] [.call (.global "tonumber") [.index (.var "ARGV") (.num 2)]],
    .numFor "i" (.num 1) (.call (.global "tonumber") [.var "rows"]) none mergeBody,
    .ret [.litTrue]] := rfl

theorem merge_exec (key1 key2 : String) (rows cols : Nat) (st : Store) (fuel : Nat)
    (hfuel : rows + cols + 60 ≤ fuel) (hcols : cols ≤ unpackSafe) (hrows : rows ≤ numLimit)
    (hag : MergeReadsAgree key1 key2 cols 0 rows st) :
    match execBlock fuel count_min_sketch_redis_mergeMatrixScript
        (initState [key1, key2] [decimal rows, decimal cols] st) with
    | .ok (some [.bool true]) s' => cmsMergeLoop key1 key2 cols 0 rows st = (s'.store, some ())
    | .error _ s' => cmsMergeLoop key1 key2 cols 0 rows st = (s'.store, none)
    | _ => False := by
  obtain ⟨F, rfl⟩ : ∃ F, fuel = F + 14 := ⟨fuel - 14, by omega⟩
  have hcl : cols ≤ numLimit := by unfold unpackSafe at hcols; unfold numLimit; omega
  rw [mergeScript_eq]
  luab_simp [initState, luaToNumber_decimal hrows, luaToNumber_decimal hcl]
  have hl := merge_loop key1 key2 rows cols
    [{ arr := [.str key1, .str key2] }, { arr := [.str (decimal rows), .str (decimal cols)] }]
    [] st hcols hrows hag (F + 8) (by omega)
  simp only [mergeEnv] at hl
  generalize numForLoop (F + 8) "i" 1 _ 1 mergeBody _ = r at hl ⊢
  cases r with
  | ok a s' =>
    cases a with
    | none => luab_simp []; exact hl
    | some vs => exact hl.elim
  | error e s' => exact hl
  | unsupported w s' => exact hl.elim
  | outOfFuel s' => exact hl.elim

theorem merge_run (key1 key2 : String) (rows cols : Nat) (st : Store) (fuel : Nat)
    (hfuel : rows + cols + 60 ≤ fuel) (hcols : cols ≤ unpackSafe) (hrows : rows ≤ numLimit)
    (hag : MergeReadsAgree key1 key2 cols 0 rows st) :
    ∃ msg, run fuel count_min_sketch_redis_mergeMatrixScript [key1, key2] [decimal rows, decimal cols] st =
      ((cmsMergeLoop key1 key2 cols 0 rows st).1,
        match (cmsMergeLoop key1 key2 cols 0 rows st).2 with
        | some _ => .reply (.int 1)
        | none => .error msg) := by
  have h := merge_exec key1 key2 rows cols st fuel hfuel hcols hrows hag
  split at h
  · rename_i s' he
    exact ⟨"", by rw [run_of_exec_true he, h]⟩
  · rename_i msg s' he
    exact ⟨msg, by rw [run_of_exec_error he, h]⟩
  · exact h.elim


/-! ## from `absCMS` to the preconditions -/

theorem RowsAre.get {s : Store} {key : String} {cols : Nat} : ∀ {m : List (List Nat)} {r0 : Nat},
    RowsAre s key cols r0 m → ∀ (r : Nat) (hr : r < m.length), RowIs s (cmsRowKey key (r0 + r)) cols m[r]
  | [], _, _, r, hr => absurd hr (Nat.not_lt_zero _)
  | row :: m, r0, h, 0, _ => h.1
  | row :: m, r0, h, r + 1, hr => by
    have := RowsAre.get h.2 r (Nat.lt_of_succ_lt_succ hr)
    rw [show r0 + 1 + r = r0 + (r + 1) by omega] at this
    exact this

/-- an entry of a stored row that reads as the matrix row `row`. -/
theorem RowIs.entry {s : Store} {k : String} {cols : Nat} {row : List Nat} (h : RowIs s k cols row)
    {l : List String} (hl : s k = some (.list l)) {c : Nat} {v : String} (hv : l[c]? = some v) :
    ∃ x, row[c]? = some x ∧ parseDecimal v = some x := by
  obtain ⟨l', hl', _, hm⟩ := h
  rw [hl] at hl'
  have e : l = l' := by injection hl' with e; injection e
  subst e
  have h1 : (l.map parseDecimal)[c]? = some (parseDecimal v) := by rw [List.getElem?_map, hv]; rfl
  rw [hm, List.getElem?_map] at h1
  cases hx : row[c]? with
  | none => rw [hx] at h1; exact absurd h1 (by simp)
  | some x =>
    rw [hx] at h1
    exact ⟨x, rfl, (Option.some.inj h1).symm⟩

theorem updReadsAgree_of_abs {st : Store} {h : CMSHandle} {c : CMS} (habs : absCMS st h = some c)
    (pos : List Nat) (count : Nat) (hlen : pos.length ≤ h.rows)
    (hb : ∀ row ∈ c.m, ∀ x ∈ row, x + count ≤ numLimit) : UpdReadsAgree h.key count pos st := by
  obtain ⟨_, _, hml, hrows⟩ := (absCMS_eq_some_iff st h c).mp habs
  intro r cc l v hp hst hv
  have hr : r < c.m.length := by
    have := (List.getElem?_eq_some_iff.mp hp).1
    omega
  have hrow := RowsAre.get hrows r hr
  rw [Nat.zero_add] at hrow
  obtain ⟨x, hx, hpx⟩ := RowIs.entry hrow hst hv
  exact Or.inl ⟨x, hpx, hb _ (List.getElem_mem hr) x (List.mem_of_getElem? hx)⟩

theorem cntReadsAgree_of_abs {st : Store} {h : CMSHandle} {c : CMS} (habs : absCMS st h = some c)
    (pos : List Nat) (hlen : pos.length ≤ h.rows)
    (hb : ∀ row ∈ c.m, ∀ x ∈ row, x ≤ numLimit) : CntReadsAgree h.key pos st :=
  updReadsAgree_of_abs habs pos 0 hlen hb

theorem cmsMergeStep_eq (key1 key2 : String) (cols r : Nat) (st : Store) :
    cmsMergeStep key1 key2 cols r st =
      (match lrangeO st (cmsRowKey key1 r) with
       | none => (st, none)
       | some l1 =>
         match lrangeO st (cmsRowKey key2 r) with
         | none => (st, none)
         | some l2 =>
           match addNumsFrom l1 l2 0 cols with
           | some nums => cmdRPUSH (cmsRowKey key1 r) (nums.map decimal) (st.del (cmsRowKey key1 r))
           | none => (st, none)) := by
  cases h1 : lrangeO st (cmsRowKey key1 r) with
  | none => simp only [cmsMergeStep, Script.bind, cmdLRANGE_eq, h1]
  | some l1 =>
    cases h2 : lrangeO st (cmsRowKey key2 r) with
    | none => simp only [cmsMergeStep, Script.bind, cmdLRANGE_eq, h1, h2]
    | some l2 =>
      simp only [cmsMergeStep, Script.bind, cmdLRANGE_eq, h1, h2, cmsAddVals_eq]
      cases addNumsFrom l1 l2 0 cols <;> rfl

/-- a round of `Merge` writes row `r` of the first sketch only. -/
theorem cmsMergeStep_other (key1 key2 : String) (cols r : Nat) (st : Store) (k : String)
    (hk : k ≠ cmsRowKey key1 r) : (cmsMergeStep key1 key2 cols r st).1 k = st k := by
  rw [cmsMergeStep_eq]
  cases h1 : lrangeO st (cmsRowKey key1 r) with
  | none => rfl
  | some l1 =>
    cases h2 : lrangeO st (cmsRowKey key2 r) with
    | none => rfl
    | some l2 =>
      cases h3 : addNumsFrom l1 l2 0 cols with
      | none => simp only [h3]
      | some nums =>
        have hdel : (st.del (cmsRowKey key1 r)) (cmsRowKey key1 r) = none := by simp only [Store.del, if_true]
        simp only [h3, cmdRPUSH, hdel]
        split
        · simp only [Store.del, hk, if_false]
        · simp only [Store.set, Store.del, hk, if_false]

theorem rowList_of_list {st : Store} {k : String} {l : List String} (h : st k = some (.list l)) :
    rowList st k = l := by
  unfold rowList; rw [h]

/-- the rows of two sketches that read as the matrices `m1`, `m2` with all sums `≤ 2^53`, the row keys of
    the two being different keys: the precondition of `Merge` holds along the run. -/
theorem mergeReadsAgree_of_rows (key1 key2 : String) (cols R : Nat)
    (hd : ∀ i j, i < R → j < R → cmsRowKey key1 i ≠ cmsRowKey key2 j) :
    ∀ (n r : Nat) (st : Store) (m1 m2 : List (List Nat)),
      r + n ≤ R → m1.length = n → m2.length = n →
      RowsAre st key1 cols r m1 → RowsAre st key2 cols r m2 →
      (∀ p ∈ List.zip m1 m2, ∀ q ∈ List.zip p.1 p.2, q.1 + q.2 ≤ numLimit) →
      MergeReadsAgree key1 key2 cols r n st := by
  intro n
  induction n with
  | zero => intro r st m1 m2 _ _ _ _ _ _; trivial
  | succ n ih =>
    intro r st m1 m2 hR h1 h2 hm1 hm2 hsum
    cases m1 with
    | nil => simp at h1
    | cons row1 m1 =>
      cases m2 with
      | nil => simp at h2
      | cons row2 m2 =>
        simp only [List.length_cons, Nat.add_right_cancel_iff] at h1 h2
        have hr1 := hm1.1
        have hr2 := hm2.1
        obtain ⟨l1, hl1, hll1, hlm1⟩ := hm1.1
        obtain ⟨l2, hl2, hll2, hlm2⟩ := hm2.1
        have hrowsum : ∀ q ∈ List.zip row1 row2, q.1 + q.2 ≤ numLimit :=
          hsum (row1, row2) (by simp)
        have hlen1 := hr1.length
        have hlen2 := hr2.length
        refine ⟨?_, ?_⟩
        · rw [rowList_of_list hl1, rowList_of_list hl2]
          intro k hk
          have hx : ∃ x, row1[k]? = some x := ⟨row1[k]'(by omega), List.getElem?_eq_getElem _⟩
          have hy : ∃ y, row2[k]? = some y := ⟨row2[k]'(by omega), List.getElem?_eq_getElem _⟩
          obtain ⟨x, hx⟩ := hx
          obtain ⟨y, hy⟩ := hy
          have hxy : x + y ≤ numLimit :=
            hrowsum (x, y) (List.mem_of_getElem? (by rw [List.getElem?_zip_eq_some]; exact ⟨hx, hy⟩))
          refine ⟨?_, ?_, ?_⟩
          · intro v hv
            obtain ⟨x', hx', hp⟩ := RowIs.entry hr1 hl1 hv
            rw [hx] at hx'; cases hx'
            exact Or.inl ⟨x, hp, by omega⟩
          · intro v hv
            obtain ⟨y', hy', hp⟩ := RowIs.entry hr2 hl2 hv
            rw [hy] at hy'; cases hy'
            exact Or.inl ⟨y, hp, by omega⟩
          · intro x' y' hx' hy'
            cases hv1 : l1[k]? with
            | none => rw [hv1] at hx'; exact absurd hx' (by simp)
            | some v1 =>
              cases hv2 : l2[k]? with
              | none => rw [hv2] at hy'; exact absurd hy' (by simp)
              | some v2 =>
                obtain ⟨x'', hx'', hp1⟩ := RowIs.entry hr1 hl1 hv1
                obtain ⟨y'', hy'', hp2⟩ := RowIs.entry hr2 hl2 hv2
                rw [hv1, Option.bind_some, hp1] at hx'
                rw [hv2, Option.bind_some, hp2] at hy'
                rw [hx] at hx''; rw [hy] at hy''
                cases hx''; cases hy''; cases hx'; cases hy'
                exact hxy
        · intro _
          have hs1 : ∀ k, k ≠ cmsRowKey key1 r → (cmsMergeStep key1 key2 cols r st).1 k = st k :=
            fun k hk => cmsMergeStep_other key1 key2 cols r st k hk
          refine ih (r + 1) _ m1 m2 (by omega) h1 h2 ?_ ?_ ?_
          · exact hm1.2.congr (fun j hj => hs1 _ (fun e => by have := cmsRowKey_inj e; omega))
          · exact hm2.2.congr' (fun j hj hj' => hs1 _ (fun e => hd r j (by omega) (by omega) e.symm))
          · intro p hp
            exact hsum p (by simp only [List.zip_cons_cons, List.mem_cons]; exact Or.inr hp)


section compare
open Gostatix.Equals

/-! ## `compareMatrix` (Equals) -/

theorem entry_eq_iff (n1 n2 : List Nat) (k : Nat) :
    (((n1.map decimal).map Value.str).getD k .nil = ((n2.map decimal).map Value.str).getD k .nil) ↔
      n1[k]? = n2[k]? := by
  rw [getD_map_str, getD_map_str, List.getElem?_map, List.getElem?_map]
  cases n1[k]? <;> cases n2[k]? <;> simp
  constructor
  · intro h; exact decimal_inj h
  · intro h; rw [h]

def cmpInner : List Stmt := [
    .ifThen (.binop .ne (.index (.var "vals1") (.var "j")) (.index (.var "vals2") (.var "j"))) [
      .ret [.litFalse]
    ] []
  ]

def cmpEnvIn (id : Nat) (rk1 rk2 : String) (i : Int) (key1 key2 : String) (rows cols : Nat) :
    List (String × Value) :=
  ("vals2", .table (id + 1)) :: ("rowKey2", .str rk2) :: ("vals1", .table id) ::
    ("rowKey1", .str rk1) :: ("i", .num i) :: mergeEnv key1 key2 rows cols

theorem forFrom_succ (body : Nat → Option Bool) (i n : Nat) :
    forFrom body i (n + 1) = (match body i with
      | none => none
      | some false => some false
      | some true => forFrom body (i + 1) n) := rfl

theorem cmp_inner (st : Store) (H : List Table) (rk1 rk2 : String) (i : Int) (key1 key2 : String)
    (rows cols : Nat) (lg : List String) (n1 n2 : List Nat)
    (hn : cols + 1 < maxArrayIndex) (F : Nat) (hF : cols + 12 ≤ F) :
    match numForLoop F "j" 1 (cols : Int) 1 cmpInner
        ⟨st, H ++ [{ arr := (n1.map decimal).map .str }, { arr := (n2.map decimal).map .str }],
          cmpEnvIn H.length rk1 rk2 i key1 key2 rows cols, lg⟩ with
    | .ok none s' => s' = ⟨st, H ++ [{ arr := (n1.map decimal).map .str }, { arr := (n2.map decimal).map .str }],
          cmpEnvIn H.length rk1 rk2 i key1 key2 rows cols, lg⟩ ∧ forN cols (luaIdxEq n1 n2) = some true
    | .ok (some [.bool false]) s' => s'.store = st ∧ forN cols (luaIdxEq n1 n2) = some false
    | _ => False := by
  refine numForLoop_spec0 (x := "j") (body := cmpInner) (step := 1) (i0 := 1) (limit := (cols : Int)) (by decide)
    10 cols
    (fun k s => s = ⟨st, H ++ [{ arr := (n1.map decimal).map .str }, { arr := (n2.map decimal).map .str }],
          cmpEnvIn H.length rk1 rk2 i key1 key2 rows cols, lg⟩ ∧
      forN cols (luaIdxEq n1 n2) = forFrom (luaIdxEq n1 n2) k (cols - k))
    (fun r => match r with
      | .ok none s' => s' = ⟨st, H ++ [{ arr := (n1.map decimal).map .str }, { arr := (n2.map decimal).map .str }],
          cmpEnvIn H.length rk1 rk2 i key1 key2 rows cols, lg⟩ ∧ forN cols (luaIdxEq n1 n2) = some true
      | .ok (some [.bool false]) s' => s'.store = st ∧ forN cols (luaIdxEq n1 n2) = some false
      | _ => False)
    (by intro j hj; omega) (by omega) ?_ ?_ F _ (by omega) ⟨rfl, rfl⟩
  · intro k hk s f hP
    obtain ⟨rfl, hM⟩ := hP
    have e : (1 + (k : Int) * 1) = ((k + 1 : Nat) : Int) := by omega
    have hk1 : k + 1 < maxArrayIndex := by omega
    rw [show cols - k = cols - (k + 1) + 1 by omega, forFrom_succ] at hM
    rw [e]
    luab_simp [cmpInner, cmpEnvIn, mergeEnv, getD_append_length, getD_append_length1,
      Table.get_num _ _ (Nat.le_add_left 1 k) hk1, entry_eq_iff]
    by_cases heq : n1[k]? = n2[k]?
    · simp only [luaIdxEq, heq, decide_true] at hM
      luab_simp [heq]
      exact ⟨trivial, hM⟩
    · simp only [luaIdxEq, heq, decide_false] at hM
      luab_simp [heq]
      exact ⟨trivial, hM⟩
  · intro s hP
    obtain ⟨rfl, hM⟩ := hP
    rw [Nat.sub_self] at hM
    exact ⟨rfl, hM⟩

def cmpBody : List Stmt := [
    .localDecl ["rowKey1"] [.binop .concat (.var "key1") (.call (.global "tostring") [.binop .sub (.var "i") (.num 1)])],
    .localDecl ["vals1"] [.call (.field "redis" "pcall") [.str "LRANGE", .var "rowKey1", .num 0, .unop .neg (.num 1)]],
    .localDecl ["rowKey2"] [.binop .concat (.var "key2") (.call (.global "tostring") [.binop .sub (.var "i") (.num 1)])],
    .localDecl ["vals2"] [.call (.field "redis" "pcall") [.str "LRANGE", .var "rowKey2", .num 0, .unop .neg (.num 1)]],
    .numFor "j" (.num 1) (.call (.global "tonumber") [.var "columns"]) none cmpInner
  ]

theorem cmp_body (key1 key2 : String) (rows cols : Nat) (H : List Table) (lg : List String) (r : Nat)
    (st : Store) (n1 n2 : List Nat) (hcols : cols + 1 < maxArrayIndex) (hr : r < numLimit)
    (h1 : lrangeO st (cmsRowKey key1 r) = some (n1.map decimal))
    (h2 : lrangeO st (cmsRowKey key2 r) = some (n2.map decimal)) (f : Nat) :
    match inScope (do declare "i" (.num (1 + (r : Int) * 1)); execBlock (f + (cols + 40)) cmpBody)
        ⟨st, H, mergeEnv key1 key2 rows cols, lg⟩ with
    | .ok none s' => (∃ H' lg', s' = ⟨st, H', mergeEnv key1 key2 rows cols, lg'⟩) ∧
        forN cols (luaIdxEq n1 n2) = some true
    | .ok (some [.bool false]) s' => s'.store = st ∧ forN cols (luaIdxEq n1 n2) = some false
    | _ => False := by
  have e0 : f + (cols + 40) = f + cols + 40 := by omega
  have e1 : (1 + (r : Int) * 1) = ((r + 1 : Nat) : Int) := by omega
  have e2 : ((r + 1 : Nat) : Int) - 1 = (r : Int) := by omega
  have hrl : (r : Int).natAbs ≤ numLimit := by omega
  rw [e0, e1]
  luab_simp [cmpBody, mergeEnv, e2, checkNum_ok hrl]
  rw [redisCall_key false "LRANGE" _ _ ["0", "-1"] _ rfl, show key1 ++ renderInt (r : Int) = cmsRowKey key1 r from rfl]
  simp only [redisCommand_LRANGE_O, h1]
  luab_simp [e2, checkNum_ok hrl]
  rw [redisCall_key false "LRANGE" _ _ ["0", "-1"] _ rfl, show key2 ++ renderInt (r : Int) = cmsRowKey key2 r from rfl]
  simp only [redisCommand_LRANGE_O, h2]
  luab_simp []
  have hn1 : ∀ (a b : Table), H ++ [a] ++ [b] = H ++ [a, b] := by intros; simp
  have hn3 : ∀ (a : Table), (H ++ [a]).length = H.length + 1 := by intros; simp
  rw [hn1, hn3]
  have hin := cmp_inner st H (cmsRowKey key1 r) (cmsRowKey key2 r) ((r + 1 : Nat) : Int) key1 key2 rows cols
    (cmsRowKey key2 r :: cmsRowKey key1 r :: lg) n1 n2 hcols (f + cols + 34) (by omega)
  simp only [cmpEnvIn, mergeEnv] at hin
  generalize numForLoop (f + cols + 34) "j" 1 (cols : Int) 1 cmpInner _ = res at hin ⊢
  split at hin
  · obtain ⟨rfl, hf⟩ := hin
    luab_simp []
    exact ⟨⟨_, _, rfl⟩, hf⟩
  · luab_simp []
    exact hin
  · exact hin.elim

theorem cmp_loop (key1 key2 : String) (rows cols : Nat) (H : List Table) (lg : List String) (st : Store)
    (m1 m2 : List (List Nat)) (hcols : cols + 1 < maxArrayIndex) (hrows : rows ≤ numLimit)
    (h1 : ∀ i, i < rows → lrangeO st (cmsRowKey key1 i) = some ((m1[i]?.getD []).map decimal))
    (h2 : ∀ i, i < rows → lrangeO st (cmsRowKey key2 i) = some ((m2[i]?.getD []).map decimal))
    (F : Nat) (hF : rows + (cols + 40) + 1 ≤ F) :
    match numForLoop F "i" 1 (rows : Int) 1 cmpBody ⟨st, H, mergeEnv key1 key2 rows cols, lg⟩ with
    | .ok none s' => s'.store = st ∧
        forN rows (fun i => forN cols (luaIdxEq (m1[i]?.getD []) (m2[i]?.getD []))) = some true
    | .ok (some [.bool false]) s' => s'.store = st ∧
        forN rows (fun i => forN cols (luaIdxEq (m1[i]?.getD []) (m2[i]?.getD []))) = some false
    | _ => False := by
  refine numForLoop_spec0 (x := "i") (body := cmpBody) (step := 1) (i0 := 1) (limit := (rows : Int)) (by decide)
    (cols + 40) rows
    (fun j s => (∃ H' lg', s = ⟨st, H', mergeEnv key1 key2 rows cols, lg'⟩) ∧
      forN rows (fun i => forN cols (luaIdxEq (m1[i]?.getD []) (m2[i]?.getD []))) =
        forFrom (fun i => forN cols (luaIdxEq (m1[i]?.getD []) (m2[i]?.getD []))) j (rows - j))
    (fun r => match r with
      | .ok none s' => s'.store = st ∧
          forN rows (fun i => forN cols (luaIdxEq (m1[i]?.getD []) (m2[i]?.getD []))) = some true
      | .ok (some [.bool false]) s' => s'.store = st ∧
          forN rows (fun i => forN cols (luaIdxEq (m1[i]?.getD []) (m2[i]?.getD []))) = some false
      | _ => False)
    (by intro j hj; omega) (by omega) ?_ ?_ F _ hF ⟨⟨H, lg, rfl⟩, rfl⟩
  · intro j hj s f hP
    obtain ⟨⟨H', lg', rfl⟩, hM⟩ := hP
    rw [show rows - j = rows - (j + 1) + 1 by omega, forFrom_succ] at hM
    have hb := cmp_body key1 key2 rows cols H' lg' j st _ _ hcols (by omega) (h1 j hj) (h2 j hj) f
    generalize inScope (do declare "i" (.num (1 + (j : Int) * 1)); execBlock (f + (cols + 40)) cmpBody) _ = r at hb ⊢
    split at hb
    · obtain ⟨hs, hf⟩ := hb
      rw [hf] at hM
      exact ⟨hs, hM⟩
    · obtain ⟨hs, hf⟩ := hb
      rw [hf] at hM
      exact ⟨hs, hM⟩
    · exact hb.elim
  · intro s hP
    obtain ⟨⟨H', lg', rfl⟩, hM⟩ := hP
    rw [Nat.sub_self] at hM
    exact ⟨rfl, hM⟩

theorem run_of_exec_false {fuel : Nat} {script : Block} {keys args : List String} {st : Store} {s : State}
    (h : execBlock fuel script (initState keys args st) = .ok (some [.bool false]) s) :
    run fuel script keys args st = (s.store, .reply .nil) := by
  simp only [run, runLog, h]; rfl

theorem cmpScript_eq : count_min_sketch_redis_compareMatrixScript = [
    .localDecl ["key1"] [.index (.var "KEYS") (.num 1)],
    .localDecl ["key2"] [.index (.var "KEYS") (.num 2)],
    .localDecl ["rows"] [.call (.global "tonumber") [.index (.var "ARGV") (.num 1)]],
    .localDecl ["columns"] [.call (.global "tonumber") [.index (.var "ARGV") (.num 2)]],
    .numFor "i" (.num 1) (.call (.global "tonumber") [.var "rows"]) none cmpBody,
    .ret [.litTrue]] := rfl

theorem cmp_exec (key1 key2 : String) (rows cols : Nat) (st : Store) (m1 m2 : List (List Nat)) (fuel : Nat)
    (hfuel : rows + cols + 60 ≤ fuel) (hcols : cols + 1 < maxArrayIndex) (hrows : rows ≤ numLimit)
    (h1 : ∀ i, i < rows → lrangeO st (cmsRowKey key1 i) = some ((m1[i]?.getD []).map decimal))
    (h2 : ∀ i, i < rows → lrangeO st (cmsRowKey key2 i) = some ((m2[i]?.getD []).map decimal)) :
    match execBlock fuel count_min_sketch_redis_compareMatrixScript
        (initState [key1, key2] [decimal rows, decimal cols] st) with
    | .ok (some [.bool true]) s' => s'.store = st ∧
        forN rows (fun i => forN cols (luaIdxEq (m1[i]?.getD []) (m2[i]?.getD []))) = some true
    | .ok (some [.bool false]) s' => s'.store = st ∧
        forN rows (fun i => forN cols (luaIdxEq (m1[i]?.getD []) (m2[i]?.getD []))) = some false
    | _ => False := by
  obtain ⟨F, rfl⟩ : ∃ F, fuel = F + 14 := ⟨fuel - 14, by omega⟩
  have hcl : cols ≤ numLimit := by unfold maxArrayIndex at hcols; unfold numLimit; omega
  rw [cmpScript_eq]
  luab_simp [initState, luaToNumber_decimal hrows, luaToNumber_decimal hcl]
  have hl := cmp_loop key1 key2 rows cols
    [{ arr := [.str key1, .str key2] }, { arr := [.str (decimal rows), .str (decimal cols)] }]
    [] st m1 m2 hcols hrows h1 h2 (F + 8) (by omega)
  simp only [mergeEnv] at hl
  generalize numForLoop (F + 8) "i" 1 _ 1 cmpBody _ = r at hl ⊢
  split at hl
  · luab_simp []; exact hl
  · luab_simp []; exact hl
  · exact hl.elim

/-- the extracted `compareMatrix` script on a store whose rows are canonical decimal lists (or absent). -/
theorem cmp_run (key1 key2 : String) (rows cols : Nat) (st : Store) (m1 m2 : List (List Nat)) (fuel : Nat)
    (hfuel : rows + cols + 60 ≤ fuel) (hcols : cols + 1 < maxArrayIndex) (hrows : rows ≤ numLimit)
    (h1 : ∀ i, i < rows → lrangeO st (cmsRowKey key1 i) = some ((m1[i]?.getD []).map decimal))
    (h2 : ∀ i, i < rows → lrangeO st (cmsRowKey key2 i) = some ((m2[i]?.getD []).map decimal)) :
    run fuel count_min_sketch_redis_compareMatrixScript [key1, key2] [decimal rows, decimal cols] st =
      (st, match forN rows (fun i => forN cols (luaIdxEq (m1[i]?.getD []) (m2[i]?.getD []))) with
        | some true => .reply (.int 1)
        | _ => .reply .nil) := by
  have h := cmp_exec key1 key2 rows cols st m1 m2 fuel hfuel hcols hrows h1 h2
  split at h
  · rename_i s' he
    rw [run_of_exec_true he, h.1, h.2]
  · rename_i s' he
    rw [run_of_exec_false he, h.1, h.2]
  · exact h.elim


end compare

/-! ## `setMatrix` -/

def setInner : List Stmt := [
    .assign (.index (.var "row") (.var "j")) (.index (.var "ARGV") (.var "index")),
    .assign (.var "index") (.binop .add (.var "index") (.num 1))
  ]

def setEnv (key : String) (cols idx iters : Nat) : List (String × Value) :=
  [("rows", .num iters), ("index", .num idx), ("columns", .num cols), ("key", .str key)]

def setEnvIn (id : Nat) (rk : String) (i : Int) (key : String) (cols idx iters : Nat) : List (String × Value) :=
  ("rowKey", .str rk) :: ("row", .table id) :: ("i", .num i) :: setEnv key cols idx iters

@[reducible] def strTable (l : List String) : Table := { arr := l.map .str }

/-- `for j=1, columns do row[j] = ARGV[index]; index = index + 1 end`: the next `columns` arguments. -/
theorem set_inner (st : Store) (KT : Table) (args : List String) (rest : List Table) (rk : String) (i : Int)
    (key : String) (cols idx iters : Nat) (lg : List String)
    (hidx : 1 ≤ idx) (hin : idx - 1 + cols ≤ args.length) (hn : idx + cols < maxArrayIndex)
    (F : Nat) (hF : cols + 12 ≤ F) :
    numForLoop F "j" 1 (cols : Int) 1 setInner
        ⟨st, KT :: strTable args :: (rest ++ [{ arr := [] }]),
          setEnvIn (rest.length + 2) rk i key cols idx iters, lg⟩ =
      .ok none ⟨st, KT :: strTable args :: (rest ++ [strTable ((args.drop (idx - 1)).take cols)]),
          setEnvIn (rest.length + 2) rk i key cols (idx + cols) iters, lg⟩ := by
  refine numForLoop_spec0 (x := "j") (body := setInner) (step := 1) (i0 := 1) (limit := (cols : Int)) (by decide)
    10 cols
    (fun k s => s = ⟨st, KT :: strTable args :: (rest ++ [strTable ((args.drop (idx - 1)).take k)]),
          setEnvIn (rest.length + 2) rk i key cols (idx + k) iters, lg⟩)
    (fun r => r = .ok none ⟨st, KT :: strTable args :: (rest ++ [strTable ((args.drop (idx - 1)).take cols)]),
          setEnvIn (rest.length + 2) rk i key cols (idx + cols) iters, lg⟩)
    (by intro j hj; omega) (by omega) ?_ ?_ F _ (by omega) (by simp [strTable])
  · intro k hk s f hP
    subst hP
    have hlenk : ((args.drop (idx - 1)).take k).length = k := by
      rw [List.length_take, List.length_drop]; omega
    have e : (1 + (k : Int) * 1) = (((((args.drop (idx - 1)).take k).map Value.str).length + 1 : Nat) : Int) := by
      rw [List.length_map, hlenk]; omega
    have hget : (strTable args).get (.num ((idx + k : Nat) : Int)) = .str (args[idx - 1 + k]'(by omega)) := by
      rw [Table.get_num _ _ (by omega) (by omega)]
      simp only [List.getD_eq_getElem?_getD, List.getElem?_map]
      rw [show idx + k - 1 = idx - 1 + k by omega, List.getElem?_eq_getElem (by omega)]
      rfl
    have hsum : ((idx + (k + 1) : Nat) : Int).natAbs ≤ numLimit := by
      unfold maxArrayIndex at hn; unfold numLimit; omega
    have esum : ((idx + k : Nat) : Int) + 1 = ((idx + (k + 1) : Nat) : Int) := by omega
    rw [e]
    luab_simp [setInner, setEnvIn, setEnv, setIndex_table, getD_append_length, set_append_length, hget,
      checkNum_ok hsum, esum, List.set_cons_succ]
    rw [strTable, Table.set_push _ _ _ (by rw [List.length_map, hlenk]; omega)]
    have htake : (args.drop (idx - 1)).take (k + 1) = (args.drop (idx - 1)).take k ++ [args[idx - 1 + k]'(by omega)] := by
      rw [List.take_add_one, List.getElem?_drop, List.getElem?_eq_getElem (by omega)]
      rfl
    simp only [strTable, htake, List.map_append, List.map_cons, List.map_nil]
  · intro s hP; rw [hP]

def setBody : List Stmt := [
    .localDecl ["row"] [.table []],
    .localDecl ["rowKey"] [.binop .concat (.var "key") (.call (.global "tostring") [.binop .sub (.var "i") (.num 1)])],
    .numFor "j" (.num 1) (.var "columns") none setInner,
    .callStmt (.field "redis" "call") [.str "DEL", .var "rowKey"],
    .callStmt (.field "redis" "call") [.str "RPUSH", .var "rowKey", .call (.global "unpack") [.var "row"]]
  ]

theorem set_body (key : String) (cols iters : Nat) (KT : Table) (args : List String) (rest : List Table)
    (lg : List String) (r : Nat) (st : Store) (hcols : 1 ≤ cols) (hcols' : cols ≤ unpackSafe) (hr : r < numLimit)
    (idx : Nat) (hidx : 1 ≤ idx) (hin : idx - 1 + cols ≤ args.length) (hn : idx + cols < maxArrayIndex) (f : Nat) :
    ∃ rest' lg', inScope (do declare "i" (.num (1 + (r : Int) * 1)); execBlock (f + (cols + 40)) setBody)
        ⟨st, KT :: strTable args :: rest, setEnv key cols idx iters, lg⟩ =
      .ok none ⟨(st.del (cmsRowKey key r)).set (cmsRowKey key r) (.list ((args.drop (idx - 1)).take cols)),
        KT :: strTable args :: rest', setEnv key cols (idx + cols) iters, lg'⟩ := by
  have e0 : f + (cols + 40) = f + cols + 40 := by omega
  have e1 : (1 + (r : Int) * 1) = ((r + 1 : Nat) : Int) := by omega
  have e2 : ((r + 1 : Nat) : Int) - 1 = (r : Int) := by omega
  have hrl : (r : Int).natAbs ≤ numLimit := by omega
  rw [e0, e1]
  luab_simp [setBody, setEnv, e2, checkNum_ok hrl, List.cons_append]
  have hin' := set_inner st KT args rest (key ++ renderInt (r : Int)) ((r + 1 : Nat) : Int) key cols idx iters lg
    hidx hin hn (f + cols + 36) (by omega)
  simp only [setEnvIn, setEnv] at hin'
  rw [show rest.length + 1 + 1 = rest.length + 2 from rfl, hin']
  luab_simp []
  rw [redisCall_key true "DEL" _ [] [] _ rfl]
  luab_simp [redisCommand_DEL]
  have hrowlen : ((args.drop (idx - 1)).take cols).length = cols := by
    rw [List.length_take, List.length_drop]; omega
  have hlen' : (strTable ((args.drop (idx - 1)).take cols)).len = cols := by
    rw [Table.len_of_no_nil, List.length_map, hrowlen]
    intro v hv
    obtain ⟨n, _, rfl⟩ := List.mem_map.mp hv
    exact fun h => nomatch h
  have hun : (List.range cols).map (fun i => (strTable ((args.drop (idx - 1)).take cols)).arr.getD i .nil) =
      ((args.drop (idx - 1)).take cols).map Value.str := by
    have := unpack_eq (((args.drop (idx - 1)).take cols).map Value.str)
    rw [List.length_map, hrowlen] at this
    exact this
  rw [callFn_unpack _ _ rfl]
  simp only [List.getD_cons_succ, getD_append_length, hlen', hcols', if_true, hun]
  luab_simp []
  rw [redisCall_key true "RPUSH" _ _ _ _ (cmdArgs_map_str _), show key ++ renderInt (r : Int) = cmsRowKey key r from rfl]
  have hdel : (st.del (cmsRowKey key r)) (cmsRowKey key r) = none := by simp only [Store.del, if_true]
  cases hrow : (args.drop (idx - 1)).take cols with
  | nil => rw [hrow] at hrowlen; simp at hrowlen; omega
  | cons v vs =>
    simp only [redisCommand_RPUSH, hdel]
    luab_simp []
    exact ⟨_, _, rfl⟩

/-- what `setMatrix` leaves: rows `r … r + n - 1` are replaced by the successive groups of `cols` arguments
    (`args` is ARGV, its first entry being the column count). -/
def setRowsLoop (key : String) (cols : Nat) (args : List String) : Nat → Nat → Store → Store
  | _, 0, st => st
  | r, n + 1, st =>
    setRowsLoop key cols args (r + 1) n
      ((st.del (cmsRowKey key r)).set (cmsRowKey key r) (.list ((args.drop (1 + r * cols)).take cols)))

theorem set_loop (key : String) (cols iters : Nat) (KT : Table) (args : List String) (rest : List Table)
    (lg : List String) (st0 : Store) (hcols : 1 ≤ cols) (hcols' : cols ≤ unpackSafe) (hiters : iters ≤ numLimit)
    (hin : 1 + iters * cols ≤ args.length) (hn : 2 + iters * cols < maxArrayIndex)
    (F : Nat) (hF : iters + (cols + 40) + 1 ≤ F) :
    ∃ s', numForLoop F "i" 1 (iters : Int) 1 setBody
        ⟨st0, KT :: strTable args :: rest, setEnv key cols 2 iters, lg⟩ = .ok none s' ∧
      s'.store = setRowsLoop key cols args 0 iters st0 := by
  refine numForLoop_spec0 (x := "i") (body := setBody) (step := 1) (i0 := 1) (limit := (iters : Int)) (by decide)
    (cols + 40) iters
    (fun j s => ∃ st rest' lg', s = ⟨st, KT :: strTable args :: rest', setEnv key cols (2 + j * cols) iters, lg'⟩ ∧
      setRowsLoop key cols args 0 iters st0 = setRowsLoop key cols args j (iters - j) st)
    (fun r => ∃ s', r = .ok none s' ∧ s'.store = setRowsLoop key cols args 0 iters st0)
    (by intro j hj; omega) (by omega) ?_ ?_ F _ hF ⟨st0, rest, lg, by simp, rfl⟩
  · intro j hj s f hP
    obtain ⟨st, rest', lg', rfl, hM⟩ := hP
    have hmul : (j + 1) * cols ≤ iters * cols := Nat.mul_le_mul_right _ hj
    have hexp : (j + 1) * cols = j * cols + cols := by rw [Nat.add_mul, Nat.one_mul]
    obtain ⟨rest'', lg'', hb⟩ := set_body key cols iters KT args rest' lg' j st hcols hcols' (by omega)
      (2 + j * cols) (by omega) (by omega) (by omega) f
    rw [show 2 + j * cols + cols = 2 + (j + 1) * cols by omega,
      show 2 + j * cols - 1 = 1 + j * cols by omega] at hb
    rw [hb]
    refine ⟨_, _, _, rfl, ?_⟩
    rw [hM, show iters - j = iters - (j + 1) + 1 by omega, setRowsLoop]
  · intro s hP
    obtain ⟨st, rest', lg', rfl, hM⟩ := hP
    rw [Nat.sub_self] at hM
    exact ⟨_, rfl, hM.symm⟩

theorem setScript_eq : count_min_sketch_redis_setMatrixScript = [
    .localDecl ["key"] [.index (.var "KEYS") (.num 1)],
    .localDecl ["columns"] [.call (.global "tonumber") [.index (.var "ARGV") (.num 1)]],
    .localDecl ["index"] [.num 2],
    .localDecl ["rows"] [.binop .div (.binop .sub (.unop .len (.var "ARGV")) (.num 1)) (.var "columns")],
    .numFor "i" (.num 1) (.var "rows") none setBody,
    .ret [.litTrue]] := rfl

/-- the extracted `setMatrix` script with ARGV = `columns, cell, cell, …` (`cells` any strings): when the
    number of cells is `iters * columns` it rewrites rows `0 … iters - 1`. -/
theorem set_run (key : String) (cols iters : Nat) (cells : List String) (st : Store) (fuel : Nat)
    (hfuel : iters + cols + 60 ≤ fuel) (hcols : 1 ≤ cols) (hcols' : cols ≤ unpackSafe)
    (hcells : cells.length = iters * cols) (hn : 2 + cells.length < maxArrayIndex) :
    run fuel count_min_sketch_redis_setMatrixScript [key] (decimal cols :: cells) st =
      (setRowsLoop key cols (decimal cols :: cells) 0 iters st, .reply (.int 1)) := by
  obtain ⟨F, rfl⟩ : ∃ F, fuel = F + 14 := ⟨fuel - 14, by omega⟩
  have hcl : cols ≤ numLimit := by unfold unpackSafe at hcols'; unfold numLimit; omega
  have hlen : ({ arr := Value.str (decimal cols) :: cells.map Value.str } : Table).len = cells.length + 1 := by
    rw [Table.len_of_no_nil]
    · simp
    · intro v hv
      rw [← List.map_cons] at hv
      obtain ⟨n, _, rfl⟩ := List.mem_map.mp hv
      exact fun h => nomatch h
  have hle : iters ≤ cells.length := by rw [hcells]; exact Nat.le_mul_of_pos_right _ hcols
  have hsub : ((iters * cols : Nat) : Int).natAbs ≤ numLimit := by
    unfold maxArrayIndex at hn; unfold numLimit; omega
  have hsub' : ((cells.length + 1 : Nat) : Int) - 1 = ((iters * cols : Nat) : Int) := by rw [hcells]; omega
  have hc0 : (cols : Int) ≠ 0 := by omega
  have hmod : ((iters * cols : Nat) : Int) % (cols : Int) = 0 := by
    rw [Int.natCast_mul]; exact Int.mul_emod_left _ _
  have hdiv : ((iters * cols : Nat) : Int) / (cols : Int) = (iters : Int) := by
    rw [Int.natCast_mul]; exact Int.mul_ediv_cancel _ hc0
  have hit : (iters : Int).natAbs ≤ numLimit := by unfold maxArrayIndex at hn; unfold numLimit; omega
  have hex : ∃ s', execBlock (F + 14) count_min_sketch_redis_setMatrixScript
      (initState [key] (decimal cols :: cells) st) = .ok (some [.bool true]) s' ∧
      s'.store = setRowsLoop key cols (decimal cols :: cells) 0 iters st := by
    rw [setScript_eq]
    luab_simp [initState, luaToNumber_decimal hcl, unop_len_table, hlen, checkNum_ok hsub, hsub',
      binop_div_exact hc0 hmod, hdiv, checkNum_ok hit]
    obtain ⟨s', hl, hs⟩ := set_loop key cols iters { arr := [.str key] } (decimal cols :: cells) [] [] st hcols hcols'
      (by unfold maxArrayIndex at hn; unfold numLimit; omega)
      (by simp only [List.length_cons]; omega) (by omega) (F + 8) (by omega)
    simp only [setEnv, strTable, List.map_cons, show ((2 : Nat) : Int) = 2 from rfl] at hl
    rw [hl]
    luab_simp []
    exact ⟨_, rfl, hs⟩
  obtain ⟨s', he, hs⟩ := hex
  rw [run_of_exec_true he, hs]


/-! ### `setMatrix` against the model of Model/Json.lean -/

/-- a value of the typed store of Model/Json.lean and the Redis value it stands for. -/
def RelVal : Json.Val → Option Redis.Val → Prop
  | .absent, none => True
  | .nums l, some (.list l') => l' = l.map decimal
  | _, _ => False

/-- the rows of sketch `id` in the store of Model/Json.lean are the rows under `key` in the Redis store. -/
def CmsRel (key : String) (id : Nat) (js : Json.Store) (st : Redis.Store) : Prop :=
  ∀ r, RelVal (js (.cmsRow id r)) (st (cmsRowKey key r))

theorem set_rel_step (key : String) (id : Nat) (js : Json.Store) (st : Redis.Store) (i : Nat) (row : List Nat)
    (h : CmsRel key id js st) :
    CmsRel key id ((js.del (.cmsRow id i)).rpushNums (.cmsRow id i) row)
      ((st.del (cmsRowKey key i)).set (cmsRowKey key i) (.list (row.map decimal))) := by
  intro r
  by_cases hr : r = i
  · subst hr
    simp only [Json.Store.rpushNums, Json.Store.set, Json.Store.del, Json.Store.getNums, if_true, Json.Val.toNums,
      List.nil_append, Redis.Store.set, RelVal]
  · have h1 : (Json.Key.cmsRow id r) ≠ (Json.Key.cmsRow id i) := by
      intro e; injection e with _ e; exact hr e
    have h2 : cmsRowKey key r ≠ cmsRowKey key i := fun e => hr (cmsRowKey_inj e)
    simp only [Json.Store.rpushNums, Json.Store.set, Json.Store.del, h1, if_false, Redis.Store.set, Redis.Store.del, h2]
    exact h r

theorem set_rel_loop (key : String) (id cols : Nat) (flat : List Nat) (hcols : 1 ≤ cols) :
    ∀ (n r : Nat) (js : Json.Store) (st : Redis.Store), CmsRel key id js st → (r + n) * cols ≤ flat.length →
      ∃ js', (List.range' r n).foldl (Json.CMSRedis.setMatrixStep id cols flat) (js, true) = (js', true) ∧
        CmsRel key id js' (setRowsLoop key cols (decimal cols :: flat.map decimal) r n st) := by
  intro n
  induction n with
  | zero => intro r js st h _; exact ⟨js, rfl, h⟩
  | succ n ih =>
    intro r js st h hlen
    have hmul : (r + 1) * cols ≤ (r + (n + 1)) * cols := Nat.mul_le_mul_right _ (by omega)
    have hexp : (r + 1) * cols = r * cols + cols := by rw [Nat.add_mul, Nat.one_mul]
    have hrow : ((flat.drop (r * cols)).take cols) ≠ [] := by
      intro e
      have := congrArg List.length e
      rw [List.length_take, List.length_drop, List.length_nil] at this
      omega
    have hargs : ((decimal cols :: flat.map decimal).drop (1 + r * cols)).take cols =
        ((flat.drop (r * cols)).take cols).map decimal := by
      rw [Nat.add_comm 1, List.drop_succ_cons, List.map_take, List.map_drop]
    rw [List.range'_succ, List.foldl_cons, setRowsLoop, hargs]
    have hstep : Json.CMSRedis.setMatrixStep id cols flat (js, true) r =
        ((js.del (.cmsRow id r)).rpushNums (.cmsRow id r) ((flat.drop (r * cols)).take cols), true) := by
      simp only [Json.CMSRedis.setMatrixStep, if_true, hrow, if_false]
    rw [hstep]
    exact ih (r + 1) _ _ (set_rel_step key id js st r _ h) (by rw [show r + 1 + n = r + (n + 1) by omega]; exact hlen)

/-- `setMatrix(matrix)` of Model/Json.lean and the extracted script, on related stores: for a matrix whose
    first row has `cols ≥ 1` entries and whose `iters * cols` cells fill whole rows, both succeed and leave
    related stores. -/
theorem set_json (js : Json.Store) (st : Redis.Store) (key : String) (id : Nat) (row0 : List Nat)
    (rest : List (List Nat)) (iters : Nat) (fuel : Nat)
    (hrel : CmsRel key id js st)
    (hfuel : iters + row0.length + 60 ≤ fuel) (hcols : 1 ≤ row0.length) (hcols' : row0.length ≤ unpackSafe)
    (hcells : (row0 :: rest).flatten.length = iters * row0.length)
    (hn : 2 + (row0 :: rest).flatten.length < maxArrayIndex) :
    ∃ js' st', Json.CMSRedis.setMatrix js id (row0 :: rest) = some (js', true) ∧
      run fuel count_min_sketch_redis_setMatrixScript [key]
        (decimal row0.length :: (row0 :: rest).flatten.map decimal) st = (st', .reply (.int 1)) ∧
      CmsRel key id js' st' := by
  have hrun := set_run key row0.length iters ((row0 :: rest).flatten.map decimal) st fuel hfuel hcols hcols'
    (by rw [List.length_map]; exact hcells) (by rw [List.length_map]; exact hn)
  have hit : Json.CMSRedis.setMatrixIters row0.length (row0 :: rest).flatten.length = iters := by
    unfold Json.CMSRedis.setMatrixIters
    rw [if_neg (by omega), hcells, Nat.mul_div_cancel _ (by omega)]
  obtain ⟨js', hfold, hrel'⟩ := set_rel_loop key id row0.length (row0 :: rest).flatten hcols iters 0 js st hrel
    (by rw [Nat.zero_add, hcells]; exact Nat.le_refl _)
  refine ⟨js', _, ?_, hrun, hrel'⟩
  show some (Json.forN (Json.CMSRedis.setMatrixIters row0.length (row0 :: rest).flatten.length)
    (Json.CMSRedis.setMatrixStep id row0.length (row0 :: rest).flatten) (js, true)) = _
  rw [hit, Json.forN, List.range_eq_range', hfold]


/-! ## `getMatrix` (Export) -/

def fetchInner : List Stmt := [
    .assign (.index (.index (.var "matrix") (.var "i")) (.var "j")) (.var "v")
  ]

def fetchEnv (key sz : String) : List (String × Value) :=
  [("matrix", .table 2), ("size", .str sz), ("key", .str key)]

def fetchEnvIn (vid : Nat) (rk : String) (i : Int) (key sz : String) : List (String × Value) :=
  ("values", .table vid) :: ("rowKey", .str rk) :: ("i", .num i) :: fetchEnv key sz

/-- `for j, v in ipairs(values) do matrix[i][j] = v end` copies the row. -/
theorem fetch_inner (st : Store) (KT AT : Table) (marr : List Value) (pre : List Table) (rk : String)
    (key sz : String) (lg : List String) (row : List String)
    (hm : marr.length + 1 < maxArrayIndex) (hn : row.length + 1 < maxArrayIndex)
    (F : Nat) (hF : row.length + 12 ≤ F) :
    ipairsLoop F ["j", "v"] (pre.length + 4) 1 fetchInner
        ⟨st, KT :: AT :: ⟨marr ++ [.table (pre.length + 3)], []⟩ :: (pre ++ [strTable [], strTable row]),
          fetchEnvIn (pre.length + 4) rk ((marr.length + 1 : Nat) : Int) key sz, lg⟩ =
      .ok none ⟨st, KT :: AT :: ⟨marr ++ [.table (pre.length + 3)], []⟩ :: (pre ++ [strTable row, strTable row]),
          fetchEnvIn (pre.length + 4) rk ((marr.length + 1 : Nat) : Int) key sz, lg⟩ := by
  refine ipairsLoop_spec0 (names := ["j", "v"]) (body := fetchInner) (id := pre.length + 4) 10 row.length
    (fun j => (row.map Value.str).getD j .nil)
    (fun k s => s = ⟨st, KT :: AT :: ⟨marr ++ [.table (pre.length + 3)], []⟩ ::
          (pre ++ [strTable (row.take k), strTable row]),
          fetchEnvIn (pre.length + 4) rk ((marr.length + 1 : Nat) : Int) key sz, lg⟩)
    (fun r => r = .ok none ⟨st, KT :: AT :: ⟨marr ++ [.table (pre.length + 3)], []⟩ ::
          (pre ++ [strTable row, strTable row]),
          fetchEnvIn (pre.length + 4) rk ((marr.length + 1 : Nat) : Int) key sz, lg⟩)
    ?_ ?_ ?_ ?_ ?_ F _ (by omega) rfl
  · intro j hj s hP
    subst hP
    simp only [List.getD_cons_succ, getD_append_length1]
    rw [Table.get_num _ _ (by omega) (by omega)]
    rfl
  · intro j hj
    rw [getD_map_str, List.getElem?_eq_getElem hj]
    exact fun h => nomatch h
  · intro s hP
    subst hP
    simp only [List.getD_cons_succ, getD_append_length1]
    rw [Table.get_num _ _ (by omega) (by omega)]
    simp [List.getD_eq_getElem?_getD]
  · intro k hk s f hP
    subst hP
    have hv : (row.map Value.str).getD k .nil = .str row[k] := by
      rw [getD_map_str, List.getElem?_eq_getElem hk]
    have hlenk : ((row.take k).map Value.str).length = k := by
      rw [List.length_map, List.length_take]; omega
    have hpush := Table.set_push ((row.take k).map Value.str) [] (.str row[k]) (by rw [hlenk]; omega)
    rw [hlenk] at hpush
    have htake : row.take (k + 1) = row.take k ++ [row[k]] := by
      rw [List.take_add_one, List.getElem?_eq_getElem hk]; rfl
    rw [hv]
    luab_simp [fetchInner, fetchEnvIn, fetchEnv, Table.get_push _ _ _ hm, setIndex_table, getD_append_length,
      List.set_cons_succ, set_append_length, hpush]
    simp only [htake, strTable, List.map_append, List.map_cons, List.map_nil]
  · intro s hP
    rw [hP, List.take_length]

def fetchBody : List Stmt := [
    .assign (.index (.var "matrix") (.var "i")) (.table []),
    .localDecl ["rowKey"] [.binop .concat (.var "key") (.call (.global "tostring") [.binop .sub (.var "i") (.num 1)])],
    .localDecl ["values"] [.call (.field "redis" "call") [.str "LRANGE", .var "rowKey", .num 0, .unop .neg (.num 1)]],
    .ipairsFor ["j", "v"] (.var "values") fetchInner
  ]

theorem fetch_body (key sz : String) (KT AT : Table) (marr : List Value) (pre : List Table) (lg : List String)
    (st : Store) (row : List String) (hm : marr.length + 1 < maxArrayIndex) (hn : row.length + 1 < maxArrayIndex)
    (hrow : lrangeO st (cmsRowKey key marr.length) = some row) (f : Nat) :
    ∃ lg', inScope (do declare "i" (.num (1 + (marr.length : Int) * 1)); execBlock (f + (row.length + 40)) fetchBody)
        ⟨st, KT :: AT :: ⟨marr, []⟩ :: pre, fetchEnv key sz, lg⟩ =
      .ok none ⟨st, KT :: AT :: ⟨marr ++ [.table (pre.length + 3)], []⟩ :: (pre ++ [strTable row, strTable row]),
        fetchEnv key sz, lg'⟩ := by
  have e0 : f + (row.length + 40) = f + row.length + 40 := by omega
  have e1 : (1 + (marr.length : Int) * 1) = ((marr.length + 1 : Nat) : Int) := by omega
  have e2 : ((marr.length + 1 : Nat) : Int) - 1 = (marr.length : Int) := by omega
  have hrl : (marr.length : Int).natAbs ≤ numLimit := by
    unfold maxArrayIndex at hm; unfold numLimit; omega
  rw [e0, e1]
  luab_simp [fetchBody, fetchEnv, setIndex_table, Table.set_push _ _ _ hm, List.set_cons_succ, List.set_cons_zero,
    List.cons_append, e2, checkNum_ok hrl]
  rw [redisCall_key true "LRANGE" _ _ ["0", "-1"] _ rfl,
    show key ++ renderInt (marr.length : Int) = cmsRowKey key marr.length from rfl,
    show pre.length + 1 + 1 + 1 = pre.length + 3 from rfl]
  simp only [redisCommand_LRANGE_O, hrow]
  have hl4 : (pre ++ [({ arr := [] } : Table)]).length + 1 + 1 + 1 = pre.length + 4 := by simp
  have happ : ∀ (a b : Table), pre ++ [a] ++ [b] = pre ++ [a, b] := by intros; simp
  luab_simp [execStmt_ipairsFor, isLocal_apply, List.cons_append, hl4, happ]
  have hin := fetch_inner st KT AT marr pre (cmsRowKey key marr.length) key sz (cmsRowKey key marr.length :: lg) row
    hm hn (f + row.length + 35) (by omega)
  simp only [fetchEnvIn, fetchEnv, strTable, List.map_nil] at hin
  rw [hin]
  luab_simp []
  exact ⟨_, rfl⟩


/-! ### replies made of tables -/

theorem mapM_ok {α β} (f : α → Except String β) (g : α → β) :
    ∀ (l : List α), (∀ x ∈ l, f x = .ok (g x)) → l.mapM f = .ok (l.map g)
  | [], _ => rfl
  | a :: l, h => by
    rw [List.mapM_cons, h a (List.mem_cons_self ..), mapM_ok f g l (fun x hx => h x (List.mem_cons_of_mem _ hx))]
    rfl

theorem takeWhile_all {α} (p : α → Bool) : ∀ (l : List α), (∀ x ∈ l, p x = true) → l.takeWhile p = l
  | [], _ => rfl
  | a :: l, h => by
    rw [List.takeWhile_cons, h a (List.mem_cons_self ..)]
    simp only [if_true]
    rw [takeWhile_all p l (fun x hx => h x (List.mem_cons_of_mem _ hx))]

/-- a table whose array part holds strings is an array of bulk strings. -/
theorem toReply_strTable (heap : List Table) (d id : Nat) (l : List String)
    (h : heap.getD id {} = strTable l) :
    toReply heap (d + 2) (.table id) = .ok (.array (l.map .bulk)) := by
  have hm : (l.map Value.str).mapM (toReply heap (d + 1)) = .ok ((l.map Value.str).map fun v =>
      match v with | .str s => Reply.bulk s | _ => Reply.nil) := by
    apply mapM_ok
    intro x hx
    obtain ⟨s, _, rfl⟩ := List.mem_map.mp hx
    rfl
  have htw : (l.map Value.str).takeWhile (fun v => decide (v ≠ Value.nil)) = l.map Value.str := by
    apply takeWhile_all
    intro x hx
    obtain ⟨s, _, rfl⟩ := List.mem_map.mp hx
    rfl
  rw [toReply]
  rw [h]
  have e1 : (strTable l).get (.str "err") = .nil := rfl
  have e2 : (strTable l).get (.str "ok") = .nil := rfl
  simp only [e1, e2]
  rw [htw, hm, List.map_map]
  rfl

/-! ## `getMatrix`: the loop and the reply -/

/-- the array part of `matrix` after `j` rounds: the row tables sit at heap positions 3, 5, 7, … -/
def fetchArr : Nat → List Value
  | 0 => []
  | j + 1 => fetchArr j ++ [.table (2 * j + 3)]

/-- the heap behind `KEYS, ARGV, matrix` after `j` rounds: per round the row table and the `LRANGE` reply. -/
def fetchHeap (rows : Nat → List String) : Nat → List Table
  | 0 => []
  | j + 1 => fetchHeap rows j ++ [strTable (rows j), strTable (rows j)]

theorem fetchArr_length (j : Nat) : (fetchArr j).length = j := by
  induction j with
  | zero => rfl
  | succ j ih => simp only [fetchArr, List.length_append, ih, List.length_cons, List.length_nil]

theorem fetchHeap_length (rows : Nat → List String) (j : Nat) : (fetchHeap rows j).length = 2 * j := by
  induction j with
  | zero => rfl
  | succ j ih => simp only [fetchHeap, List.length_append, ih, List.length_cons, List.length_nil]; omega

theorem fetchHeap_getD (rows : Nat → List String) : ∀ (n r : Nat), r < n →
    (fetchHeap rows n).getD (2 * r) {} = strTable (rows r)
  | n + 1, r, h => by
    by_cases hr : r = n
    · subst hr
      have := getD_append_length (fetchHeap rows r) (strTable (rows r)) ({} : Table) [strTable (rows r)]
      rw [fetchHeap_length] at this
      exact this
    · have ih := fetchHeap_getD rows n r (by omega)
      rw [fetchHeap, List.getD_eq_getElem?_getD, List.getElem?_append_left (by rw [fetchHeap_length]; omega),
        ← List.getD_eq_getElem?_getD]
      exact ih

theorem fetchArr_eq (n : Nat) : fetchArr n = (List.range n).map fun r => Value.table (2 * r + 3) := by
  induction n with
  | zero => rfl
  | succ n ih => rw [fetchArr, ih, List.range_succ, List.map_append]; rfl

/-- the reply made of the table `matrix`. -/
theorem toReply_fetch (KT AT : Table) (rows : Nat → List String) (n : Nat) :
    toReply (KT :: AT :: ⟨fetchArr n, []⟩ :: fetchHeap rows n) 64 (.table 2) =
      .ok (.array ((List.range n).map fun r => .array ((rows r).map .bulk))) := by
  have htw : (fetchArr n).takeWhile (fun v => decide (v ≠ Value.nil)) = fetchArr n := by
    apply takeWhile_all
    intro x hx
    rw [fetchArr_eq] at hx
    obtain ⟨s, _, rfl⟩ := List.mem_map.mp hx
    rfl
  have hm : (fetchArr n).mapM (toReply (KT :: AT :: ⟨fetchArr n, []⟩ :: fetchHeap rows n) 63) =
      .ok ((List.range n).map fun r => Reply.array ((rows r).map .bulk)) := by
    rw [fetchArr_eq]
    have := mapM_ok (toReply (KT :: AT :: ⟨fetchArr n, []⟩ :: fetchHeap rows n) 63)
      (fun v => match v with | .table id => Reply.array ((rows ((id - 3) / 2)).map .bulk) | _ => Reply.nil)
      ((List.range n).map fun r => Value.table (2 * r + 3)) ?_
    · rw [fetchArr_eq] at this
      rw [this, List.map_map]
      congr 1
      apply List.map_congr_left
      intro r _
      simp only [Function.comp]
      rw [show (2 * r + 3 - 3) / 2 = r by omega]
    · intro x hx
      obtain ⟨r, hr, rfl⟩ := List.mem_map.mp hx
      have hrn : r < n := List.mem_range.mp hr
      simp only
      rw [show (2 * r + 3 - 3) / 2 = r by omega]
      apply toReply_strTable _ 61
      rw [show 2 * r + 3 = 2 * r + 1 + 1 + 1 from rfl, List.getD_cons_succ, List.getD_cons_succ, List.getD_cons_succ]
      exact fetchHeap_getD rows n r hrn
  rw [toReply]
  have e1 : (⟨fetchArr n, []⟩ : Table).get (.str "err") = .nil := rfl
  have e2 : (⟨fetchArr n, []⟩ : Table).get (.str "ok") = .nil := rfl
  simp only [List.getD_cons_succ, List.getD_cons_zero, e1, e2]
  rw [htw, hm]
  rfl


theorem fetch_loop (key sz : String) (KT AT : Table) (lg : List String) (st : Store) (n L : Nat)
    (rows : Nat → List String) (hn : n + 1 < maxArrayIndex) (hL : L + 1 < maxArrayIndex)
    (hrows : ∀ r, r < n → lrangeO st (cmsRowKey key r) = some (rows r)) (hlen : ∀ r, r < n → (rows r).length ≤ L)
    (F : Nat) (hF : n + (L + 40) + 1 ≤ F) :
    ∃ lg', numForLoop F "i" 1 (n : Int) 1 fetchBody
        ⟨st, KT :: AT :: ⟨fetchArr 0, []⟩ :: fetchHeap rows 0, fetchEnv key sz, lg⟩ =
      .ok none ⟨st, KT :: AT :: ⟨fetchArr n, []⟩ :: fetchHeap rows n, fetchEnv key sz, lg'⟩ := by
  refine numForLoop_spec0 (x := "i") (body := fetchBody) (step := 1) (i0 := 1) (limit := (n : Int)) (by decide)
    (L + 40) n
    (fun j s => ∃ lg', s = ⟨st, KT :: AT :: ⟨fetchArr j, []⟩ :: fetchHeap rows j, fetchEnv key sz, lg'⟩)
    (fun r => ∃ lg', r = .ok none ⟨st, KT :: AT :: ⟨fetchArr n, []⟩ :: fetchHeap rows n, fetchEnv key sz, lg'⟩)
    (by intro j hj; omega) (by omega) ?_ ?_ F _ hF ⟨lg, rfl⟩
  · intro j hj s f hP
    obtain ⟨lg', rfl⟩ := hP
    have hl := hlen j hj
    obtain ⟨lg'', hb⟩ := fetch_body key sz KT AT (fetchArr j) (fetchHeap rows j) lg' st (rows j)
      (by rw [fetchArr_length]; omega) (by omega) (by rw [fetchArr_length]; exact hrows j hj)
      (f + (L - (rows j).length))
    rw [fetchArr_length, fetchHeap_length,
      show f + (L - (rows j).length) + ((rows j).length + 40) = f + (L + 40) by omega] at hb
    rw [hb]
    exact ⟨lg'', rfl⟩
  · intro s hP
    obtain ⟨lg', rfl⟩ := hP
    exact ⟨lg', rfl⟩

theorem fetchScript_eq : count_min_sketch_redis_fetchMatrixAsTable = [
    .localDecl ["key"] [.index (.var "KEYS") (.num 1)],
    .localDecl ["size"] [.index (.var "ARGV") (.num 1)],
    .localDecl ["matrix"] [.table []],
    .numFor "i" (.num 1) (.call (.global "tonumber") [.var "size"]) none fetchBody,
    .ret [.var "matrix"]] := rfl

/-- the extracted `getMatrix` script: the store is not written, the reply is the array of the rows. -/
theorem fetch_run (key : String) (st : Store) (n L : Nat) (rows : Nat → List String) (fuel : Nat)
    (hfuel : n + L + 60 ≤ fuel) (hn : n + 1 < maxArrayIndex) (hL : L + 1 < maxArrayIndex)
    (hrows : ∀ r, r < n → lrangeO st (cmsRowKey key r) = some (rows r)) (hlen : ∀ r, r < n → (rows r).length ≤ L) :
    run fuel count_min_sketch_redis_fetchMatrixAsTable [key] [decimal n] st =
      (st, .reply (.array ((List.range n).map fun r => .array ((rows r).map .bulk)))) := by
  obtain ⟨F, rfl⟩ : ∃ F, fuel = F + 14 := ⟨fuel - 14, by omega⟩
  have hnl : n ≤ numLimit := by unfold maxArrayIndex at hn; unfold numLimit; omega
  have hex : ∃ lg', execBlock (F + 14) count_min_sketch_redis_fetchMatrixAsTable (initState [key] [decimal n] st) =
      .ok (some [.table 2]) ⟨st, { arr := [.str key] } :: { arr := [.str (decimal n)] } :: ⟨fetchArr n, []⟩ ::
        fetchHeap rows n, fetchEnv key (decimal n), lg'⟩ := by
    rw [fetchScript_eq]
    luab_simp [initState, luaToNumber_decimal hnl, List.cons_append, List.nil_append]
    obtain ⟨lg', hl⟩ := fetch_loop key (decimal n) { arr := [.str key] } { arr := [.str (decimal n)] } [] st n L rows
      hn hL hrows hlen (F + 9) (by omega)
    simp only [fetchEnv, fetchArr, fetchHeap] at hl
    rw [hl]
    luab_simp []
    exact ⟨_, rfl⟩
  obtain ⟨lg', he⟩ := hex
  simp only [run, runLog, he, List.headD_cons, toReply_fetch]


theorem lrangeO_of_rel {key : String} {id : Nat} {js : Json.Store} {st : Redis.Store} (h : CmsRel key id js st)
    (r : Nat) : lrangeO st (cmsRowKey key r) = some ((js.getNums (.cmsRow id r)).map decimal) := by
  have := h r
  unfold lrangeO Json.Store.getNums
  cases hj : js (.cmsRow id r) <;> cases hs : st (cmsRowKey key r) <;> rw [hj, hs] at this <;>
    first
    | exact this.elim
    | rfl
    | skip
  rename_i l v
  cases v <;> first | exact this.elim | (simp only [RelVal] at this; subst this; rfl)

/-- `getMatrix` of Model/Json.lean and the extracted script on related stores: the reply is the matrix, every
    cell as its decimal spelling. -/
theorem fetch_json (js : Json.Store) (st : Redis.Store) (key : String) (h : Json.CMSRedis) (L fuel : Nat)
    (hrel : CmsRel key h.key js st) (hfuel : h.rows + L + 60 ≤ fuel)
    (hn : h.rows + 1 < maxArrayIndex) (hL : L + 1 < maxArrayIndex)
    (hlen : ∀ row ∈ h.matrix js, row.length ≤ L) :
    run fuel count_min_sketch_redis_fetchMatrixAsTable [key] [decimal h.rows] st =
      (st, .reply (.array ((h.matrix js).map fun row => .array (row.map fun x => .bulk (decimal x))))) := by
  have := fetch_run key st h.rows L (fun r => (js.getNums (.cmsRow h.key r)).map decimal) fuel hfuel hn hL
    (fun r _ => lrangeO_of_rel hrel r)
    (fun r hr => by
      rw [List.length_map]
      exact hlen _ (List.mem_map.mpr ⟨r, List.mem_range.mpr hr, rfl⟩))
  rw [this]
  simp only [Json.CMSRedis.matrix, List.map_map]
  rfl

end Gostatix.LuaCMS
