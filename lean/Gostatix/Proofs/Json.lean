/-
  Gostatix.Proofs.Json — lemmas behind C10 (JSON Export/Import round trip).
-/
import Gostatix.Model.Json
import Gostatix.Proofs.Codec
namespace Gostatix.Json
open Gostatix.Codec (encU64 beVal)

/-! ### stores -/
namespace Store
@[simp] theorem set_same (st : Store) (k : Key) (v : Val) : st.set k v k = v := by simp [set]
theorem set_other (st : Store) {k k' : Key} (v : Val) (h : k' ≠ k) : st.set k v k' = st k' := by
  simp [set, h]
theorem set_apply (st : Store) (k k' : Key) (v : Val) :
    st.set k v k' = if k' = k then v else st k' := rfl
end Store

/-! ### `forN` -/
theorem forN_zero {σ : Type} (f : σ → Nat → σ) (s : σ) : forN 0 f s = s := rfl
theorem forN_succ {σ : Type} (n : Nat) (f : σ → Nat → σ) (s : σ) : forN (n + 1) f s = f (forN n f s) n := by
  simp [forN, List.range_succ]

/-- a loop none of whose iterations writes `k` leaves `k` alone -/
theorem forN_unch {κ V : Type} (f : (κ → V) → Nat → (κ → V)) (k : κ) :
    ∀ (n : Nat) (st : κ → V), (∀ st j, j < n → f st j k = st k) → forN n f st k = st k := by
  intro n
  induction n with
  | zero => intro st _; rfl
  | succ n ih =>
    intro st h
    rw [forN_succ, h _ n (by omega), ih st (fun st j hj => h st j (by omega))]

/-- a loop whose `i`-th iteration rewrites `key i` as a function of its old value and whose other
    iterations leave `key i` alone -/
theorem forN_at {κ V W : Type} (f : (κ → V) → Nat → (κ → V)) (key : Nat → κ) (obs : V → W)
    (upd : Nat → W → W)
    (hat : ∀ st i, obs (f st i (key i)) = upd i (obs (st (key i))))
    (hne : ∀ st i j, i ≠ j → f st j (key i) = st (key i)) :
    ∀ (n : Nat) (st : κ → V) (i : Nat), i < n →
      obs (forN n f st (key i)) = upd i (obs (st (key i))) := by
  intro n
  induction n with
  | zero => intro st i hi; omega
  | succ n ih =>
    intro st i hi
    rw [forN_succ]
    by_cases h : i = n
    · subst h
      rw [hat, forN_unch f (key i) i st (fun st j hj => hne st i j (by omega))]
    · rw [hne _ i n h, ih st i (by omega)]

/-! ### Bloom -/

set_option maxRecDepth 100000 in
theorem revNat_invol : ∀ n, n < 256 → revNat (revNat n) = n ∧ revNat n < 256 := by decide

theorem revByte_invol (b : UInt8) : revByte (revByte b) = b := by
  have h := revNat_invol b.toNat (UInt8.toNat_lt b)
  unfold revByte
  rw [UInt8.toNat_ofNat', Nat.mod_eq_of_lt h.2, h.1, UInt8.ofNat_toNat]

theorem map_revByte_invol (v : Bytes) : (v.map revByte).map revByte = v := by
  induction v with
  | nil => rfl
  | cons b v ih => simp [revByte_invol] at ih ⊢; exact ih

theorem unmarshal_marshal (size : Nat) (hs : size < 2 ^ 64) (v : Bytes) :
    unmarshalRedis (marshalRedis size v) = some (size, v) := by
  unfold unmarshalRedis marshalRedis
  have hl : (encU64 size).length = 8 := Codec.length_encU64 size
  have h1 : ¬ (encU64 size ++ (v.map revByte).reverse).length < 8 := by
    rw [List.length_append, hl]; omega
  rw [if_neg h1]
  have h2 : (encU64 size ++ (v.map revByte).reverse).take 8 = encU64 size := by
    rw [List.take_append_of_le_length (by omega), List.take_of_length_le (by omega)]
  have h3 : (encU64 size ++ (v.map revByte).reverse).drop 8 = (v.map revByte).reverse := by
    rw [List.drop_append_of_le_length (by omega), List.drop_of_length_le (by omega)]; rfl
  rw [h2, h3, List.reverse_reverse, map_revByte_invol]
  have : beVal (encU64 size) = size := Codec.beVal_beBytes8 size hs
  rw [this]

/-! ### lists -/

theorem range_map_getD {α β : Type} (l : List α) (f : α → β) (d : β) (n : Nat) (h : l.length = n) :
    (List.range n).map (fun i => ((l[i]?).map f).getD d) = l.map f := by
  apply List.ext_getElem
  · simp [h]
  · intro i h1 h2
    simp at h1 h2
    simp [h2]

/-! ### Cuckoo, in memory -/

namespace CuckooMem

theorem restoreAux_spec (bsize : Nat) : ∀ (es pre : List String) (c : Nat),
    pre.length + es.length = bsize →
    restoreAux bsize es pre.length (pre ++ List.replicate es.length "", c)
      = (pre ++ es, c + occupied es) := by
  intro es
  induction es with
  | nil => intro pre c _; simp [restoreAux, occupied]
  | cons e es ih =>
    intro pre c hlen
    have hlt : pre.length < bsize := by simp at hlen; omega
    have hlen' : (pre ++ [e]).length + es.length = bsize := by simp at hlen ⊢; omega
    have key := ih (pre ++ [e]) (if e ≠ "" then c + 1 else c) hlen'
    simp only [List.length_append, List.length_cons, List.length_nil] at key
    unfold restoreAux
    by_cases he : e = ""
    · subst he
      simp only [ne_eq, not_true_eq_false, and_false, if_false] at key ⊢
      simp only [List.length_cons, List.replicate_succ]
      have e1 : pre ++ "" :: List.replicate es.length "" = (pre ++ [""]) ++ List.replicate es.length "" := by simp
      rw [e1, key]
      simp [occupied]
    · simp only [ne_eq, he, not_false_eq_true, and_true, hlt, if_true] at key ⊢
      simp only [List.length_cons, List.replicate_succ]
      have e1 : (pre ++ "" :: List.replicate es.length "").set pre.length e
          = (pre ++ [e]) ++ List.replicate es.length "" := by simp
      rw [e1, key]
      simp [occupied, he]; omega

theorem restoreBucket_spec (bsize : Nat) (d : BucketDoc) (h : d.e.length = bsize) :
    restoreBucket bsize d = ⟨bsize, d.e, occupied d.e⟩ := by
  have := restoreAux_spec bsize d.e [] 0 (by simpa using h)
  simp only [List.length_nil, List.nil_append, Nat.zero_add] at this
  subst h
  simp only [restoreBucket, this]

/-- state invariant of an in-memory cuckoo filter relevant to Export/Import -/
structure WF (c : CuckooMem) : Prop where
  nb : c.buckets.length = c.n
  bucket : ∀ b ∈ c.buckets, b.size = c.bsize ∧ b.elements.length = b.size ∧
    b.length = occupied b.elements

theorem export_buckets (c : CuckooMem) (h : c.buckets.length = c.n) :
    (exportDoc c).b = c.buckets.map bucketDoc := range_map_getD _ _ _ _ h

theorem import_export (c t : CuckooMem) (h : WF c) : importDoc (exportDoc c) t = .ok c := by
  have hb := export_buckets c h.nb
  have hl : (exportDoc c).b.length = c.n := by rw [hb]; simp [h.nb]
  unfold importDoc
  have e1 : (exportDoc c).s = c.n := rfl
  rw [if_neg (by rw [hl, e1]; omega)]
  congr 1
  rw [e1, range_map_getD _ _ _ _ hl, hb, List.map_map]
  have : c.buckets.map (restoreBucket (exportDoc c).bs ∘ bucketDoc) = c.buckets := by
    conv => rhs; rw [← List.map_id c.buckets]
    apply List.map_congr_left
    intro b hbm
    obtain ⟨h1, h2, h3⟩ := h.bucket b hbm
    have : (exportDoc c).bs = c.bsize := rfl
    simp only [Function.comp, this, id]
    rw [restoreBucket_spec _ _ (by simp [bucketDoc, h2, h1])]
    cases b; simp_all [bucketDoc]
  rw [this]
  cases c; rfl

end CuckooMem

/-! ### frames: which keys a piece of code may write -/

/-- `st'` agrees with `st` outside the keys satisfying `P` -/
def Frame (P : Key → Prop) (st st' : Store) : Prop := ∀ k, ¬ P k → st' k = st k

namespace Frame
variable {P : Key → Prop}
theorem refl (st : Store) : Frame P st st := fun _ _ => rfl
theorem trans {a b c : Store} (h1 : Frame P a b) (h2 : Frame P b c) : Frame P a c :=
  fun k hk => (h2 k hk).trans (h1 k hk)
theorem set {st : Store} {k : Key} (v : Val) (hk : P k) : Frame P st (st.set k v) := by
  intro k' hk'
  exact Store.set_other st v (fun e => hk' (e ▸ hk))
theorem mono {Q : Key → Prop} {a b : Store} (h : Frame P a b) (hPQ : ∀ k, P k → Q k) : Frame Q a b :=
  fun k hk => h k (fun hp => hk (hPQ k hp))
theorem forN {f : Store → Nat → Store} (n : Nat) (h : ∀ st i, i < n → Frame P st (f st i))
    (st : Store) : Frame P st (forN n f st) := by
  induction n with
  | zero => exact refl st
  | succ n ih =>
    rw [forN_succ]
    exact trans (ih (fun st i hi => h st i (by omega))) (h _ n (by omega))
theorem foldl {α : Type} {f : Store → α → Store} (h : ∀ st a, Frame P st (f st a)) :
    ∀ (l : List α) (st : Store), Frame P st (l.foldl f st) := by
  intro l
  induction l with
  | nil => exact refl
  | cons a l ih => intro st; exact trans (h st a) (ih (f st a))
end Frame

theorem Key.ne_of_id_ne {k k' : Key} (h : k.id ≠ k'.id) : k ≠ k' := fun e => h (e ▸ rfl)

/-- no key derived from the random name `id` exists -/
def Fresh (st : Store) (id : Nat) : Prop := ∀ k : Key, k.id = id → st k = .absent

theorem getD_range_map {α : Type} (f : Nat → α) (d : α) {n i : Nat} (h : i < n) :
    ((List.range n).map f).getD i d = f i := by
  simp [List.getD_eq_getElem?_getD, h]

/-! ### Cuckoo, Redis -/

namespace CuckooRedis

theorem rpushFold_other (k : Key) : ∀ (es : List String) (st : Store) (k' : Key), k' ≠ k →
    (es.foldl (fun st e => st.rpushStrs k [e]) st) k' = st k' := by
  intro es
  induction es with
  | nil => intro st k' _; rfl
  | cons e es ih =>
    intro st k' h
    simp only [List.foldl_cons]
    rw [ih _ k' h]
    exact Store.set_other _ _ h

theorem rpushFold_get (k : Key) : ∀ (es : List String) (st : Store),
    Store.getStrs (es.foldl (fun st e => st.rpushStrs k [e]) st) k = st.getStrs k ++ es := by
  intro es
  induction es with
  | nil => intro st; simp
  | cons e es ih =>
    intro st
    simp only [List.foldl_cons]
    rw [ih]
    simp [Store.rpushStrs, Store.getStrs, Val.toStrs]

theorem importBucket_other (id : Nat) (st : Store) (i : Nat) (d : BucketDoc) (k : Key)
    (h1 : k ≠ .cuckooBucket id i) (h2 : k ≠ .cuckooBucketLen id i) :
    importBucket id st i d k = st k := by
  unfold importBucket Store.incrBy
  rw [Store.set_other _ _ h2, rpushFold_other _ _ _ _ h1, Store.set_other _ _ h2]

theorem importBucket_strs (id : Nat) (st : Store) (i : Nat) (d : BucketDoc) :
    Store.getStrs (importBucket id st i d) (.cuckooBucket id i)
      = st.getStrs (.cuckooBucket id i) ++ d.e := by
  unfold importBucket
  have h : Key.cuckooBucket id i ≠ Key.cuckooBucketLen id i := by simp
  simp only [Store.incrBy, Store.getStrs]
  rw [Store.set_other _ _ h]
  have := rpushFold_get (.cuckooBucket id i) d.e (st.set (.cuckooBucketLen id i)
    (.int (st.getInt (.cuckooBucketLen id i) + 0)))
  simp only [Store.getStrs] at this
  rw [this, Store.set_other _ _ h]

theorem importBucket_len (id : Nat) (st : Store) (i : Nat) (d : BucketDoc) :
    Store.getInt (importBucket id st i d) (.cuckooBucketLen id i)
      = st.getInt (.cuckooBucketLen id i) + occupied d.e := by
  unfold importBucket
  have h : Key.cuckooBucketLen id i ≠ Key.cuckooBucket id i := by simp
  simp only [Store.incrBy, Store.getInt, Store.set_same]
  rw [rpushFold_other _ _ _ _ h]
  simp [Val.toInt]

/-- invariant relevant to Export/Import: every `_len` counter equals the number of non-empty
    entries of its list, and the handle holds one bucket per index -/
structure WF (h : CuckooRedis) (st : Store) : Prop where
  nb : h.nb = h.n
  len : ∀ i, i < h.n →
    st.getInt (.cuckooBucketLen h.key i) = occupied (st.getStrs (.cuckooBucket h.key i))

/-- keys written by `Import` under the new names `nk`, `nmk` -/
def Written (nk nmk : Nat) (k : Key) : Prop := k.id = nk ∨ k.id = nmk

theorem setMetadata_frame {P : Key → Prop} (h : CuckooRedis) (l : Nat) (st : Store)
    (hP : P (.rand h.metadataKey)) : Frame P st (setMetadata st h l) := Frame.set _ hP

theorem initBuckets_frame {P : Key → Prop} (h : CuckooRedis) (st : Store)
    (h1 : P (.rand h.key)) (h2 : ∀ j, P (.cuckooBucketLen h.key j)) :
    Frame P st (initBuckets st h) := by
  unfold initBuckets
  simp only
  refine Frame.trans ?_ (Frame.forN _ (fun st i _ => Frame.set _ (h2 i)) _)
  refine Frame.trans ?_ (Frame.forN _ (fun st i _ => Frame.set _ h1) _)
  exact Frame.set _ h1

theorem importBuckets_frame {P : Key → Prop} (nk : Nat) (b : List BucketDoc) (st : Store)
    (h1 : ∀ j, P (.cuckooBucket nk j)) (h2 : ∀ j, P (.cuckooBucketLen nk j)) :
    Frame P st (forN b.length (fun st i => importBucket nk st i (b.getD i ⟨0, 0, [], none⟩)) st) := by
  refine Frame.forN _ (fun st i _ => ?_) _
  intro k hk
  exact importBucket_other _ _ _ _ _ (fun e => hk (e ▸ h1 i)) (fun e => hk (e ▸ h2 i))

theorem import_frame (d : CuckooDoc) (nk nmk : Nat) (t : CuckooRedis) (st : Store) :
    Frame (Written nk nmk) st (importDoc d nk nmk t st).2 := by
  unfold importDoc
  simp only
  refine Frame.trans ?_ (importBuckets_frame nk d.b _ (fun j => Or.inl rfl) (fun j => Or.inl rfl))
  refine Frame.trans ?_ (initBuckets_frame _ _ (Or.inl rfl) (fun j => Or.inl rfl))
  exact setMetadata_frame _ _ _ (Or.inr rfl)

theorem init_len (h : CuckooRedis) (st : Store) (i : Nat) (hi : i < h.n)
    (h0 : st (.cuckooBucketLen h.key i) = .absent) :
    Store.getInt (initBuckets st h) (.cuckooBucketLen h.key i) = 0 := by
  unfold initBuckets
  simp only
  have := forN_at (fun (st : Store) i => Store.incrBy st (.cuckooBucketLen h.key i) 0)
    (fun i => Key.cuckooBucketLen h.key i) Val.toInt
    (fun _ n => n + 0)
    (by intro st i; simp [Store.incrBy, Store.getInt, Val.toInt])
    (by intro st i j hij; exact Store.set_other _ _ (by simp [hij]))
    h.n (forN h.n (fun (st : Store) i => st.lpushKeys (.rand h.key) [.cuckooBucket h.key i]) (st.del (.rand h.key))) i hi
  simp only [Store.getInt] at this ⊢
  rw [this]
  simp only [Nat.add_zero]
  have fr : Frame (fun k => k = .rand h.key) st
      (forN h.n (fun (st : Store) i => st.lpushKeys (.rand h.key) [.cuckooBucket h.key i]) (st.del (.rand h.key))) :=
    Frame.trans (P := fun k => k = .rand h.key) (Frame.set _ rfl)
      (Frame.forN (P := fun k => k = .rand h.key) _ (fun st i _ => Frame.set _ rfl) _)
  rw [fr _ (by simp), h0]
  rfl

theorem export_bucket (h : CuckooRedis) (st : Store) {i : Nat} (hi : i < h.n) :
    ((exportDoc h st).b.getD i ⟨0, 0, [], none⟩).e = st.getStrs (.cuckooBucket h.key i) := by
  unfold exportDoc
  simp only
  rw [getD_range_map _ _ hi]

theorem export_b_length (h : CuckooRedis) (st : Store) : (exportDoc h st).b.length = h.n := by
  simp [exportDoc]

/-- the store after `Import`, read at the new keys -/
theorem import_export_store (h t : CuckooRedis) (st : Store) (nk nmk : Nat)
    (f1 : Fresh st nk) (hne : nk ≠ nmk) :
    let st' := (importDoc (exportDoc h st) nk nmk t st).2
    (∀ i, i < h.n → st'.getStrs (.cuckooBucket nk i) = st.getStrs (.cuckooBucket h.key i)) ∧
    (∀ i, i < h.n → st'.getInt (.cuckooBucketLen nk i) = occupied (st.getStrs (.cuckooBucket h.key i))) ∧
    st'.hget (.rand nmk) "length" = st.hget (.rand h.metadataKey) "length" := by
  intro st'
  -- names for the intermediate handle and stores
  let d := exportDoc h st
  let h' : CuckooRedis :=
    { t with n := d.s, bsize := d.bs, fpl := d.fpl, retries := d.r, key := nk, metadataKey := nmk }
  let st1 := setMetadata st h' d.l
  let st2 := initBuckets st1 h'
  have hst' : st' = forN d.b.length
      (fun st i => importBucket nk st i (d.b.getD i ⟨0, 0, [], none⟩)) st2 := rfl
  have hn : d.b.length = h.n := export_b_length h st
  have hn' : h'.n = h.n := rfl
  have hk' : h'.key = nk := rfl
  have hmk' : h'.metadataKey = nmk := rfl
  -- before the bucket loop: bucket lists untouched, counters 0
  have pre_list : ∀ i, st2 (.cuckooBucket nk i) = .absent := by
    intro i
    have fr : Frame (fun k => k = .rand nmk ∨ k = .rand nk ∨ ∃ j, k = .cuckooBucketLen nk j) st st2 :=
      Frame.trans (setMetadata_frame h' d.l st (Or.inl rfl))
        (initBuckets_frame h' st1 (Or.inr (Or.inl rfl)) (fun j => Or.inr (Or.inr ⟨j, rfl⟩)))
    rw [fr _ (by simp)]
    exact f1 _ rfl
  have pre_len : ∀ i, i < h.n → st2.getInt (.cuckooBucketLen nk i) = 0 := by
    intro i hi
    have fr : Frame (fun k => k = .rand nmk) st st1 := setMetadata_frame h' d.l st rfl
    have h0 : st1 (.cuckooBucketLen h'.key i) = .absent := by
      rw [fr _ (by simp)]; exact f1 _ rfl
    exact init_len h' st1 i hi h0
  refine ⟨?_, ?_, ?_⟩
  · intro i hi
    have := forN_at (fun (st : Store) i => importBucket nk st i (d.b.getD i ⟨0, 0, [], none⟩))
      (fun i => Key.cuckooBucket nk i) Val.toStrs (fun i l => l ++ (d.b.getD i ⟨0, 0, [], none⟩).e)
      (fun st i => importBucket_strs nk st i _)
      (fun st i j hij => importBucket_other nk st j _ _ (by simp [hij]) (by simp))
      d.b.length st2 i (by omega)
    simp only [Store.getStrs] at this ⊢
    rw [hst', this, pre_list i]
    have e := export_bucket h st hi
    simp only [Store.getStrs] at e
    show ([] : List String) ++ _ = _
    rw [List.nil_append]
    exact e
  · intro i hi
    have := forN_at (fun (st : Store) i => importBucket nk st i (d.b.getD i ⟨0, 0, [], none⟩))
      (fun i => Key.cuckooBucketLen nk i) Val.toInt (fun i n => n + occupied (d.b.getD i ⟨0, 0, [], none⟩).e)
      (fun st i => importBucket_len nk st i _)
      (fun st i j hij => importBucket_other nk st j _ _ (by simp) (by simp [hij]))
      d.b.length st2 i (by omega)
    have p := pre_len i hi
    simp only [Store.getInt] at this p ⊢
    rw [hst', this, p]
    have e := export_bucket h st hi
    show 0 + occupied ((exportDoc h st).b.getD i ⟨0, 0, [], none⟩).e = _
    rw [e, Nat.zero_add]
  · have fr : Frame (fun k => k = .rand nk ∨ (∃ j, k = .cuckooBucket nk j) ∨ ∃ j, k = .cuckooBucketLen nk j)
        st1 st' := by
      rw [hst']
      refine Frame.trans ?_ (importBuckets_frame nk d.b st2 (fun j => Or.inr (Or.inl ⟨j, rfl⟩))
        (fun j => Or.inr (Or.inr ⟨j, rfl⟩)))
      exact initBuckets_frame h' st1 (Or.inl rfl) (fun j => Or.inr (Or.inr ⟨j, rfl⟩))
    have e : st' (.rand nmk) = st1 (.rand nmk) := fr _ (by simp; exact fun e => hne e.symm)
    simp only [Store.hget, Store.getHash, e]
    simp [st1, setMetadata, Store.hset, Val.toHash, h', d, exportDoc, Store.hget, Store.getHash]

theorem import_export_handle (h t : CuckooRedis) (st : Store) (nk nmk : Nat) (wf : h.nb = h.n) :
    (importDoc (exportDoc h st) nk nmk t st).1 = { h with key := nk, metadataKey := nmk } := by
  have := export_b_length h st
  cases h
  simp_all [importDoc, exportDoc]

end CuckooRedis

/-! ### Count-Min, Redis -/

theorem flatten_length_const (m : List (List Nat)) (c : Nat) (h : ∀ row ∈ m, row.length = c) :
    m.flatten.length = m.length * c := by
  induction m with
  | nil => simp
  | cons row m ih =>
    have h1 : row.length = c := h row (by simp)
    have h2 := ih (fun r hr => h r (by simp [hr]))
    simp only [List.flatten_cons, List.length_append, List.length_cons, h1, h2, Nat.succ_mul]
    omega

theorem flatten_drop_take (c : Nat) : ∀ (m : List (List Nat)) (i : Nat),
    (∀ row ∈ m, row.length = c) → i < m.length →
    (m.flatten.drop (i * c)).take c = m.getD i [] := by
  intro m
  induction m with
  | nil => intro i _ hi; simp at hi
  | cons row m ih =>
    intro i h hi
    have h1 : row.length = c := h row (by simp)
    cases i with
    | zero => simp [List.take_left' h1]
    | succ i =>
      have e : (i + 1) * c = row.length + i * c := by rw [h1, Nat.succ_mul]; omega
      rw [List.flatten_cons, e, List.drop_length_add_append, List.getD_cons_succ]
      exact ih i (fun r hr => h r (by simp [hr])) (by simpa using hi)

theorem range_map_getD_id {α : Type} (l : List α) (d : α) (n : Nat) (h : l.length = n) :
    (List.range n).map (fun i => l.getD i d) = l := by
  apply List.ext_getElem
  · simp [h]
  · intro i h1 h2
    simp at h1
    simp [List.getD_eq_getElem?_getD, h2]

namespace CMSRedis

/-- iteration `i` of the `setMatrix` loop when its row is not empty -/
def stepOk (id cols : Nat) (flat : List Nat) (st : Store) (i : Nat) : Store :=
  (st.del (.cmsRow id i)).rpushNums (.cmsRow id i) ((flat.drop (i * cols)).take cols)

theorem loop_ok (id cols : Nat) (flat : List Nat) (st : Store) :
    ∀ n, (∀ i, i < n → (flat.drop (i * cols)).take cols ≠ []) →
    forN n (setMatrixStep id cols flat) (st, true) = (forN n (stepOk id cols flat) st, true) := by
  intro n
  induction n with
  | zero => intro _; rfl
  | succ n ih =>
    intro h
    rw [forN_succ, forN_succ, ih (fun i hi => h i (by omega))]
    simp [setMatrixStep, stepOk, h n (by omega)]

theorem stepOk_frame (id cols : Nat) (flat : List Nat) (n : Nat) (st : Store) :
    Frame (fun k => ∃ j, k = .cmsRow id j) st (forN n (stepOk id cols flat) st) :=
  Frame.forN _ (fun _ i _ => Frame.trans (Frame.set _ ⟨i, rfl⟩) (Frame.set _ ⟨i, rfl⟩)) _

theorem stepOk_get (id cols : Nat) (flat : List Nat) (n : Nat) (st : Store) (i : Nat) (hi : i < n) :
    forN n (stepOk id cols flat) st (.cmsRow id i) = .nums ((flat.drop (i * cols)).take cols) := by
  have := forN_at (stepOk id cols flat) (fun i => Key.cmsRow id i) (fun v => v)
    (fun i _ => .nums ((flat.drop (i * cols)).take cols))
    (by intro st i; simp [stepOk, Store.rpushNums, Store.del, Store.getNums, Val.toNums])
    (by intro st i j hij
        simp only [stepOk, Store.rpushNums, Store.del]
        rw [Store.set_other _ _ (by simp [hij]), Store.set_other _ _ (by simp [hij])])
    n st i hi
  exact this

/-- what `setMatrix` does on a well-formed matrix (`r ≥ 1` rows of `c ≥ 1` cells): the script
    succeeds and every row is written — single-column matrices included
    (`rows = (#ARGV - 1) / columns = r` exactly). -/
theorem setMatrix_spec (st : Store) (id : Nat) (m : List (List Nat)) (c : Nat)
    (hm : m ≠ []) (hc : 0 < c) (hrow : ∀ row ∈ m, row.length = c) :
    ∃ S, setMatrix st id m = some (S, true) ∧
      (∀ i, i < m.length → S (.cmsRow id i) = .nums (m.getD i [])) ∧
      Frame (fun k => ∃ j, k = .cmsRow id j) st S := by
  obtain ⟨row0, rest, rfl⟩ := List.exists_cons_of_ne_nil hm
  have h0 : row0.length = c := hrow row0 (by simp)
  have hflat := flatten_length_const (row0 :: rest) c hrow
  have hrows : ∀ i, i < (row0 :: rest).length →
      ((row0 :: rest).flatten.drop (i * c)).take c = (row0 :: rest).getD i [] :=
    fun i hi => flatten_drop_take c _ i hrow hi
  have hne : ∀ i, i < (row0 :: rest).length →
      ((row0 :: rest).flatten.drop (i * c)).take c ≠ [] := by
    intro i hi
    rw [hrows i hi]
    have : (row0 :: rest).getD i [] ∈ (row0 :: rest) := by
      rw [List.getD_eq_getElem?_getD, List.getElem?_eq_getElem hi]; simp
    intro e
    have := hrow _ this
    rw [e] at this; simp at this; omega
  simp only [setMatrix, h0]
  generalize hM : (row0 :: rest) = M at *
  have hit : setMatrixIters c M.flatten.length = M.length := by
    have : ¬ c = 0 := by omega
    simp only [setMatrixIters, this, if_false, hflat]
    exact Nat.mul_div_cancel _ hc
  rw [hit, loop_ok id c M.flatten st M.length hne]
  refine ⟨forN M.length (stepOk id c M.flatten) st, rfl, ?_, stepOk_frame id c _ _ st⟩
  intro i hi
  rw [stepOk_get id c _ _ st i hi, hrows i hi]

/-- invariant relevant to Export/Import: `rows ≥ 1` lists of `columns ≥ 1` cells -/
structure WF (h : CMSRedis) (st : Store) : Prop where
  rows_pos : 0 < h.rows
  cols_pos : 0 < h.cols
  row : ∀ r, r < h.rows → (st.getNums (.cmsRow h.key r)).length = h.cols

theorem matrix_wf (h : CMSRedis) (st : Store) (wf : WF h st) :
    h.matrix st ≠ [] ∧ (h.matrix st).length = h.rows ∧ ∀ row ∈ h.matrix st, row.length = h.cols := by
  refine ⟨?_, by simp [matrix], ?_⟩
  · intro e
    have : (h.matrix st).length = h.rows := by simp [matrix]
    rw [e] at this
    have := wf.rows_pos
    simp at *; omega
  · intro row hr
    simp only [matrix, List.mem_map, List.mem_range] at hr
    obtain ⟨r, hr, rfl⟩ := hr
    exact wf.row r hr

/-- the matrix read back under the key `id` after a store `S` holding the rows of `m` -/
theorem matrix_of_rows (S : Store) (id : Nat) (m : List (List Nat)) (n : Nat) (hn : m.length = n)
    (hS : ∀ i, i < m.length → S (.cmsRow id i) = .nums (m.getD i [])) :
    (List.range n).map (fun r => S.getNums (.cmsRow id r)) = m := by
  conv => rhs; rw [← range_map_getD_id m [] n hn]
  apply List.map_congr_left
  intro r hr
  simp only [List.mem_range] at hr
  simp only [Store.getNums, hS r (by omega)]
  rfl

end CMSRedis

/-! ### sorted sets -/

/-- what is needed of the byte order on element names -/
structure StrictTotal {N : Type} (lt : N → N → Bool) : Prop where
  irrefl : ∀ a, lt a a = false
  trans : ∀ a b c, lt a b = true → lt b c = true → lt a c = true
  total : ∀ a b, lt a b = true ∨ a = b ∨ lt b a = true

section zset
set_option linter.unusedSectionVars false
variable {N : Type} [DecidableEq N] {ltN : N → N → Bool}

theorem zLt_trans (H : StrictTotal ltN) {a b c : N × Nat}
    (h1 : zLt ltN a b = true) (h2 : zLt ltN b c = true) : zLt ltN a c = true := by
  simp only [zLt, Bool.or_eq_true, Bool.and_eq_true, decide_eq_true_eq, beq_iff_eq] at *
  rcases h1 with h1 | ⟨h1, h1'⟩ <;> rcases h2 with h2 | ⟨h2, h2'⟩
  · left; omega
  · left; omega
  · left; omega
  · right; exact ⟨by omega, H.trans _ _ _ h1' h2'⟩

theorem zLt_asymm (H : StrictTotal ltN) {a b : N × Nat}
    (h1 : zLt ltN a b = true) (h2 : zLt ltN b a = true) : False := by
  have h := zLt_trans H h1 h2
  simp [zLt, H.irrefl] at h

theorem zLt_total (H : StrictTotal ltN) {a b : N × Nat} (hne : a.1 ≠ b.1) :
    zLt ltN a b = true ∨ zLt ltN b a = true := by
  simp only [zLt, Bool.or_eq_true, Bool.and_eq_true, decide_eq_true_eq, beq_iff_eq]
  rcases Nat.lt_trichotomy a.2 b.2 with h | h | h
  · exact Or.inl (Or.inl h)
  · rcases H.total a.1 b.1 with h' | h' | h'
    · exact Or.inl (Or.inr ⟨h, h'⟩)
    · exact absurd h' hne
    · exact Or.inr (Or.inr ⟨h.symm, h'⟩)
  · exact Or.inr (Or.inl h)

/-- `ZRANGE` order -/
def ZSorted (ltN : N → N → Bool) (z : List (N × Nat)) : Prop :=
  z.Pairwise (fun a b => zLt ltN a b = true)

theorem insertSorted_perm (lt : N × Nat → N × Nat → Bool) (x : N × Nat) :
    ∀ l : List (N × Nat), (insertSorted lt x l).Perm (x :: l) := by
  intro l
  induction l with
  | nil => exact List.Perm.refl _
  | cons y ys ih =>
    unfold insertSorted
    split
    · exact List.Perm.refl _
    · exact (List.Perm.cons y ih).trans (List.Perm.swap x y ys)

theorem insertSorted_sorted (H : StrictTotal ltN) (x : N × Nat) :
    ∀ l : List (N × Nat), ZSorted ltN l → (∀ y ∈ l, y.1 ≠ x.1) →
      ZSorted ltN (insertSorted (zLt ltN) x l) := by
  intro l
  induction l with
  | nil => intro _ _; simp [insertSorted, ZSorted]
  | cons y ys ih =>
    intro hs hne
    unfold ZSorted at hs
    rw [List.pairwise_cons] at hs
    unfold insertSorted
    split
    · rename_i hxy
      unfold ZSorted
      rw [List.pairwise_cons, List.pairwise_cons]
      refine ⟨?_, hs.1, hs.2⟩
      intro z hz
      rcases List.mem_cons.1 hz with rfl | hz
      · exact hxy
      · exact zLt_trans H hxy (hs.1 z hz)
    · rename_i hxy
      unfold ZSorted
      rw [List.pairwise_cons]
      refine ⟨?_, ih hs.2 (fun z hz => hne z (List.mem_cons_of_mem _ hz))⟩
      intro z hz
      rcases List.mem_cons.1 ((insertSorted_perm _ x ys).mem_iff.1 hz) with rfl | hz
      · rcases zLt_total H (hne y (List.mem_cons_self)) with h | h
        · exact h
        · exact absurd h hxy
      · exact hs.1 z hz

theorem zadd_new (z : List (N × Nat)) (x : N) (f : Nat) (h : ∀ y ∈ z, y.1 ≠ x) :
    zadd ltN z x f = insertSorted (zLt ltN) (x, f) z := by
  unfold zadd
  rw [List.filter_eq_self.2 (fun y hy => by simpa using h y hy)]

theorem importHeap_spec (H : StrictTotal ltN) : ∀ (args z : List (N × Nat)),
    ZSorted ltN z → ((z ++ args).map (·.1)).Nodup →
    ZSorted ltN (importHeap ltN z args) ∧ (importHeap ltN z args).Perm (z ++ args) := by
  intro args
  induction args with
  | nil => intro z hs _; simp [importHeap, hs]
  | cons e rest ih =>
    intro z hs hnd
    have hfresh : ∀ y ∈ z, y.1 ≠ e.1 := by
      intro y hy heq
      rw [List.map_append, List.map_cons] at hnd
      have := (List.nodup_append.1 hnd).2.2 y.1 (List.mem_map_of_mem hy) e.1 (by simp)
      exact this heq
    have hz : zadd ltN z e.1 e.2 = insertSorted (zLt ltN) e z := zadd_new z e.1 e.2 hfresh
    have hp : (insertSorted (zLt ltN) e z ++ rest).Perm (z ++ e :: rest) := by
      refine ((insertSorted_perm _ e z).append_right rest).trans ?_
      simpa using (List.perm_middle (a := e) (l₁ := z) (l₂ := rest)).symm
    have hnd' : ((insertSorted (zLt ltN) e z ++ rest).map (·.1)).Nodup :=
      ((hp.map (·.1)).nodup_iff).2 hnd
    have := ih (insertSorted (zLt ltN) e z) (insertSorted_sorted H e z hs hfresh) hnd'
    unfold importHeap at this ⊢
    rw [List.foldl_cons, hz]
    exact ⟨this.1, this.2.trans hp⟩

/-- importing a sorted set with pairwise different member names into an empty set, in any
    order, rebuilds it -/
theorem importHeap_roundtrip (H : StrictTotal ltN) (z args : List (N × Nat))
    (hs : ZSorted ltN z) (hnd : (z.map (·.1)).Nodup) (hperm : args.Perm z) :
    importHeap ltN [] args = z := by
  have hnd' : ((([] : List (N × Nat)) ++ args).map (·.1)).Nodup := by
    simpa using ((hperm.map (·.1)).nodup_iff).2 hnd
  have := importHeap_spec H args [] (by simp [ZSorted]) hnd'
  refine List.Perm.eq_of_pairwise (le := fun a b => zLt ltN a b = true) ?_ this.1 hs
    (by simpa using this.2.trans hperm)
  intro a b _ _ h1 h2
  exact (zLt_asymm H h1 h2).elim

theorem freqMap_aux : ∀ (h acc : List (N × Nat)), ((acc ++ h).map (·.1)).Nodup →
    h.foldl (fun m e => m.filter (fun p => p.1 ≠ e.1) ++ [e]) acc = acc ++ h := by
  intro h
  induction h with
  | nil => intro acc _; simp
  | cons e rest ih =>
    intro acc hnd
    have hfresh : ∀ y ∈ acc, y.1 ≠ e.1 := by
      intro y hy heq
      rw [List.map_append, List.map_cons] at hnd
      exact (List.nodup_append.1 hnd).2.2 y.1 (List.mem_map_of_mem hy) e.1 (by simp) heq
    rw [List.foldl_cons, List.filter_eq_self.2 (fun y hy => by simpa using hfresh y hy)]
    rw [ih (acc ++ [e]) (by simpa using hnd)]
    simp

theorem freqMap_nodup (h : List (N × Nat)) (hnd : (h.map (·.1)).Nodup) : freqMap h = h := by
  have := freqMap_aux h [] (by simpa using hnd)
  simpa [freqMap] using this

end zset

/-- bytewise order on Go strings modelled as Lean strings (as in Model/TopK.lean) -/
def strLt (a b : String) : Bool := decide (a < b)
/-- bytewise (lexicographic) order on byte strings -/
def bytesLt (a b : Bytes) : Bool := decide (a < b)

theorem strLt_strictTotal : StrictTotal strLt where
  irrefl a := by simp [strLt, String.lt_irrefl]
  trans a b c h1 h2 := by simp [strLt] at *; exact String.lt_trans h1 h2
  total a b := by
    simp only [strLt, decide_eq_true_eq]
    rcases Std.lt_trichotomy a b with h | h | h
    · exact Or.inl h
    · exact Or.inr (Or.inl h)
    · exact Or.inr (Or.inr h)

theorem bytesLt_strictTotal : StrictTotal bytesLt where
  irrefl a := by simp [bytesLt]
  trans a b c h1 h2 := by simp [bytesLt] at *; exact List.lt_trans h1 h2
  total a b := by
    simp only [bytesLt, decide_eq_true_eq]
    rcases Std.lt_trichotomy a b with h | h | h
    · exact Or.inl h
    · exact Or.inr (Or.inl h)
    · exact Or.inr (Or.inr h)

/-- with `String` names and the bytewise order this is the sorted set of Model/TopK.lean -/
theorem zLt_str (a b : String × Nat) : zLt strLt a b = TopK.zLt a b := rfl


/-! ### the bucket counters: what `add` / `remove` / eviction `set` maintain -/

theorem occupied_set (l : List String) (i : Nat) (e : String) (hi : i < l.length) :
    occupied (l.set i e) + (if l[i] ≠ "" then 1 else 0) = occupied l + (if e ≠ "" then 1 else 0) := by
  induction l generalizing i with
  | nil => simp at hi
  | cons x xs ih =>
    cases i with
    | zero =>
      simp only [List.set_cons_zero, occupied, List.countP_cons, List.getElem_cons_zero]
      simp only [decide_eq_true_eq]
      omega
    | succ i =>
      have := ih i (by simpa using hi)
      simp only [occupied, List.set_cons_succ, List.countP_cons, List.getElem_cons_succ] at this ⊢
      omega

theorem mem_empty_of_occupied_lt (l : List String) (h : occupied l < l.length) : "" ∈ l := by
  apply Classical.byContradiction
  intro hn
  have : occupied l = l.length := by
    unfold occupied
    rw [List.countP_eq_length]
    intro x hx
    simp only [decide_eq_true_eq]
    intro e; exact hn (e ▸ hx)
  omega
/-- the bucket invariant behind `CuckooMem.WF` -/
def BucketMemInv (b : BucketMem String) : Prop :=
  b.elements.length = b.size ∧ b.length = occupied b.elements

theorem BucketMemInv.add {b : BucketMem String} (h : BucketMemInv b) (e : String) :
    BucketMemInv (BucketMem.add "" b e) := by
  unfold BucketMem.add
  split
  · exact h
  · rename_i hc
    have hc' : e ≠ "" ∧ b.length < b.size := by
      simpa [BucketMem.isFree, not_or] using hc
    obtain ⟨h1, h2⟩ := h
    have hmem : "" ∈ b.elements := mem_empty_of_occupied_lt _ (by omega)
    have hidx : b.elements.idxOf "" < b.elements.length := List.idxOf_lt_length_iff.2 hmem
    have hget : b.elements[b.elements.idxOf ""] = "" := List.getElem_idxOf hidx
    have := occupied_set b.elements _ e hidx
    simp only [hget, ne_eq, not_true_eq_false, if_false, hc'.1, not_false_eq_true, if_true] at this
    exact ⟨by simpa using h1, by simp only; omega⟩

theorem BucketMemInv.remove {b : BucketMem String} (h : BucketMemInv b) (e : String) (he : e ≠ "") :
    BucketMemInv (BucketMem.remove "" b e) := by
  unfold BucketMem.remove
  split
  · rename_i hc
    have hmem : e ∈ b.elements := by simpa using hc
    obtain ⟨h1, h2⟩ := h
    have hidx : b.elements.idxOf e < b.elements.length := List.idxOf_lt_length_iff.2 hmem
    have hget : b.elements[b.elements.idxOf e] = e := List.getElem_idxOf hidx
    have := occupied_set b.elements _ "" hidx
    simp only [hget, ne_eq, he, not_false_eq_true, if_true, not_true_eq_false, if_false] at this
    exact ⟨by simpa using h1, by simp only; omega⟩
  · exact h

/-- the eviction loop's `set` on a FULL bucket with a non-empty fingerprint -/
theorem BucketMemInv.set_full {b : BucketMem String} (h : BucketMemInv b) (hfull : b.isFree = false)
    (i : Nat) (e : String) (he : e ≠ "") : BucketMemInv (BucketMem.set b i e) := by
  obtain ⟨h1, h2⟩ := h
  have hfull' : ¬ b.length < b.size := by simpa [BucketMem.isFree] using hfull
  have hle : occupied b.elements ≤ b.elements.length := List.countP_le_length
  unfold BucketMem.set
  by_cases hi : i < b.elements.length
  · have hall : ∀ x ∈ b.elements, decide (x ≠ "") = true :=
      List.countP_eq_length.1 (by unfold occupied at *; omega)
    have hget : b.elements[i] ≠ "" := by simpa using hall _ (List.getElem_mem hi)
    have := occupied_set b.elements i e hi
    simp only [hget, ne_eq, not_false_eq_true, if_true, he] at this
    exact ⟨by simpa using h1, by simp only; omega⟩
  · rw [List.set_eq_of_length_le (by omega)]
    exact ⟨h1, h2⟩


/-- the bucket invariant behind `CuckooRedis.WF` -/
def BucketRedisInv (b : BucketRedis String) : Prop :=
  b.list.length ≤ b.size ∧ b.len = occupied b.list

theorem BucketRedisInv.add {b : BucketRedis String} (h : BucketRedisInv b) (e : String) :
    BucketRedisInv (BucketRedis.add "" b e) := by
  unfold BucketRedis.add
  split
  · exact h
  · rename_i hc
    have hc' : e ≠ "" ∧ b.len < b.size := by
      simpa [BucketRedis.isFree, not_or] using hc
    obtain ⟨h1, h2⟩ := h
    split
    · rename_i hm
      have hmem : "" ∈ b.list := by simpa using hm
      have hidx : b.list.idxOf "" < b.list.length := List.idxOf_lt_length_iff.2 hmem
      have hget : b.list[b.list.idxOf ""] = "" := List.getElem_idxOf hidx
      have := occupied_set b.list _ e hidx
      simp only [hget, ne_eq, not_true_eq_false, if_false, hc'.1, not_false_eq_true, if_true] at this
      exact ⟨by simpa using h1, by simp only; omega⟩
    · rename_i hm
      have hnm : "" ∉ b.list := by simpa using hm
      have hall : occupied b.list = b.list.length := by
        unfold occupied
        rw [List.countP_eq_length]
        intro x hx
        simp only [decide_eq_true_eq]
        intro e'; exact hnm (e' ▸ hx)
      refine ⟨by simp only [List.length_cons]; omega, ?_⟩
      have hocc : occupied (e :: b.list) = occupied b.list + 1 := by
        simp [occupied, hc'.1]
      simp only [hocc]
      omega

theorem BucketRedisInv.remove {b : BucketRedis String} (h : BucketRedisInv b) (e : String) (he : e ≠ "") :
    BucketRedisInv (BucketRedis.remove "" b e) := by
  unfold BucketRedis.remove
  split
  · rename_i hc
    have hmem : e ∈ b.list := by simpa using hc
    obtain ⟨h1, h2⟩ := h
    have hidx : b.list.idxOf e < b.list.length := List.idxOf_lt_length_iff.2 hmem
    have hget : b.list[b.list.idxOf e] = e := List.getElem_idxOf hidx
    have := occupied_set b.list _ "" hidx
    simp only [hget, ne_eq, he, not_false_eq_true, if_true, not_true_eq_false, if_false] at this
    exact ⟨by simpa using h1, by simp only; omega⟩
  · exact h

theorem BucketRedisInv.set_full {b : BucketRedis String} (h : BucketRedisInv b) (hfull : b.isFree = false)
    (i : Nat) (e : String) (he : e ≠ "") : BucketRedisInv (BucketRedis.set b i e) := by
  obtain ⟨h1, h2⟩ := h
  have hfull' : ¬ b.len < b.size := by simpa [BucketRedis.isFree] using hfull
  have hle : occupied b.list ≤ b.list.length := List.countP_le_length
  unfold BucketRedis.set
  by_cases hi : i < b.list.length
  · have hall : ∀ x ∈ b.list, decide (x ≠ "") = true :=
      List.countP_eq_length.1 (by unfold occupied at *; omega)
    have hget : b.list[i] ≠ "" := by simpa using hall _ (List.getElem_mem hi)
    have := occupied_set b.list i e hi
    simp only [hget, ne_eq, not_false_eq_true, if_true, he] at this
    exact ⟨by simpa using h1, by simp only; omega⟩
  · rw [List.set_eq_of_length_le (by omega)]
    exact ⟨h1, h2⟩

end Gostatix.Json
