/-
  Gostatix.Proofs.RedisKeys — decimal strings and the Redis key names.

  * `parseDecimal (decimal n) = some n`, `decimal n = toString n`, `decimal` injective;
  * `KeyD.render` is injective on descriptors whose base key is a 16-letter string (`IsBase`);
  * hence the keys of one handle are pairwise distinct and the keys of two handles with
    different base keys are disjoint.
-/
import Gostatix.Model.Redis
namespace Gostatix.Redis

/-! ### decimal -/

theorem decimal_eq_toString (n : Nat) : decimal n = toString n := rfl

@[simp] theorem decimal_toList (n : Nat) : (decimal n).toList = Nat.toDigits 10 n := by
  simp [decimal]

theorem decimal_digits (n : Nat) : ∀ c ∈ (decimal n).toList, c.isDigit = true := by
  intro c hc
  rw [decimal_toList] at hc
  exact Nat.isDigit_of_mem_toDigits (by decide) (by decide) hc

theorem decimal_toList_ne_nil (n : Nat) : (decimal n).toList ≠ [] := by
  rw [decimal_toList]; exact Nat.toDigits_ne_nil

theorem decimal_length_pos (n : Nat) : 0 < (decimal n).toList.length := by
  have := decimal_toList_ne_nil n
  cases h : (decimal n).toList with
  | nil => exact absurd h this
  | cons a l => simp

theorem parseDecimal_decimal (n : Nat) : parseDecimal (decimal n) = some n := by
  unfold parseDecimal
  have h1 : (decimal n).toList ≠ [] := decimal_toList_ne_nil n
  have h2 : (decimal n).toList.all Char.isDigit = true := by
    rw [List.all_eq_true]; exact decimal_digits n
  simp only [h1, h2, ne_eq, not_false_eq_true, and_self, if_true]
  rw [decimal_toList, Nat.ofDigitChars_ten_toDigits]

theorem decimal_inj {a b : Nat} (h : decimal a = decimal b) : a = b := by
  have := parseDecimal_decimal a
  rw [h, parseDecimal_decimal] at this
  exact (Option.some.inj this).symm

theorem atoi_decimal (n : Nat) (h : n < 2 ^ 63) : atoi (decimal n) = n := by
  unfold atoi; rw [parseDecimal_decimal]; simp only; omega

theorem parseUint32_decimal (n : Nat) (h : n < 2 ^ 32) : parseUint32 (decimal n) = n := by
  unfold parseUint32; rw [parseDecimal_decimal]; simp only; omega

theorem underscore_not_in_decimal (n : Nat) : '_' ∉ (decimal n).toList := by
  rw [decimal_toList]; exact Nat.underscore_not_in_toDigits

/-! ### rendered keys as character lists -/

def cuckooP : List Char := ['c', 'u', 'c', 'k', 'o', 'o', '_']
def bucketP : List Char := ['_', 'b', 'u', 'c', 'k', 'e', 't', '_']
def lenP : List Char := ['_', 'l', 'e', 'n']

def KeyD.renderL : KeyD → List Char
  | .base b => b.toList
  | .row b r => b.toList ++ (decimal r).toList
  | .bucket b i => cuckooP ++ (b.toList ++ (bucketP ++ (decimal i).toList))
  | .blen b i => cuckooP ++ (b.toList ++ (bucketP ++ ((decimal i).toList ++ lenP)))

theorem toList_cuckoo : "cuckoo_".toList = cuckooP := by decide
theorem toList_bucket : "_bucket_".toList = bucketP := by decide
theorem toList_len : "_len".toList = lenP := by decide

theorem KeyD.render_toList (d : KeyD) : d.render.toList = d.renderL := by
  cases d <;>
    simp only [KeyD.render, KeyD.renderL, String.toList_append, toList_cuckoo, toList_bucket,
      toList_len, List.append_assoc]

theorem IsBase.len {b : String} (h : IsBase b) : b.toList.length = 16 := by
  rw [String.length_toList]; exact h.1

theorem IsBase.alpha {b : String} (h : IsBase b) : ∀ c ∈ b.toList, c.isAlpha = true := h.2

/-- position 6 of a 16-letter base key followed by anything is a letter … -/
theorem base_at6 {b : String} (h : IsBase b) (t : List Char) :
    ∃ c, (b.toList ++ t)[6]? = some c ∧ c.isAlpha = true := by
  have hl := h.len
  have h6 : 6 < b.toList.length := by omega
  refine ⟨b.toList[6], ?_, h.alpha _ (List.getElem_mem h6)⟩
  rw [List.getElem?_append_left h6, List.getElem?_eq_getElem h6]

/-- … while position 6 of a cuckoo key is `'_'`. -/
theorem cuckoo_at6 (t : List Char) : (cuckooP ++ t)[6]? = some '_' := by
  simp [cuckooP]

theorem base_ne_cuckoo {b : String} (h : IsBase b) (t u : List Char) :
    b.toList ++ t ≠ cuckooP ++ u := by
  intro e
  obtain ⟨c, hc, ha⟩ := base_at6 h t
  rw [e, cuckoo_at6] at hc
  cases hc
  exact absurd ha (by decide)

/-- `KeyD.render` is injective on descriptors over 16-letter base keys. -/
theorem KeyD.renderL_inj {d₁ d₂ : KeyD} (h₁ : IsBase d₁.baseOf) (h₂ : IsBase d₂.baseOf)
    (e : d₁.renderL = d₂.renderL) : d₁ = d₂ := by
  cases d₁ with
  | base b₁ =>
    have l₁ := h₁.len
    cases d₂ with
    | base b₂ => simp only [KeyD.renderL] at e; rw [String.toList_inj.mp e]
    | row b₂ r₂ =>
      have l₂ := h₂.len
      have := decimal_length_pos r₂
      have := congrArg List.length e
      simp only [KeyD.renderL, KeyD.baseOf, List.length_append] at *
      omega
    | bucket b₂ i₂ =>
      have l₂ := h₂.len
      have := congrArg List.length e
      simp only [KeyD.renderL, KeyD.baseOf, List.length_append, cuckooP, List.length_cons, List.length_nil] at *
      omega
    | blen b₂ i₂ =>
      have l₂ := h₂.len
      have := congrArg List.length e
      simp only [KeyD.renderL, KeyD.baseOf, List.length_append, cuckooP, List.length_cons, List.length_nil] at *
      omega
  | row b₁ r₁ =>
    have l₁ := h₁.len
    cases d₂ with
    | base b₂ =>
      have l₂ := h₂.len
      have := decimal_length_pos r₁
      have := congrArg List.length e
      simp only [KeyD.renderL, KeyD.baseOf, List.length_append] at *
      omega
    | row b₂ r₂ =>
      have l₂ := h₂.len
      simp only [KeyD.renderL, KeyD.baseOf] at *
      obtain ⟨eb, er⟩ := List.append_inj e (by omega)
      rw [String.toList_inj.mp eb, decimal_inj (String.toList_inj.mp er)]
    | bucket b₂ i₂ => exact absurd e (base_ne_cuckoo h₁ _ _)
    | blen b₂ i₂ => exact absurd e (base_ne_cuckoo h₁ _ _)
  | bucket b₁ i₁ =>
    have l₁ := h₁.len
    cases d₂ with
    | base b₂ =>
      have l₂ := h₂.len
      have := congrArg List.length e
      simp only [KeyD.renderL, KeyD.baseOf, List.length_append, cuckooP, List.length_cons, List.length_nil] at *
      omega
    | row b₂ r₂ => exact absurd e.symm (base_ne_cuckoo h₂ _ _)
    | bucket b₂ i₂ =>
      have l₂ := h₂.len
      simp only [KeyD.renderL, KeyD.baseOf] at *
      have e1 := List.append_cancel_left e
      obtain ⟨eb, e2⟩ := List.append_inj e1 (by omega)
      have e3 := List.append_cancel_left e2
      rw [String.toList_inj.mp eb, decimal_inj (String.toList_inj.mp e3)]
    | blen b₂ i₂ =>
      have l₂ := h₂.len
      simp only [KeyD.renderL, KeyD.baseOf] at *
      have e1 := List.append_cancel_left e
      obtain ⟨eb, e2⟩ := List.append_inj e1 (by omega)
      have e3 := List.append_cancel_left e2
      have : '_' ∈ (decimal i₁).toList := by rw [e3]; simp [lenP]
      exact absurd this (underscore_not_in_decimal i₁)
  | blen b₁ i₁ =>
    have l₁ := h₁.len
    cases d₂ with
    | base b₂ =>
      have l₂ := h₂.len
      have := congrArg List.length e
      simp only [KeyD.renderL, KeyD.baseOf, List.length_append, cuckooP, List.length_cons, List.length_nil] at *
      omega
    | row b₂ r₂ => exact absurd e.symm (base_ne_cuckoo h₂ _ _)
    | bucket b₂ i₂ =>
      have l₂ := h₂.len
      simp only [KeyD.renderL, KeyD.baseOf] at *
      have e1 := List.append_cancel_left e
      obtain ⟨eb, e2⟩ := List.append_inj e1 (by omega)
      have e3 := List.append_cancel_left e2
      have : '_' ∈ (decimal i₂).toList := by rw [← e3]; simp [lenP]
      exact absurd this (underscore_not_in_decimal i₂)
    | blen b₂ i₂ =>
      have l₂ := h₂.len
      simp only [KeyD.renderL, KeyD.baseOf] at *
      have e1 := List.append_cancel_left e
      obtain ⟨eb, e2⟩ := List.append_inj e1 (by omega)
      have e3 := List.append_cancel_right (List.append_cancel_left e2)
      rw [String.toList_inj.mp eb, decimal_inj (String.toList_inj.mp e3)]

theorem KeyD.render_inj {d₁ d₂ : KeyD} (h₁ : IsBase d₁.baseOf) (h₂ : IsBase d₂.baseOf)
    (e : d₁.render = d₂.render) : d₁ = d₂ := by
  apply KeyD.renderL_inj h₁ h₂
  rw [← KeyD.render_toList, ← KeyD.render_toList, e]

/-! ### list helpers -/

theorem nodup_map_of_inj_on {α β} (f : α → β) (l : List α)
    (hinj : ∀ a ∈ l, ∀ b ∈ l, f a = f b → a = b) (hn : l.Nodup) : (l.map f).Nodup := by
  induction l with
  | nil => simp
  | cons a l ih =>
    rw [List.nodup_cons] at hn
    rw [List.map_cons, List.nodup_cons]
    refine ⟨?_, ih (fun x hx y hy => hinj x (List.mem_cons_of_mem _ hx) y (List.mem_cons_of_mem _ hy)) hn.2⟩
    intro hm
    obtain ⟨b, hb, e⟩ := List.mem_map.mp hm
    have := hinj b (List.mem_cons_of_mem _ hb) a (List.mem_cons_self) e
    subst this
    exact hn.1 hb

theorem nodup_map_range {β} (f : Nat → β) (n : Nat) (hinj : ∀ a b, f a = f b → a = b) :
    ((List.range n).map f).Nodup :=
  nodup_map_of_inj_on f _ (fun a _ b _ => hinj a b) List.nodup_range

/-! ### descriptors of a handle -/

theorem CMSHandle.descr_base (h : CMSHandle) : ∀ d ∈ h.descr, d.baseOf ∈ h.bases := by
  intro d hd
  simp only [CMSHandle.descr, List.mem_cons, List.mem_map, List.mem_range] at hd
  rcases hd with rfl | ⟨r, _, rfl⟩ <;> simp [KeyD.baseOf, CMSHandle.bases]

theorem CMSHandle.descr_nodup (h : CMSHandle) : h.descr.Nodup := by
  unfold CMSHandle.descr
  rw [List.nodup_cons]
  refine ⟨?_, nodup_map_range _ _ (fun a b e => KeyD.row.inj e |>.2)⟩
  intro hm
  obtain ⟨r, _, e⟩ := List.mem_map.mp hm
  cases e

theorem BloomHandle.descr_base (h : BloomHandle) : ∀ d ∈ h.descr, d.baseOf ∈ h.bases := by
  intro d hd
  simp only [BloomHandle.descr, List.mem_cons, List.not_mem_nil, or_false] at hd
  rcases hd with rfl | rfl <;> simp [KeyD.baseOf, BloomHandle.bases]

theorem BloomHandle.descr_nodup (h : BloomHandle) (hn : h.bases.Nodup) : h.descr.Nodup := by
  simp only [BloomHandle.bases, BloomHandle.descr, List.nodup_cons, List.mem_cons,
    List.not_mem_nil, or_false, not_false_eq_true, List.nodup_nil, and_true] at *
  intro e; exact hn (KeyD.base.inj e)

theorem HLLHandle.descr_base (h : HLLHandle) : ∀ d ∈ h.descr, d.baseOf ∈ h.bases := by
  intro d hd
  simp only [HLLHandle.descr, List.mem_cons, List.not_mem_nil, or_false] at hd
  rcases hd with rfl | rfl <;> simp [KeyD.baseOf, HLLHandle.bases]

theorem HLLHandle.descr_nodup (h : HLLHandle) (hn : h.bases.Nodup) : h.descr.Nodup := by
  simp only [HLLHandle.bases, HLLHandle.descr, List.nodup_cons, List.mem_cons,
    List.not_mem_nil, or_false, not_false_eq_true, List.nodup_nil, and_true] at *
  intro e; exact hn (KeyD.base.inj e)

theorem CuckooHandle.descr_base (h : CuckooHandle) : ∀ d ∈ h.descr, d.baseOf ∈ h.bases := by
  intro d hd
  simp only [CuckooHandle.descr, List.mem_append, List.mem_cons, List.not_mem_nil, or_false,
    List.mem_map, List.mem_range] at hd
  rcases hd with (rfl | rfl) | ⟨i, _, rfl⟩ | ⟨i, _, rfl⟩ <;> simp [KeyD.baseOf, CuckooHandle.bases]

theorem CuckooHandle.descr_nodup (h : CuckooHandle) (hn : h.bases.Nodup) : h.descr.Nodup := by
  have hne : h.key ≠ h.metadataKey := by
    simp only [CuckooHandle.bases, List.nodup_cons, List.mem_cons, List.not_mem_nil, or_false] at hn
    exact hn.1
  unfold CuckooHandle.descr
  rw [List.nodup_append]
  refine ⟨?_, ?_, ?_⟩
  · simp only [List.nodup_cons, List.mem_cons, List.not_mem_nil, or_false, not_false_eq_true,
      List.nodup_nil, and_true]
    intro e; exact hne (KeyD.base.inj e)
  · rw [List.nodup_append]
    refine ⟨nodup_map_range _ _ (fun a b e => (KeyD.bucket.inj e).2),
      nodup_map_range _ _ (fun a b e => (KeyD.blen.inj e).2), ?_⟩
    intro a ha b hb e
    obtain ⟨i, _, rfl⟩ := List.mem_map.mp ha
    obtain ⟨j, _, rfl⟩ := List.mem_map.mp hb
    cases e
  · intro a ha b hb e
    subst e
    simp only [List.mem_cons, List.not_mem_nil, or_false] at ha
    simp only [List.mem_append, List.mem_map] at hb
    rcases ha with rfl | rfl <;> rcases hb with ⟨i, _, e⟩ | ⟨i, _, e⟩ <;> cases e

theorem TopKHandle.descr_base (h : TopKHandle) : ∀ d ∈ h.descr, d.baseOf ∈ h.bases := by
  intro d hd
  simp only [TopKHandle.descr, List.mem_append, List.mem_cons, List.not_mem_nil, or_false] at hd
  rcases hd with (rfl | rfl) | hs
  · simp [KeyD.baseOf, TopKHandle.bases]
  · simp [KeyD.baseOf, TopKHandle.bases]
  · have := h.sketch.descr_base d hs
    simp only [TopKHandle.bases, List.mem_append]
    exact Or.inr this

theorem TopKHandle.descr_nodup (h : TopKHandle) (hn : h.bases.Nodup) : h.descr.Nodup := by
  simp only [TopKHandle.bases, CMSHandle.bases, List.cons_append, List.nil_append, List.nodup_cons,
    List.mem_cons, List.not_mem_nil, or_false, not_or] at hn
  unfold TopKHandle.descr
  rw [List.nodup_append]
  refine ⟨?_, h.sketch.descr_nodup, ?_⟩
  · simp only [List.nodup_cons, List.mem_cons, List.not_mem_nil, or_false, not_false_eq_true,
      List.nodup_nil, and_true]
    intro e; exact hn.1.1 (KeyD.base.inj e)
  · intro a ha b hb e
    subst e
    simp only [List.mem_cons, List.not_mem_nil, or_false] at ha
    simp only [CMSHandle.descr, List.mem_cons, List.mem_map] at hb
    rcases ha with rfl | rfl <;> rcases hb with e | ⟨i, _, e⟩
    · exact hn.1.2.2 (KeyD.base.inj e)
    · cases e
    · exact hn.2.1.2 (KeyD.base.inj e)
    · cases e

theorem Handle.descr_base (h : Handle) : ∀ d ∈ h.descr, d.baseOf ∈ h.bases := by
  cases h with
  | bloom h => exact h.descr_base
  | cuckoo h => exact h.descr_base
  | cms h => exact h.descr_base
  | hll h => exact h.descr_base
  | topk h => exact h.descr_base

theorem Handle.descr_nodup (h : Handle) (hn : h.bases.Nodup) : h.descr.Nodup := by
  cases h with
  | bloom h => exact h.descr_nodup hn
  | cuckoo h => exact h.descr_nodup hn
  | cms h => exact h.descr_nodup
  | hll h => exact h.descr_nodup hn
  | topk h => exact h.descr_nodup hn

/-- all keys of one handle are pairwise distinct. -/
theorem Handle.keysOf_nodup (h : Handle) (hb : ∀ b ∈ h.bases, IsBase b) (hn : h.bases.Nodup) :
    h.keysOf.Nodup := by
  unfold Handle.keysOf
  apply nodup_map_of_inj_on _ _ _ (h.descr_nodup hn)
  intro a ha b hb' e
  exact KeyD.render_inj (hb _ (h.descr_base a ha)) (hb _ (h.descr_base b hb')) e

/-- two handles with different 16-letter base keys have disjoint key sets. -/
theorem Handle.keysOf_disjoint (h₁ h₂ : Handle)
    (hb₁ : ∀ b ∈ h₁.bases, IsBase b) (hb₂ : ∀ b ∈ h₂.bases, IsBase b)
    (hne : ∀ b₁ ∈ h₁.bases, ∀ b₂ ∈ h₂.bases, b₁ ≠ b₂) :
    ∀ k, k ∈ h₁.keysOf → k ∉ h₂.keysOf := by
  intro k hk₁ hk₂
  obtain ⟨d₁, hd₁, rfl⟩ := List.mem_map.mp hk₁
  obtain ⟨d₂, hd₂, e⟩ := List.mem_map.mp hk₂
  have := KeyD.render_inj (hb₂ _ (h₂.descr_base d₂ hd₂)) (hb₁ _ (h₁.descr_base d₁ hd₁)) e
  subst this
  exact hne _ (h₁.descr_base _ hd₁) _ (h₂.descr_base _ hd₂) rfl

end Gostatix.Redis
