/-
  Gostatix.Proofs.C03Machine — helper definitions and lemmas for Props/C03Machine.lean: the
  machine-integer Count-Min model `CMSM` (Model/CMSM.lean, `UInt64` cells, wrapping `+`) refines
  the `Nat` model `CMS` (Model/CMS.lean).

    * `absMat` / `absM`   : `toNat` on every cell (the abstraction function);
    * `modMat` / `modM`   : `% 2^64` on every cell of a `Nat` matrix;
    * step lemmas         : `updRowsM_abs`, `addRowsM_abs` (under the no-overflow condition of the
                            step), `updRowsM_mod`, `addRowsM_mod` (unconditional, modulo 2^64),
                            `countM_abs` (unconditional);
    * `runM`              : the machine run of a history tree `Reach.CMSHist` (counts enter as
                            `UInt64.ofNat c`, i.e. the `uint64` argument of `Update`);
    * `StepsOK`           : every step of the machine run satisfies its no-overflow condition;
    * `runM_mod`          : `absM (runM h) = modM h.state` for EVERY history;
    * `runM_refines`      : `h.total < 2^64 → StepsOK h ∧ absM (runM h) = h.state ∧ allSum = ownSum`;
    * `runLM` / `histOf`  : list histories (the histories of Props/C03.lean) and their embedding
                            into history trees.
-/
import Gostatix.Model.CMSM
import Gostatix.Props.C12
import Gostatix.Proofs.C11Reach

namespace Gostatix.CMSM
open Gostatix.CMS (Res)
open Gostatix.Reach (CMSHist Bounded)

/-! ### abstraction -/

/-- `toNat` on every cell -/
def absMat (m : List (List UInt64)) : List (List Nat) := m.map (fun row => row.map UInt64.toNat)

/-- the abstraction function: the `Nat` sketch a machine sketch stands for (`allSum` is not part
    of the `Nat` model state and is dropped) -/
def absM (s : CMSM) : CMS := { rows := s.rows, cols := s.cols, m := absMat s.m }

/-- every cell reduced modulo 2^64 -/
def modMat (m : List (List Nat)) : List (List Nat) := m.map (fun row => row.map (· % 2 ^ 64))

def modM (s : CMS) : CMS := { s with m := modMat s.m }

/-- `absM` under the result type of `Merge` -/
def resAbs : Res CMSM → Res CMS
  | .ok s => .ok (absM s)
  | .err => .err

/-- `modM` under the result type of `Merge` -/
def resMod : Res CMS → Res CMS
  | .ok s => .ok (modM s)
  | .err => .err

/-- cell `(r,c)` of a machine matrix (0 outside the matrix), cf. `CMS.cell` -/
def cellM (m : List (List UInt64)) (r c : Nat) : UInt64 := (m.getD r []).getD c 0

/-! ### the no-overflow condition of ONE step -/

/-- `Update(pos, c)` does not overflow: every cell it touches, plus the count, fits a `uint64`
    (a position outside its row touches nothing; `getD` gives 0 there, which is harmless). -/
def NoOvfUpdate (s : CMSM) (pos : List Nat) (c : UInt64) : Prop :=
  ∀ v ∈ cellsM s.m pos, v.toNat + c.toNat < 2 ^ 64

/-- cell-wise: every pair of cells that `Merge` adds fits a `uint64`. -/
def NoOvfRows : List (List UInt64) → List (List UInt64) → Prop
  | r1 :: m1, r2 :: m2 => (∀ p ∈ List.zip r1 r2, p.1.toNat + p.2.toNat < 2 ^ 64) ∧ NoOvfRows m1 m2
  | _, _ => True

/-- `a.Merge(b)` does not overflow. -/
def NoOvfMerge (a b : CMSM) : Prop := NoOvfRows a.m b.m

/-! ### generic list helpers -/

theorem map_eq_self {α} (f : α → α) (l : List α) (h : ∀ x ∈ l, f x = x) : l.map f = l := by
  induction l with
  | nil => rfl
  | cons a as ih =>
    rw [List.map_cons, h a List.mem_cons_self, ih (fun x hx => h x (List.mem_cons_of_mem _ hx))]

theorem getD_map_toNat (row : List UInt64) (p : Nat) :
    (row.map UInt64.toNat).getD p 0 = (row.getD p 0).toNat := by
  induction row generalizing p with
  | nil => rfl
  | cons a as ih => cases p with
    | zero => rfl
    | succ p => simpa using ih p

theorem getD_map_mod (row : List Nat) (p : Nat) :
    (row.map (· % 2 ^ 64)).getD p 0 = (row.getD p 0) % 2 ^ 64 := by
  induction row generalizing p with
  | nil => rfl
  | cons a as ih => cases p with
    | zero => rfl
    | succ p => simpa using ih p

/-- `map` commutes with `modAt` as soon as it commutes at the modified position -/
theorem map_modAt {α β} (g : α → β) (f : α → α) (f' : β → β) (d : α) (l : List α) (i : Nat)
    (h : i < l.length → g (f (l.getD i d)) = f' (g (l.getD i d))) :
    (modAt l i f).map g = modAt (l.map g) i f' := by
  induction l generalizing i with
  | nil => rfl
  | cons a as ih =>
    cases i with
    | zero =>
      have := h (by simp)
      simp only [List.getD_cons_zero] at this
      simp [modAt, this]
    | succ i =>
      have := ih i (fun hi => by simpa using h (by simpa using hi))
      simp [modAt, this]

theorem map_mod_toNat (row : List UInt64) :
    (row.map UInt64.toNat).map (· % 2 ^ 64) = row.map UInt64.toNat := by
  apply map_eq_self
  intro x hx
  obtain ⟨u, _, rfl⟩ := List.mem_map.1 hx
  exact Nat.mod_eq_of_lt u.toNat_lt

theorem map_mod_mod (row : List Nat) :
    (row.map (· % 2 ^ 64)).map (· % 2 ^ 64) = row.map (· % 2 ^ 64) := by
  apply map_eq_self
  intro x hx
  obtain ⟨u, _, rfl⟩ := List.mem_map.1 hx
  exact Nat.mod_mod _ _

theorem modMat_absMat (m : List (List UInt64)) : modMat (absMat m) = absMat m := by
  apply map_eq_self
  intro row hrow
  obtain ⟨r, _, rfl⟩ := List.mem_map.1 hrow
  exact map_mod_toNat r

theorem modMat_idem (m : List (List Nat)) : modMat (modMat m) = modMat m := by
  apply map_eq_self
  intro row hrow
  obtain ⟨r, _, rfl⟩ := List.mem_map.1 hrow
  exact map_mod_mod r

/-- a matrix whose cells are all below 2^64 is its own reduction -/
theorem modMat_of_bounded (m : List (List Nat)) (T : Nat) (h : Bounded m T) (hT : T < 2 ^ 64) :
    modMat m = m := by
  apply map_eq_self
  intro row hrow
  apply map_eq_self
  intro v hv
  exact Nat.mod_eq_of_lt (Nat.lt_of_le_of_lt (h row hrow v hv) hT)

/-- `toNat` is injective on matrices -/
theorem absMat_inj (a b : List (List UInt64)) (h : absMat a = absMat b) : a = b := by
  induction a generalizing b with
  | nil => cases b with
    | nil => rfl
    | cons _ _ => simp [absMat] at h
  | cons r a ih =>
    cases b with
    | nil => simp [absMat] at h
    | cons r' b =>
      simp only [absMat, List.map_cons, List.cons.injEq] at h
      have hr : r = r' := by
        have := h.1
        clear h ih
        induction r generalizing r' with
        | nil => cases r' with
          | nil => rfl
          | cons _ _ => simp at this
        | cons x r ihr =>
          cases r' with
          | nil => simp at this
          | cons y r' =>
            simp only [List.map_cons, List.cons.injEq] at this
            rw [UInt64.toNat_inj.1 this.1, ihr r' this.2]
      rw [hr, ih b h.2]

theorem getD_map_default {α β} (f : α → β) (l : List α) (i : Nat) (d : α) :
    (l.map f).getD i (f d) = f (l.getD i d) := by
  induction l generalizing i with
  | nil => rfl
  | cons a as ih => cases i with
    | zero => rfl
    | succ i => simp

theorem cell_absMat (m : List (List UInt64)) (r c : Nat) :
    CMS.cell (absMat m) r c = (cellM m r c).toNat := by
  have e : (absMat m).getD r [] = (m.getD r []).map UInt64.toNat :=
    getD_map_default (fun row : List UInt64 => row.map UInt64.toNat) m r []
  unfold CMS.cell cellM
  rw [e]
  exact getD_map_toNat _ c

theorem cell_modMat (m : List (List Nat)) (r c : Nat) :
    CMS.cell (modMat m) r c = CMS.cell m r c % 2 ^ 64 := by
  have e : (modMat m).getD r [] = (m.getD r []).map (· % 2 ^ 64) :=
    getD_map_default (fun row : List Nat => row.map (· % 2 ^ 64)) m r []
  unfold CMS.cell
  rw [e]
  exact getD_map_mod _ c

/-! ### `Update`: one step -/

/-- exact commutation under the no-overflow condition of the step -/
theorem updRowsM_abs (m : List (List UInt64)) (pos : List Nat) (c : UInt64)
    (h : ∀ v ∈ cellsM m pos, v.toNat + c.toNat < 2 ^ 64) :
    absMat (updRowsM m pos c) = CMS.updRows (absMat m) pos c.toNat := by
  induction m generalizing pos with
  | nil => cases pos <;> rfl
  | cons row m ih =>
    cases pos with
    | nil => rfl
    | cons p pos =>
      have h0 := h (row.getD p 0) (by simp [cellsM])
      have ht := ih pos (fun v hv => h v (by simp [cellsM, hv]))
      show (modAt row p (fun cell => cellUpdate cell c)).map UInt64.toNat
          :: absMat (updRowsM m pos c)
        = modAt (row.map UInt64.toNat) p (· + c.toNat) :: CMS.updRows (absMat m) pos c.toNat
      rw [ht, map_modAt UInt64.toNat _ (· + c.toNat) 0 row p]
      intro _
      show (row.getD p 0 + c).toNat = (row.getD p 0).toNat + c.toNat
      rw [UInt64.toNat_add, Nat.mod_eq_of_lt h0]

theorem modAt_toNat_mod (row : List UInt64) (p : Nat) (c : UInt64) :
    (modAt row p (fun cell => cellUpdate cell c)).map UInt64.toNat
      = (modAt (row.map UInt64.toNat) p (· + c.toNat)).map (· % 2 ^ 64) := by
  induction row generalizing p with
  | nil => rfl
  | cons a as ih =>
    cases p with
    | zero =>
      simp only [modAt, List.map_cons, cellUpdate, UInt64.toNat_add]
      rw [map_mod_toNat]
    | succ p =>
      simp only [modAt, List.map_cons, ih p]
      rw [Nat.mod_eq_of_lt a.toNat_lt]

/-- unconditional: one machine `Update` is the `Nat` update followed by `% 2^64` -/
theorem updRowsM_mod (m : List (List UInt64)) (pos : List Nat) (c : UInt64) :
    absMat (updRowsM m pos c) = modMat (CMS.updRows (absMat m) pos c.toNat) := by
  induction m generalizing pos with
  | nil => cases pos <;> rfl
  | cons row m ih =>
    cases pos with
    | nil => exact (modMat_absMat _).symm
    | cons p pos =>
      show (modAt row p (fun cell => cellUpdate cell c)).map UInt64.toNat
          :: absMat (updRowsM m pos c)
        = (modAt (row.map UInt64.toNat) p (· + c.toNat)).map (· % 2 ^ 64)
          :: modMat (CMS.updRows (absMat m) pos c.toNat)
      rw [ih pos, modAt_toNat_mod]

theorem modAt_mod_mod (row : List Nat) (p c : Nat) :
    (modAt (row.map (· % 2 ^ 64)) p (· + c % 2 ^ 64)).map (· % 2 ^ 64)
      = (modAt row p (· + c)).map (· % 2 ^ 64) := by
  induction row generalizing p with
  | nil => rfl
  | cons a as ih =>
    cases p with
    | zero =>
      simp only [modAt, List.map_cons]
      rw [map_mod_mod, ← Nat.add_mod]
    | succ p =>
      simp only [modAt, List.map_cons, ih p, Nat.mod_mod]

/-- reducing the operands first does not change the reduced result of an update -/
theorem modMat_updRows (m : List (List Nat)) (pos : List Nat) (c : Nat) :
    modMat (CMS.updRows (modMat m) pos (c % 2 ^ 64)) = modMat (CMS.updRows m pos c) := by
  induction m generalizing pos with
  | nil => cases pos <;> rfl
  | cons row m ih =>
    cases pos with
    | nil => exact modMat_idem (row :: m)
    | cons p pos =>
      show (modAt (row.map (· % 2 ^ 64)) p (· + c % 2 ^ 64)).map (· % 2 ^ 64)
          :: modMat (CMS.updRows (modMat m) pos (c % 2 ^ 64))
        = (modAt row p (· + c)).map (· % 2 ^ 64) :: modMat (CMS.updRows m pos c)
      rw [ih pos, modAt_mod_mod]

/-! ### `Count` -/

theorem foldMinM_toNat (vs : List UInt64) (v : UInt64) :
    (vs.foldl (fun mn x => if x < mn then x else mn) v).toNat
      = (vs.map UInt64.toNat).foldl CMS.minStep v.toNat := by
  induction vs generalizing v with
  | nil => rfl
  | cons x vs ih =>
    simp only [List.foldl_cons, List.map_cons]
    rw [ih]
    congr 1
    simp only [CMS.minStep]
    by_cases hlt : x < v
    · rw [if_pos hlt, if_pos (UInt64.lt_iff_toNat_lt.1 hlt)]
    · rw [if_neg hlt, if_neg (fun h => hlt (UInt64.lt_iff_toNat_lt.2 h))]

/-- the `uint64` minimum is the `Nat` minimum of the values -/
theorem minInitM_toNat (l : List UInt64) :
    (minInitM l).toNat = CMS.minInit (l.map UInt64.toNat) := by
  cases l with
  | nil => rfl
  | cons v vs => exact foldMinM_toNat vs v

theorem cellsM_abs (m : List (List UInt64)) (pos : List Nat) :
    (cellsM m pos).map UInt64.toNat = CMS.cells (absMat m) pos := by
  induction m generalizing pos with
  | nil => cases pos <;> rfl
  | cons row m ih =>
    cases pos with
    | nil => rfl
    | cons p pos =>
      show (row.getD p 0).toNat :: (cellsM m pos).map UInt64.toNat
        = (row.map UInt64.toNat).getD p 0 :: CMS.cells (absMat m) pos
      rw [ih pos, getD_map_toNat]

/-- `Count` commutes with the abstraction, without any hypothesis -/
theorem countM_abs (s : CMSM) (pos : List Nat) : (s.countM pos).toNat = (absM s).count pos := by
  unfold countM CMS.count
  rw [minInitM_toNat, cellsM_abs]; rfl

theorem cells_modMat (m : List (List Nat)) (pos : List Nat) :
    CMS.cells (modMat m) pos = (CMS.cells m pos).map (· % 2 ^ 64) := by
  induction m generalizing pos with
  | nil => cases pos <;> rfl
  | cons row m ih =>
    cases pos with
    | nil => rfl
    | cons p pos =>
      show (row.map (· % 2 ^ 64)).getD p 0 :: CMS.cells (modMat m) pos
        = (row.getD p 0) % 2 ^ 64 :: (CMS.cells m pos).map (· % 2 ^ 64)
      rw [ih pos, getD_map_mod]

/-! ### `Merge`: one step -/

theorem zipWith_abs (r1 r2 : List UInt64)
    (h : ∀ p ∈ List.zip r1 r2, p.1.toNat + p.2.toNat < 2 ^ 64) :
    (List.zipWith cellMerge r1 r2).map UInt64.toNat
      = List.zipWith (· + ·) (r1.map UInt64.toNat) (r2.map UInt64.toNat) := by
  induction r1 generalizing r2 with
  | nil => rfl
  | cons a r1 ih =>
    cases r2 with
    | nil => rfl
    | cons b r2 =>
      have h0 := h (a, b) (by simp)
      have ht := ih r2 (fun p hp => h p (by simp [hp]))
      simp only [List.zipWith_cons_cons, List.map_cons, ht, cellMerge, UInt64.toNat_add]
      rw [Nat.mod_eq_of_lt h0]

/-- exact commutation under the no-overflow condition of the merge -/
theorem addRowsM_abs (a b : List (List UInt64)) (h : NoOvfRows a b) :
    absMat (addRowsM a b) = CMS.addRows (absMat a) (absMat b) := by
  induction a generalizing b with
  | nil => cases b <;> rfl
  | cons r1 a ih =>
    cases b with
    | nil => rfl
    | cons r2 b =>
      show (List.zipWith cellMerge r1 r2).map UInt64.toNat :: absMat (addRowsM a b)
        = List.zipWith (· + ·) (r1.map UInt64.toNat) (r2.map UInt64.toNat)
          :: CMS.addRows (absMat a) (absMat b)
      rw [ih b h.2, zipWith_abs r1 r2 h.1]

theorem zipWith_toNat_mod (r1 r2 : List UInt64) :
    (List.zipWith cellMerge r1 r2).map UInt64.toNat
      = (List.zipWith (· + ·) (r1.map UInt64.toNat) (r2.map UInt64.toNat)).map (· % 2 ^ 64) := by
  induction r1 generalizing r2 with
  | nil => rfl
  | cons a r1 ih =>
    cases r2 with
    | nil => rfl
    | cons b r2 =>
      simp only [List.zipWith_cons_cons, List.map_cons, ih r2, cellMerge, UInt64.toNat_add]

/-- unconditional: one machine `Merge` is the `Nat` merge followed by `% 2^64` -/
theorem addRowsM_mod (a b : List (List UInt64)) :
    absMat (addRowsM a b) = modMat (CMS.addRows (absMat a) (absMat b)) := by
  induction a generalizing b with
  | nil => cases b <;> rfl
  | cons r1 a ih =>
    cases b with
    | nil => exact (modMat_absMat _).symm
    | cons r2 b =>
      show (List.zipWith cellMerge r1 r2).map UInt64.toNat :: absMat (addRowsM a b)
        = (List.zipWith (· + ·) (r1.map UInt64.toNat) (r2.map UInt64.toNat)).map (· % 2 ^ 64)
          :: modMat (CMS.addRows (absMat a) (absMat b))
      rw [ih b, zipWith_toNat_mod]

theorem zipWith_mod_mod (r1 r2 : List Nat) :
    (List.zipWith (· + ·) (r1.map (· % 2 ^ 64)) (r2.map (· % 2 ^ 64))).map (· % 2 ^ 64)
      = (List.zipWith (· + ·) r1 r2).map (· % 2 ^ 64) := by
  induction r1 generalizing r2 with
  | nil => rfl
  | cons a r1 ih =>
    cases r2 with
    | nil => rfl
    | cons b r2 =>
      simp only [List.zipWith_cons_cons, List.map_cons, ih r2]
      rw [← Nat.add_mod]

/-- reducing the operands first does not change the reduced result of a merge -/
theorem modMat_addRows (a b : List (List Nat)) :
    modMat (CMS.addRows (modMat a) (modMat b)) = modMat (CMS.addRows a b) := by
  induction a generalizing b with
  | nil => cases b <;> rfl
  | cons r1 a ih =>
    cases b with
    | nil => exact modMat_idem (r1 :: a)
    | cons r2 b =>
      show (List.zipWith (· + ·) (r1.map (· % 2 ^ 64)) (r2.map (· % 2 ^ 64))).map (· % 2 ^ 64)
          :: modMat (CMS.addRows (modMat a) (modMat b))
        = (List.zipWith (· + ·) r1 r2).map (· % 2 ^ 64) :: modMat (CMS.addRows a b)
      rw [ih b, zipWith_mod_mod]

theorem mergeM_ok (a b : CMSM) (hr : a.rows = b.rows) (hc : a.cols = b.cols) :
    mergeM a b = .ok { a with m := addRowsM a.m b.m } := by
  simp [mergeM, hr, hc]

theorem mergeM_err (a b : CMSM) (h : a.rows ≠ b.rows ∨ a.cols ≠ b.cols) :
    mergeM a b = .err := by
  unfold mergeM
  rcases h with h | h
  · simp [h]
  · simp [h]

/-- cells bounded by `T₁`, `T₂` with `T₁ + T₂ < 2^64` cannot overflow in a merge -/
theorem noOvfRows_of_bounded (a b : List (List UInt64)) (T₁ T₂ : Nat)
    (h₁ : Bounded (absMat a) T₁) (h₂ : Bounded (absMat b) T₂) (hT : T₁ + T₂ < 2 ^ 64) :
    NoOvfRows a b := by
  induction a generalizing b with
  | nil => cases b <;> trivial
  | cons r1 a ih =>
    cases b with
    | nil => trivial
    | cons r2 b =>
      refine ⟨?_, ih b (fun r hr => h₁ r (List.mem_cons_of_mem _ hr))
        (fun r hr => h₂ r (List.mem_cons_of_mem _ hr))⟩
      intro p hp
      obtain ⟨p1, p2⟩ := p
      obtain ⟨m1, m2⟩ := List.of_mem_zip hp
      have b1 := h₁ (r1.map UInt64.toNat) List.mem_cons_self p1.toNat (List.mem_map_of_mem m1)
      have b2 := h₂ (r2.map UInt64.toNat) List.mem_cons_self p2.toNat (List.mem_map_of_mem m2)
      show p1.toNat + p2.toNat < 2 ^ 64
      omega

/-! ### history trees -/

/-- the machine run of a history: `Update(pos, c)` receives the `uint64` `UInt64.ofNat c`
    (every `uint64` argument `u` is `UInt64.ofNat u.toNat`); a `Merge` that returns an error leaves
    the receiver alone. -/
def runM : CMSHist → CMSM
  | .new r c => CMSM.new r c
  | .update h pos c => (runM h).updateM pos (UInt64.ofNat c)
  | .merge h g => match mergeM (runM h) (runM g) with
    | .ok s => s
    | .err => runM h

/-- every step of the machine run that reaches the result satisfies the no-overflow condition of
    that step (a merged history `g` counts only when the merge succeeds). -/
def StepsOK : CMSHist → Prop
  | .new _ _ => True
  | .update h pos c => StepsOK h ∧ c < 2 ^ 64 ∧ NoOvfUpdate (runM h) pos (UInt64.ofNat c)
      ∧ (runM h).allSum.toNat + c < 2 ^ 64
  | .merge h g => StepsOK h
      ∧ (h.rows = g.rows ∧ h.cols = g.cols → StepsOK g ∧ NoOvfMerge (runM h) (runM g))

theorem runM_dims : ∀ h : CMSHist, (runM h).rows = h.rows ∧ (runM h).cols = h.cols
  | .new _ _ => ⟨rfl, rfl⟩
  | .update h _ _ => runM_dims h
  | .merge h g => by
    obtain ⟨h1, h2⟩ := runM_dims h
    by_cases hd : (runM h).rows = (runM g).rows ∧ (runM h).cols = (runM g).cols
    · simp only [runM, mergeM_ok _ _ hd.1 hd.2]; exact ⟨h1, h2⟩
    · have : (runM h).rows ≠ (runM g).rows ∨ (runM h).cols ≠ (runM g).cols := by
        by_cases hr : (runM h).rows = (runM g).rows
        · exact Or.inr (fun hc => hd ⟨hr, hc⟩)
        · exact Or.inl hr
      simp only [runM, mergeM_err _ _ this]; exact ⟨h1, h2⟩

theorem absMat_new (rows cols : Nat) : absMat (CMSM.new rows cols).m = (CMS.new rows cols).m := by
  simp [absMat, CMSM.new, CMS.new, List.map_replicate]

theorem modMat_new (rows cols : Nat) : modMat (CMS.new rows cols).m = (CMS.new rows cols).m := by
  simp [modMat, CMS.new, List.map_replicate]

theorem absM_new (rows cols : Nat) : absM (CMSM.new rows cols) = CMS.new rows cols :=
  CMS.cms_ext _ _ rfl rfl (absMat_new rows cols)

theorem dims_ne {h g : CMSHist} (hd : ¬ (h.rows = g.rows ∧ h.cols = g.cols)) :
    h.rows ≠ g.rows ∨ h.cols ≠ g.cols := by
  by_cases hr : h.rows = g.rows
  · exact Or.inr (fun hc => hd ⟨hr, hc⟩)
  · exact Or.inl hr

/-- **modulo 2^64, always**: for every history (any counts, any totals) every cell of the machine
    run is the cell of the `Nat` run reduced modulo 2^64, and `allSum` is `ownSum` modulo 2^64. -/
theorem runM_mod : ∀ h : CMSHist,
    absM (runM h) = modM h.state ∧ (runM h).allSum.toNat = h.ownSum % 2 ^ 64
  | .new r c => ⟨CMS.cms_ext _ _ rfl rfl (by
      show absMat (CMSM.new r c).m = modMat (CMS.new r c).m
      rw [absMat_new, modMat_new]), rfl⟩
  | .update h pos c => by
    obtain ⟨ih, ihs⟩ := runM_mod h
    have im : absMat (runM h).m = modMat h.state.m := congrArg CMS.m ih
    have ir : (runM h).rows = h.state.rows := congrArg CMS.rows ih
    have ic : (runM h).cols = h.state.cols := congrArg CMS.cols ih
    refine ⟨CMS.cms_ext _ _ ir ic ?_, ?_⟩
    · show absMat (updRowsM (runM h).m pos (UInt64.ofNat c)) = modMat (CMS.updRows h.state.m pos c)
      rw [updRowsM_mod, im, UInt64.toNat_ofNat', modMat_updRows]
    · show ((runM h).allSum + UInt64.ofNat c).toNat = (h.ownSum + c) % 2 ^ 64
      rw [UInt64.toNat_add, ihs, UInt64.toNat_ofNat', ← Nat.add_mod]
  | .merge h g => by
    obtain ⟨ih, ihs⟩ := runM_mod h
    obtain ⟨ig, _⟩ := runM_mod g
    obtain ⟨h1, h2, _, _⟩ := CMSHist.inv h
    obtain ⟨g1, g2, _, _⟩ := CMSHist.inv g
    obtain ⟨mh1, mh2⟩ := runM_dims h
    obtain ⟨mg1, mg2⟩ := runM_dims g
    by_cases hd : h.rows = g.rows ∧ h.cols = g.cols
    · have e1 := mergeM_ok (runM h) (runM g) (by rw [mh1, mg1, hd.1]) (by rw [mh2, mg2, hd.2])
      have e2 := CMS.merge_ok h.state g.state (by rw [h1, g1, hd.1]) (by rw [h2, g2, hd.2])
      simp only [runM, CMSHist.state, CMSHist.ownSum, e1, e2]
      have ir : (runM h).rows = h.state.rows := congrArg CMS.rows ih
      have ic : (runM h).cols = h.state.cols := congrArg CMS.cols ih
      refine ⟨CMS.cms_ext _ _ ir ic ?_, ihs⟩
      show absMat (addRowsM (runM h).m (runM g).m) = modMat (CMS.addRows h.state.m g.state.m)
      have im : absMat (runM h).m = modMat h.state.m := congrArg CMS.m ih
      have gm : absMat (runM g).m = modMat g.state.m := congrArg CMS.m ig
      rw [addRowsM_mod, im, gm, modMat_addRows]
    · have e1 := mergeM_err (runM h) (runM g) (by rw [mh1, mg1, mh2, mg2]; exact dims_ne hd)
      have e2 := CMS.merge_err h.state g.state (by rw [h1, g1, h2, g2]; exact dims_ne hd)
      simp only [runM, CMSHist.state, CMSHist.ownSum, e1, e2]
      exact ⟨ih, ihs⟩

theorem total_merge_ok {h g : CMSHist} (hd : h.rows = g.rows ∧ h.cols = g.cols) :
    (CMSHist.merge h g).total = h.total + g.total := by
  simp only [CMSHist.total, if_pos hd]

theorem total_merge_err {h g : CMSHist} (hd : ¬ (h.rows = g.rows ∧ h.cols = g.cols)) :
    (CMSHist.merge h g).total = h.total := by
  simp only [CMSHist.total, if_neg hd, Nat.add_zero]

/-- **refinement along a history**: below 2^64 in total, no step of the machine run overflows,
    and the machine state abstracts to the `Nat` state (the proof goes step by step through
    `updRowsM_abs` / `addRowsM_abs`, whose hypotheses are discharged by the cell bound
    `CMSHist.inv`). -/
theorem runM_refines : ∀ h : CMSHist, h.total < 2 ^ 64 →
    StepsOK h ∧ absM (runM h) = h.state ∧ (runM h).allSum.toNat = h.ownSum
  | .new r c, _ => ⟨trivial, absM_new r c, rfl⟩
  | .update h pos c, hT => by
    have hT' : h.total + c < 2 ^ 64 := hT
    obtain ⟨ok, ih, ihs⟩ := runM_refines h (by omega)
    obtain ⟨_, _, _, hb⟩ := CMSHist.inv h
    have im : absMat (runM h).m = h.state.m := congrArg CMS.m ih
    have hc : (UInt64.ofNat c).toNat = c := UInt64.toNat_ofNat_of_lt' (by show c < 2 ^ 64; omega)
    have hown := CMSHist.ownSum_le_total h
    have hno : NoOvfUpdate (runM h) pos (UInt64.ofNat c) := by
      intro v hv
      have hv' : v.toNat ∈ CMS.cells h.state.m pos := by
        rw [← im, ← cellsM_abs]; exact List.mem_map_of_mem hv
      have := Reach.mem_cells_le h.state.m pos h.total hb _ hv'
      rw [hc]; omega
    have ir : (runM h).rows = h.state.rows := congrArg CMS.rows ih
    have ic : (runM h).cols = h.state.cols := congrArg CMS.cols ih
    refine ⟨⟨ok, by omega, hno, by rw [ihs]; omega⟩, CMS.cms_ext _ _ ir ic ?_, ?_⟩
    · show absMat (updRowsM (runM h).m pos (UInt64.ofNat c)) = CMS.updRows h.state.m pos c
      rw [updRowsM_abs _ _ _ hno, im, hc]
    · show ((runM h).allSum + UInt64.ofNat c).toNat = h.ownSum + c
      rw [UInt64.toNat_add, ihs, hc, Nat.mod_eq_of_lt (by omega)]
  | .merge h g, hT => by
    obtain ⟨h1, h2, _, hb⟩ := CMSHist.inv h
    obtain ⟨g1, g2, _, gb⟩ := CMSHist.inv g
    obtain ⟨mh1, mh2⟩ := runM_dims h
    obtain ⟨mg1, mg2⟩ := runM_dims g
    by_cases hd : h.rows = g.rows ∧ h.cols = g.cols
    · rw [total_merge_ok hd] at hT
      obtain ⟨ok, ih, ihs⟩ := runM_refines h (by omega)
      obtain ⟨okg, ig, _⟩ := runM_refines g (by omega)
      have im : absMat (runM h).m = h.state.m := congrArg CMS.m ih
      have gm : absMat (runM g).m = g.state.m := congrArg CMS.m ig
      have hno : NoOvfMerge (runM h) (runM g) :=
        noOvfRows_of_bounded _ _ h.total g.total (by rw [im]; exact hb) (by rw [gm]; exact gb) hT
      have e1 := mergeM_ok (runM h) (runM g) (by rw [mh1, mg1, hd.1]) (by rw [mh2, mg2, hd.2])
      have e2 := CMS.merge_ok h.state g.state (by rw [h1, g1, hd.1]) (by rw [h2, g2, hd.2])
      simp only [runM, CMSHist.state, CMSHist.ownSum, StepsOK, e1, e2]
      have ir : (runM h).rows = h.state.rows := congrArg CMS.rows ih
      have ic : (runM h).cols = h.state.cols := congrArg CMS.cols ih
      refine ⟨⟨ok, fun _ => ⟨okg, hno⟩⟩, CMS.cms_ext _ _ ir ic ?_, ihs⟩
      show absMat (addRowsM (runM h).m (runM g).m) = CMS.addRows h.state.m g.state.m
      rw [addRowsM_abs _ _ hno, im, gm]
    · rw [total_merge_err hd] at hT
      obtain ⟨ok, ih, ihs⟩ := runM_refines h hT
      have e1 := mergeM_err (runM h) (runM g) (by rw [mh1, mg1, mh2, mg2]; exact dims_ne hd)
      have e2 := CMS.merge_err h.state g.state (by rw [h1, g1, h2, g2]; exact dims_ne hd)
      simp only [runM, CMSHist.state, CMSHist.ownSum, StepsOK, e1, e2]
      exact ⟨⟨ok, fun hd' => absurd hd' hd⟩, ih, ihs⟩

/-! ### list histories (the histories of Props/C03.lean) -/

section lists
variable {E : Type}

/-- the machine sketch after the updates of the list history `h`, starting from `s`
    (`CMS.run` of Props/C03.lean on the machine model). -/
def runLM (pos : E → List Nat) (s : CMSM) (h : List (E × Nat)) : CMSM :=
  h.foldl (fun s ec => s.updateM (pos ec.1) (UInt64.ofNat ec.2)) s

/-- the list history as a history tree on top of `t` -/
def histOf (pos : E → List Nat) (t : CMSHist) (h : List (E × Nat)) : CMSHist :=
  h.foldl (fun t ec => .update t (pos ec.1) ec.2) t

theorem histOf_facts (pos : E → List Nat) (t : CMSHist) (h : List (E × Nat)) :
    (histOf pos t h).state = CMS.run pos t.state h
    ∧ runM (histOf pos t h) = runLM pos (runM t) h
    ∧ (histOf pos t h).total = t.total + CMS.total h
    ∧ (histOf pos t h).ownSum = t.ownSum + CMS.total h
    ∧ (histOf pos t h).rows = t.rows ∧ (histOf pos t h).cols = t.cols := by
  induction h generalizing t with
  | nil => exact ⟨rfl, rfl, rfl, rfl, rfl, rfl⟩
  | cons ec h ih =>
    obtain ⟨a, b, c, d, e, f⟩ := ih (.update t (pos ec.1) ec.2)
    simp only [histOf, List.foldl_cons] at a b c d e f ⊢
    refine ⟨a, b, ?_, ?_, e, f⟩
    · rw [c]; simp only [CMSHist.total, CMS.total, List.map_cons, sumL_cons]; omega
    · rw [d]; simp only [CMSHist.ownSum, CMS.total, List.map_cons, sumL_cons]; omega

end lists

end Gostatix.CMSM
