/-
  Gostatix.Proofs.CuckooOrbit — orbit-count arithmetic (pure `Nat` facts, no lists).
  `kcOf alt c j g` is the number of copies of fingerprint `g` in the candidate pair `{j, alt j g}`
  for a per-bucket count function `c`.
-/
import Gostatix.Proofs.CuckooList
set_option linter.unusedSectionVars false
namespace Gostatix

section
variable {F : Type} [DecidableEq F]

def kcOf (alt : Nat → F → Nat) (c : Nat → F → Nat) (j : Nat) (g : F) : Nat :=
  if alt j g = j then c j g else c j g + c (alt j g) g

theorem kc_add_key (alt : Nat → F → Nat) (n : Nat)
    (hInv : ∀ j f, j < n → alt j f < n ∧ alt (alt j f) f = j)
    (c c' : Nat → F → Nat) (i : Nat) (f : F) (hi : i < n)
    (j : Nat) (g : F) (hj : j < n)
    (h : ∀ j, c' j g = c j g + (if j = i ∧ f = g then 1 else 0)) :
    kcOf alt c' j g = kcOf alt c j g + (if g = f ∧ (j = i ∨ j = alt i f) then 1 else 0) := by
  unfold kcOf
  rw [h j, h (alt j g)]
  by_cases hg : g = f
  · subst hg
    have ij := (hInv j g hj).2
    have ii := (hInv i g hi).2
    by_cases a1 : j = i
    · subst a1
      by_cases a4 : alt j g = j
      · simp [a4]
      · simp [a4]; omega
    · by_cases a3 : j = alt i g
      · subst a3
        have a1' : ¬ (i = alt i g) := fun e => a1 e.symm
        simp [ii, a1, a1']; omega
      · have a5 : alt j g ≠ i := by
          intro e; apply a3; rw [← e, ij]
        by_cases a4 : alt j g = j <;> simp [a1, a3, a4, a5]
  · have hg' : ¬ (f = g) := fun e => hg e.symm
    simp [hg, hg']

/-- the orbit of `(alt i f, f)` is the orbit of `(i, f)` -/
theorem orbit_alt (alt : Nat → F → Nat) (n : Nat)
    (hInv : ∀ j f, j < n → alt j f < n ∧ alt (alt j f) f = j) (i : Nat) (f : F) (hi : i < n) (j : Nat) :
    (j = alt i f ∨ j = alt (alt i f) f) ↔ (j = i ∨ j = alt i f) := by
  rw [(hInv i f hi).2]; exact Or.comm

theorem kcOf_congr (alt : Nat → F → Nat) (c c' : Nat → F → Nat) (j : Nat) (g : F)
    (h : ∀ j, c' j g = c j g) : kcOf alt c' j g = kcOf alt c j g := by
  unfold kcOf; rw [h j, h (alt j g)]

end
end Gostatix
