/-
  Gostatix.Proofs.CuckooFilter — `Cuckoo.insert` / `Cuckoo.lookup` / `Cuckoo.remove` over any lawful
  bucket implementation.
-/
import Gostatix.Proofs.CuckooKick
set_option linter.unusedSectionVars false
namespace Gostatix

/-- the filter state carried by an insert result -/
def CRes.val {α : Type} : CRes α → α
  | .ok a => a
  | .full a => a

/-- `Insert` returned true -/
def CRes.isOk {α : Type} : CRes α → Bool
  | .ok _ => true
  | .full _ => false

namespace Cuckoo

section
variable {B F : Type} [DecidableEq F] [Inhabited B] {o : BucketOps B F} {emp : F}

/-- well-formed filter: `n` well-formed buckets of size `bsize`, `length` = occupied slots -/
structure WF (L : LawfulBucket o emp) (c : Cuckoo B) : Prop where
  bs : WFbs L c.n c.bsize c.buckets
  len : c.length = tocc L c.buckets

/-- the three ways `insert` can go -/
theorem insert_cases (alt : Nat → F → Nat) (c : Cuckoo B) (fp : F) (i1 i2 : Nat)
    (d side : Bool) (slots : List Nat) :
    (o.isFree (bucketAt c.buckets i1) = true ∧
      insert o alt c fp i1 i2 d side slots =
        .ok { c with buckets := modAt c.buckets i1 (fun b => o.add b fp), length := c.length + 1 }) ∨
    (o.isFree (bucketAt c.buckets i1) = false ∧ o.isFree (bucketAt c.buckets i2) = true ∧
      insert o alt c fp i1 i2 d side slots =
        .ok { c with buckets := modAt c.buckets i2 (fun b => o.add b fp), length := c.length + 1 }) ∨
    (o.isFree (bucketAt c.buckets i1) = false ∧ o.isFree (bucketAt c.buckets i2) = false ∧
      ∃ bs log found,
        kick o alt c.retries c.buckets (if side then i1 else i2) fp slots [] = (bs, log, found) ∧
        insert o alt c fp i1 i2 d side slots =
          if found then .ok { c with buckets := bs, length := c.length + 1 }
          else if d then .full { c with buckets := bs }
          else .full { c with buckets := rollback o bs log }) := by
  unfold insert
  by_cases h1 : o.isFree (bucketAt c.buckets i1) = true
  · left; exact ⟨h1, by rw [if_pos h1]⟩
  · right
    have h1' : o.isFree (bucketAt c.buckets i1) = false := by simpa using h1
    by_cases h2 : o.isFree (bucketAt c.buckets i2) = true
    · left; exact ⟨h1', h2, by rw [if_neg h1, if_pos h2]⟩
    · right
      have h2' : o.isFree (bucketAt c.buckets i2) = false := by simpa using h2
      refine ⟨h1', h2', ?_⟩
      rw [if_neg h1, if_neg h2]
      dsimp only
      generalize kick o alt c.retries c.buckets (if side then i1 else i2) fp slots [] = res
      obtain ⟨bs, log, found⟩ := res
      exact ⟨bs, log, found, rfl, rfl⟩

/-- the configuration fields are untouched -/
def SameParams (c c' : Cuckoo B) : Prop :=
  c'.n = c.n ∧ c'.bsize = c.bsize ∧ c'.fpl = c.fpl ∧ c'.retries = c.retries

theorem SameParams.refl (c : Cuckoo B) : SameParams c c := ⟨rfl, rfl, rfl, rfl⟩

theorem SameParams.trans {c c' c'' : Cuckoo B} (h : SameParams c c') (h' : SameParams c' c'') :
    SameParams c c'' :=
  ⟨h'.1.trans h.1, h'.2.1.trans h.2.1, h'.2.2.1.trans h.2.2.1, h'.2.2.2.trans h.2.2.2⟩

/-- `insert` never touches the configuration (no hypotheses) -/
theorem insert_params (alt : Nat → F → Nat) (c : Cuckoo B) (fp : F) (i1 i2 : Nat)
    (d side : Bool) (slots : List Nat) : SameParams c (insert o alt c fp i1 i2 d side slots).val := by
  rcases insert_cases (o := o) alt c fp i1 i2 d side slots with
    ⟨_, h1⟩ | ⟨_, _, h1⟩ | ⟨_, _, bs, log, found, _, h1⟩
  · rw [h1]; exact ⟨rfl, rfl, rfl, rfl⟩
  · rw [h1]; exact ⟨rfl, rfl, rfl, rfl⟩
  · rw [h1]; cases found <;> cases d <;> exact ⟨rfl, rfl, rfl, rfl⟩

theorem remove_params (c : Cuckoo B) (fp : F) (i1 i2 : Nat) :
    SameParams c (remove o c fp i1 i2).1 := by
  unfold remove
  split
  · exact ⟨rfl, rfl, rfl, rfl⟩
  · split <;> exact ⟨rfl, rfl, rfl, rfl⟩

/-- **rollback is exact** (any `n`, any `alt`, any state): a failed non-destructive insert returns
    the state it started from. -/
theorem insert_full_nondestructive (L : LawfulBucket o emp) (alt : Nat → F → Nat) (c : Cuckoo B)
    (fp : F) (i1 i2 : Nat) (side : Bool) (slots : List Nat) (c' : Cuckoo B)
    (h : insert o alt c fp i1 i2 false side slots = .full c') : c' = c := by
  rcases insert_cases (o := o) alt c fp i1 i2 false side slots with
    ⟨_, h1⟩ | ⟨_, _, h1⟩ | ⟨_, _, bs, log, found, hk, h1⟩
  · rw [h1] at h; cases h
  · rw [h1] at h; cases h
  · rw [h1] at h
    cases found with
    | true => simp at h
    | false =>
      have hr := kick_rollback L alt _ _ _ _ _ _ _ _ hk
      simp only [Bool.false_eq_true, if_false] at h
      injection h with h
      rw [← h, hr]
      rfl

/-- what a successful insert does -/
structure InsertOk (L : LawfulBucket o emp) (c c' : Cuckoo B) (fp : F) : Prop where
  wf : WF L c'
  params : SameParams c c'
  length : c'.length = c.length + 1
  tocc : tocc L c'.buckets = tocc L c.buckets + 1
  tcnt : ∀ g, g ≠ emp → tcnt L c'.buckets g = tcnt L c.buckets g + ind (fp = g)
  bucket : ∃ j0, j0 < c.n ∧ o.isFree (bucketAt c.buckets j0) = true ∧
    ∀ j, occB L c'.buckets j = occB L c.buckets j + ind (j = j0)

/-- what a failed insert does (destructive or not) -/
structure InsertFull (L : LawfulBucket o emp) (c c' : Cuckoo B) (fp : F) (i1 i2 : Nat) : Prop where
  wf : WF L c'
  params : SameParams c c'
  length : c'.length = c.length
  full1 : o.isFree (bucketAt c.buckets i1) = false
  full2 : o.isFree (bucketAt c.buckets i2) = false
  tocc : tocc L c'.buckets = tocc L c.buckets
  occB : ∀ j, occB L c'.buckets j = occB L c.buckets j
  tcnt : ∃ y, y ≠ emp ∧ (y = fp ∨ 0 < tcnt L c.buckets y) ∧
    ∀ g, tcnt L c'.buckets g + ind (y = g) = tcnt L c.buckets g + ind (fp = g)

theorem insert_ok_spec (L : LawfulBucket o emp) (alt : Nat → F → Nat) (c : Cuckoo B)
    (fp : F) (i1 i2 : Nat) (d side : Bool) (slots : List Nat) (c' : Cuckoo B)
    (hwf : WF L c) (hAlt : ∀ j f, j < c.n → alt j f < c.n) (hs : 0 < c.bsize) (hfp : fp ≠ emp)
    (hi1 : i1 < c.n) (hi2 : i2 < c.n) (hsl : ∀ x ∈ slots, x < c.bsize)
    (h : insert o alt c fp i1 i2 d side slots = .ok c') : InsertOk L c c' fp := by
  have direct : ∀ j0, j0 < c.n → o.isFree (bucketAt c.buckets j0) = true →
      InsertOk L c { c with buckets := modAt c.buckets j0 (fun b => o.add b fp), length := c.length + 1 } fp := by
    intro j0 hj0 hfree
    have ad := add_step L c.n c.bsize c.buckets j0 fp hwf.bs hj0 hfree hfp
    exact ⟨⟨ad.wf, by simp only; rw [ad.tocc, hwf.len]⟩, ⟨rfl, rfl, rfl, rfl⟩, rfl, ad.tocc, ad.tcnt,
      ⟨j0, hj0, hfree, ad.occB⟩⟩
  rcases insert_cases (o := o) alt c fp i1 i2 d side slots with
    ⟨hf, h1⟩ | ⟨_, hf, h1⟩ | ⟨hf1, hf2, bs, log, found, hk, h1⟩
  · rw [h1] at h; injection h with h; rw [← h]; exact direct i1 hi1 hf
  · rw [h1] at h; injection h with h; rw [← h]; exact direct i2 hi2 hf
  · rw [h1] at h
    have hidx : (if side = true then i1 else i2) < c.n := by cases side <;> simpa
    have hfull : o.isFree (bucketAt c.buckets (if side = true then i1 else i2)) = false := by
      cases side <;> simpa
    have sp := kick_spec L alt c.n c.bsize hAlt hs _ _ _ _ _ _ _ _ _ hwf.bs hidx hfull hfp hsl hk
    cases found with
    | false => cases d <;> simp at h
    | true =>
      simp only [if_true] at h
      injection h with h; rw [← h]
      exact ⟨⟨sp.wf, by simp only; rw [sp.ok_tocc rfl, hwf.len]⟩, ⟨rfl, rfl, rfl, rfl⟩, rfl,
        sp.ok_tocc rfl, sp.ok_tcnt rfl, sp.ok_bucket rfl⟩

theorem insert_full_spec (L : LawfulBucket o emp) (alt : Nat → F → Nat) (c : Cuckoo B)
    (fp : F) (i1 i2 : Nat) (d side : Bool) (slots : List Nat) (c' : Cuckoo B)
    (hwf : WF L c) (hAlt : ∀ j f, j < c.n → alt j f < c.n) (hs : 0 < c.bsize) (hfp : fp ≠ emp)
    (hi1 : i1 < c.n) (hi2 : i2 < c.n) (hsl : ∀ x ∈ slots, x < c.bsize)
    (h : insert o alt c fp i1 i2 d side slots = .full c') : InsertFull L c c' fp i1 i2 := by
  rcases insert_cases (o := o) alt c fp i1 i2 d side slots with
    ⟨hf, h1⟩ | ⟨_, hf, h1⟩ | ⟨hf1, hf2, bs, log, found, hk, h1⟩
  · rw [h1] at h; cases h
  · rw [h1] at h; cases h
  · cases d with
    | false =>
      have := insert_full_nondestructive L alt c fp i1 i2 side slots c' h
      subst this
      exact ⟨hwf, ⟨rfl, rfl, rfl, rfl⟩, rfl, hf1, hf2, rfl, fun _ => rfl,
        ⟨fp, hfp, Or.inl rfl, fun _ => rfl⟩⟩
    | true =>
      rw [h1] at h
      have hidx : (if side = true then i1 else i2) < c.n := by cases side <;> simpa
      have hfull : o.isFree (bucketAt c.buckets (if side = true then i1 else i2)) = false := by
        cases side <;> simpa
      have sp := kick_spec L alt c.n c.bsize hAlt hs _ _ _ _ _ _ _ _ _ hwf.bs hidx hfull hfp hsl hk
      cases found with
      | true => simp at h
      | false =>
        simp only [Bool.false_eq_true, if_false, if_true] at h
        injection h with h; rw [← h]
        exact ⟨⟨sp.wf, by simp only; rw [sp.full_tocc rfl, hwf.len]⟩, ⟨rfl, rfl, rfl, rfl⟩, rfl, hf1, hf2,
          sp.full_tocc rfl, sp.full_occB rfl, sp.full_tcnt rfl⟩

/-- a failed insert ran the eviction loop to exhaustion and saw only full buckets -/
theorem insert_full_log (L : LawfulBucket o emp) (alt : Nat → F → Nat) (c : Cuckoo B)
    (fp : F) (i1 i2 : Nat) (d side : Bool) (slots : List Nat) (c' : Cuckoo B)
    (hwf : WF L c) (hAlt : ∀ j f, j < c.n → alt j f < c.n) (hs : 0 < c.bsize) (hfp : fp ≠ emp)
    (hi1 : i1 < c.n) (hi2 : i2 < c.n) (hsl : ∀ x ∈ slots, x < c.bsize)
    (h : insert o alt c fp i1 i2 d side slots = .full c') :
    ∃ bs log, kick o alt c.retries c.buckets (if side then i1 else i2) fp slots [] = (bs, log, false) ∧
      log.length = c.retries ∧
      ∀ e ∈ log, e.2.1 < c.n ∧ o.isFree (bucketAt c.buckets e.2.1) = false ∧
        o.isFree (bucketAt c.buckets (alt e.2.1 e.1)) = false := by
  rcases insert_cases (o := o) alt c fp i1 i2 d side slots with
    ⟨hf, h1⟩ | ⟨_, hf, h1⟩ | ⟨hf1, hf2, bs, log, found, hk, h1⟩
  · rw [h1] at h; cases h
  · rw [h1] at h; cases h
  · rw [h1] at h
    cases found with
    | true => simp at h
    | false =>
      have hidx : (if side = true then i1 else i2) < c.n := by cases side <;> simpa
      have hfull : o.isFree (bucketAt c.buckets (if side = true then i1 else i2)) = false := by
        cases side <;> simpa
      obtain ⟨new, e1, e2, e3⟩ :=
        kick_log L alt c.n c.bsize hAlt hs _ _ _ _ _ _ _ _ hwf.bs hidx hfull hfp hsl hk
      rw [List.append_nil] at e1
      subst e1
      exact ⟨bs, log, hk, e2, e3⟩

/-- `insert` always returns a well-formed filter -/
theorem insert_wf (L : LawfulBucket o emp) (alt : Nat → F → Nat) (c : Cuckoo B)
    (fp : F) (i1 i2 : Nat) (d side : Bool) (slots : List Nat)
    (hwf : WF L c) (hAlt : ∀ j f, j < c.n → alt j f < c.n) (hs : 0 < c.bsize) (hfp : fp ≠ emp)
    (hi1 : i1 < c.n) (hi2 : i2 < c.n) (hsl : ∀ x ∈ slots, x < c.bsize) :
    WF L (insert o alt c fp i1 i2 d side slots).val ∧
    SameParams c (insert o alt c fp i1 i2 d side slots).val := by
  cases h : insert o alt c fp i1 i2 d side slots with
  | ok c' =>
    have := insert_ok_spec L alt c fp i1 i2 d side slots c' hwf hAlt hs hfp hi1 hi2 hsl h
    exact ⟨this.wf, this.params⟩
  | full c' =>
    have := insert_full_spec L alt c fp i1 i2 d side slots c' hwf hAlt hs hfp hi1 hi2 hsl h
    exact ⟨this.wf, this.params⟩

/-! ### lookup -/

/-- copies of `g` stored in the candidate pair `{j, alt j g}` -/
def kc (L : LawfulBucket o emp) (alt : Nat → F → Nat) (c : Cuckoo B) (j : Nat) (g : F) : Nat :=
  kcOf alt (cntB L c.buckets) j g

theorem lookup_iff (L : LawfulBucket o emp) (c : Cuckoo B) (fp : F) (i1 i2 : Nat) :
    lookup o c fp i1 i2 = true ↔ 0 < cntB L c.buckets i1 fp ∨ 0 < cntB L c.buckets i2 fp := by
  unfold lookup cntB
  rw [Bool.or_eq_true, L.lookup_eq, L.lookup_eq, List.contains_iff_mem, List.contains_iff_mem,
    List.count_pos_iff, List.count_pos_iff]

theorem lookup_iff_kc (L : LawfulBucket o emp) (alt : Nat → F → Nat) (c : Cuckoo B) (fp : F) (i1 : Nat) :
    lookup o c fp i1 (alt i1 fp) = true ↔ 0 < kc L alt c i1 fp := by
  rw [lookup_iff L]
  unfold kc kcOf
  by_cases e : alt i1 fp = i1
  · rw [if_pos e, e]; simp
  · rw [if_neg e]; omega

/-! ### insert, orbit counts -/

/-- **C02 core**: a successful insert raises the orbit count of its own key by one and leaves every
    other orbit count unchanged, whatever the eviction loop did. -/
theorem insert_ok_kc (L : LawfulBucket o emp) (alt : Nat → F → Nat) (c : Cuckoo B)
    (fp : F) (i1 : Nat) (d side : Bool) (slots : List Nat) (c' : Cuckoo B)
    (hwf : WF L c) (hInv : ∀ j f, j < c.n → alt j f < c.n ∧ alt (alt j f) f = j) (hs : 0 < c.bsize)
    (hfp : fp ≠ emp) (hi1 : i1 < c.n) (hsl : ∀ x ∈ slots, x < c.bsize)
    (h : insert o alt c fp i1 (alt i1 fp) d side slots = .ok c') :
    ∀ j g, j < c.n → g ≠ emp →
      kc L alt c' j g = kc L alt c j g + ind (g = fp ∧ (j = i1 ∨ j = alt i1 fp)) := by
  intro j g hj hg
  have hi2 := (hInv i1 fp hi1).1
  have horb := orbit_alt alt c.n hInv i1 fp hi1 j
  unfold kc
  rcases insert_cases (o := o) alt c fp i1 (alt i1 fp) d side slots with
    ⟨hf, h1⟩ | ⟨_, hf, h1⟩ | ⟨hf1, hf2, bs, log, found, hk, h1⟩
  · rw [h1] at h; injection h with h; rw [← h]
    have ad := add_step L c.n c.bsize c.buckets i1 fp hwf.bs hi1 hf hfp
    exact kc_add_key alt c.n hInv _ _ i1 fp hi1 j g hj (fun j => ad.cnt j g hg)
  · rw [h1] at h; injection h with h; rw [← h]
    have ad := add_step L c.n c.bsize c.buckets (alt i1 fp) fp hwf.bs hi2 hf hfp
    rw [kc_add_key alt c.n hInv _ _ (alt i1 fp) fp hi2 j g hj (fun j => ad.cnt j g hg)]
    simp only [ind, horb]
  · rw [h1] at h
    cases found with
    | false => cases d <;> simp at h
    | true =>
      simp only [if_true] at h
      injection h with h; rw [← h]
      cases side with
      | true =>
        exact kick_kc L alt c.n c.bsize hInv hs _ _ _ _ _ _ _ _ hwf.bs hi1 hf1 hfp hsl hk j g hj hg
      | false =>
        have := kick_kc L alt c.n c.bsize hInv hs _ _ _ _ _ _ _ _ hwf.bs hi2 hf2 hfp hsl hk j g hj hg
        rw [this]
        simp only [ind, horb]

/-- **no kick, any `n`**: if one of the candidate buckets has room the insert succeeds and only
    adds `fp` to that bucket (no involution hypothesis). -/
theorem insert_nokick (L : LawfulBucket o emp) (alt : Nat → F → Nat) (c : Cuckoo B)
    (fp : F) (i1 i2 : Nat) (d side : Bool) (slots : List Nat)
    (hwf : WF L c) (hfp : fp ≠ emp) (hi1 : i1 < c.n) (hi2 : i2 < c.n)
    (hfree : o.isFree (bucketAt c.buckets i1) = true ∨ o.isFree (bucketAt c.buckets i2) = true) :
    ∃ c' j0, insert o alt c fp i1 i2 d side slots = .ok c' ∧ (j0 = i1 ∨ j0 = i2) ∧
      ∀ j g, g ≠ emp → cntB L c'.buckets j g = cntB L c.buckets j g + ind (j = j0 ∧ fp = g) := by
  rcases insert_cases (o := o) alt c fp i1 i2 d side slots with
    ⟨hf, h1⟩ | ⟨_, hf, h1⟩ | ⟨hf1, hf2, _⟩
  · exact ⟨_, i1, h1, Or.inl rfl, (add_step L c.n c.bsize c.buckets i1 fp hwf.bs hi1 hf hfp).cnt⟩
  · exact ⟨_, i2, h1, Or.inr rfl, (add_step L c.n c.bsize c.buckets i2 fp hwf.bs hi2 hf hfp).cnt⟩
  · rcases hfree with h | h
    · rw [hf1] at h; cases h
    · rw [hf2] at h; cases h

/-! ### remove -/

/-- what a successful remove does -/
structure RemoveOk (L : LawfulBucket o emp) (c c' : Cuckoo B) (fp : F) (i1 i2 : Nat) : Prop where
  wf : WF L c'
  params : SameParams c c'
  length : c'.length + 1 = c.length
  tocc : tocc L c'.buckets + 1 = tocc L c.buckets
  tcnt : ∀ g, g ≠ emp → tcnt L c'.buckets g + ind (fp = g) = tcnt L c.buckets g
  bucket : ∃ j0, (j0 = i1 ∨ j0 = i2) ∧
    (∀ j g, g ≠ emp → cntB L c'.buckets j g + ind (j = j0 ∧ fp = g) = cntB L c.buckets j g) ∧
    (∀ j, occB L c'.buckets j + ind (j = j0) = occB L c.buckets j)

theorem remove_absent (c : Cuckoo B) (fp : F) (i1 i2 : Nat) (h : lookup o c fp i1 i2 = false) :
    remove o c fp i1 i2 = (c, false) := by
  unfold lookup at h
  rw [Bool.or_eq_false_iff] at h
  unfold remove
  simp [h.1, h.2]

theorem remove_present (L : LawfulBucket o emp) (c : Cuckoo B) (fp : F) (i1 i2 : Nat)
    (hwf : WF L c) (hfp : fp ≠ emp) (hi1 : i1 < c.n) (hi2 : i2 < c.n)
    (h : lookup o c fp i1 i2 = true) :
    (remove o c fp i1 i2).2 = true ∧ RemoveOk L c (remove o c fp i1 i2).1 fp i1 i2 := by
  have direct : ∀ j0, j0 < c.n → (j0 = i1 ∨ j0 = i2) → o.lookup (bucketAt c.buckets j0) fp = true →
      RemoveOk L c { c with buckets := modAt c.buckets j0 (fun b => o.remove b fp),
                            length := c.length - 1 } fp i1 i2 := by
    intro j0 hj0 hj hl
    rw [L.lookup_eq, List.contains_iff_mem] at hl
    have rm := remove_step L c.n c.bsize c.buckets j0 fp hwf.bs hj0 hfp hl
    have h1 := rm.tocc
    have h2 := hwf.len
    exact ⟨⟨rm.wf, by simp only; omega⟩, ⟨rfl, rfl, rfl, rfl⟩, by simp only; omega, rm.tocc, rm.tcnt,
      ⟨j0, hj, rm.cnt, rm.occB⟩⟩
  unfold remove
  by_cases h1 : o.lookup (bucketAt c.buckets i1) fp = true
  · rw [if_pos h1]; exact ⟨rfl, direct i1 hi1 (Or.inl rfl) h1⟩
  · rw [if_neg h1]
    have h2 : o.lookup (bucketAt c.buckets i2) fp = true := by
      unfold lookup at h
      rw [Bool.or_eq_true] at h
      rcases h with h | h
      · exact absurd h h1
      · exact h
    rw [if_pos h2]; exact ⟨rfl, direct i2 hi2 (Or.inr rfl) h2⟩

/-- a successful remove lowers the orbit count of exactly its own key by one -/
theorem remove_kc (L : LawfulBucket o emp) (alt : Nat → F → Nat) (c : Cuckoo B) (fp : F) (i1 : Nat)
    (hwf : WF L c) (hInv : ∀ j f, j < c.n → alt j f < c.n ∧ alt (alt j f) f = j)
    (hfp : fp ≠ emp) (hi1 : i1 < c.n) (h : lookup o c fp i1 (alt i1 fp) = true) :
    ∀ j g, j < c.n → g ≠ emp →
      kc L alt (remove o c fp i1 (alt i1 fp)).1 j g + ind (g = fp ∧ (j = i1 ∨ j = alt i1 fp))
        = kc L alt c j g := by
  intro j g hj hg
  have hi2 := (hInv i1 fp hi1).1
  have horb := orbit_alt alt c.n hInv i1 fp hi1 j
  obtain ⟨_, rm⟩ := remove_present L c fp i1 (alt i1 fp) hwf hfp hi1 hi2 h
  obtain ⟨j0, hj0, hc, _⟩ := rm.bucket
  unfold kc
  rcases hj0 with e | e
  · subst e
    rw [kc_add_key alt c.n hInv _ (cntB L c.buckets) j0 fp hi1 j g hj (fun j => (hc j g hg).symm)]
  · subst e
    rw [kc_add_key alt c.n hInv _ (cntB L c.buckets) (alt i1 fp) fp hi2 j g hj (fun j => (hc j g hg).symm)]
    simp only [ind, horb]

end
end Cuckoo
end Gostatix
